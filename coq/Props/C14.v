(** C14 — unvalidated clients get at most 3x their bytes; tokens prove only their address.
    Only statements live here; each is closed by [exact] of a lemma proved in coq/AmpToken/. *)
From Coq Require Import List ZArith Bool.
From V Require Import Gen.Params Lib.Hex
     AmpToken.AmpModel AmpToken.AmpProofs AmpToken.TokenModel AmpToken.TokenProofs.
From V Require SentPH.Model SentPH.ProofsScalars AmpToken.AmpFull.
From V Require Import AmpToken.AmpReplay.
From V Require Import AmpToken.StatelessModel AmpToken.StatelessProofs AmpToken.WireModel AmpToken.WireProofs.
Import ListNotations.
Open Scope Z_scope.

(** * (a) The amplification limit of sentPacketHandler + the connection's send gate *)

(** The constant generated from internal/ackhandler/sent_packet_handler.go is 3. *)
Theorem C14_amplification_factor : amplificationFactor = 3.
Proof. exact factor_is_3. Qed.
Print Assumptions C14_amplification_factor.

(** For every history of a server-side handler (datagram arrivals of any size, decrypted
    packets of any level, send attempts gated by SendMode — each a datagram of any number
    of coalesced packets —, loss-timer expiries, and arbitrary changes of the timer/PTO
    sub-state by ACK processing), at every prefix, while the address is not validated:
    bytesSent <= 3 * bytesReceived + size of the last datagram the gate let through. *)
Theorem C14_amplification_bound : forall validated0 pto ops k s last,
  Forall wf_op ops ->
  run_g (init validated0 pto, 0) (firstn k ops) = (s, last) ->
  validated s = false ->
  bytesSent s <= 3 * bytesReceived s + last.
Proof. exact amplification_bound_prefix. Qed.
Print Assumptions C14_amplification_bound.

(** With datagrams of at most D bytes: bytesSent <= 3 * bytesReceived + D. *)
Theorem C14_amplification_bound_mtu : forall validated0 pto ops D,
  0 <= D -> Forall wf_op ops -> Forall (dgrams_le D) ops ->
  validated (run (init validated0 pto) ops) = false ->
  bytesSent (run (init validated0 pto) ops) <= 3 * bytesReceived (run (init validated0 pto) ops) + D.
Proof. exact amplification_bound_mtu. Qed.
Print Assumptions C14_amplification_bound_mtu.

(** Before each permitted send the unvalidated server is strictly below the limit ... *)
Theorem C14_send_permitted_strict : forall s,
  validated s = false -> sendMode s <> amp_SendNone -> bytesSent s < 3 * bytesReceived s.
Proof. exact permitted_send_strict. Qed.
Print Assumptions C14_send_permitted_strict.

(** ... and at or above it SendMode is SendNone and a send attempt changes nothing. *)
Theorem C14_limited_blocks : forall s t pkts,
  validated s = false -> 3 * bytesReceived s <= bytesSent s ->
  sendMode s = amp_SendNone /\ trySend s t pkts = s.
Proof. exact limited_blocks. Qed.
Print Assumptions C14_limited_blocks.

(** Validation happens only at construction (validated token) or on a Handshake-level packet,
    and is never revoked. *)
Theorem C14_validation_events : forall ops s,
  validated (run s ops) = true ->
  validated s = true \/ exists t, In (RecvPkt amp_EncHandshake t) ops.
Proof. exact validation_events. Qed.
Print Assumptions C14_validation_events.

Theorem C14_validated_stays : forall ops s, validated s = true -> validated (run s ops) = true.
Proof. exact validated_stays. Qed.
Print Assumptions C14_validated_stays.

(** The loss-detection timer: cancelled whenever it is recomputed while limited; and in
    histories of arrivals, gated sends and expiries, an unblocked server with Initial or
    Handshake packets outstanding always has it armed.
    NOTE (audit): [timed_op] excludes [Other], the slice model's stand-in for ACK processing (an arbitrary oracle on the
    timer sub-state, so nothing can be said after it): this theorem covers histories WITHOUT ACKs.  With ACKs, loss
    timers and space drops the statement is C06_timer_armed on the full handler model (coq/Props/C06.v). *)
Theorem C14_timer_cancelled_when_limited : forall s,
  limited s = true -> alarm (tm (setTimer s)) = 0.
Proof. exact timer_cancelled_when_limited. Qed.
Print Assumptions C14_timer_cancelled_when_limited.

Theorem C14_timer_armed_when_unblocked : forall validated0 pto ops,
  Forall timed_op ops ->
  let s := run (init validated0 pto) ops in
  limited s = false -> hasOutstandingCrypto (tm s) = true -> alarm (tm s) <> 0.
Proof. exact timer_armed_when_unblocked. Qed.
Print Assumptions C14_timer_armed_when_unblocked.

(** The same bound on unit C06's FULL model of sentPacketHandler (V.SentPH.Model: packet history,
    ACK processing, loss and PTO timers, packet-number skipping, the MaxTrackedSentPackets /
    MaxOutstandingSentPackets causes of SendNone/SendAck, DropPackets, MigratedPath ...), so the claim does
    not rest on the slice abstraction: (i) C06's theorem (every SentPacket individually gated) with the
    factor fixed to 3; (ii) the form the connection realises — ONE SendMode check per coalesced datagram,
    then a SentPacket for each of its packets: bytesSent <= 3 * bytesReceived + size of the last datagram. *)
Theorem C14_amplification_full_handler : forall validated ipn period maxPeriod rnd0 ops,
  0 <= ipn ->
  let i := SentPH.Model.init false validated ipn period maxPeriod rnd0 in
  SentPH.ProofsScalars.gated i ops ->
  SentPH.Model.sPAV (SentPH.Model.run i ops) = false ->
  SentPH.Model.sSent (SentPH.Model.run i ops)
    <= 3 * SentPH.Model.sRecv (SentPH.Model.run i ops) + SentPH.ProofsScalars.last_size i ops 0.
Proof. exact AmpFull.amplification_full_handler. Qed.
Print Assumptions C14_amplification_full_handler.

Theorem C14_amplification_full_handler_datagrams : forall validated ipn period maxPeriod rnd0 h,
  0 <= ipn ->
  let i := SentPH.Model.init false validated ipn period maxPeriod rnd0 in
  Forall AmpFull.wf_item h -> AmpFull.dgated i h ->
  SentPH.Model.sPAV (SentPH.Model.run i (AmpFull.flat h)) = false ->
  SentPH.Model.sSent (SentPH.Model.run i (AmpFull.flat h))
    <= 3 * SentPH.Model.sRecv (SentPH.Model.run i (AmpFull.flat h)) + AmpFull.last_dgram i h 0.
Proof. exact AmpFull.amplification_full_handler_datagrams. Qed.
Print Assumptions C14_amplification_full_handler_datagrams.

Example C14_amplification_full_handler_nonvacuous :
  let i := SentPH.Model.init false false 0 256 131072 100 in
  Forall AmpFull.wf_item AmpFull.full_example /\ AmpFull.dgated i AmpFull.full_example /\
  SentPH.Model.sPAV (SentPH.Model.run i (AmpFull.flat AmpFull.full_example)) = false /\
  SentPH.Model.sSent (SentPH.Model.run i (AmpFull.flat AmpFull.full_example)) = 3752 /\
  SentPH.Model.sRecv (SentPH.Model.run i (AmpFull.flat AmpFull.full_example)) = 1200 /\
  AmpFull.last_dgram i AmpFull.full_example 0 = 1400 /\
  SentPH.Model.isAmplificationLimited (SentPH.Model.run i (AmpFull.flat AmpFull.full_example)) = true.
Proof. exact AmpFull.full_example_run. Qed.
Print Assumptions C14_amplification_full_handler_nonvacuous.

(** Histories that end with a local close (as repaired by fixes/C14-close-ungated.patch): the bound
    over EVERYTHING the server puts on the wire — packets registered with the handler, the
    CONNECTION_CLOSE datagram written by handleCloseError, its retransmissions by
    closedLocalConn — against everything that reached it, at every prefix. *)
Theorem C14_amplification_bound_close : forall validated0 pto ops k c last,
  Forall wf_cop ops ->
  crun_g (cinit validated0 pto, 0) (firstn k ops) = (c, last) ->
  validated (sph c) = false ->
  wireSent c <= 3 * wireRcvd c + last.
Proof. exact amplification_bound_close. Qed.
Print Assumptions C14_amplification_bound_close.

(** An unvalidated server that has sent something and used up its limit closes silently:
    no CONNECTION_CLOSE is written, and nothing that arrives later makes it send anything. *)
Theorem C14_close_gated : forall c size ops,
  closedPkt c = None -> validated (sph c) = false ->
  0 < bytesSent (sph c) -> 3 * bytesReceived (sph c) <= bytesSent (sph c) ->
  crun c (Close false size :: ops) = CS (sph c) (Some 0) 0 0 0 0.
Proof. exact close_gated. Qed.
Print Assumptions C14_close_gated.

(** The hypothesis [Close false] of the two theorems above is needed: the close decision trusts
    Conn.handshakeComplete; with that flag set while the handler's own flag still says "unvalidated" the
    CONNECTION_CLOSE is written whatever the counters say (5500 sent against a bound of 3700 here).  In the code
    the flag is set while the client's Finished is processed, shortly before ReceivedPacket(Handshake). *)
Example C14_close_hypothesis_needed :
  let '(c, last) := crun_g (cinit false 200000000, 0)
        [ SphOp (Recv 1200 1); SphOp (TrySend 2 [(amp_EncInitial, 1200, true)]); SphOp (TrySend 2 [(amp_EncHandshake, 1200, true)]);
          SphOp (TrySend 2 [(amp_EncHandshake, 3000, true)]); Close true 100 ] in
  validated (sph c) = false /\ wireSent c = 5500 /\ 3 * wireRcvd c + last = 3700.
Proof. exact close_with_handshake_flag_unbounded. Qed.
Print Assumptions C14_close_hypothesis_needed.

(** Regression: the witness of the former finding ampconn/close-ungated (2x1200 B received,
    6x1280 B sent, application close with a 106 B CONNECTION_CLOSE, 37 B datagrams afterwards)
    now ends at 7680 bytes; under the limit the close is written once and retransmitted for the
    1st, 2nd and 4th datagram only while within 3x of what arrived after the close. *)
Example C14_close_regression :
  Forall wf_cop close_example_ops /\
  (let c := crun (cinit false 200000000) close_example_ops in
   wireSent c = 7680 /\ wireRcvd c = 2400 /\ closedPkt c = Some 0) /\
  (let c := crun (cinit false 200000000)
              (firstn 7 close_example_ops ++ [Close false 106; ClosedRecv 37; ClosedRecv 37; ClosedRecv 37; ClosedRecv 37]) in
   wireSent c = 6400 + 106 + 3 * 106 /\ wireRcvd c = 2400 + 148 /\ closedPkt c = Some 106) /\
  (let c := crun (cinit false 200000000) (firstn 7 close_example_ops ++ [Close false 106; ClosedRecv 21]) in
   wireSent c = 6400 + 106).
Proof. exact close_example_run. Qed.
Print Assumptions C14_close_regression.

(** Buffered undecryptable packets.  A datagram is credited when it arrives; packets of it whose keys are
    missing are buffered and handled AGAIN when read keys appear.  [arrived] counts the bytes that really arrived
    in datagrams.  As repaired by fixes/C14-undecryptable-replay-not-credited-again.patch ([qrun false]): everything
    on the wire <= 3 x arrived + last gated datagram, for every history of datagrams (with any buffered parts),
    key events (any subset staying undecryptable), and connection ops incl. close. *)
Theorem C14_amplification_bound_replay : forall validated0 pto ops,
  Forall wf_qop ops ->
  let q := qrun false (qinit validated0 pto) ops in
  validated (sph (fst (qcl q))) = false ->
  wireSent (fst (qcl q)) <= 3 * arrived q + snd (qcl q).
Proof. exact amplification_bound_replay. Qed.
Print Assumptions C14_amplification_bound_replay.

(** The behaviour before that repair ([qrun true]: the replay credits the packet's bytes again) violates the
    property: witness = a 1200 B Initial, a 1200 B datagram of two buffered Handshake-looking packets, a key
    event, ten send attempts: 10800 bytes sent for 2400 bytes arrived.  (Former finding
    amplification/replay-credited-again; the monitor replays this shape on the code.) *)
Theorem C14_replay_credited_again_refuted :
  exists ops, Forall wf_qop ops /\
    let q := qrun true (qinit false 200000000) ops in
    validated (sph (fst (qcl q))) = false /\
    3 * arrived q + snd (qcl q) < wireSent (fst (qcl q)).
Proof. exact replay_credited_again_refuted. Qed.
Print Assumptions C14_replay_credited_again_refuted.

Example C14_replay_regression :
  let q := qrun false (qinit false 200000000) replay_witness in
  wireSent (fst (qcl q)) = 7200 /\ arrived q = 2400 /\ bytesReceived (sph (fst (qcl q))) = 2400 /\
  (let q' := qrun true (qinit false 200000000) replay_witness in
   wireSent (fst (qcl q')) = 10800 /\ arrived q' = 2400 /\ bytesReceived (sph (fst (qcl q'))) = 3600).
Proof. exact replay_witness_repaired. Qed.
Print Assumptions C14_replay_regression.

(** The property at the wire.  [wire_ok] is the predicate an observer between client and server checks
    (a datagram towards an unvalidated address packed after a SendMode check starts strictly under 3x what arrived, an ungated one — CONNECTION_CLOSE, its retransmission, a Retry — at or under it); it is what the
    `ampconn` unit replays on the traces of real connections.  Every wire trace of every history of the
    connection-level model (gated sends, close, retransmissions of the close) satisfies it. *)
Theorem C14_wire_trace_ok : forall validated0 pto ops,
  Forall wf_cop ops -> wire_ok (WS 0 0 validated0) (ctrace_ev (cinit validated0 pto) ops) = true.
Proof. exact wire_trace_ok. Qed.
Print Assumptions C14_wire_trace_ok.

Example C14_wire_ok_nonvacuous :
  wire_ok (WS 0 0 false) [WRecv 1200 false; WRecv 1200 false; WSend 1280; WSend 1280; WSend 1280; WSend 1280; WSend 1280; WSend 1280; WSendU 106] = false /\
  wire_ok (WS 0 0 false) [WRecv 1200 false; WRecv 1200 false; WSend 1280; WSend 1280; WSend 1280; WSend 1280; WSend 1280; WSend 1280; WRecv 1200 true; WSend 1280] = true /\
  ctrace_ev (cinit false 200000000) close_example_ops =
    [WRecv 1200 false; WRecv 1200 false; WSend 1280; WSend 1280; WSend 1280; WSend 1280; WSend 1280; WSend 1280;
     WRecv 37 false; WRecv 37 false; WRecv 37 false; WRecv 37 false].
Proof. exact wire_ok_rejects. Qed.
Print Assumptions C14_wire_ok_nonvacuous.

Example C14_wire_ok_strict :
  wire_ok (WS 0 0 false) [WRecv 100 false; WSend 300; WSend 5000] = false /\
  wire_ok (WS 0 0 false) [WRecv 100 false; WSend 300; WSendU 50] = true /\
  wire_ok (WS 0 0 false) [WSend 5000] = false.
Proof. exact wire_ok_strict. Qed.
Print Assumptions C14_wire_ok_strict.

(** Non-vacuity: a well-formed history that reaches the limit, is blocked, is unblocked by
    a 40-byte datagram, overshoots by one datagram, and is finally validated. *)
Example C14_amplification_example :
  Forall wf_op example_ops /\ Forall timed_op example_ops /\
  (let '(s, last) := run_g (init false 200000000, 0) (firstn 10 example_ops) in
   validated s = false /\ bytesSent s = 5008 /\ bytesReceived s = 1280 /\ last = 1252 /\
   limited s = true /\ alarm (tm s) = 0) /\
  (let s := run (init false 200000000) (firstn 9 example_ops) in
   limited s = false /\ hasOutstandingCrypto (tm s) = true /\ alarm (tm s) = 200000011) /\
  validated (run (init false 200000000) example_ops) = true.
Proof. exact example_run. Qed.
Print Assumptions C14_amplification_example.

(** * (b) Tokens validate only for their address and within their lifetime *)

(** validateToken: true exactly when the presenting address encodes to the token's address
    and the token's age is within the lifetime of its kind. *)
Theorem C14_token_address_lifetime : forall t a now maxTokenAge maxRetryAge,
  validateToken (Some t) a now maxTokenAge maxRetryAge = true <->
  encodeRemoteAddr a = t_addr t /\
  now - t_sent t <= (if t_isRetry t then maxRetryAge else maxTokenAge).
Proof. exact validateToken_spec. Qed.
Print Assumptions C14_token_address_lifetime.

Theorem C14_token_nil_invalid : forall a now maxTokenAge maxRetryAge,
  validateToken None a now maxTokenAge maxRetryAge = false.
Proof. exact validateToken_nil. Qed.
Print Assumptions C14_token_nil_invalid.

(** Two addresses have the same encoding exactly when they are the same kind of address
    with the same IP bytes (UDP; the port is not part of it) or the same string (others). *)
Theorem C14_token_address_encoding : forall a b,
  encodeRemoteAddr a = encodeRemoteAddr b <-> same_addr a b.
Proof. exact encode_same_addr. Qed.
Print Assumptions C14_token_address_encoding.

Example C14_token_address_families :
  ~ same_addr ex_v4 ex_v4mapped /\ ~ same_addr ex_v4 ex_v6 /\ ~ same_addr ex_v4mapped ex_v6 /\
  ~ same_addr ex_v4 ex_str /\ ~ same_addr ex_str ex_v6 /\ ~ same_addr ex_str (UDPAddr [49; 48; 46; 48; 46; 48; 46; 49] 0) /\
  same_addr ex_v4 (UDPAddr [10; 0; 0; 1] 2000).
Proof. exact address_families. Qed.
Print Assumptions C14_token_address_families.

(** A Retry token lives for tok_retryAgeFactor = 2 handshake idle timeouts. *)
Theorem C14_retry_lifetime : forall h, maxRetryTokenAge h = 2 * h.
Proof. exact retry_lifetime. Qed.
Print Assumptions C14_retry_lifetime.

(** An issued Retry token decodes to exactly the connection IDs, address and time it was
    issued with (under correctness of the AEAD on sealed data and of ASN.1). *)
Theorem C14_retry_token_cids :
  forall (K : Type) (prot_seal : K -> list Z -> list Z -> list Z)
         (prot_open : K -> list Z -> list Z -> option (list Z))
         (marshal : rec -> list Z) (unmarshal : list Z -> option (rec * list Z))
         (sealed : K -> list Z -> list Z -> Prop),
  oracles_correct prot_seal prot_open marshal unmarshal sealed ->
  forall k nonce a0 odcid rscid ts,
  length nonce = nonceLen ->
  zlen odcid <= 20 -> zlen rscid <= 20 ->
  sealed k nonce (marshal (Rec true (encodeRemoteAddr a0) ts 0 odcid rscid)) ->
  decode K prot_open unmarshal k (newRetryToken (prot_seal k) marshal nonce a0 odcid rscid ts)
  = DTok (Tok true ts (encodeRemoteAddr a0) odcid rscid 0).
Proof. exact retry_token_roundtrip. Qed.
Print Assumptions C14_retry_token_cids.

Theorem C14_new_token_roundtrip :
  forall (K : Type) (prot_seal : K -> list Z -> list Z -> list Z)
         (prot_open : K -> list Z -> list Z -> option (list Z))
         (marshal : rec -> list Z) (unmarshal : list Z -> option (rec * list Z))
         (sealed : K -> list Z -> list Z -> Prop),
  oracles_correct prot_seal prot_open marshal unmarshal sealed ->
  forall k nonce a0 rtt_us ts,
  length nonce = nonceLen ->
  sealed k nonce (marshal (Rec false (encodeRemoteAddr a0) ts rtt_us [] [])) ->
  decode K prot_open unmarshal k (newToken (prot_seal k) marshal nonce a0 rtt_us ts)
  = DTok (Tok false ts (encodeRemoteAddr a0) [] [] (rtt_us * 1000)).
Proof. exact new_token_roundtrip. Qed.
Print Assumptions C14_new_token_roundtrip.

(** An issued token validates exactly from the issuing address within its lifetime. *)
Theorem C14_issued_token_validates :
  forall (K : Type) (prot_seal : K -> list Z -> list Z -> list Z)
         (prot_open : K -> list Z -> list Z -> option (list Z))
         (marshal : rec -> list Z) (unmarshal : list Z -> option (rec * list Z))
         (sealed : K -> list Z -> list Z -> Prop),
  oracles_correct prot_seal prot_open marshal unmarshal sealed ->
  forall k enc r a0 a now maxTokenAge maxRetryAge t,
  issued K prot_seal marshal sealed k enc r -> r_addr r = encodeRemoteAddr a0 ->
  decode K prot_open unmarshal k enc = DTok t ->
  (validateToken (Some t) a now maxTokenAge maxRetryAge = true <->
   same_addr a a0 /\ now - r_ts r <= (if r_isRetry r then maxRetryAge else maxTokenAge)).
Proof. exact issued_token_validates. Qed.
Print Assumptions C14_issued_token_validates.

(** * (c) Forgery: truncated, bit-flipped, foreign-key tokens are absent or invalid *)

(** Under ideal ciphertext integrity, a byte string that decodes to a token is, byte for
    byte, nonce ++ seal of a plaintext the key holder sealed ...
    NOTE (audit): the three forgery theorems are short consequences of the assumption record [protector_ideal]
    (int_ctxt, key_sep) plus DecodeToken's framing (length check, nonce split); that a given truncation or bit flip
    of an issued token is not itself a sealed token is NOT derived here — it is part of what int_ctxt idealises
    (AES-GCM integrity) and is carried on the code by the token unit's monitors (every single-bit flip and every
    truncation of sample tokens, foreign key). *)
Theorem C14_token_forgery :
  forall (K : Type) (prot_seal : K -> list Z -> list Z -> list Z)
         (prot_open : K -> list Z -> list Z -> option (list Z))
         (unmarshal : list Z -> option (rec * list Z))
         (sealed : K -> list Z -> list Z -> Prop),
  protector_ideal prot_seal prot_open sealed ->
  forall k enc t,
  decode K prot_open unmarshal k enc = DTok t ->
  exists d r, sealed_token K prot_seal sealed k enc d /\ unmarshal d = Some (r, []) /\ t = tok_of_rec r.
Proof. exact decode_only_sealed. Qed.
Print Assumptions C14_token_forgery.

(** ... so every other non-empty byte string (truncation, bit flip, extension, noise) is an error, *)
Theorem C14_token_forgery_error :
  forall (K : Type) (prot_seal : K -> list Z -> list Z -> list Z)
         (prot_open : K -> list Z -> list Z -> option (list Z))
         (unmarshal : list Z -> option (rec * list Z))
         (sealed : K -> list Z -> list Z -> Prop),
  protector_ideal prot_seal prot_open sealed ->
  forall k enc,
  enc <> [] -> (forall d, ~ sealed_token K prot_seal sealed k enc d) ->
  decode K prot_open unmarshal k enc = DErr.
Proof. exact forgery_not_sealed. Qed.
Print Assumptions C14_token_forgery_error.

(** a token sealed under another key is an error, *)
Theorem C14_token_forgery_other_key :
  forall (K : Type) (prot_seal : K -> list Z -> list Z -> list Z)
         (prot_open : K -> list Z -> list Z -> option (list Z))
         (unmarshal : list Z -> option (rec * list Z))
         (sealed : K -> list Z -> list Z -> Prop),
  protector_ideal prot_seal prot_open sealed ->
  forall k1 k2 enc d,
  sealed_token K prot_seal sealed k2 enc d -> k1 <> k2 ->
  decode K prot_open unmarshal k1 enc = DErr.
Proof. exact forgery_other_key. Qed.
Print Assumptions C14_token_forgery_other_key.

(** and a non-empty string shorter than the nonce is an error whatever the cipher does. *)
Theorem C14_token_forgery_short :
  forall (K : Type) (prot_open : K -> list Z -> list Z -> option (list Z))
         (unmarshal : list Z -> option (rec * list Z)) k enc,
  0 < zlen enc < tokenNonceSize -> decode K prot_open unmarshal k enc = DErr.
Proof. exact decode_short. Qed.
Print Assumptions C14_token_forgery_short.

(** The server treats whatever does not decode as if no token had been sent: never
    INVALID_TOKEN, never a verified address. *)
Theorem C14_token_undecodable_is_absent :
  forall (K : Type) (prot_open : K -> list Z -> list Z -> option (list Z))
         (unmarshal : list Z -> option (rec * list Z))
         k enc dcid a now maxTokenAge maxRetryAge vs,
  (forall t, decode K prot_open unmarshal k enc <> DTok t) ->
  handle K prot_open unmarshal k enc dcid a now maxTokenAge maxRetryAge vs =
    if (zlen enc =? 0) && (zlen dcid <? tok_MinConnectionIDLenInitial) then Out 0 false [] None 0
    else if vs =? 1 then Out 2 false [] None 0 else Out 3 false dcid None 0.
Proof. exact undecodable_is_absent. Qed.
Print Assumptions C14_token_undecodable_is_absent.

(** A decodable but invalid token: Retry tokens get INVALID_TOKEN, NEW_TOKEN tokens are ignored. *)
Theorem C14_token_invalid_handling :
  forall (K : Type) (prot_open : K -> list Z -> list Z -> option (list Z))
         (unmarshal : list Z -> option (rec * list Z))
         k enc dcid a now maxTokenAge maxRetryAge vs t,
  decode K prot_open unmarshal k enc = DTok t ->
  validateToken (Some t) a now maxTokenAge maxRetryAge = false ->
  handle K prot_open unmarshal k enc dcid a now maxTokenAge maxRetryAge vs =
    if t_isRetry t then Out 1 false [] None 0
    else if vs =? 1 then Out 2 false [] None 0 else Out 3 false dcid None 0.
Proof. exact invalid_token_handling. Qed.
Print Assumptions C14_token_invalid_handling.

(** The complete decision table of handleInitialImpl's token branch: token absent or undecodable /
    decodable and valid / invalid Retry token / invalid NEW_TOKEN token, against VerifySourceAddress. *)
Theorem C14_token_decision_table :
  forall (K : Type) (prot_open : K -> list Z -> list Z -> option (list Z))
         (unmarshal : list Z -> option (rec * list Z))
         k enc dcid a now maxTokenAge maxRetryAge vs,
  handle K prot_open unmarshal k enc dcid a now maxTokenAge maxRetryAge vs =
  match decode K prot_open unmarshal k enc with
  | DTok t =>
    if validateToken (Some t) a now maxTokenAge maxRetryAge
    then Out 3 true (if t_isRetry t then t_odcid t else dcid)
                    (if t_isRetry t then Some (t_rscid t) else None)
                    (if t_isRetry t then 0 else t_rtt t)
    else if t_isRetry t then Out 1 false [] None 0 else absent_outcome enc dcid vs
  | _ => absent_outcome enc dcid vs
  end.
Proof. exact decision_table. Qed.
Print Assumptions C14_token_decision_table.

(** A connection is created with clientAddressValidated = true only from a token this key
    issued, for an address with the presenter's encoding, within its lifetime; a Retry
    token then hands the connection exactly its connection IDs. *)
Theorem C14_token_proves_only_its_address :
  forall (K : Type) (prot_seal : K -> list Z -> list Z -> list Z)
         (prot_open : K -> list Z -> list Z -> option (list Z))
         (marshal : rec -> list Z) (unmarshal : list Z -> option (rec * list Z))
         (sealed : K -> list Z -> list Z -> Prop)
         k enc dcid a now maxTokenAge maxRetryAge vs kd od rs rtt,
  oracles_correct prot_seal prot_open marshal unmarshal sealed ->
  protector_ideal prot_seal prot_open sealed ->
  only_records K marshal sealed ->
  handle K prot_open unmarshal k enc dcid a now maxTokenAge maxRetryAge vs = Out kd true od rs rtt ->
  exists r, issued K prot_seal marshal sealed k enc r /\
    encodeRemoteAddr a = r_addr r /\
    now - r_ts r <= (if r_isRetry r then maxRetryAge else maxTokenAge) /\
    (r_isRetry r = true -> od = r_odcid r /\ rs = Some (r_rscid r)).
Proof. exact token_proves_only_its_address. Qed.
Print Assumptions C14_token_proves_only_its_address.

(** Non-vacuity: the assumptions are jointly satisfiable (toy protector with a one-entry
    sealing log), and in that instance a token works from its address within its lifetime
    and fails from another address, after expiry, under another key, bit-flipped, truncated. *)
Example C14_token_assumptions_satisfiable :
  oracles_correct Instance.sealI Instance.openI Instance.marshalI Instance.unmarshalI Instance.sealedI /\
  protector_ideal Instance.sealI Instance.openI Instance.sealedI /\
  only_records Z Instance.marshalI Instance.sealedI.
Proof. exact (conj Instance.correctI (conj Instance.idealI Instance.only_recordsI)). Qed.
Print Assumptions C14_token_assumptions_satisfiable.

Example C14_token_instance :
  handle Z Instance.openI Instance.unmarshalI 7 Instance.tok0 [5; 5; 5; 5; 5; 5; 5; 5] (UDPAddr [10; 0; 0; 1] 9999) 1500 86400 500 1
    = Out 3 true [1; 2; 3; 4; 5; 6; 7; 8] (Some [9; 9; 9; 9]) 0 /\
  handle Z Instance.openI Instance.unmarshalI 7 Instance.tok0 [5; 5; 5; 5; 5; 5; 5; 5] (UDPAddr [10; 0; 0; 2] 4433) 1500 86400 500 1
    = Out 1 false [] None 0 /\
  handle Z Instance.openI Instance.unmarshalI 7 Instance.tok0 [5; 5; 5; 5; 5; 5; 5; 5] Instance.a0 1501 86400 500 1
    = Out 1 false [] None 0 /\
  decode Z Instance.openI Instance.unmarshalI 8 Instance.tok0 = DErr /\
  decode Z Instance.openI Instance.unmarshalI 7 (firstn 40 Instance.tok0 ++ [1] ++ skipn 41 Instance.tok0) = DErr /\
  decode Z Instance.openI Instance.unmarshalI 7 (firstn 31 Instance.tok0) = DErr.
Proof.
  exact (conj (proj2 Instance.instance_valid) Instance.instance_invalid).
Qed.
Print Assumptions C14_token_instance.

(** * (d) Stateless replies: what the server sends towards an address before a connection exists
      (Transport.handlePacket, baseServer.handlePacketImpl / handleInitialImpl and the senders of Version
      Negotiation, Retry, INVALID_TOKEN / CONNECTION_REFUSED, stateless reset), per datagram *)

(** The reply (there is at most one) is never larger than three times the datagram that caused it. *)
Theorem C14_stateless_reply_bound : forall c n f known i,
  0 <= n -> inputs_ok c f i -> replySize (the_reply c n f known i) <= 3 * n.
Proof. exact reply_bound. Qed.
Print Assumptions C14_stateless_reply_bound.

(** Sharper: a long-header reply needs a datagram of >= 1200 bytes and is itself < 1200 bytes;
    a stateless reset is 42 bytes and strictly smaller than the packet it answers. *)
Theorem C14_stateless_reply_small : forall c n f known i,
  inputs_ok c f i ->
  match the_reply c n f known i with
  | RNone => True
  | RReset s => s = 42 /\ s < n
  | r => 1200 <= n /\ replySize r < 1200
  end.
Proof. exact reply_small. Qed.
Print Assumptions C14_stateless_reply_small.

Theorem C14_stateless_long_reply_needs_1200 : forall c n f known i,
  match the_reply c n f known i with RVN _ | RRetry _ | RErr _ _ => 1200 <= n | _ => True end.
Proof. exact long_reply_needs_1200. Qed.
Print Assumptions C14_stateless_long_reply_needs_1200.

(** Version Negotiation packets are never answered; neither are long-header datagrams under 1200
    bytes nor short-header datagrams of at most 42 bytes (anything that could be our own reset). *)
Theorem C14_stateless_vn_never_answered : forall c n h known i,
  ver h = 0 -> the_reply c n (FLong h) known i = RNone.
Proof. exact vn_never_answered. Qed.
Print Assumptions C14_stateless_vn_never_answered.

Theorem C14_stateless_small_never_answered : forall c n known i,
  (forall h, n < 1200 -> the_reply c n (FLong h) known i = RNone) /\
  (n <= 42 -> the_reply c n FShort known i = RNone).
Proof.
  exact (fun c n known i => conj (fun h => small_long_never_answered c n h known i) (small_short_never_answered c n known i)).
Qed.
Print Assumptions C14_stateless_small_never_answered.

(** No reply to a reply: whatever was sent, arriving at any server in any configuration, meets silence. *)
Theorem C14_stateless_no_reply_to_reply : forall c n f known i,
  inputs_ok c f i ->
  forall c' known' i',
  match the_reply c n f known i with
  | RNone => True
  | RReset s => the_reply c' s FShort known' i' = RNone
  | r => forall h', the_reply c' (replySize r) (FLong h') known' i' = RNone
  end.
Proof. exact no_reply_to_reply. Qed.
Print Assumptions C14_stateless_no_reply_to_reply.

Example C14_stateless_examples :
  inputs_ok ex_cfg (FLong (LH 1 0 8 4 true)) ex_info /\
  the_reply ex_cfg 1200 (FLong (LH 2 0 8 4 true)) false ex_info = RVN 27 /\
  the_reply ex_cfg 1199 (FLong (LH 2 0 8 4 true)) false ex_info = RNone /\
  the_reply ex_cfg 1200 (FLong (LH 1 0 8 4 true)) false ex_info = RRetry 132 /\
  the_reply (SCfg true (-1) false false true 4 1 3600000000000 5000000000) 1200 (FLong (LH 1 0 8 4 true)) false ex_info = RErr sl_ConnectionRefused 46 /\
  the_reply ex_cfg 43 FShort false ex_info = RReset 42 /\
  the_reply ex_cfg 42 FShort false ex_info = RNone.
Proof. exact reply_examples. Qed.
Print Assumptions C14_stateless_examples.
