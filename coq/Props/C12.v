(** C12 — a spec-driven client enforces exactly the limits it advertises.
    Only statements live here; each is closed by [exact] of a lemma proved in AdvEnf/. *)
From Coq Require Import List ZArith Bool.
From V Require Import Gen.Params Wire.Varint Wire.VarintProofs AdvEnf.Model AdvEnf.Proofs AdvEnf.Parrots.
Import ListNotations.
Open Scope Z_scope.

(** Core. For every advertised parameter list and every enforced side: no history in which
    the peer stays within the ADVERTISED credit (and the client may grant more credit or
    retire connection IDs whenever it likes) ends in a locally generated FLOW_CONTROL_ERROR,
    STREAM_LIMIT_ERROR, CONNECTION_ID_LIMIT_ERROR, DATAGRAM error or early idle timeout
    IFF the enforced limits cover the advertised ones, component by component. *)
Theorem C12_no_error_iff : forall adv enf, enf_sane enf ->
  (forall h c, play adv enf h <> Err c) <-> covers adv enf.
Proof. exact no_error_iff. Qed.
Print Assumptions C12_no_error_iff.

(** The same for a connection built from a user Config, the right-hand side spelled out as
    inequalities between the spec's values and Config fields / constants of the code. *)
Theorem C12_no_error_iff_config : forall (kv : list (Z * Z)) (raw : config), raw_sane raw ->
  let a := advertised kv in
  let c := populate raw in
  (forall h code, play a (enforced c) h <> Err code) <->
  l_max_data a <= c_icw c /\
  l_sd_bl a <= c_isw c /\ l_sd_br a <= c_isw c /\ l_sd_uni a <= c_isw c /\
  l_s_bidi a <= c_mis c /\ l_s_uni a <= c_mius c /\
  l_cid a <= protoMaxActiveConnectionIDs /\
  Z.min (l_dgram a) (l_udp a - minPacketOverhead) <= (if c_dg c then wireMaxDatagramSize else 0) /\
  (0 < l_idle a /\ l_idle a <= c_idle c).
Proof.
  exact (fun kv raw H =>
    iff_trans (no_error_iff (advertised kv) (enforced (populate raw)) (populated_enforced_sane raw H))
              (covers_enforced_explicit (advertised kv) (populate raw))).
Qed.
Print Assumptions C12_no_error_iff_config.

(** The constants the characterisation depends on are the ones in the code. *)
Theorem C12_constants : protoMaxActiveConnectionIDs = 4 /\ wireMaxDatagramSize = 16383 /\
  protoDefaultInitialMaxStreamData = 524288 /\ protoDefaultInitialMaxData = 786432 /\
  protoDefaultMaxIncomingStreams = 100 /\ protoDefaultMaxIncomingUniStreams = 100 /\
  protoDefaultIdleTimeoutNs = 30000000000.
Proof. exact (conj eq_refl (conj eq_refl (conj eq_refl (conj eq_refl (conj eq_refl (conj eq_refl eq_refl)))))). Qed.
Print Assumptions C12_constants.

(** The plain client advertises what it enforces: never an error against a conformant peer. *)
Theorem C12_plain_client_ok : forall c : config, nsPerMs <= c_idle c ->
  covers (plain_advertised c) (enforced c) /\
  forall h code, play (plain_advertised c) (enforced c) h <> Err code.
Proof. exact (fun c H => conj (plain_covers c H) (covers_safe _ _ (plain_covers c H))). Qed.
Print Assumptions C12_plain_client_ok.

(** Built-in parrots under the default Config: one conformant history per uncovered limit kind
    (connection window, the three stream windows, uni stream count / connection ID limit,
    DATAGRAM), and the exact list of covered components
    [max_data; sd_bidi_local; sd_bidi_remote; sd_uni; streams_bidi; streams_uni; cid; datagram; idle]. *)
Theorem C12_Chrome_115_IPv4_default_config_refuted : chrome_default_refuted advenf_spec_Chrome_115_IPv4.
Proof. exact Chrome_115_IPv4_default. Qed.
Print Assumptions C12_Chrome_115_IPv4_default_config_refuted.
Theorem C12_Chrome_115_IPv6_default_config_refuted : chrome_default_refuted advenf_spec_Chrome_115_IPv6.
Proof. exact Chrome_115_IPv6_default. Qed.
Print Assumptions C12_Chrome_115_IPv6_default_config_refuted.
Theorem C12_Chrome_146_IPv4_default_config_refuted : chrome_default_refuted advenf_spec_Chrome_146_IPv4.
Proof. exact Chrome_146_IPv4_default. Qed.
Print Assumptions C12_Chrome_146_IPv4_default_config_refuted.
Theorem C12_Chrome_146_IPv6_default_config_refuted : chrome_default_refuted advenf_spec_Chrome_146_IPv6.
Proof. exact Chrome_146_IPv6_default. Qed.
Print Assumptions C12_Chrome_146_IPv6_default_config_refuted.
Theorem C12_Firefox_116A_default_config_refuted : firefox_default_refuted advenf_spec_Firefox_116A.
Proof. exact Firefox_116A_default. Qed.
Print Assumptions C12_Firefox_116A_default_config_refuted.
Theorem C12_Firefox_116B_default_config_refuted : firefox_default_refuted advenf_spec_Firefox_116B.
Proof. exact Firefox_116B_default. Qed.
Print Assumptions C12_Firefox_116B_default_config_refuted.
Theorem C12_Firefox_116C_default_config_refuted : firefox_default_refuted advenf_spec_Firefox_116C.
Proof. exact Firefox_116C_default. Qed.
Print Assumptions C12_Firefox_116C_default_config_refuted.

Theorem C12_every_parrot_default_config_uncovered :
  Forall (fun kv => ~ covers (advertised kv) (enforced default_config)) advenf_all_specs.
Proof. exact all_parrots_default_uncovered. Qed.
Print Assumptions C12_every_parrot_default_config_uncovered.

(** The connection ID limit is enforced as a constant: whatever the Config, a parrot that
    advertises more than MaxActiveConnectionIDs gets CONNECTION_ID_LIMIT_ERROR from a peer
    that issues limit-1 connection IDs. The Firefox parrots do. *)
Theorem C12_cid_limit_refuted_any_config : forall kv (c : config), advertises_cid_above kv ->
  play (advertised kv) (enforced c) (w_cid (advertised kv)) = Err ConnectionIDLimitError /\
  ~ covers (advertised kv) (enforced c).
Proof. exact cid_any_config. Qed.
Print Assumptions C12_cid_limit_refuted_any_config.

Theorem C12_firefox_advertises_cid_above :
  advertises_cid_above advenf_spec_Firefox_116A /\ advertises_cid_above advenf_spec_Firefox_116B /\
  advertises_cid_above advenf_spec_Firefox_116C.
Proof. exact firefox_cid_above. Qed.
Print Assumptions C12_firefox_advertises_cid_above.

(** Idle timeout: covered by the default Config (30 s = 30 s), refuted for every parrot as soon
    as Config.MaxIdleTimeout is smaller (here 10 s): the client gives up while its peer, relying
    on the advertised 30 s, still considers the connection alive. *)
Theorem C12_idle_timeout_config_refuted :
  Forall (fun kv => play (advertised kv) (enforced cfg_idle10s) (w_idle (enforced cfg_idle10s)) = Err IdleTimeout) advenf_all_specs /\
  Forall (fun kv => 0 < l_idle (advertised kv) /\ l_idle (advertised kv) <= l_idle (enforced default_config)) advenf_all_specs.
Proof. exact (conj idle10s_refuted idle_default_covered). Qed.
Print Assumptions C12_idle_timeout_config_refuted.

Theorem C12_chrome_streams_bidi_config_refuted :
  play (advertised advenf_spec_Chrome_115_IPv4) (enforced cfg_streams50) (w_s_bidi (advertised advenf_spec_Chrome_115_IPv4)) = Err StreamLimitError.
Proof. exact chrome_streams50_refuted. Qed.
Print Assumptions C12_chrome_streams_bidi_config_refuted.

(** A Config raised to the advertised values repairs the Chrome parrots completely. *)
Theorem C12_chrome_roomy_config_ok : forall h c,
  play (advertised advenf_spec_Chrome_146_IPv4) (enforced cfg_roomy) h <> Err c.
Proof. exact chrome_roomy_ok. Qed.
Print Assumptions C12_chrome_roomy_config_ok.

(** Non-vacuity: conformant histories exist and are played through (13 events, all kinds). *)
Example C12_conformant_history_exists :
  let a := advertised advenf_spec_Chrome_146_IPv4 in
  play a (enforced cfg_roomy)
    [EvData 2 6291456; EvData 1 6291456; EvData 0 3145728; EvOpen 2 102; EvOpen 1 99; EvCID 1; EvDgram 1454;
     EvSilence 29999999999 0 0; EvGrant KConn 20000000; EvGrant KSD0 9000000; EvData 0 4271272; EvRetireCID; EvCID 1] = Fine.
Proof. exact chrome_roomy_example. Qed.
Print Assumptions C12_conformant_history_exists.

(** The record and the wire. A peer that parses the bytes of a well-formed parameter list gets
    the list back. *)
Theorem C12_tparams_roundtrip : forall ps, Forall wf_param ps -> parse (marshal ps) = Some ps.
Proof. exact parse_marshal. Qed.
Print Assumptions C12_tparams_roundtrip.

(** ClientOverride (the record) and the ClientHello extension (the wire) are two marshalings
    of the same list; utls re-draws the GREASE version of version_information at each, so the
    byte strings can differ there (refuted as an equality of bytes) ... *)
Theorem C12_record_equals_wire_refuted :
  exists o1 o2 ps, Forall wf_param ps /\ override_bytes o1 ps <> wire_bytes o2 ps.
Proof. exact record_wire_bytes_can_differ. Qed.
Print Assumptions C12_record_equals_wire_refuted.

(** ... but they parse to lists that agree on every limit, the recorded fields are the wire's
    values, and without a version_information parameter the bytes are equal. *)
Theorem C12_record_equals_wire_partial : forall o1 o2 ps,
  (forall id b, vwf (zlen (o1 id b))) -> (forall id b, vwf (zlen (o2 id b))) -> Forall wf_param ps ->
  exists lo lw,
    parse (override_bytes o1 ps) = Some lo /\ parse (wire_bytes o2 ps) = Some lw /\
    advertised (kv_of lo) = advertised (kv_of lw) /\ recorded (kv_of lo) = recorded (kv_of ps) /\
    advertised (kv_of lw) = advertised (kv_of ps).
Proof. exact record_equals_wire_limits. Qed.
Print Assumptions C12_record_equals_wire_partial.

Theorem C12_record_equals_wire_without_version_information : forall o1 o2 ps,
  forallb (fun p => negb (is_vi (fst p))) ps = true -> override_bytes o1 ps = wire_bytes o2 ps.
Proof. exact record_equals_wire_without_vi. Qed.
Print Assumptions C12_record_equals_wire_without_version_information.
