(** C12 — a spec-driven client enforces exactly the limits it advertises.
    Only statements live here; each is closed by [exact] of a lemma proved in AdvEnf/. *)
From Coq Require Import List ZArith Bool.
From V Require Import Gen.Params Wire.Varint Wire.VarintProofs AdvEnf.Model AdvEnf.Proofs AdvEnf.Parrots AdvEnf.Compose.
Import ListNotations.
Open Scope Z_scope.

(** Core. (Audit note: the "no error" direction is the invariant "the peer's credit never exceeds the
    enforced window", which holds by construction of the game -- client and peer count the same [used];
    the checkable content is [covers], i.e. for the spec-driven client the nine inequalities of
    [spec_covers] between configCoveringSpec's result and the advertised values. Any difference between
    the client's accounting and the peer's -- final sizes, which stream a frame lands on, reordered or
    duplicate NEW_CONNECTION_ID, probing IDs -- is outside the theorems and rests on the correspondence
    cases and on the units C03/C04/C15/C16.)
    For every advertised parameter list and every enforced side: no history in which
    the peer stays within the ADVERTISED credit (and the client may grant more credit or
    retire connection IDs whenever it likes) ends in a locally generated FLOW_CONTROL_ERROR,
    STREAM_LIMIT_ERROR, CONNECTION_ID_LIMIT_ERROR, DATAGRAM error or early idle timeout
    IFF the enforced limits cover the advertised ones, component by component. *)
Theorem C12_no_error_iff : forall adv enf, enf_sane enf ->
  (forall h c, play adv enf h <> Err c) <-> covers adv enf.
Proof. exact no_error_iff. Qed.
Print Assumptions C12_no_error_iff.

(** The same for a connection that enforces from a user Config alone (the plain client; the
    spec-driven client before its repair), the right-hand side spelled out as
    inequalities between the spec's values and Config fields / constants of the code. *)
Theorem C12_no_error_iff_config : forall (kv : list (Z * Z)) (raw : config), raw_sane raw ->
  let a := advertised kv in
  let c := populate raw in
  (forall h code, play a (enforced c) h <> Err code) <->
  l_max_data a <= c_icw c /\
  l_sd_bl a <= c_isw c /\ l_sd_br a <= c_isw c /\ l_sd_uni a <= c_isw c /\
  l_s_bidi a <= c_mis c /\ l_s_uni a <= c_mius c /\
  l_cid a <= protoMaxActiveConnectionIDs /\
  Z.min (l_dgram a) (Z.min (l_udp a) protoMaxPacketBufferSize - minPacketOverhead) <= (if c_dg c then wireMaxDatagramSize else 0) /\
  (if adv_idle_fin (l_idle a) then l_idle a <= c_idle c else noIdleNs <= c_idle c).
Proof.
  exact (fun kv raw H =>
    iff_trans (no_error_iff (advertised kv) (enforced (populate raw)) (populated_enforced_sane raw H))
              (covers_enforced_explicit (advertised kv) (populate raw))).
Qed.
Print Assumptions C12_no_error_iff_config.

(** The constants the characterisation depends on are the ones in the code. *)
Theorem C12_constants : protoMaxActiveConnectionIDs = 4 /\ wireMaxDatagramSize = 16383 /\
  protoDefaultInitialMaxStreamData = 524288 /\ protoDefaultInitialMaxData = 786432 /\
  protoDefaultMaxIncomingStreams = 100 /\ protoDefaultMaxIncomingUniStreams = 100 /\
  protoDefaultIdleTimeoutNs = 30000000000.
Proof. exact (conj eq_refl (conj eq_refl (conj eq_refl (conj eq_refl (conj eq_refl (conj eq_refl eq_refl)))))). Qed.
Print Assumptions C12_constants.

(** The plain client advertises what it enforces: never an error against a conformant peer. *)
Theorem C12_plain_client_ok : forall c : config, nsPerMs <= c_idle c ->
  covers (plain_advertised c) (enforced c) /\
  forall h code, play (plain_advertised c) (enforced c) h <> Err code.
Proof. exact (fun c H => conj (plain_covers c H) (covers_safe _ _ (plain_covers c H))). Qed.
Print Assumptions C12_plain_client_ok.

(** The spec-driven client (repaired newUClientConnection: the Config is raised to the spec's
    values before preSetup, the connection ID manager honours the advertised limit): for every
    parameter list with stream counts within the protocol maximum (with or without an idle timeout),
    and EVERY Config, enforced >= advertised, hence no locally generated error against a
    conformant peer. *)
Theorem C12_spec_client_ok : forall (kv : list (Z * Z)) (c : config), spec_valid (advertised kv) ->
  covers (advertised kv) (enforced_spec (advertised kv) c) /\
  forall h code, play (advertised kv) (enforced_spec (advertised kv) c) h <> Err code.
Proof. exact (fun kv c V => conj (spec_covers _ c V) (spec_client_ok _ c V)). Qed.
Print Assumptions C12_spec_client_ok.

(** Every built-in parrot (tables generated from QUICID2Spec), every Config the user may pass. *)
Theorem C12_Chrome_115_IPv4_default_config_ok : parrot_ok advenf_spec_Chrome_115_IPv4.
Proof. exact Chrome_115_IPv4_ok. Qed.
Print Assumptions C12_Chrome_115_IPv4_default_config_ok.
Theorem C12_Chrome_115_IPv6_default_config_ok : parrot_ok advenf_spec_Chrome_115_IPv6.
Proof. exact Chrome_115_IPv6_ok. Qed.
Print Assumptions C12_Chrome_115_IPv6_default_config_ok.
Theorem C12_Chrome_146_IPv4_default_config_ok : parrot_ok advenf_spec_Chrome_146_IPv4.
Proof. exact Chrome_146_IPv4_ok. Qed.
Print Assumptions C12_Chrome_146_IPv4_default_config_ok.
Theorem C12_Chrome_146_IPv6_default_config_ok : parrot_ok advenf_spec_Chrome_146_IPv6.
Proof. exact Chrome_146_IPv6_ok. Qed.
Print Assumptions C12_Chrome_146_IPv6_default_config_ok.
Theorem C12_Firefox_116A_default_config_ok : parrot_ok advenf_spec_Firefox_116A.
Proof. exact Firefox_116A_ok. Qed.
Print Assumptions C12_Firefox_116A_default_config_ok.
Theorem C12_Firefox_116B_default_config_ok : parrot_ok advenf_spec_Firefox_116B.
Proof. exact Firefox_116B_ok. Qed.
Print Assumptions C12_Firefox_116B_default_config_ok.
Theorem C12_Firefox_116C_default_config_ok : parrot_ok advenf_spec_Firefox_116C.
Proof. exact Firefox_116C_ok. Qed.
Print Assumptions C12_Firefox_116C_default_config_ok.

Theorem C12_every_parrot_valid : Forall (fun kv => spec_valid (advertised kv)) advenf_all_specs.
Proof. exact all_parrots_valid. Qed.
Print Assumptions C12_every_parrot_valid.

(** Regression (the shape of the code before the repair: enforcement from the Config and the
    constant alone, [enforced]): the same parrots were refuted under the default Config, one
    conformant history per uncovered limit kind; the connection ID limit for every Config; the
    idle timeout for a Config below the advertised 30 s. *)
Example C12_old_shape_chrome_refuted : chrome_default_refuted advenf_spec_Chrome_115_IPv4.
Proof. exact Chrome_115_IPv4_default. Qed.
Print Assumptions C12_old_shape_chrome_refuted.
Example C12_old_shape_firefox_refuted : firefox_default_refuted advenf_spec_Firefox_116A.
Proof. exact Firefox_116A_default. Qed.
Print Assumptions C12_old_shape_firefox_refuted.
Example C12_old_shape_cid_refuted_any_config : forall kv (c : config), advertises_cid_above kv ->
  play (advertised kv) (enforced c) (w_cid (advertised kv)) = Err ConnectionIDLimitError /\
  ~ covers (advertised kv) (enforced c).
Proof. exact cid_any_config. Qed.
Print Assumptions C12_old_shape_cid_refuted_any_config.
Example C12_old_shape_idle_refuted :
  Forall (fun kv => play (advertised kv) (enforced cfg_idle10s) (w_idle (enforced cfg_idle10s)) = Err IdleTimeout) advenf_all_specs.
Proof. exact idle10s_refuted. Qed.
Print Assumptions C12_old_shape_idle_refuted.

(** ... and every one of those witness histories is now played to the end (default Config,
    MaxIdleTimeout 10 s, MaxIncomingStreams 50). *)
Theorem C12_old_witnesses_now_fine :
  Forall (fun kv =>
    let a := advertised kv in
    Forall (fun h => play a (enforced_spec a default_config) h = Fine) (old_witnesses a) /\
    play a (enforced_spec a cfg_idle10s) (w_idle (enforced cfg_idle10s)) = Fine /\
    play a (enforced_spec a cfg_streams50) (w_s_bidi a) = Fine) advenf_all_specs.
Proof. exact old_witnesses_now_fine. Qed.
Print Assumptions C12_old_witnesses_now_fine.

(** A parameter list WITHOUT max_idle_timeout (hand-made or suppressed) tells the peer "no idle
    timeout": the repaired client then has none of its own (the enforced value is the "no idle
    timeout" constant; applyTransportParams still takes the minimum with the peer's value), so the
    list is covered like any other -- [C12_spec_client_ok] needs no hypothesis about the idle timeout.
    Regression: the shape before (giving up after Config.MaxIdleTimeout all the same) was refuted. *)
Theorem C12_idle_not_advertised_ok : forall a (c : config), l_idle a <= 0 -> noIdleNs <= l_idle (enforced_spec a c).
Proof. exact idle_not_advertised_ok. Qed.
Print Assumptions C12_idle_not_advertised_ok.

Example C12_old_shape_idle_not_advertised_refuted : forall a (c : config), l_idle a <= 0 -> 0 < c_idle c < noIdleNs ->
  play a (enforced c) [EvSilence (c_idle c) 0 0] = Err IdleTimeout.
Proof. exact idle_not_advertised_old_shape_refuted. Qed.
Print Assumptions C12_old_shape_idle_not_advertised_refuted.

(** Non-vacuity: conformant histories exist and are played through (13 events, all kinds). *)
Example C12_conformant_history_exists :
  let a := advertised advenf_spec_Chrome_146_IPv4 in
  play a (enforced cfg_roomy)
    [EvData 2 6291456; EvData 1 6291456; EvData 0 3145728; EvOpen 2 102; EvOpen 1 99; EvCID 1; EvDgram 1434;
     EvSilence 29999999999 0 0; EvGrant KConn 20000000; EvGrant KSD0 9000000; EvData 0 4271272; EvRetireCID; EvCID 1] = Fine.
Proof. exact chrome_roomy_example. Qed.
Print Assumptions C12_conformant_history_exists.

(** The record and the wire. A peer that parses the bytes of a well-formed parameter list gets
    the list back. *)
Theorem C12_tparams_roundtrip : forall ps, Forall wf_param ps -> parse (marshal ps) = Some ps.
Proof. exact parse_marshal. Qed.
Print Assumptions C12_tparams_roundtrip.

(** The connection's own record of its parameters equals the bytes it sent, FIELD BY FIELD: what
    wire.PopulateFromUQUIC stores ([record_of]: protocol defaults, then every integer-valued parameter of
    the typed list read from its encoding, the disable_active_migration flag) is exactly what a peer
    reads ([read_wire]: parse the bytes, RFC 9000 18.2 defaults) from the extension bytes -- for every
    well-formed list and every GREASE draw of the marshaling. All thirteen fields: the ten limits,
    ack_delay_exponent, max_ack_delay, disable_active_migration. *)
Theorem C12_record_equals_wire : forall o ps,
  (forall id b, vwf (zlen (o id b))) -> Forall wf_param ps ->
  read_wire (wire_bytes o ps) = Some (record_of ps).
Proof. exact record_equals_wire_fields. Qed.
Print Assumptions C12_record_equals_wire.

(** Regression (the shape of PopulateFromUQUIC before the repair: no case for max_udp_payload_size and
    ack_delay_exponent, zero instead of the protocol default for absent parameters): for the Chrome
    parrot the record said max_udp_payload_size 0, active_connection_id_limit 0, ack_delay_exponent 0,
    max_ack_delay 0 where the wire says 1472, 2, 3, 25. *)
Example C12_old_shape_record_differs_from_wire_fields :
  record_list (record_of_old (tparams_of advenf_spec_Chrome_146_IPv4)) =
    [15728640; 6291456; 6291456; 6291456; 100; 103; 0; 65536; 30000; 0; 0; 0; 0] /\
  record_list (read_list (tparams_of advenf_spec_Chrome_146_IPv4)) =
    [15728640; 6291456; 6291456; 6291456; 100; 103; 2; 65536; 30000; 1472; 3; 25; 0].
Proof. exact old_record_differs_from_wire. Qed.
Print Assumptions C12_old_shape_record_differs_from_wire_fields.

(** The byte strings: in the model ClientOverride IS the extension's cached encoding (that the code does
    so is checked by the correspondence, observable o_override_ok, and the monitor
    advenf/record-wire/override); this statement is definitional and named accordingly. *)
Theorem C12_record_bytes_are_wire_bytes_by_construction : forall o ps, override_bytes o ps = wire_bytes o ps.
Proof. exact record_bytes_are_wire_bytes_by_construction. Qed.
Print Assumptions C12_record_bytes_are_wire_bytes_by_construction.

(** Regression (old shape: the record was a second marshaling; utls re-draws the GREASE version
    of version_information at each): the byte strings could differ. *)
Example C12_old_shape_record_differs_from_wire :
  exists o1 o2 ps, Forall wf_param ps /\ override_bytes_old o1 ps <> wire_bytes o2 ps.
Proof. exact old_record_wire_bytes_can_differ. Qed.
Print Assumptions C12_old_shape_record_differs_from_wire.

(** Spec reuse (regression for the repaired newUClientConnection, which works on its own copy of
    the extension): the list a dial sends is a function of the spec's own, untouched list, the
    suppression set and THIS connection's source connection ID: no suppressed parameter is sent,
    and an initial_source_connection_id left empty in the spec carries this connection's ID,
    whatever earlier dials of the same spec value did. *)
Theorem C12_dial_list_not_suppressed : forall sup scid ps p,
  In p (dial_list sup scid ps) -> suppressed sup (fst p) = false.
Proof. exact dial_list_not_suppressed. Qed.
Print Assumptions C12_dial_list_not_suppressed.

Theorem C12_dial_list_own_scid : forall sup scid ps,
  (forall q, In q ps -> fst q = tpInitialSourceConnectionID -> snd q = []) ->
  forall p, In p (dial_list sup scid ps) -> fst p = tpInitialSourceConnectionID -> snd p = scid.
Proof. exact dial_list_own_scid. Qed.
Print Assumptions C12_dial_list_own_scid.

(** Connection ID rotation at the advertised limit (covered by C12_no_error_iff, whose histories
    include [EvCIDRotate]: the count is taken after the retirement Retire Prior To demands):
    fill the limit, rotate the ID in use, before and after the client's own rotation, retire
    several at once -- every built-in parrot plays it to the end. *)
Example C12_cid_rotation_at_limit_ok :
  Forall (fun kv => let a := advertised kv in play a (enforced_spec a default_config) (cid_rotation_history a) = Fine)
         advenf_all_specs.
Proof. exact cid_rotation_fine. Qed.
Print Assumptions C12_cid_rotation_at_limit_ok.

(** Round 3. (Audit note: the next three statements follow from the definition of [EvGrant] -- both the
    enforced window and the peer's credit become max(old, w) -- together with the hypothesis of [run_st]
    that grants are increasing. Their link to the code is per step: the three composition theorems
    below show that one GetWindowUpdate / one queued MAX_STREAMS of C04's / C15's models IS such an
    increasing grant; there is no whole-run refinement between those models and this game: [used] vs
    highestReceived and the error conditions are tied by the correspondence cases only.)
    After any history of grants, what the client enforces is what it last advertised:
    for every counter of the game, in every history whose events are within the peer's credit
    and whose grants raise the enforced window ([run_st]), the enforced window and the peer's
    credit both equal the last granted value (or are what they were if no grant touched the
    counter). The "grants raise the window and the new window is the value sent" part is not an
    assumption any more: it is what C04 and C15 prove about the code's flow controllers and
    streams map, see the three composition theorems below. *)
Theorem C12_enforced_equals_last_advertised : forall e h s s', inv s -> run_st e s h = Some s' ->
  forall k,
    match last_grant k h with
    | Some w => rw (s' k) = w /\ cr (s' k) = w
    | None => rw (s' k) = rw (s k) /\ cr (s' k) = cr (s k)
    end.
Proof. exact grants_sync. Qed.
Print Assumptions C12_enforced_equals_last_advertised.

Theorem C12_enforced_stays_equal_to_advertised : forall e h s s',
  (forall k, rw (s k) = cr (s k)) -> run_st e s h = Some s' -> forall k, rw (s' k) = cr (s' k).
Proof. exact grants_keep_equal. Qed.
Print Assumptions C12_enforced_stays_equal_to_advertised.

Example C12_grant_history_exists :
  let a := advertised advenf_spec_Chrome_146_IPv4 in
  let e := mkEnv a (enforced_spec a default_config) in
  option_map (fun s' => [rw (s' KSD2); cr (s' KSD2); rw (s' KSU); cr (s' KSU); rw (s' KSD1) - cr (s' KSD1)])
    (run_st e (init e)
      [EvData 2 3000000; EvGrant KSD2 9291456; EvGrant KConn 18728640; EvData 2 6291456; EvOpen 2 102;
       EvGrant KSU 104; EvOpen 2 1; EvCID 1; EvRetireCID; EvCID 1])
  = Some [9291456; 9291456; 104; 104; 0].
Proof. exact grants_example. Qed.
Print Assumptions C12_grant_history_exists.

(** Composition with C04 (FlowCtl) and C15 (StreamsMap): in every reachable state of their models
    a non-zero GetWindowUpdate / a queued MAX_STREAMS is an increasing grant of the game, after
    which the component enforces exactly the value sent ([grant_ctr] is [client_step]'s EvGrant). *)
Theorem C12_stream_window_update_is_grant : forall cw cmax s g i x st now rtt fast al c,
  0 < cw -> FI.reach cw cmax s g -> FI.valid_index s i ->
  nth_error (FI.gs g) (Z.to_nat i) = Some x -> nth_error (F.streams s) (Z.to_nat i) = Some st ->
  rw c = F.receiveWindow (F.sb st) -> cr c <= rw c ->
  let v := fst (snd (F.step s (F.SWinUpd i now rtt fast al))) in
  v <> 0 ->
  exists st', nth_error (F.streams (fst (F.step s (F.SWinUpd i now rtt fast al)))) (Z.to_nat i) = Some st' /\
    rw c < v /\ rw (grant_ctr c v) = F.receiveWindow (F.sb st') /\ rw (grant_ctr c v) = v /\ cr (grant_ctr c v) = v.
Proof. exact stream_update_is_grant. Qed.
Print Assumptions C12_stream_window_update_is_grant.

Theorem C12_conn_window_update_is_grant : forall cw cmax s g now rtt fast al c,
  0 < cw -> FI.reach cw cmax s g ->
  rw c = F.receiveWindow (F.conn s) -> cr c <= rw c ->
  let v := fst (snd (F.step s (F.CWinUpd now rtt fast al))) in
  v <> 0 ->
  rw c < v /\
  rw (grant_ctr c v) = F.receiveWindow (F.conn (fst (F.step s (F.CWinUpd now rtt fast al)))) /\
  rw (grant_ctr c v) = v /\ cr (grant_ctr c v) = v.
Proof. exact conn_update_is_grant. Qed.
Print Assumptions C12_conn_window_update_is_grant.

Theorem C12_max_streams_is_grant : forall uni client N m op m' r fr c,
  0 <= N -> SI.ireach uni client N m ->
  SI.iop_ok (SM.first_incoming uni client) op -> SM.istep m op = (m', r, fr) -> fr <> [] ->
  rw c = SI.in_adv m -> cr c <= rw c ->
  exists n, fr = [SM.FMax (SM.i_uni m) n] /\
    rw c < n /\ rw (grant_ctr c n) = SI.in_adv m' /\ rw (grant_ctr c n) = n /\ cr (grant_ctr c n) = n /\
    (forall id, SI.on_lattice (SM.first_incoming uni client) id ->
       (snd (SM.in_get_or_open m id) = SM.RErr SM.ErrLimit <-> rw c < SM.id_stream_num id)).
Proof. exact max_streams_is_grant. Qed.
Print Assumptions C12_max_streams_is_grant.

Theorem C12_grant_ctr_is_client_step : forall e s k w,
  client_step e s (EvGrant k w) = (upd s k (grant_ctr (s k) w), None).
Proof. exact client_step_grant. Qed.
Print Assumptions C12_grant_ctr_is_client_step.

(** What the peer may rely on never shrinks: in every history within credit, for every counter,
    the peer's credit stays at least the advertised initial value (a lower MAX_STREAMS / MAX_DATA /
    MAX_STREAM_DATA is ignored by the peer), the enforced window never decreases, and the client
    keeps enforcing at least the peer's credit. (An implementation whose limit drops after a
    stream completes -- a limit recomputed from a smaller Config value -- contradicts this; the
    after-completion probes look for exactly that.) *)
Theorem C12_limits_never_decrease : forall e h s s', inv s -> run_st e s h = Some s' ->
  forall k, cr (s k) <= cr (s' k) /\ rw (s k) <= rw (s' k) /\ cr (s' k) <= rw (s' k).
Proof. exact limits_never_decrease. Qed.
Print Assumptions C12_limits_never_decrease.

(** Round 4. (Audit note: the two statements on receiving unfold [client_step]'s DATAGRAM branch; what
    ties them to handleDatagramFrame is the fixed table of both encodings at every boundary. The two on
    sending concern the PEER's limit, which is not a clause of C12; they are here because the seeded
    change C12-e broke a helper shared by both directions.)
    DATAGRAM frames (RFC 9221). Whatever the encoding -- with a length field (type 0x31)
    or without (0x30, last frame of the packet) -- the client accepts a frame iff DATAGRAM support
    is on and the TOTAL frame size (type byte, length field if present, payload) is within the
    enforced limit; the error is FRAME_ENCODING_ERROR when support is off, PROTOCOL_VIOLATION
    when the frame is too large. (A rule that subtracts a length field the frame does not have
    rejects frames of advertised-1 / advertised bytes: the fixed table of both encodings at every
    boundary replays exactly those.) *)
Theorem C12_datagram_accept_iff : forall e s haslen payload,
  snd (client_step e s (EvDgramEnc haslen payload)) = None <->
  l_dgram (e_enf e) <> 0 /\ dgram_frame_size haslen payload <= l_dgram (e_enf e).
Proof. exact dgram_accept_iff. Qed.
Print Assumptions C12_datagram_accept_iff.

Theorem C12_datagram_error_code : forall e s haslen payload,
  client_step e s (EvDgramEnc haslen payload) =
    (s, if l_dgram (e_enf e) =? 0 then Some FrameEncodingError
        else if l_dgram (e_enf e) <? dgram_frame_size haslen payload then Some ProtocolViolation else None).
Proof. exact dgram_enc_client. Qed.
Print Assumptions C12_datagram_error_code.

(** The sending side (Conn.SendDatagram, always with a length field): a payload is accepted iff the
    frame it makes is within the PEER's max_datagram_frame_size and the payload within the MTU
    estimate -- the largest payload is found exactly, also where the length field grows. *)
Theorem C12_send_datagram_iff : forall mdfs mtu p, 0 <= p -> 2 <= mdfs <= maxVarInt8 ->
  send_datagram_ok mdfs mtu p = true <-> (dgram_frame_size true p <= mdfs /\ p <= mtu).
Proof. exact send_datagram_iff. Qed.
Print Assumptions C12_send_datagram_iff.

(** The excluded corner, as it is: max_datagram_frame_size = 1 leaves room for the type byte only,
    yet the empty datagram is accepted and sent as a 2-byte frame. *)
Example C12_send_datagram_mdfs1_corner : send_datagram_ok 1 1200 0 = true /\ dgram_frame_size true 0 = 2.
Proof. exact send_datagram_mdfs1_corner. Qed.
Print Assumptions C12_send_datagram_mdfs1_corner.

(** The simulated connections (unit simlimits) are replayed through the same game (AdvEnf/SimRun.v):
    what the in-tree server did is recorded as events (fresh streams [EvFresh], grants seen, connection
    ID issuance and rotation, DATAGRAMs, silences) and the client's observed end state must be the
    model's. By shape, for every parrot under the default Config, those histories are conformant and
    end well: *)
Example C12_simulated_histories_fine :
  Forall (fun kv => let a := advertised kv in
            Forall (fun h => play a (enforced_spec a default_config) h = Fine) (sim_shaped a)) advenf_all_specs.
Proof. exact sim_shaped_fine. Qed.
Print Assumptions C12_simulated_histories_fine.

(** Round 5 (audit). A limit of the statements above, stated so that it cannot be overlooked: the
    conformant peer of the game may send DATAGRAM frames only up to [dgram_cap] = min(advertised frame
    size, min(advertised max_udp_payload_size, receive buffer 1452) - 18). For the Chrome parrots that
    is 1434 although 65536 / 1472 are advertised: a larger frame needs a packet the client's receive
    buffer truncates and drops (no error is raised -- the theorems are about errors --, but the
    datagram is not delivered: "use to the full" does not hold for frames of 1435..1454 bytes; a peer
    that validates its path MTU by probing never gets there, since probes above 1452 bytes are never
    acknowledged). *)
Example C12_dgram_cap_narrowing :
  let a := advertised advenf_spec_Chrome_146_IPv4 in
  (l_dgram a, l_udp a, dgram_cap a) = (65536, 1472, 1434) /\
  play a (enforced_spec a default_config) [EvDgram 1434] = Fine /\
  play a (enforced_spec a default_config) [EvDgram 1435] = NonConformant.
Proof. exact dgram_cap_narrowing. Qed.
Print Assumptions C12_dgram_cap_narrowing.
