(** C13 — handshakes converge or fail cleanly; forged packets cannot change the outcome.
    Statements about the ConnAccept model (coq/ConnAccept/Model.v), which mirrors the packet
    acceptance rules of /repo/connection.go and is tied to them by the correspondence check of
    unit `connaccept`. [tagf] is the Retry integrity tag function (AES-128-GCM in the code): every
    theorem holds for every such function. Only statements live here. *)
From Coq Require Import List ZArith Bool.
From V Require Import Gen.Params Lib.Hex ConnAccept.Model ConnAccept.Proofs ServerAccept.Model ServerAccept.Proofs EarlyData.Model EarlyData.Proofs
                      AmpToken.TokenModel AmpToken.TokenProofs ServerAccept.Bridge ServerAccept.BridgeInstance ServerAccept.Agree.
From V Require SentPH.Model SentPH.ProofsBase SentPH.ProofsOps2 SentPH.ProofsOps3 SentPH.ProofsMain SendStream.Model EarlyData.Compose.
Import ListNotations.
Open Scope Z_scope.

(** A Retry is accepted exactly if: client, no packet processed yet, no Retry accepted yet, its SCID
    differs from the current DCID, it has the connection's version, and its tag is the tag of the
    current (= original, see C13_cid_authentication) DCID; the effect is then exactly the switch to the
    Retry's SCID and token. Otherwise it is dropped and the state is unchanged. *)
Theorem C13_retry_rules : forall tagf s ver scid tok body tag,
  (retry_ok tagf s ver scid body tag ->
     handle_pkt tagf s (PRetry ver scid tok body tag) = (retry_state s scid tok, ORetryAccepted)) /\
  (~ retry_ok tagf s ver scid body tag ->
     exists d, handle_pkt tagf s (PRetry ver scid tok body tag) = (s, ODropped d)).
Proof. exact retry_rules. Qed.
Print Assumptions C13_retry_rules.

(** Over any input, from any state, at most one Retry is ever accepted. *)
Theorem C13_at_most_one_retry : forall tagf s ops,
  (length (filter is_accept (snd (run tagf s ops))) <= 1)%nat.
Proof. exact at_most_one_retry. Qed.
Print Assumptions C13_at_most_one_retry.

(** A Retry whose tag is not the integrity tag is ignored in every state. *)
Theorem C13_bad_tag_ignored : forall tagf s ver scid tok body tag,
  tag <> tagf (dcid s) body ver ->
  exists d, handle_pkt tagf s (PRetry ver scid tok body tag) = (s, ODropped d).
Proof. exact bad_tag_ignored. Qed.
Print Assumptions C13_bad_tag_ignored.

(** A Version Negotiation packet never changes the connection state; it has an effect only at a
    client, before the first processed packet, without prior negotiation, if it parses and does not
    list the current version; the effect is then a re-creation with the first of Config.Versions that
    the packet lists, or VersionNegotiationError if there is none. *)
Theorem C13_vn_rules : forall tagf s ok vers,
  exists o, handle_pkt tagf s (PVN ok vers) = (s, o) /\
  ((exists d, o = ODropped d) \/
   (client s = true /\ rcvFirst s = false /\ verNeg s = false /\ ok = true /\ ~ In (version s) vers /\
    ((exists v, o = ORecreate v /\ In v (cfgVersions s) /\ In v vers /\ v <> version s /\
                exists pre post, cfgVersions s = pre ++ v :: post /\ forall w, In w pre -> ~ In w vers)
     \/ (o = OVNError /\ forall v, In v (cfgVersions s) -> ~ In v vers)))).
Proof. exact vn_rules. Qed.
Print Assumptions C13_vn_rules.

(** The connection re-created after a version negotiation (versionNegotiated = true) never
    negotiates again, whatever it receives. *)
Theorem C13_vn_once : forall tagf ops s s' outs, verNeg s = true -> run tagf s ops = (s', outs) ->
  forall o, In o outs -> (forall v, o <> ORecreate v) /\ o <> OVNError.
Proof. exact negotiated_no_vn. Qed.
Print Assumptions C13_vn_once.

(** Once a packet has been authenticated, injecting any Retry, any Version Negotiation, any
    malformed packet, any Initial with a source connection ID other than the handshake DCID (or any
    0-RTT packet at a client) at any position of any input leaves the final state and all
    non-drop outcomes unchanged. *)
Theorem C13_after_genuine_inert : forall tagf ops1 s p ops2,
  rcvFirst s = true -> forged (client s) (hsDCID s) p ->
  fst (run tagf s (ops1 ++ OpPkt p :: ops2)) = fst (run tagf s (ops1 ++ ops2)) /\
  filter nondrop (snd (run tagf s (ops1 ++ OpPkt p :: ops2))) = filter nondrop (snd (run tagf s (ops1 ++ ops2))).
Proof. exact after_genuine_inert. Qed.
Print Assumptions C13_after_genuine_inert.

(** The full clause, including replayed and corrupted packets that carry the GENUINE connection IDs ([stale]: another
    version; an Initial after the Initial keys were dropped, protected with other keys than the connection's, or with a
    packet number that was already processed): inserted anywhere after the first authenticated packet, none of them
    changes the final state or any non-drop outcome. *)
Theorem C13_after_genuine_inert_strong : forall tagf ops1 s p ops2,
  rcvFirst s = true -> forged (client s) (hsDCID s) p \/ stale s p ->
  fst (run tagf s (ops1 ++ OpPkt p :: ops2)) = fst (run tagf s (ops1 ++ ops2)) /\
  filter nondrop (snd (run tagf s (ops1 ++ OpPkt p :: ops2))) = filter nondrop (snd (run tagf s (ops1 ++ ops2))).
Proof. exact after_genuine_inert_strong. Qed.
Print Assumptions C13_after_genuine_inert_strong.

(** non-vacuity: after the genuine Initial (pn 0, keys of [1;2;3]) its replay and a corrupted copy are stale *)
Example C13_stale_example :
  let s := fst (run (fun od _ _ => od) (init_client 1 [1] false [1;2;3] []) [OpPkt (PLong TInitial 1 [4;4] [1;2;3] 0 PlPing)]) in
  rcvFirst s = true /\ stale s (PLong TInitial 1 [4;4] [1;2;3] 0 PlClose) /\ stale s (PLong TInitial 1 [4;4] [9;9] 7 PlClose) /\
  stale s (PLong THandshake 2 [4;4] [1;2;3] 1 PlPing).
Proof. vm_compute. repeat split; auto. right. split; auto. right. left. discriminate. left. discriminate. Qed.
Print Assumptions C13_stale_example.

(** ... and each such packet is itself dropped without touching the state; every later step keeps
    the decision state (version, DCIDs, retry SCID, token, Initial-key CID). *)
Theorem C13_after_genuine_step : forall tagf s,
  rcvFirst s = true ->
  (forall p, forged (client s) (hsDCID s) p -> exists d, step tagf s (OpPkt p) = (s, ODropped d)) /\
  (forall o s' out, step tagf s o = (s', out) -> rcvFirst s' = true /\ decision s' = decision s).
Proof. exact after_genuine_step. Qed.
Print Assumptions C13_after_genuine_step.

(** The transport-params check (connection.go:2384) accepts iff initial_source_connection_id is the handshake DCID and, at
    a client, original_destination_connection_id is the original DCID and retry_source_connection_id
    is exactly the recorded Retry SCID (absent iff none). *)
Theorem C13_check_tp_iff : forall s i od r,
  check_tp s i od r = true <->
  i = hsDCID s /\ (client s = true -> od = origDCID s /\ r = retrySCID s).
Proof. exact check_tp_iff. Qed.
Print Assumptions C13_check_tp_iff.

(** Whatever is injected into a client connection: transport parameters are accepted only if they
    name the original DCID and, as Retry SCID, nothing (then no Retry was accepted) or the SCID of a
    Retry that was in the input with the tag of the ORIGINAL DCID. *)
Theorem C13_cid_authentication : forall tagf ver vers neg dc tok ops s' outs i od r,
  run tagf (init_client ver vers neg dc tok) ops = (s', outs) ->
  check_tp s' i od r = true ->
  i = hsDCID s' /\ od = dc /\
  match r with
  | None => retrySCID s' = None
  | Some a => exists v t body, In (OpPkt (PRetry v a t body (tagf dc body v))) ops
  end.
Proof. exact cid_authentication. Qed.
Print Assumptions C13_cid_authentication.

(** A client that accepted a Retry with SCID [a] answers the transport parameters of every server
    that does not itself claim that Retry with TRANSPORT_PARAMETER_ERROR: a forged Retry cannot end
    in a completed handshake. *)
Theorem C13_forged_retry_rejected : forall tagf s i od r a,
  client s = true -> retrySCID s = Some a -> r <> Some a ->
  step tagf s (OpTP i od r) = (s, OTPError).
Proof. exact forged_retry_rejected. Qed.
Print Assumptions C13_forged_retry_rejected.

(** Nothing is handled after the connection has been closed: whatever is queued behind the packet
    that closed it (a Version Negotiation packet without a common version, a CONNECTION_CLOSE, ...)
    changes neither state nor outcomes. (Repaired in /repo: handlePackets used to go on with the queue after
    handleVersionNegotiationPacket had destroyed the connection, finding
    simhandshake/dial-ok-closed/version-negotiation.) *)
(** (By construction of [run]: the content is in the CaseBatch / hstrace correspondence, which shows that the real
    handlePackets loop and real connections stop where the model stops. The loop over coalesced packets inside one
    datagram (handleOneDatagram keeps going after a CONNECTION_CLOSE in an earlier coalesced packet) is not modelled.) *)
Theorem C13_closed_stops_by_construction : forall tagf ops1 s s1 outs ops2,
  run tagf s ops1 = (s1, outs) -> terminal (last outs ONone) = true ->
  run tagf s (ops1 ++ ops2) = (s1, outs).
Proof. exact closed_stops. Qed.
Print Assumptions C13_closed_stops_by_construction.

(** Handshake deadline: while the handshake is incomplete the timer deadline is at most
    creation + 2 * HandshakeIdleTimeout, and a wake-up at or after the deadline closes the connection
    with a handshake/idle timeout, at the latest on the second pass (a due keep-alive goes first). *)
Theorem C13_handshake_deadline : forall t now now',
  hs_deadline t <= creation t + 2 * hsIdle t /\
  (hs_deadline t <= now -> now <= now' ->
   let '(t1, o1) := timeout_branch t now in
   closes o1 \/ (o1 = TKeepAlive /\ hs_deadline t1 = hs_deadline t /\ closes (snd (timeout_branch t1 now')))).
Proof. exact handshake_deadline_full. Qed.
Print Assumptions C13_handshake_deadline.

(** ---- non-vacuity ---- *)

Definition ex_tagf : cid -> list Z -> Z -> list Z := fun od body v => od ++ body ++ [v].
Definition ex_ops : list op :=
  [ OpPkt (PRetry 1 [9;9] [7] [5;5] [1;2;3;5;5;2]);            (* bad tag: ignored *)
    OpPkt (PRetry 1 [9;9] [7] [5;5] [1;2;3;5;5;1]);            (* valid: accepted *)
    OpPkt (PRetry 1 [8;8] [6] [5;5] [9;9;5;5;1]);              (* second Retry: ignored *)
    OpPkt (PLong TInitial 1 [4;4] [9;9] 0 PlPing);             (* first authenticated packet *)
    OpPkt (PVN true [2]);                                      (* late VN: ignored *)
    OpPkt (PLong TInitial 1 [6;6] [9;9] 1 PlClose);            (* Initial with another SCID: ignored *)
    OpTP [4;4] [1;2;3] (Some [9;9]) ].                         (* honest server's parameters: accepted *)

Example C13_example_run :
  snd (run ex_tagf (init_client 1 [1;2] false [1;2;3] []) ex_ops) =
  [ODropped DDecryptErr; ORetryAccepted; ODropped DSilent; OProcessed;
   ODropped DUnexpectedPacket; ODropped DUnknownCID; OTPOk] /\
  retry_ok ex_tagf (init_client 1 [1;2] false [1;2;3] []) 1 [9;9] [5;5] [1;2;3;5;5;1] /\
  forged true [4;4] (PLong TInitial 1 [6;6] [9;9] 1 PlClose).
Proof. split; [vm_compute; reflexivity|]. split; [|discriminate]. unfold retry_ok. simpl. repeat split; discriminate. Qed.
Print Assumptions C13_example_run.

Example C13_example_vn :
  handle_pkt ex_tagf (init_client 1 [1;2] false [1;2;3] []) (PVN true [3;2]) = (init_client 1 [1;2] false [1;2;3] [], ORecreate 2) /\
  handle_pkt ex_tagf (init_client 1 [1] false [1;2;3] []) (PVN true [3;2]) = (init_client 1 [1] false [1;2;3] [], OVNError).
Proof. split; reflexivity. Qed.
Print Assumptions C13_example_vn.

Example C13_example_deadline :
  let t := mkT 1 1 1 5000 0 false 0 in
  hs_deadline t = 5001 /\ timeout_branch t 5001 = (t, TIdleTimeout) /\ timeout_branch t 5000 = (t, TContinue).
Proof. vm_compute. auto. Qed.
Print Assumptions C13_example_deadline.

(** Regression witness of the repaired finding dial-ok-closed/version-negotiation: a forged Version
    Negotiation packet without a common version, with the server's genuine first flight and its transport
    parameters queued right behind it. The attempt ends with VersionNegotiationError and nothing else is
    handled: no packet counts as processed, the handshake cannot complete on the destroyed connection. *)
Example C13_regression_vn_then_flight :
  let s0 := init_client 2 [2] false [1;2;3] [] in
  let ops := [ OpPkt (PVN true [1; 439041610]);
               OpPkt (PLong TInitial 2 [4;4] [1;2;3] 0 PlPing);
               OpTP [4;4] [1;2;3] None ] in
  run ex_tagf s0 ops = (s0, [OVNError]) /\
  run ex_tagf s0 (tl ops) = (record_pn (first_packet s0 [4;4]) 0, [OProcessed; OTPOk]).
Proof. split; vm_compute; reflexivity. Qed.
Print Assumptions C13_regression_vn_then_flight.

(** ---- server side (model ServerAccept of server.go, tied by unit `serveraccept`) ---- *)

(** A Version Negotiation packet is never answered: it is dropped, nothing is queued, created or routed
    (only the periodic clean-up of expired 0-RTT queues may run). No reflection loop. *)
Theorem C13_server_vn_not_answered : forall c s now, exists s',
  recv c s now SPvn = (s', SDrop false) /\ (s' = s \/ s' = cleanup s now).
Proof. exact vn_not_answered. Qed.
Print Assumptions C13_server_vn_not_answered.

(** Over any input: every Version Negotiation packet the server sends answers a datagram of an unsupported version
    of at least MinUnknownVersionPacketSize (= 1200) bytes from that address, with version negotiation enabled. *)
Theorem C13_server_vn_only_for_big_unsupported : forall c ops s' outs l a d sc,
  srun c s0 ops = (s', outs) -> In (SDrained l) outs -> In (0, a, d, sc) l ->
  exists now size, In (SRecv now (SPunsupported size a)) ops /\ saMinUnknownVersionPacketSize <= size /\ disableVN c = false.
Proof. exact sa_vn_sends. Qed.
Print Assumptions C13_server_vn_only_for_big_unsupported.

(** Over any input: every Retry the server sends answers an Initial of at least 1200 bytes that carried no usable
    token (none, undecodable, or an invalid NEW_TOKEN token) and came from an address for which
    VerifySourceAddress demands verification; it is addressed to that address, DCID and SCID.
    (Its token is NewRetryToken(address, that DCID, fresh SCID): C14_retry_token_cids / C14_issued_token_validates.) *)
Theorem C13_server_retry_only_when_required : forall c ops s' outs l a d sc,
  srun c s0 ops = (s', outs) -> In (SDrained l) outs -> In (3, a, d, sc) l ->
  exists o, In o ops /\ retry_cause c a d sc o.
Proof. exact sa_retry_sends. Qed.
Print Assumptions C13_server_retry_only_when_required.

(** Answering with a Retry creates no state: no connection, no routing entry, and the 0-RTT queue of that DCID is gone. *)
Theorem C13_server_retry_stateless : forall c s now p s1 o q,
  recv_core c s now p = (s1, o) -> o = SRetry q ->
  exists size dcid scid tok addr intact newcid,
    p = SPinitial size dcid scid tok addr intact newcid /\
    saMinInitialPacketSize <= size /\ hget dcid (handlers s) = None /\ usable tok = false /\
    zmem addr (verifyAddrs c) = true /\
    handlers s1 = handlers s /\ nconn s1 = nconn s /\ created s1 = created s /\ zget dcid (zq s1) = None /\
    retryq s1 = (if q then retryq s ++ [(addr, dcid, scid, intact)] else retryq s).
Proof. exact retry_core. Qed.
Print Assumptions C13_server_retry_stateless.

(** Connections and routes, with connections that close ([SClose]: every ID the connection registered is removed, by key,
    as connIDGenerator.RemoveAll does) and client DCIDs that are retired ([SRetire], packetHandlerMap.Remove).
    If the connection ID generator never hands out an ID that is registered at that moment ([sfresh]; it may echo the
    client's own DCID), then in every reachable state every connection ID a LIVE connection has registered routes to that
    connection and no ID is registered by two live connections: at most one live connection per client-chosen DCID, and the
    DCID routes to it until it is retired or the connection closes. (Round 5: replaces C13_server_connections, which was only
    true because the model could not remove routes.) *)
Theorem C13_server_routes_while_live : forall c ops s' outs, srun c s0 ops = (s', outs) -> sfresh c s0 ops = true ->
  (forall n k, In (n, k) (owns s') -> hget k (handlers s') = Some n) /\
  (forall n m k, In (n, k) (owns s') -> In (m, k) (owns s') -> n = m).
Proof. exact sa_routes. Qed.
Print Assumptions C13_server_routes_while_live.

(** A connection is only ever created for a DCID that is not routed — in particular not while a live connection has it
    registered; after a close / retirement the same DCID may get a new connection (as in the code). *)
Theorem C13_server_no_second_connection_while_routed : forall c s now p s1 n0 od0 rs0 v0 rtt0 e0,
  recv_core c s now p = (s1, SNewConn n0 od0 rs0 v0 rtt0 e0) ->
  exists size dcid scid tok addr intact newcid, p = SPinitial size dcid scid tok addr intact newcid /\
    hget dcid (handlers s) = None /\ (route_inv s -> forall m, ~ In (m, dcid) (owns s)).
Proof. exact no_second_while_live. Qed.
Print Assumptions C13_server_no_second_connection_while_routed.

(** Over any input (closes and retirements included): a connection created for an address that must be verified carries a
    token valid for that address. *)
Theorem C13_server_verified_when_required : forall c ops s' outs, srun c s0 ops = (s', outs) ->
  forall n d a v, In (n, d, a, v) (created s') -> zmem a (verifyAddrs c) = true -> v = true.
Proof. exact sa_verified. Qed.
Print Assumptions C13_server_verified_when_required.

(** REFUTED without the generator's freshness: AddWithConnID checks only the client's DCID and overwrites
    handlers[newConnID] blindly. If the ID generated for a second connection equals the DCID a first, live connection was
    created for, that DCID is re-routed to the second connection; closing the second then removes the first's route.
    (Replayed on the real baseServer with a scripted ConnectionIDGenerator: serveraccept, DIST key cid-collision-reroute.) *)
Example C13_server_routes_refuted_without_fresh_ids :
  let c := mkCfg false false [] [] in
  let d1 := [1;1;1;1;1;1;1;1] in let d2 := [2;2;2;2;2;2;2;2] in
  let ops := [ SRecv 1 (SPinitial 1200 d1 [7] TkNone 0 true [5;5]);
               SRecv 2 (SPinitial 1200 d2 [8] TkNone 1 true d1) ] in
  sfresh c s0 ops = false /\
  In (0, d1) (owns (fst (srun c s0 ops))) /\ hget d1 (handlers (fst (srun c s0 ops))) = Some 1 /\
  hget d1 (handlers (fst (srun c s0 (ops ++ [SClose 1])))) = None /\ In (0, d1) (owns (fst (srun c s0 (ops ++ [SClose 1])))).
Proof. vm_compute. repeat split; auto. Qed.
Print Assumptions C13_server_routes_refuted_without_fresh_ids.

(** non-vacuity of the repaired statement: a connection, a duplicate routed to it, its close, and a second connection for
    the same DCID afterwards *)
Example C13_server_routes_example :
  let c := mkCfg false false [] [] in
  let d1 := [1;1;1;1;1;1;1;1] in
  let ops := [ SRecv 1 (SPinitial 1200 d1 [7] TkNone 0 true [5;5]); SRecv 2 (SPinitial 1200 d1 [7] TkNone 0 true [6;6]);
               SClose 0; SRecv 3 (SPinitial 1200 d1 [7] TkNone 0 true [9;9]); SRetire 1 d1 ] in
  sfresh c s0 ops = true /\
  snd (srun c s0 ops) = [SNewConn 0 d1 None false 0 0; SRouted 0; SRemoved 2; SNewConn 1 d1 None false 0 0; SRemoved 1] /\
  owns (fst (srun c s0 ops)) = [(1, [9;9])].
Proof. vm_compute. repeat split. Qed.
Print Assumptions C13_server_routes_example.

(** A further Initial for a DCID that has a connection goes to that connection. *)
Theorem C13_server_duplicate_routed : forall c s now size dcid scid tok addr intact newcid n,
  saMinInitialPacketSize <= size -> (tok_empty tok && (zlen dcid <? saMinConnectionIDLenInitial)) = false ->
  hget dcid (handlers s) = Some n ->
  recv_core c s now (SPinitial size dcid scid tok addr intact newcid) = (s, SRouted n).
Proof. exact routed_core. Qed.
Print Assumptions C13_server_duplicate_routed.

(** Over any input: at most Max0RTTQueues (32) 0-RTT queues of at most Max0RTTQueueLen (31) packets; none at all
    unless early connections are accepted. *)
Theorem C13_server_0rtt_queue_bounds : forall c ops s' outs, srun c s0 ops = (s', outs) ->
  zlen (zq s') <= saMax0RTTQueues /\ (forall k n e, In (k, (n, e)) (zq s') -> n <= saMax0RTTQueueLen) /\
  (acceptEarly c = false -> zq s' = []).
Proof. exact sa_zq_bounds. Qed.
Print Assumptions C13_server_0rtt_queue_bounds.

Theorem C13_server_constants : saMinUnknownVersionPacketSize = 1200 /\ saMinInitialPacketSize = 1200 /\
  saMax0RTTQueues = 32 /\ saMax0RTTQueueLen = 31.
Proof. exact sa_constants. Qed.
Print Assumptions C13_server_constants.

(** non-vacuity: verification required for address 7; an Initial without token gets a Retry and no state, the same
    DCID with a valid Retry token creates the (one) connection, a third Initial is routed to it, a VN packet and a
    small unsupported-version datagram are ignored, a big one is answered *)
Example C13_server_example :
  let c := mkCfg false true [7] [] in
  let ops := [ SRecv 1 (SPinitial 1200 [1;2;3;4;5;6;7;8] [9] TkNone 7 true []);
               SDrain;
               SRecv 2 (SPinitial 1200 [5;5;5;5] [9] (TkRetry true [1;2;3;4;5;6;7;8] [5;5;5;5]) 7 true [6;6]);
               SRecv 3 (SPinitial 1250 [5;5;5;5] [9] (TkRetry true [1;2;3;4;5;6;7;8] [5;5;5;5]) 7 true [8;8]);
               SRecv 4 SPvn; SRecv 5 (SPunsupported 1199 3); SRecv 6 (SPunsupported 1200 3); SDrain ] in
  snd (srun c s0 ops) =
  [ SRetry true; SDrained [(3, 7, [1;2;3;4;5;6;7;8], [9])];
    SNewConn 0 [1;2;3;4;5;6;7;8] (Some [5;5;5;5]) true 0 0; SRouted 0;
    SDrop false; SDrop false; SQueuedVN; SDrained [(0, 3, [], [])] ].
Proof. vm_compute. reflexivity. Qed.
Print Assumptions C13_server_example.

(** ---- 0-RTT data (model EarlyData; proof-level, tied to the code by the simhandshake 0-RTT scenarios) ---- *)

(** C13_0rtt_reject_clean. If the server rejects early data, then for every sequence of application writes,
    packetisations, losses (with retransmission), duplicated / delayed deliveries and whenever the answer arrives:
    every stream frame handed to the server application was written after the rejection (generation 1: on the
    re-initialised stream maps, i.e. re-sent by the application as 1-RTT data). None of the 0-RTT bytes. *)
Theorem C13_0rtt_reject_clean : forall ops f, In f (srv (erun false e0 ops)) -> fgen f = 1.
Proof. exact reject_clean. Qed.
Print Assumptions C13_0rtt_reject_clean.

(** ... and as long as the client has not learnt of the rejection the server application gets nothing. *)
Theorem C13_0rtt_reject_nothing_before : forall ops,
  decided (erun false e0 ops) = None -> srv (erun false e0 ops) = [].
Proof. exact reject_nothing_before. Qed.
Print Assumptions C13_0rtt_reject_nothing_before.

(** Accepted or rejected: only frames the client application wrote are ever handed over (each byte offset at most
    once to the reader is the receive stream's reassembly, C03 / C01). *)
Theorem C13_0rtt_only_written : forall a ops f, In f (srv (erun a e0 ops)) -> In f (written (erun a e0 ops)).
Proof. exact only_written. Qed.
Print Assumptions C13_0rtt_only_written.

Example C13_0rtt_example :
  (* rejected: the early frame goes out twice (PTO), both copies arrive and are useless; after the answer the
     application writes again, that frame is delivered *)
  srv (erun false e0 [EWrite 0 0 100; EPack 1 1; ELost 1; EPack 2 1; EDeliver 1; EDeliver 2; EDecide false;
                      EWrite 0 0 50; EPack 3 1; EDeliver 3; EDeliver 1]) = [(1, 0, 0, 50)] /\
  (* accepted: the early frame is delivered from its 0-RTT packet, a late duplicate hands it over again
     (the receive stream discards the duplicate) *)
  srv (erun true e0 [EWrite 0 0 100; EPack 1 1; EDeliver 1; EDecide true; EDeliver 1]) = [(0, 0, 0, 100); (0, 0, 0, 100)].
Proof. split; vm_compute; reflexivity. Qed.
Print Assumptions C13_0rtt_example.

(** ---- C13 x C14: the server on token BYTES (ServerAccept composed with AmpToken.TokenModel; proof-level
    composition of two models each tied to the code by its own unit) ---- *)

(** For every byte-level server history [pre]: if the next Initial (token field [enc], from address [a]) makes the
    server create a connection with a retry_source_connection_id, then the address is validated and [enc] is, byte for
    byte, the token of a Retry this server sent earlier in [pre] — to the same address (same IP for UDP), for exactly the
    original DCID [od] the connection authenticates, with exactly that Retry SCID [rs], at most maxRetryAge ago — and that
    Retry answered an Initial without usable token from an address that had to be verified.
    Hypotheses: the AEAD opens what this key sealed, ASN.1 round-trips, ideal ciphertext integrity — with respect to the
    log [L] of what the server's generator sealed in [pre]. *)
Theorem C13_retry_token_bound :
  forall (K : Type) (prot_seal : K -> list Z -> list Z -> list Z) (prot_open : K -> list Z -> list Z -> option (list Z))
         (marshal : rec -> list Z) (unmarshal : list Z -> option (rec * list Z)) (key : K) (addr_of : Z -> addr)
         (maxTokenAge maxRetryAge : Z) c pre now size dcid scid enc a intact newcid s L s' n od rs v rtt e,
  brun K prot_open unmarshal key addr_of maxTokenAge maxRetryAge c (s0, []) pre = (s, L) ->
  oracles_correct prot_seal prot_open marshal unmarshal (sealed_of K marshal key L) ->
  protector_ideal prot_seal prot_open (sealed_of K marshal key L) ->
  recv c s now (SPinitial size dcid scid (classify K prot_open unmarshal key addr_of maxTokenAge maxRetryAge enc a now) a intact newcid)
    = (s', SNewConn n od (Some rs) v rtt e) ->
  v = true /\
  exists nonce a0 ts cs,
    In (nonce, Rec true (encodeRemoteAddr (addr_of a0)) ts 0 od rs) L /\
    enc = newRetryToken (prot_seal key) marshal nonce (addr_of a0) od rs ts /\
    same_addr (addr_of a) (addr_of a0) /\ now - ts <= maxRetryAge /\
    exists o, In o (flat_map (to_sops K prot_open unmarshal key addr_of maxTokenAge maxRetryAge) pre) /\ retry_cause c a0 od cs o.
Proof. exact retry_token_bound. Qed.
Print Assumptions C13_retry_token_bound.

(** A byte string this server's generator did not seal (forged, mutated, truncated, sealed under another key) never yields
    a validated address, a retry_source_connection_id, or an original DCID other than the packet's own. *)
Theorem C13_forged_token_unverified :
  forall (K : Type) (prot_seal : K -> list Z -> list Z -> list Z) (prot_open : K -> list Z -> list Z -> option (list Z))
         (marshal : rec -> list Z) (unmarshal : list Z -> option (rec * list Z)) (key : K) (addr_of : Z -> addr)
         (maxTokenAge maxRetryAge : Z) c s L now size dcid scid enc a intact newcid s' n od rs v rtt e,
  protector_ideal prot_seal prot_open (sealed_of K marshal key L) ->
  (forall d, ~ sealed_token K prot_seal (sealed_of K marshal key L) key enc d) ->
  recv c s now (SPinitial size dcid scid (classify K prot_open unmarshal key addr_of maxTokenAge maxRetryAge enc a now) a intact newcid)
    = (s', SNewConn n od rs v rtt e) ->
  v = false /\ rs = None /\ od = dcid.
Proof. exact forged_token_unverified. Qed.
Print Assumptions C13_forged_token_unverified.

(** ServerAccept's token decision on the class of a token is C14's handleInitial on its bytes. *)
Theorem C13_server_token_decision_agrees :
  forall (K : Type) (prot_open : K -> list Z -> list Z -> option (list Z)) (unmarshal : list Z -> option (rec * list Z))
         (key : K) (addr_of : Z -> addr) (maxTokenAge maxRetryAge : Z) c s dcid scid enc a now intact newcid,
  hget dcid (handlers s) = None -> zmem a (refuseAddrs c) = false ->
  zlen (invq s) < saInvalidTokenQueueCap -> zlen (retryq s) < saRetryQueueCap ->
  saMinConnectionIDLenInitial = tok_MinConnectionIDLenInitial ->
  match handleInitial (prot_open key) unmarshal enc dcid (addr_of a) now maxTokenAge maxRetryAge
                      (if zmem a (verifyAddrs c) then 1 else 0) with
  | Out k v od rs rtt =>
      match snd (recv_initial c s dcid scid (classify K prot_open unmarshal key addr_of maxTokenAge maxRetryAge enc a now) a intact newcid) with
      | SDrop true => k = 0
      | SInvalidToken true => k = 1
      | SRetry true => k = 2
      | SNewConn _ od' rs' v' rtt' _ => k = 3 /\ od' = od /\ rs' = rs /\ v' = v /\ rtt' = rtt
      | _ => False
      end
  end.
Proof. exact decision_agrees. Qed.
Print Assumptions C13_server_token_decision_agrees.

(** non-vacuity: on a concrete history (C14's toy protector: Initial without token, Retry, token replayed from another
    port of the same host) all hypotheses of C13_retry_token_bound hold and it names the Retry of that history *)
Example C13_retry_token_bound_example :
  exists nonce a0' ts cs,
    In (nonce, Rec true (encodeRemoteAddr (bi_addr a0')) ts 0 bi_dcid [9; 9; 9; 9]) (snd bi_state) /\
    Instance.tok0 = newRetryToken (Instance.sealI 7) Instance.marshalI nonce (bi_addr a0') bi_dcid [9; 9; 9; 9] ts /\
    same_addr (bi_addr 1) (bi_addr a0') /\ 1400 - ts <= 500 /\
    exists o, In o (flat_map (to_sops Z Instance.openI Instance.unmarshalI 7 bi_addr 86400 500) bi_pre) /\ retry_cause bi_cfg a0' bi_dcid cs o.
Proof. exact bi_bound. Qed.
Print Assumptions C13_retry_token_bound_example.

(** ---- C13_0rtt_reject_no_retransmit: the client's rejection path on the TIED unit models (proof-level composition
    of V.SentPH.Model — C06, unit sentph — and V.SendStream.Model — C01, unit sendstream; they meet at the callback
    interface: an OnLost callback of the sent-packet handler for a STREAM frame is the stream's OLost) ---- *)

(** Sent-packet handler: after DropPackets(0-RTT), in every continuation of the history, no frame of a dropped 0-RTT packet
    is ever reported lost (or acknowledged), and none stays tracked — unless the same frame is handed to SentPacket
    again (NoDup of the handed frame ids: a re-sent frame is a new frame, i.e. the application wrote again). *)
Theorem C13_0rtt_reject_no_retransmit :
  forall client validated ipn period maxPeriod rnd0 ops1 now orc ops2,
  0 <= ipn ->
  let st1 := SentPH.Model.run (SentPH.Model.init client validated ipn period maxPeriod rnd0) ops1 in
  SentPH.ProofsMain.executed st1 (SentPH.Model.ODrop sph_Enc0RTT now) = true ->
  let '(st, D, H) := SentPH.ProofsMain.history_from client validated ipn period maxPeriod rnd0
                       (ops1 ++ (SentPH.Model.ODrop sph_Enc0RTT now, orc) :: ops2) in
  NoDup H ->
  forall id, In id (SentPH.ProofsOps2.ids_of (SentPH.ProofsOps3.take0rtt (SentPH.ProofsBase.pk st1 SentPH.ProofsBase.SA))) ->
    SentPH.ProofsBase.cntcb id (SentPH.Model.sCbs st) = 0 /\ ~ In id (SentPH.ProofsMain.tracked_ids st).
Proof. exact EarlyData.Compose.PH.zero_rtt_reject_no_callback. Qed.
Print Assumptions C13_0rtt_reject_no_retransmit.

(** Send stream: without an OnLost callback nothing is ever re-emitted — whatever else happens to the stream,
    closeForShutdown included (it skips streams whose writing side is already closed: they keep their state, so only an
    OnLost could make them send again): the retransmission queue stays empty, every emitted frame is new data. *)
Theorem C13_0rtt_stream_resends_only_on_lost : forall ops s,
  forallb EarlyData.Compose.SS.not_lost ops = true -> SendStream.Model.retransQ s = [] ->
  SendStream.Model.retransQ (SendStream.Model.run_state s ops) = [] /\
  exists X, SendStream.Model.emitted (SendStream.Model.run_state s ops) = SendStream.Model.emitted s ++ X /\
            SendStream.Model.emittedNew (SendStream.Model.run_state s ops) = SendStream.Model.emittedNew s ++ X.
Proof. exact EarlyData.Compose.SS.no_lost_no_retransmit. Qed.
Print Assumptions C13_0rtt_stream_resends_only_on_lost.

(** non-vacuity: a client sends STREAM frame 5 in a 0-RTT packet; DropPackets(0-RTT) is executable and discards exactly that
    frame; afterwards a loss-detection timeout and an ACK-less wait never produce a callback for it *)
Example C13_0rtt_reject_no_retransmit_example :
  let orc : SentPH.Model.oracle := (1000, 3000, 3000) in
  let ops1 := [(SentPH.Model.OSend sph_Enc0RTT 10 0 [5] [] 300 false false 0, orc)] in
  let st1 := SentPH.Model.run (SentPH.Model.init true false 0 100 1000 7) ops1 in
  SentPH.ProofsMain.executed st1 (SentPH.Model.ODrop sph_Enc0RTT 20) = true /\
  SentPH.ProofsOps2.ids_of (SentPH.ProofsOps3.take0rtt (SentPH.ProofsBase.pk st1 SentPH.ProofsBase.SA)) = [5] /\
  SentPH.Model.sCbs (SentPH.Model.run st1 [(SentPH.Model.ODrop sph_Enc0RTT 20, orc); (SentPH.Model.OTimeout 5000 0, orc)]) = [].
Proof. vm_compute. repeat split. Qed.
Print Assumptions C13_0rtt_reject_no_retransmit_example.

(** ---- buffered 0-RTT packets at the server (ServerAccept; the hand-over count [early] of SNewConn is compared with the
    number of datagrams the real new connection received, unit serveraccept) ---- *)

(** Over every arrival order (0-RTT before the Initial, duplicated, for many DCIDs, after the connection exists, with
    Retries, refusals and expiry in between): the 0-RTT packets handed to new connections plus those still queued never
    exceed those that were queued — a buffered packet is handed over at most once, to the one connection created for its
    DCID (whose queue is deleted with the hand-over); all others were dropped. *)
Theorem C13_server_0rtt_at_most_once : forall c ops s' outs, srun c s0 ops = (s', outs) ->
  n_handed outs + qsum (zq s') <= n_queued outs /\ 0 <= qsum (zq s').
Proof. exact sa_early_at_most_once. Qed.
Print Assumptions C13_server_0rtt_at_most_once.

(** The clean-up (run with the first datagram that arrives after nextZeroRTTCleanup) leaves no expired queue. *)
Theorem C13_server_0rtt_expiry : forall s now k n e,
  In (k, (n, e)) (zq (cleanup s now)) -> now < e /\ In (k, (n, e)) (zq s).
Proof. exact cleanup_expired. Qed.
Print Assumptions C13_server_0rtt_expiry.

(** non-vacuity: two 0-RTT packets before their Initial are handed to the connection, a duplicate Initial and a later
    0-RTT packet go to the existing connection; 0-RTT for another DCID expires unseen; a Retry deletes a queue *)
Example C13_server_0rtt_example :
  let c := mkCfg false true [9] [] in
  let d1 := [1;1;1;1;1;1;1;1] in let d2 := [2;2;2;2;2;2;2;2] in let d3 := [3;3;3;3;3;3;3;3] in
  let ops := [ SRecv 10 (SP0rtt d1); SRecv 11 (SP0rtt d1); SRecv 12 (SP0rtt d2);
               SRecv 20 (SPinitial 1200 d1 [7] TkNone 0 true [5;5]);
               SRecv 21 (SP0rtt d1); SRecv 22 (SPinitial 1200 d1 [7] TkNone 0 true [6;6]);
               SRecv 30 (SP0rtt d3); SRecv 31 (SPinitial 1200 d3 [7] TkNone 9 true []);
               SRecv (12 + saMax0RTTQueueingDuration + 1) SPvn ] in
  snd (srun c s0 ops) = [ SQueued0RTT; SQueued0RTT; SQueued0RTT; SNewConn 0 d1 None false 0 2; SRouted 0; SRouted 0;
                          SQueued0RTT; SRetry true; SDrop false ] /\
  zq (fst (srun c s0 ops)) = [] /\ n_handed (snd (srun c s0 ops)) = 2 /\ n_queued (snd (srun c s0 ops)) = 4.
Proof. vm_compute. repeat split. Qed.
Print Assumptions C13_server_0rtt_example.

(** ---- round 6: agreement or clean failure, modelled part ---- *)

(** The headline clause for the part that is modelled (version and authenticated connection IDs), composed over
    the client's pre-authentication filter (ConnAccept [run], the model `hstrace` replays client traces through) and
    the server's admission (ServerAccept [recv_core]).
    Let the server create connection n for an Initial (DCID d, token class tk); newConnection then sets the transport
    parameters (initial_source_connection_id, original_destination_connection_id, retry_source_connection_id) =
    (newcid, od, rs) (connection.go:350-358). Hypothesis H_tls_tp (TLS authenticates transport parameters): exactly that
    triple reaches the client's handler, after ANY sequence [ops] of genuine and injected packets. Then either
      - the client accepts (OTPOk) and both sides agree: the client's handshake DCID is the server's SCID and the server
        routes it to connection n; the server's original DCID is the client's first DCID; the Retry SCID the server
        claims is the one the client recorded - none (then the Initial carried no valid Retry token and its DCID was the
        client's first DCID) or that of a Retry in the input whose tag is valid for the first DCID, and the Initial
        carried a valid Retry token for (first DCID, that SCID); the client's version is still the one it dialled with; or
      - the client's run has ended with a terminal outcome (TRANSPORT_PARAMETER_ERROR, or an earlier close: Version
        Negotiation, CONNECTION_CLOSE) and nothing queued behind is handled.
    NOT modelled, TLS's: ALPN selection (H_tls_alpn) and 0-RTT acceptance (H_tls_0rtt); the server's version is the
    version of the Initial it accepted - see C13_processed_version for the client's half of version agreement. *)
Theorem C13_agree_or_fail_modelled :
  forall tagf ver vers neg dc tok ops s' outs
         c ss now size d sc tk addr intact newcid ss1 n od rs verified rtt e,
  recv_core c ss now (SPinitial size d sc tk addr intact newcid) = (ss1, SNewConn n od rs verified rtt e) ->
  run tagf (init_client ver vers neg dc tok) (ops ++ [OpTP newcid od rs]) = (s', outs) ->
  (last outs ONone = OTPOk /\
   version s' = ver /\ hsDCID s' = newcid /\ origDCID s' = dc /\ od = dc /\ rs = retrySCID s' /\
   hget newcid (handlers ss1) = Some n /\
   ((rs = None /\ d = dc /\ forall od0 rs0, tk <> TkRetry true od0 rs0) \/
    (exists a, rs = Some a /\ tk = TkRetry true dc a /\
               exists v t body, In (OpPkt (PRetry v a t body (tagf dc body v))) ops)))
  \/
  (terminal (last outs ONone) = true /\
   forall more, run tagf (init_client ver vers neg dc tok) ((ops ++ [OpTP newcid od rs]) ++ more) = (s', outs)).
Proof. exact agree_or_fail_modelled. Qed.
Print Assumptions C13_agree_or_fail_modelled.

(** Version agreement, client half: after any input, a long-header packet the client processes carries the version the
    client dialled with (a server connection speaks the version of the Initial it accepted, so a client that processed
    one of its packets runs that version). *)
Theorem C13_processed_version : forall tagf ver vers neg dc tok ops1 ty sv scid k pn pl,
  snd (step tagf (fst (run tagf (init_client ver vers neg dc tok) ops1)) (OpPkt (PLong ty sv scid k pn pl))) = OProcessed ->
  sv = ver.
Proof. exact processed_version. Qed.
Print Assumptions C13_processed_version.

(** non-vacuity: both branches occur. Plain handshake: agreement. A forged Retry with a good tag accepted first (the
    attacker saw the first Initial): the genuine server, which sent no Retry, is refused with OTPError and the run stops. *)
Example C13_agree_or_fail_example :
  let dc := [1;2;3;4;5;6;7;8] in
  let c := mkCfg false false [] [] in
  recv_core c s0 1 (SPinitial 1200 dc [7] TkNone 0 true [5;5]) =
    (fst (recv_core c s0 1 (SPinitial 1200 dc [7] TkNone 0 true [5;5])), SNewConn 0 dc None false 0 0) /\
  snd (run ex_tagf (init_client 1 [1] false dc []) ([OpPkt (PLong TInitial 1 [5;5] dc 0 PlPing)] ++ [OpTP [5;5] dc None])) =
    [OProcessed; OTPOk] /\
  snd (run ex_tagf (init_client 1 [1] false dc [])
         ([OpPkt (PRetry 1 [9;9] [3] [4] (ex_tagf dc [4] 1)); OpPkt (PLong TInitial 1 [5;5] [9;9] 0 PlPing)] ++ [OpTP [5;5] dc None])) =
    [ORetryAccepted; OProcessed; OTPError].
Proof. vm_compute. auto. Qed.
Print Assumptions C13_agree_or_fail_example.
