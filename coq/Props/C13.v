(** C13 — handshakes converge or fail cleanly; forged packets cannot change the outcome.
    Statements about the ConnAccept model (coq/ConnAccept/Model.v), which mirrors the packet
    acceptance rules of /repo/connection.go and is tied to them by the correspondence check of
    unit `connaccept`. [tagf] is the Retry integrity tag function (AES-128-GCM in the code): every
    theorem holds for every such function. Only statements live here. *)
From Coq Require Import List ZArith Bool.
From V Require Import Gen.Params Lib.Hex ConnAccept.Model ConnAccept.Proofs.
Import ListNotations.
Open Scope Z_scope.

(** A Retry is accepted exactly if: client, no packet processed yet, no Retry accepted yet, its SCID
    differs from the current DCID, it has the connection's version, and its tag is the tag of the
    current (= original, see C13_cid_authentication) DCID; the effect is then exactly the switch to the
    Retry's SCID and token. Otherwise it is dropped and the state is unchanged. *)
Theorem C13_retry_rules : forall tagf s ver scid tok body tag,
  (retry_ok tagf s ver scid body tag ->
     handle_pkt tagf s (PRetry ver scid tok body tag) = (retry_state s scid tok, ORetryAccepted)) /\
  (~ retry_ok tagf s ver scid body tag ->
     exists d, handle_pkt tagf s (PRetry ver scid tok body tag) = (s, ODropped d)).
Proof. exact retry_rules. Qed.
Print Assumptions C13_retry_rules.

(** Over any input, from any state, at most one Retry is ever accepted. *)
Theorem C13_at_most_one_retry : forall tagf s ops,
  (length (filter is_accept (snd (run tagf s ops))) <= 1)%nat.
Proof. exact at_most_one_retry. Qed.
Print Assumptions C13_at_most_one_retry.

(** A Retry whose tag is not the integrity tag is ignored in every state. *)
Theorem C13_bad_tag_ignored : forall tagf s ver scid tok body tag,
  tag <> tagf (dcid s) body ver ->
  exists d, handle_pkt tagf s (PRetry ver scid tok body tag) = (s, ODropped d).
Proof. exact bad_tag_ignored. Qed.
Print Assumptions C13_bad_tag_ignored.

(** A Version Negotiation packet never changes the connection state; it has an effect only at a
    client, before the first processed packet, without prior negotiation, if it parses and does not
    list the current version; the effect is then a re-creation with the first of Config.Versions that
    the packet lists, or VersionNegotiationError if there is none. *)
Theorem C13_vn_rules : forall tagf s ok vers,
  exists o, handle_pkt tagf s (PVN ok vers) = (s, o) /\
  ((exists d, o = ODropped d) \/
   (client s = true /\ rcvFirst s = false /\ verNeg s = false /\ ok = true /\ ~ In (version s) vers /\
    ((exists v, o = ORecreate v /\ In v (cfgVersions s) /\ In v vers /\ v <> version s /\
                exists pre post, cfgVersions s = pre ++ v :: post /\ forall w, In w pre -> ~ In w vers)
     \/ (o = OVNError /\ forall v, In v (cfgVersions s) -> ~ In v vers)))).
Proof. exact vn_rules. Qed.
Print Assumptions C13_vn_rules.

(** The connection re-created after a version negotiation (versionNegotiated = true) never
    negotiates again, whatever it receives. *)
Theorem C13_vn_once : forall tagf ops s s' outs, verNeg s = true -> run tagf s ops = (s', outs) ->
  forall o, In o outs -> (forall v, o <> ORecreate v) /\ o <> OVNError.
Proof. exact negotiated_no_vn. Qed.
Print Assumptions C13_vn_once.

(** Once a packet has been authenticated, injecting any Retry, any Version Negotiation, any
    malformed packet, any Initial with a source connection ID other than the handshake DCID (or any
    0-RTT packet at a client) at any position of any input leaves the final state and all
    non-drop outcomes unchanged. *)
Theorem C13_after_genuine_inert : forall tagf ops1 s p ops2,
  rcvFirst s = true -> forged (client s) (hsDCID s) p ->
  fst (run tagf s (ops1 ++ OpPkt p :: ops2)) = fst (run tagf s (ops1 ++ ops2)) /\
  filter nondrop (snd (run tagf s (ops1 ++ OpPkt p :: ops2))) = filter nondrop (snd (run tagf s (ops1 ++ ops2))).
Proof. exact after_genuine_inert. Qed.
Print Assumptions C13_after_genuine_inert.

(** ... and each such packet is itself dropped without touching the state; every later step keeps
    the decision state (version, DCIDs, retry SCID, token, Initial-key CID). *)
Theorem C13_after_genuine_step : forall tagf s,
  rcvFirst s = true ->
  (forall p, forged (client s) (hsDCID s) p -> exists d, step tagf s (OpPkt p) = (s, ODropped d)) /\
  (forall o s' out, step tagf s o = (s', out) -> rcvFirst s' = true /\ decision s' = decision s).
Proof. exact after_genuine_step. Qed.
Print Assumptions C13_after_genuine_step.

(** The transport-params check (connection.go:2384) accepts iff initial_source_connection_id is the handshake DCID and, at
    a client, original_destination_connection_id is the original DCID and retry_source_connection_id
    is exactly the recorded Retry SCID (absent iff none). *)
Theorem C13_check_tp_iff : forall s i od r,
  check_tp s i od r = true <->
  i = hsDCID s /\ (client s = true -> od = origDCID s /\ r = retrySCID s).
Proof. exact check_tp_iff. Qed.
Print Assumptions C13_check_tp_iff.

(** Whatever is injected into a client connection: transport parameters are accepted only if they
    name the original DCID and, as Retry SCID, nothing (then no Retry was accepted) or the SCID of a
    Retry that was in the input with the tag of the ORIGINAL DCID. *)
Theorem C13_cid_authentication : forall tagf ver vers neg dc tok ops s' outs i od r,
  run tagf (init_client ver vers neg dc tok) ops = (s', outs) ->
  check_tp s' i od r = true ->
  i = hsDCID s' /\ od = dc /\
  match r with
  | None => retrySCID s' = None
  | Some a => exists v t body, In (OpPkt (PRetry v a t body (tagf dc body v))) ops
  end.
Proof. exact cid_authentication. Qed.
Print Assumptions C13_cid_authentication.

(** A client that accepted a Retry with SCID [a] answers the transport parameters of every server
    that does not itself claim that Retry with TRANSPORT_PARAMETER_ERROR: a forged Retry cannot end
    in a completed handshake. *)
Theorem C13_forged_retry_rejected : forall tagf s i od r a,
  client s = true -> retrySCID s = Some a -> r <> Some a ->
  step tagf s (OpTP i od r) = (s, OTPError).
Proof. exact forged_retry_rejected. Qed.
Print Assumptions C13_forged_retry_rejected.

(** Nothing is handled after the connection has been closed: whatever is queued behind the packet
    that closed it (a Version Negotiation packet without a common version, a CONNECTION_CLOSE, ...)
    changes neither state nor outcomes. (Repaired in /repo: handlePackets used to go on with the queue after
    handleVersionNegotiationPacket had destroyed the connection, finding
    simhandshake/dial-ok-closed/version-negotiation.) *)
Theorem C13_closed_stops : forall tagf ops1 s s1 outs ops2,
  run tagf s ops1 = (s1, outs) -> terminal (last outs ONone) = true ->
  run tagf s (ops1 ++ ops2) = (s1, outs).
Proof. exact closed_stops. Qed.
Print Assumptions C13_closed_stops.

(** Handshake deadline: while the handshake is incomplete the timer deadline is at most
    creation + 2 * HandshakeIdleTimeout, and a wake-up at or after the deadline closes the connection
    with a handshake/idle timeout, at the latest on the second pass (a due keep-alive goes first). *)
Theorem C13_handshake_deadline : forall t now now',
  hs_deadline t <= creation t + 2 * hsIdle t /\
  (hs_deadline t <= now -> now <= now' ->
   let '(t1, o1) := timeout_branch t now in
   closes o1 \/ (o1 = TKeepAlive /\ hs_deadline t1 = hs_deadline t /\ closes (snd (timeout_branch t1 now')))).
Proof. exact handshake_deadline_full. Qed.
Print Assumptions C13_handshake_deadline.

(** ---- non-vacuity ---- *)

Definition ex_tagf : cid -> list Z -> Z -> list Z := fun od body v => od ++ body ++ [v].
Definition ex_ops : list op :=
  [ OpPkt (PRetry 1 [9;9] [7] [5;5] [1;2;3;5;5;2]);            (* bad tag: ignored *)
    OpPkt (PRetry 1 [9;9] [7] [5;5] [1;2;3;5;5;1]);            (* valid: accepted *)
    OpPkt (PRetry 1 [8;8] [6] [5;5] [9;9;5;5;1]);              (* second Retry: ignored *)
    OpPkt (PLong TInitial 1 [4;4] [9;9] 0 PlPing);             (* first authenticated packet *)
    OpPkt (PVN true [2]);                                      (* late VN: ignored *)
    OpPkt (PLong TInitial 1 [6;6] [9;9] 1 PlClose);            (* Initial with another SCID: ignored *)
    OpTP [4;4] [1;2;3] (Some [9;9]) ].                         (* honest server's parameters: accepted *)

Example C13_example_run :
  snd (run ex_tagf (init_client 1 [1;2] false [1;2;3] []) ex_ops) =
  [ODropped DDecryptErr; ORetryAccepted; ODropped DSilent; OProcessed;
   ODropped DUnexpectedPacket; ODropped DUnknownCID; OTPOk] /\
  retry_ok ex_tagf (init_client 1 [1;2] false [1;2;3] []) 1 [9;9] [5;5] [1;2;3;5;5;1] /\
  forged true [4;4] (PLong TInitial 1 [6;6] [9;9] 1 PlClose).
Proof. split; [vm_compute; reflexivity|]. split; [|discriminate]. unfold retry_ok. simpl. repeat split; discriminate. Qed.
Print Assumptions C13_example_run.

Example C13_example_vn :
  handle_pkt ex_tagf (init_client 1 [1;2] false [1;2;3] []) (PVN true [3;2]) = (init_client 1 [1;2] false [1;2;3] [], ORecreate 2) /\
  handle_pkt ex_tagf (init_client 1 [1] false [1;2;3] []) (PVN true [3;2]) = (init_client 1 [1] false [1;2;3] [], OVNError).
Proof. split; reflexivity. Qed.
Print Assumptions C13_example_vn.

Example C13_example_deadline :
  let t := mkT 1 1 1 5000 0 false 0 in
  hs_deadline t = 5001 /\ timeout_branch t 5001 = (t, TIdleTimeout) /\ timeout_branch t 5000 = (t, TContinue).
Proof. vm_compute. auto. Qed.
Print Assumptions C13_example_deadline.

(** Regression witness of the repaired finding dial-ok-closed/version-negotiation: a forged Version
    Negotiation packet without a common version, with the server's genuine first flight and its transport
    parameters queued right behind it. The attempt ends with VersionNegotiationError and nothing else is
    handled: no packet counts as processed, the handshake cannot complete on the destroyed connection. *)
Example C13_regression_vn_then_flight :
  let s0 := init_client 2 [2] false [1;2;3] [] in
  let ops := [ OpPkt (PVN true [1; 439041610]);
               OpPkt (PLong TInitial 2 [4;4] [1;2;3] 0 PlPing);
               OpTP [4;4] [1;2;3] None ] in
  run ex_tagf s0 ops = (s0, [OVNError]) /\
  run ex_tagf s0 (tl ops) = (record_pn (first_packet s0 [4;4]) 0, [OProcessed; OTPOk]).
Proof. split; vm_compute; reflexivity. Qed.
Print Assumptions C13_regression_vn_then_flight.
