(** C06 — loss recovery resolves every sent frame exactly once and keeps accounts balanced.
    Only statements live here; each is closed by [exact] of a lemma proved in V.SentPH.*.
    The model (V.SentPH.Model) mirrors internal/ackhandler/sent_packet_handler.go and
    sent_packet_history.go; [step] executes one API call, [run]/[history_from] a whole history
    from NewSentPacketHandler; calls that violate the API contract ([op_valid]) are not executed. *)
From Coq Require Import List ZArith Bool.
From V Require Import Gen.Params SentPH.Model SentPH.ProofsHist SentPH.ProofsBase SentPH.ProofsOps2 SentPH.ProofsMain
  SentPH.ProofsAckRules SentPH.ProofsTimer SentPH.ProofsSkipped SentPH.ProofsScalars SentPH.ProofsDrop SentPH.ProofsAudit.
From V Require Congestion.Model.
Import ListNotations.
Open Scope Z_scope.

(** (a) For every history and every frame id: (#OnAcked + #OnLost callbacks) + (#occurrences in packets
    still tracked) + (#occurrences in D) = #times the id was handed to SentPacket. D collects TWO classes of frames
    that are never reported: frames of packets whose space was discarded (DropPackets Initial / Handshake / the 0-RTT
    packets at a 0-RTT rejection) — the exemption of the property text — AND frames of path probe packets removed by
    MigratedPath, which is NOT covered by the property text: see C06_exactly_once_split and the OPEN finding
    C06_exactly_once_space_only_refuted below. *)
Theorem C06_exactly_once : forall client validated ipn period maxPeriod rnd0 ops,
  0 <= ipn ->
  let '(st, D, H) := history_from client validated ipn period maxPeriod rnd0 ops in
  forall id, cntcb id (sCbs st) + cnt id (tracked_ids st) + cnt id D = cnt id H.
Proof. exact exactly_once. Qed.
Print Assumptions C06_exactly_once.

(** With distinct frame ids: never more than one callback per frame; exactly one as soon as the frame's
    packet is no longer tracked (unless it was discarded); none for unknown or still-tracked frames. *)
Theorem C06_exactly_once_fresh : forall client validated ipn period maxPeriod rnd0 ops,
  0 <= ipn ->
  let '(st, D, H) := history_from client validated ipn period maxPeriod rnd0 ops in
  NoDup H ->
  forall id,
    cntcb id (sCbs st) <= 1 /\
    (In id H -> ~ In id (tracked_ids st) -> ~ In id D -> cntcb id (sCbs st) = 1) /\
    (~ In id H -> cntcb id (sCbs st) = 0) /\
    (In id (tracked_ids st) -> cntcb id (sCbs st) = 0).
Proof. exact exactly_once_fresh. Qed.
Print Assumptions C06_exactly_once_fresh.

(** (b) In every reachable state: no panic ("negative bytes_in_flight", "negative number of outstanding
    packets", "non-sequential packet number use", "cleanup failed", "no frames", nil dereference, BUG errors);
    bytesInFlight = sum of the lengths of the tracked packets flagged in-flight; numOutstanding = number of
    tracked Outstanding() packets; the flag is set exactly on ack-eliciting non-path-probe packets. *)
Theorem C06_in_flight_balance : forall client validated ipn period maxPeriod rnd0 ops,
  0 <= ipn -> balanced (run (init client validated ipn period maxPeriod rnd0) ops).
Proof. exact in_flight_balance. Qed.
Print Assumptions C06_in_flight_balance.

(** (c) An ACK whose largest acknowledged exceeds the largest sent number, or (Initial space) whose lowest
    acknowledged lies below the first Initial packet number, is a PROTOCOL_VIOLATION (error class 1) and
    leaves the state untouched. *)
Theorem C06_ack_unsent : forall st orc l now delay rs s,
  sPanic st = 0 -> op_valid st (OAck l now delay rs) = true -> get_space st l = Some s ->
  ack_largest rs > spLargestSent s \/ (l = sph_EncInitial /\ ack_lowest rs < sIPN st) ->
  step st (OAck l now delay rs, orc) = (st, 1).
Proof. exact ack_unsent. Qed.
Print Assumptions C06_ack_unsent.

(** (c) A 1-RTT ACK covering a number that is recorded as skipped is a PROTOCOL_VIOLATION; no callback fires,
    bytesInFlight and the three spaces are unchanged. (Not "nothing changes": on a client that had not yet seen the
    peer complete address validation, ReceivedAck sets that flag and recomputes the alarm before the check.) *)
Theorem C06_ack_skipped : forall st orc now delay rs pn,
  sPanic st = 0 -> op_valid st (OAck sph_Enc1RTT now delay rs) = true ->
  In pn (hSkipped (spH (sApp st))) -> acks_pn rs pn = true ->
  exists st' c, step st (OAck sph_Enc1RTT now delay rs, orc) = (st', c) /\
  (c = 1 \/ c = 2) /\ sCbs st' = sCbs st /\ sBif st' = sBif st /\
  sInit st' = sInit st /\ sHs st' = sHs st /\ sApp st' = sApp st.
Proof. exact ack_skipped. Qed.
Print Assumptions C06_ack_skipped.

(** (c) Which skipped numbers are recorded (repaired SkippedPacket): a new skip is always recorded; an older
    one is forgotten only when it lies below the lowest packet number still tracked (or nothing is tracked);
    no other operation OF THE HISTORY DATA STRUCTURE (SentPacket, SentPathProbePacket, Remove, DeclareLost, probe
    removal) touches the list. At handler level ResetForRetry replaces the whole application-data space (the list
    starts again, with the generator's pending skip recorded: C06_retry_gap_rejected); C06_skipped_kept below
    quantifies over all ops including ORetry. *)
Theorem C06_skipped_recorded : forall h pn, In pn (hSkipped (h_skipped h pn)).
Proof. exact skipped_recorded. Qed.
Print Assumptions C06_skipped_recorded.

Theorem C06_skipped_retained : forall h pn p,
  In p (hSkipped h) ->
  In p (hSkipped (h_skipped h pn)) \/ hPackets h = [] \/ p < hFirst h.
Proof. exact skipped_retained. Qed.
Print Assumptions C06_skipped_retained.

Theorem C06_skipped_untouched : forall h pn p pr,
  hSkipped (h_sent h pn p) = hSkipped h /\ hSkipped (h_sent_probe h pn p) = hSkipped h /\
  hSkipped (h_set_probes h pr) = hSkipped h /\
  (forall h', fst (h_remove h pn) = h' -> hSkipped h' = hSkipped h) /\
  (forall h', fst (h_declareLost h pn) = h' -> hSkipped h' = hSkipped h).
Proof. exact skipped_untouched. Qed.
Print Assumptions C06_skipped_untouched.

(** (c) For ALL histories: a number that was recorded as skipped at some point and is not below every packet
    still tracked in the application-data space is still recorded at the end ... *)
Theorem C06_skipped_kept : forall client validated ipn period maxPeriod rnd0 ops n p,
  0 <= ipn ->
  let i := init client validated ipn period maxPeriod rnd0 in
  In p (hSkipped (spH (sApp (run i (firstn n ops))))) ->
  (exists x, In x (h_list (spH (sApp (run i ops)))) /\ fst x <= p) ->
  In p (hSkipped (spH (sApp (run i ops)))).
Proof. exact skipped_kept. Qed.
Print Assumptions C06_skipped_kept.

(** ... hence a 1-RTT ACK covering ANY number ever skipped that lies at or above the lowest tracked packet is a
    PROTOCOL_VIOLATION: no callback, bytesInFlight and all spaces unchanged. *)
Theorem C06_ack_ever_skipped : forall client validated ipn period maxPeriod rnd0 ops n p orc now delay rs,
  0 <= ipn ->
  let i := init client validated ipn period maxPeriod rnd0 in
  let st := run i ops in
  In p (hSkipped (spH (sApp (run i (firstn n ops))))) ->
  (exists x, In x (h_list (spH (sApp st))) /\ fst x <= p) ->
  op_valid st (OAck sph_Enc1RTT now delay rs) = true -> acks_pn rs p = true ->
  exists st' c, step st (OAck sph_Enc1RTT now delay rs, orc) = (st', c) /\
  (c = 1 \/ c = 2) /\ sCbs st' = sCbs st /\ sBif st' = sBif st /\
  sInit st' = sInit st /\ sHs st' = sHs st /\ sApp st' = sApp st.
Proof. exact ack_ever_skipped. Qed.
Print Assumptions C06_ack_ever_skipped.

(** Regression (formerly C06_ack_any_skipped_refuted): five PTO expiries skip 1..5 while packet 0 is still
    tracked; all five stay recorded and the ACK {6,1} is now a PROTOCOL_VIOLATION that changes nothing. *)
Example C06_ack_old_skipped_rejected :
  let st := run w_init w_ops in
  hSkipped (spH (sApp st)) = [1; 2; 3; 4; 5] /\
  op_valid st w_ack = true /\
  snd (step st (w_ack, w_orc)) = 2 /\
  sCbs (fst (step st (w_ack, w_orc))) = sCbs st /\ sBif (fst (step st (w_ack, w_orc))) = sBif st.
Proof. exact ack_old_skipped_rejected. Qed.
Print Assumptions C06_ack_old_skipped_rejected.

(** The bounded-memory residue of the old refutation: a skipped number below every tracked packet may be
    forgotten, and an ACK mentioning it (which cannot acknowledge anything there) is then accepted. *)
Example C06_ack_skipped_below_window_accepted :
  let st := run w_init w2_ops in
  (exists n, In 1 (hSkipped (spH (sApp (run w_init (firstn n w2_ops)))))) /\
  ~ In 1 (hSkipped (spH (sApp st))) /\
  (forall x, In x (h_list (spH (sApp st))) -> 1 < fst x) /\
  snd (step st (OAck 4 502001000000 0 [(9, 9); (1, 1)], (1125000, 3000000, 28000000))) = 10.
Proof. exact ack_skipped_below_window_accepted. Qed.
Print Assumptions C06_ack_skipped_below_window_accepted.

Example C06_maxSkippedPackets_is_4 : sph_maxSkippedPackets = 4.
Proof. reflexivity. Qed.
Print Assumptions C06_maxSkippedPackets_is_4.

(** OnLossDetectionTimeout never returns "PTO fired, but bytes_in_flight is 0 and Initial and Handshake
    already dropped" (nor "PTO timer in unexpected encryption level"). *)
Theorem C06_no_progress_bug : forall client validated ipn period maxPeriod rnd0 ops now rnd orc,
  0 <= ipn ->
  snd (step (run (init client validated ipn period maxPeriod rnd0) ops) (OTimeout now rnd, orc)) = 0.
Proof. exact no_progress_bug. Qed.
Print Assumptions C06_no_progress_bug.

(** (d) In every history in which packets are sent at positive times: whenever Initial or Handshake
    packets are outstanding, or (after handshake confirmation) application-data packets, and sending is not
    amplification-limited, the loss-detection alarm is set. "Outstanding" is the handler's numOutstanding > 0:
    ack-eliciting packets that are neither path MTU probes nor path probes (C06_timer_mtu_probe_only_unarmed shows
    the excluded case). Only "set" is claimed, not the deadline's value (that is the correspondence's job). The
    hypothesis on send times is necessary (C06_timer_needs_positive_send_times). *)
Theorem C06_timer_armed : forall client validated ipn period maxPeriod rnd0 ops,
  0 <= ipn -> send_times_positive ops ->
  let st := run (init client validated ipn period maxPeriod rnd0) ops in
  (hasOutstandingCrypto st || (sConf st && h_hasOut (spH (sApp st)))) = true ->
  isAmplificationLimited st = false ->
  aTime (sAlarm st) <> 0.
Proof. exact timer_armed. Qed.
Print Assumptions C06_timer_armed.

Example C06_timer_armed_nonvacuous :
  send_times_positive w_ops /\
  (let st := run w_init w_ops in
   (hasOutstandingCrypto st || (sConf st && h_hasOut (spH (sApp st)))) = true /\ isAmplificationLimited st = false /\
   aTime (sAlarm st) = 507400000000).
Proof. exact timer_armed_nonvacuous. Qed.
Print Assumptions C06_timer_armed_nonvacuous.

Example C06_exactly_once_nonvacuous :
  let '(st, D, H) := grun w_init [] [] (w_ops ++ [(OAck 4 501001000000 0 [(6, 6)], (1125000, 3000000, 28000000))]) in
  H = [1; 2] /\ D = [] /\ tracked_ids st = [] /\ sCbs st = [(1, false); (2, true)] /\ sBif st = 0.
Proof. exact exactly_once_nonvacuous. Qed.
Print Assumptions C06_exactly_once_nonvacuous.

(** ---- Round 3: cross-property theorems at full-handler level ---- *)

(** (C20) The handler's SendMode IS the Congestion unit's decision function on the gate read from the handler
    state, when the congestion controller's CanSend answer is (bytesInFlight < cw) for the window cw it reports. *)
Theorem C06_send_mode_is_gate : forall st cw hb,
  sendMode st (sBif st <? cw) hb =
  V.Congestion.Model.send_mode
    (V.Congestion.Model.G (tracked_count st) (isAmplificationLimited st) (sProbes st) (sPtoM st) (sBif st) cw hb).
Proof. exact sendMode_is_gate. Qed.
Print Assumptions C06_send_mode_is_gate.

(** (C20) In every reachable state: SendMode = SendAny (with a consistent congestion oracle reporting window cw)
    implies bytesInFlight < cw, not amplification-limited, fewer tracked packets than both caps, no probe owed,
    pacing budget; bytesInFlight is exactly the sum of the tracked in-flight packets; and any packet SentPacket
    accepts next leaves bytesInFlight < cw + its size (= bytesInFlight + size for ack-eliciting non-probe packets). *)
Theorem C06_send_gate_history : forall client validated ipn period maxPeriod rnd0 ops cw hb,
  0 <= ipn ->
  let st := run (init client validated ipn period maxPeriod rnd0) ops in
  sendMode st (sBif st <? cw) hb = sph_SendAny ->
  sBif st < cw /\ isAmplificationLimited st = false /\
  tracked_count st < sph_MaxOutstandingSentPackets /\ tracked_count st < sph_MaxTrackedSentPackets /\
  sProbes st <= 0 /\ hb = true /\
  sBif st = msum f_incl (pk st SI) + msum f_incl (pk st SH) + msum f_incl (pk st SA) /\
  (forall l t la sfs fs size mtu probe rnd orc,
     op_valid st (OSend l t la sfs fs size mtu probe rnd) = true ->
     let st' := fst (step st (OSend l t la sfs fs size mtu probe rnd, orc)) in
     sBif st' = sBif st + (if negb probe && (negb (isnil sfs) || negb (isnil fs)) then size else 0) /\ sBif st' < cw + size).
Proof. exact send_gate_history. Qed.
Print Assumptions C06_send_gate_history.

Example C06_send_gate_nonvacuous :
  let st := run (init false true 0 256 131072 100)
                [ (ODrop 1 1000000000, w_orc); (ODrop 2 1000000000, w_orc); (OSend 4 1000000000 (-1) [] [1] 1200 false false 0, w_orc) ] in
  sendMode st (sBif st <? 40960) true = sph_SendAny /\ sBif st = 1200 /\
  sBif (fst (step st (OSend 4 1000000001 (-1) [] [2] 1452 false false 0, w_orc))) = 2652.
Proof. exact send_gate_nonvacuous. Qed.
Print Assumptions C06_send_gate_nonvacuous.

(** (C14) Anti-amplification through the whole handler: in every server history in which SentPacket is only
    called when some SendMode answer is not SendNone ([gated]), while the peer address is not validated
    bytesSent <= 3 * bytesReceived + (size of the last packet sent). *)
Theorem C06_amplification_history : forall validated ipn period maxPeriod rnd0 ops,
  0 <= ipn ->
  let i := init false validated ipn period maxPeriod rnd0 in
  gated i ops ->
  sPAV (run i ops) = false ->
  sSent (run i ops) <= sph_amplificationFactor * sRecv (run i ops) + last_size i ops 0.
Proof. exact amplification_history. Qed.
Print Assumptions C06_amplification_history.

Example C06_amplification_nonvacuous :
  let i := init false false 0 256 131072 100 in
  gated i amp_ops /\ sPAV (run i amp_ops) = false /\
  sSent (run i amp_ops) = 3652 /\ sRecv (run i amp_ops) = 1200 /\ last_size i amp_ops 0 = 1252 /\
  isAmplificationLimited (run i amp_ops) = true.
Proof. exact amplification_nonvacuous. Qed.
Print Assumptions C06_amplification_nonvacuous.

(** (d, second half) The client's anti-deadlock arm: in every client history whose events carry positive times,
    while the client has not seen the server complete address validation and a packet was accepted by SentPacket
    since the start or since the last ResetForRetry ([flag_run]; ResetForRetry clears the alarm until the next
    send), the loss-detection alarm is set — even with nothing outstanding. *)
Theorem C06_client_timer_armed : forall validated ipn period maxPeriod rnd0 ops,
  0 <= ipn -> Forall op_pos ops ->
  let i := init true validated ipn period maxPeriod rnd0 in
  flag_run i ops false = true ->
  sPCAV (run i ops) = false ->
  aTime (sAlarm (run i ops)) <> 0.
Proof. exact client_timer_armed. Qed.
Print Assumptions C06_client_timer_armed.

Example C06_client_timer_nonvacuous :
  let i := init true false 0 256 131072 100 in
  let ops := [ (OSend 1 1000000000 (-1) [] [] 1200 false false 0, w_orc) ] in
  Forall op_pos ops /\ flag_run i ops false = true /\ sPCAV (run i ops) = false /\
  hasOutstandingCrypto (run i ops) = false /\ aTime (sAlarm (run i ops)) = 1200000000.
Proof. exact client_timer_nonvacuous. Qed.
Print Assumptions C06_client_timer_nonvacuous.

(** ---- Round 4 ---- *)

(** Key discard (Initial / Handshake) in any reachable state: no frame of the discarded space is reported — neither
    OnAcked nor OnLost, so loss recovery requeues nothing —, bytesInFlight drops by exactly the in-flight bytes of that
    space, the space is gone and the other spaces are untouched. *)
Theorem C06_drop_discards : forall client validated ipn period maxPeriod rnd0 ops l now orc s,
  0 <= ipn ->
  let st := run (init client validated ipn period maxPeriod rnd0) ops in
  (l = sph_EncInitial \/ l = sph_EncHandshake) -> get_space st l = Some s ->
  let st' := fst (step st (ODrop l now, orc)) in
  sCbs st' = sCbs st /\ sBif st' = sBif st - msum f_incl (h_list (spH s)) /\ get_space st' l = None /\
  (forall l', lvl_ok l' = true -> slot_of l' <> slot_of l -> get_space st' l' = get_space st l').
Proof. exact drop_discards. Qed.
Print Assumptions C06_drop_discards.

(** ---- Audit round ---- *)

(** (a) with the two exemption classes kept apart: Ds = frames of packets discarded with their space (Initial,
    Handshake, 0-RTT rejection), Dm = frames of path probe packets removed by MigratedPath. *)
Theorem C06_exactly_once_split : forall client validated ipn period maxPeriod rnd0 ops,
  0 <= ipn ->
  let '(st, Ds, Dm, H) := history2 client validated ipn period maxPeriod rnd0 ops in
  forall id, cntcb id (sCbs st) + cnt id (tracked_ids st) + cnt id Ds + cnt id Dm = cnt id H.
Proof. exact exactly_once_split. Qed.
Print Assumptions C06_exactly_once_split.

(** Without migrations Dm stays empty: then only "space discarded" exempts a frame, as the property says. *)
Theorem C06_no_migration_no_extra_exemption : forall ops st Ds Dm H,
  Forall (fun oo => match fst oo with OMigrate _ => False | _ => True end) ops ->
  snd (fst (grun2 st Ds Dm H ops)) = Dm.
Proof. exact grun2_no_migrate. Qed.
Print Assumptions C06_no_migration_no_extra_exemption.

(** OPEN FINDING (key sentph/migrate-drops-probe-frames): the strict clause (a) is false — a path probe outstanding at
    MigratedPath is removed without any callback although no space is discarded (no ODrop, no ORetry in the history). *)
Theorem C06_exactly_once_space_only_refuted :
  let '(st, Ds, Dm, H) := history2 false true 0 256 131072 100 mig_ops in
  H = [9] /\ Ds = [] /\ Dm = [9] /\ sCbs st = [] /\ tracked_ids st = [] /\ sPanic st = 0.
Proof. exact exactly_once_space_only_refuted. Qed.
Print Assumptions C06_exactly_once_space_only_refuted.

(** (c) Regression for the Retry repair (key sentph/ack-skipped-at-retry): the number the generator was about to skip
    when ResetForRetry re-created the space is recorded, an ACK covering it is rejected. *)
Example C06_retry_gap_rejected :
  let st := run (init true false 0 1 1 0) retry_ops in
  hSkipped (spH (sApp st)) = [3] /\ map fst (h_list (spH (sApp st))) = [4] /\
  snd (step st (OAck 4 1033000000 0 [(3, 4)], w_orc)) = 2 /\ snd (step st (OAck 4 1033000000 0 [(4, 4)], w_orc)) = 0.
Proof. exact retry_gap_rejected. Qed.
Print Assumptions C06_retry_gap_rejected.

Example C06_timer_mtu_probe_only_unarmed :
  let st := run (init false true 0 256 131072 100)
                [ (ODrop 1 1000000000, w_orc); (ODrop 2 1000000000, w_orc); (OSend 4 1000000001 (-1) [] [1] 1400 true false 0, w_orc) ] in
  sBif st = 1400 /\ hNumOut (spH (sApp st)) = 0 /\ sConf st = true /\ aTime (sAlarm st) = 0.
Proof. exact timer_mtu_probe_only_unarmed. Qed.
Print Assumptions C06_timer_mtu_probe_only_unarmed.

Example C06_timer_needs_positive_send_times :
  let st := run (init true false 0 256 131072 100) [ (OSend 1 0 (-1) [] [1] 1200 false false 0, w_orc) ] in
  hasOutstandingCrypto st = true /\ isAmplificationLimited st = false /\ aTime (sAlarm st) = 0.
Proof. exact timer_needs_positive_send_times. Qed.
Print Assumptions C06_timer_needs_positive_send_times.

Example C06_timer_armed_crypto_nonvacuous :
  let ops := [ (OSend 1 1000000000 (-1) [] [1] 1200 false false 0, w_orc); (OSend 2 1001000000 (-1) [] [2] 800 false false 0, w_orc) ] in
  let st := run (init false true 0 256 131072 100) ops in
  send_times_positive ops /\ hasOutstandingCrypto st = true /\ sConf st = false /\ isAmplificationLimited st = false /\
  aTime (sAlarm st) = 1200000000.
Proof. exact timer_armed_crypto_nonvacuous. Qed.
Print Assumptions C06_timer_armed_crypto_nonvacuous.
