From Coq Require Import List ZArith.
From V Require Import Gen.Params SentPH.Model.
