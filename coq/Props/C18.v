(** C18 — HTTP/3 carries requests and responses end to end without loss or alteration.
    The per-stream core: frame parser, Stream.Read/Write, body (Content-Length), over a byte
    source with arbitrary short reads.  Only statements live here. *)
From Coq Require Import List ZArith Bool.
From V Require Import Gen.Params Lib.Hex Wire.Varint H3Stream.Model H3Stream.Proofs H3Stream.ProofsStream
  H3Stream.ProofsExact H3Stream.ProofsBody H3Stream.ProofsTrunc H3Stream.ProofsSettings H3Stream.ProofsSched H3Stream.Conn H3Stream.ProofsConn H3Stream.ConnExamples H3Stream.E2E H3Stream.E2EResponse H3Stream.ProofsTrailers.
Import ListNotations.
Open Scope Z_scope.

(** For every sequence [fs] of DATA frames interleaved with frames of ignorable types (any
    accepted varint encoding of type and length), every short-read schedule [sched] of the quic
    stream, EOF delivered with or after the last bytes ([fw]) and every sequence [bufs] of
    caller buffer sizes: what the Read calls return, concatenated, is a prefix [out] of the
    DATA payloads; the only error ever returned is io.EOF and then [out] is the whole payload;
    the connection is not closed, no trailer is reported; and when the buffers are non-empty
    and more numerous than the bytes on the wire the reads do reach EOF. *)
Theorem C18_data_exact :
  forall (fs : list wframe) (sched : list Z) (fw : bool) (maxHdr : Z) (bufs : list Z),
  Forall wf_frame fs ->
  exists out e x' tl,
    stream_reads (new_stream (mkSrc (wire fs) sched EEOF fw) maxHdr) bufs = (out, e, x') /\
    payload fs = out ++ tl /\
    (e = None \/ (e = Some EEOF /\ tl = [])) /\
    x_closed x' = None /\ x_trailers x' = [] /\
    (all_pos bufs -> (length (wire fs) < length bufs)%nat -> e = Some EEOF).
Proof. exact data_exact. Qed.
Print Assumptions C18_data_exact.

(** Write b emits frame(DATA,|b|) ++ b (two underlying writes) and reports |b|. *)
Theorem C18_write_frame : forall (x : stream) (b : list Z),
  x_wfail x = 0 ->
  exists x', stream_write x b = (zlen b, None, x') /\
             x_written x' = x_written x ++ [vappend 0 ++ vappend (zlen b); b] /\ x_wfail x' = 0.
Proof. exact stream_write_ok. Qed.
Print Assumptions C18_write_frame.

(** Read ∘ Write is the identity on byte strings, for every chunking on both sides. *)
Theorem C18_read_write_identity :
  forall (bs : list (list Z)) (sched : list Z) (fw : bool) (maxHdr : Z) (bufs : list Z),
  Forall (fun b => zlen b <= maxVarInt8) bs ->
  let written := concat (x_written (stream_writes (new_stream (mkSrc [] [] EEOF false) 0) bs)) in
  exists out e x' tl,
    stream_reads (new_stream (mkSrc written sched EEOF fw) maxHdr) bufs = (out, e, x') /\
    concat bs = out ++ tl /\
    (e = None \/ (e = Some EEOF /\ tl = [])) /\
    (all_pos bufs -> (length written < length bufs)%nat -> e = Some EEOF).
Proof. exact read_write_id. Qed.
Print Assumptions C18_read_write_identity.

(** Unknown / ignorable frame types are skipped by ParseNext without touching the connection;
    reserved HTTP/2 types (0x2, 0x6, 0x8, 0x9) are rejected with H3_FRAME_UNEXPECTED, by
    ParseNext and through Stream.Read, whatever length and payload follow. *)
Theorem C18_unknown_ignored_reserved_rejected :
  (forall (f : nat) (s : src) (cl : option Z) (t : Z) (th lh p rest : list Z),
     benign s -> venc th t -> venc lh (zlen p) -> ignorable t = true -> s_data s = th ++ lh ++ p ++ rest ->
     exists s', parse_next (S f) s cl = parse_next f s' cl /\ s_data s' = rest /\ same_end s s') /\
  (forall (f : nat) (s : src) (cl : option Z) (t l : Z) (th lh rest : list Z),
     benign s -> venc th t -> venc lh l -> reserved_type t = true -> s_data s = th ++ lh ++ rest ->
     exists s', parse_next (S f) s cl = (inl (EReserved t), s', close_conn cl h3ErrCodeFrameUnexpected) /\
                s_data s' = rest) /\
  (forall (x : stream) (blen t l : Z) (th lh rest : list Z),
     x_rem x = 0 -> benign (x_src x) -> venc th t -> venc lh l -> reserved_type t = true ->
     s_data (x_src x) = th ++ lh ++ rest ->
     exists x', stream_read x blen = ([], Some (EReserved t), x') /\
                x_closed x' = close_conn (x_closed x) h3ErrCodeFrameUnexpected /\
                s_data (x_src x') = rest) /\
  (forall t, reserved_type t = true <-> (t = 2 \/ t = 6 \/ t = 8 \/ t = 9)) /\
  h3ErrCodeFrameUnexpected = 261.
Proof. exact unknown_ignored_reserved_rejected. Qed.
Print Assumptions C18_unknown_ignored_reserved_rejected.

(** Scope of the Content-Length theorems below: the frame sequence [fs] consists of DATA and
    ignorable frames and the stream ends with FIN.
    (* OPEN: a body with Content-Length followed by a TRAILER HEADERS frame, and a body ended by a
       stream reset, have no theorem: [wframe] has no HEADERS constructor.  They are covered by the
       correspondence of unit h3stream (trailers, resets, all Content-Length modes) and, for the
       clean-EOF direction, by C18_content_length_eof_only_when_complete, which holds for EVERY
       stream.  Likewise C18_data_exact speaks about streams without trailers (x_trailers = []). *) *)
(** A body longer than the declared Content-Length: the reads deliver a prefix of the payload,
    never more than declared; the only error is errTooMuchData, it comes after exactly the
    declared bytes with both directions reset (H3_MESSAGE_ERROR); and it does come. *)
Theorem C18_content_length_over :
  forall (fs : list wframe) (sched : list Z) (fw : bool) (maxHdr cl : Z) (nc : bool) (bufs : list Z),
  Forall wf_frame fs -> 0 <= cl < zlen (payload fs) ->
  exists out e b' tl,
    body_reads (new_body (new_stream (mkSrc (wire fs) sched EEOF fw) maxHdr) cl nc) bufs = (out, e, b') /\
    payload fs = out ++ tl /\
    ((e = None /\ zlen out <= cl /\ b_cancels b' = []) \/
     (e = Some ETooMuchData /\ zlen out = cl /\
      b_cancels b' = [(0, h3ErrCodeMessageError); (1, h3ErrCodeMessageError)])) /\
    (all_pos bufs -> (length (wire fs) < length bufs)%nat -> e = Some ETooMuchData).
Proof. exact content_length_over. Qed.
Print Assumptions C18_content_length_over.

Theorem C18_message_error_code : h3ErrCodeMessageError = 270.
Proof. reflexivity. Qed.
Print Assumptions C18_message_error_code.

(** Content-Length equal to the body: exact delivery, clean EOF, nothing reset. *)
Theorem C18_content_length_exact :
  forall (fs : list wframe) (sched : list Z) (fw : bool) (maxHdr : Z) (nc : bool) (bufs : list Z),
  Forall wf_frame fs ->
  exists out e b' tl,
    body_reads (new_body (new_stream (mkSrc (wire fs) sched EEOF fw) maxHdr) (zlen (payload fs)) nc) bufs = (out, e, b') /\
    payload fs = out ++ tl /\
    (e = None \/ (e = Some EEOF /\ tl = [])) /\
    b_cancels b' = [] /\
    (all_pos bufs -> (length (wire fs) < length bufs)%nat -> e = Some EEOF).
Proof. exact content_length_exact. Qed.
Print Assumptions C18_content_length_exact.

(** A body SHORTER than its declared Content-Length (message expected to carry content) is
    reported as an error, never silently truncated: for every frame sequence, short-read
    schedule and buffer sequence the reads deliver exactly the bytes that arrived, the only
    error is io.ErrUnexpectedEOF (never io.EOF), it comes after the last received byte with both
    directions reset once with H3_MESSAGE_ERROR, and it does come.
    (This was the finding h3/content-length-under; true of the repaired body.Read.) *)
Theorem C18_content_length_under :
  forall (fs : list wframe) (sched : list Z) (fw : bool) (maxHdr cl : Z) (bufs : list Z),
  Forall wf_frame fs -> zlen (payload fs) < cl ->
  exists out e b' tl,
    body_reads (new_body (new_stream (mkSrc (wire fs) sched EEOF fw) maxHdr) cl false) bufs = (out, e, b') /\
    payload fs = out ++ tl /\
    ((e = None /\ b_cancels b' = []) \/
     (e = Some EUnexpectedEOF /\ tl = [] /\
      b_cancels b' = [(0, h3ErrCodeMessageError); (1, h3ErrCodeMessageError)])) /\
    e <> Some EEOF /\
    (all_pos bufs -> (length (wire fs) < length bufs)%nat -> e = Some EUnexpectedEOF).
Proof. exact content_length_under. Qed.
Print Assumptions C18_content_length_under.

(** Messages that never carry content (response to HEAD, 1xx / 204 / 304 responses) may declare
    the Content-Length of the representation without delivering it: clean EOF, nothing reset. *)
Theorem C18_content_length_no_content_exempt :
  forall (fs : list wframe) (sched : list Z) (fw : bool) (maxHdr cl : Z) (bufs : list Z),
  Forall wf_frame fs -> zlen (payload fs) <= cl ->
  exists out e b' tl,
    body_reads (new_body (new_stream (mkSrc (wire fs) sched EEOF fw) maxHdr) cl true) bufs = (out, e, b') /\
    payload fs = out ++ tl /\
    (e = None \/ (e = Some EEOF /\ tl = [])) /\
    b_cancels b' = [] /\
    (all_pos bufs -> (length (wire fs) < length bufs)%nat -> e = Some EEOF).
Proof. exact content_length_no_content. Qed.
Print Assumptions C18_content_length_no_content_exempt.

(** Regression: the witness that refuted the property on the unrepaired code (Content-Length 5,
    DATA "abc", FIN) now ends with io.ErrUnexpectedEOF after "abc", both directions reset. *)
Example C18_content_length_under_witness_rejected :
  let '(out, e, b') := body_reads (new_body (new_stream (mkSrc (wire under_witness_frames) [] EEOF false) 1000) 5 false) [16; 16] in
  out = [97; 98; 99] /\ e = Some EUnexpectedEOF /\
  b_cancels b' = [(0, h3ErrCodeMessageError); (1, h3ErrCodeMessageError)] /\ b_rem b' = 2.
Proof. exact content_length_under_witness_rejected. Qed.
Print Assumptions C18_content_length_under_witness_rejected.

(** TRUNCATED STREAMS: a valid frame sequence [fs] followed by the beginning [part] of one more
    frame [f0], cut anywhere inside it (type, length or payload; DATA or ignorable frame), then
    the end of the stream with terminal error [fin] (FIN = io.EOF, or a stream error that does
    not accompany data).  For every short-read schedule and buffer sequence the reads return a
    prefix of the DATA payloads and then exactly [fin]; the connection is left alone; and [fin]
    is reached. *)
Theorem C18_truncation_outcome :
  forall (fs : list wframe) (f0 : wframe) (part rest : list Z)
         (sched : list Z) (fin : err) (fw : bool) (maxHdr : Z) (bufs : list Z),
  Forall wf_frame fs -> wf_frame f0 -> enc f0 = part ++ rest -> part <> [] -> rest <> [] ->
  (fin = EEOF \/ fw = false) ->
  exists out e x' tl,
    stream_reads (new_stream (mkSrc (wire fs ++ part) sched fin fw) maxHdr) bufs = (out, e, x') /\
    payload (fs ++ [f0]) = out ++ tl /\
    (e = None \/ e = Some fin) /\ x_closed x' = None /\
    (all_pos bufs -> (length (wire fs ++ part) < length bufs)%nat -> e = Some fin).
Proof. exact truncation_outcome. Qed.
Print Assumptions C18_truncation_outcome.

(** ... so the part of "truncation is reported" that HOLDS: a stream ERROR inside a frame is
    reported to the reader as that error, never as a clean io.EOF ... *)
Theorem C18_truncation_reported_stream_error :
  forall (fs : list wframe) (f0 : wframe) (part rest : list Z) (sched : list Z) (a : Z) (maxHdr : Z) (bufs : list Z),
  Forall wf_frame fs -> wf_frame f0 -> enc f0 = part ++ rest -> part <> [] -> rest <> [] ->
  exists out e x' tl,
    stream_reads (new_stream (mkSrc (wire fs ++ part) sched (EStream a) false) maxHdr) bufs = (out, e, x') /\
    payload (fs ++ [f0]) = out ++ tl /\
    (e = None \/ e = Some (EStream a)) /\ e <> Some EEOF /\
    (all_pos bufs -> (length (wire fs ++ part) < length bufs)%nat -> e = Some (EStream a)).
Proof. exact truncation_stream_error_reported. Qed.
Print Assumptions C18_truncation_reported_stream_error.

(** ... and, with a Content-Length, WHATEVER the stream does (cut anywhere, garbage, reset): a
    clean io.EOF comes out of the body only after at least the declared number of bytes -- a frame
    cut short by FIN that loses body bytes is then reported by the body check (ErrUnexpectedEOF,
    C18_content_length_under). *)
Theorem C18_content_length_eof_only_when_complete :
  forall (x : stream) (cl : Z) (bufs : list Z) (out : list Z) (b' : body),
  0 <= cl -> body_reads (new_body x cl false) bufs = (out, Some EEOF, b') -> cl <= zlen out.
Proof. exact content_length_eof_only_when_complete. Qed.
Print Assumptions C18_content_length_eof_only_when_complete.

(** FINDING h3/truncated-frame-clean-eof (open; the repair fixes/not-applied/C18-truncated-frame.patch
    is pinned by the baseline test TestHTTPDeadlines/write_deadline): without a Content-Length a
    frame cut short by FIN is NOT reported.  Refutation witness of "C18_truncation_reported" on
    the faithful model: a DATA frame announcing 100 bytes, 40 of them, FIN => the reader gets the
    40 bytes and a clean io.EOF, nothing is closed, 60 bytes are still owed by the frame ... *)
Theorem C18_truncation_reported_refuted :
  wf_frame trunc_witness_frame /\
  enc trunc_witness_frame = ([0; 64; 100] ++ repeat 7 40) ++ repeat 7 60 /\
  exists x', stream_reads (new_stream (mkSrc ([0; 64; 100] ++ repeat 7 40) [] EEOF false) 1000) [64; 64; 64]
             = (repeat 7 40, Some EEOF, x') /\ x_closed x' = None /\ x_rem x' = 60.
Proof. exact truncation_reported_witness. Qed.
Print Assumptions C18_truncation_reported_refuted.

(** ... and it is so at EVERY cut inside a frame: after FIN the reader sees a clean io.EOF. *)
Theorem C18_truncation_fin_is_clean_eof :
  forall (fs : list wframe) (f0 : wframe) (part rest : list Z) (sched : list Z) (fw : bool) (maxHdr : Z) (bufs : list Z),
  Forall wf_frame fs -> wf_frame f0 -> enc f0 = part ++ rest -> part <> [] -> rest <> [] ->
  all_pos bufs -> (length (wire fs ++ part) < length bufs)%nat ->
  exists out x' tl,
    stream_reads (new_stream (mkSrc (wire fs ++ part) sched EEOF fw) maxHdr) bufs = (out, Some EEOF, x') /\
    payload (fs ++ [f0]) = out ++ tl /\ x_closed x' = None.
Proof. exact truncation_fin_is_clean_eof. Qed.
Print Assumptions C18_truncation_fin_is_clean_eof.

(** What does hold for ANY prefix [d] of the wire image of a valid frame sequence ended by FIN:
    never wrong bytes, never a spurious error -- a prefix of the payloads, then a clean EOF. *)
Theorem C18_truncation_prefix_outcome :
  forall (fs : list wframe) (d suf : list Z) (sched : list Z) (fw : bool) (maxHdr : Z) (bufs : list Z),
  Forall wf_frame fs -> wire fs = d ++ suf ->
  exists out e x' tl,
    stream_reads (new_stream (mkSrc d sched EEOF fw) maxHdr) bufs = (out, e, x') /\
    payload fs = out ++ tl /\
    (e = None \/ e = Some EEOF) /\ x_closed x' = None /\
    (all_pos bufs -> (length d < length bufs)%nat -> e = Some EEOF).
Proof. exact truncation_prefix_outcome. Qed.
Print Assumptions C18_truncation_prefix_outcome.

Theorem C18_frame_error_code : h3ErrCodeFrameError = 262.
Proof. reflexivity. Qed.
Print Assumptions C18_frame_error_code.

(** Non-vacuity: the example sequence cut 1 byte into the payload of its last DATA frame (FIN:
    clean EOF after [1;2;3;4]; stream error: the error), and cut inside a 2-byte type field. *)
Example C18_example_truncated :
  (let '(out, e, x') := stream_reads (new_stream (mkSrc (firstn 18 (wire example_frames)) [1; 2; 1] EEOF true) 64)
                                    [3; 1; 4096; 7; 7] in
   out = [1; 2; 3; 4] /\ e = Some EEOF /\ x_closed x' = None) /\
  (let '(out, e, x') := stream_reads (new_stream (mkSrc (firstn 18 (wire example_frames)) [] (EStream 537) false) 64)
                                    [3; 1; 4096; 7; 7] in
   out = [1; 2; 3; 4] /\ e = Some (EStream 537)) /\
  (let '(out, e, x') := stream_reads (new_stream (mkSrc (firstn 5 (wire example_frames)) [] EEOF false) 64) [10; 10] in
   out = [] /\ e = Some EEOF /\ x_closed x' = None).
Proof. vm_compute. auto 10. Qed.
Print Assumptions C18_example_truncated.

(** ParseNext does not depend on how the quic stream chunks the bytes into Reads: for EVERY byte
    string (valid or not: DATA, HEADERS, SETTINGS, GOAWAY, skipped unknown / push / GREASE frames
    of any length, reserved types, truncation), every terminal error and ANY two short-read
    schedules the result (frame or error), the connection-close decision and the bytes left in
    the stream are the same.  (The payload of a skipped frame that straddles Reads cannot put the
    parser out of step -- seeded change C18-f.) *)
Theorem C18_parse_next_chunking_independent :
  forall (fuel : nat) (data sc1 sc2 : list Z) (fin : err) (fw : bool) (cl : option Z),
  let r1 := parse_next fuel (mkSrc data sc1 fin fw) cl in
  let r2 := parse_next fuel (mkSrc data sc2 fin fw) cl in
  fst (fst r1) = fst (fst r2) /\ snd r1 = snd r2 /\ s_data (snd (fst r1)) = s_data (snd (fst r2)).
Proof. exact parse_next_chunking_independent. Qed.
Print Assumptions C18_parse_next_chunking_independent.

(** SETTINGS rules of parseSettingsFrame: a payload of (identifier, value) pairs is accepted iff no
    identifier repeats and the boolean settings (ENABLE_CONNECT_PROTOCOL, H3_DATAGRAM) carry 0 or
    1; a frame longer than 8 KiB is rejected before anything is read. *)
Theorem C18_settings_rules :
  (forall ps, Forall pair_ok ps ->
     ((exists fr, settings_payload (enc_pairs ps) = inr fr) <-> (NoDup (map fst ps) /\ bools_valid ps))) /\
  (forall (s : src) (l : Z), 8192 < l -> parse_settings s l = (inl ESettingsSize, s)).
Proof. exact settings_rules. Qed.
Print Assumptions C18_settings_rules.

(** SETTINGS and GOAWAY through ParseNext, with their values: an accepted SETTINGS frame yields
    exactly MAX_FIELD_SECTION_SIZE (or -1), the two booleans, and the unknown settings in order;
    a GOAWAY frame yields the stream ID when its length is the length of the varint, else the
    "inconsistent length" error. *)
Theorem C18_settings_goaway_values :
  (forall (f : nat) (s : src) (cl : option Z) (th lh rest : list Z) (ps : list (Z * Z)) (fr : settings),
     benign s -> venc th 4 -> venc lh (zlen (enc_pairs ps)) -> zlen (enc_pairs ps) <= 8192 -> Forall pair_ok ps ->
     settings_payload (enc_pairs ps) = inr fr -> s_data s = th ++ lh ++ enc_pairs ps ++ rest ->
     (exists s', parse_next (S f) s cl = (inr (FSettings fr), s', cl) /\ s_data s' = rest) /\
     st_other fr = filter unknown_setting ps /\
     st_mfs fr = match pair_val h3SettingMaxFieldSectionSize ps with Some v => v | None => -1 end /\
     st_ec fr = match pair_val h3SettingExtendedConnect ps with Some v => v =? 1 | None => false end /\
     st_dg fr = match pair_val h3SettingDatagram ps with Some v => v =? 1 | None => false end) /\
  (forall (f : nat) (s : src) (cl : option Z) (th lh ie rest : list Z) (l id : Z),
     benign s -> venc th 7 -> venc lh l -> venc ie id -> s_data s = th ++ lh ++ ie ++ rest ->
     exists s', parse_next (S f) s cl =
                  ((if zlen ie =? l then inr (FGoaway id) else inl EGoawayLen), s', cl) /\ s_data s' = rest).
Proof. exact settings_goaway_through_parser. Qed.
Print Assumptions C18_settings_goaway_values.

(** Non-vacuity: a concrete well-formed frame sequence (GREASE frame, non-minimal DATA header,
    empty DATA frame, MAX_PUSH_ID frame) read byte-by-byte with mixed buffers. *)
Example C18_example_wf : Forall wf_frame example_frames.
Proof. exact example_frames_wf. Qed.
Print Assumptions C18_example_wf.

Example C18_example_run :
  let '(out, e, _) := stream_reads (new_stream (mkSrc (wire example_frames) [1; 1; 1; 1; 1; 1; 1; 1; 1; 1; 1; 1] EEOF true) 64)
                                  [2; 0; 1; 4096; 1; 1; 1; 1] in
  out = [1; 2; 3; 4; 5] /\ e = Some EEOF /\ payload example_frames = [1; 2; 3; 4; 5].
Proof. vm_compute. auto. Qed.
Print Assumptions C18_example_run.

Example C18_example_settings :
  settings_payload (enc_pairs [(6, 4096); (51, 1); (99, 7)]) = inr (mkSettings 4096 true false [(99, 7)]) /\
  settings_payload (enc_pairs [(6, 1); (99, 7); (6, 1)]) = inl (ESettingsDup 6) /\
  settings_payload (enc_pairs [(8, 2)]) = inl (ESettingsBool 8).
Proof. vm_compute. auto. Qed.
Print Assumptions C18_example_settings.

Example C18_example_goaway :
  fst (fst (parse_next 5 (mkSrc [7; 1; 4; 0] [1; 1; 1] EEOF false) None)) = inr (FGoaway 4) /\
  fst (fst (parse_next 5 (mkSrc [7; 2; 4; 0] [] EEOF false) None)) = inl EGoawayLen /\
  fst (fst (parse_next 5 (mkSrc [4; 4; 6; 64; 200; 51] [] EEOF true) None)) = inl EEOF.
Proof. vm_compute. auto. Qed.
Print Assumptions C18_example_goaway.

(** CONNECTION LEVEL (model Conn.v of rawConn.handleUnidirectionalStream and the control-stream
    handlers of server and client, replayed against the real code by unit h3conn): the RFC 9114
    error table.  A second control / QPACK encoder / QPACK decoder stream => H3_STREAM_CREATION_ERROR;
    a push stream => H3_STREAM_CREATION_ERROR at a server, H3_ID_ERROR at a client; any other stream
    type leaves the connection alone and refuses the stream with H3_STREAM_CREATION_ERROR; a control
    stream whose first frame is DATA => H3_MISSING_SETTINGS, a reserved frame type =>
    H3_FRAME_UNEXPECTED, closed before any frame => H3_CLOSED_CRITICAL_STREAM. *)
Theorem C18_conn_error_table :
  stream_types_distinct /\
  (forall c data fin th rest, c_closed c = None -> c_ctrl c = true -> venc th h3StreamTypeControl -> data = th ++ rest ->
     c_closed (fst (uni_stream c data fin)) = Some h3ErrCodeStreamCreationError) /\
  (forall c data fin th rest, c_closed c = None -> c_enc c = true -> venc th h3StreamTypeQPACKEncoder -> data = th ++ rest ->
     c_closed (fst (uni_stream c data fin)) = Some h3ErrCodeStreamCreationError) /\
  (forall c data fin th rest, c_closed c = None -> c_dec c = true -> venc th h3StreamTypeQPACKDecoder -> data = th ++ rest ->
     c_closed (fst (uni_stream c data fin)) = Some h3ErrCodeStreamCreationError) /\
  (forall c data fin th rest, c_closed c = None -> venc th h3StreamTypePush -> data = th ++ rest ->
     c_closed (fst (uni_stream c data fin)) = Some (if c_server c then h3ErrCodeStreamCreationError else h3ErrCodeIDError)) /\
  (forall c data fin th rest t, venc th t -> data = th ++ rest -> t <> 0 -> t <> 1 -> t <> 2 -> t <> 3 ->
     uni_stream c data fin = (c, if fin then None else Some h3ErrCodeStreamCreationError)) /\
  (forall c s th lh rest l, c_closed c = None -> s_finWith s = false -> venc th 0 -> venc lh l -> s_data s = th ++ lh ++ rest ->
     c_closed (control_stream c s) = Some h3ErrCodeMissingSettings) /\
  (forall c s th lh rest t l, c_closed c = None -> s_finWith s = false -> venc th t -> venc lh l -> reserved_type t = true ->
     s_data s = th ++ lh ++ rest -> c_closed (control_stream c s) = Some h3ErrCodeFrameUnexpected) /\
  (forall c s, c_closed c = None -> s_data s = [] -> s_fin s = EEOF ->
     c_closed (control_stream c s) = Some h3ErrCodeClosedCriticalStream) /\
  (h3ErrCodeStreamCreationError = 259 /\ h3ErrCodeClosedCriticalStream = 260 /\ h3ErrCodeIDError = 264 /\
   h3ErrCodeMissingSettings = 266 /\ h3ErrCodeFrameUnexpected = 261).
Proof. exact conn_error_table. Qed.
Print Assumptions C18_conn_error_table.

(** Non-vacuity / whole runs: a well-behaved peer (control stream with SETTINGS and skipped
    frames, both QPACK streams, a GREASE stream) is left alone; a second SETTINGS frame, a
    duplicate control stream and a server's GOAWAY at an idle client end as the table says. *)
Example C18_example_conn :
  (let '(c, stops) := conn_run (new_conn true) ex_peer_ok in
   c_closed c = None /\ stops = [None; None; None; Some 259] /\ c_settings c = true) /\
  c_closed (fst (conn_run (new_conn true) ex_peer_second_settings)) = Some 261 /\
  c_closed (fst (conn_run (new_conn false) ex_peer_two_control)) = Some 259 /\
  c_closed (fst (conn_run (new_conn false) ex_peer_goaway_12)) = Some 256 /\
  c_closed (fst (conn_run (new_conn false) ex_peer_goaway_3)) = Some 264.
Proof. vm_compute. auto 10. Qed.
Print Assumptions C18_example_conn.

(** More of the "forbidden ones abort the stream or connection with the RFC 9114 error" table:
    GOAWAY / SETTINGS on a request stream => "unexpected frame" + connection closed with
    H3_FRAME_UNEXPECTED; DATA / a second HEADERS frame after the trailers => error, nothing more is
    delivered, trailers reported once; on the control stream EVERY frame other than SETTINGS first
    => H3_MISSING_SETTINGS, every frame other than GOAWAY after SETTINGS (a second SETTINGS, DATA,
    HEADERS) => H3_FRAME_UNEXPECTED; GOAWAY: ignored by a server (push ID), at a client
    H3_ID_ERROR for an ID that is not a client-initiated bidirectional stream ID or that is larger
    than an earlier one, else a graceful H3_NO_ERROR close when no request is in flight.
    (The control-stream statements are over what ParseNext delivers; which bytes deliver which frame is
    C18_settings_goaway_values / C18_unknown_ignored_reserved_rejected / parse_next_data.) *)
Theorem C18_forbidden_table :
  (forall x blen th lh ie rest l id, x_rem x = 0 -> x_closed x = None -> benign (x_src x) -> venc th 7 -> venc lh l -> venc ie id -> zlen ie = l ->
     s_data (x_src x) = th ++ lh ++ ie ++ rest ->
     exists x', stream_read x blen = ([], Some EUnexpectedFrame, x') /\ x_closed x' = Some h3ErrCodeFrameUnexpected) /\
  (forall x blen th lh pl rest fr, x_rem x = 0 -> x_closed x = None -> benign (x_src x) -> venc th 4 -> venc lh (zlen pl) -> zlen pl <= maxSettingsLen ->
     settings_payload pl = inr fr -> s_data (x_src x) = th ++ lh ++ pl ++ rest ->
     exists x', stream_read x blen = ([], Some EUnexpectedFrame, x') /\ x_closed x' = Some h3ErrCodeFrameUnexpected) /\
  (forall x blen th lh rest l, x_rem x = 0 -> x_trailer x = true -> benign (x_src x) -> venc th 0 -> venc lh l ->
     s_data (x_src x) = th ++ lh ++ rest ->
     exists x', stream_read x blen = ([], Some EDataAfterTrailers, x') /\ x_trailers x' = x_trailers x /\ x_closed x' = x_closed x) /\
  (forall x blen th lh rest l, x_rem x = 0 -> x_trailer x = true -> benign (x_src x) -> venc th 1 -> venc lh l ->
     s_data (x_src x) = th ++ lh ++ rest ->
     exists x', stream_read x blen = ([], Some EHeadersAfterTrailers, x') /\ x_trailers x' = x_trailers x /\ x_closed x' = x_closed x) /\
  (forall c s s' fr, c_closed c = None -> parse_next (fuel_of s) s (c_closed c) = (inr fr, s', None) ->
     (forall st, fr <> FSettings st) -> c_closed (control_stream c s) = Some h3ErrCodeMissingSettings) /\
  (forall f c s s' fr, c_closed c = None -> parse_next (fuel_of s) s (c_closed c) = (inr fr, s', None) ->
     (forall id, fr <> FGoaway id) -> c_closed (control_loop (S f) c s) = Some h3ErrCodeFrameUnexpected) /\
  (forall f c s s' id, c_closed c = None -> parse_next (fuel_of s) s (c_closed c) = (inr (FGoaway id), s', None) ->
     (c_server c = true -> control_loop (S f) c s = control_loop f (c_set_closed c None) s') /\
     (c_server c = false -> id mod 4 <> 0 -> c_closed (control_loop (S f) c s) = Some h3ErrCodeIDError) /\
     (c_server c = false -> id mod 4 = 0 -> forall m, c_goaway c = Some m -> m < id ->
        c_closed (control_loop (S f) c s) = Some h3ErrCodeIDError) /\
     (c_server c = false -> id mod 4 = 0 -> (c_goaway c = None \/ exists m, c_goaway c = Some m /\ id <= m) ->
        c_closed (control_loop (S f) c s) = Some h3ErrCodeNoError /\ c_goaway (control_loop (S f) c s) = Some id)).
Proof. exact forbidden_table. Qed.
Print Assumptions C18_forbidden_table.

(** Non-vacuity: SETTINGS (04 00) and GOAWAY (07 01 00) on a request stream; DATA after trailers
    (HEADERS 01 02 aa bb, then DATA 00 01 07); the bytes of C18_example_conn instantiate the
    control-stream hypotheses. *)
Example C18_example_forbidden :
  (let '(out, e, x') := stream_read (new_stream (mkSrc [4; 0; 0; 1; 9] [] EEOF false) 64) 10 in
   out = [] /\ e = Some EUnexpectedFrame /\ x_closed x' = Some 261) /\
  (let '(out, e, x') := stream_read (new_stream (mkSrc [7; 1; 0] [1; 1; 1] EEOF false) 64) 10 in
   out = [] /\ e = Some EUnexpectedFrame /\ x_closed x' = Some 261) /\
  (let '(out, e, x') := stream_reads (new_stream (mkSrc [0; 1; 5; 1; 2; 170; 187; 0; 1; 7] [] EEOF false) 64) [10; 10; 10] in
   out = [5] /\ e = Some EDataAfterTrailers /\ x_trailers x' = [[170; 187]] /\ x_closed x' = None) /\
  parse_next 9 (mkSrc [4; 0; 4; 0] [] EBlocked false) None = (inr (FSettings (mkSettings (-1) false false [])), mkSrc [4; 0] [] EBlocked false, None).
Proof. vm_compute. auto 12. Qed.
Print Assumptions C18_example_forbidden.

(** The first frame of a request stream at the server (handleRequestStream up to the QPACK boundary;
    model Conn.request_stream, replayed by unit h3conn): anything but HEADERS first => the
    connection is closed with H3_FRAME_UNEXPECTED; a stream that ends before a frame =>
    H3_REQUEST_INCOMPLETE on the stream only; a HEADERS frame larger than the header limit => the
    431 path; a complete block within the limit is handed to the header decoder byte for byte. *)
Theorem C18_request_stream_first_frame :
  (* anything but HEADERS first: H3_FRAME_UNEXPECTED on the connection *)
  (forall c data fin maxHdr fr s',
     c_closed c = None ->
     parse_next (fuel_of (usrc data fin)) (usrc data fin) None = (inr fr, s', None) ->
     (forall l hl, fr <> FHeaders l hl) ->
     c_closed (fst (request_stream c data fin maxHdr)) = Some h3ErrCodeFrameUnexpected) /\
  (* the stream ends before a frame: H3_REQUEST_INCOMPLETE on the stream, connection untouched *)
  (forall c maxHdr, c_closed c = None ->
     request_stream c [] true maxHdr = (c_set_closed c None, RReset h3ErrCodeRequestIncomplete)) /\
  (* a HEADERS frame larger than the limit: 431 *)
  (forall c data fin maxHdr th lh l rest,
     c_closed c = None -> venc th 1 -> venc lh l -> data = th ++ lh ++ rest -> maxHdr < l ->
     snd (request_stream c data fin maxHdr) = RTooLarge /\ c_closed (fst (request_stream c data fin maxHdr)) = None) /\
  (* a complete block within the limit is handed on, byte for byte *)
  (forall c data fin maxHdr th lh blk rest,
     c_closed c = None -> venc th 1 -> venc lh (zlen blk) -> data = th ++ lh ++ blk ++ rest -> zlen blk <= maxHdr ->
     snd (request_stream c data fin maxHdr) = RAccepted blk /\ c_closed (fst (request_stream c data fin maxHdr)) = None).
Proof. exact request_stream_rules. Qed.
Print Assumptions C18_request_stream_first_frame.

(** COMPOSITION with C19 (V.Props.C19 imported read-only): ONE request end to end over a reliable
    ordered byte stream with arbitrary chunking (the QUIC stream contract of C01/C03 is the
    hypothesis, as is the QPACK round trip): (1) the server's first-frame handling hands exactly the
    client's header block to the decoder; (2) the *http.Request built from it agrees with what
    the client application asked for -- method, authority, request URI, Content-Length
    (C19_writer_parser_agree; header fields: C19_writer_parser_agree_headers); (3) the body the
    handler reads is the body the client wrote, for every write chunking, short-read schedule and
    buffer sequence.  NOT covered by any theorem (monitors h3e2e / h3sim only): the response
    direction end to end, trailers end to end, concurrency of many requests on one connection,
    loss / reordering below the stream contract, gzip, spec-driven clients, panic-freedom. *)
Theorem C18_one_request_end_to_end :
  forall (qenc : list HM.field -> list Z) (qdec : list Z -> list HM.field),
  (forall fs, qdec (qenc fs) = fs) ->
    forall q uri lim pre mid post (chunks : list (list Z)) (sched : list Z) (fw : bool) (maxHdr : Z) (bufs : list Z),
    WM.emit_request3 q = Some (pre, mid, post) -> WA.wreq_pre q uri ->
    HS.section_size (pre ++ mid ++ post) <= lim ->
    let block := qenc (pre ++ mid ++ post) in
    zlen block <= maxHdr -> zlen block <= maxVarInt8 -> Forall (fun b => zlen b <= maxVarInt8) chunks ->
    let body_wire := concat (x_written (stream_writes (new_stream (mkSrc [] [] EEOF false) 0) chunks)) in
    let request_wire := vappend 1 ++ vappend (zlen block) ++ block ++ body_wire in
    (* 1. the server's first-frame handling hands exactly the client's header block to the decoder,
          the connection stays open *)
    (snd (request_stream (new_conn true) request_wire true maxHdr) = RAccepted block /\
     c_closed (fst (request_stream (new_conn true) request_wire true maxHdr)) = None) /\
    (* 2. the request the handler is given agrees with what the client application asked for (C19) *)
    (exists r, HM.requestFromHeaders lim (qdec block) false uri = inr r /\
       HM.rqMethod r = WM.eff_method q /\ HM.rqHost r = WM.wHost q /\
       HM.rqURI r = (if WM.is_connect q then WM.wHost q else WA.the_path q) /\
       HM.rqCL r = (if WM.send_cl (WM.wMethod q) (WM.wCL q) then WM.wCL q else -1)) /\
    (* 3. the body the handler reads is the body the client wrote, for every chunking on both sides *)
    (exists out e x' tl,
       stream_reads (new_stream (mkSrc body_wire sched EEOF fw) maxHdr) bufs = (out, e, x') /\
       concat chunks = out ++ tl /\ (e = None \/ (e = Some EEOF /\ tl = [])) /\
       (all_pos bufs -> (length body_wire < length bufs)%nat -> e = Some EEOF)).
Proof. exact one_request_end_to_end. Qed.
Print Assumptions C18_one_request_end_to_end.

(** COMPOSITION, RESPONSE DIRECTION (round 6): ONE response end to end.  Hypotheses, all explicit:
    the QPACK round trip [qdec (qenc fs) = fs]; the QUIC stream is the byte source of the model --
    reliable, ordered, arbitrary chunking, clean FIN (C01/C03's contract); the handler's body
    writes reach the stream as Stream.Write calls; sizes below 2^62.  Then the client
    (1) obtains exactly the server's header block (ParseNext + io.ReadFull, every read schedule),
    (2) builds a response with exactly the status the handler wrote, its Content-Length and every
        header field as written (C19_writer_parser_agree_response / _response_headers),
    (3a) reads exactly the body bytes the handler wrote, for every chunking on both sides,
    (3b) the same through body.Read when the Content-Length of the body is declared: clean EOF,
         nothing reset,
    (3c) for responses that never carry content (HEAD; 1xx / 204 / 304): an empty body ends
         cleanly whatever Content-Length was declared (C18_content_length_no_content_exempt).
    _partial: response TRAILERS are not included (no HEADERS-after-DATA frame in [wframe];
    C19_writer_decode_agree would supply the field agreement); concurrency, loss below the stream
    contract, gzip and 1xx sequencing remain monitor-only (h3e2e, h3sim). *)
Theorem C18_one_response_end_to_end_partial :
  forall (qenc : list HM.field -> list Z) (qdec : list Z -> list HM.field),
  (forall fs, qdec (qenc fs) = fs) ->
    forall (status : Z) (h : WM.gomap) (lim : Z) (chunks : list (list Z))
           (sched : list Z) (fw : bool) (maxHdr : Z) (bufs : list Z),
    100 <= status <= 999 -> 0 <= lim -> HS.section_size (WM.rsp_fields status h) <= lim ->
    let block := qenc (WM.rsp_fields status h) in
    zlen block <= maxVarInt8 -> Forall (fun b => zlen b <= maxVarInt8) chunks ->
    let body_wire := concat (x_written (stream_writes (new_stream (mkSrc [] [] EEOF false) 0) chunks)) in
    let response_wire := vappend 1 ++ vappend (zlen block) ++ block ++ body_wire in
    (* 1. what RequestStream.ReadResponse does first: ParseNext delivers the HEADERS frame with the
          block's length, io.ReadFull of that many bytes delivers exactly the server's block and
          leaves the stream at the first body frame -- for every short-read schedule *)
    (exists hl s1 s2,
       parse_next (S (length response_wire)) (mkSrc response_wire sched EEOF fw) None
         = (inr (FHeaders (zlen block) hl), s1, None) /\
       read_full (fuel_of s1) s1 (zlen block) [] = (inr block, s2) /\ s_data s2 = body_wire) /\
    (* 2. the *http.Response built from the block: exactly the status the handler wrote, the declared
          Content-Length, and every header field as written (C19, unconditional) *)
    (exists r, HM.updateResponseFromHeaders lim (qdec block) false = inr r /\
       HM.rsCode r = status /\ HM.rsCL r = HM.hCL (HS.hdr_of (WM.rsp_fields status h)) /\
       (forall n, HM.token_ok n = true -> HM.lower_ok n = true ->
                  n <> V.H3Stream.E2EStrings.n_content_length -> n <> V.H3Stream.E2EStrings.n_trailer ->
                  HM.hget (HM.canon n) (HM.rsHeader r) = WE.opt_values (WE.rsp_expected h n))) /\
    (* 3a. the body the client reads is the body the handler wrote, for every chunking on both sides
           (no Content-Length needed) *)
    (exists out e x' tl,
       stream_reads (new_stream (mkSrc body_wire sched EEOF fw) maxHdr) bufs = (out, e, x') /\
       concat chunks = out ++ tl /\ (e = None \/ (e = Some EEOF /\ tl = [])) /\
       (all_pos bufs -> (length body_wire < length bufs)%nat -> e = Some EEOF)) /\
    (* 3b. with the Content-Length of the body declared: the same through body.Read, clean EOF,
           neither direction reset *)
    (forall nc, exists out e b' tl,
       body_reads (new_body (new_stream (mkSrc body_wire sched EEOF fw) maxHdr) (zlen (concat chunks)) nc) bufs = (out, e, b') /\
       concat chunks = out ++ tl /\ (e = None \/ (e = Some EEOF /\ tl = [])) /\ b_cancels b' = [] /\
       (all_pos bufs -> (length body_wire < length bufs)%nat -> e = Some EEOF)) /\
    (* 3c. responses that never carry content (to HEAD; 1xx, 204, 304): whatever Content-Length the
           handler declared, an empty body ends with a clean EOF and nothing is reset *)
    (chunks = [] -> forall cl, 0 <= cl -> exists e b',
       body_reads (new_body (new_stream (mkSrc body_wire sched EEOF fw) maxHdr) cl true) bufs = ([], e, b') /\
       (e = None \/ e = Some EEOF) /\ b_cancels b' = [] /\
       (all_pos bufs -> (0 < length bufs)%nat -> e = Some EEOF)).
Proof. exact one_response_end_to_end_partial. Qed.
Print Assumptions C18_one_response_end_to_end_partial.

(** TRAILERS at the stream level (round 6; closes the "no trailers" gap of C18_data_exact for one
    trailer section): DATA / ignorable frames, then ONE HEADERS frame (any accepted varint encoding,
    block within the header limit), then FIN.  For every short-read schedule and buffer sequence:
    the reads return a prefix of the DATA payloads; the trailer block reaches the trailer callback
    only after ALL payload bytes, exactly once and byte for byte; the only error is io.EOF and then
    body and trailers are complete; the connection is not closed.  (With the QPACK round trip,
    C19_writer_decode_agree turns the block into exactly the trailer fields the writer emitted.) *)
Theorem C18_data_exact_with_trailers :
  forall (fs : list wframe) (th lh blk : list Z) (sched : list Z) (fw : bool) (maxHdr : Z) (bufs : list Z),
  Forall wf_frame fs -> venc th 1 -> venc lh (zlen blk) -> zlen blk <= maxHdr ->
  exists out e x' tl,
    stream_reads (new_stream (mkSrc (wire fs ++ trailer_enc th lh blk) sched EEOF fw) maxHdr) bufs = (out, e, x') /\
    payload fs = out ++ tl /\ x_closed x' = None /\
    ((e = None /\ (x_trailers x' = [] \/ (tl = [] /\ x_trailers x' = [blk]))) \/
     (e = Some EEOF /\ tl = [] /\ x_trailers x' = [blk])).
Proof. exact data_exact_with_trailers. Qed.
Print Assumptions C18_data_exact_with_trailers.

Example C18_example_trailers :
  let '(out, e, x') := stream_reads (new_stream (mkSrc ([0; 2; 8; 9] ++ trailer_enc [1] [3] [170; 187; 204]) [1; 1; 2] EEOF true) 64) [1; 5; 5; 5] in
  out = [8; 9] /\ e = Some EEOF /\ x_trailers x' = [[170; 187; 204]] /\ x_closed x' = None.
Proof. vm_compute. auto. Qed.
Print Assumptions C18_example_trailers.
