(** C18 placeholder *)
From V Require Import H3Stream.Model.
