(** C01 — stream data arrives intact, in order, exactly once under any network faults.
    Only statements live here; each is closed by [exact] of a lemma proved elsewhere
    (SendStream/*.v: model of /repo/send_stream.go; StreamE2E/*.v: abstract network and
    abstract reassembly spec). [run (init ..) ops] is the SendStream model driven by an
    arbitrary op list (Write / writer-goroutine wake-up / Close / popStreamFrame / OnAcked /
    OnLost / CancelWrite / STOP_SENDING / getControlFrame / RESET_STREAM acked+lost /
    MAX_STREAM_DATA / MAX_DATA / SetReliableBoundary / enableResetStreamAt / closeForShutdown);
    [frames_of (snd ..)] are the frames popStreamFrame returned, [W] is every byte the
    application wrote. No hypothesis on the histories remains: the ghost flag [late] of round 2
    (reliable size raised on an already reset stream) can no longer be set (lemma late_never).
    The model mirrors the code WITH the repairs fixes/C01-write-buffered-after-reset.patch,
    fixes/C01-fin-on-truncated-frame.patch, fixes/C04-set-reliable-boundary-after-reset-panic.patch and
    fixes/C01-enable-reset-stream-at-after-reset.patch;
    the witnesses that refuted the corresponding statements on the unrepaired code are kept below as
    regression examples. *)
From Coq Require Import List ZArith Bool.
From V Require Import Gen.Params Lib.Hex SendStream.Model SendStream.ProofsBase SendStream.ProofsInv
  SendStream.ProofsCov SendStream.ProofsOut SendStream.ProofsFin SendStream.ProofsCnt SendStream.ProofsDone SendStream.ProofsLive SendStream.Theorems StreamE2E.Model StreamE2E.Compose
  StreamE2E.DgModel StreamE2E.DgProofs StreamE2E.PackModel StreamE2E.PackProofs
  StreamE2E.Concrete StreamE2E.NetPkt StreamE2E.EndToEnd StreamE2E.NetExample
  StreamE2E.PayloadCompose StreamE2E.EndToEndCodec.
Import ListNotations.
Open Scope Z_scope.

(** Every emitted frame carries exactly the written bytes of its range and lies inside what was
    written; first transmissions are contiguous from 0 to writeOffset; a FIN is only set after
    Close and exactly at the final size — reset or not (it was refuted for reset streams before
    the repair: a frame truncated to the reliable size kept its FIN). *)
Theorem C01_sender_frames_consistent :
  forall (sid0 : Z) (rsa : bool) (swin cwin : Z) (ops : list op),
  let s := fst (run (init sid0 rsa swin cwin) ops) in
  let E := frames_of (snd (run (init sid0 rsa swin cwin) ops)) in
  (forall f, In f E ->
     0 <= f_off f /\ f_end f <= zlen (W s) /\
     f_data f = zfirstn (zlen (f_data f)) (zskipn (f_off f) (W s))) /\
  contiguous 0 (emittedNew s) (writeOffset s) /\
  (forall f, In f E -> f_fin f = true -> finishedWriting s = true /\ f_end f = zlen (W s)).
Proof. exact sender_frames_consistent'. Qed.
Print Assumptions C01_sender_frames_consistent.

(** MaybeSplitOffFrame: the two pieces of a split retransmission cover exactly the byte range of
    the original frame; the FIN stays on the remainder; both pieces are non-empty. *)
Theorem C01_split_preserves_range :
  forall sid0 f maxSize new rest,
  zlen (f_data f) <= 16383 ->
  maybe_split sid0 f maxSize = Some (Some (new, rest)) ->
  f_off new = f_off f /\ f_off rest = f_end new /\ f_end rest = f_end f /\
  f_data new ++ f_data rest = f_data f /\ f_fin new = false /\ f_fin rest = f_fin f /\
  0 < zlen (f_data new) /\ 0 < zlen (f_data rest).
Proof. exact split_preserves_range. Qed.
Print Assumptions C01_split_preserves_range.

(** Unless the stream was reset or torn down: every byte below writeOffset is acked, in an
    outstanding frame or in the retransmission queue (what makes recovery possible); so is the
    FIN once sent; numOutstandingFrames equals the number of frames in flight. *)
Theorem C01_sender_coverage :
  forall (sid0 : Z) (rsa : bool) (swin cwin : Z) (ops : list op),
  let s := fst (run (init sid0 rsa swin cwin) ops) in
  resetErr s = None -> shutdown s = false ->
  (forall i, 0 <= i < writeOffset s -> covered i (acked s ++ outstanding s ++ retransQ s)) /\
  (finSent s = true -> exists f, In f (acked s ++ outstanding s ++ retransQ s) /\ f_fin f = true) /\
  numOut s = zlen (outstanding s).
Proof. exact sender_coverage. Qed.
Print Assumptions C01_sender_coverage.

(** numOutstandingFrames is exact in EVERY history (reset or not): it equals the number of STREAM
    frames in flight that still count (none once the stream was reset without reliable size) plus
    the RESET_STREAM(_AT) frames in flight that carry the current reliable size. Hence the panics
    "numOutStandingFrames negative" are unreachable and, with pop budgets of at most one packet
    (all the framer ever offers), the code never panics. (Refuted before the repair of
    SetReliableBoundary; regression example C01_panic_witness_repaired below.) *)
Theorem C01_sender_no_panic :
  forall (sid0 : Z) (rsa : bool) (swin cwin : Z) (ops : list op),
  let s := fst (run (init sid0 rsa swin cwin) ops) in
  (forall mb, In (OPop mb) ops -> mb <= ssMaxPacketBufferSize) ->
  panicked s = false /\ numOut s = cnt_stream s + cnt_reset s /\ 0 <= numOut s.
Proof. exact sender_no_panic'. Qed.
Print Assumptions C01_sender_no_panic.

(** Completion exactly once: over every history, the number of onStreamCompleted calls is 1 if the
    stream is completed and 0 otherwise (never twice); and in every state that is not shut down,
    "nothing in flight, queued or buffered, and the FIN was sent or the reset is known to the
    application" implies that completion HAS been reported. (Refuted before the repair of write():
    regression example C01_completion_witness_repaired.) *)
Theorem C01_completion_exactly_once :
  forall (sid0 : Z) (rsa : bool) (swin cwin : Z) (ops : list op),
  let s := fst (run (init sid0 rsa swin cwin) ops) in
  let outs := snd (run (init sid0 rsa swin cwin) ops) in
  (forall mb, In (OPop mb) ops -> mb <= ssMaxPacketBufferSize) ->
  done_calls outs = b2z (completed s) /\
  (shutdown s = false ->
   nfLen s = 0 /\ numOut s = 0 /\ retransQ s = [] /\ queuedReset s = None /\
   (finSent s = true \/ (resetErr s <> None /\ (cancellationFlagged s = true \/ finishedWriting s = true))) ->
   completed s = true).
Proof. exact sender_completion_exactly_once'. Qed.
Print Assumptions C01_completion_exactly_once.

(** (Rounds 1-3, kept: the same two statements over an ABSTRACT reassembly spec and an abstract network; the
    concrete versions are at the end of this file.)
    End to end: for every sender history and every delivery sequence drawn from the emitted frames
    (loss, duplication, reordering; reads of any sizes interleaved), the concatenation of the reads
    is a prefix of W; EOF is reported only when everything was read and the writer closed. *)
Theorem C01_end_to_end_prefix_abstract :
  forall (sid0 : Z) (rsa : bool) (swin cwin : Z) (ops : list op) (evs : list event),
  let s := fst (run (init sid0 rsa swin cwin) ops) in
  let E := frames_of (snd (run (init sid0 rsa swin cwin) ops)) in
  let rs := snd (rrun rcv0 evs) in
  (forall f, In f (delivered evs) -> In f E) ->
  (exists rest, W s = all_read rs ++ rest) /\
  (saw_eof rs = true -> all_read rs = W s /\ finishedWriting s = true).
Proof. exact end_to_end_prefix'. Qed.
Print Assumptions C01_end_to_end_prefix_abstract.

(** If what was delivered covers [0,|W|) and includes the FIN (the model's stand-in for
    "loss recovery eventually delivers"), a draining read yields exactly W and EOF. *)
Theorem C01_complete_if_covered_abstract :
  forall (sid0 : Z) (rsa : bool) (swin cwin : Z) (ops : list op) (evs : list event),
  let s := fst (run (init sid0 rsa swin cwin) ops) in
  let E := frames_of (snd (run (init sid0 rsa swin cwin) ops)) in
  (forall f, In f (delivered evs) -> In f E) ->
  forall n,
  (forall i, 0 <= i < zlen (W s) -> exists f, In f (delivered evs) /\ f_off f <= i < f_end f) ->
  (exists f, In f (delivered evs) /\ f_fin f = true) ->
  zlen (W s) <= n ->
  let rs' := snd (rrun rcv0 (evs ++ [ERead n])) in
  all_read rs' = W s /\ saw_eof rs' = true /\ finishedWriting s = true.
Proof. exact complete_if_covered_e2e'. Qed.
Print Assumptions C01_complete_if_covered_abstract.

(** Datagrams (model of /repo/datagram_queue.go, any op list of Add / parked-Add wake-up / Peek / Pop /
    HandleDatagramFrame / Receive / Close): what Receive returned embeds into what was handled
    (unmodified, in order, nothing twice); what Add accepted is exactly what was popped followed by
    what is still queued (handed to the packer at most once, in order); the queues stay bounded. *)
Theorem C01_datagram_at_most_once :
  forall ops : list dop,
  let q := fst (drun dq0 ops) in
  let outs := snd (drun dq0 ops) in
  subseq (recv_of (combine ops outs)) (gHandled q) /\
  gAdded q = gPopped q ++ sendQ q /\
  zlen (sendQ q) <= dgMaxSendQueueLen /\ zlen (rcvQ q) <= dgMaxRcvQueueLen.
Proof. exact datagram_at_most_once. Qed.
Print Assumptions C01_datagram_at_most_once.

(** Packet layer (model PackModel of packetPacker.composeNextPacket + the 1-RTT retransmission queue +
    the datagram queue; any list of SendDatagram / compose / packet lost / packet acked; the frames
    returned by the framer and the ack source are per-call oracles, the framer never returning
    DATAGRAM frames): a DATAGRAM frame in a packet never carries a handler, the retransmission queue
    never holds one, and the DATAGRAM payloads on the wire embed into the sequence popped from the
    queue: every datagram accepted by SendDatagram is put into at most one packet, in order, whatever
    is declared lost. *)
Theorem C01_datagram_never_retransmitted :
  forall ops : list pop_,
  Forall wf_op ops ->
  let s := fst (prun pk0 ops) in
  let pkts := sent_of (combine ops (snd (prun pk0 ops))) in
  (forall pkt f, In pkt pkts -> In f pkt -> is_dg (pf_kind f) = true -> pf_h f = 0) /\
  (forall kl, In kl (p_retx s) -> is_dg (fst kl) = false) /\
  subseq (dgs_of pkts) (gPopped (p_dq s)) /\
  gAdded (p_dq s) = gPopped (p_dq s) ++ sendQ (p_dq s).
Proof. exact datagram_never_retransmitted. Qed.
Print Assumptions C01_datagram_never_retransmitted.

(* a datagram shares its packet with a control frame from the framer; the packet is lost; only the
   control frame comes back *)
Example C01_datagram_never_retransmitted_nonvacuous :
  let ops := [KDq (DAdd [7; 7]); KCompose 1200 true None true [mkPF (KCtrl 5) 3 0]; KLost 0; KCompose 1200 true None false []] in
  Forall wf_op ops /\
  snd (prun pk0 ops) = [[]; [mkPF (KDg [7; 7]) 4 0; mkPF (KCtrl 5) 3 1]; []; [mkPF (KCtrl 5) 3 1]].
Proof. split; [repeat constructor|vm_compute; reflexivity]. Qed.
Print Assumptions C01_datagram_never_retransmitted_nonvacuous.

Example C01_datagram_nonvacuous :
  let r := drun dq0 [DHandle [1]; DHandle [2]; DAdd [9]; DReceive; DPeek; DPop; DReceive; DReceive] in
  snd r = [DNone; DNone; DAddOk; DData [1]; DData [9]; DNone; DData [2]; DEmpty] /\
  gHandled (fst r) = [[1]; [2]] /\ gPopped (fst r) = [[9]].
Proof. vm_compute. repeat split. Qed.
Print Assumptions C01_datagram_nonvacuous.

(** Non-vacuity: a history that satisfies every hypothesis above, with a split retransmission. *)
Definition ex_ops : list op :=
  [OWrite [1; 2; 3; 4; 5; 6; 7; 8; 9; 10]; OClose; OPop 1452; OLost 0; OPop 8; OPop 1452; OAcked 0; OAcked 0].
Example C01_nonvacuous :
  let r := run (init 4 false 1000 1000) ex_ops in
  late (fst r) = false /\ resetErr (fst r) = None /\ shutdown (fst r) = false /\
  frames_of (snd r) = [mkF 0 [1; 2; 3; 4; 5; 6; 7; 8; 9; 10] true; mkF 0 [1; 2; 3; 4; 5] false; mkF 5 [6; 7; 8; 9; 10] true] /\
  completed (fst r) = true /\
  snd (rrun rcv0 [EDeliver (mkF 5 [6; 7; 8; 9; 10] true); ERead 100; EDeliver (mkF 0 [1; 2; 3; 4; 5] false);
                  EDeliver (mkF 0 [1; 2; 3; 4; 5] false); ERead 3; ERead 100])
  = [([], false); ([1; 2; 3], false); ([4; 5; 6; 7; 8; 9; 10], true)].
Proof. vm_compute. repeat split. Qed.
Print Assumptions C01_nonvacuous.

(** A stream that was reset without a reliable size never holds a buffered frame (before the
    repair a parked Write buffered its data after the reset and the stream could never complete),
    and isNewlyCompleted fires as soon as nothing is in flight, queued or buffered. *)
Theorem C01_reset_stream_holds_no_buffer :
  forall (sid0 : Z) (rsa : bool) (swin cwin : Z) (ops : list op),
  let s := fst (run (init sid0 rsa swin cwin) ops) in
  resetErr s <> None -> ro s = 0 -> nextFrame s = None.
Proof. exact reset_stream_holds_no_buffer'. Qed.
Print Assumptions C01_reset_stream_holds_no_buffer.

Theorem C01_completion_fires :
  forall s,
  completed s = false -> nfLen s = 0 -> numOut s <= 0 -> retransQ s = [] -> queuedReset s = None ->
  (finSent s = true \/ (resetErr s <> None /\ (cancellationFlagged s = true \/ finishedWriting s = true))) ->
  snd (newly_completed s) = true /\ completed (fst (newly_completed s)) = true.
Proof. exact newly_completed_fires. Qed.
Print Assumptions C01_completion_fires.

(** Liveness, as far as the model carries it (claim (e); PARTIAL — see below).  Take ANY history of the
    sender (any interleaving of writes, pops with any budgets up to a packet, acknowledgements, loss
    declarations — finitely many faults —, window updates, ...), after which the stream is closed and neither
    reset nor torn down.  If the peer then grants credit beyond what is still unsent (MAX_STREAM_DATA /
    MAX_DATA above fcSent + pending), a number of full-size popStreamFrame calls EQUAL to the explicit measure
    [mu] of owed work (queued retransmission bytes and frames, unsent bytes, FIN) hands out everything: the
    retransmission queue is empty, nothing is buffered, the FIN is sent; and when the frames then in flight
    are acknowledged, every byte of W is covered by an acknowledged frame, the stream reports completion, and
    it has done so exactly once over the whole history.
    Partial for the completion clause of C01: that the connection DOES keep calling popStreamFrame (run loop,
    framer, congestion window, pacer), that lost packets ARE declared lost (loss timer / PTO) and that acks
    arrive "when the path is not dead longer than the idle timeout" is behaviour of the runtime, exercised by
    the simulated connections of units simstream / simstreamx / simdgram / simtrace (monitor hang), not proved. *)
Theorem C01_sender_drains_partial :
  forall (sid0 : Z) (rsa : bool) (swin cwin : Z) (ops : list op) (L1 L2 : Z),
  let s0 := init sid0 rsa swin cwin in
  let s := run_state s0 ops in
  (forall mb, In (OPop mb) ops -> mb <= ssMaxPacketBufferSize) ->
  resetErr s = None -> shutdown s = false -> finishedWriting s = true ->
  fcSent s + pend s < L1 -> ccSent s + pend s < L2 ->
  exists k a, Z.of_nat k = mu s /\
    let ops' := ops ++ [OWin L1; OConnWin L2] ++ repeat (OPop ssMaxPacketBufferSize) k ++ repeat (OAcked 0) a in
    let s' := run_state s0 ops' in
    retransQ s' = [] /\ outstanding s' = [] /\ nextFrame s' = None /\ dataForWriting s' = [] /\ finSent s' = true /\
    W s' = W s /\ writeOffset s' = zlen (W s) /\
    (forall i, 0 <= i < zlen (W s) -> covered i (acked s')) /\
    completed s' = true /\ done_calls (snd (run s0 ops')) = 1.
Proof. exact sender_drains. Qed.
Print Assumptions C01_sender_drains_partial.

(** every single full-size pop makes progress while anything is owed and credit is left: it returns a frame
    and the measure of owed work strictly decreases (no silent stall at the sender) *)
Theorem C01_sender_pop_progress :
  forall s, DrainInv s -> 0 < mu s ->
  let r := do_pop ssMaxPacketBufferSize s in
  DrainInv (fst r) /\ mu (fst r) < mu s /\ o_frame (snd r) <> None /\ W (fst r) = W s.
Proof. exact pop_progress. Qed.
Print Assumptions C01_sender_pop_progress.

(** non-vacuity: 10 bytes written and closed against a window of 5; the first frame is declared lost; then
    credit arrives: 13 units of work are owed, 13 pops (most of them idle) and 2 acks complete the stream *)
Example C01_sender_drains_nonvacuous :
  let ops := [OWrite [1; 2; 3; 4; 5; 6; 7; 8; 9; 10]; OClose; OPop 1452; OLost 0] in
  let s := run_state (init 4 false 5 5) ops in
  let s' := run_state (init 4 false 5 5)
              (ops ++ [OWin 100; OConnWin 100] ++ repeat (OPop ssMaxPacketBufferSize) 13 ++ repeat (OAcked 0) 2) in
  resetErr s = None /\ shutdown s = false /\ finishedWriting s = true /\ fcSent s + pend s < 100 /\ mu s = 13 /\
  retransQ s = [mkF 0 [1; 2; 3; 4; 5] false] /\ nextFrame s = Some (5, [6; 7; 8; 9; 10]) /\ completed s = false /\
  acked s' = [mkF 0 [1; 2; 3; 4; 5] false; mkF 5 [6; 7; 8; 9; 10] true] /\ completed s' = true.
Proof. vm_compute. repeat split. Qed.
Print Assumptions C01_sender_drains_nonvacuous.

(** MaxDataLen follows Go's shrinkForLengthField for every budget (C08's model of the loop), also beyond 16383 *)
Example C01_max_data_len_large : max_data_len 0 0 16400 = 16394 /\ max_data_len 0 0 1452 = 1448 /\ max_data_len 0 0 66 = 63.
Proof. vm_compute. repeat split. Qed.
Print Assumptions C01_max_data_len_large.

(** Regression examples: the three witnesses that the faithful model of the UNREPAIRED code
    produced (and the harness replays on the implementation as scripted cases -1, -4, -5 of unit
    sendstream), evaluated on the model of the repaired code.

    1. Close; CancelWrite with a reliable size; the frame carrying the FIN is lost:
       the retransmission is truncated to the reliable size and no longer carries the FIN. *)
Example C01_fin_witness_repaired :
  let r := run (init 0 true 1048576 1048576)
    [OWrite (repeat 1 50); ORel; OWrite (repeat 2 50); OClose; OPop 1452; OCancel 7; OCtrl; OLost 0; OPop 1452] in
  late (fst r) = false /\
  map (fun f => (f_off f, zlen (f_data f), f_fin f)) (frames_of (snd r)) = [(0, 100, true); (0, 50, false)] /\
  map o_ctrl (snd r) = [None; None; None; None; None; None; Some (mkR 100 7 50); None; None].
Proof. vm_compute. repeat split. Qed.
Print Assumptions C01_fin_witness_repaired.

(**  2. STOP_SENDING while a Write is parked behind a buffered frame: the Write now returns the
       remote StreamError (class 2, code 5, 0 bytes), and the stream completes once the
       RESET_STREAM is acknowledged. *)
Example C01_completion_witness_repaired :
  let r := run (init 4 false 600 1048576)
    [OWrite (repeat 1 1000); OPop 1452; OWrite (repeat 2 1200); OStop 5; OResume; OClose; OCtrl; ORAcked 0; OAcked 0] in
  In (Some (0, 2, 5)) (map o_wres (snd r)) /\ ~ In (Some (1200, 0, 0)) (map o_wres (snd r)) /\
  completed (fst r) = true /\ nfLen (fst r) = 0 /\ fold_left Z.add (map o_done (snd r)) 0 = 1.
Proof.
  vm_compute. repeat split; try discriminate.
  - do 4 right. left. reflexivity.
  - intros H. repeat (destruct H as [H|H]; [discriminate H|]). exact H.
Qed.
Print Assumptions C01_completion_witness_repaired.

(**  3. SetReliableBoundary after CancelWrite, then an ACK: no panic any more (repair of C04). *)
Example C01_panic_witness_repaired :
  let r := run (init 0 true 1048576 1048576) [OWrite (repeat 1 100); OPop 1452; OCancel 1; ORel; OAcked 0] in
  panicked (fst r) = false /\ late (fst r) = false.
Proof. vm_compute. split; reflexivity. Qed.
Print Assumptions C01_panic_witness_repaired.

(**  4. enableResetStreamAt() on a stream that was reset while a Write was parked (0-RTT stream, the
       extension only becomes known with the handshake): before the repair the next popStreamFrame
       returned a frame [0,100) carrying bytes 100.. of what was written; now nothing is emitted. *)
Example C01_late_enable_witness_repaired :
  let r := run (init 0 false 1048576 1048576)
    [OWrite (repeat 1 100); ORel; OWrite (repeat 2 1400); OCancel 3; OResume; OEnable; OPop 1452] in
  frames_of (snd r) = [] /\ supportsRSA (fst r) = false.
Proof. vm_compute. split; reflexivity. Qed.
Print Assumptions C01_late_enable_witness_repaired.

(** * Round 4: end to end on the concrete models of every layer

    [crun (rrun_init w) evs] is the RecvStream model of receive_stream.go + frame_sorter.go (coq/RecvStream,
    coq/FrameSorter; tied to the code by C03) with advertised window [w], fed with real frames
    ([CDeliver f cb]: handleStreamFrame with the frame's own bytes) and Read calls; [None] = the receiver
    answered with a transport error (FLOW_CONTROL_ERROR beyond [w], gap limit of the sorter).
    [nrun .. nst0 nevs] is the receiving connection's packet path over ARBITRARY arriving byte strings:
    PktProt.unprotect (C05), IsPotentiallyDuplicate / ReceivedPacket of the RecvPH model (C07). *)

(** SendStream.Model o (frames of the sender, any multiplicity, any order) o RecvStream.Model:
    what Read returned is a prefix of W; io.EOF only after all of W and after Close. The consistency
    premise of C03's theorems is discharged by C01_sender_frames_consistent. *)
Theorem C01_concrete_prefix :
  forall (sid0 : Z) (rsa : bool) (swin cwin : Z) (ops : list op) (w : Z) (evs : list cev),
  let s := fst (run (init sid0 rsa swin cwin) ops) in
  let E := frames_of (snd (run (init sid0 rsa swin cwin) ops)) in
  (forall f, In f (cdelivered evs) -> In f E) ->
  0 <= w < FrameSorter.Model.MaxBC -> (forall n, In (CRead n) evs -> 0 <= n) ->
  forall r, crun (RecvStream.Spec.rrun_init w) evs = Some r ->
  (exists rest, W s = RecvStream.Spec.rr_out r ++ rest) /\
  (RecvStream.Spec.rr_eof r = true -> RecvStream.Spec.rr_out r = W s /\ finishedWriting s = true).
Proof. exact concrete_prefix. Qed.
Print Assumptions C01_concrete_prefix.

(** ... and if the frames that arrived cover [0,|W|) and include the FIN and the receiver raised no
    transport error, |W|+1 further Reads (of any positive size) succeed, return the rest, and io.EOF. *)
Theorem C01_concrete_complete :
  forall (sid0 : Z) (rsa : bool) (swin cwin : Z) (ops : list op) (w : Z) (evs : list cev) (n : Z),
  let s := fst (run (init sid0 rsa swin cwin) ops) in
  let E := frames_of (snd (run (init sid0 rsa swin cwin) ops)) in
  (forall f, In f (cdelivered evs) -> In f E) ->
  0 <= w < FrameSorter.Model.MaxBC -> (forall m, In (CRead m) evs -> 0 <= m) -> 0 < n ->
  forall r0, crun (RecvStream.Spec.rrun_init w) evs = Some r0 ->
  (forall i, 0 <= i < zlen (W s) -> in_range (cdelivered evs) i) ->
  existsb f_fin (cdelivered evs) = true ->
  exists r, crun r0 (repeat (CRead n) (Datatypes.S (Z.to_nat (zlen (W s))))) = Some r /\
            RecvStream.Spec.rr_out r = W s /\ RecvStream.Spec.rr_eof r = true /\ finishedWriting s = true.
Proof. exact concrete_complete. Qed.
Print Assumptions C01_concrete_complete.

(** The network, derived instead of assumed. Hypotheses: ideal integrity of the AEAD (C05's); only the
    sender seals, and only its packets. For every sequence of arriving byte strings interleaved with any
    other calls on the received-packet handler: every packet whose frames are handled is a packet of the
    sender (corrupted, truncated, invented datagrams deliver nothing), and no packet number, hence no packet, is
    handled twice (a duplicated or replayed datagram delivers its frames once) - in EVERY history, also behind
    more than MaxNumAckRanges gaps: C07's [dup_inv] / [dup_always_step] over the received-packet history as
    repaired by fixes/C07-trimmed-history-counts-as-received.patch (/repo 4675722).  Before that repair a
    packet replayed behind 65+ gaps was processed again (monitor simdgram/dup-replay-beyond-ack-ranges). *)
Theorem C01_net_processed_once :
  forall (aead_open : Z -> Z -> list Z -> list Z -> option (list Z)) (hp_mask : list Z -> list Z)
         (aead_seal : Z -> Z -> list Z -> list Z -> list Z) (sealed : Z -> Z -> list Z -> list Z -> Prop),
  (forall pn kp ad c p, aead_open pn kp ad c = Some p -> sealed pn kp ad p /\ c = aead_seal pn kp ad p) ->
  forall sent : list (Z * Z * list Z),
  (forall pn kp hdr p, sealed pn kp hdr p -> In (pn, kp, p) sent) ->
  forall nevs : list nev,
  let ns := nrun aead_open hp_mask nst0 nevs in
  incl (n_procs ns) sent /\ NoDup (pns ns) /\ NoDup (n_procs ns).
Proof. exact processed_from_sent. Qed.
Print Assumptions C01_net_processed_once.

(** C01_end_to_end_prefix / C01_complete_if_covered in their final form:
    SendStream.Model o packets o arbitrary network o (C05 unpack . C07 duplicate filter) o RecvStream.Model.
    Remaining hypotheses: [ideal], [honest] (above); [packed]: the plaintexts the sender sealed contain, for this
    stream, only frames popStreamFrame returned (packer + wire codec, C08); [delivered_is_handled]: the stream
    layer is fed with the STREAM frames of the processed packets, in processing order.  No hypothesis on the
    received-packet history is needed here (a packet processed twice only delivers its frames twice, which the
    stream layer absorbs); [frames_in] is an uninterpreted parser: the link plaintext <-> frames IS [packed]. *)
Theorem C01_end_to_end_prefix :
  forall aead_seal aead_open hp_mask sealed,
  (forall pn kp ad c p, aead_open pn kp ad c = Some p -> sealed pn kp ad p /\ c = aead_seal pn kp ad p) ->
  forall (sent : list (Z * Z * list Z)),
  (forall pn kp hdr p, sealed pn kp hdr p -> In (pn, kp, p) sent) ->
  forall (frames_in : list Z -> list frame) (nevs : list nev),
  forall (sid0 : Z) (rsa : bool) (swin cwin : Z) (ops : list op) (w : Z) (evs : list cev),
  let s := fst (run (init sid0 rsa swin cwin) ops) in
  let E := frames_of (snd (run (init sid0 rsa swin cwin) ops)) in
  (forall x f, In x sent -> In f (frames_in (snd x)) -> In f E) ->
  cdelivered evs = stream_frames_handled aead_open hp_mask frames_in nevs ->
  0 <= w < FrameSorter.Model.MaxBC -> (forall n, In (CRead n) evs -> 0 <= n) ->
  forall r, crun (RecvStream.Spec.rrun_init w) evs = Some r ->
  (exists rest, W s = RecvStream.Spec.rr_out r ++ rest) /\
  (RecvStream.Spec.rr_eof r = true -> RecvStream.Spec.rr_out r = W s /\ finishedWriting s = true).
Proof. exact e2e_prefix. Qed.
Print Assumptions C01_end_to_end_prefix.

Theorem C01_complete_if_covered :
  forall aead_seal aead_open hp_mask sealed,
  (forall pn kp ad c p, aead_open pn kp ad c = Some p -> sealed pn kp ad p /\ c = aead_seal pn kp ad p) ->
  forall (sent : list (Z * Z * list Z)),
  (forall pn kp hdr p, sealed pn kp hdr p -> In (pn, kp, p) sent) ->
  forall (frames_in : list Z -> list frame) (nevs : list nev),
  forall (sid0 : Z) (rsa : bool) (swin cwin : Z) (ops : list op) (w : Z) (evs : list cev),
  let s := fst (run (init sid0 rsa swin cwin) ops) in
  let E := frames_of (snd (run (init sid0 rsa swin cwin) ops)) in
  (forall x f, In x sent -> In f (frames_in (snd x)) -> In f E) ->
  cdelivered evs = stream_frames_handled aead_open hp_mask frames_in nevs ->
  0 <= w < FrameSorter.Model.MaxBC -> (forall n, In (CRead n) evs -> 0 <= n) ->
  forall n r0, 0 < n -> crun (RecvStream.Spec.rrun_init w) evs = Some r0 ->
  (forall i, 0 <= i < zlen (W s) -> in_range (cdelivered evs) i) ->
  existsb f_fin (cdelivered evs) = true ->
  exists r, crun r0 (repeat (CRead n) (Datatypes.S (Z.to_nat (zlen (W s))))) = Some r /\
            RecvStream.Spec.rr_out r = W s /\ RecvStream.Spec.rr_eof r = true /\ finishedWriting s = true.
Proof. exact e2e_complete. Qed.
Print Assumptions C01_complete_if_covered.

(** Datagrams end to end: SendDatagram (DgModel.Add) o composeNextPacket (PackModel) o packets o network o
    (C05 . C07) o HandleDatagramFrame / Receive (DgModel). Every payload is returned by ReceiveDatagram at most
    as often as SendDatagram accepted it: what is delivered is unmodified (it IS a sent payload) and delivered at
    most once - whatever the network duplicates and whatever the sender declares lost.
    [wire_dgs]: the DATAGRAM frames composeNextPacket put into its packets are what the receiver's parser finds
    in the sealed plaintexts (codec, C08); [handled_is_processed]: HandleDatagramFrame is called exactly for the
    DATAGRAM frames of the processed packets. *)
Theorem C01_datagram_end_to_end :
  forall aead_seal aead_open hp_mask sealed,
  (forall pn kp ad c p, aead_open pn kp ad c = Some p -> sealed pn kp ad p /\ c = aead_seal pn kp ad p) ->
  forall (sent : list (Z * Z * list Z)),
  (forall pn kp hdr p, sealed pn kp hdr p -> In (pn, kp, p) sent) ->
  forall (dgs_in : list Z -> list (list Z)) (nevs : list nev),
  forall pops : list pop_, Forall wf_op pops ->
  flat_map dgs_in (map snd sent) = dgs_of (sent_of (combine pops (snd (prun pk0 pops)))) ->
  forall rops : list dop, ~ In DPop rops ->
  handled_of rops = datagrams_handled aead_open hp_mask dgs_in nevs ->
  forall d, (cnt d (received rops) <= cnt d (gAdded (p_dq (fst (prun pk0 pops)))))%nat.
Proof. exact e2e_datagram_at_most_once'. Qed.
Print Assumptions C01_datagram_end_to_end.

(** Non-vacuity of the world hypotheses and of the packet path: a lookup-authenticated AEAD satisfies [ideal]
    and [honest]; the same protected packet arriving twice, then corrupted, then truncated, is handled once;
    the connection stays open. *)
Example C01_net_nonvacuous :
  (forall pn kp ad c p, ex_open pn kp ad c = Some p -> ex_sealed pn kp ad p /\ c = ex_seal pn kp ad p) /\
  (forall pn kp hdr p, ex_sealed pn kp hdr p -> In (pn, kp, p) ex_sent) /\
  let ns := nrun ex_open ex_mask nst0 ex_arrivals in
  n_procs ns = ex_sent /\ n_closed ns = false.
Proof. split; [exact ex_ideal|]. split; [exact ex_honest|]. vm_compute. repeat split. Qed.
Print Assumptions C01_net_nonvacuous.

(** Regression example for finding simdgram/dup-replay-beyond-ack-ranges (the former counterexample to the
    datagram clause, audit problem 1): 70 packets 0, 2, ..., 138 arrive, each behind a gap (more ACK ranges than
    MaxNumAckRanges = 64, the oldest are forgotten), then packet 0 is replayed and opens again under the AEAD.
    On the model of the repaired history it is processed once (before the repair: twice). *)
Example C01_replay_beyond_ack_ranges_repaired :
  let ns := nrun ex2_open ex_mask nst0 (ex2_arrivals 70) in
  length (pns ns) = 70%nat /\ count_occ Z.eq_dec (pns ns) 0 = 1%nat /\ n_closed ns = false.
Proof. vm_compute. repeat split. Qed.
Print Assumptions C01_replay_beyond_ack_ranges_repaired.

(** Non-vacuity of the concrete receiver composition: the frames of [C01_nonvacuous]'s history, delivered out
    of order and duplicated to the RecvStream model, with interleaved reads. *)
Example C01_concrete_nonvacuous :
  let evs := [CDeliver (mkF 5 [6; 7; 8; 9; 10] true) (Some 0); CRead 100; CDeliver (mkF 0 [1; 2; 3; 4; 5] false) (Some 1);
              CDeliver (mkF 0 [1; 2; 3; 4; 5] false) (Some 2); CRead 3; CRead 100] in
  (forall f, In f (cdelivered evs) -> In f (frames_of (snd (run (init 4 false 1000 1000) ex_ops)))) /\
  exists r, crun (RecvStream.Spec.rrun_init 1000) evs = Some r /\
            RecvStream.Spec.rr_out r = [1; 2; 3; 4; 5; 6; 7; 8; 9; 10] /\ RecvStream.Spec.rr_eof r = true.
Proof.
  cbv zeta. split.
  - vm_compute. intros f [H|[H|[H|[]]]]; subst; auto.
  - eexists. split; [vm_compute; reflexivity|]. split; vm_compute; reflexivity.
Qed.
Print Assumptions C01_concrete_nonvacuous.

(** ** Round 6: the end-to-end theorems composed with C08's payload codec.
    The receiver's parser on a plaintext is [Wire.Payload.parse_payload] (the frame loop of handleFrames over the
    frame parser, tied to Go by C08) projected to the STREAM frames of the stream / the DATAGRAM payloads
    ([frames_in_codec], [dgs_in_codec]); the former hypotheses [packed] and [wire_dgs] about an uninterpreted
    parser are now lemmas (PayloadCompose.packed_codec / EndToEndCodec.wire_dgs_from_codec, from
    C08_payload_roundtrip / C08_payload_roundtrip_last).  Hypotheses that remain, exactly: ideal AEAD; honest
    sealer; the packer hypothesis ON FRAME LISTS (every sealed plaintext is [payload_of d] - C08's serialisation,
    PADDING anywhere, every frame self-delimiting except possibly the last - of a well-formed frame list [d]
    whose STREAM frames of this stream are frames popStreamFrame returned, resp. whose DATAGRAM payloads are those
    of the packer model's packet); delivered_is_handled / handled_is_processed (the stream / datagram layer is fed
    what parse_payload finds in the processed packets); window, non-negative reads, no receiver error. *)
Theorem C01_end_to_end_prefix_codec :
  forall aead_seal aead_open hp_mask sealed,
  (forall pn kp ad c p, aead_open pn kp ad c = Some p -> sealed pn kp ad p /\ c = aead_seal pn kp ad p) ->
  forall (sent : list (Z * Z * list Z)),
  (forall pn kp hdr p, sealed pn kp hdr p -> In (pn, kp, p) sent) ->
  forall (cfg0 : Wire.Frames.cfg) (nevs : list nev)
         (sid0 : Z) (rsa : bool) (swin cwin : Z) (ops : list op) (w : Z) (evs : list cev),
  let s := fst (run (init sid0 rsa swin cwin) ops) in
  let E := frames_of (snd (run (init sid0 rsa swin cwin) ops)) in
  (forall x, In x sent ->
     exists d, pk_ok cfg0 d /\ snd x = payload_of d /\
               forall f, In f (omap (stream_of sid0) (frames_of_desc d)) -> In f E) ->
  cdelivered evs = stream_frames_handled aead_open hp_mask (frames_in_codec cfg0 sid0) nevs ->
  0 <= w < FrameSorter.Model.MaxBC -> (forall n, In (CRead n) evs -> 0 <= n) ->
  forall r, crun (RecvStream.Spec.rrun_init w) evs = Some r ->
  (exists rest, W s = RecvStream.Spec.rr_out r ++ rest) /\
  (RecvStream.Spec.rr_eof r = true -> RecvStream.Spec.rr_out r = W s /\ finishedWriting s = true).
Proof. exact e2e_prefix_codec. Qed.
Print Assumptions C01_end_to_end_prefix_codec.

Theorem C01_complete_if_covered_codec :
  forall aead_seal aead_open hp_mask sealed,
  (forall pn kp ad c p, aead_open pn kp ad c = Some p -> sealed pn kp ad p /\ c = aead_seal pn kp ad p) ->
  forall (sent : list (Z * Z * list Z)),
  (forall pn kp hdr p, sealed pn kp hdr p -> In (pn, kp, p) sent) ->
  forall (cfg0 : Wire.Frames.cfg) (nevs : list nev)
         (sid0 : Z) (rsa : bool) (swin cwin : Z) (ops : list op) (w : Z) (evs : list cev),
  let s := fst (run (init sid0 rsa swin cwin) ops) in
  let E := frames_of (snd (run (init sid0 rsa swin cwin) ops)) in
  (forall x, In x sent ->
     exists d, pk_ok cfg0 d /\ snd x = payload_of d /\
               forall f, In f (omap (stream_of sid0) (frames_of_desc d)) -> In f E) ->
  cdelivered evs = stream_frames_handled aead_open hp_mask (frames_in_codec cfg0 sid0) nevs ->
  0 <= w < FrameSorter.Model.MaxBC -> (forall n, In (CRead n) evs -> 0 <= n) ->
  forall n r0, 0 < n -> crun (RecvStream.Spec.rrun_init w) evs = Some r0 ->
  (forall i, 0 <= i < zlen (W s) -> in_range (cdelivered evs) i) ->
  existsb f_fin (cdelivered evs) = true ->
  exists r, crun r0 (repeat (CRead n) (Datatypes.S (Z.to_nat (zlen (W s))))) = Some r /\
            RecvStream.Spec.rr_out r = W s /\ RecvStream.Spec.rr_eof r = true /\ finishedWriting s = true.
Proof. exact e2e_complete_codec. Qed.
Print Assumptions C01_complete_if_covered_codec.

Theorem C01_datagram_end_to_end_codec :
  forall aead_seal aead_open hp_mask sealed,
  (forall pn kp ad c p, aead_open pn kp ad c = Some p -> sealed pn kp ad p /\ c = aead_seal pn kp ad p) ->
  forall (sent : list (Z * Z * list Z)),
  (forall pn kp hdr p, sealed pn kp hdr p -> In (pn, kp, p) sent) ->
  forall (cfg0 : Wire.Frames.cfg) (nevs : list nev),
  forall pops : list pop_, Forall wf_op pops ->
  Forall2 (fun b pkt => exists d, pk_ok cfg0 d /\ b = payload_of d /\ omap dg_of (frames_of_desc d) = pkt_dgs pkt)
          (map snd sent) (sent_of (combine pops (snd (prun pk0 pops)))) ->
  forall rops : list dop, ~ In DPop rops ->
  handled_of rops = datagrams_handled aead_open hp_mask (dgs_in_codec cfg0) nevs ->
  forall d, (cnt d (received rops) <= cnt d (gAdded (p_dq (fst (prun pk0 pops)))))%nat.
Proof. exact e2e_datagram_at_most_once_codec. Qed.
Print Assumptions C01_datagram_end_to_end_codec.

(** The codec composition computes: a payload with PADDING, a STREAM frame with length, a DATAGRAM with length,
    a MAX_DATA frame, and a last STREAM frame without length field, parsed by C08's parse_payload and projected. *)
Example C01_codec_nonvacuous :
  let c := Wire.Frames.Cfg true true false 3 in
  let d := mkPD [(0%nat, Wire.FramesBase.FStream 2 0 [1; 2; 3] false true);
                 (2%nat, Wire.FramesBase.FDatagram true [9; 9]);
                 (0%nat, Wire.FramesBase.FMaxData 70000)]
                (Some (1%nat, Wire.FramesBase.FStream 2 3 [4; 5] true false)) in
  frames_in_codec c 2 (payload_of d) = [mkF 0 [1; 2; 3] false; mkF 3 [4; 5] true] /\
  dgs_in_codec c (payload_of d) = [[9; 9]] /\
  frames_in_codec c 6 (payload_of d) = [].
Proof. vm_compute. repeat split. Qed.
Print Assumptions C01_codec_nonvacuous.
