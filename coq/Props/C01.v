(** C01 — placeholder while the proofs are being written. *)
From Coq Require Import List ZArith.
From V Require Import Gen.Params SendStream.Model.
