(** C01 — stream data arrives intact, in order, exactly once under any network faults.
    Only statements live here; each is closed by [exact] of a lemma proved elsewhere
    (SendStream/*.v: model of /repo/send_stream.go; StreamE2E/*.v: abstract network and
    abstract reassembly spec). [run (init ..) ops] is the SendStream model driven by an
    arbitrary op list (Write / writer-goroutine wake-up / Close / popStreamFrame / OnAcked /
    OnLost / CancelWrite / STOP_SENDING / getControlFrame / RESET_STREAM acked+lost /
    MAX_STREAM_DATA / MAX_DATA / SetReliableBoundary / enableResetStreamAt / closeForShutdown);
    [frames_of (snd ..)] are the frames popStreamFrame returned, [W] is every byte the
    application wrote. [late] = the reliable size was raised on an already reset stream
    (SetReliableBoundary after CancelWrite, enableResetStreamAt after a reset): outside the
    theorems, see the _refuted statements and notes/C01.md. *)
From Coq Require Import List ZArith Bool.
From V Require Import Gen.Params Lib.Hex SendStream.Model SendStream.ProofsBase SendStream.ProofsInv
  SendStream.ProofsCov SendStream.ProofsOut SendStream.Theorems StreamE2E.Model StreamE2E.Compose.
Import ListNotations.
Open Scope Z_scope.

(** Every emitted frame carries exactly the written bytes of its range and lies inside what was
    written; first transmissions are contiguous from 0 to writeOffset; on a stream that was never
    reset a FIN is only set after Close and exactly at the final size. *)
Theorem C01_sender_frames_consistent :
  forall (sid0 : Z) (rsa : bool) (swin cwin : Z) (ops : list op),
  let s := fst (run (init sid0 rsa swin cwin) ops) in
  let E := frames_of (snd (run (init sid0 rsa swin cwin) ops)) in
  late s = false ->
  (forall f, In f E ->
     0 <= f_off f /\ f_end f <= zlen (W s) /\
     f_data f = zfirstn (zlen (f_data f)) (zskipn (f_off f) (W s))) /\
  contiguous 0 (emittedNew s) (writeOffset s) /\
  (resetErr s = None -> forall f, In f E -> f_fin f = true ->
     finishedWriting s = true /\ f_end f = zlen (W s)).
Proof. exact sender_frames_consistent. Qed.
Print Assumptions C01_sender_frames_consistent.

(** MaybeSplitOffFrame: the two pieces of a split retransmission cover exactly the byte range of
    the original frame; the FIN stays on the remainder; both pieces are non-empty. *)
Theorem C01_split_preserves_range :
  forall sid0 f maxSize new rest,
  zlen (f_data f) <= 16383 ->
  maybe_split sid0 f maxSize = Some (Some (new, rest)) ->
  f_off new = f_off f /\ f_off rest = f_end new /\ f_end rest = f_end f /\
  f_data new ++ f_data rest = f_data f /\ f_fin new = false /\ f_fin rest = f_fin f /\
  0 < zlen (f_data new) /\ 0 < zlen (f_data rest).
Proof. exact split_preserves_range. Qed.
Print Assumptions C01_split_preserves_range.

(** Unless the stream was reset or torn down: every byte below writeOffset is acked, in an
    outstanding frame or in the retransmission queue (what makes recovery possible); so is the
    FIN once sent; numOutstandingFrames equals the number of frames in flight. *)
Theorem C01_sender_coverage :
  forall (sid0 : Z) (rsa : bool) (swin cwin : Z) (ops : list op),
  let s := fst (run (init sid0 rsa swin cwin) ops) in
  resetErr s = None -> shutdown s = false ->
  (forall i, 0 <= i < writeOffset s -> covered i (acked s ++ outstanding s ++ retransQ s)) /\
  (finSent s = true -> exists f, In f (acked s ++ outstanding s ++ retransQ s) /\ f_fin f = true) /\
  numOut s = zlen (outstanding s).
Proof. exact sender_coverage. Qed.
Print Assumptions C01_sender_coverage.

(** End to end: for every sender history and every delivery sequence drawn from the emitted frames
    (loss, duplication, reordering; reads of any sizes interleaved), the concatenation of the reads
    is a prefix of W; EOF is reported only when everything was read and the writer closed. *)
Theorem C01_end_to_end_prefix :
  forall (sid0 : Z) (rsa : bool) (swin cwin : Z) (ops : list op) (evs : list event),
  let s := fst (run (init sid0 rsa swin cwin) ops) in
  let E := frames_of (snd (run (init sid0 rsa swin cwin) ops)) in
  let rs := snd (rrun rcv0 evs) in
  (forall f, In f (delivered evs) -> In f E) ->
  late s = false ->
  (exists rest, W s = all_read rs ++ rest) /\
  (resetErr s = None -> saw_eof rs = true -> all_read rs = W s /\ finishedWriting s = true).
Proof. exact end_to_end_prefix. Qed.
Print Assumptions C01_end_to_end_prefix.

(** If what was delivered covers [0,|W|) and includes the FIN (the model's stand-in for
    "loss recovery eventually delivers"), a draining read yields exactly W and EOF. *)
Theorem C01_complete_if_covered :
  forall (sid0 : Z) (rsa : bool) (swin cwin : Z) (ops : list op) (evs : list event),
  let s := fst (run (init sid0 rsa swin cwin) ops) in
  let E := frames_of (snd (run (init sid0 rsa swin cwin) ops)) in
  (forall f, In f (delivered evs) -> In f E) ->
  forall n,
  resetErr s = None ->
  (forall i, 0 <= i < zlen (W s) -> exists f, In f (delivered evs) /\ f_off f <= i < f_end f) ->
  (exists f, In f (delivered evs) /\ f_fin f = true) ->
  zlen (W s) <= n ->
  let rs' := snd (rrun rcv0 (evs ++ [ERead n])) in
  all_read rs' = W s /\ saw_eof rs' = true /\ finishedWriting s = true.
Proof. exact complete_if_covered_e2e. Qed.
Print Assumptions C01_complete_if_covered.

(** Non-vacuity: a history that satisfies every hypothesis above, with a split retransmission. *)
Definition ex_ops : list op :=
  [OWrite [1; 2; 3; 4; 5; 6; 7; 8; 9; 10]; OClose; OPop 1452; OLost 0; OPop 8; OPop 1452; OAcked 0; OAcked 0].
Example C01_nonvacuous :
  let r := run (init 4 false 1000 1000) ex_ops in
  late (fst r) = false /\ resetErr (fst r) = None /\ shutdown (fst r) = false /\
  frames_of (snd r) = [mkF 0 [1; 2; 3; 4; 5; 6; 7; 8; 9; 10] true; mkF 0 [1; 2; 3; 4; 5] false; mkF 5 [6; 7; 8; 9; 10] true] /\
  completed (fst r) = true /\
  snd (rrun rcv0 [EDeliver (mkF 5 [6; 7; 8; 9; 10] true); ERead 100; EDeliver (mkF 0 [1; 2; 3; 4; 5] false);
                  EDeliver (mkF 0 [1; 2; 3; 4; 5] false); ERead 3; ERead 100])
  = [([], false); ([1; 2; 3], false); ([4; 5; 6; 7; 8; 9; 10], true)].
Proof. vm_compute. repeat split. Qed.
Print Assumptions C01_nonvacuous.

(** REFUTED by the faithful model (each witness is replayed on the implementation by the harness,
    scripted cases -1, -2, -3 of unit sendstream; see known_findings.json):

    1. FIN only at the final size — false once CancelWrite (after Close) meets a reliable size:
       OnLost truncates the lost frame to the reliable size and keeps its FIN. *)
Theorem C01_fin_at_final_size_refuted :
  exists ops, let r := run (init 0 true 1048576 1048576) ops in
  late (fst r) = false /\
  exists f, In f (frames_of (snd r)) /\ f_fin f = true /\ f_end f <> zlen (W (fst r)).
Proof.
  exists [OWrite (repeat 1 50); ORel; OWrite (repeat 2 50); OClose; OPop 1452; OCancel 7; OCtrl; OLost 0; OPop 1452].
  vm_compute. split; [reflexivity|]. eexists. split; [right; left; reflexivity|]. split; [reflexivity|discriminate].
Qed.
Print Assumptions C01_fin_at_final_size_refuted.

(**  2. "after everything is acked the stream reports completion" — false: a Write parked behind a
       buffered frame is woken by STOP_SENDING, buffers its data AFTER the reset, returns (n, nil),
       and isNewlyCompleted can never become true again. *)
Theorem C01_completes_after_reset_refuted :
  exists ops, let r := run (init 4 false 600 1048576) ops in
  let s := fst r in
  In (Some (1200, 0, 0)) (map o_wres (snd r)) /\   (* Write(1200 bytes) = (1200, nil) after the reset *)
  resetErr s <> None /\ cancellationFlagged s = true /\ finishedWriting s = true /\
  numOut s = 0 /\ retransQ s = [] /\ queuedReset s = None /\ outReset s = [] /\
  completed s = false /\ nfLen s = 1200.
Proof.
  exists [OWrite (repeat 1 1000); OPop 1452; OWrite (repeat 2 1200); OStop 5; OResume; OClose; OCtrl; ORAcked 0; OAcked 0].
  vm_compute. repeat split; try discriminate. do 4 right. left. reflexivity.
Qed.
Print Assumptions C01_completes_after_reset_refuted.

(**  3. the code never panics — false: SetReliableBoundary after CancelWrite revives the counter path. *)
Theorem C01_no_panic_refuted :
  exists ops, panicked (fst (run (init 0 true 1048576 1048576) ops)) = true.
Proof.
  exists [OWrite (repeat 1 100); OPop 1452; OCancel 1; ORel; OAcked 0]. vm_compute. reflexivity.
Qed.
Print Assumptions C01_no_panic_refuted.
