(** C01 — stream data arrives intact, in order, exactly once under any network faults.
    Only statements live here; each is closed by [exact] of a lemma proved elsewhere
    (SendStream/*.v: model of /repo/send_stream.go; StreamE2E/*.v: abstract network and
    abstract reassembly spec). [run (init ..) ops] is the SendStream model driven by an
    arbitrary op list (Write / writer-goroutine wake-up / Close / popStreamFrame / OnAcked /
    OnLost / CancelWrite / STOP_SENDING / getControlFrame / RESET_STREAM acked+lost /
    MAX_STREAM_DATA / MAX_DATA / SetReliableBoundary / enableResetStreamAt / closeForShutdown);
    [frames_of (snd ..)] are the frames popStreamFrame returned, [W] is every byte the
    application wrote. [late] = enableResetStreamAt() switched the extension on for a stream
    that was already reset (only possible for streams opened before the handshake completed):
    outside the theorems, see notes/C01.md.
    The model mirrors the code WITH the repairs fixes/C01-write-buffered-after-reset.patch,
    fixes/C01-fin-on-truncated-frame.patch and fixes/C04-set-reliable-boundary-after-reset-panic.patch;
    the witnesses that refuted the corresponding statements on the unrepaired code are kept below as
    regression examples. *)
From Coq Require Import List ZArith Bool.
From V Require Import Gen.Params Lib.Hex SendStream.Model SendStream.ProofsBase SendStream.ProofsInv
  SendStream.ProofsCov SendStream.ProofsOut SendStream.ProofsFin SendStream.ProofsCnt SendStream.Theorems StreamE2E.Model StreamE2E.Compose
  StreamE2E.DgModel StreamE2E.DgProofs.
Import ListNotations.
Open Scope Z_scope.

(** Every emitted frame carries exactly the written bytes of its range and lies inside what was
    written; first transmissions are contiguous from 0 to writeOffset; a FIN is only set after
    Close and exactly at the final size — reset or not (it was refuted for reset streams before
    the repair: a frame truncated to the reliable size kept its FIN). *)
Theorem C01_sender_frames_consistent :
  forall (sid0 : Z) (rsa : bool) (swin cwin : Z) (ops : list op),
  let s := fst (run (init sid0 rsa swin cwin) ops) in
  let E := frames_of (snd (run (init sid0 rsa swin cwin) ops)) in
  late s = false ->
  (forall f, In f E ->
     0 <= f_off f /\ f_end f <= zlen (W s) /\
     f_data f = zfirstn (zlen (f_data f)) (zskipn (f_off f) (W s))) /\
  contiguous 0 (emittedNew s) (writeOffset s) /\
  (forall f, In f E -> f_fin f = true -> finishedWriting s = true /\ f_end f = zlen (W s)).
Proof. exact sender_frames_consistent. Qed.
Print Assumptions C01_sender_frames_consistent.

(** MaybeSplitOffFrame: the two pieces of a split retransmission cover exactly the byte range of
    the original frame; the FIN stays on the remainder; both pieces are non-empty. *)
Theorem C01_split_preserves_range :
  forall sid0 f maxSize new rest,
  zlen (f_data f) <= 16383 ->
  maybe_split sid0 f maxSize = Some (Some (new, rest)) ->
  f_off new = f_off f /\ f_off rest = f_end new /\ f_end rest = f_end f /\
  f_data new ++ f_data rest = f_data f /\ f_fin new = false /\ f_fin rest = f_fin f /\
  0 < zlen (f_data new) /\ 0 < zlen (f_data rest).
Proof. exact split_preserves_range. Qed.
Print Assumptions C01_split_preserves_range.

(** Unless the stream was reset or torn down: every byte below writeOffset is acked, in an
    outstanding frame or in the retransmission queue (what makes recovery possible); so is the
    FIN once sent; numOutstandingFrames equals the number of frames in flight. *)
Theorem C01_sender_coverage :
  forall (sid0 : Z) (rsa : bool) (swin cwin : Z) (ops : list op),
  let s := fst (run (init sid0 rsa swin cwin) ops) in
  resetErr s = None -> shutdown s = false ->
  (forall i, 0 <= i < writeOffset s -> covered i (acked s ++ outstanding s ++ retransQ s)) /\
  (finSent s = true -> exists f, In f (acked s ++ outstanding s ++ retransQ s) /\ f_fin f = true) /\
  numOut s = zlen (outstanding s).
Proof. exact sender_coverage. Qed.
Print Assumptions C01_sender_coverage.

(** numOutstandingFrames is exact in EVERY history (reset or not): it equals the number of STREAM
    frames in flight that still count (none once the stream was reset without reliable size) plus
    the RESET_STREAM(_AT) frames in flight that carry the current reliable size. Hence the panics
    "numOutStandingFrames negative" are unreachable and, with pop budgets of at most one packet
    (all the framer ever offers), the code never panics. (Refuted before the repair of
    SetReliableBoundary; regression example C01_panic_witness_repaired below.) *)
Theorem C01_sender_no_panic :
  forall (sid0 : Z) (rsa : bool) (swin cwin : Z) (ops : list op),
  let s := fst (run (init sid0 rsa swin cwin) ops) in
  late s = false -> (forall mb, In (OPop mb) ops -> mb <= ssMaxPacketBufferSize) ->
  panicked s = false /\ numOut s = cnt_stream s + cnt_reset s /\ 0 <= numOut s.
Proof. exact sender_no_panic. Qed.
Print Assumptions C01_sender_no_panic.

(** End to end: for every sender history and every delivery sequence drawn from the emitted frames
    (loss, duplication, reordering; reads of any sizes interleaved), the concatenation of the reads
    is a prefix of W; EOF is reported only when everything was read and the writer closed. *)
Theorem C01_end_to_end_prefix :
  forall (sid0 : Z) (rsa : bool) (swin cwin : Z) (ops : list op) (evs : list event),
  let s := fst (run (init sid0 rsa swin cwin) ops) in
  let E := frames_of (snd (run (init sid0 rsa swin cwin) ops)) in
  let rs := snd (rrun rcv0 evs) in
  (forall f, In f (delivered evs) -> In f E) ->
  late s = false ->
  (exists rest, W s = all_read rs ++ rest) /\
  (saw_eof rs = true -> all_read rs = W s /\ finishedWriting s = true).
Proof. exact end_to_end_prefix. Qed.
Print Assumptions C01_end_to_end_prefix.

(** If what was delivered covers [0,|W|) and includes the FIN (the model's stand-in for
    "loss recovery eventually delivers"), a draining read yields exactly W and EOF. *)
Theorem C01_complete_if_covered :
  forall (sid0 : Z) (rsa : bool) (swin cwin : Z) (ops : list op) (evs : list event),
  let s := fst (run (init sid0 rsa swin cwin) ops) in
  let E := frames_of (snd (run (init sid0 rsa swin cwin) ops)) in
  (forall f, In f (delivered evs) -> In f E) ->
  forall n,
  late s = false ->
  (forall i, 0 <= i < zlen (W s) -> exists f, In f (delivered evs) /\ f_off f <= i < f_end f) ->
  (exists f, In f (delivered evs) /\ f_fin f = true) ->
  zlen (W s) <= n ->
  let rs' := snd (rrun rcv0 (evs ++ [ERead n])) in
  all_read rs' = W s /\ saw_eof rs' = true /\ finishedWriting s = true.
Proof. exact complete_if_covered_e2e. Qed.
Print Assumptions C01_complete_if_covered.

(** Datagrams (model of /repo/datagram_queue.go, any op list of Add / parked-Add wake-up / Peek / Pop /
    HandleDatagramFrame / Receive / Close): what Receive returned embeds into what was handled
    (unmodified, in order, nothing twice); what Add accepted is exactly what was popped followed by
    what is still queued (handed to the packer at most once, in order); the queues stay bounded. *)
Theorem C01_datagram_at_most_once :
  forall ops : list dop,
  let q := fst (drun dq0 ops) in
  let outs := snd (drun dq0 ops) in
  subseq (recv_of (combine ops outs)) (gHandled q) /\
  gAdded q = gPopped q ++ sendQ q /\
  zlen (sendQ q) <= dgMaxSendQueueLen /\ zlen (rcvQ q) <= dgMaxRcvQueueLen.
Proof. exact datagram_at_most_once. Qed.
Print Assumptions C01_datagram_at_most_once.

Example C01_datagram_nonvacuous :
  let r := drun dq0 [DHandle [1]; DHandle [2]; DAdd [9]; DReceive; DPeek; DPop; DReceive; DReceive] in
  snd r = [DNone; DNone; DAddOk; DData [1]; DData [9]; DNone; DData [2]; DEmpty] /\
  gHandled (fst r) = [[1]; [2]] /\ gPopped (fst r) = [[9]].
Proof. vm_compute. repeat split. Qed.
Print Assumptions C01_datagram_nonvacuous.

(** Non-vacuity: a history that satisfies every hypothesis above, with a split retransmission. *)
Definition ex_ops : list op :=
  [OWrite [1; 2; 3; 4; 5; 6; 7; 8; 9; 10]; OClose; OPop 1452; OLost 0; OPop 8; OPop 1452; OAcked 0; OAcked 0].
Example C01_nonvacuous :
  let r := run (init 4 false 1000 1000) ex_ops in
  late (fst r) = false /\ resetErr (fst r) = None /\ shutdown (fst r) = false /\
  frames_of (snd r) = [mkF 0 [1; 2; 3; 4; 5; 6; 7; 8; 9; 10] true; mkF 0 [1; 2; 3; 4; 5] false; mkF 5 [6; 7; 8; 9; 10] true] /\
  completed (fst r) = true /\
  snd (rrun rcv0 [EDeliver (mkF 5 [6; 7; 8; 9; 10] true); ERead 100; EDeliver (mkF 0 [1; 2; 3; 4; 5] false);
                  EDeliver (mkF 0 [1; 2; 3; 4; 5] false); ERead 3; ERead 100])
  = [([], false); ([1; 2; 3], false); ([4; 5; 6; 7; 8; 9; 10], true)].
Proof. vm_compute. repeat split. Qed.
Print Assumptions C01_nonvacuous.

(** A stream that was reset without a reliable size never holds a buffered frame (before the
    repair a parked Write buffered its data after the reset and the stream could never complete),
    and isNewlyCompleted fires as soon as nothing is in flight, queued or buffered. *)
Theorem C01_reset_stream_holds_no_buffer :
  forall (sid0 : Z) (rsa : bool) (swin cwin : Z) (ops : list op),
  let s := fst (run (init sid0 rsa swin cwin) ops) in
  late s = false -> resetErr s <> None -> ro s = 0 -> nextFrame s = None.
Proof. exact reset_stream_holds_no_buffer. Qed.
Print Assumptions C01_reset_stream_holds_no_buffer.

Theorem C01_completion_fires :
  forall s,
  completed s = false -> nfLen s = 0 -> numOut s <= 0 -> retransQ s = [] -> queuedReset s = None ->
  (finSent s = true \/ (resetErr s <> None /\ (cancellationFlagged s = true \/ finishedWriting s = true))) ->
  snd (newly_completed s) = true /\ completed (fst (newly_completed s)) = true.
Proof. exact newly_completed_fires. Qed.
Print Assumptions C01_completion_fires.

(** Regression examples: the three witnesses that the faithful model of the UNREPAIRED code
    produced (and the harness replays on the implementation as scripted cases -1, -4, -5 of unit
    sendstream), evaluated on the model of the repaired code.

    1. Close; CancelWrite with a reliable size; the frame carrying the FIN is lost:
       the retransmission is truncated to the reliable size and no longer carries the FIN. *)
Example C01_fin_witness_repaired :
  let r := run (init 0 true 1048576 1048576)
    [OWrite (repeat 1 50); ORel; OWrite (repeat 2 50); OClose; OPop 1452; OCancel 7; OCtrl; OLost 0; OPop 1452] in
  late (fst r) = false /\
  map (fun f => (f_off f, zlen (f_data f), f_fin f)) (frames_of (snd r)) = [(0, 100, true); (0, 50, false)] /\
  map o_ctrl (snd r) = [None; None; None; None; None; None; Some (mkR 100 7 50); None; None].
Proof. vm_compute. repeat split. Qed.
Print Assumptions C01_fin_witness_repaired.

(**  2. STOP_SENDING while a Write is parked behind a buffered frame: the Write now returns the
       remote StreamError (class 2, code 5, 0 bytes), and the stream completes once the
       RESET_STREAM is acknowledged. *)
Example C01_completion_witness_repaired :
  let r := run (init 4 false 600 1048576)
    [OWrite (repeat 1 1000); OPop 1452; OWrite (repeat 2 1200); OStop 5; OResume; OClose; OCtrl; ORAcked 0; OAcked 0] in
  In (Some (0, 2, 5)) (map o_wres (snd r)) /\ ~ In (Some (1200, 0, 0)) (map o_wres (snd r)) /\
  completed (fst r) = true /\ nfLen (fst r) = 0 /\ fold_left Z.add (map o_done (snd r)) 0 = 1.
Proof.
  vm_compute. repeat split; try discriminate.
  - do 4 right. left. reflexivity.
  - intros H. repeat (destruct H as [H|H]; [discriminate H|]). exact H.
Qed.
Print Assumptions C01_completion_witness_repaired.

(**  3. SetReliableBoundary after CancelWrite, then an ACK: no panic any more (repair of C04). *)
Example C01_panic_witness_repaired :
  let r := run (init 0 true 1048576 1048576) [OWrite (repeat 1 100); OPop 1452; OCancel 1; ORel; OAcked 0] in
  panicked (fst r) = false /\ late (fst r) = false.
Proof. vm_compute. split; reflexivity. Qed.
Print Assumptions C01_panic_witness_repaired.
