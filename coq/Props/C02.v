(** C02 -- every parrot or derived spec yields a working connection, dial after dial.
    Only statements live here; each is closed by [exact] of a lemma proved in coq/UDial. *)
From Coq Require Import List ZArith Bool Permutation.
From V Require Import Gen.Params Lib.Hex Wire.Varint USpec.Model USpec.Proofs USpec.ProofsWire
  UDial.Model UDial.Proofs UDial.Witness.
Import ListNotations.
Open Scope Z_scope.

(** (c) For the k-th dial (k = number of earlier dials + 1) of ONE spec value, in any history of
    dials and edits of the suppression list / randomize flag by the caller: every
    initial_source_connection_id a reader finds in extension 57 of that dial's ClientHello is
    that dial's source connection ID, there is one whenever the spec declares one that is not
    suppressed, the connection's own view agrees, and the spec value afterwards is what the
    caller's edits alone make of it (the dials left nothing behind). Hypothesis [wf_spec]: the
    parameters are encodable and the spec leaves the source connection ID to the library (typed,
    empty), as all built-in parrots do. *)
Theorem C02_dial_k_wire_scid : forall st ops1 scid o ops2 st' views,
  wf_spec st -> zlen scid <= maxVarInt8 ->
  run st (ops1 ++ ODial scid o :: ops2) = Some (st', views) ->
  exists w l,
    nth_error views (count_dials ops1) = Some (scid, w) /\
    wire_iscids w = Some l /\ Forall (eq scid) l /\
    vInitialSourceConnectionID (wView w) = scid /\
    (forall p, In p (sParams st) -> pid p = tpid_initialSourceConnectionID ->
               kept (sSup (edits st ops1)) tpid_initialSourceConnectionID -> l <> []) /\
    st' = edits st (ops1 ++ ODial scid o :: ops2).
Proof. exact dial_k_wire_scid. Qed.
Print Assumptions C02_dial_k_wire_scid.

(** (c) Dial after dial: the k-th dial of a history is exactly the FIRST dial of the spec as the
    caller wrote it (with the caller's edits so far) -- same wire, same own view, spec unchanged. *)
Theorem C02_redial_as_first : forall ops1 st scid o ops2 st' views,
  run st (ops1 ++ ODial scid o :: ops2) = Some (st', views) ->
  exists w, dial (edits st ops1) scid o = Some (edits st ops1, w) /\
            nth_error views (count_dials ops1) = Some (scid, w) /\
            st' = edits st (ops1 ++ ODial scid o :: ops2).
Proof. exact run_split. Qed.
Print Assumptions C02_redial_as_first.

(** (c) Every dial sends the key shares generated for it and holds their private keys; the
    server name is the spec's, or this dial's tls.Config.ServerName when the spec leaves it empty. *)
Theorem C02_dial_k_fresh_keys : forall st ops1 scid o ops2 st' views,
  Forall wants_key (sKeys st) -> length (oFresh o) = length (sKeys st) ->
  run st (ops1 ++ ODial scid o :: ops2) = Some (st', views) ->
  exists w, nth_error views (count_dials ops1) = Some (scid, w) /\
    map kData (wKeys w) = oFresh o /\ map kGroup (wKeys w) = map kGroup (sKeys st) /\
    Forall (eq true) (wHeld w) /\
    wSNI w = pick_sni (sSNI st) (oName o).
Proof. exact dial_k_fresh_keys. Qed.
Print Assumptions C02_dial_k_fresh_keys.

(** Suppress / shuffle applied to a list that already went through them (TransportParameterIDs()
    before a dial, or a caller who passes a dialled list on) yields the same multiset -- the same
    list when nothing is shuffled -- and suppression alone changes nothing any more. *)
Theorem C02_dial_idempotent_params : forall sup rnd js1 js2 ps,
  Permutation (dial_list sup rnd js2 (dial_list sup rnd js1 ps)) (dial_list sup rnd js1 ps) /\
  (rnd = false -> dial_list sup rnd js2 (dial_list sup rnd js1 ps) = dial_list sup rnd js1 ps) /\
  suppress sup (dial_list sup rnd js1 ps) = dial_list sup rnd js1 ps.
Proof. exact dial_list_idem. Qed.
Print Assumptions C02_dial_idempotent_params.

(** (d) UTransport with a nil QUICSpec builds exactly the plain Transport's connection. *)
Theorem C02_nil_spec : forall e, u_dial e None = plain_dial e.
Proof. exact nil_spec_is_plain. Qed.
Print Assumptions C02_nil_spec.

(** The code before the repair (legacy_dial: the same steps on the spec's OWN extension
    objects): whatever the second dial's inputs, its extension 57 is byte for byte the first
    dial's ... *)
Theorem C02_legacy_wire_frozen : forall st s1 o1 st1 w1 s2 o2 st2 w2,
  legacy_dial st s1 o1 = Some (st1, w1) -> legacy_dial st1 s2 o2 = Some (st2, w2) ->
  wExt w2 = wExt w1.
Proof. exact legacy_frozen. Qed.
Print Assumptions C02_legacy_wire_frozen.

(** ... so C02_dial_k_wire_scid fails for k = 2 there (witness: a Firefox-shaped list, 3-byte
    source connection IDs 010203 then 040506; the second ClientHello still says 010203), the
    second dial sends the first dial's key share and holds no private key for it. *)
Theorem C02_legacy_dial_k_wire_scid_refuted :
  wf_spec ex_spec /\ Forall wants_key (sKeys ex_spec) /\
  exists st' w1 w2,
    legacy_run ex_spec [ODial [1; 2; 3] ex_o1; ODial [4; 5; 6] ex_o2] = Some (st', [([1; 2; 3], w1); ([4; 5; 6], w2)]) /\
    wire_iscids w2 = Some [[1; 2; 3]] /\
    vInitialSourceConnectionID (wView w2) = [1; 2; 3] /\
    map kData (wKeys w2) = oFresh ex_o1 /\ wHeld w2 = [false] /\
    wSNI w2 = oName ex_o1.
Proof. exact legacy_refuted_witness. Qed.
Print Assumptions C02_legacy_dial_k_wire_scid_refuted.

(** Non-vacuity: the same history on the repaired dial satisfies every hypothesis above and
    gives the right answers. *)
Example C02_ex_history :
  wf_spec ex_spec /\ Forall wants_key (sKeys ex_spec) /\
  exists w1 w2,
    run ex_spec ([ODial [1; 2; 3] ex_o1; OSetSup [14]] ++ ODial [4; 5; 6] ex_o2 :: []) =
      Some (set_sup ex_spec [14], [([1; 2; 3], w1); ([4; 5; 6], w2)]) /\
    wire_iscids w1 = Some [[1; 2; 3]] /\ wire_iscids w2 = Some [[4; 5; 6]] /\
    parse (wExt w2) = Some [(1, [128; 0; 117; 48]); (15, [4; 5; 6]); (4, [129; 128; 0; 0])] /\
    map kData (wKeys w2) = oFresh ex_o2 /\ wHeld w2 = [true] /\ wSNI w2 = oName ex_o2.
Proof. exact ex_history. Qed.
Print Assumptions C02_ex_history.
