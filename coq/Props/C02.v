(** C02 -- every parrot or derived spec yields a working connection, dial after dial.
    Only statements live here; each is closed by [exact] of a lemma proved in coq/UDial. *)
From Coq Require Import List ZArith Bool Permutation.
From V Require Import Gen.Params Lib.Hex Wire.Varint USpec.Model USpec.Proofs USpec.ProofsWire
  UDial.Model UDial.Proofs UDial.Witness UDial.Retx UDial.ProofsRetx UDial.Reg UDial.ProofsReg UDial.Heap UDial.ProofsHeap.
Import ListNotations.
Open Scope Z_scope.

(** (c) For the k-th dial (k = number of earlier dials + 1) of ONE spec value, in any history of
    dials and edits of the suppression list / randomize flag by the caller: every
    initial_source_connection_id a reader finds in extension 57 of that dial's ClientHello is
    that dial's source connection ID, there is one whenever the spec declares one that is not
    suppressed, the connection's own view agrees, and the spec value afterwards is what the
    caller's edits alone make of it (the dials left nothing behind). Hypothesis [wf_spec]: the
    parameters are encodable and the spec leaves the source connection ID to the library (typed,
    empty), as all built-in parrots do. *)
Theorem C02_dial_k_wire_scid : forall st ops1 scid o ops2 st' views,
  wf_spec st -> zlen scid <= maxVarInt8 ->
  run st (ops1 ++ ODial scid o :: ops2) = Some (st', views) ->
  exists w l,
    nth_error views (count_dials ops1) = Some (scid, w) /\
    wire_iscids w = Some l /\ Forall (eq scid) l /\
    vInitialSourceConnectionID (wView w) = scid /\
    (forall p, In p (sParams st) -> pid p = tpid_initialSourceConnectionID ->
               kept (sSup (edits st ops1)) tpid_initialSourceConnectionID -> l <> []) /\
    st' = edits st (ops1 ++ ODial scid o :: ops2).
Proof. exact dial_k_wire_scid. Qed.
Print Assumptions C02_dial_k_wire_scid.

(** (c) Dial after dial: the k-th dial of a history is exactly the FIRST dial of the spec as the
    caller wrote it (with the caller's edits so far) -- same wire, same own view, spec unchanged.
    In this value-level model "spec unchanged" holds by construction of [dial]; that the code's
    writes really go to objects of the connection's own is C02_dial_leaves_spec_objects below. *)
Theorem C02_redial_as_first : forall ops1 st scid o ops2 st' views,
  run st (ops1 ++ ODial scid o :: ops2) = Some (st', views) ->
  exists w, dial (edits st ops1) scid o = Some (edits st ops1, w) /\
            nth_error views (count_dials ops1) = Some (scid, w) /\
            st' = edits st (ops1 ++ ODial scid o :: ops2).
Proof. exact run_split. Qed.
Print Assumptions C02_redial_as_first.

(** (c) Every dial sends the key shares generated for it and holds their private keys; the
    server name is the spec's, or this dial's tls.Config.ServerName when the spec leaves it empty. *)
Theorem C02_dial_k_fresh_keys : forall st ops1 scid o ops2 st' views,
  Forall wants_key (sKeys st) -> length (oFresh o) = length (sKeys st) ->
  run st (ops1 ++ ODial scid o :: ops2) = Some (st', views) ->
  exists w, nth_error views (count_dials ops1) = Some (scid, w) /\
    map kData (wKeys w) = oFresh o /\ map kGroup (wKeys w) = map kGroup (sKeys st) /\
    Forall (eq true) (wHeld w) /\
    wSNI w = pick_sni (sSNI st) (oName o).
Proof. exact dial_k_fresh_keys. Qed.
Print Assumptions C02_dial_k_fresh_keys.

(** Suppress / shuffle applied to a list that already went through them (TransportParamIDs()
    before a dial, or a caller who passes a dialled list on) yields the same multiset -- the same
    list when nothing is shuffled -- and suppression alone changes nothing any more. *)
Theorem C02_dial_idempotent_params : forall sup rnd js1 js2 ps,
  Permutation (dial_list sup rnd js2 (dial_list sup rnd js1 ps)) (dial_list sup rnd js1 ps) /\
  (rnd = false -> dial_list sup rnd js2 (dial_list sup rnd js1 ps) = dial_list sup rnd js1 ps) /\
  suppress sup (dial_list sup rnd js1 ps) = dial_list sup rnd js1 ps.
Proof. exact dial_list_idem. Qed.
Print Assumptions C02_dial_idempotent_params.

(** (d) UTransport with a nil QUICSpec builds exactly the plain Transport's connection -- BY
    CONSTRUCTION of the model: u_dial follows UTransport.dial/doDial statement by statement, and
    with spec = nil every spec-dependent statement is skipped, which leaves the statements of
    Transport.dial/doDial. The proof is a computation; clause (d) is carried by the NilSpec
    correspondence cases and the simdial differential, not by this statement. *)
Theorem C02_nil_spec_by_construction : forall e, u_dial e None = plain_dial e.
Proof. exact nil_spec_is_plain. Qed.
Print Assumptions C02_nil_spec_by_construction.

(** The code before the repair (legacy_dial: the same steps on the spec's OWN extension
    objects): whatever the second dial's inputs, its extension 57 is byte for byte the first
    dial's ... *)
Theorem C02_legacy_wire_frozen : forall st s1 o1 st1 w1 s2 o2 st2 w2,
  legacy_dial st s1 o1 = Some (st1, w1) -> legacy_dial st1 s2 o2 = Some (st2, w2) ->
  wExt w2 = wExt w1.
Proof. exact legacy_frozen. Qed.
Print Assumptions C02_legacy_wire_frozen.

(** ... so C02_dial_k_wire_scid fails for k = 2 there (witness: a Firefox-shaped list, 3-byte
    source connection IDs 010203 then 040506; the second ClientHello still says 010203), the
    second dial sends the first dial's key share and holds no private key for it. *)
Theorem C02_legacy_dial_k_wire_scid_refuted :
  wf_spec ex_spec /\ Forall wants_key (sKeys ex_spec) /\
  exists st' w1 w2,
    legacy_run ex_spec [ODial [1; 2; 3] ex_o1; ODial [4; 5; 6] ex_o2] = Some (st', [([1; 2; 3], w1); ([4; 5; 6], w2)]) /\
    wire_iscids w2 = Some [[1; 2; 3]] /\
    vInitialSourceConnectionID (wView w2) = [1; 2; 3] /\
    map kData (wKeys w2) = oFresh ex_o1 /\ wHeld w2 = [false] /\
    wSNI w2 = oName ex_o1.
Proof. exact legacy_refuted_witness. Qed.
Print Assumptions C02_legacy_dial_k_wire_scid_refuted.

(** Non-vacuity: the same history on the repaired dial satisfies every hypothesis above and
    gives the right answers. *)
Example C02_ex_history :
  wf_spec ex_spec /\ Forall wants_key (sKeys ex_spec) /\
  exists w1 w2,
    run ex_spec ([ODial [1; 2; 3] ex_o1; OSetSup [14]] ++ ODial [4; 5; 6] ex_o2 :: []) =
      Some (set_sup ex_spec [14], [([1; 2; 3], w1); ([4; 5; 6], w2)]) /\
    wire_iscids w1 = Some [[1; 2; 3]] /\ wire_iscids w2 = Some [[4; 5; 6]] /\
    parse (wExt w2) = Some [(1, [128; 0; 117; 48]); (15, [4; 5; 6]); (4, [129; 128; 0; 0])] /\
    map kData (wKeys w2) = oFresh ex_o2 /\ wHeld w2 = [true] /\ wSNI w2 = oName ex_o2.
Proof. exact ex_history. Qed.
Print Assumptions C02_ex_history.

(** (b) Initial CRYPTO under loss (model UDial.Retx of retransmissionQueue + maybeGetCryptoPacket
    + MarshalInitialPacketPayload, after fixes/C02-initial-retx-as-packed.patch). What one packing
    call takes out of the retransmission queue is, byte for byte, what the queue loses (the ranges
    re-sent are the ranges lost) ... *)
Theorem C02_initial_retx_resent_is_lost : forall popped q q',
  pop_check q popped = Some q' -> forall b, covers b q <-> covers b popped \/ covers b q'.
Proof. exact pop_check_covers. Qed.
Print Assumptions C02_initial_retx_resent_is_lost.

(** ... no packing call, loss or acknowledgement ends in an error, whatever the builder, the
    layout, the ranges taken -- BY CONSTRUCTION: the model of the repaired MarshalInitialPacketPayload
    has no error branch left (the old one is C02_initial_retx_legacy_error_iff); that the code has
    none is what the Retx correspondence (result of every packing call) and the monitors check ... *)
Theorem C02_initial_retx_never_errors_by_construction : forall planned layout st o st' res,
  rstep planned layout st o = Some (st', res) -> is_err res = false.
Proof. exact rstep_never_errors. Qed.
Print Assumptions C02_initial_retx_never_errors_by_construction.

(** ... and for EVERY history of losses, acknowledgements and packing calls no result is an
    error and every ClientHello byte the first flight carried is still acknowledged, outstanding
    or queued. *)
Theorem C02_initial_retx_complete : forall planned layout flight n ops st' rs,
  (forall b, 0 <= b < n -> covers b (flat_map snd flight)) ->
  rrun planned layout (RS flight [] []) ops = Some (st', rs) ->
  existsb is_err rs = false /\ forall b, 0 <= b < n -> covers b (all_ranges st').
Proof. exact flight_stays_covered. Qed.
Print Assumptions C02_initial_retx_complete.

(** The decision of MarshalInitialPacketPayload, both directions: the spec's frame builder is
    consulted exactly for ONE contiguous, non-empty slice of the ClientHello which a QUICFrames
    layout fits, outside a planned flight -- hence never for a PING-only probe, a retransmission
    with a gap, a slice shorter than the layout, or after a planned flight. (A characterisation of
    [marshal_path], the transcription of cryptoFramesFormOneRange / quicFramesLayoutFits; the tie
    is the path check of the Retx correspondence.) *)
Theorem C02_initial_retx_builder_precondition : forall planned layout frames,
  marshal_path planned layout frames = Reframed <->
  planned = false /\ 0 < total_len frames /\ contiguous frames = true /\
  match layout with Some l => layout_fits l (total_len frames) = true | None => True end.
Proof. exact reframed_iff. Qed.
Print Assumptions C02_initial_retx_builder_precondition.

(** Before the repair (legacy_rstep) a packing call erred exactly when no flight builder planned
    the flight and the ranges taken were not contiguous ... *)
Theorem C02_initial_retx_legacy_error_iff : forall planned st probe ping before popped after asp r0 st' res,
  legacy_rstep planned st (RPack probe ping before popped after asp r0) = Some (st', res) ->
  (is_err res = true <-> planned = false /\ popped <> [] /\ contiguous popped = false).
Proof. exact legacy_rstep_error_iff. Qed.
Print Assumptions C02_initial_retx_legacy_error_iff.

(** ... reachable with three Initial datagrams of 300 CRYPTO bytes, the middle one acknowledged,
    the outer two lost together (byte 0 was then accounted for nowhere). *)
Theorem C02_initial_retx_legacy_refuted :
  (forall b, 0 <= b < 900 -> covers b (flat_map snd ex_flight)) /\
  exists st', legacy_rrun false (RS ex_flight [] []) ex_ops = Some (st', [RNone; RNone; RNone; RErr 1]) /\
              ~ covers 0 (all_ranges st').
Proof. exact legacy_retx_error_reachable. Qed.
Print Assumptions C02_initial_retx_legacy_refuted.

(** Regression: the same history now yields one packet carrying both ranges as the packer
    selected them, every byte accounted for. *)
Example C02_ex_retx_witness_handled :
  marshal_path false None [(0, 300); (600, 300)] = AsPacked /\
  exists st', rrun false None (RS ex_flight [] []) ex_ops = Some (st', [RNone; RNone; RNone; RPkt 3 [(0, 300); (600, 300)]]) /\
              forall b, 0 <= b < 900 -> covers b (all_ranges st').
Proof. exact retx_witness_handled. Qed.
Print Assumptions C02_ex_retx_witness_handled.

(** Non-vacuity of the builder precondition: a layout cutting at offset 35 is not applied to 5
    left-over bytes nor to an empty probe, it is applied to a 1200-byte slice. *)
Example C02_ex_layouts :
  let l := [LCrypto 35 0; LOther; LCrypto 0 35] in
  marshal_path false (Some l) [(2475, 5)] = AsPacked /\
  marshal_path false (Some l) [] = AsPacked /\
  marshal_path false (Some l) [(0, 700); (700, 500)] = Reframed /\
  marshal_path true (Some l) [(0, 700)] = AsPacked.
Proof. exact layout_examples. Qed.
Print Assumptions C02_ex_layouts.

(** (c) Registration (model UDial.Reg of doDial's handler-map registration, ReplaceWithClosed with
    its guarded expiry, Remove). A dial is accepted unless the source connection ID belongs to a
    connection that is still OPEN -- whatever closed connections left behind (closed-connection
    entries, armed timers) never makes it fail ... *)
Theorem C02_dial_accepted_unless_open : forall st k id,
  snd (rgdial st k id) = true <-> (forall j, route st id <> Some (Live j)).
Proof. exact dial_accepted_unless_open. Qed.
Print Assumptions C02_dial_accepted_unless_open.

(** ... and an accepted dial k owns its ID: from ANY earlier state of the map, through ANY later
    sequence of enabled operations -- other dials under the same ID (refused), closes and destroys
    of other connections, every timer expiry -- packets with that ID are routed to connection k,
    until connection k itself is closed or destroyed. (Enabled: a connection is closed or destroyed
    only while it is the open connection registered under its ID.) A refused dial changes nothing
    and leaves the open connection its entry. *)
Theorem C02_redial_registered : forall ops st k id,
  snd (rgdial st k id) = true ->
  wf_run (fst (rgdial st k id)) ops = true ->
  Forall (not_own_end k id) ops ->
  route (rgrun (fst (rgdial st k id)) ops) id = Some (Live k).
Proof. exact redial_registered. Qed.
Print Assumptions C02_redial_registered.

Theorem C02_dial_result : forall st k id,
  (snd (rgdial st k id) = true -> route (fst (rgdial st k id)) id = Some (Live k)) /\
  (snd (rgdial st k id) = false -> fst (rgdial st k id) = st /\ exists j, route st id = Some (Live j)).
Proof. exact rgdial_result. Qed.
Print Assumptions C02_dial_result.

Example C02_ex_redial_history :
  let st := rgrun (RG [] []) [RgDial 1 0; RgClose 1 0] in
  let ops := [RgExpire 1 0; RgDial 3 0; RgDial 4 7; RgClose 4 7] in
  snd (rgdial st 2 0) = true /\ wf_run (fst (rgdial st 2 0)) ops = true /\
  Forall (not_own_end 2 0) ops /\ route (rgrun (fst (rgdial st 2 0)) ops) 0 = Some (Live 2).
Proof. exact redial_history_ok. Qed.
Print Assumptions C02_ex_redial_history.

(** Regression: before fixes/C02-empty-scid-one-open-connection.patch a dial overwrote the entry of
    an OPEN connection with the same (zero-length) ID; the end of that connection then cut the
    new one off as well. *)
Example C02_ex_overlap_refuted :
  let st1 := rgstep (RG [] []) (RgDial 1 0) in
  let st2 := overwrite_dial st1 2 0 in
  route st2 0 = Some (Live 2) /\
  route (rgstep st2 (RgDestroy 1 0)) 0 = None /\
  route (rgstep st2 (RgClose 1 0)) 0 = Some (Tomb 1) /\
  rgdial st1 2 0 = (st1, false) /\ route st1 0 = Some (Live 1).
Proof. exact overlap_refuted. Qed.
Print Assumptions C02_ex_overlap_refuted.

(** A gracefully closed connection's entry goes away when ITS timer fires (no leak), from any
    state, whatever happens under other IDs and whichever other timers fire in between. *)
Theorem C02_tombstone_expires : forall ops st k id,
  Forall (elsewhere id) ops ->
  route (rgstep (rgrun (rgstep st (RgClose k id)) ops) (RgExpire k id)) id = None.
Proof. exact tombstone_expires_reachable. Qed.
Print Assumptions C02_tombstone_expires.

(** Regressions: on the history dial 1, close 1, dial 2 (same ID, e.g. the empty one) the timer
    of connection 1 left dial 2 unrouted before cbbefc3 (unconditional delete), and a registration
    through packetHandlerMap.Add (seeded change C02-f) leaves dial 2's packets with connection 1's
    closed-connection entry; the code as it is keeps dial 2. *)
Example C02_ex_legacy_expire_refuted :
  let st := rgrun (RG [] []) [RgDial 1 0; RgClose 1 0; RgDial 2 0] in
  route st 0 = Some (Live 2) /\ route (legacy_expire st 1 0) 0 = None /\
  route (rgstep st (RgExpire 1 0)) 0 = Some (Live 2).
Proof. exact legacy_expire_refuted. Qed.
Print Assumptions C02_ex_legacy_expire_refuted.

Example C02_ex_add_dial_refuted :
  let st := rgrun (RG [] []) [RgDial 1 0; RgClose 1 0] in
  route (add_dial st 2 0) 0 = Some (Tomb 1) /\
  route (rgstep (add_dial st 2 0) (RgExpire 1 0)) 0 = None /\
  route (rgstep st (RgDial 2 0)) 0 = Some (Live 2).
Proof. exact add_dial_refuted. Qed.
Print Assumptions C02_ex_add_dial_refuted.

(** (b) A spec-driven Initial packet that carries frames (a retransmission, a PING probe) shares
    its datagram with nothing, whether or not Handshake data is ready (PackCoalescedPacket after
    fixes/C02-spec-initial-travels-alone.patch); before, the Handshake packet was put behind it.
    BY CONSTRUCTION: [coalesced_count] is the transcription of that decision; the tie is the
    RCoalesce correspondence (number of packets in the real datagram). *)
Theorem C02_spec_initial_travels_alone_by_construction : forall frames ping hs,
  frames <> [] \/ ping = true -> coalesced_count frames ping hs = 1.
Proof. exact spec_initial_travels_alone. Qed.
Print Assumptions C02_spec_initial_travels_alone_by_construction.

Example C02_ex_legacy_coalesced :
  legacy_coalesced_count [(0, 300)] false true = 2 /\ coalesced_count [(0, 300)] false true = 1.
Proof. exact legacy_coalesced. Qed.
Print Assumptions C02_ex_legacy_coalesced.

(** (c) The ClientHelloSpec as objects (model UDial.Heap): uTLS and the connection set-up write into
    the extension objects they are handed (transport parameter list and byte cache, key shares,
    server name); the repaired newUClientConnection hands them objects it allocated itself
    (dialClientHelloSpec). Every object that existed before the dial -- the spec's own, shared
    ones included -- is the same afterwards ... *)
Theorem C02_dial_leaves_spec_objects : forall sup rnd scid o h exts h2 own,
  heap_dial sup rnd scid o h exts = Some (h2, own) ->
  forall b, (b < length h)%nat -> hget h2 b = hget h b.
Proof. exact heap_dial_leaves_old. Qed.
Print Assumptions C02_dial_leaves_spec_objects.

(** ... the connection's own transport parameter object holds exactly what the value-level model
    UDial.Model.dial puts on the wire (so the theorems above speak about this dial) ... *)
Theorem C02_dial_heap_wire : forall sup rnd scid o ps cache h2 own,
  heap_dial sup rnd scid o [OTP ps cache] [0%nat] = Some (h2, own) ->
  exists v ps' ov, USpec.Model.dial sup rnd (oJs o) scid ps = Some (v, ps', ov) /\
    own = [1%nat] /\ hget h2 1 = OTP ps' (Some (marshal ps')) /\ hget h2 0 = OTP ps cache.
Proof. exact heap_dial_wire. Qed.
Print Assumptions C02_dial_heap_wire.

(** ... whereas before the repair the spec's own object was rewritten and its bytes cached. *)
Theorem C02_legacy_dial_writes_spec_object : forall sup rnd scid o ps h2 own,
  legacy_heap_dial sup rnd scid o [OTP ps None] [0%nat] = Some (h2, own) ->
  exists v ps' ov, USpec.Model.dial sup rnd (oJs o) scid ps = Some (v, ps', ov) /\
    hget h2 0 = OTP ps' (Some (marshal ps')).
Proof. exact legacy_heap_dial_writes_spec. Qed.
Print Assumptions C02_legacy_dial_writes_spec_object.
