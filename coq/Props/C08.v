(** C08 — wire codecs: total, consistent with length predictions, round-trip.
    Only statements live here; each is closed by [exact] of a lemma proved elsewhere. *)
From Coq Require Import List ZArith.
From V Require Import Gen.Params Wire.Varint Wire.VarintProofs.
Import ListNotations.
Open Scope Z_scope.

(** Every encodable varint parses back to itself, consuming exactly its predicted length,
    whatever follows it. *)
Theorem C08_varint_roundtrip : forall v rest, 0 <= v <= maxVarInt8 ->
  vparse (vappend v ++ rest) = inr (v, vlen v, rest).
Proof. exact vparse_vappend. Qed.
Print Assumptions C08_varint_roundtrip.

Theorem C08_varint_length : forall v, 0 <= v <= maxVarInt8 ->
  Z.of_nat (length (vappend v)) = vlen v.
Proof. exact vappend_length. Qed.
Print Assumptions C08_varint_length.

(* ==== headers ==== *)
(** Packet headers (coq/Wire/Headers.v mirrors internal/wire/header.go, extended_header.go,
    short_header.go, version_negotiation.go).  [append_ext e v] is ExtendedHeader.Append with the
    version argument v, [parse_header] is parseHeader (what ParsePacket runs), [parse_extended] is
    Header.ParseExtended; results carry the error class (0 = nil). *)
From V Require Import Lib.Hex Wire.Headers Wire.HeadersProofs.

(** Initial / Handshake / 0-RTT headers of version 1 and 2: whatever follows the header, parseHeader
    returns the fields Append was given (the token only for Initial), reports |Append| minus the packet
    number bytes as parsed, and ParseExtended recovers the packet number length and the packet number
    modulo 2^(8*pnLen), reports exactly |Append| bytes, and finds the reserved bits zero. *)
Theorem C08_longhdr_roundtrip : forall e v payload,
  hVersion (eHdr e) = v -> (v = H_Version1 \/ v = H_Version2) ->
  (hType (eHdr e) = H_PacketTypeInitial \/ hType (eHdr e) = H_PacketTypeHandshake \/ hType (eHdr e) = H_PacketType0RTT) ->
  zlen (hDst (eHdr e)) <= W_MaxConnIDLen -> zlen (hSrc (eHdr e)) <= W_MaxConnIDLen ->
  0 <= hLength (eHdr e) <= maxVarInt2 -> 1 <= ePnLen e <= 4 -> zlen (hToken (eHdr e)) <= maxVarInt8 ->
  exists enc, append_ext e v = (0, enc) /\
    let fb := 192 + 16 * type_code v (hType (eHdr e)) + (ePnLen e - 1) in
    let h' := mkHeader fb (hType (eHdr e)) v (hSrc (eHdr e)) (hDst (eHdr e)) (hLength (eHdr e))
                (if hType (eHdr e) =? H_PacketTypeInitial then hToken (eHdr e) else []) (zlen enc - ePnLen e) in
    parse_header (enc ++ payload) = Some (h', 0) /\
    parse_extended h' (enc ++ payload) = (0, Some (mkExt h' fb (ePnLen e) (ePn e mod 2 ^ (8 * ePnLen e)) (zlen enc))).
Proof. exact longhdr_roundtrip_full. Qed.
Print Assumptions C08_longhdr_roundtrip.

Theorem C08_longhdr_length : forall e v,
  hVersion (eHdr e) = v -> (v = H_Version1 \/ v = H_Version2) ->
  (hType (eHdr e) = H_PacketTypeInitial \/ hType (eHdr e) = H_PacketTypeHandshake \/ hType (eHdr e) = H_PacketType0RTT) ->
  zlen (hDst (eHdr e)) <= W_MaxConnIDLen -> zlen (hSrc (eHdr e)) <= W_MaxConnIDLen ->
  0 <= hLength (eHdr e) <= maxVarInt2 -> 1 <= ePnLen e <= 4 -> zlen (hToken (eHdr e)) <= maxVarInt8 ->
  exists enc, append_ext e v = (0, enc) /\ zlen enc = get_length e.
Proof. exact longhdr_length_full. Qed.
Print Assumptions C08_longhdr_length.

(** Retry (Append writes no integrity tag): with any 16 bytes behind it the header parses back,
    the token being everything but those 16 bytes; the whole packet is reported as parsed. *)
Theorem C08_retry_roundtrip : forall e v tag,
  hVersion (eHdr e) = v -> (v = H_Version1 \/ v = H_Version2) -> hType (eHdr e) = H_PacketTypeRetry ->
  zlen (hDst (eHdr e)) <= W_MaxConnIDLen -> zlen (hSrc (eHdr e)) <= W_MaxConnIDLen ->
  0 < zlen (hToken (eHdr e)) -> zlen tag = 16 ->
  exists enc, append_ext e v = (0, enc) /\
    parse_header (enc ++ tag)
    = Some (mkHeader (192 + 16 * type_code v H_PacketTypeRetry) H_PacketTypeRetry v (hSrc (eHdr e)) (hDst (eHdr e)) 0
                     (hToken (eHdr e)) (zlen enc + 16), 0).
Proof. exact retry_roundtrip. Qed.
Print Assumptions C08_retry_roundtrip.

(** Short header: round trip, predicted length, exact consumed length. *)
Theorem C08_shorthdr_roundtrip : forall cid pn pnLen kp payload,
  1 <= pnLen <= 4 -> (kp = H_KeyPhaseZero \/ kp = H_KeyPhaseOne) ->
  exists enc, append_short cid pn pnLen kp = (0, enc) /\
    zlen enc = short_header_len cid pnLen /\
    parse_short (enc ++ payload) (zlen cid) = (0, (zlen enc, pn mod 2 ^ (8 * pnLen), pnLen, kp)).
Proof. exact shorthdr_roundtrip. Qed.
Print Assumptions C08_shorthdr_roundtrip.

(** Version Negotiation: every composed packet (any random first byte, connection IDs up to 255 bytes,
    non-empty list of 32-bit versions) parses back to the same connection IDs and version list. *)
Theorem C08_vneg_roundtrip : forall rnd dst src gv,
  zlen dst <= 255 -> zlen src <= 255 -> gv <> [] -> Forall (fun v => 0 <= v < 2 ^ 32) gv ->
  parse_vneg (compose_vneg rnd dst src gv) = (0, dst, src, gv).
Proof. exact vneg_roundtrip. Qed.
Print Assumptions C08_vneg_roundtrip.

(** ... in particular with the list GetGreasedVersions builds, wherever the reserved version lands. *)
Theorem C08_vneg_greased_roundtrip : forall rnd dst src pos rv versions,
  zlen dst <= 255 -> zlen src <= 255 -> 0 <= rv < 2 ^ 32 -> Forall (fun v => 0 <= v < 2 ^ 32) versions ->
  parse_vneg (compose_vneg rnd dst src (greased pos rv versions)) = (0, dst, src, greased pos rv versions).
Proof. exact vneg_greased_roundtrip. Qed.
Print Assumptions C08_vneg_greased_roundtrip.

(** ParseConnectionID agrees with the full parsers on the destination connection ID. *)
Theorem C08_parse_connid_long : forall b h e k,
  parse_header b = Some (h, e) -> (e = 0 \/ e = E_Unsupported) -> is_long (hd 0 b) = true ->
  parse_connection_id b k = (0, hDst h).
Proof. exact connid_long. Qed.
Print Assumptions C08_parse_connid_long.

Theorem C08_parse_connid_short : forall data k c l pn pnLen kp,
  parse_short data k = (c, (l, pn, pnLen, kp)) -> (c = 0 \/ c = E_Reserved) -> 0 <= k <= W_MaxConnIDLen ->
  parse_connection_id data k = (0, zfirstn k (tl data)).
Proof. exact connid_short. Qed.
Print Assumptions C08_parse_connid_short.

(** Connection IDs longer than 20 bytes are rejected in long headers: an accepted header (nil error or
    unsupported version) has both connection IDs within the limit, and a destination connection ID
    length byte above 20 makes parseHeader, ParsePacket and ParseConnectionID fail. *)
Theorem C08_reject_cid_len : forall b h e,
  parse_header b = Some (h, e) -> (e = 0 \/ e = E_Unsupported) ->
  zlen (hDst h) <= 20 /\ zlen (hSrc h) <= 20.
Proof. exact accepted_cid_lens. Qed.
Print Assumptions C08_reject_cid_len.

Theorem C08_reject_cid_len_dst : forall b k,
  6 <= zlen b -> is_long (hd 0 b) = true -> nth 5 b 0 > 20 ->
  (exists h e, parse_header b = Some (h, e) /\ (e = E_NotQUIC \/ e = E_CIDLen)) /\
  (exists pcls, parse_packet b = (pcls, None, [], []) /\ (pcls = E_NotQUIC \/ pcls = E_CIDLen)) /\
  parse_connection_id b k = (E_CIDLen, []).
Proof. exact reject_dst_cid_len. Qed.
Print Assumptions C08_reject_cid_len_dst.

(** Consumed lengths never exceed the input; ParsePacket cuts the input at ParsedLen + Length. *)
Theorem C08_longhdr_consumed : forall b h e,
  parse_header b = Some (h, e) -> (e = 0 \/ e = E_Unsupported) -> 1 <= hParsedLen h <= zlen b.
Proof. exact parse_header_consumed. Qed.
Print Assumptions C08_longhdr_consumed.

Theorem C08_parse_packet_consumed : forall b h pkt rest,
  parse_packet b = (0, Some h, pkt, rest) ->
  parse_header b = Some (h, 0) /\ pkt ++ rest = b /\
  hParsedLen h + hLength h <= zlen b /\ (0 <= hLength h -> zlen pkt = hParsedLen h + hLength h).
Proof. exact parse_packet_consumed. Qed.
Print Assumptions C08_parse_packet_consumed.

Theorem C08_exthdr_consumed : forall h data c e,
  parse_extended h data = (c, Some e) -> 0 <= hParsedLen h ->
  (c = 0 \/ c = E_Reserved) /\ eHdr e = h /\ 1 <= ePnLen e <= 4 /\
  eParsedLen e = hParsedLen h + ePnLen e /\ eParsedLen e <= zlen data.
Proof. exact parse_extended_consumed. Qed.
Print Assumptions C08_exthdr_consumed.

Theorem C08_shorthdr_consumed : forall data k c l pn pnLen kp,
  parse_short data k = (c, (l, pn, pnLen, kp)) -> (c = 0 \/ c = E_Reserved) ->
  l = 1 + k + pnLen /\ 1 <= pnLen <= 4 /\ l <= zlen data /\ (kp = H_KeyPhaseZero \/ kp = H_KeyPhaseOne).
Proof. exact parse_short_consumed. Qed.
Print Assumptions C08_shorthdr_consumed.

(** parse -> Append -> parse is a fixpoint: a long header with a packet number parsed from ANY byte string
    (Length small enough for the 2-byte field Append writes; reserved bits may be set) is written by Append
    in GetLength bytes and parses back to the same fields, packet number and packet number length. *)
Theorem C08_longhdr_reencode : forall b h c x payload,
  Forall (fun y => 0 <= y < 256) b -> zlen b <= maxVarInt8 ->
  parse_header b = Some (h, 0) ->
  (hType h = H_PacketTypeInitial \/ hType h = H_PacketTypeHandshake \/ hType h = H_PacketType0RTT) ->
  hLength h <= maxVarInt2 ->
  parse_extended h b = (c, Some x) ->
  exists enc, append_ext x (hVersion h) = (0, enc) /\ zlen enc = get_length x /\
    let fb := 192 + 16 * type_code (hVersion h) (hType (eHdr x)) + (ePnLen x - 1) in
    let h2 := mkHeader fb (hType h) (hVersion h) (hSrc h) (hDst h) (hLength h) (hToken h) (zlen enc - ePnLen x) in
    parse_header (enc ++ payload) = Some (h2, 0) /\
    parse_extended h2 (enc ++ payload) = (0, Some (mkExt h2 fb (ePnLen x) (ePn x) (zlen enc))).
Proof. exact longhdr_reencode. Qed.
Print Assumptions C08_longhdr_reencode.

(** Is0RTTPacket (used before the header is parsed) agrees with the parsed packet type. *)
Theorem C08_is0rtt_agrees : forall b h,
  parse_header b = Some (h, 0) -> is_long (hd 0 b) = true -> is_0rtt b = (hType h =? H_PacketType0RTT).
Proof. exact is_0rtt_agrees. Qed.
Print Assumptions C08_is0rtt_agrees.

(** Non-vacuity: a version 2 Initial with a token, 3-byte packet number and Length 16383 satisfies the
    hypotheses of the round trip, and the model computes on it. *)
Example C08_longhdr_nonvacuous :
  let e := mkExt (mkHeader 0 H_PacketTypeInitial H_Version2 [1; 2; 3] [4; 5; 6; 7; 8; 9; 10; 11] 16383 [170; 187] 0) 0 3 16909060 0 in
  (hVersion (eHdr e) = H_Version2 /\ zlen (hDst (eHdr e)) <= W_MaxConnIDLen /\ 0 <= hLength (eHdr e) <= maxVarInt2) /\
  append_ext e H_Version2
  = (0, [210; 107; 51; 67; 207; 8; 4; 5; 6; 7; 8; 9; 10; 11; 3; 1; 2; 3; 2; 170; 187; 127; 255; 2; 3; 4]) /\
  get_length e = 26 /\
  (let '(_, h, pkt, rest) := parse_packet (snd (append_ext e H_Version2) ++ [9; 9; 9]) in h) = None /\
  parse_header (snd (append_ext e H_Version2) ++ [9])
  = Some (mkHeader 210 H_PacketTypeInitial H_Version2 [1; 2; 3] [4; 5; 6; 7; 8; 9; 10; 11] 16383 [170; 187] 23, 0).
Proof. vm_compute. repeat split; congruence. Qed.
Print Assumptions C08_longhdr_nonvacuous.

(** ... and a byte string satisfying the hypotheses of the re-encoding theorem (Handshake, version 1,
    1-byte Length field, reserved bits set). *)
Example C08_reencode_nonvacuous :
  let b := [236; 0; 0; 0; 1; 1; 7; 0; 5; 1; 2; 3; 4; 5] in
  match parse_header b with
  | Some (h, 0) =>
    hType h = H_PacketTypeHandshake /\ hLength h = 5 /\
    match parse_extended h b with
    | (c, Some x) => c = E_Reserved /\ ePn x = 1 /\ ePnLen x = 1 /\
                     append_ext x (hVersion h) = (0, [224; 0; 0; 0; 1; 1; 7; 0; 64; 5; 1])
    | _ => False
    end
  | _ => False
  end.
Proof. vm_compute. repeat split; reflexivity. Qed.
Print Assumptions C08_reencode_nonvacuous.

Example C08_vneg_nonvacuous :
  parse_vneg (compose_vneg 37 [1; 2] [3] (greased 1 439041101 [1; 1798521807]))
  = (0, [1; 2], [3], [1; 439041101; 1798521807]) /\
  parse_connection_id [192; 0; 0; 0; 1; 21] 0 = (E_CIDLen, []).
Proof. vm_compute. split; reflexivity. Qed.
Print Assumptions C08_vneg_nonvacuous.
(* ==== end headers ==== *)
