(** C08 — wire codecs: total, consistent with length predictions, round-trip.
    Only statements live here; each is closed by [exact] of a lemma proved elsewhere. *)
From Coq Require Import List ZArith Bool Lia.
From V Require Import Gen.Params Lib.Hex Wire.Varint Wire.VarintProofs.
From V Require Import Wire.FramesBase Wire.FramesBaseProofs Wire.FramesCtl Wire.FramesCtlProofs Wire.FramesStream
  Wire.FramesStreamProofs Wire.FramesAck Wire.FramesAckProofs Wire.Frames Wire.FramesProofs
  Wire.FramesConsumedProofs Wire.FramesReencodeProofs.
Import ListNotations.
Open Scope Z_scope.

(** Every encodable varint parses back to itself, consuming exactly its predicted length,
    whatever follows it. *)
Theorem C08_varint_roundtrip : forall v rest, 0 <= v <= maxVarInt8 ->
  vparse (vappend v ++ rest) = inr (v, vlen v, rest).
Proof. exact vparse_vappend. Qed.
Print Assumptions C08_varint_roundtrip.

Theorem C08_varint_length : forall v, 0 <= v <= maxVarInt8 ->
  Z.of_nat (length (vappend v)) = vlen v.
Proof. exact vappend_length. Qed.
Print Assumptions C08_varint_length.

(* ==== frames ==== *)

(** Every well-formed frame of every kind (22 kinds), encoded by Append, is parsed back by the
    frame parser (ParseType + dispatch) at every encryption level that allows its type and with
    every parser configuration that knows its type: the value comes back (ACK: first 64 ranges,
    delay rescaled by the receiver's exponent; ACK_FREQUENCY: whole microseconds), the consumed
    count is exactly the encoded length, and the bytes that follow are untouched.  STREAM and
    DATAGRAM frames without a length field must be last. *)
Theorem C08_frame_roundtrip : forall c lvl f enc rest,
  wf_frame f -> append_frame f = Some enc ->
  type_valid c (frame_type f) = true -> type_allowed lvl (frame_type f) = true ->
  (self_delimiting f = false -> rest = []) ->
  parse_next c lvl (enc ++ rest) = Ok (norm c lvl f, zlen enc, rest).
Proof. exact frame_roundtrip. Qed.
Print Assumptions C08_frame_roundtrip.

(** Length() is the encoded length, for every frame kind. *)
Theorem C08_frame_length : forall f enc,
  wf_frame f -> append_frame f = Some enc -> zlen enc = length_frame f.
Proof. exact frame_length. Qed.
Print Assumptions C08_frame_length.

(** non-vacuity: a STREAM frame, an ACK with two ranges and ECN, a NEW_CONNECTION_ID *)
Example C08_frame_roundtrip_nonvacuous :
  wf_frame (FStream 4 1000 [1; 2; 3] true true) /\
  type_allowed 4 (frame_type (FStream 4 1000 [1; 2; 3] true true)) = true /\
  append_frame (FStream 4 1000 [1; 2; 3] true true) = Some [15; 4; 67; 232; 3; 1; 2; 3] /\
  wf_frame (FAck [(90, 100); (10, 20)] 16000 1 0 0) /\
  type_allowed 1 (frame_type (FAck [(90, 100); (10, 20)] 16000 1 0 0)) = true /\
  append_frame (FAck [(90, 100); (10, 20)] 16000 1 0 0) = Some [3; 64; 100; 2; 1; 10; 64; 68; 10; 1; 0; 0] /\
  wf_frame (FNewConnectionID 7 3 [1; 2; 3; 4] (repeat 9 16)) /\
  type_valid (Cfg false false false 3) (frame_type (FNewConnectionID 7 3 [1; 2; 3; 4] (repeat 9 16))) = true.
Proof. vm_compute. repeat split; try discriminate; auto. Qed.
Print Assumptions C08_frame_roundtrip_nonvacuous.

(** PADDING before a frame is skipped and counted in the consumed length. *)
Theorem C08_frame_padding : forall c lvl k b f n rest,
  parse_next c lvl b = Ok (f, n, rest) ->
  parse_next c lvl (repeat 0 k ++ b) = Ok (f, n + Z.of_nat k, rest).
Proof. exact parse_next_padding. Qed.
Print Assumptions C08_frame_padding.

(** The ACK delay: with the sender's exponent (3 = the default every level but 1-RTT uses) the
    delay comes back rounded down to a multiple of 8 microseconds; never larger, less than 8 µs smaller. *)
Theorem C08_ack_delay_quantised : forall d, 0 <= d <= maxInt64 ->
  ack_delay_ns (encode_ack_delay d) W_AckDelayExponent = d - d mod 8000.
Proof. exact ack_delay_quantised. Qed.
Print Assumptions C08_ack_delay_quantised.

(** Ranges a sender holds (descending, disjoint, non-adjacent) pass the receiver's validateAckRanges. *)
Theorem C08_ack_ranges_valid : forall ranges, wf_ranges ranges -> validate_ack_ranges ranges = true.
Proof. exact wf_ranges_validate. Qed.
Print Assumptions C08_ack_ranges_valid.

(** MaxDataLen: any amount of STREAM data up to MaxDataLen(maxSize) yields a frame of at most
    maxSize bytes (data lengths that fit a 2-byte varint, i.e. every real packet) ... *)
Theorem C08_maxdatalen_stream : forall sid off dlp maxSize data,
  vwf sid -> vwf off ->
  zlen data <= maxdatalen_stream sid off dlp maxSize -> zlen data <= maxVarInt2 ->
  0 < maxdatalen_stream sid off dlp maxSize ->
  length_stream sid off data dlp <= maxSize.
Proof. exact maxdatalen_stream_fits. Qed.
Print Assumptions C08_maxdatalen_stream.

(** ... and one byte more would not fit. *)
Theorem C08_maxdatalen_stream_maximal : forall sid off dlp maxSize data,
  0 <= maxSize -> 0 < stream_hdr_len sid off -> vwf (zlen data) ->
  maxdatalen_stream sid off dlp maxSize < zlen data ->
  maxSize < length_stream sid off data dlp.
Proof. exact maxdatalen_stream_maximal. Qed.
Print Assumptions C08_maxdatalen_stream_maximal.

Theorem C08_maxdatalen_crypto : forall off maxSize data,
  vwf off -> zlen data <= maxdatalen_crypto off maxSize -> zlen data <= maxVarInt2 ->
  0 < maxdatalen_crypto off maxSize -> length_crypto off data <= maxSize.
Proof. exact maxdatalen_crypto_fits. Qed.
Print Assumptions C08_maxdatalen_crypto.

Theorem C08_maxdatalen_datagram : forall dlp maxSize data,
  zlen data <= maxdatalen_datagram dlp maxSize -> zlen data <= maxVarInt2 ->
  0 < maxdatalen_datagram dlp maxSize -> length_datagram dlp data <= maxSize.
Proof. exact maxdatalen_datagram_fits. Qed.
Print Assumptions C08_maxdatalen_datagram.

(** Outside that domain the bound is false: MaxDataLen(16390) of a CRYPTO frame at offset 0
    allows 16386 bytes of data, which makes a 16392-byte frame. (Unreachable: packets are at most
    MaxPacketBufferSize = 1452 bytes. Replayed on the implementation by the harness.) *)
Theorem C08_maxdatalen_refuted_large : exists off maxSize, forall data,
  zlen data = maxdatalen_crypto off maxSize -> maxSize < length_crypto off data.
Proof. exact maxdatalen_crypto_refuted_large. Qed.
Print Assumptions C08_maxdatalen_refuted_large.

(** MaybeSplitOffFrame (STREAM): nothing changes when the frame fits or nothing fits; otherwise
    the two frames carry exactly the original byte range at the right offsets, FIN stays on the
    second, and the first fits into maxSize with at least one byte of data. *)
Theorem C08_split_stream : forall sid off data fin dlp maxSize,
  wf_stream sid off data fin -> 0 <= maxSize ->
  match split_stream sid off data fin dlp maxSize with
  | (None, false, f') => f' = FStream sid off data fin dlp /\ length_stream sid off data dlp <= maxSize
  | (None, true, f') => f' = FStream sid off data fin dlp /\ maxSize < length_stream sid off data dlp
                        /\ maxdatalen_stream sid off dlp maxSize = 0
  | (Some (FStream s1 o1 d1 fin1 l1), true, FStream s2 o2 d2 fin2 l2) =>
      s1 = sid /\ s2 = sid /\ o1 = off /\ o2 = off + zlen d1 /\ d1 ++ d2 = data
      /\ fin1 = false /\ fin2 = fin /\ l1 = dlp /\ l2 = dlp
      /\ 0 < zlen d1 < zlen data /\ length_stream sid off d1 dlp <= maxSize
  | _ => False
  end.
Proof. exact split_stream_spec. Qed.
Print Assumptions C08_split_stream.

Theorem C08_split_crypto : forall off data maxSize,
  wf_crypto off data -> zlen data <= maxVarInt2 -> 0 <= maxSize ->
  match split_crypto off data maxSize with
  | (None, false, f') => f' = FCrypto off data /\ length_crypto off data <= maxSize
  | (None, true, f') => f' = FCrypto off data /\ maxSize < length_crypto off data /\ maxdatalen_crypto off maxSize = 0
  | (Some (FCrypto o1 d1), true, FCrypto o2 d2) =>
      o1 = off /\ o2 = off + zlen d1 /\ d1 ++ d2 = data /\ 0 < zlen d1 < zlen data
      /\ length_crypto off d1 <= maxSize
  | _ => False
  end.
Proof. exact split_crypto_spec. Qed.
Print Assumptions C08_split_crypto.

(** Rejections.  Stream counts above 2^60 (MAX_STREAMS, STREAMS_BLOCKED): *)
Theorem C08_reject_stream_count : forall uni n rest,
  vwf n -> 2 ^ 60 < n ->
  parse_max_streams uni (vappend n ++ rest) = Err 13 0 /\ parse_streams_blocked uni (vappend n ++ rest) = Err 13 0.
Proof.
  intros uni n rest V L. rewrite <- max_stream_count_is_2_60 in L.
  split; [exact (reject_stream_count_max_streams uni n rest V L) | exact (reject_stream_count_streams_blocked uni n rest V L)].
Qed.
Print Assumptions C08_reject_stream_count.

(** RESET_STREAM_AT with a reliable size above the final size: *)
Theorem C08_reject_reliable_size : forall s e fs rs rest,
  vwf s -> vwf e -> vwf fs -> vwf rs -> fs < rs ->
  parse_reset_stream true (vappend s ++ vappend e ++ vappend fs ++ vappend rs ++ rest) = Err 14 0.
Proof. exact reject_reliable_size. Qed.
Print Assumptions C08_reject_reliable_size.

(** NEW_CONNECTION_ID with Retire Prior To above the sequence number: *)
Theorem C08_reject_retire_prior_to : forall s r rest,
  vwf s -> vwf r -> s < r -> parse_new_cid (vappend s ++ vappend r ++ rest) = Err 15 0.
Proof. exact reject_retire_prior_to. Qed.
Print Assumptions C08_reject_retire_prior_to.

(** NEW_CONNECTION_ID with a zero-length connection ID or one longer than 20 bytes: *)
Theorem C08_reject_cid_len : forall s r l rest,
  vwf s -> vwf r -> r <= s -> l = 0 \/ 20 < l ->
  exists e, (e = 16 \/ e = 17) /\ parse_new_cid (vappend s ++ vappend r ++ l :: rest) = Err e 0.
Proof. intros s r l rest Vs Vr Hle Hl. rewrite <- max_conn_id_len_is_20 in Hl. exact (reject_cid_len s r l rest Vs Vr Hle Hl). Qed.
Print Assumptions C08_reject_cid_len.

(** STREAM data that would end beyond offset 2^62-1: *)
Theorem C08_reject_stream_overflow : forall sid off data fin rest,
  vwf sid -> vwf off -> zlen data <= W_MaxPacketBufferSize -> W_MaxByteCount < off + zlen data ->
  parse_stream (stream_type off fin true) (body_stream sid off data true ++ rest) = Err 12 0.
Proof. exact reject_stream_overflow. Qed.
Print Assumptions C08_reject_stream_overflow.

(** ACK whose first range is longer than the largest acknowledged, or whose next range would
    start below zero (gap or length too large): *)
Theorem C08_reject_ack_first_range : forall ecn exp la d n ab rest,
  vwf la -> vwf d -> vwf n -> vwf ab -> la < ab ->
  parse_ack ecn exp (vappend la ++ vappend d ++ vappend n ++ vappend ab ++ rest) = Err 10 0.
Proof. exact reject_ack_first_range. Qed.
Print Assumptions C08_reject_ack_first_range.

Theorem C08_reject_ack_gap : forall ecn exp la d n ab gap rest,
  vwf la -> vwf d -> vwf n -> vwf ab -> vwf gap -> ab <= la -> 1 <= n -> la - ab < gap + 2 ->
  parse_ack ecn exp (vappend la ++ vappend d ++ vappend n ++ vappend ab ++ vappend gap ++ rest) = Err 11 0.
Proof. exact reject_ack_gap. Qed.
Print Assumptions C08_reject_ack_gap.

Theorem C08_reject_ack_range_len : forall ecn exp la d n ab gap len rest,
  vwf la -> vwf d -> vwf n -> vwf ab -> vwf gap -> vwf len -> ab <= la -> 1 <= n -> gap + 2 <= la - ab ->
  la - ab - gap - 2 < len ->
  parse_ack ecn exp (vappend la ++ vappend d ++ vappend n ++ vappend ab ++ vappend gap ++ vappend len ++ rest) = Err 11 0.
Proof. exact reject_ack_range_len. Qed.
Print Assumptions C08_reject_ack_range_len.

(** A frame type that is known but not allowed at the encryption level is refused before its
    body is looked at; an unknown type (or an extension that was not negotiated) likewise. *)
Theorem C08_reject_not_allowed : forall c lvl t body,
  vwf t -> t <> 0 -> type_valid c t = true -> type_allowed lvl t = false ->
  parse_next c lvl (vappend t ++ body) = Err 5 (vlen t).
Proof. exact reject_not_allowed. Qed.
Print Assumptions C08_reject_not_allowed.

Theorem C08_reject_unknown_type : forall c lvl t body,
  vwf t -> t <> 0 -> type_valid c t = false ->
  parse_next c lvl (vappend t ++ body) = Err 4 (vlen t).
Proof. exact reject_unknown_type. Qed.
Print Assumptions C08_reject_unknown_type.

(** The per-level allow-list (generated from isAllowedAtEncLevel): everything it allows RFC 9000
    table 3 allows, except HANDSHAKE_DONE at the 0-RTT level; Initial/Handshake allow exactly
    PING, ACK, CRYPTO and CONNECTION_CLOSE(0x1c). *)
Theorem C08_allow_list_within_rfc :
  forallb (fun lvl => forallb (fun t =>
     implb (type_allowed lvl t) (rfc9000_allowed lvl t || ((lvl =? 3) && (t =? 30)))) all_types) [1; 2; 3; 4] = true.
Proof. exact allow_list_within_rfc. Qed.
Print Assumptions C08_allow_list_within_rfc.

Theorem C08_allow_list_initial_handshake :
  forallb (fun lvl => forallb (fun t =>
     Bool.eqb (type_allowed lvl t) ((t =? 1) || (t =? 2) || (t =? 3) || (t =? 6) || (t =? 28))) all_types) [1; 2] = true.
Proof. exact allow_list_initial_handshake. Qed.
Print Assumptions C08_allow_list_initial_handshake.

(** FINDING (low): the faithful table accepts HANDSHAKE_DONE (0x1e) in 0-RTT packets. *)
Theorem C08_allow_list_0rtt_handshake_done_refuted :
  exists lvl t, rfc9000_allowed lvl t = false /\ type_allowed lvl t = true /\ type_valid (Cfg false false false 3) t = true.
Proof. exact allow_list_0rtt_handshake_done_refuted. Qed.
Print Assumptions C08_allow_list_0rtt_handshake_done_refuted.

(** Claim (a) on the model: a successful parse returns a genuine suffix of its input, reports
    exactly the number of bytes in front of it, consumes at least one byte and never more than
    the input has. *)
Theorem C08_frame_consumed : forall c lvl b f n rest,
  parse_next c lvl b = Ok (f, n, rest) ->
  suffix_of rest b /\ n = zlen b - zlen rest /\ 0 < n <= zlen b.
Proof. exact parse_next_consumed. Qed.
Print Assumptions C08_frame_consumed.

(** Whatever the parser accepts from a byte string (at one of the four levels) is a well-formed
    value — every range rule of wf_frame holds for it — and the type Append will write for it is
    known to the parser and allowed at that level. *)
Theorem C08_frame_parsed_wf : forall c lvl b f n rest,
  bytes b -> zlen b <= maxVarInt8 -> 1 <= lvl <= 4 ->
  parse_next c lvl b = Ok (f, n, rest) ->
  (forall enc, append_frame f = Some enc -> wf_frame f) /\
  type_valid c (frame_type f) = true /\ type_allowed lvl (frame_type f) = true.
Proof. exact parse_next_wf. Qed.
Print Assumptions C08_frame_parsed_wf.

(** Claim (c): parse -> append -> parse.  The re-encoding of anything that parsed is accepted
    again, consumed completely, and yields the normalised value ... *)
Theorem C08_frame_reencode : forall c lvl b f n rest enc,
  bytes b -> zlen b <= maxVarInt8 -> 1 <= lvl <= 4 ->
  parse_next c lvl b = Ok (f, n, rest) -> append_frame f = Some enc ->
  parse_next c lvl enc = Ok (norm c lvl f, zlen enc, []).
Proof. exact parse_reencode. Qed.
Print Assumptions C08_frame_reencode.

(** ... which is the value itself for every kind but ACK / ACK_FREQUENCY (whose delays are quantised). *)
Theorem C08_frame_reencode_fixpoint : forall c lvl b f n rest enc,
  bytes b -> zlen b <= maxVarInt8 -> 1 <= lvl <= 4 ->
  parse_next c lvl b = Ok (f, n, rest) -> append_frame f = Some enc ->
  (match f with FAck _ _ _ _ _ | FAckFrequency _ _ _ _ => False | _ => True end) ->
  parse_next c lvl enc = Ok (f, zlen enc, []).
Proof. exact parse_reencode_fixpoint. Qed.
Print Assumptions C08_frame_reencode_fixpoint.

Example C08_frame_reencode_nonvacuous :
  bytes [0; 0; 14; 4; 67; 232; 2; 7; 7; 1] /\
  parse_next (Cfg false false false 3) 4 [0; 0; 14; 4; 67; 232; 2; 7; 7; 1] = Ok (FStream 4 1000 [7; 7] false true, 9, [1]) /\
  append_frame (FStream 4 1000 [7; 7] false true) = Some [14; 4; 67; 232; 2; 7; 7].
Proof. split; [repeat constructor; unfold is_byte; lia | split; reflexivity]. Qed.
Print Assumptions C08_frame_reencode_nonvacuous.

(** AckFrame.Truncate(maxSize): what is left is a non-empty prefix of at most 64 ranges whose
    encoding fits into maxSize, provided the frame with the first range alone fits. *)
Theorem C08_ack_truncate : forall ranges delay e0 e1 ce maxSize,
  wf_ranges ranges ->
  length_ack (firstn 1 ranges) delay e0 e1 ce <= maxSize ->
  let t := truncate_ack ranges delay e0 e1 ce maxSize in
  t <> [] /\ (exists rest, ranges = t ++ rest) /\ (length t <= 64)%nat /\ length_ack t delay e0 e1 ce <= maxSize.
Proof. exact truncate_ack_fits. Qed.
Print Assumptions C08_ack_truncate.

(* ==== end frames ==== *)
