(** C08 — wire codecs: total, consistent with length predictions, round-trip.
    Only statements live here; each is closed by [exact] of a lemma proved elsewhere. *)
From Coq Require Import List ZArith Bool Lia.
From V Require Import Gen.Params Lib.Hex Wire.Varint Wire.VarintProofs.
From V Require Import Wire.FramesBase Wire.FramesBaseProofs Wire.FramesCtl Wire.FramesCtlProofs Wire.FramesStream
  Wire.FramesStreamProofs Wire.FramesAck Wire.FramesAckProofs Wire.Frames Wire.FramesProofs
  Wire.FramesConsumedProofs Wire.FramesReencodeProofs.
Import ListNotations.
Open Scope Z_scope.

(** Every encodable varint parses back to itself, consuming exactly its predicted length,
    whatever follows it. *)
Theorem C08_varint_roundtrip : forall v rest, 0 <= v <= maxVarInt8 ->
  vparse (vappend v ++ rest) = inr (v, vlen v, rest).
Proof. exact vparse_vappend. Qed.
Print Assumptions C08_varint_roundtrip.

Theorem C08_varint_length : forall v, 0 <= v <= maxVarInt8 ->
  Z.of_nat (length (vappend v)) = vlen v.
Proof. exact vappend_length. Qed.
Print Assumptions C08_varint_length.

(* ==== frames ==== *)

(** Every well-formed frame of every kind (22 kinds), encoded by Append, is parsed back by the
    frame parser (ParseType + dispatch) at every encryption level that allows its type and with
    every parser configuration that knows its type: the value comes back (ACK: first 64 ranges,
    delay rescaled by the receiver's exponent; ACK_FREQUENCY: whole microseconds), the consumed
    count is exactly the encoded length, and the bytes that follow are untouched.  STREAM and
    DATAGRAM frames without a length field must be last.
    ASSUMPTION inside wf_frame: STREAM data is at most MaxPacketBufferSize = 1452 bytes (pooled buffers).
    Above it the code does NOT round-trip: Append of 1453 bytes succeeds and ParseStreamFrame answers EOF,
    MaybeSplitOffFrame panics (slice bounds) — unreachable from the in-tree callers, which fill pooled buffers. *)
Theorem C08_frame_roundtrip : forall c lvl f enc rest,
  wf_frame f -> append_frame f = Some enc ->
  type_valid c (frame_type f) = true -> type_allowed lvl (frame_type f) = true ->
  (self_delimiting f = false -> rest = []) ->
  parse_next c lvl (enc ++ rest) = Ok (norm c lvl f, zlen enc, rest).
Proof. exact frame_roundtrip. Qed.
Print Assumptions C08_frame_roundtrip.

(** Length() is the encoded length, for every frame kind. *)
Theorem C08_frame_length : forall f enc,
  wf_frame f -> append_frame f = Some enc -> zlen enc = length_frame f.
Proof. exact frame_length. Qed.
Print Assumptions C08_frame_length.

(** non-vacuity: a STREAM frame, an ACK with two ranges and ECN, a NEW_CONNECTION_ID *)
Example C08_frame_roundtrip_nonvacuous :
  wf_frame (FStream 4 1000 [1; 2; 3] true true) /\
  type_allowed 4 (frame_type (FStream 4 1000 [1; 2; 3] true true)) = true /\
  append_frame (FStream 4 1000 [1; 2; 3] true true) = Some [15; 4; 67; 232; 3; 1; 2; 3] /\
  wf_frame (FAck [(90, 100); (10, 20)] 16000 1 0 0) /\
  type_allowed 1 (frame_type (FAck [(90, 100); (10, 20)] 16000 1 0 0)) = true /\
  append_frame (FAck [(90, 100); (10, 20)] 16000 1 0 0) = Some [3; 64; 100; 2; 1; 10; 64; 68; 10; 1; 0; 0] /\
  wf_frame (FNewConnectionID 7 3 [1; 2; 3; 4] (repeat 9 16)) /\
  type_valid (Cfg false false false 3) (frame_type (FNewConnectionID 7 3 [1; 2; 3; 4] (repeat 9 16))) = true.
Proof. vm_compute. repeat split; try discriminate; auto. Qed.
Print Assumptions C08_frame_roundtrip_nonvacuous.

(** PADDING before a frame is skipped and counted in the consumed length. *)
Theorem C08_frame_padding : forall c lvl k b f n rest,
  parse_next c lvl b = Ok (f, n, rest) ->
  parse_next c lvl (repeat 0 k ++ b) = Ok (f, n + Z.of_nat k, rest).
Proof. exact parse_next_padding. Qed.
Print Assumptions C08_frame_padding.

(** The ACK delay: with the sender's exponent (3 = the default every level but 1-RTT uses) the
    delay comes back rounded down to a multiple of 8 microseconds; never larger, less than 8 µs smaller. *)
Theorem C08_ack_delay_quantised : forall d, 0 <= d <= maxInt64 ->
  ack_delay_ns (encode_ack_delay d) W_AckDelayExponent = d - d mod 8000.
Proof. exact ack_delay_quantised. Qed.
Print Assumptions C08_ack_delay_quantised.

(** Ranges a sender holds (descending, disjoint, non-adjacent) pass the receiver's validateAckRanges. *)
Theorem C08_ack_ranges_valid : forall ranges, wf_ranges ranges -> validate_ack_ranges ranges = true.
Proof. exact wf_ranges_validate. Qed.
Print Assumptions C08_ack_ranges_valid.

(** MaxDataLen: any amount of STREAM data up to MaxDataLen(maxSize) yields a frame of at most
    maxSize bytes, for EVERY maxSize a varint can express (length fields of 1, 2, 4 and 8 bytes) ... *)
Theorem C08_maxdatalen_stream : forall sid off dlp maxSize data,
  vwf sid -> vwf off -> maxSize <= maxVarInt8 ->
  zlen data <= maxdatalen_stream sid off dlp maxSize ->
  0 < maxdatalen_stream sid off dlp maxSize ->
  length_stream sid off data dlp <= maxSize.
Proof. exact maxdatalen_stream_fits. Qed.
Print Assumptions C08_maxdatalen_stream.

(** ... and one byte more would not fit. *)
Theorem C08_maxdatalen_stream_maximal : forall sid off dlp maxSize data,
  0 <= maxSize <= maxVarInt8 -> 0 < stream_hdr_len sid off -> vwf (zlen data) ->
  maxdatalen_stream sid off dlp maxSize < zlen data ->
  maxSize < length_stream sid off data dlp.
Proof. exact maxdatalen_stream_maximal. Qed.
Print Assumptions C08_maxdatalen_stream_maximal.

Theorem C08_maxdatalen_crypto : forall off maxSize data,
  vwf off -> maxSize <= maxVarInt8 -> zlen data <= maxdatalen_crypto off maxSize ->
  0 < maxdatalen_crypto off maxSize -> length_crypto off data <= maxSize.
Proof. exact maxdatalen_crypto_fits. Qed.
Print Assumptions C08_maxdatalen_crypto.

Theorem C08_maxdatalen_crypto_maximal : forall off maxSize data,
  vwf off -> 0 <= maxSize <= maxVarInt8 -> vwf (zlen data) ->
  maxdatalen_crypto off maxSize < zlen data -> maxSize < length_crypto off data.
Proof. exact maxdatalen_crypto_maximal. Qed.
Print Assumptions C08_maxdatalen_crypto_maximal.

Theorem C08_maxdatalen_datagram : forall dlp maxSize data,
  maxSize <= maxVarInt8 -> zlen data <= maxdatalen_datagram dlp maxSize ->
  0 < maxdatalen_datagram dlp maxSize -> length_datagram dlp data <= maxSize.
Proof. exact maxdatalen_datagram_fits. Qed.
Print Assumptions C08_maxdatalen_datagram.

(** Regression (fixed finding frames/maxdatalen-overshoot-large): MaxDataLen(16390) of a CRYPTO frame
    at offset 0 used to allow 16386 bytes (a 16392-byte frame); it now allows 16384 bytes and the
    frame has exactly 16390 bytes. *)
Example C08_maxdatalen_large_regression :
  maxdatalen_crypto 0 16390 = 16384 /\
  (forall data, zlen data = 16384 -> length_crypto 0 data = 16390).
Proof. exact maxdatalen_crypto_large_regression. Qed.
Print Assumptions C08_maxdatalen_large_regression.

(** MaybeSplitOffFrame (STREAM): nothing changes when the frame fits or nothing fits; otherwise
    the two frames carry exactly the original byte range at the right offsets, FIN stays on the
    second, and the first fits into maxSize with at least one byte of data. *)
Theorem C08_split_stream : forall sid off data fin dlp maxSize,
  wf_stream sid off data fin -> 0 <= maxSize <= maxVarInt8 ->
  match split_stream sid off data fin dlp maxSize with
  | (None, false, f') => f' = FStream sid off data fin dlp /\ length_stream sid off data dlp <= maxSize
  | (None, true, f') => f' = FStream sid off data fin dlp /\ maxSize < length_stream sid off data dlp
                        /\ maxdatalen_stream sid off dlp maxSize = 0
  | (Some (FStream s1 o1 d1 fin1 l1), true, FStream s2 o2 d2 fin2 l2) =>
      s1 = sid /\ s2 = sid /\ o1 = off /\ o2 = off + zlen d1 /\ d1 ++ d2 = data
      /\ fin1 = false /\ fin2 = fin /\ l1 = dlp /\ l2 = dlp
      /\ 0 < zlen d1 < zlen data /\ length_stream sid off d1 dlp <= maxSize
  | _ => False
  end.
Proof. exact split_stream_spec. Qed.
Print Assumptions C08_split_stream.

Theorem C08_split_crypto : forall off data maxSize,
  wf_crypto off data -> 0 <= maxSize <= maxVarInt8 ->
  match split_crypto off data maxSize with
  | (None, false, f') => f' = FCrypto off data /\ length_crypto off data <= maxSize
  | (None, true, f') => f' = FCrypto off data /\ maxSize < length_crypto off data /\ maxdatalen_crypto off maxSize = 0
  | (Some (FCrypto o1 d1), true, FCrypto o2 d2) =>
      o1 = off /\ o2 = off + zlen d1 /\ d1 ++ d2 = data /\ 0 < zlen d1 < zlen data
      /\ length_crypto off d1 <= maxSize
  | _ => False
  end.
Proof. exact split_crypto_spec. Qed.
Print Assumptions C08_split_crypto.

(** Rejections.  Stream counts above 2^60 (MAX_STREAMS, STREAMS_BLOCKED): *)
Theorem C08_reject_stream_count : forall uni n rest,
  vwf n -> 2 ^ 60 < n ->
  parse_max_streams uni (vappend n ++ rest) = Err 13 0 /\ parse_streams_blocked uni (vappend n ++ rest) = Err 13 0.
Proof.
  intros uni n rest V L. rewrite <- max_stream_count_is_2_60 in L.
  split; [exact (reject_stream_count_max_streams uni n rest V L) | exact (reject_stream_count_streams_blocked uni n rest V L)].
Qed.
Print Assumptions C08_reject_stream_count.

(** RESET_STREAM_AT with a reliable size above the final size: *)
Theorem C08_reject_reliable_size : forall s e fs rs rest,
  vwf s -> vwf e -> vwf fs -> vwf rs -> fs < rs ->
  parse_reset_stream true (vappend s ++ vappend e ++ vappend fs ++ vappend rs ++ rest) = Err 14 0.
Proof. exact reject_reliable_size. Qed.
Print Assumptions C08_reject_reliable_size.

(** NEW_CONNECTION_ID with Retire Prior To above the sequence number: *)
Theorem C08_reject_retire_prior_to : forall s r rest,
  vwf s -> vwf r -> s < r -> parse_new_cid (vappend s ++ vappend r ++ rest) = Err 15 0.
Proof. exact reject_retire_prior_to. Qed.
Print Assumptions C08_reject_retire_prior_to.

(** NEW_CONNECTION_ID with a zero-length connection ID or one longer than 20 bytes: *)
Theorem C08_reject_cid_len : forall s r l rest,
  vwf s -> vwf r -> r <= s -> l = 0 \/ 20 < l ->
  exists e, (e = 16 \/ e = 17) /\ parse_new_cid (vappend s ++ vappend r ++ l :: rest) = Err e 0.
Proof. intros s r l rest Vs Vr Hle Hl. rewrite <- max_conn_id_len_is_20 in Hl. exact (reject_cid_len s r l rest Vs Vr Hle Hl). Qed.
Print Assumptions C08_reject_cid_len.

(** STREAM data that would end beyond offset 2^62-1: *)
Theorem C08_reject_stream_overflow : forall sid off data fin rest,
  vwf sid -> vwf off -> zlen data <= W_MaxPacketBufferSize -> W_MaxByteCount < off + zlen data ->
  parse_stream (stream_type off fin true) (body_stream sid off data true ++ rest) = Err 12 0.
Proof. exact reject_stream_overflow. Qed.
Print Assumptions C08_reject_stream_overflow.

(** ACK whose first range is longer than the largest acknowledged, or whose next range would
    start below zero (gap or length too large): *)
Theorem C08_reject_ack_first_range : forall ecn exp la d n ab rest,
  vwf la -> vwf d -> vwf n -> vwf ab -> la < ab ->
  parse_ack ecn exp (vappend la ++ vappend d ++ vappend n ++ vappend ab ++ rest) = Err 10 0.
Proof. exact reject_ack_first_range. Qed.
Print Assumptions C08_reject_ack_first_range.

Theorem C08_reject_ack_gap : forall ecn exp la d n ab gap rest,
  vwf la -> vwf d -> vwf n -> vwf ab -> vwf gap -> ab <= la -> 1 <= n -> la - ab < gap + 2 ->
  parse_ack ecn exp (vappend la ++ vappend d ++ vappend n ++ vappend ab ++ vappend gap ++ rest) = Err 11 0.
Proof. exact reject_ack_gap. Qed.
Print Assumptions C08_reject_ack_gap.

Theorem C08_reject_ack_range_len : forall ecn exp la d n ab gap len rest,
  vwf la -> vwf d -> vwf n -> vwf ab -> vwf gap -> vwf len -> ab <= la -> 1 <= n -> gap + 2 <= la - ab ->
  la - ab - gap - 2 < len ->
  parse_ack ecn exp (vappend la ++ vappend d ++ vappend n ++ vappend ab ++ vappend gap ++ vappend len ++ rest) = Err 11 0.
Proof. exact reject_ack_range_len. Qed.
Print Assumptions C08_reject_ack_range_len.

(** A frame type that is known but not allowed at the encryption level is refused before its
    body is looked at; an unknown type (or an extension that was not negotiated) likewise. *)
Theorem C08_reject_not_allowed : forall c lvl t body,
  vwf t -> t <> 0 -> type_valid c t = true -> type_allowed lvl t = false ->
  parse_next c lvl (vappend t ++ body) = Err 5 (vlen t).
Proof. exact reject_not_allowed. Qed.
Print Assumptions C08_reject_not_allowed.

Theorem C08_reject_unknown_type : forall c lvl t body,
  vwf t -> t <> 0 -> type_valid c t = false ->
  parse_next c lvl (vappend t ++ body) = Err 4 (vlen t).
Proof. exact reject_unknown_type. Qed.
Print Assumptions C08_reject_unknown_type.

(** The per-level allow-list (generated from isAllowedAtEncLevel) is exactly table 3 of RFC 9000
    (section 12.4), except that CONNECTION_CLOSE 0x1c is refused in 0-RTT (stricter than the table) and that the reference
    predicate [rfc9000_allowed] — hand-written from table 3 — also refuses RETIRE_CONNECTION_ID (0x19) in 0-RTT,
    which follows the prose of section 12.5, not the table (two deliberate stricter entries, not one);
    Initial/Handshake allow exactly PING, ACK, CRYPTO and CONNECTION_CLOSE(0x1c). *)
Theorem C08_allow_list_rfc_table3 :
  forallb (fun lvl => forallb (fun t =>
     Bool.eqb (type_allowed lvl t) (rfc9000_allowed lvl t && negb ((lvl =? 3) && (t =? 28)))) all_types) [1; 2; 3; 4] = true.
Proof. exact allow_list_is_rfc_table3. Qed.
Print Assumptions C08_allow_list_rfc_table3.

Theorem C08_allow_list_initial_handshake :
  forallb (fun lvl => forallb (fun t =>
     Bool.eqb (type_allowed lvl t) ((t =? 1) || (t =? 2) || (t =? 3) || (t =? 6) || (t =? 28))) all_types) [1; 2] = true.
Proof. exact allow_list_initial_handshake. Qed.
Print Assumptions C08_allow_list_initial_handshake.

(** Regression (fixed finding frames/level/accepted-0x1e-at-3): HANDSHAKE_DONE (0x1e) in a 0-RTT
    packet is refused by ParseType, whatever follows and whatever the parser configuration. *)
Example C08_handshake_done_0rtt_rejected : forall c body,
  type_allowed 3 FT_HandshakeDone = false /\ parse_next c 3 (FT_HandshakeDone :: body) = Err 5 1.
Proof. exact handshake_done_0rtt_rejected. Qed.
Print Assumptions C08_handshake_done_0rtt_rejected.

(** Claim (a) on the model (NOTE: in [parse_next] the count is computed as |b| - |rest|, so its second
    conjunct is by construction; the content is the suffix property and 0 < n.  The reported counts of the
    Go parsers are the subject of C08_frame_reported_* below): a successful parse returns a genuine suffix of its input, reports
    exactly the number of bytes in front of it, consumes at least one byte and never more than
    the input has. *)
Theorem C08_frame_consumed : forall c lvl b f n rest,
  parse_next c lvl b = Ok (f, n, rest) ->
  suffix_of rest b /\ n = zlen b - zlen rest /\ 0 < n <= zlen b.
Proof. exact parse_next_consumed. Qed.
Print Assumptions C08_frame_consumed.

(** Whatever the parser accepts from a byte string (at one of the four levels) is a well-formed
    value — every range rule of wf_frame holds for it — and the type Append will write for it is
    known to the parser and allowed at that level. *)
Theorem C08_frame_parsed_wf : forall c lvl b f n rest,
  bytes b -> zlen b <= maxVarInt8 -> 1 <= lvl <= 4 ->
  parse_next c lvl b = Ok (f, n, rest) ->
  (forall enc, append_frame f = Some enc -> wf_frame f) /\
  type_valid c (frame_type f) = true /\ type_allowed lvl (frame_type f) = true.
Proof. exact parse_next_wf. Qed.
Print Assumptions C08_frame_parsed_wf.

(** Claim (c): parse -> append -> parse.  The re-encoding of anything that parsed is accepted
    again, consumed completely, and yields the normalised value ... *)
Theorem C08_frame_reencode : forall c lvl b f n rest enc,
  bytes b -> zlen b <= maxVarInt8 -> 1 <= lvl <= 4 ->
  parse_next c lvl b = Ok (f, n, rest) -> append_frame f = Some enc ->
  parse_next c lvl enc = Ok (norm c lvl f, zlen enc, []).
Proof. exact parse_reencode. Qed.
Print Assumptions C08_frame_reencode.

(** ... which is the value itself for every kind but ACK / ACK_FREQUENCY (whose delays are quantised). *)
Theorem C08_frame_reencode_fixpoint : forall c lvl b f n rest enc,
  bytes b -> zlen b <= maxVarInt8 -> 1 <= lvl <= 4 ->
  parse_next c lvl b = Ok (f, n, rest) -> append_frame f = Some enc ->
  (match f with FAck _ _ _ _ _ | FAckFrequency _ _ _ _ => False | _ => True end) ->
  parse_next c lvl enc = Ok (f, zlen enc, []).
Proof. exact parse_reencode_fixpoint. Qed.
Print Assumptions C08_frame_reencode_fixpoint.

Example C08_frame_reencode_nonvacuous :
  bytes [0; 0; 14; 4; 67; 232; 2; 7; 7; 1] /\
  parse_next (Cfg false false false 3) 4 [0; 0; 14; 4; 67; 232; 2; 7; 7; 1] = Ok (FStream 4 1000 [7; 7] false true, 9, [1]) /\
  append_frame (FStream 4 1000 [7; 7] false true) = Some [14; 4; 67; 232; 2; 7; 7].
Proof. split; [repeat constructor; unfold is_byte; lia | split; reflexivity]. Qed.
Print Assumptions C08_frame_reencode_nonvacuous.

(** AckFrame.Truncate(maxSize): what is left is a non-empty prefix of at most 64 ranges whose
    encoding fits into maxSize, provided the frame with the first range alone fits. *)
Theorem C08_ack_truncate : forall ranges delay e0 e1 ce maxSize,
  wf_ranges ranges ->
  length_ack (firstn 1 ranges) delay e0 e1 ce <= maxSize ->
  let t := truncate_ack ranges delay e0 e1 ce maxSize in
  t <> [] /\ (exists rest, ranges = t ++ rest) /\ (length t <= 64)%nat /\ length_ack t delay e0 e1 ce <= maxSize.
Proof. exact truncate_ack_fits. Qed.
Print Assumptions C08_ack_truncate.

(** Non-minimal varints (RFC 9000 section 16; seeded change C08-g): a field may be encoded in more
    bytes than necessary ([vappend_len v w], w in {1,2,4,8}, [width_ok v w]).  The parsers accept EVERY
    valid encoding of the fields, return the fields and leave exactly what follows — the consumed count
    is what the encoding occupies, not the length of the shortest encoding. *)
From V Require Import Wire.FramesWidthProofs.

Theorem C08_varint_any_width : forall v w rest, width_ok v w -> vparse (vappend_len v w ++ rest) = inr (v, w, rest).
Proof. exact vparse_any_width. Qed.
Print Assumptions C08_varint_any_width.

Theorem C08_frames_one_field_any_width : forall v w rest, width_ok v w ->
  parse_max_data (vappend_len v w ++ rest) = Ok (FMaxData v, rest) /\
  parse_data_blocked (vappend_len v w ++ rest) = Ok (FDataBlocked v, rest) /\
  parse_retire_cid (vappend_len v w ++ rest) = Ok (FRetireConnectionID v, rest) /\
  (forall uni, v <= W_MaxStreamCount ->
     parse_max_streams uni (vappend_len v w ++ rest) = Ok (FMaxStreams uni v, rest) /\
     parse_streams_blocked uni (vappend_len v w ++ rest) = Ok (FStreamsBlocked uni v, rest)).
Proof. exact one_field_any_width. Qed.
Print Assumptions C08_frames_one_field_any_width.

Theorem C08_frames_two_fields_any_width : forall s ws v wv rest, width_ok s ws -> width_ok v wv ->
  parse_max_stream_data (vappend_len s ws ++ vappend_len v wv ++ rest) = Ok (FMaxStreamData s v, rest) /\
  parse_stream_data_blocked (vappend_len s ws ++ vappend_len v wv ++ rest) = Ok (FStreamDataBlocked s v, rest) /\
  parse_stop_sending (vappend_len s ws ++ vappend_len v wv ++ rest) = Ok (FStopSending s v, rest).
Proof. exact two_fields_any_width. Qed.
Print Assumptions C08_frames_two_fields_any_width.

Theorem C08_reset_stream_any_width : forall s ws e we fs wf rs wr rest,
  width_ok s ws -> width_ok e we -> width_ok fs wf -> width_ok rs wr -> rs <= fs ->
  parse_reset_stream false (vappend_len s ws ++ vappend_len e we ++ vappend_len fs wf ++ rest) = Ok (FResetStream s e fs 0, rest) /\
  parse_reset_stream true (vappend_len s ws ++ vappend_len e we ++ vappend_len fs wf ++ vappend_len rs wr ++ rest)
    = Ok (FResetStream s e fs rs, rest).
Proof. exact reset_stream_any_width. Qed.
Print Assumptions C08_reset_stream_any_width.

Theorem C08_crypto_any_width : forall off wo data wl rest, width_ok off wo -> width_ok (zlen data) wl ->
  parse_crypto (vappend_len off wo ++ vappend_len (zlen data) wl ++ data ++ rest) = Ok (FCrypto off data, rest).
Proof. exact crypto_any_width. Qed.
Print Assumptions C08_crypto_any_width.

(** through ParseType and the dispatch: the reported count is 1 + the two widths, the rest is untouched *)
Theorem C08_max_stream_data_consumed_any_width : forall c lvl s ws v wv rest,
  width_ok s ws -> width_ok v wv -> type_allowed lvl FT_MaxStreamData = true ->
  parse_next c lvl ([FT_MaxStreamData] ++ vappend_len s ws ++ vappend_len v wv ++ rest)
  = Ok (FMaxStreamData s v, 1 + ws + wv, rest).
Proof. exact max_stream_data_consumed_any_width. Qed.
Print Assumptions C08_max_stream_data_consumed_any_width.

Example C08_any_width_example :
  width_ok 28 8 /\ vappend_len 28 8 = [192; 0; 0; 0; 0; 0; 0; 28] /\
  parse_next (Cfg false false false 3) 4 ([17; 4] ++ [192; 0; 0; 0; 0; 0; 0; 28] ++ [1]) = Ok (FMaxStreamData 4 28, 10, [1]).
Proof. exact any_width_example. Qed.
Print Assumptions C08_any_width_example.

(** Audit item 5: the count is not "input minus rest" by definition.  [parse_next_rep] (Wire/FramesLen.v,
    the function the correspondence replays) advances by the counts the Go functions REPORT — ParseType's
    `parsed`, and per frame parser the varint's own length, sums of such lengths, `+ int(dataLen)`, `+ 16`,
    the constant 8, 0 — and these theorems show that the reported counts are exactly the bytes consumed.
    A parser reporting the length of the shortest encoding (seeded change C08-g) contradicts
    [reported_body_exact]. *)
From V Require Import Wire.FramesLen Wire.FramesLenProofs.

Theorem C08_frame_reported_body_exact : forall c lvl t b f rest, bytes b ->
  parse_body c lvl t b = Ok (f, rest) -> reported_body t b = zlen b - zlen rest.
Proof. exact reported_body_exact. Qed.
Print Assumptions C08_frame_reported_body_exact.

Theorem C08_frame_reported_type_exact : forall fuel c lvl b p t n r,
  parse_type fuel c lvl b p = Ok (t, n, r) -> n = p + (zlen b - zlen r).
Proof. exact parse_type_reported. Qed.
Print Assumptions C08_frame_reported_type_exact.

Theorem C08_frame_loop_by_reported_counts : forall c lvl b, bytes b -> parse_next_rep c lvl b = parse_next c lvl b.
Proof. exact parse_next_rep_eq. Qed.
Print Assumptions C08_frame_loop_by_reported_counts.

Theorem C08_frame_reported_count_exact : forall c lvl b f n rest, bytes b ->
  parse_next_rep c lvl b = Ok (f, n, rest) -> suffix_of rest b /\ n = zlen b - zlen rest /\ 0 < n <= zlen b.
Proof. exact reported_count_exact. Qed.
Print Assumptions C08_frame_reported_count_exact.

(* ==== end frames ==== *)
(* ==== tparams ==== *)
(** Transport parameters (internal/wire/transport_parameters.go), model Wire/TParams.v.
    [enc_params ps] is a list of well-delimited (id, value) parameters, [params_wf] says that
    ids and lengths are encodable varints, [varint_body body v] that [body] is exactly one varint
    of value [v] (minimal or padded), [is_err r] that [r] is an error of whatever class. *)
From V Require Import Lib.Hex Wire.FramesBase Wire.TParams Wire.TParamsProofs Wire.TParamsRoundtrip.

(** The parameter ids are the ones of RFC 9000 section 18.2, RFC 9221, reliable-stream-reset
    and ack-frequency drafts (an edited id breaks this proof). *)
Theorem C08_tparams_ids : known_ids =
  [0; 1; 2; 3; 4; 5; 6; 7; 8; 9; 10; 11; 12; 13; 14; 15; 16; 32; 6745883625174385; 4278509083].
Proof. exact (eq_refl known_ids). Qed.
Print Assumptions C08_tparams_ids.

(** The greased parameter Marshal sends first (id 27 + 31 * random byte) is never a known one. *)
Theorem C08_tparams_grease_unknown : forall k, 0 <= k < 256 -> ~ In (27 + 31 * k) known_ids.
Proof. exact grease_not_known. Qed.
Print Assumptions C08_tparams_grease_unknown.

(** Unmarshal (Marshal p) = norm p for both perspectives and every 18 random bytes: durations
    quantised to ms / us, max_idle_timeout raised to 5 s, max_udp_payload_size 0 -> 2^62-1,
    unusable preferred addresses dropped, server-only parameters absent for the client. *)
Theorem C08_tparams_roundtrip : forall pers rnd p,
  length rnd = 18%nat -> Forall is_byte rnd -> tp_wf p ->
  unmarshal pers false (marshal pers rnd p) = Ok (tp_norm pers p).
Proof. exact tparams_roundtrip. Qed.
Print Assumptions C08_tparams_roundtrip.

Theorem C08_tparams_ticket_roundtrip : forall p,
  tp_wf_ticket p -> unmarshal_ticket (marshal_ticket p) = Ok (tp_norm_ticket p).
Proof. exact ticket_roundtrip. Qed.
Print Assumptions C08_tparams_ticket_roundtrip.

(** A parameter list in which an id occurs twice is rejected (known, unknown or greased id,
    equal or different values, any distance), and appending a second copy of a parameter to any
    list makes it rejected; conversely what is accepted has pairwise distinct ids. *)
Theorem C08_reject_duplicate_tparam : forall pers ticket ps l1 x l2 l3,
  params_wf ps -> map fst ps = l1 ++ x :: l2 ++ x :: l3 ->
  is_err (unmarshal pers ticket (enc_params ps)).
Proof. exact reject_duplicate. Qed.
Print Assumptions C08_reject_duplicate_tparam.

Theorem C08_reject_duplicate_tparam_appended : forall pers ticket ps id body,
  params_wf ps -> param_wf (id, body) -> In id (map fst ps) ->
  is_err (unmarshal pers ticket (enc_params (ps ++ [(id, body)]))).
Proof. exact reject_duplicate_appended. Qed.
Print Assumptions C08_reject_duplicate_tparam_appended.

Theorem C08_accepted_tparams_distinct : forall pers ticket ps p,
  params_wf ps -> unmarshal pers ticket (enc_params ps) = Ok p -> NoDup (map fst ps).
Proof. exact accepted_nodup. Qed.
Print Assumptions C08_accepted_tparams_distinct.

(** Range rules.  First conjunct: rejected wherever the parameter stands among well-delimited
    parameters, whatever follows; second: the error class when it comes first. *)
Theorem C08_reject_ack_delay_exponent : forall pers ticket ps body v rest,
  params_wf ps -> varint_body body v -> 20 < v ->
  is_err (unmarshal pers ticket (enc_params ps ++ enc_param TP_ID_ade body ++ rest)) /\
  unmarshal pers ticket (enc_param TP_ID_ade body ++ rest) = Err E_TP_ADE 0.
Proof. exact reject_ack_delay_exponent. Qed.
Print Assumptions C08_reject_ack_delay_exponent.

Theorem C08_reject_max_ack_delay : forall pers ticket ps body v rest,
  params_wf ps -> varint_body body v -> 2 ^ 14 <= v ->
  is_err (unmarshal pers ticket (enc_params ps ++ enc_param TP_ID_mad body ++ rest)) /\
  unmarshal pers ticket (enc_param TP_ID_mad body ++ rest) = Err E_TP_MAD 0.
Proof. exact reject_max_ack_delay_pow. Qed.
Print Assumptions C08_reject_max_ack_delay.

Theorem C08_reject_max_udp_payload_size : forall pers ticket ps body v rest,
  params_wf ps -> varint_body body v -> v < 1200 ->
  is_err (unmarshal pers ticket (enc_params ps ++ enc_param TP_ID_mups body ++ rest)) /\
  unmarshal pers ticket (enc_param TP_ID_mups body ++ rest) = Err E_TP_MUPS 0.
Proof. exact reject_max_udp_payload_size. Qed.
Print Assumptions C08_reject_max_udp_payload_size.

Theorem C08_reject_active_cid_limit : forall pers ticket ps body v rest,
  params_wf ps -> varint_body body v -> v < 2 ->
  is_err (unmarshal pers ticket (enc_params ps ++ enc_param TP_ID_acil body ++ rest)) /\
  unmarshal pers ticket (enc_param TP_ID_acil body ++ rest) = Err E_TP_ACIL 0.
Proof. exact reject_active_cid_limit. Qed.
Print Assumptions C08_reject_active_cid_limit.

Theorem C08_reject_tparam_stream_count : forall pers ticket ps body v rest,
  params_wf ps -> varint_body body v -> 2 ^ 60 < v ->
  (is_err (unmarshal pers ticket (enc_params ps ++ enc_param TP_ID_mbs body ++ rest)) /\
   unmarshal pers ticket (enc_param TP_ID_mbs body ++ rest) = Err E_TP_STREAMS_BIDI 0) /\
  (is_err (unmarshal pers ticket (enc_params ps ++ enc_param TP_ID_mus body ++ rest)) /\
   unmarshal pers ticket (enc_param TP_ID_mus body ++ rest) = Err E_TP_STREAMS_UNI 0).
Proof. exact reject_stream_count_pow. Qed.
Print Assumptions C08_reject_tparam_stream_count.

(** original_destination_connection_id, stateless_reset_token, preferred_address and
    retry_source_connection_id sent by a client: rejected whatever length and value they have. *)
Theorem C08_reject_client_server_only : forall ticket ps id body rest,
  params_wf ps -> vwf (zlen body) -> In id [TP_ID_odcid; TP_ID_srt; TP_ID_pa; TP_ID_rscid] ->
  is_err (unmarshal Client ticket (enc_params ps ++ enc_param id body ++ rest)) /\
  exists c, unmarshal Client ticket (enc_param id body ++ rest) = Err c 0 /\
            In (id, c) [(TP_ID_odcid, E_TP_CLIENT_ODCID); (TP_ID_srt, E_TP_CLIENT_SRT);
                        (TP_ID_pa, E_TP_CLIENT_PA); (TP_ID_rscid, E_TP_CLIENT_RSCID)].
Proof. exact reject_client_server_only. Qed.
Print Assumptions C08_reject_client_server_only.

(** A parameter list without initial_source_connection_id (either sender), or a server's list
    without original_destination_connection_id, is rejected (not for session tickets). *)
Theorem C08_reject_missing_iscid : forall pers ps,
  params_wf ps -> ~ In TP_ID_iscid (map fst ps) -> is_err (unmarshal pers false (enc_params ps)).
Proof. exact reject_missing_iscid. Qed.
Print Assumptions C08_reject_missing_iscid.

Theorem C08_reject_missing_odcid : forall ps,
  params_wf ps -> ~ In TP_ID_odcid (map fst ps) -> is_err (unmarshal Server false (enc_params ps)).
Proof. exact reject_missing_odcid. Qed.
Print Assumptions C08_reject_missing_odcid.

(** Connection-ID parameters longer than 20 bytes. *)
Theorem C08_reject_cid_param_len : forall pers ticket ps id body rest,
  params_wf ps -> vwf (zlen body) -> In id [TP_ID_odcid; TP_ID_iscid; TP_ID_rscid] -> 20 < zlen body ->
  is_err (unmarshal pers ticket (enc_params ps ++ enc_param id body ++ rest)) /\
  (pers = Server \/ id = TP_ID_iscid -> unmarshal pers ticket (enc_param id body ++ rest) = Err E_TP_CID_LEN 0).
Proof. exact reject_cid_param_len. Qed.
Print Assumptions C08_reject_cid_param_len.

(** Non-vacuity: the hypotheses hold for concrete values, and the concrete instances evaluate to
    what the theorems say. *)
Example C08_tparams_wf_example :
  tp_wf ex_tp /\ tp_wf_ticket ex_tp /\ length ex_rnd = 18%nat /\ Forall is_byte ex_rnd /\
  unmarshal Server false (marshal Server ex_rnd ex_tp) = Ok (tp_norm Server ex_tp) /\
  unmarshal Client false (marshal Client ex_rnd ex_tp) = Ok (tp_norm Client ex_tp) /\
  tp_norm Server ex_tp <> tp_norm Client ex_tp /\
  unmarshal_ticket (marshal_ticket ex_tp) = Ok (tp_norm_ticket ex_tp).
Proof. exact ex_tp_roundtrip. Qed.
Print Assumptions C08_tparams_wf_example.

Example C08_tparams_params_example :
  params_wf ex_ps_server /\
  (exists p, unmarshal Server false (enc_params ex_ps_server) = Ok p /\ tp_imd p = 786432) /\
  unmarshal Server false (enc_params (ex_ps_server ++ [(TP_ID_imd, vappend 5)])) = Err E_TP_DUP TP_ID_imd /\
  unmarshal Server false (enc_params ((27, []) :: ex_ps_server)) = Err E_TP_DUP 27 /\
  varint_body (vappend 21) 21 /\ varint_body [64; 21] 21.
Proof. exact ex_params. Qed.
Print Assumptions C08_tparams_params_example.

Example C08_tparams_reject_example :
  unmarshal Server false (enc_params ex_ps_server ++ enc_param TP_ID_ade [64; 21] ++ [255]) = Err E_TP_ADE 0 /\
  unmarshal Server false (enc_params ex_ps_server ++ enc_param TP_ID_mad (vappend 16384)) = Err E_TP_MAD 0 /\
  unmarshal Server false (enc_params ex_ps_server ++ enc_param TP_ID_mups (vappend 1199)) = Err E_TP_MUPS 0 /\
  unmarshal Server false (enc_params ex_ps_server ++ enc_param TP_ID_acil (vappend 1)) = Err E_TP_ACIL 0 /\
  unmarshal Server false (enc_params ex_ps_server ++ enc_param TP_ID_mbs (vappend (TP_MaxStreamCount + 1))) = Err E_TP_STREAMS_BIDI 0 /\
  unmarshal Client false (enc_params [(TP_ID_iscid, [])] ++ enc_param TP_ID_srt (repeat 7 16)) = Err E_TP_CLIENT_SRT 0 /\
  unmarshal Client false (enc_params [(TP_ID_iscid, repeat 1 21)]) = Err E_TP_CID_LEN 0 /\
  unmarshal Client false (enc_params [(TP_ID_imd, vappend 9)]) = Err E_TP_MISSING_ISCID 0 /\
  unmarshal Server false (enc_params [(TP_ID_iscid, [1])]) = Err E_TP_MISSING_ODCID 0.
Proof. exact ex_range_rejected. Qed.
Print Assumptions C08_tparams_reject_example.
(** Claim (c) for transport parameters (possible since the repairs of max_idle_timeout / min_ack_delay):
    everything Unmarshal accepts from a byte string is a well-formed value; Marshal's encoding of it
    (whatever the 18 random bytes of the greased parameter) is accepted again and yields the same
    value — parse -> Marshal -> parse is a fixpoint — except that (i) a saturated max_idle_timeout
    (2^63-1 ns) comes back cut to whole milliseconds and (ii) AdvertisedMaxIdleTimeout (what the peer
    sent, receive side only: MaxIdleTimeout = max(5 s, advertised), 0 = none) is not what Marshal writes:
    Marshal sends MaxIdleTimeout, so an advertised value below 5 s comes back as 5 s (tp_norm).
    parsed_wf also states the relation between the two fields for everything Unmarshal accepts. *)
From V Require Import Wire.TParamsReencode.

Theorem C08_tparams_parsed_wf : forall pers b p,
  bytes b -> unmarshal pers false b = Ok p ->
  tp_wf p /\
  ((tp_amit p = 0 /\ tp_mit p = 0) \/
   (0 < tp_amit p <= maxInt64 /\ tp_mit p = Z.max TP_MinRemoteIdleTimeout (tp_amit p))) /\
  (tp_mit p <> maxInt64 -> tp_amit p = 0 \/ TP_MinRemoteIdleTimeout <= tp_amit p -> tp_norm pers p = p).
Proof. exact unmarshal_wf. Qed.
Print Assumptions C08_tparams_parsed_wf.

Theorem C08_tparams_reencode : forall pers rnd b p,
  bytes b -> length rnd = 18%nat -> Forall is_byte rnd ->
  unmarshal pers false b = Ok p ->
  unmarshal pers false (marshal pers rnd p) = Ok (tp_norm pers p) /\
  (tp_mit p <> maxInt64 -> tp_amit p = 0 \/ TP_MinRemoteIdleTimeout <= tp_amit p ->
   unmarshal pers false (marshal pers rnd p) = Ok p).
Proof. exact tparams_reencode. Qed.
Print Assumptions C08_tparams_reencode.

Example C08_tparams_reencode_nonvacuous :
  bytes (enc_params ex_ps_server) /\
  (exists p, unmarshal Server false (enc_params ex_ps_server) = Ok p /\ tp_mit p <> maxInt64) /\
  (* regressions of the three repaired findings: an explicit 0 means "none", huge values saturate / are refused *)
  (exists p, unmarshal Server false (enc_params (ex_ps_server ++ [(TP_ID_mit, vappend 0)])) = Ok p /\ tp_mit p = 0) /\
  (exists p, unmarshal Server false (enc_params (ex_ps_server ++ [(TP_ID_mit, vappend (2 ^ 62 - 2))])) = Ok p /\ tp_mit p = maxInt64) /\
  is_err (unmarshal Server false (enc_params (ex_ps_server ++ [(TP_ID_minad, vappend (2 ^ 61))]))).
Proof.
  split; [vm_compute; repeat constructor; discriminate|].
  split; [eexists; split; [vm_compute; reflexivity | vm_compute; discriminate]|].
  split; [eexists; split; vm_compute; reflexivity|].
  split; [eexists; split; vm_compute; reflexivity|].
  vm_compute. exact I.
Qed.
Print Assumptions C08_tparams_reencode_nonvacuous.

(** Round 3 — the exact error of a NON-first offending parameter.  If the loop of unmarshal accepts
    the parameters in front ([tp_run ... = Ok _], input made of bytes) and the switch rejects the next
    parameter with class c / auxiliary value a, the whole input fails with exactly [Err c a], whatever
    follows: the first offending parameter decides. *)
From V Require Import Wire.TParamsPrefix.

Theorem C08_tparams_first_error : forall pers ticket ps s1 id body rest c a,
  params_wf ps -> Forall is_byte (enc_params ps) ->
  tp_run pers st_init (enc_params ps) = Ok s1 ->
  vwf id -> vwf (zlen body) ->
  (forall s, tp_step pers id (zlen body) (body ++ rest) s = Err c a) ->
  unmarshal pers ticket (enc_params ps ++ enc_param id body ++ rest) = Err c a.
Proof. exact unmarshal_first_error. Qed.
Print Assumptions C08_tparams_first_error.

(** instantiated for the six range rules: exact class at any position *)
Theorem C08_reject_range_exact_class : forall pers ticket ps s1 body v rest,
  params_wf ps -> Forall is_byte (enc_params ps) -> tp_run pers st_init (enc_params ps) = Ok s1 ->
  varint_body body v ->
  (TP_MaxAckDelayExponent < v -> unmarshal pers ticket (enc_params ps ++ enc_param TP_ID_ade body ++ rest) = Err E_TP_ADE 0) /\
  (TP_MaxMaxAckDelayMs < v -> unmarshal pers ticket (enc_params ps ++ enc_param TP_ID_mad body ++ rest) = Err E_TP_MAD 0) /\
  (v < 1200 -> unmarshal pers ticket (enc_params ps ++ enc_param TP_ID_mups body ++ rest) = Err E_TP_MUPS 0) /\
  (v < 2 -> unmarshal pers ticket (enc_params ps ++ enc_param TP_ID_acil body ++ rest) = Err E_TP_ACIL 0) /\
  (TP_MaxStreamCount < v -> unmarshal pers ticket (enc_params ps ++ enc_param TP_ID_mbs body ++ rest) = Err E_TP_STREAMS_BIDI 0) /\
  (TP_MaxStreamCount < v -> unmarshal pers ticket (enc_params ps ++ enc_param TP_ID_mus body ++ rest) = Err E_TP_STREAMS_UNI 0).
Proof. exact reject_range_exact. Qed.
Print Assumptions C08_reject_range_exact_class.

Example C08_tparams_first_error_nonvacuous :
  params_wf ex_ps_server /\ Forall is_byte (enc_params ex_ps_server) /\
  (exists s1, tp_run Server st_init (enc_params ex_ps_server) = Ok s1) /\
  unmarshal Server false (enc_params ex_ps_server ++ enc_param TP_ID_ade (vappend 21) ++ [1; 2; 3]) = Err E_TP_ADE 0.
Proof.
  split; [exact ex_ps_server_wf|]. split; [vm_compute; repeat constructor; discriminate|].
  split; [eexists; vm_compute; reflexivity | vm_compute; reflexivity].
Qed.
Print Assumptions C08_tparams_first_error_nonvacuous.

(* ==== end tparams ==== *)
(* ==== headers ==== *)
(** Packet headers (coq/Wire/Headers.v mirrors internal/wire/header.go, extended_header.go,
    short_header.go, version_negotiation.go).  [append_ext e v] is ExtendedHeader.Append with the
    version argument v, [parse_header] is parseHeader (what ParsePacket runs), [parse_extended] is
    Header.ParseExtended; results carry the error class (0 = nil). *)
From V Require Import Lib.Hex Wire.Headers Wire.HeadersProofs.

(** Initial / Handshake / 0-RTT headers of version 1 and 2: whatever follows the header, parseHeader
    returns the fields Append was given (the token only for Initial), reports |Append| minus the packet
    number bytes as parsed, and ParseExtended recovers the packet number length and the packet number
    modulo 2^(8*pnLen), reports exactly |Append| bytes, and finds the reserved bits zero. *)
Theorem C08_longhdr_roundtrip : forall e v payload,
  hVersion (eHdr e) = v -> (v = H_Version1 \/ v = H_Version2) ->
  (hType (eHdr e) = H_PacketTypeInitial \/ hType (eHdr e) = H_PacketTypeHandshake \/ hType (eHdr e) = H_PacketType0RTT) ->
  zlen (hDst (eHdr e)) <= W_MaxConnIDLen -> zlen (hSrc (eHdr e)) <= W_MaxConnIDLen ->
  0 <= hLength (eHdr e) <= maxVarInt2 -> 1 <= ePnLen e <= 4 -> zlen (hToken (eHdr e)) <= maxVarInt8 ->
  exists enc, append_ext e v = (0, enc) /\
    let fb := 192 + 16 * type_code v (hType (eHdr e)) + (ePnLen e - 1) in
    let h' := mkHeader fb (hType (eHdr e)) v (hSrc (eHdr e)) (hDst (eHdr e)) (hLength (eHdr e))
                (if hType (eHdr e) =? H_PacketTypeInitial then hToken (eHdr e) else []) (zlen enc - ePnLen e) in
    parse_header (enc ++ payload) = Some (h', 0) /\
    parse_extended h' (enc ++ payload) = (0, Some (mkExt h' fb (ePnLen e) (ePn e mod 2 ^ (8 * ePnLen e)) (zlen enc))).
Proof. exact longhdr_roundtrip_full. Qed.
Print Assumptions C08_longhdr_roundtrip.

Theorem C08_longhdr_length : forall e v,
  hVersion (eHdr e) = v -> (v = H_Version1 \/ v = H_Version2) ->
  (hType (eHdr e) = H_PacketTypeInitial \/ hType (eHdr e) = H_PacketTypeHandshake \/ hType (eHdr e) = H_PacketType0RTT) ->
  zlen (hDst (eHdr e)) <= W_MaxConnIDLen -> zlen (hSrc (eHdr e)) <= W_MaxConnIDLen ->
  0 <= hLength (eHdr e) <= maxVarInt2 -> 1 <= ePnLen e <= 4 -> zlen (hToken (eHdr e)) <= maxVarInt8 ->
  exists enc, append_ext e v = (0, enc) /\ zlen enc = get_length e.
Proof. exact longhdr_length_full. Qed.
Print Assumptions C08_longhdr_length.

(** Retry (Append writes no integrity tag): with any 16 bytes behind it the header parses back,
    the token being everything but those 16 bytes; the whole packet is reported as parsed. *)
Theorem C08_retry_roundtrip : forall e v tag,
  hVersion (eHdr e) = v -> (v = H_Version1 \/ v = H_Version2) -> hType (eHdr e) = H_PacketTypeRetry ->
  zlen (hDst (eHdr e)) <= W_MaxConnIDLen -> zlen (hSrc (eHdr e)) <= W_MaxConnIDLen ->
  0 < zlen (hToken (eHdr e)) -> zlen tag = 16 ->
  exists enc, append_ext e v = (0, enc) /\
    parse_header (enc ++ tag)
    = Some (mkHeader (192 + 16 * type_code v H_PacketTypeRetry) H_PacketTypeRetry v (hSrc (eHdr e)) (hDst (eHdr e)) 0
                     (hToken (eHdr e)) (zlen enc + 16), 0).
Proof. exact retry_roundtrip. Qed.
Print Assumptions C08_retry_roundtrip.

(** Short header: round trip, predicted length, exact consumed length. *)
Theorem C08_shorthdr_roundtrip : forall cid pn pnLen kp payload,
  1 <= pnLen <= 4 -> (kp = H_KeyPhaseZero \/ kp = H_KeyPhaseOne) ->
  exists enc, append_short cid pn pnLen kp = (0, enc) /\
    zlen enc = short_header_len cid pnLen /\
    parse_short (enc ++ payload) (zlen cid) = (0, (zlen enc, pn mod 2 ^ (8 * pnLen), pnLen, kp)).
Proof. exact shorthdr_roundtrip. Qed.
Print Assumptions C08_shorthdr_roundtrip.

(** Version Negotiation: every composed packet (any random first byte, connection IDs up to 255 bytes,
    non-empty list of 32-bit versions) parses back to the same connection IDs and version list. *)
Theorem C08_vneg_roundtrip : forall rnd dst src gv,
  zlen dst <= 255 -> zlen src <= 255 -> gv <> [] -> Forall (fun v => 0 <= v < 2 ^ 32) gv ->
  parse_vneg (compose_vneg rnd dst src gv) = (0, dst, src, gv).
Proof. exact vneg_roundtrip. Qed.
Print Assumptions C08_vneg_roundtrip.

(** ... in particular with the list GetGreasedVersions builds, wherever the reserved version lands. *)
Theorem C08_vneg_greased_roundtrip : forall rnd dst src pos rv versions,
  zlen dst <= 255 -> zlen src <= 255 -> 0 <= rv < 2 ^ 32 -> Forall (fun v => 0 <= v < 2 ^ 32) versions ->
  parse_vneg (compose_vneg rnd dst src (greased pos rv versions)) = (0, dst, src, greased pos rv versions).
Proof. exact vneg_greased_roundtrip. Qed.
Print Assumptions C08_vneg_greased_roundtrip.

(** ParseConnectionID agrees with the full parsers on the destination connection ID. *)
Theorem C08_parse_connid_long : forall b h e k,
  parse_header b = Some (h, e) -> (e = 0 \/ e = E_Unsupported) -> is_long (hd 0 b) = true ->
  parse_connection_id b k = (0, hDst h).
Proof. exact connid_long. Qed.
Print Assumptions C08_parse_connid_long.

Theorem C08_parse_connid_short : forall data k c l pn pnLen kp,
  parse_short data k = (c, (l, pn, pnLen, kp)) -> (c = 0 \/ c = E_Reserved) -> 0 <= k <= W_MaxConnIDLen ->
  parse_connection_id data k = (0, zfirstn k (tl data)).
Proof. exact connid_short. Qed.
Print Assumptions C08_parse_connid_short.

(** Connection IDs longer than 20 bytes are rejected in long headers: an accepted header (nil error or
    unsupported version) has both connection IDs within the limit, and a destination connection ID
    length byte above 20 makes parseHeader, ParsePacket and ParseConnectionID fail. *)
Theorem C08_reject_hdr_cid_len : forall b h e,
  parse_header b = Some (h, e) -> (e = 0 \/ e = E_Unsupported) ->
  zlen (hDst h) <= 20 /\ zlen (hSrc h) <= 20.
Proof. exact accepted_cid_lens. Qed.
Print Assumptions C08_reject_hdr_cid_len.

Theorem C08_reject_hdr_cid_len_dst : forall b k,
  6 <= zlen b -> is_long (hd 0 b) = true -> nth 5 b 0 > 20 ->
  (exists h e, parse_header b = Some (h, e) /\ (e = E_NotQUIC \/ e = E_CIDLen)) /\
  (exists pcls, parse_packet b = (pcls, None, [], []) /\ (pcls = E_NotQUIC \/ pcls = E_CIDLen)) /\
  parse_connection_id b k = (E_CIDLen, []).
Proof. exact reject_dst_cid_len. Qed.
Print Assumptions C08_reject_hdr_cid_len_dst.

(** Consumed lengths never exceed the input; ParsePacket cuts the input at ParsedLen + Length. *)
Theorem C08_longhdr_consumed : forall b h e,
  parse_header b = Some (h, e) -> (e = 0 \/ e = E_Unsupported) -> 1 <= hParsedLen h <= zlen b.
Proof. exact parse_header_consumed. Qed.
Print Assumptions C08_longhdr_consumed.

Theorem C08_parse_packet_consumed : forall b h pkt rest,
  parse_packet b = (0, Some h, pkt, rest) ->
  parse_header b = Some (h, 0) /\ pkt ++ rest = b /\
  hParsedLen h + hLength h <= zlen b /\ (0 <= hLength h -> zlen pkt = hParsedLen h + hLength h).
Proof. exact parse_packet_consumed. Qed.
Print Assumptions C08_parse_packet_consumed.

Theorem C08_exthdr_consumed : forall h data c e,
  parse_extended h data = (c, Some e) -> 0 <= hParsedLen h ->
  (c = 0 \/ c = E_Reserved) /\ eHdr e = h /\ 1 <= ePnLen e <= 4 /\
  eParsedLen e = hParsedLen h + ePnLen e /\ eParsedLen e <= zlen data.
Proof. exact parse_extended_consumed. Qed.
Print Assumptions C08_exthdr_consumed.

Theorem C08_shorthdr_consumed : forall data k c l pn pnLen kp,
  parse_short data k = (c, (l, pn, pnLen, kp)) -> (c = 0 \/ c = E_Reserved) ->
  l = 1 + k + pnLen /\ 1 <= pnLen <= 4 /\ l <= zlen data /\ (kp = H_KeyPhaseZero \/ kp = H_KeyPhaseOne).
Proof. exact parse_short_consumed. Qed.
Print Assumptions C08_shorthdr_consumed.

(** parse -> Append -> parse is a fixpoint: a long header with a packet number parsed from ANY byte string
    (Length small enough for the 2-byte field Append writes; reserved bits may be set) is written by Append
    in GetLength bytes and parses back to the same fields, packet number and packet number length. *)
Theorem C08_longhdr_reencode : forall b h c x payload,
  Forall (fun y => 0 <= y < 256) b -> zlen b <= maxVarInt8 ->
  parse_header b = Some (h, 0) ->
  (hType h = H_PacketTypeInitial \/ hType h = H_PacketTypeHandshake \/ hType h = H_PacketType0RTT) ->
  hLength h <= maxVarInt2 ->
  parse_extended h b = (c, Some x) ->
  exists enc, append_ext x (hVersion h) = (0, enc) /\ zlen enc = get_length x /\
    let fb := 192 + 16 * type_code (hVersion h) (hType (eHdr x)) + (ePnLen x - 1) in
    let h2 := mkHeader fb (hType h) (hVersion h) (hSrc h) (hDst h) (hLength h) (hToken h) (zlen enc - ePnLen x) in
    parse_header (enc ++ payload) = Some (h2, 0) /\
    parse_extended h2 (enc ++ payload) = (0, Some (mkExt h2 fb (ePnLen x) (ePn x) (zlen enc))).
Proof. exact longhdr_reencode. Qed.
Print Assumptions C08_longhdr_reencode.

(** Is0RTTPacket (used before the header is parsed) agrees with the parsed packet type. *)
Theorem C08_is0rtt_agrees : forall b h,
  parse_header b = Some (h, 0) -> is_long (hd 0 b) = true -> is_0rtt b = (hType h =? H_PacketType0RTT).
Proof. exact is_0rtt_agrees. Qed.
Print Assumptions C08_is0rtt_agrees.

(** Non-vacuity: a version 2 Initial with a token, 3-byte packet number and Length 16383 satisfies the
    hypotheses of the round trip, and the model computes on it. *)
Example C08_longhdr_nonvacuous :
  let e := mkExt (mkHeader 0 H_PacketTypeInitial H_Version2 [1; 2; 3] [4; 5; 6; 7; 8; 9; 10; 11] 16383 [170; 187] 0) 0 3 16909060 0 in
  (hVersion (eHdr e) = H_Version2 /\ zlen (hDst (eHdr e)) <= W_MaxConnIDLen /\ 0 <= hLength (eHdr e) <= maxVarInt2) /\
  append_ext e H_Version2
  = (0, [210; 107; 51; 67; 207; 8; 4; 5; 6; 7; 8; 9; 10; 11; 3; 1; 2; 3; 2; 170; 187; 127; 255; 2; 3; 4]) /\
  get_length e = 26 /\
  (let '(_, h, pkt, rest) := parse_packet (snd (append_ext e H_Version2) ++ [9; 9; 9]) in h) = None /\
  parse_header (snd (append_ext e H_Version2) ++ [9])
  = Some (mkHeader 210 H_PacketTypeInitial H_Version2 [1; 2; 3] [4; 5; 6; 7; 8; 9; 10; 11] 16383 [170; 187] 23, 0).
Proof. vm_compute. repeat split; congruence. Qed.
Print Assumptions C08_longhdr_nonvacuous.

(** ... and a byte string satisfying the hypotheses of the re-encoding theorem (Handshake, version 1,
    1-byte Length field, reserved bits set). *)
Example C08_reencode_nonvacuous :
  let b := [236; 0; 0; 0; 1; 1; 7; 0; 5; 1; 2; 3; 4; 5] in
  match parse_header b with
  | Some (h, 0) =>
    hType h = H_PacketTypeHandshake /\ hLength h = 5 /\
    match parse_extended h b with
    | (c, Some x) => c = E_Reserved /\ ePn x = 1 /\ ePnLen x = 1 /\
                     append_ext x (hVersion h) = (0, [224; 0; 0; 0; 1; 1; 7; 0; 64; 5; 1])
    | _ => False
    end
  | _ => False
  end.
Proof. vm_compute. repeat split; reflexivity. Qed.
Print Assumptions C08_reencode_nonvacuous.

Example C08_vneg_nonvacuous :
  parse_vneg (compose_vneg 37 [1; 2] [3] (greased 1 439041101 [1; 1798521807]))
  = (0, [1; 2], [3], [1; 439041101; 1798521807]) /\
  parse_connection_id [192; 0; 0; 0; 1; 21] 0 = (E_CIDLen, []).
Proof. vm_compute. split; reflexivity. Qed.
Print Assumptions C08_vneg_nonvacuous.
(** Round 3 — the routing helpers of header.go (used on datagrams before a connection exists). *)
From V Require Import Wire.HeadersHelpersProofs.

(** ParseArbitraryLenConnectionIDs: on success the reported length is exactly the invariant header
    1 + 4 + 1 + dcil + 1 + scil, within the input, connection IDs of at most 255 bytes. *)
Theorem C08_arbitrary_cids_consumed : forall data n dst src,
  Forall is_byte data -> parse_arbitrary data = (0, n, dst, src) ->
  n = 7 + zlen dst + zlen src /\ n <= zlen data /\ zlen dst <= 255 /\ zlen src <= 255.
Proof. exact arbitrary_consumed. Qed.
Print Assumptions C08_arbitrary_cids_consumed.

(** ... and whenever the full long-header parser gets past the connection IDs (accepts, or reports
    an unsupported version) it returns the same two connection IDs, read from a prefix of what
    parseHeader read. *)
Theorem C08_arbitrary_cids_agree : forall b h e,
  Forall is_byte b -> parse_header b = Some (h, e) -> accepted e ->
  exists n, parse_arbitrary b = (0, n, hDst h, hSrc h) /\ n <= hParsedLen h.
Proof. exact arbitrary_agrees. Qed.
Print Assumptions C08_arbitrary_cids_agree.

(** ParseVersion, IsVersionNegotiationPacket and Is0RTTPacket depend on the first five bytes only;
    on shorter inputs they answer EOF / false / false. *)
Theorem C08_header_helpers_prefix_only : forall b rest, 5 <= zlen b ->
  parse_version (b ++ rest) = parse_version b /\ is_vneg (b ++ rest) = is_vneg b /\ is_0rtt (b ++ rest) = is_0rtt b.
Proof. exact prefix_only. Qed.
Print Assumptions C08_header_helpers_prefix_only.

Theorem C08_header_helpers_short_input : forall b, zlen b < 5 ->
  parse_version b = (E_EOF, 0) /\ is_vneg b = false /\ is_0rtt b = false.
Proof. exact short_input. Qed.
Print Assumptions C08_header_helpers_short_input.

(** they agree with the long-header parser: same version, and "Version Negotiation" = long header with version 0 *)
Theorem C08_version_agrees : forall b h e, parse_header b = Some (h, e) -> 6 <= zlen b ->
  parse_version b = (0, hVersion h) /\ is_vneg b = is_long (hTypeByte h) && (hVersion h =? 0).
Proof. exact version_agrees. Qed.
Print Assumptions C08_version_agrees.

Theorem C08_vneg_header : forall b h, parse_header b = Some (h, 0) -> 6 <= zlen b -> is_long (hd 0 b) = true ->
  (is_vneg b = true <-> hVersion h = 0).
Proof. exact vneg_header. Qed.
Print Assumptions C08_vneg_header.

(** ParseVersionNegotiationPacket consumes the whole packet: a non-empty list of 4-byte versions follows the header. *)
Theorem C08_vneg_consumed : forall b dst src vs,
  Forall is_byte b -> parse_vneg b = (0, dst, src, vs) ->
  vs <> [] /\ zlen b = 7 + zlen dst + zlen src + 4 * zlen vs.
Proof. exact vneg_consumed. Qed.
Print Assumptions C08_vneg_consumed.

Example C08_header_helpers_nonvacuous :
  let b := [192; 0; 0; 0; 1; 2; 10; 11; 1; 12; 0; 5; 1; 2; 3; 4; 5] in
  Forall is_byte b /\ (exists h, parse_header b = Some (h, 0) /\ hVersion h = 1) /\
  parse_arbitrary b = (0, 10, [10; 11], [12]) /\ parse_version b = (0, 1) /\ is_vneg b = false /\
  parse_vneg [200; 0; 0; 0; 0; 1; 7; 0; 0; 0; 0; 1] = (0, [7], [], [1]).
Proof.
  cbv zeta. split; [repeat constructor; unfold is_byte; lia|].
  split; [eexists; split; vm_compute; reflexivity|]. repeat split; vm_compute; reflexivity.
Qed.
Print Assumptions C08_header_helpers_nonvacuous.

(* ==== end headers ==== *)

(* ==== tickets and tokens (round 3) ==== *)
(** Session tickets (internal/handshake/session_ticket.go, model Wire/Tickets.v; this fork's ticket is
    the revision varint followed by the transport parameters in their ticket form, no RTT field) and
    the framing of address-validation tokens (model AmpToken/TokenModel.v of C14, whose `token` unit
    ties it to the code; the AEAD and encoding/asn1 are parameters). *)
From V Require Import Wire.Tickets Wire.TicketsProofs AmpToken.TokenModel AmpToken.TokenProofs.

Theorem C08_ticket_roundtrip : forall p,
  tp_wf_ticket p -> ticket_unmarshal (ticket_marshal p) = Ok (tp_norm_ticket p).
Proof. exact ticket_codec_roundtrip. Qed.
Print Assumptions C08_ticket_roundtrip.

(** rejections: nothing to read; any revision but the current one (the error carries it); a foreign
    parameter-marshaling version; a stray byte behind a valid ticket *)
Theorem C08_ticket_reject_empty : ticket_unmarshal [] = Err E_TK_READ 0.
Proof. exact ticket_reject_empty. Qed.
Print Assumptions C08_ticket_reject_empty.

Theorem C08_ticket_reject_revision : forall rev rest,
  vwf rev -> rev <> TK_Revision -> ticket_unmarshal (vappend rev ++ rest) = Err E_TK_REVISION rev.
Proof. exact ticket_reject_revision. Qed.
Print Assumptions C08_ticket_reject_revision.

Theorem C08_ticket_reject_param_version : forall v rest,
  vwf v -> v <> TP_MarshalVersion ->
  ticket_unmarshal (vappend TK_Revision ++ vappend v ++ rest) = Err E_TK_PARAMS 0.
Proof. exact ticket_reject_param_version. Qed.
Print Assumptions C08_ticket_reject_param_version.

Theorem C08_ticket_reject_trailing_byte : forall p x,
  tp_wf_ticket p -> is_byte x -> ticket_unmarshal (ticket_marshal p ++ [x]) = Err E_TK_PARAMS 0.
Proof. exact ticket_reject_trailing_byte. Qed.
Print Assumptions C08_ticket_reject_trailing_byte.

Example C08_ticket_nonvacuous :
  tp_wf_ticket ex_tp /\ TK_Revision = 5 /\
  ticket_unmarshal (ticket_marshal ex_tp) = Ok (tp_norm_ticket ex_tp) /\
  ticket_unmarshal (ticket_marshal ex_tp ++ [0]) = Err E_TK_PARAMS 0 /\
  ticket_unmarshal (4 :: tl (ticket_marshal ex_tp)) = Err E_TK_REVISION 4.
Proof.
  split; [exact ex_tp_wf_ticket|]. repeat split; vm_compute; reflexivity.
Qed.
Print Assumptions C08_ticket_nonvacuous.

(** Tokens: an issued token decodes to what was sealed exactly when the connection IDs of a Retry record
    fit 20 bytes, and to an error otherwise (the repaired DecodeToken, fixes/C08-6; C14's lemma) ... *)
Theorem C08_token_roundtrip :
  forall (K : Type) (prot_seal : K -> list Z -> list Z -> list Z)
         (prot_open : K -> list Z -> list Z -> option (list Z))
         (marshal : rec -> list Z) (unmarshal : list Z -> option (rec * list Z))
         (sealed : K -> list Z -> list Z -> Prop),
  oracles_correct prot_seal prot_open marshal unmarshal sealed ->
  forall k enc r, issued K prot_seal marshal sealed k enc r ->
  decode K prot_open unmarshal k enc = if cids_ok r then DTok (tok_of_rec r) else DErr.
Proof. exact decode_issued. Qed.
Print Assumptions C08_token_roundtrip.

(** both branches occur: a Retry record with a 21-byte connection ID is refused, ordinary ones are not *)
Example C08_token_roundtrip_branches :
  cids_ok (Rec true [4; 1] 7 0 (repeat 1 21) [2]) = false /\ cids_ok (Rec true [4; 1] 7 0 (repeat 1 20) [2]) = true /\
  cids_ok (Rec false [4; 1] 7 0 (repeat 1 21) []) = true.
Proof. repeat split; reflexivity. Qed.
Print Assumptions C08_token_roundtrip_branches.

(** ... and whatever is too short for the nonce, cannot be opened, or carries bytes behind the
    ASN.1 record is an error (never a token, never "no token"); only the empty string is "no token". *)
Theorem C08_token_reject_short : forall K prot_open unmarshal (k : K) enc,
  0 < zlen enc < tokenNonceSize -> decode K prot_open unmarshal k enc = DErr.
Proof. exact decode_short. Qed.
Print Assumptions C08_token_reject_short.

Theorem C08_token_reject_unopenable : forall K prot_open unmarshal (k : K) enc,
  enc <> [] -> (tokenNonceSize <= zlen enc -> prot_open k (firstn nonceLen enc) (skipn nonceLen enc) = None) ->
  decode K prot_open unmarshal k enc = DErr.
Proof. exact token_reject_unopenable. Qed.
Print Assumptions C08_token_reject_unopenable.

Theorem C08_token_reject_trailing : forall K prot_open unmarshal (k : K) enc data r rest,
  tokenNonceSize <= zlen enc ->
  prot_open k (firstn nonceLen enc) (skipn nonceLen enc) = Some data ->
  unmarshal data = Some (r, rest) -> rest <> [] ->
  decode K prot_open unmarshal k enc = DErr.
Proof. exact token_reject_trailing. Qed.
Print Assumptions C08_token_reject_trailing.

Theorem C08_token_nil_iff : forall K prot_open unmarshal (k : K) enc,
  decode K prot_open unmarshal k enc = DNil <-> enc = [].
Proof. exact decode_nil_iff. Qed.
Print Assumptions C08_token_nil_iff.

(** Round 3 — "total".  Every model parser is a Gallina function, so it is defined on every byte
    string; the content of the totality claim on the model side is that the fuel of its loops always
    suffices: the frame parser never answers with the artificial class 98 and the transport-parameter
    parser never with E_TP_FUEL (and `shrink_for_length_field` never with -1, see the C08_maxdatalen theorems).
    That the Go code does not panic where the model answers is observed (recover() in every harness
    call; exhaustively for all 1- and 2-byte payloads through implementation and model and all 3-byte
    payloads through the implementation, at all four levels, in the thorough tier), not proved. *)
From V Require Import Wire.TotalProofs.

Theorem C08_frame_parser_never_out_of_fuel : forall c lvl b e n, parse_next c lvl b = Err e n -> e <> 98.
Proof. exact parse_next_no_fuel. Qed.
Print Assumptions C08_frame_parser_never_out_of_fuel.

Theorem C08_tparams_never_out_of_fuel : forall pers ticket b c a, unmarshal pers ticket b = Err c a -> c <> E_TP_FUEL.
Proof. exact unmarshal_no_fuel. Qed.
Print Assumptions C08_tparams_never_out_of_fuel.

(* ==== end tickets and tokens ==== *)

(* ==== payload (round 4) ==== *)
(** Whole packet payloads: the frame loop of connection.handleFrames over the frame parser
    (model Wire/Payload.v, replayed against the real Conn.handleFrames of real client / server
    connection objects with and without a tracer: unit payload).  Handling a frame is outside the
    codec property: whether the handler of the i-th parsed frame fails is an oracle. *)
From V Require Import Wire.Payload Wire.PayloadProofs.

(** Every list of well-formed, self-delimiting frames that are known to the parser and allowed at the
    level, with any amount of PADDING in front of each frame and behind the last one, parses back to
    the list of the normalised frames ... *)
Theorem C08_payload_roundtrip : forall c lvl items trail fuel,
  Forall (item_ok c lvl) items ->
  (length (encode_payload items ++ repeat 0%Z trail) <= fuel)%nat ->
  parse_payload fuel c lvl (encode_payload items ++ repeat 0%Z trail) = Ok (map (fun it => norm c lvl (snd it)) items).
Proof. exact payload_roundtrip. Qed.
Print Assumptions C08_payload_roundtrip.

(** ... and the last frame may be one without a length field (STREAM / DATAGRAM to the end of the packet). *)
Theorem C08_payload_roundtrip_last : forall c lvl items k f enc fuel,
  Forall (item_ok c lvl) items ->
  wf_frame f -> append_frame f = Some enc ->
  type_valid c (frame_type f) = true -> type_allowed lvl (frame_type f) = true ->
  (length (encode_payload items ++ repeat 0%Z k ++ enc) <= fuel)%nat ->
  parse_payload fuel c lvl (encode_payload items ++ repeat 0%Z k ++ enc)
  = Ok (map (fun it => norm c lvl (snd it)) items ++ [norm c lvl f]).
Proof. exact payload_roundtrip_last. Qed.
Print Assumptions C08_payload_roundtrip_last.

Theorem C08_payload_never_out_of_fuel : forall fuel c lvl b e n,
  (length b <= fuel)%nat -> parse_payload fuel c lvl b = Err e n -> e <> 98.
Proof. exact parse_payload_no_fuel. Qed.
Print Assumptions C08_payload_never_out_of_fuel.

(** handleFrames on a payload that parses: the outcome is the loop over the parsed frames ... *)
Theorem C08_handle_frames_parsed : forall c lvl log fails b fs,
  parse_payload (length b) c lvl b = Ok fs ->
  handle_frames c lvl log fails b = run_list log fails 0 fs false false false false 0.
Proof. exact handle_frames_parsed. Qed.
Print Assumptions C08_handle_frames_parsed.

(** ... no handler fails: accepted, isAckEliciting / isNonProbing are the disjunctions over the
    frames, and the tracer (if any) is given every frame *)
Theorem C08_handle_frames_ok : forall log fails fs i ae np count,
  no_failure fails i (length fs) ->
  run_list log fails i fs ae np false false count =
  HOk (ae || existsb ack_eliciting fs) (np || existsb (fun f => negb (probing f)) fs)
      (if log then count + zlen fs else -1).
Proof. exact run_list_ok. Qed.
Print Assumptions C08_handle_frames_ok.

(** ... the first handler failure decides: its error is returned; with a tracer all frames are still
    given to the tracer (none of the later ones is handled), without one the callback is never called *)
Theorem C08_handle_frames_first_failure : forall log fails fs i j ae np count,
  (i <= j < i + length fs)%nat -> fails j = true -> no_failure fails i (j - i) ->
  run_list log fails i fs ae np false false count = HHandleErr (if log then count + zlen fs else -1).
Proof. exact run_list_first_failure. Qed.
Print Assumptions C08_handle_frames_first_failure.

(** Without a tracer nothing behind the frame whose handler failed is looked at (any bytes x) ... *)
Theorem C08_handle_frames_no_tracer_stops : forall c lvl fails items x,
  Forall (item_ok c lvl) items -> items <> [] ->
  fails (length items - 1)%nat = true -> no_failure fails 0 (length items - 1) ->
  handle_frames c lvl false fails (encode_payload items ++ x) = HHandleErr (-1).
Proof. exact handle_frames_no_tracer_stops. Qed.
Print Assumptions C08_handle_frames_no_tracer_stops.

(** ... whereas with a tracer a parse error anywhere in the payload is what handleFrames returns,
    whatever the handlers did before (the attached tracer changes which error closes the connection). *)
Theorem C08_handle_frames_tracer_parse_error : forall c lvl fails b e n,
  parse_payload (length b) c lvl b = Err e n -> handle_frames c lvl true fails b = HParseErr e.
Proof. exact handle_frames_tracer_parse_error. Qed.
Print Assumptions C08_handle_frames_tracer_parse_error.

Example C08_tracer_changes_the_error :
  let c := Cfg false false false 0 in
  let b := [1; 30; 33] in
  handle_frames c 4 false (fun i => Nat.eqb i 1) b = HHandleErr (-1) /\
  handle_frames c 4 true (fun i => Nat.eqb i 1) b = HParseErr 4.
Proof. exact tracer_changes_the_error. Qed.
Print Assumptions C08_tracer_changes_the_error.

Example C08_payload_nonvacuous :
  let c := Cfg false false false 0 in
  Forall (item_ok c 4) [(2%nat, FPing); (0%nat, FMaxData 70000); (1%nat, FStream 0 0 [104; 105] false true)] /\
  encode_payload [(2%nat, FPing); (0%nat, FMaxData 70000); (1%nat, FStream 0 0 [104; 105] false true)]
    = [0; 0; 1; 16; 128; 1; 17; 112; 0; 10; 0; 2; 104; 105].
Proof.
  cbv zeta. split; [|vm_compute; reflexivity].
  assert (V : forall v, 0 <= v <= 100000 -> vwf v) by (intros v Hv; unfold vwf, maxVarInt8; lia).
  constructor; [|constructor; [|constructor; [|constructor]]]; unfold item_ok; cbn [snd].
  - split; [exact I|]. split; [eexists; reflexivity|]. repeat split; reflexivity.
  - split; [apply V; lia|]. split; [eexists; reflexivity|]. repeat split; reflexivity.
  - split.
    + split; [apply V; lia|]. split; [apply V; lia|]. split; [vm_compute; discriminate|].
      split; [vm_compute; discriminate|]. left. reflexivity.
    + split; [eexists; reflexivity|]. repeat split; reflexivity.
Qed.
Print Assumptions C08_payload_nonvacuous.

(* ==== end payload ==== *)

(* ==== audit round: where "re-encoding what parsed gives the same result" does NOT hold ==== *)
(** (i) An empty STREAM frame without FIN is accepted by the parser but Append refuses to write it
    ("attempting to write empty frame without FIN"; by design, upstream's fuzz target says "we accept empty
    STREAM frames, but we don't write them"): C08_frame_reencode* assume [append_frame f = Some enc].
    (ii) The session-ticket form: UnmarshalFromSessionTicket accepts EVERY transport parameter while
    MarshalForSessionTicket writes nine fields, so parse -> marshal -> parse is a fixpoint only on those nine
    (tickets are sealed by the server that reads them; the harness compares the nine fields).
    Both are observations, not repaired; (iii) no re-encode theorem exists for short headers and Retry. *)
Example C08_reencode_empty_stream_refuted :
  parse_next (Cfg false false false 3) 4 [8; 0] = Ok (FStream 0 0 [] false false, 2, []) /\
  append_frame (FStream 0 0 [] false false) = None.
Proof. split; vm_compute; reflexivity. Qed.
Print Assumptions C08_reencode_empty_stream_refuted.

Example C08_ticket_reencode_refuted :
  match ticket_unmarshal (ticket_marshal ex_tp ++ [1; 1; 7] ++ [10; 1; 5]) with
  | Ok p1 =>
    match ticket_unmarshal (ticket_marshal p1) with
    | Ok p2 => tp_eqb p1 p2 = false /\ tp_ade p1 = 5 /\ tp_ade p2 = 3
    | Err _ _ => False
    end
  | Err _ _ => False
  end.
Proof. vm_compute. repeat split. Qed.
Print Assumptions C08_ticket_reencode_refuted.

(* ==== round 6 (add-only) ==== *)
From V Require Import Wire.UnreachableProofs Wire.FramesRejectViaProofs.

(** The model's "would be a bug / panic in Go" classes are unreachable from the parsers:
    E_TP_BUG never (any input, perspective, form); E_Panic / E_PNLen never from parseHeader / ParsePacket (any
    input), from ParseShortHeader with a connection ID length >= 0, from ParseConnectionID with a length in 0..20
    and from ParseExtended on non-empty data — the argument ranges the callers guarantee.  (_partial: outside those
    argument ranges the classes ARE reachable — that is what they model; ExtendedHeader.Append with
    Length > 16383 and AppendShortHeader with pnLen outside 1..4 are encoder-side and not covered.) *)
Theorem C08_model_errors_unreachable_partial :
  (forall pers ticket b c a, unmarshal pers ticket b = Err c a -> c <> E_TP_BUG) /\
  (forall b h e, parse_header b = Some (h, e) -> e <> E_Panic /\ e <> E_PNLen) /\
  (forall data c h pkt rest, parse_packet data = (c, h, pkt, rest) -> c <> E_Panic /\ c <> E_PNLen) /\
  (forall data k, 0 <= k -> fst (parse_short data k) <> E_Panic /\ fst (parse_short data k) <> E_PNLen) /\
  (forall data k, 0 <= k <= W_MaxConnIDLen ->
     fst (parse_connection_id data k) <> E_Panic /\ fst (parse_connection_id data k) <> E_PNLen) /\
  (forall h data, data <> [] -> fst (parse_extended h data) <> E_Panic /\ fst (parse_extended h data) <> E_PNLen).
Proof.
  exact (conj unmarshal_no_bug (conj parse_header_no_panic (conj parse_packet_no_panic
         (conj parse_short_no_panic (conj parse_connection_id_no_panic parse_extended_no_panic))))).
Qed.
Print Assumptions C08_model_errors_unreachable_partial.

(** Rejections THROUGH ParseType and the type dispatch, for any valid width of the varints in front. *)
Theorem C08_reject_stream_count_via_parse_next : forall c lvl t n w rest,
  In t [FT_BidiMaxStreams; FT_UniMaxStreams; FT_BidiStreamBlocked; FT_UniStreamBlocked] ->
  width_ok n w -> 2 ^ 60 < n -> type_allowed lvl t = true ->
  parse_next c lvl ([t] ++ vappend_len n w ++ rest) = Err 13 0.
Proof. exact reject_stream_count_via. Qed.
Print Assumptions C08_reject_stream_count_via_parse_next.

Theorem C08_reject_new_cid_via_parse_next : forall c lvl s ws r wr l rest,
  width_ok s ws -> width_ok r wr -> type_allowed lvl FT_NewConnectionID = true ->
  (s < r -> parse_next c lvl ([FT_NewConnectionID] ++ vappend_len s ws ++ vappend_len r wr ++ rest) = Err 15 0) /\
  (r <= s -> l = 0 -> parse_next c lvl ([FT_NewConnectionID] ++ vappend_len s ws ++ vappend_len r wr ++ l :: rest) = Err 16 0) /\
  (r <= s -> 20 < l -> parse_next c lvl ([FT_NewConnectionID] ++ vappend_len s ws ++ vappend_len r wr ++ l :: rest) = Err 17 0).
Proof. exact reject_new_cid_via. Qed.
Print Assumptions C08_reject_new_cid_via_parse_next.

Theorem C08_reject_reliable_size_via_parse_next : forall c lvl s ws e we fs wf rs wr rest,
  width_ok s ws -> width_ok e we -> width_ok fs wf -> width_ok rs wr -> fs < rs ->
  type_valid c FT_ResetStreamAt = true -> type_allowed lvl FT_ResetStreamAt = true ->
  parse_next c lvl ([FT_ResetStreamAt] ++ vappend_len s ws ++ vappend_len e we ++ vappend_len fs wf ++ vappend_len rs wr ++ rest) = Err 14 0.
Proof. exact reject_reliable_size_via. Qed.
Print Assumptions C08_reject_reliable_size_via_parse_next.

Theorem C08_reject_stream_overflow_via_parse_next : forall c lvl sid ws off wo data wl fin rest,
  width_ok sid ws -> width_ok off wo -> width_ok (zlen data) wl -> off <> 0 ->
  zlen data <= W_MaxPacketBufferSize -> W_MaxByteCount < off + zlen data ->
  type_allowed lvl (stream_type off fin true) = true ->
  parse_next c lvl ([stream_type off fin true] ++ vappend_len sid ws ++ vappend_len off wo ++ vappend_len (zlen data) wl ++ data ++ rest)
  = Err 12 0.
Proof. exact reject_stream_overflow_via. Qed.
Print Assumptions C08_reject_stream_overflow_via_parse_next.

Example C08_reject_via_parse_next_nonvacuous :
  width_ok (2 ^ 60 + 1) 8 /\ type_allowed 4 FT_UniMaxStreams = true /\
  parse_next (Cfg false false false 3) 4 ([FT_UniMaxStreams] ++ vappend_len (2 ^ 60 + 1) 8 ++ [1]) = Err 13 0 /\
  parse_next (Cfg false false false 3) 4 ([FT_NewConnectionID] ++ vappend_len 1 2 ++ vappend_len 0 4 ++ 21 :: [7]) = Err 17 0.
Proof. split; [unfold width_ok, vwf; repeat split; try (vm_compute; discriminate); auto|]. repeat split; vm_compute; reflexivity. Qed.
Print Assumptions C08_reject_via_parse_next_nonvacuous.

(** C08_payload_roundtrip / _last already cover STREAM (with length), DATAGRAM (with length, or without as the LAST
    frame) and every control frame: [item_ok] only asks for wf, Append, a known and allowed type and self-delimitation.
    Instance for the kinds C01 relies on (parser with DATAGRAM negotiated, 1-RTT): *)
Example C08_payload_kinds_covered :
  let c := Cfg true false false 3 in
  Forall (item_ok c 4) [(0%nat, FStream 4 100 [1; 2; 3] false true); (1%nat, FDatagram true [9; 9]); (0%nat, FMaxStreamData 4 5000)] /\
  wf_frame (FDatagram false [7; 7; 7]) /\ append_frame (FDatagram false [7; 7; 7]) = Some [48; 7; 7; 7] /\
  type_valid c (frame_type (FDatagram false [7; 7; 7])) = true /\ type_allowed 4 (frame_type (FDatagram false [7; 7; 7])) = true.
Proof.
  cbv zeta. assert (V : forall v, 0 <= v <= 100000 -> vwf v) by (intros v Hv; unfold vwf, maxVarInt8; lia).
  split; [|repeat split; try reflexivity; apply V; vm_compute; split; discriminate].
  constructor; [|constructor; [|constructor; [|constructor]]]; unfold item_ok; cbn [snd].
  - split.
    + split; [apply V; lia|]. split; [apply V; lia|]. split; [vm_compute; discriminate|].
      split; [vm_compute; discriminate|]. left. reflexivity.
    + split; [eexists; reflexivity|]. repeat split; reflexivity.
  - split; [apply V; vm_compute; split; discriminate|]. split; [eexists; reflexivity|]. repeat split; reflexivity.
  - split; [split; apply V; lia|]. split; [eexists; reflexivity|]. repeat split; reflexivity.
Qed.
Print Assumptions C08_payload_kinds_covered.
