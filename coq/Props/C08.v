(** C08 — wire codecs: total, consistent with length predictions, round-trip.
    Only statements live here; each is closed by [exact] of a lemma proved elsewhere. *)
From Coq Require Import List ZArith.
From V Require Import Gen.Params Wire.Varint Wire.VarintProofs.
Import ListNotations.
Open Scope Z_scope.

(** Every encodable varint parses back to itself, consuming exactly its predicted length,
    whatever follows it. *)
Theorem C08_varint_roundtrip : forall v rest, 0 <= v <= maxVarInt8 ->
  vparse (vappend v ++ rest) = inr (v, vlen v, rest).
Proof. exact vparse_vappend. Qed.
Print Assumptions C08_varint_roundtrip.

Theorem C08_varint_length : forall v, 0 <= v <= maxVarInt8 ->
  Z.of_nat (length (vappend v)) = vlen v.
Proof. exact vappend_length. Qed.
Print Assumptions C08_varint_length.

(* ==== tparams ==== *)
(** Transport parameters (internal/wire/transport_parameters.go), model Wire/TParams.v.
    [enc_params ps] is a list of well-delimited (id, value) parameters, [params_wf] says that
    ids and lengths are encodable varints, [varint_body body v] that [body] is exactly one varint
    of value [v] (minimal or padded), [is_err r] that [r] is an error of whatever class. *)
From V Require Import Lib.Hex Wire.FramesBase Wire.TParams Wire.TParamsProofs Wire.TParamsRoundtrip.

(** The parameter ids are the ones of RFC 9000 section 18.2, RFC 9221, reliable-stream-reset
    and ack-frequency drafts (an edited id breaks this proof). *)
Theorem C08_tparams_ids : known_ids =
  [0; 1; 2; 3; 4; 5; 6; 7; 8; 9; 10; 11; 12; 13; 14; 15; 16; 32; 6745883625174385; 4278509083].
Proof. exact (eq_refl known_ids). Qed.
Print Assumptions C08_tparams_ids.

(** The greased parameter Marshal sends first (id 27 + 31 * random byte) is never a known one. *)
Theorem C08_tparams_grease_unknown : forall k, 0 <= k < 256 -> ~ In (27 + 31 * k) known_ids.
Proof. exact grease_not_known. Qed.
Print Assumptions C08_tparams_grease_unknown.

(** Unmarshal (Marshal p) = norm p for both perspectives and every 18 random bytes: durations
    quantised to ms / us, max_idle_timeout raised to 5 s, max_udp_payload_size 0 -> 2^62-1,
    unusable preferred addresses dropped, server-only parameters absent for the client. *)
Theorem C08_tparams_roundtrip : forall pers rnd p,
  length rnd = 18%nat -> Forall is_byte rnd -> tp_wf p ->
  unmarshal pers false (marshal pers rnd p) = Ok (tp_norm pers p).
Proof. exact tparams_roundtrip. Qed.
Print Assumptions C08_tparams_roundtrip.

Theorem C08_tparams_ticket_roundtrip : forall p,
  tp_wf_ticket p -> unmarshal_ticket (marshal_ticket p) = Ok (tp_norm_ticket p).
Proof. exact ticket_roundtrip. Qed.
Print Assumptions C08_tparams_ticket_roundtrip.

(** A parameter list in which an id occurs twice is rejected (known, unknown or greased id,
    equal or different values, any distance), and appending a second copy of a parameter to any
    list makes it rejected; conversely what is accepted has pairwise distinct ids. *)
Theorem C08_reject_duplicate_tparam : forall pers ticket ps l1 x l2 l3,
  params_wf ps -> map fst ps = l1 ++ x :: l2 ++ x :: l3 ->
  is_err (unmarshal pers ticket (enc_params ps)).
Proof. exact reject_duplicate. Qed.
Print Assumptions C08_reject_duplicate_tparam.

Theorem C08_reject_duplicate_tparam_appended : forall pers ticket ps id body,
  params_wf ps -> param_wf (id, body) -> In id (map fst ps) ->
  is_err (unmarshal pers ticket (enc_params (ps ++ [(id, body)]))).
Proof. exact reject_duplicate_appended. Qed.
Print Assumptions C08_reject_duplicate_tparam_appended.

Theorem C08_accepted_tparams_distinct : forall pers ticket ps p,
  params_wf ps -> unmarshal pers ticket (enc_params ps) = Ok p -> NoDup (map fst ps).
Proof. exact accepted_nodup. Qed.
Print Assumptions C08_accepted_tparams_distinct.

(** Range rules.  First conjunct: rejected wherever the parameter stands among well-delimited
    parameters, whatever follows; second: the error class when it comes first. *)
Theorem C08_reject_ack_delay_exponent : forall pers ticket ps body v rest,
  params_wf ps -> varint_body body v -> 20 < v ->
  is_err (unmarshal pers ticket (enc_params ps ++ enc_param TP_ID_ade body ++ rest)) /\
  unmarshal pers ticket (enc_param TP_ID_ade body ++ rest) = Err E_TP_ADE 0.
Proof. exact reject_ack_delay_exponent. Qed.
Print Assumptions C08_reject_ack_delay_exponent.

Theorem C08_reject_max_ack_delay : forall pers ticket ps body v rest,
  params_wf ps -> varint_body body v -> 2 ^ 14 <= v ->
  is_err (unmarshal pers ticket (enc_params ps ++ enc_param TP_ID_mad body ++ rest)) /\
  unmarshal pers ticket (enc_param TP_ID_mad body ++ rest) = Err E_TP_MAD 0.
Proof. exact reject_max_ack_delay_pow. Qed.
Print Assumptions C08_reject_max_ack_delay.

Theorem C08_reject_max_udp_payload_size : forall pers ticket ps body v rest,
  params_wf ps -> varint_body body v -> v < 1200 ->
  is_err (unmarshal pers ticket (enc_params ps ++ enc_param TP_ID_mups body ++ rest)) /\
  unmarshal pers ticket (enc_param TP_ID_mups body ++ rest) = Err E_TP_MUPS 0.
Proof. exact reject_max_udp_payload_size. Qed.
Print Assumptions C08_reject_max_udp_payload_size.

Theorem C08_reject_active_cid_limit : forall pers ticket ps body v rest,
  params_wf ps -> varint_body body v -> v < 2 ->
  is_err (unmarshal pers ticket (enc_params ps ++ enc_param TP_ID_acil body ++ rest)) /\
  unmarshal pers ticket (enc_param TP_ID_acil body ++ rest) = Err E_TP_ACIL 0.
Proof. exact reject_active_cid_limit. Qed.
Print Assumptions C08_reject_active_cid_limit.

Theorem C08_reject_stream_count : forall pers ticket ps body v rest,
  params_wf ps -> varint_body body v -> 2 ^ 60 < v ->
  (is_err (unmarshal pers ticket (enc_params ps ++ enc_param TP_ID_mbs body ++ rest)) /\
   unmarshal pers ticket (enc_param TP_ID_mbs body ++ rest) = Err E_TP_STREAMS_BIDI 0) /\
  (is_err (unmarshal pers ticket (enc_params ps ++ enc_param TP_ID_mus body ++ rest)) /\
   unmarshal pers ticket (enc_param TP_ID_mus body ++ rest) = Err E_TP_STREAMS_UNI 0).
Proof. exact reject_stream_count_pow. Qed.
Print Assumptions C08_reject_stream_count.

(** original_destination_connection_id, stateless_reset_token, preferred_address and
    retry_source_connection_id sent by a client: rejected whatever length and value they have. *)
Theorem C08_reject_client_server_only : forall ticket ps id body rest,
  params_wf ps -> vwf (zlen body) -> In id [TP_ID_odcid; TP_ID_srt; TP_ID_pa; TP_ID_rscid] ->
  is_err (unmarshal Client ticket (enc_params ps ++ enc_param id body ++ rest)) /\
  exists c, unmarshal Client ticket (enc_param id body ++ rest) = Err c 0 /\
            In (id, c) [(TP_ID_odcid, E_TP_CLIENT_ODCID); (TP_ID_srt, E_TP_CLIENT_SRT);
                        (TP_ID_pa, E_TP_CLIENT_PA); (TP_ID_rscid, E_TP_CLIENT_RSCID)].
Proof. exact reject_client_server_only. Qed.
Print Assumptions C08_reject_client_server_only.

(** A parameter list without initial_source_connection_id (either sender), or a server's list
    without original_destination_connection_id, is rejected (not for session tickets). *)
Theorem C08_reject_missing_iscid : forall pers ps,
  params_wf ps -> ~ In TP_ID_iscid (map fst ps) -> is_err (unmarshal pers false (enc_params ps)).
Proof. exact reject_missing_iscid. Qed.
Print Assumptions C08_reject_missing_iscid.

Theorem C08_reject_missing_odcid : forall ps,
  params_wf ps -> ~ In TP_ID_odcid (map fst ps) -> is_err (unmarshal Server false (enc_params ps)).
Proof. exact reject_missing_odcid. Qed.
Print Assumptions C08_reject_missing_odcid.

(** Connection-ID parameters longer than 20 bytes. *)
Theorem C08_reject_cid_param_len : forall pers ticket ps id body rest,
  params_wf ps -> vwf (zlen body) -> In id [TP_ID_odcid; TP_ID_iscid; TP_ID_rscid] -> 20 < zlen body ->
  is_err (unmarshal pers ticket (enc_params ps ++ enc_param id body ++ rest)) /\
  (pers = Server \/ id = TP_ID_iscid -> unmarshal pers ticket (enc_param id body ++ rest) = Err E_TP_CID_LEN 0).
Proof. exact reject_cid_param_len. Qed.
Print Assumptions C08_reject_cid_param_len.

(** Non-vacuity: the hypotheses hold for concrete values, and the concrete instances evaluate to
    what the theorems say. *)
Example C08_tparams_wf_example :
  tp_wf ex_tp /\ tp_wf_ticket ex_tp /\ length ex_rnd = 18%nat /\ Forall is_byte ex_rnd /\
  unmarshal Server false (marshal Server ex_rnd ex_tp) = Ok (tp_norm Server ex_tp) /\
  unmarshal Client false (marshal Client ex_rnd ex_tp) = Ok (tp_norm Client ex_tp) /\
  tp_norm Server ex_tp <> tp_norm Client ex_tp /\
  unmarshal_ticket (marshal_ticket ex_tp) = Ok (tp_norm_ticket ex_tp).
Proof. exact ex_tp_roundtrip. Qed.
Print Assumptions C08_tparams_wf_example.

Example C08_tparams_params_example :
  params_wf ex_ps_server /\
  (exists p, unmarshal Server false (enc_params ex_ps_server) = Ok p /\ tp_imd p = 786432) /\
  unmarshal Server false (enc_params (ex_ps_server ++ [(TP_ID_imd, vappend 5)])) = Err E_TP_DUP TP_ID_imd /\
  unmarshal Server false (enc_params ((27, []) :: ex_ps_server)) = Err E_TP_DUP 27 /\
  varint_body (vappend 21) 21 /\ varint_body [64; 21] 21.
Proof. exact ex_params. Qed.
Print Assumptions C08_tparams_params_example.

Example C08_tparams_reject_example :
  unmarshal Server false (enc_params ex_ps_server ++ enc_param TP_ID_ade [64; 21] ++ [255]) = Err E_TP_ADE 0 /\
  unmarshal Server false (enc_params ex_ps_server ++ enc_param TP_ID_mad (vappend 16384)) = Err E_TP_MAD 0 /\
  unmarshal Server false (enc_params ex_ps_server ++ enc_param TP_ID_mups (vappend 1199)) = Err E_TP_MUPS 0 /\
  unmarshal Server false (enc_params ex_ps_server ++ enc_param TP_ID_acil (vappend 1)) = Err E_TP_ACIL 0 /\
  unmarshal Server false (enc_params ex_ps_server ++ enc_param TP_ID_mbs (vappend (TP_MaxStreamCount + 1))) = Err E_TP_STREAMS_BIDI 0 /\
  unmarshal Client false (enc_params [(TP_ID_iscid, [])] ++ enc_param TP_ID_srt (repeat 7 16)) = Err E_TP_CLIENT_SRT 0 /\
  unmarshal Client false (enc_params [(TP_ID_iscid, repeat 1 21)]) = Err E_TP_CID_LEN 0 /\
  unmarshal Client false (enc_params [(TP_ID_imd, vappend 9)]) = Err E_TP_MISSING_ISCID 0 /\
  unmarshal Server false (enc_params [(TP_ID_iscid, [1])]) = Err E_TP_MISSING_ODCID 0.
Proof. exact ex_range_rejected. Qed.
Print Assumptions C08_tparams_reject_example.
(* ==== end tparams ==== *)
