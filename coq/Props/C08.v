(** C08 — wire codecs: total, consistent with length predictions, round-trip.
    Only statements live here; each is closed by [exact] of a lemma proved elsewhere. *)
From Coq Require Import List ZArith.
From V Require Import Gen.Params Wire.Varint Wire.VarintProofs.
Import ListNotations.
Open Scope Z_scope.

(** Every encodable varint parses back to itself, consuming exactly its predicted length,
    whatever follows it. *)
Theorem C08_varint_roundtrip : forall v rest, 0 <= v <= maxVarInt8 ->
  vparse (vappend v ++ rest) = inr (v, vlen v, rest).
Proof. exact vparse_vappend. Qed.
Print Assumptions C08_varint_roundtrip.

Theorem C08_varint_length : forall v, 0 <= v <= maxVarInt8 ->
  Z.of_nat (length (vappend v)) = vlen v.
Proof. exact vappend_length. Qed.
Print Assumptions C08_varint_length.
