(** C10 — the Initial flight's headers, numbering, token and sizes are as the spec says.
    Only statements live here; each is closed by [exact] of a lemma proved in coq/UPacker.
    The model (UPacker.Model) is tied to /repo by the correspondence unit `upacker`. *)
From Coq Require Import List ZArith Bool.
From V Require Import Gen.Params Lib.Hex Wire.Varint Wire.Headers Wire.HeadersProofs
     PktProt.PktNum PktProt.PktNumProofs PktProt.Protect PktProt.ProtectProofs PktProt.ProtectExamples
     UFrames.Model UFrames.Proofs UFrames.ProofsLength Wire.FramesBase Wire.Frames
     PktProt.InitialProtect
     UPacker.Model UPacker.ProofsSize UPacker.ProofsFlight UPacker.ProofsDecrypt UPacker.ProofsRandom UPacker.ProofsWire UPacker.ProofsInitialKeys UPacker.ProofsFrames UPacker.ProofsFramesRandom UPacker.ProofsCover UPacker.ProofsTop.
Import ListNotations.
Open Scope Z_scope.

(** ** C10_header_fields *)

(** The k-th Initial packet a flight produces — for every spec, every ClientHello length, every
    builder kind and output, both the per-datagram path and a pre-planned flight, on a first
    connection (c_first = initialPN InitPacketNumber) and on the one a Dial re-creates after
    Version Negotiation (c_first = the previous connection's next packet number) — carries
    packet number c_first + k, the packet-number length PeekPacketNumber selects for that
    number with the list indexed from the SPEC's InitPacketNumber (not from c_first), a header of exactly the bytes the connection ID lengths, token and packet-number
    length add up to, a Length field of pnLen + |payload| + 16; it is sized by
    InitialPackets[k] (last entry repeating) whatever the builder kind; packet and datagram
    stay inside the 1452-byte packet buffer.  ([rp = false] holds by construction of the
    repaired model — every AppOk carries the literal — and is observed on the code by the
    harness's recover() around buffer.Release(); it is not an independent result.)
    There is no bound on k: the model's fuel is helloLen + 1 and never runs out
    (C10_flight_fuel_sufficient). *)
Theorem C10_header_fields : forall c helloLen plens k pn pnLen h fs lf pk dl ix rp,
  nth_error (flight c helloLen plens) k = Some (DG pn pnLen h fs lf pk dl ix rp) ->
  pn = c_first c + Z.of_nat k /\
  pnLen = peekPnLen (c_lens c) (c_single c) (pnBase (c_ipn c)) pn /\
  h = 1 + 4 + 1 + c_dcid c + 1 + c_scid c + pnLen + 2 + (vlen (c_tokLen c) + c_tokLen c) /\
  lf = pnLen + (pk - h - 16) + 16 /\
  pk <= 1452 /\ pk <= dl /\ dl <= 1452 /\ rp = false /\
  exists plen, appendInitial (planFor (c_plans c) (Z.of_nat k)) h pnLen plen (c_udpMin c) = AppOk lf pk dl rp.
Proof. exact t_C10_header_fields. Qed.
Print Assumptions C10_header_fields.

(** The first packet number is InitPacketNumber when that is a packet number (<= 2^62-1),
    and 0 beyond (such a spec is refused by dial, see C10_spec_validation). *)
Theorem C10_initial_pn : forall ipn, 0 <= ipn < 2 ^ 64 ->
  (ipn <= 2 ^ 62 - 1 -> initialPN ipn = ipn) /\ (2 ^ 62 - 1 < ipn -> initialPN ipn = 0) /\
  0 <= initialPN ipn <= 2 ^ 62 - 1.
Proof. exact t_C10_initial_pn. Qed.
Print Assumptions C10_initial_pn.

(** Per-packet list: packet i is encoded with entry min(i, n-1), for every valid first packet
    number; the single override applies to every packet; the default is 2..4 bytes. *)
Theorem C10_pn_len_list : forall lens single ipn i,
  lens <> [] -> 0 <= ipn <= 2 ^ 62 - 1 -> Z.of_nat i < 2 ^ 62 ->
  peekPnLen lens single (pnBase ipn) (initialPN ipn + Z.of_nat i) = nth (Nat.min i (length lens - 1)) lens 0.
Proof. exact t_C10_pn_len_list. Qed.
Print Assumptions C10_pn_len_list.

(** The connection one Dial re-creates after a Version Negotiation packet continues the packet
    number space (c_first = InitPacketNumber + k0, k0 packets sent before) and keeps indexing
    the length list from InitPacketNumber: its k-th packet has number InitPacketNumber + k0 + k
    and is encoded in entry min(k0 + k, n-1).  (The flight builder's budget, budgetAt, uses the
    same pnLenOf, so the two sites agree by construction.) *)
Theorem C10_pn_len_across_recreation : forall c helloLen plens k k0 pn pnLen h fs lf pk dl ix rp,
  nth_error (flight c helloLen plens) k = Some (DG pn pnLen h fs lf pk dl ix rp) ->
  c_lens c <> [] -> 0 <= c_ipn c <= 2 ^ 62 - 1 -> c_first c = c_ipn c + Z.of_nat k0 ->
  Z.of_nat (k0 + k) < 2 ^ 62 ->
  pn = c_ipn c + Z.of_nat (k0 + k) /\
  pnLen = nth (Nat.min (k0 + k) (length (c_lens c) - 1)) (c_lens c) 0.
Proof. exact t_C10_pn_len_across_recreation. Qed.
Print Assumptions C10_pn_len_across_recreation.

(** Non-vacuity / regression for seeded change C10-c: Chrome_146's numbering after two
    Initials of the first version -- packet numbers 3 and 4, both in two bytes. *)
Example C10_pn_len_across_recreation_example :
  flight {| c_dcid := 8; c_scid := 0; c_ipn := 1; c_first := 3; c_lens := [1; 2]; c_single := 0; c_tokLen := 0;
            c_bk := BPass; c_plans := []; c_udpMin := 0; c_maxSize := 1280 |} 1734 [] =
  [DG 3 2 20 [(0, 1240)] 1262 1280 1280 1 false; DG 4 2 20 [(1240, 494)] 517 535 1200 2 false].
Proof. exact t_C10_pn_len_across_recreation_example. Qed.
Print Assumptions C10_pn_len_across_recreation_example.

Theorem C10_pn_len_single_default : forall single base pn,
  (single <> 0 -> peekPnLen [] single base pn = single) /\ 2 <= peekPnLen [] 0 base pn <= 4.
Proof. exact t_C10_pn_len_single_default. Qed.
Print Assumptions C10_pn_len_single_default.

(** ** what dial refuses (InitialPacketSpec.validate) *)

(** A spec that UTransport.dial accepts has connection ID lengths a server processes, a first
    packet number that is a packet number and fits the bytes it is encoded in, packet-number
    lengths in 1..4, a UDP minimum of 0 (= 1200) or 1200..1452 and PacketSizes of 0 or
    1200..the connection's maximum packet size. *)
Theorem C10_spec_validation : forall scid dcid ipn lens single udpMin plans maxPacket,
  validateSpec scid dcid ipn lens single udpMin plans maxPacket = true ->
  0 <= scid <= 20 /\ (dcid = 0 \/ 8 <= dcid <= 20) /\
  ipn <= 2 ^ 62 - 1 /\ ipn < 2 ^ (8 * firstPnLen lens single ipn) /\
  Forall (fun l => 1 <= l <= 4) lens /\ single <= 4 /\
  (udpMin = 0 \/ 1200 <= udpMin <= 1452) /\
  Forall (fun p => 0 <= fst p /\ (snd p = 0 \/ 1200 <= snd p <= maxPacket)) plans.
Proof. exact t_C10_spec_validation. Qed.
Print Assumptions C10_spec_validation.

(** Hence the flight of an accepted spec starts at InitPacketNumber, its first packet uses
    the first configured length, and every receiver decodes that packet number (RFC 9000
    A.3 with nothing received yet). *)
Theorem C10_validated_first_packet : forall scid dcid ipn lens single udpMin plans maxPacket,
  0 <= ipn -> 0 <= single ->
  validateSpec scid dcid ipn lens single udpMin plans maxPacket = true ->
  let l := firstPnLen lens single ipn in
  initialPN ipn = ipn /\ peekPnLen lens single (pnBase ipn) (initialPN ipn) = l /\ valid_len l /\
  decodePN l (-1) (truncatePN l (initialPN ipn)) = initialPN ipn.
Proof. exact t_C10_validated_first_packet. Qed.
Print Assumptions C10_validated_first_packet.

(** The flight is as long as the code makes it: the model's fuel (helloLen + 1; every datagram
    takes at least one CRYPTO byte) never runs out, so the out-of-fuel value never appears and
    the k-th-packet theorems speak about every datagram, not the first ten. *)
Theorem C10_flight_fuel_sufficient : forall c helloLen plens, ~ In (DGErr 98) (flight c helloLen plens).
Proof. exact t_C10_flight_fuel_sufficient. Qed.
Print Assumptions C10_flight_fuel_sufficient.

Example C10_long_flight_example :
  length (flight (wcfg BPass [] 1 [(100, 1200)] 0) 1700 []) = 17%nat /\
  nth_error (flight (wcfg BPass [] 1 [(100, 1200)] 0) 1700 []) 16 = Some (DG 17 1 19 [(1600, 100)] 1182 1200 1200 17 false).
Proof. exact t_C10_long_flight_example. Qed.
Print Assumptions C10_long_flight_example.

(** validate, complete (audit round): dial also refuses a synthesised token that leaves no room
    for a CRYPTO byte in some packet of the flight, and a CryptoLength that its packet cannot
    hold, computed with the longest header the spec can produce. *)
Theorem C10_spec_validation_room : forall scid dcid ipn lens single udpMin plans maxPacket tokLen,
  validateSpecT scid dcid ipn lens single udpMin plans maxPacket tokLen = true ->
  validateSpec scid dcid ipn lens single udpMin plans maxPacket = true /\
  let mh := maxHdrLen scid dcid lens single tokLen in
  mh + 27 <= maxPacket /\
  Forall (fun p => mh + 27 <= planLimit maxPacket p /\
                   (0 < fst p -> mh + 1 + 4 + vlen (fst p) + fst p < planLimit maxPacket p - 16)) plans.
Proof. exact t_C10_spec_validation_room. Qed.
Print Assumptions C10_spec_validation_room.

(** Regression for the two audit findings (not-rejected/token-no-room: ClientTokenLength 1300 gave an
    empty flight and a dial that timed out; not-rejected/crypto-split/no-room: CryptoLength 1300
    was cut at 1241) and instances for all seven built-in fingerprints. *)
Example C10_validation_room_regression :
  validateSpec 0 8 1 [] 1 0 [] 1280 = true /\ validateSpecT 0 8 1 [] 1 0 [] 1280 1300 = false /\
  validateSpecT 0 8 1 [] 1 0 [] 1280 1240 = false /\ validateSpecT 0 8 1 [] 1 0 [] 1280 1233 = true /\
  validateSpec 0 8 1 [] 1 0 [(1300, 0)] 1280 = true /\ validateSpecT 0 8 1 [] 1 0 [(1300, 0)] 1280 0 = false /\
  validateSpecT 0 8 1 [] 1 0 [(1160, 1200)] 1280 0 = false /\
  validateSpecT 0 8 1 [1; 2] 0 0 [(999, 1200); (0, 1200)] 1280 70 = true /\
  validateSpecT 3 8 0 [] 1 1357 [] 1280 0 = true.
Proof. exact t_C10_validation_room_regression. Qed.
Print Assumptions C10_validation_room_regression.

Example C10_builtin_specs_accepted :
  validateSpecT 0 8 1 [] 1 0 [] 1280 0 = true /\          (* Chrome_115 IPv4 / IPv6 *)
  validateSpecT 0 8 1 [1; 2] 0 0 [] 1280 0 = true /\      (* Chrome_146 IPv4 / IPv6 *)
  validateSpecT 3 8 0 [] 1 1357 [] 1280 0 = true /\       (* Firefox_116A *)
  validateSpecT 3 9 0 [] 1 1357 [] 1280 0 = true /\       (* Firefox_116B *)
  validateSpecT 3 15 0 [] 1 1357 [] 1280 0 = true.        (* Firefox_116C *)
Proof. exact t_C10_builtin_specs_accepted. Qed.
Print Assumptions C10_builtin_specs_accepted.

Example C10_random_fits_chrome115 : random_fits (wcfg (BRandom [(1215, 3, 9, 9)]) [] 1 [] 0) [(1215, 3, 9, 9)].
Proof. exact t_C10_random_fits_chrome115. Qed.
Print Assumptions C10_random_fits_chrome115.

(** Regression: the inputs of the former findings pn-len/beyond-2^62, pn-range,
    decryptable/pn-not-decodable, dcid-len/below-8, size-rfc-min, release-panic and
    size-max/plan are refused; Chrome_146 with a plan and Firefox_116A are accepted. *)
Example C10_validation_regression :
  validateSpec 0 8 two62 [1; 2; 3] 0 0 [] 1280 = false /\
  validateSpec 0 8 (two64 - 1) [1; 2; 3] 0 0 [] 1280 = false /\
  validateSpec 0 8 300 [] 1 0 [] 1280 = false /\
  validateSpec 0 8 (two62 - 1) [4] 0 0 [] 1280 = false /\
  validateSpec 0 4 1 [] 1 0 [] 1280 = false /\
  validateSpec 0 8 1 [] 1 600 [] 1280 = false /\
  validateSpec 0 8 1 [] 1 1500 [] 1280 = false /\
  validateSpec 0 8 1 [] 1 0 [(0, 1400)] 1280 = false /\
  validateSpec 0 8 1 [1; 2] 0 0 [(999, 1200); (0, 1200)] 1280 = true /\
  validateSpec 3 8 0 [] 1 1357 [] 1280 = true.
Proof. exact t_C10_validation_regression. Qed.
Print Assumptions C10_validation_regression.

(** (The first arm restates the model's match on an explicit store; it is listed for
    completeness — the tie to the code is the FlightCase / DialCase token comparison.)
    Token: an explicit store's token as it is; otherwise, when ClientTokenLength or the prefix
    ask for one, max(ClientTokenLength, |prefix|) bytes starting with the prefix (the rest is
    the random source's output, for every output); otherwise what the Config's store has. *)
Theorem C10_token : forall ctl prefix tail conf,
  (forall t, resolveToken (Some t) ctl prefix tail conf = t) /\
  (Z.max ctl (Z.of_nat (length prefix)) > 0 ->
   (Z.to_nat (Z.max ctl (Z.of_nat (length prefix))) - length prefix <= length tail)%nat ->
   exists t, resolveToken None ctl prefix tail conf = Some t /\
             Z.of_nat (length t) = Z.max ctl (Z.of_nat (length prefix)) /\ firstn (length prefix) t = prefix) /\
  (ctl <= 0 -> prefix = [] -> resolveToken None ctl prefix tail conf = conf).
Proof. exact t_C10_token. Qed.
Print Assumptions C10_token.

(** The synthesised token is the prefix followed by the bytes the random source delivered
    and nothing else, so two dials of one spec send the same token exactly when crypto/rand
    delivered the same bytes: "fresh per dial" reduces to the oracle. *)
Theorem C10_token_prefix_oracle : forall ctl prefix tail conf,
  Z.max ctl (Z.of_nat (length prefix)) > 0 ->
  resolveToken None ctl prefix tail conf
  = Some (prefix ++ firstn (Z.to_nat (Z.max ctl (Z.of_nat (length prefix))) - length prefix) tail).
Proof. exact t_C10_token_prefix_oracle. Qed.
Print Assumptions C10_token_prefix_oracle.

Theorem C10_token_fresh_iff : forall ctl prefix tail1 tail2 conf1 conf2,
  Z.max ctl (Z.of_nat (length prefix)) > 0 ->
  let k := (Z.to_nat (Z.max ctl (Z.of_nat (length prefix))) - length prefix)%nat in
  (resolveToken None ctl prefix tail1 conf1 = resolveToken None ctl prefix tail2 conf2
   <-> firstn k tail1 = firstn k tail2).
Proof. exact t_C10_token_fresh_iff. Qed.
Print Assumptions C10_token_fresh_iff.

(** The synthesised token ON THE WIRE, for every (ClientTokenLength, ClientTokenPrefix) pair that
    asks for one: the Initial header carries the varint max(ClientTokenLength, |prefix|), then
    the whole prefix (never truncated), then bytes of the random source. *)
Theorem C10_wire_token : forall ver dcid scid ctl prefix tail conf lf pn pnLen,
  Z.max ctl (Z.of_nat (length prefix)) > 0 ->
  (Z.to_nat (Z.max ctl (Z.of_nat (length prefix))) - length prefix <= length tail)%nat ->
  (ver = H_Version1 \/ ver = H_Version2) -> zlen dcid <= 20 -> zlen scid <= 20 -> 0 <= lf <= 16383 -> 1 <= pnLen <= 4 ->
  Z.max ctl (Z.of_nat (length prefix)) <= maxVarInt8 ->
  let k := (Z.to_nat (Z.max ctl (Z.of_nat (length prefix))) - length prefix)%nat in
  exists t, resolveToken None ctl prefix tail conf = Some t /\
    t = prefix ++ firstn k tail /\ zlen t = Z.max ctl (zlen prefix) /\
    initialHeaderBytes ver dcid scid t lf pn pnLen
    = (0, (192 + 16 * type_code ver H_PacketTypeInitial + (pnLen - 1))
          :: (be 4 ver ++ [zlen dcid] ++ dcid ++ [zlen scid] ++ scid ++
              vappend (Z.max ctl (zlen prefix)) ++ (prefix ++ firstn k tail) ++ vappend_len lf 2)
          ++ pn_bytes (Z.to_nat pnLen) pn).
Proof. exact t_C10_wire_token. Qed.
Print Assumptions C10_wire_token.

(** e.g. a 3-byte prefix with ClientTokenLength 1 (seeded change C10-e truncated it to 1 byte) *)
Example C10_wire_token_example :
  resolveToken None 1 [7; 8; 9] [] None = Some [7; 8; 9] /\ resolveToken None 5 [7; 8; 9] [1; 2; 3] None = Some [7; 8; 9; 1; 2].
Proof. exact t_C10_wire_token_example. Qed.
Print Assumptions C10_wire_token_example.

Theorem C10_cid_lengths_by_construction : forall specScid specDcid drawn,
  dialScidLen specScid = specScid /\ (specDcid > 0 -> dialDcidLen specDcid drawn = specDcid) /\
  (specDcid <= 0 -> dialDcidLen specDcid drawn = drawn).
Proof. exact t_C10_cid_lengths_by_construction. Qed.
Print Assumptions C10_cid_lengths_by_construction.

(** ** C10_crypto_split_exact *)

(** With CryptoLength = c in [1, 16383], at least c bytes queued, and the budget below the
    packet's maximum (PacketSize when it is set below the maximum packet size, else the
    maximum packet size: the plan "leaves room"), exactly one CRYPTO frame of c bytes is
    popped for the datagram, for every write offset (every varint width of it), every header,
    every builder kind; the next datagram starts at off + c. *)
Theorem C10_crypto_split_exact : forall fuel hdr off rem maxSize c ps bk idx,
  1 <= c <= 16383 -> c <= rem ->
  0 < hdr + (1 + vlen off + vlen c + c) < (if (ps >? 0) && (ps <? maxSize) then ps else maxSize) - 16 ->
  popLoop (S fuel) off rem (initialBudget hdr off maxSize (c, ps) bk idx - hdr) = ([(off, c)], off + c, rem - c).
Proof. exact t_C10_crypto_split_exact. Qed.
Print Assumptions C10_crypto_split_exact.

Example C10_crypto_split_nonvacuous :
  1 <= 999 <= 16383 /\ 999 <= 1734 /\ 0 < 19 + (1 + vlen 0 + vlen 999 + 999) < 1200 - 16 /\
  flight (wcfg BPlain [] 1 [(999, 1200); (0, 1250)] 0) 1700 [1003; 705] =
  [DG 1 1 19 [(0, 999)] 1182 1200 1200 1 false; DG 2 1 19 [(999, 701)] 1232 1250 1250 2 false].
Proof. exact t_C10_crypto_split_nonvacuous. Qed.
Print Assumptions C10_crypto_split_nonvacuous.

(** ** QUICRandomFrames: the frames total exactly Length *)

(** For a QUICRandomFrames / QUICMultiDatagramFrames builder (Length > 0, MinPADDING >= 1, no
    CryptoLength) the datagram gets exactly n = maxCryptoData bytes of CRYPTO ... *)
Theorem C10_random_split_exact : forall fuel hdr off rem maxSize ps rfs idx rf,
  rfFor rfs idx = Some rf -> 0 < fst (fst (fst rf)) -> 1 <= snd (fst (fst rf)) ->
  let n := maxCryptoData rf off in
  1 <= n <= 16383 -> n <= rem ->
  0 < hdr + (1 + vlen off + vlen n + n) < (if (ps >? 0) && (ps <? maxSize) then ps else maxSize) - 16 ->
  popLoop (S fuel) off rem (initialBudget hdr off maxSize (0, ps) (BRandom rfs) idx - hdr) = ([(off, n)], off + n, rem - n).
Proof. exact t_C10_random_split_exact. Qed.
Print Assumptions C10_random_split_exact.

(** At flight level (exported for C11 as UPacker.ProofsFlight.flight_datagram_crypto_bound): in
    every flight built with a QUICRandomFrames / QUICMultiDatagramFrames builder whose spec fits
    (no CryptoLength; Length > 0, MinPADDING >= 1; header + one CRYPTO frame of maxCryptoData
    bytes below the packet's maximum), every datagram hands its builder entry ONE contiguous
    CRYPTO slice (o, n) with 0 < n <= maxCryptoData of that entry at that offset. *)
Theorem C10_flight_datagram_crypto_bound : forall c helloLen plens k rfs pn pnLen h fs lf pk dl ix rp,
  c_bk c = BRandom rfs -> rfs <> [] -> random_fits c rfs ->
  nth_error (flight c helloLen plens) k = Some (DG pn pnLen h fs lf pk dl ix rp) ->
  exists rf o n, rfFor rfs (Z.of_nat k) = Some rf /\ fs = [(o, n)] /\ 0 <= o /\ 0 < n <= maxCryptoData rf o.
Proof. exact t_C10_flight_datagram_crypto_bound. Qed.
Print Assumptions C10_flight_datagram_crypto_bound.

(** Non-vacuity: the Chrome_146 spec fits (for every datagram index and stream offset). *)
Example C10_random_fits_chrome146 : random_fits (wcfg (BRandom [(1215, 2, 3, 13)]) [1; 2] 0 [] 0) [(1215, 2, 3, 13)].
Proof. exact t_C10_random_fits_chrome146. Qed.
Print Assumptions C10_random_fits_chrome146.

(** ... and every way of cutting at most that many bytes into at most max(maxCRYPTO, 1) CRYPTO
    frames inside the slice, with at most maxPING PING frames, totals at most
    Length - MinPADDING bytes: the builder's PADDING then brings the frames to exactly Length,
    for every draw of its counts and cut points. *)
Theorem C10_random_reserve_sufficient : forall len minpad maxping maxcrypto off (fs : list (Z * Z)) pings,
  0 <= off -> 0 < len -> off + len <= maxVarInt8 ->
  0 < maxCryptoData (len, minpad, maxping, maxcrypto) off ->
  dataLen fs <= maxCryptoData (len, minpad, maxping, maxcrypto) off ->
  Z.of_nat (length fs) <= Z.max maxcrypto 1 ->
  Forall (fun f => fst f <= off + len /\ 0 <= snd f <= len) fs ->
  0 <= pings <= maxping ->
  pings + framesLen fs <= len - minpad.
Proof. exact t_C10_random_reserve_sufficient. Qed.
Print Assumptions C10_random_reserve_sufficient.

(** With C09's model of QUICRandomFrames.buildInternal in place of the oracle: on a slice of at
    most maxCryptoData bytes (what the packer pops, C10_random_split_exact) the payload the
    builder returns is exactly Length bytes long and holds at least MinPADDING bytes of PADDING,
    for every draw of both randomness sources ... *)
Theorem C10_random_payload_exact : forall p data base bs us ws bs' us',
  rf_wf p -> 0 <= base -> 0 < rfLen p -> 1 <= minPad p -> base + rfLen p <= maxVarInt8 ->
  0 < zlen data <= maxCryptoData (rfTuple p) base ->
  build_internal p data base bs us = UFrames.Model.Ok (ws, bs', us') ->
  zlen (encode ws) = rfLen p /\ minPad p <= wpadbytes ws.
Proof. exact t_C10_random_payload_exact. Qed.
Print Assumptions C10_random_payload_exact.

(** ... so a QUICRandomFrames-based datagram has the size the spec says, without any oracle for
    the payload length: header + Length + 16 (padded to the UDP minimum outside the packet),
    or exactly PacketSize where one is pinned and Length fits it. *)
Theorem C10_random_datagram_exact : forall p data base bs us ws bs' us' cl s hdr pnLen udpMin,
  rf_wf p -> 0 <= base -> 0 < rfLen p -> 1 <= minPad p -> base + rfLen p <= maxVarInt8 ->
  0 < zlen data <= maxCryptoData (rfTuple p) base ->
  build_internal p data base bs us = UFrames.Model.Ok (ws, bs', us') ->
  (hdr + rfLen p + 16 <= 1452 ->
   appendInitial (cl, 0) hdr pnLen (zlen (encode ws)) udpMin
   = AppOk (pnLen + rfLen p + 16) (hdr + rfLen p + 16)
           (Z.max (hdr + rfLen p + 16) (Z.min (if udpMin =? 0 then 1200 else udpMin) 1452)) false) /\
  (0 < s -> hdr + rfLen p + 16 <= s -> s <= 1452 ->
   appendInitial (cl, s) hdr pnLen (zlen (encode ws)) udpMin = AppOk (pnLen + (s - hdr - 16) + 16) s s false).
Proof. exact t_C10_random_datagram_exact. Qed.
Print Assumptions C10_random_datagram_exact.

Example C10_random_payload_nonvacuous :
  rf_wf ex_p /\ maxCryptoData (rfTuple ex_p) 0 = 1145 /\
  match build_internal ex_p (repeat 7 1145%nat) 0 ex_bs ex_us with
  | UFrames.Model.Ok (ws, _, _) => zlen (encode ws) = 1215 /\ wpadbytes ws = 23
  | _ => False
  end.
Proof. exact t_C10_random_payload_nonvacuous. Qed.
Print Assumptions C10_random_payload_nonvacuous.

(** Regression (findings size-frames/overshoot, size-max/builder on the Chrome_146 parrots):
    1145 bytes per datagram instead of 1195; datagrams of 1250 and 1251 bytes. *)
Example C10_random_reserve_regression :
  maxCryptoData (1215, 2, 3, 13) 0 = 1145 /\
  flight (wcfg (BRandom [(1215, 2, 3, 13)]) [1; 2] 0 [] 0) 1734 [1215; 1215] =
  [DG 1 1 19 [(0, 1145)] 1232 1250 1250 1 false; DG 2 2 20 [(1145, 589)] 1233 1251 1251 2 false].
Proof. exact t_C10_random_reserve_regression. Qed.
Print Assumptions C10_random_reserve_regression.

(** ** C10_exact_size *)

(** PacketSize = s > 0 and the frames fit: packet and datagram are exactly s bytes, nothing is
    appended outside the packet, Length = pnLen + |padded payload| + 16. *)
Theorem C10_exact_size : forall cl s hdr pnLen plen udpMin,
  0 < s -> hdr + plen + 16 <= s -> s <= 1452 ->
  appendInitial (cl, s) hdr pnLen plen udpMin = AppOk (pnLen + (s - hdr - 16) + 16) s s false.
Proof. exact t_C10_exact_size. Qed.
Print Assumptions C10_exact_size.

(** PacketSize = 0: the packet is header + frames + 16, Length = pnLen + |frames| + 16, and the
    datagram is max(packet, UDPDatagramMinSize or 1200, at most the 1452-byte buffer) — the
    excess lies outside the packet. *)
Theorem C10_udp_min_size : forall cl hdr pnLen plen udpMin,
  hdr + plen + 16 <= 1452 ->
  let mn := Z.min (if udpMin =? 0 then 1200 else udpMin) 1452 in
  appendInitial (cl, 0) hdr pnLen plen udpMin
  = AppOk (pnLen + plen + 16) (hdr + plen + 16) (Z.max (hdr + plen + 16) mn) false.
Proof. exact t_C10_udp_min_size. Qed.
Print Assumptions C10_udp_min_size.

(** For the pass-through builders (nil / empty QUICFrames) the frames always fit: the k-th
    datagram of every flight is exactly PacketSize where InitialPackets[k] pins one (with or
    without a CryptoLength), and otherwise within the maximum packet size. *)
Theorem C10_passthrough_sizes : forall c helloLen plens k pn pnLen h fs lf pk dl ix rp,
  c_bk c = BPass -> 0 <= c_maxSize c <= 16383 -> 0 <= h ->
  nth_error (flight c helloLen plens) k = Some (DG pn pnLen h fs lf pk dl ix rp) ->
  let ps := snd (planFor (c_plans c) (Z.of_nat k)) in
  (0 < ps <= c_maxSize c -> ps <= 1452 -> pk = ps /\ dl = ps) /\
  (ps = 0 -> (if c_udpMin c =? 0 then 1200 else c_udpMin c) <= c_maxSize c -> pk <= c_maxSize c /\ dl <= c_maxSize c).
Proof. exact t_C10_passthrough_sizes. Qed.
Print Assumptions C10_passthrough_sizes.

(** Regression (finding size-exact/frames-exceed, nil builder): PacketSize 1232, 1734-byte
    ClientHello — two datagrams of exactly 1232 bytes (was 1280). *)
Example C10_passthrough_sizes_regression :
  flight (wcfg BPass [] 1 [(0, 1232)] 0) 1734 [] =
  [DG 1 1 19 [(0, 1193)] 1214 1232 1232 1 false; DG 2 1 19 [(1193, 541)] 1214 1232 1232 2 false].
Proof. exact t_C10_passthrough_sizes_regression. Qed.
Print Assumptions C10_passthrough_sizes_regression.

(** STILL REFUTED for builders that re-frame (open finding .../size-exact/frames-exceed; the
    rejection the property asks for is pinned away by TestInitialPacketNumberFromSpec): frames
    that do not fit PacketSize are sent in a larger packet, without error. *)
Theorem C10_exact_size_refuted :
  (forall cl s hdr pnLen plen udpMin, 0 < s -> s < hdr + plen + 16 -> hdr + plen + 16 <= 1452 ->
     appendInitial (cl, s) hdr pnLen plen udpMin = AppOk (pnLen + plen + 16) (hdr + plen + 16) (hdr + plen + 16) false) /\
  (exists s hdr pnLen plen pk lf dl rp, appendInitial (0, s) hdr pnLen plen 0 = AppOk lf pk dl rp /\ s < pk).
Proof. exact t_C10_exact_size_refuted. Qed.
Print Assumptions C10_exact_size_refuted.

(** Regression (finding plan-index): nil builder, InitialPackets [{999,1200},{0,1250}] — the
    second datagram is 1250 bytes (was 1200). *)
Example C10_plan_index_regression :
  flight (wcfg BPass [] 1 [(999, 1200); (0, 1250)] 0) 1700 [] =
  [DG 1 1 19 [(0, 999)] 1182 1200 1200 1 false; DG 2 1 19 [(999, 701)] 1232 1250 1250 2 false].
Proof. exact t_C10_plan_index_regression. Qed.
Print Assumptions C10_plan_index_regression.

(** ** C10_fits_or_error *)

(** Whatever the builder returned and the plan asks: either the error is returned (exactly
    when header + padded payload + 16 exceeds the 1452-byte packet buffer), or packet and
    datagram are at most 1452 bytes and releasing the buffer does not panic. *)
Theorem C10_fits_or_error : forall plan hdr pnLen plen udpMin,
  match appendInitial plan hdr pnLen plen udpMin with
  | AppErr => hdr + paddedLen (snd plan) hdr plen + 16 > 1452
  | AppOk lf pl dl rp =>
    pl <= 1452 /\ pl = hdr + paddedLen (snd plan) hdr plen + 16 /\
    lf = pnLen + paddedLen (snd plan) hdr plen + 16 /\ pl <= dl /\ dl <= 1452 /\ rp = false
  end.
Proof. exact t_C10_fits_or_error. Qed.
Print Assumptions C10_fits_or_error.

(** Regression (finding upacker/release-panic): UDPDatagramMinSize 1500 — refused by dial; the
    packer pads to the buffer's end. *)
Example C10_release_panic_regression :
  appendInitial (0, 0) 19 1 504 1500 = AppOk 521 539 1452 false.
Proof. exact t_C10_release_panic_regression. Qed.
Print Assumptions C10_release_panic_regression.

(** The datagram stays within the connection's maximum packet size under three hypotheses:
    the second holds for every accepted spec (C10_spec_validation), the first for the
    pass-through builders (C10_passthrough_sizes), for QUICRandomFrames whose Length fits
    (C10_random_reserve_sufficient) and for planned flights (C10_flight_budget_fits). *)
Theorem C10_le_max_packet_size : forall plan hdr pnLen plen udpMin maxSize lf pl dl rp,
  appendInitial plan hdr pnLen plen udpMin = AppOk lf pl dl rp ->
  hdr + plen + 16 <= maxSize -> snd plan <= maxSize ->
  (snd plan = 0 -> (if udpMin =? 0 then 1200 else udpMin) <= maxSize) ->
  dl <= maxSize.
Proof. exact t_C10_le_max_packet_size. Qed.
Print Assumptions C10_le_max_packet_size.

(** The open finding .../size-max/udp-min, precisely (Firefox parrots: UDPDatagramMinSize 1357
    on a connection whose maximum packet size is 1280).  With PacketSize 0 the QUIC packet and
    its Length field do not depend on UDPDatagramMinSize; the DATAGRAM exceeds a maximum packet
    size that the packet respects exactly when the UDP minimum (capped by the buffer) does, and
    it then has exactly that size: the excess is zero padding behind the packet, but it is on
    the wire as a larger UDP datagram -- the property's "none exceeds the connection's current
    maximum packet size" speaks of datagrams and is violated by it (witness below). *)
Theorem C10_udp_min_excess : forall cl hdr pnLen plen udpMin maxSize,
  hdr + plen + 16 <= 1452 -> hdr + plen + 16 <= maxSize ->
  let mn := Z.min (if udpMin =? 0 then 1200 else udpMin) 1452 in
  exists dl, appendInitial (cl, 0) hdr pnLen plen udpMin = AppOk (pnLen + plen + 16) (hdr + plen + 16) dl false /\
             (maxSize < dl <-> maxSize < mn) /\ (maxSize < dl -> dl = mn).
Proof. exact t_C10_udp_min_excess. Qed.
Print Assumptions C10_udp_min_excess.

(** STILL REFUTED in general (open findings .../size-max/udp-min: Firefox_116A's 554-byte
    packet in a 1357-byte datagram on a 1280 connection; .../size-max/builder: a builder output that does not
    fit is not refused). *)
Theorem C10_le_max_packet_size_refuted :
  (exists lf, appendInitial (0, 0) 22 1 516 1357 = AppOk lf 554 1357 false) /\
  flight (wcfg BEx [] 1 [] 0) 1241 [1300] = [DG 1 1 19 [(0, 1241)] 1317 1335 1335 1 false].
Proof. exact t_C10_le_max_packet_size_refuted. Qed.
Print Assumptions C10_le_max_packet_size_refuted.

(** A planned datagram whose payload is within the budget offered for it (now computed with
    that packet's own packet-number length) has exactly its PacketSize, or stays within the
    maximum packet size. *)
Theorem C10_flight_budget_fits : forall c i plen,
  c_lens c <> [] \/ c_single c <> 0 -> 0 < budgetAt c i -> plen <= budgetAt c i ->
  let ps := snd (planFor (c_plans c) i) in
  (0 < ps <= 1452 ->
   appendInitial (planFor (c_plans c) i) (hdrOf c i) (pnLenOf c i) plen (c_udpMin c)
   = AppOk (pnLenOf c i + (ps - hdrOf c i - 16) + 16) ps ps false) /\
  (ps = 0 -> hdrOf c i + plen + 16 <= c_maxSize c).
Proof. exact t_C10_flight_budget_fits. Qed.
Print Assumptions C10_flight_budget_fits.

(** Regression (finding size-max/builder, flight part): InitPacketNumberLengths [1,4],
    PacketSize 1200 — budgets 1165 and 1162, both packets 1200 bytes; the payload of 1165
    bytes that used to make packet 1 1203 bytes long is refused. *)
Example C10_flight_budget_regression :
  flightBudgets (wcfg BFlight [1; 4] 0 [(0, 1200); (0, 1200)] 0) 1700 = [1165; 1162] /\
  flight (wcfg BFlight [1; 4] 0 [(0, 1200); (0, 1200)] 0) 1700 [1165; 1162] =
  [DG 1 1 19 [] 1182 1200 1200 1 false; DG 2 4 22 [] 1182 1200 1200 2 false] /\
  flight (wcfg BFlight [1; 4] 0 [(0, 1200); (0, 1200)] 0) 1700 [1165; 1165] = [DGErr 2].
Proof. exact t_C10_flight_budget_regression. Qed.
Print Assumptions C10_flight_budget_regression.

(** ** C10_decryptable *)

(** (v1 first-byte shape and C05's window form of the packet-number hypothesis; superseded by
    C10_server_reads_back, which covers both versions and the full range dial accepts.)
    On top of C05's round trip: for every AEAD that opens what it sealed with a 16-byte tag and
    every header-protection mask, the k-th packet of every flight, carrying any payload of
    the length the model computed (non-empty, packet number + payload >= 4 bytes), opens at a
    receiver that has opened the previous packet of the flight — or, for the first packet,
    has opened nothing and the packet number is inside the decode window — to the same first
    byte, packet number, packet-number length and payload; and the Length field is
    pnLen + |payload| + 16. *)
Theorem C10_decryptable :
  forall (aead_seal : Z -> Z -> list Z -> list Z -> list Z)
         (aead_open : Z -> Z -> list Z -> list Z -> option (list Z))
         (hp_mask : list Z -> list Z),
    (forall pn kp ad p, aead_open pn kp ad (aead_seal pn kp ad p) = Some p) ->
    (forall pn kp ad p, length (aead_seal pn kp ad p) = (length p + 16)%nat) ->
    forall c helloLen plens k pn pnLen h fs lf pk dl ix rp (mid payload : list Z) largest,
      nth_error (flight c helloLen plens) k = Some (DG pn pnLen h fs lf pk dl ix rp) ->
      1 <= pnLen <= 4 -> pn < 2 ^ 62 -> 0 <= c_first c ->
      Z.of_nat (length payload) = pk - h - 16 -> payload <> [] ->
      4 <= pnLen + Z.of_nat (length payload) ->
      (largest = pn - 1 \/ (largest = -1 /\ pn <= 2 ^ (pnLen * 8) / 2)) ->
      unprotect aead_open hp_mask true (1 + length mid) largest
        (protect aead_seal hp_mask true (mk_header (long_first 0 (Z.to_nat pnLen)) mid (Z.to_nat pnLen) pn) payload pn 0 (Z.to_nat pnLen))
      = UOk (long_first 0 (Z.to_nat pnLen)) pn pnLen 0 payload /\
      lf = pnLen + Z.of_nat (length payload) + 16.
Proof. exact t_C10_decryptable. Qed.
Print Assumptions C10_decryptable.

(** ** the serialised header, and what a server reads back *)

(** The bytes ExtendedHeader.Append writes for an Initial packet with these fields (C08's
    codec model applied to the header getLongHeader fills): first byte 0xc0 | type<<4 |
    (pnLen-1), version, DCID and SCID with their length bytes, token with its varint length,
    the Length field as a 2-byte varint, the low pnLen bytes of the packet number — and their
    number is the header length of the flight model. *)
Theorem C10_header_bytes : forall ver dcid scid token lf pn pnLen,
  (ver = H_Version1 \/ ver = H_Version2) -> zlen dcid <= 20 -> zlen scid <= 20 -> 0 <= lf <= 16383 ->
  1 <= pnLen <= 4 -> zlen token <= maxVarInt8 ->
  initialHeaderBytes ver dcid scid token lf pn pnLen
  = (0, (192 + 16 * type_code ver H_PacketTypeInitial + (pnLen - 1))
        :: (be 4 ver ++ [zlen dcid] ++ dcid ++ [zlen scid] ++ scid ++ vappend (zlen token) ++ token ++ vappend_len lf 2)
        ++ pn_bytes (Z.to_nat pnLen) pn) /\
  zlen (snd (initialHeaderBytes ver dcid scid token lf pn pnLen))
  = 1 + 4 + 1 + zlen dcid + 1 + zlen scid + pnLen + 2 + (vlen (zlen token) + zlen token).
Proof. exact t_C10_header_bytes. Qed.
Print Assumptions C10_header_bytes.

(** C10_decryptable at the level of bytes.  For every AEAD that opens what it sealed with a
    16-byte tag and every header-protection mask: take the k-th packet of any flight, its
    header serialised with connection IDs and token of the lengths the flight was computed
    with, any payload of the length the model computed (non-empty, packet number + payload
    >= 4 bytes), protected by encryptPacket.  A server that parses the long header of the
    bytes on the wire reads type Initial, the version, exactly that DCID, SCID and token and a
    Length that is exactly the rest of the packet; removing header protection at the offset
    the parser reports, decoding the packet number (having opened the previous packet of the
    flight, or nothing for a first packet whose number fits its encoding — exactly what dial
    accepts, C10_spec_validation / C10_validated_first_packet) and
    opening the AEAD gives back the first byte, the full packet number, its encoding length
    and the frames. *)
Theorem C10_server_reads_back :
  forall (aead_seal : Z -> Z -> list Z -> list Z -> list Z)
         (aead_open : Z -> Z -> list Z -> list Z -> option (list Z))
         (hp_mask : list Z -> list Z),
    (forall pn kp ad p, aead_open pn kp ad (aead_seal pn kp ad p) = Some p) ->
    (forall pn kp ad p, length (aead_seal pn kp ad p) = (length p + 16)%nat) ->
    forall c helloLen plens k pn pnLen h fs lf pk dl ix rp ver (dcid scid token payload : list Z) largest,
      nth_error (flight c helloLen plens) k = Some (DG pn pnLen h fs lf pk dl ix rp) ->
      (ver = H_Version1 \/ ver = H_Version2) ->
      zlen dcid = c_dcid c -> zlen scid = c_scid c -> zlen token = c_tokLen c ->
      zlen dcid <= 20 -> zlen scid <= 20 ->
      1 <= pnLen <= 4 -> pn < 2 ^ 62 -> 0 <= c_first c ->
      zlen payload = pk - h - 16 -> payload <> [] -> 4 <= pnLen + zlen payload ->
      (largest = pn - 1 \/ (largest = -1 /\ pn < 2 ^ (pnLen * 8))) ->
      let hb := initialHeaderBytes ver dcid scid token lf pn pnLen in
      let pkt := protect aead_seal hp_mask true (snd hb) payload pn 0 (Z.to_nat pnLen) in
      fst hb = 0 /\ zlen (snd hb) = h /\
      exists hd, parse_header pkt = Some (hd, 0) /\
        hType hd = H_PacketTypeInitial /\ hVersion hd = ver /\ hDst hd = dcid /\ hSrc hd = scid /\
        hToken hd = token /\ hLength hd = lf /\ hParsedLen hd = h - pnLen /\
        zlen pkt = hParsedLen hd + hLength hd /\
        unprotect aead_open hp_mask true (Z.to_nat (hParsedLen hd)) largest pkt
        = UOk (192 + 16 * type_code ver H_PacketTypeInitial + (pnLen - 1)) pn pnLen 0 payload.
Proof. exact t_C10_server_reads_back. Qed.
Print Assumptions C10_server_reads_back.

(** The same with NO cryptographic hypothesis: the packet protected with the client Initial
    keys of the connection's first Destination Connection ID for the packet's version (C05's
    Gallina HKDF-SHA256 key derivation, AES-128-GCM and AES-ECB header protection; the salts and
    labels are proved to be those of RFC 9001 5.2 / RFC 9369 3.3.1 in C05_initial_keys_rfc).
    These are the actual datagram bytes: unit upacker compares [initial_protect] of the model's
    header and the observed payload with the packet the real packer produced, byte for byte,
    for both versions (WireCase). *)
Theorem C10_server_reads_back_initial_keys :
  forall c helloLen plens k pn pnLen h fs lf pk dl ix rp ver (keyDcid dcid scid token payload : list Z) largest,
    nth_error (flight c helloLen plens) k = Some (DG pn pnLen h fs lf pk dl ix rp) ->
    (ver = H_Version1 \/ ver = H_Version2) ->
    zlen dcid = c_dcid c -> zlen scid = c_scid c -> zlen token = c_tokLen c ->
    zlen dcid <= 20 -> zlen scid <= 20 ->
    1 <= pnLen <= 4 -> pn < 2 ^ 62 -> 0 <= c_first c ->
    zlen payload = pk - h - 16 -> payload <> [] -> 4 <= pnLen + zlen payload ->
    (largest = pn - 1 \/ (largest = -1 /\ pn < 2 ^ (pnLen * 8))) ->
    let v2 := ver =? H_Version2 in
    let hb := initialHeaderBytes ver dcid scid token lf pn pnLen in
    let pkt := initial_protect v2 true keyDcid (snd hb) payload pn (Z.to_nat pnLen) in
    fst hb = 0 /\ zlen (snd hb) = h /\
    exists hd, parse_header pkt = Some (hd, 0) /\
      hType hd = H_PacketTypeInitial /\ hVersion hd = ver /\ hDst hd = dcid /\ hSrc hd = scid /\
      hToken hd = token /\ hLength hd = lf /\ hParsedLen hd = h - pnLen /\
      zlen pkt = hParsedLen hd + hLength hd /\
      initial_unprotect v2 true keyDcid (Z.to_nat (hParsedLen hd)) largest pkt
      = UOk (192 + 16 * type_code ver H_PacketTypeInitial + (pnLen - 1)) pn pnLen 0 payload.
Proof. exact t_C10_server_reads_back_initial_keys. Qed.
Print Assumptions C10_server_reads_back_initial_keys.

(** ... and the frames inside.  The payload of a pass-through datagram (nil / empty QUICFrames
    builder) is, byte for byte, the CRYPTO frames the packer popped -- C08's CRYPTO codec over
    the ClientHello bytes of their ranges -- followed by the exact-size PADDING (tied by
    PayloadCase); a server that parses it frame by frame at the Initial level with C08's frame
    parser (skipping PADDING, stopping at the end of the packet) reads exactly those CRYPTO
    frames, offsets and stream bytes. *)
Theorem C10_server_parses_passthrough : forall (c : Frames.cfg) data frames pad,
  Forall (fun f => 0 <= fst f <= maxVarInt8 /\ 0 <= snd f /\ fst f + snd f <= zlen data /\ snd f <= maxVarInt8) frames ->
  parseAll (S (length frames)) c W_EncryptionInitial (passPayload data frames pad)
  = Some (map (fun f => FramesBase.FCrypto (fst f) (zslice data (fst f) (snd f))) frames).
Proof. exact t_C10_server_parses_passthrough. Qed.
Print Assumptions C10_server_parses_passthrough.

Example C10_server_parses_passthrough_example :
  passPayload [10; 11; 12; 13; 14] [(0, 2); (2, 3)] 2 = [6; 0; 2; 10; 11; 6; 2; 3; 12; 13; 14; 0; 0] /\
  parseAll 3 (Cfg false false false 3) W_EncryptionInitial (passPayload [10; 11; 12; 13; 14] [(0, 2); (2, 3)] 2)
  = Some [FramesBase.FCrypto 0 [10; 11]; FramesBase.FCrypto 2 [12; 13; 14]].
Proof. exact t_C10_server_parses_passthrough_example. Qed.
Print Assumptions C10_server_parses_passthrough_example.

(** The same for a re-framing builder: C09's wire image of QUICRandomFrames.buildInternal's
    output, parsed with C08's frame codec, yields exactly the builder's PING and CRYPTO frames
    (PADDING skipped), and those CRYPTO frames partition the slice [base, base+|data|) with the
    ClientHello's bytes -- for every draw of both randomness sources. *)
Theorem C10_server_parses_random : forall (c : Frames.cfg) p data base bs us ws bs' us',
  rf_wf p -> 0 <= base -> base + zlen data <= maxVarInt8 ->
  build_internal p data base bs us = UFrames.Model.Ok (ws, bs', us') ->
  parseAll (S (length ws)) c W_EncryptionInitial (encode ws) = Some (wireFrames ws) /\
  exact_cover data base ws.
Proof. exact t_C10_server_parses_random. Qed.
Print Assumptions C10_server_parses_random.

(** Non-vacuity: the hypotheses hold for the first packet of a concrete flight (nil builder,
    8-byte DCID, no token, 1165 payload bytes) with C05's toy AEAD and mask. *)
Example C10_server_reads_back_nonvacuous :
  (forall pn kp ad p, toy_open pn kp ad (toy_seal pn kp ad p) = Some p) /\
  (forall pn kp ad p, length (toy_seal pn kp ad p) = (length p + 16)%nat) /\
  nth_error (flight (wcfg BPass [] 1 [(999, 1200); (0, 1250)] 0) 1700 []) 0 = Some (DG 1 1 19 [(0, 999)] 1182 1200 1200 1 false) /\
  zlen (repeat 7 8) = 8 /\ zlen (repeat 1 1165) = 1200 - 19 - 16 /\ repeat 1 1165 <> [] /\ 4 <= 1 + zlen (repeat 1 1165) /\
  1 < 2 ^ (1 * 8).
Proof. exact t_C10_server_reads_back_nonvacuous. Qed.
Print Assumptions C10_server_reads_back_nonvacuous.

(** The first packet of a connection is decoded to the sender's packet number exactly when
    the number fits its encoding (which dial now checks); later packets of the flight always
    are. *)
Theorem C10_first_pn_decodable_iff : forall len pn,
  valid_len len -> 0 <= pn < 2 ^ 62 ->
  (decodePN len (-1) (truncatePN len pn) = pn <-> pn < 2 ^ (len * 8)).
Proof. exact t_C10_first_pn_decodable_iff. Qed.
Print Assumptions C10_first_pn_decodable_iff.

Theorem C10_next_pn_decodable : forall len pn,
  valid_len len -> 1 <= pn < 2 ^ 62 -> decodePN len (pn - 1) (truncatePN len pn) = pn.
Proof. exact t_C10_next_pn_decodable. Qed.
Print Assumptions C10_next_pn_decodable.

(** Header protection samples 16 bytes starting 4 bytes after the packet number: they lie
    inside the packet (Length >= 20) whenever packet number + frames are at least 4 bytes. *)
Theorem C10_hp_sample_inside : forall plan hdr pnLen plen udpMin lf pl dl rp,
  appendInitial plan hdr pnLen plen udpMin = AppOk lf pl dl rp -> 4 <= pnLen + plen -> 20 <= lf.
Proof. exact t_C10_hp_sample_inside. Qed.
Print Assumptions C10_hp_sample_inside.


(** ** final round (add-only): the flight covers the ClientHello; datagrams are >= 1200 bytes *)

(** For every per-datagram builder kind (pass-through, plain, Ex, random): when no datagram of
    the flight fails (builder / buffer error; C10_fits_or_error says when) and every packet has
    header + tag + 11 bytes of room ([margin]: frame type, an offset varint of up to 8 bytes, the
    length byte and one data byte), the flight is NON-EMPTY and the CRYPTO ranges popped for its
    datagrams, in order, are non-empty, contiguous from offset 0 and add up to the whole
    ClientHello.  C09's flightLoop_chain / flightLoop_drains (imported read-only) with their
    [room] hypothesis discharged from [margin].
    _partial: dial's validation gives header + tag + 4 for the longest header the spec can
    produce (C10_validated_header_room below), not + 11 -- with a header exactly at the accepted
    limit the flight stalls once the write offset needs a 2-byte varint (C10_stall_witness; OPEN
    observation in UPacker/ProofsCover.v) -- and [no_dgerr] stays a hypothesis. *)
Theorem C10_accepted_flight_covers_hello_partial : forall c helloLen plens,
  c_bk c <> BFlight -> 0 < helloLen -> margin c ->
  UFrames.ProofsOnWireFlight.no_dgerr (flight c helloLen plens) ->
  let fs := concat (map UFrames.ProofsOnWireFlight.dg_frames (flight c helloLen plens)) in
  flight c helloLen plens <> [] /\
  UFrames.ProofsOnWire.rchain 0 fs /\ Forall UFrames.ProofsOnWire.range_pos fs /\
  UDial.Retx.total_len fs = helloLen.
Proof. exact accepted_flight_covers_hello. Qed.
Print Assumptions C10_accepted_flight_covers_hello_partial.

(** what validateSpecT gives towards [margin]: for the header the connection really uses (at most
    the longest one validate computed with), header + tag + 4 bytes fit every packet's maximum *)
Theorem C10_validated_header_room : forall c scid dcid ipn lens single udpMin maxPacket tokLen,
  validateSpecT scid dcid ipn lens single udpMin (c_plans c) maxPacket tokLen = true ->
  c_maxSize c = maxPacket ->
  (forall i, hdrOf c i <= maxHdrLen scid dcid lens single tokLen) ->
  forall i idx, hdrOf c i + 16 + 4 <= capAt c idx.
Proof. exact validated_margin_20. Qed.
Print Assumptions C10_validated_header_room.

Example C10_accepted_flight_covers_hello_nonvacuous :
  margin ex_cfg /\
  validateSpecT 0 8 1 [] 1 0 (c_plans ex_cfg) 1280 0 = true /\
  UFrames.ProofsOnWireFlight.no_dgerr (flight ex_cfg 1700 []) /\
  concat (map UFrames.ProofsOnWireFlight.dg_frames (flight ex_cfg 1700 [])) = [(0, 999); (999, 701)].
Proof. exact (conj ex_margin ex_covers). Qed.
Print Assumptions C10_accepted_flight_covers_hello_nonvacuous.

Example C10_stall_witness : maxDataLen 63 4 = 1 /\ maxDataLen 64 4 = 0.
Proof. exact stall_witness. Qed.
Print Assumptions C10_stall_witness.

(** Every datagram of a flight whose spec dial accepts is at least 1200 bytes long (RFC 9000
    14.1): exactly PacketSize >= 1200 where one is pinned (or more, C10_exact_size_refuted),
    else at least the UDP minimum, which is 1200 by default and >= 1200 when set
    (C10_udp_min_size / C10_exact_size / C10_spec_validation composed over the flight). *)
Theorem C10_accepted_datagram_ge_1200 : forall c scid dcid ipn lens single maxPacket helloLen plens k pn pnLen h fs lf pk dl ix rp,
  validateSpec scid dcid ipn lens single (c_udpMin c) (c_plans c) maxPacket = true ->
  nth_error (flight c helloLen plens) k = Some (DG pn pnLen h fs lf pk dl ix rp) ->
  1200 <= dl.
Proof. exact accepted_datagram_ge_1200. Qed.
Print Assumptions C10_accepted_datagram_ge_1200.

(** With the repaired room check (fixes/C10-validate-room-for-offset-varint.patch: validate demands
    header + tag + 11 for the longest header the spec can produce) [margin] follows from dial's
    validation: for a spec dial accepts, a per-datagram builder and a flight without a failing
    datagram, the flight is non-empty and its CRYPTO ranges are contiguous from 0 and add up to the
    whole ClientHello.  (_partial: [no_dgerr] remains a hypothesis.)  Regression for the stall:
    ClientTokenLength 1240 on a 1280-byte connection is refused now, 1233 is the largest accepted
    (C10_validation_room_regression). *)
Theorem C10_accepted_flight_covers_hello_validated_partial :
  forall c helloLen plens scid dcid ipn lens single udpMin maxPacket tokLen,
  validateSpecT scid dcid ipn lens single udpMin (c_plans c) maxPacket tokLen = true ->
  c_maxSize c = maxPacket -> (forall i, hdrOf c i <= maxHdrLen scid dcid lens single tokLen) ->
  c_bk c <> BFlight -> 0 < helloLen ->
  UFrames.ProofsOnWireFlight.no_dgerr (flight c helloLen plens) ->
  let fs := concat (map UFrames.ProofsOnWireFlight.dg_frames (flight c helloLen plens)) in
  flight c helloLen plens <> [] /\
  UFrames.ProofsOnWire.rchain 0 fs /\ Forall UFrames.ProofsOnWire.range_pos fs /\
  UDial.Retx.total_len fs = helloLen.
Proof. exact accepted_flight_covers_hello_validated. Qed.
Print Assumptions C10_accepted_flight_covers_hello_validated_partial.
