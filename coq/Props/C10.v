(** C10 — the Initial flight's headers, numbering, token and sizes are as the spec says.
    Only statements live here; each is closed by [exact] of a lemma proved in coq/UPacker.
    The model (UPacker.Model) is tied to /repo by the correspondence unit `upacker`. *)
From Coq Require Import List ZArith Bool.
From V Require Import Gen.Params Wire.Varint PktProt.PktNum PktProt.PktNumProofs PktProt.Protect PktProt.ProtectProofs
     UPacker.Model UPacker.ProofsSize UPacker.ProofsFlight UPacker.ProofsDecrypt UPacker.ProofsTop.
Import ListNotations.
Open Scope Z_scope.

(** ** C10_header_fields *)

(** The k-th Initial packet a flight produces — for every spec, every ClientHello length, every
    builder kind and output, both the per-datagram path and a pre-planned flight — carries
    packet number initialPN + k, the packet-number length PeekPacketNumber selects for that
    number, a header of exactly the bytes the connection ID lengths, token and packet-number
    length add up to, a Length field of pnLen + |payload| + 16; it is sized by
    InitialPackets[k] (last entry repeating) whatever the builder kind; packet and datagram
    stay inside the 1452-byte packet buffer and releasing the buffer never panics. *)
Theorem C10_header_fields : forall c helloLen plens k pn pnLen h fs lf pk dl ix rp,
  nth_error (flight c helloLen plens) k = Some (DG pn pnLen h fs lf pk dl ix rp) ->
  pn = initialPN (c_ipn c) + Z.of_nat k /\
  pnLen = peekPnLen (c_lens c) (c_single c) (pnBase (c_ipn c)) pn /\
  h = 1 + 4 + 1 + c_dcid c + 1 + c_scid c + pnLen + 2 + (vlen (c_tokLen c) + c_tokLen c) /\
  lf = pnLen + (pk - h - 16) + 16 /\
  pk <= 1452 /\ pk <= dl /\ dl <= 1452 /\ rp = false /\
  exists plen, appendInitial (planFor (c_plans c) (Z.of_nat k)) h pnLen plen (c_udpMin c) = AppOk lf pk dl rp.
Proof. exact t_C10_header_fields. Qed.
Print Assumptions C10_header_fields.

(** The first packet number is InitPacketNumber when that is a packet number (<= 2^62-1),
    and 0 beyond (such a spec is refused by dial, see C10_spec_validation). *)
Theorem C10_initial_pn : forall ipn, 0 <= ipn < 2 ^ 64 ->
  (ipn <= 2 ^ 62 - 1 -> initialPN ipn = ipn) /\ (2 ^ 62 - 1 < ipn -> initialPN ipn = 0) /\
  0 <= initialPN ipn <= 2 ^ 62 - 1.
Proof. exact t_C10_initial_pn. Qed.
Print Assumptions C10_initial_pn.

(** Per-packet list: packet i is encoded with entry min(i, n-1), for every valid first packet
    number; the single override applies to every packet; the default is 2..4 bytes. *)
Theorem C10_pn_len_list : forall lens single ipn i,
  lens <> [] -> 0 <= ipn <= 2 ^ 62 - 1 -> Z.of_nat i < 2 ^ 62 ->
  peekPnLen lens single (pnBase ipn) (initialPN ipn + Z.of_nat i) = nth (Nat.min i (length lens - 1)) lens 0.
Proof. exact t_C10_pn_len_list. Qed.
Print Assumptions C10_pn_len_list.

Theorem C10_pn_len_single_default : forall single base pn,
  (single <> 0 -> peekPnLen [] single base pn = single) /\ 2 <= peekPnLen [] 0 base pn <= 4.
Proof. exact t_C10_pn_len_single_default. Qed.
Print Assumptions C10_pn_len_single_default.

(** ** what dial refuses (InitialPacketSpec.validate) *)

(** A spec that UTransport.dial accepts has connection ID lengths a server processes, a first
    packet number that is a packet number and fits the bytes it is encoded in, packet-number
    lengths in 1..4, a UDP minimum of 0 (= 1200) or 1200..1452 and PacketSizes of 0 or
    1200..the connection's maximum packet size. *)
Theorem C10_spec_validation : forall scid dcid ipn lens single udpMin plans maxPacket,
  validateSpec scid dcid ipn lens single udpMin plans maxPacket = true ->
  0 <= scid <= 20 /\ (dcid = 0 \/ 8 <= dcid <= 20) /\
  ipn <= 2 ^ 62 - 1 /\ ipn < 2 ^ (8 * firstPnLen lens single ipn) /\
  Forall (fun l => 1 <= l <= 4) lens /\ single <= 4 /\
  (udpMin = 0 \/ 1200 <= udpMin <= 1452) /\
  Forall (fun p => 0 <= fst p /\ (snd p = 0 \/ 1200 <= snd p <= maxPacket)) plans.
Proof. exact t_C10_spec_validation. Qed.
Print Assumptions C10_spec_validation.

(** Hence the flight of an accepted spec starts at InitPacketNumber, its first packet uses
    the first configured length, and every receiver decodes that packet number (RFC 9000
    A.3 with nothing received yet). *)
Theorem C10_validated_first_packet : forall scid dcid ipn lens single udpMin plans maxPacket,
  0 <= ipn -> 0 <= single ->
  validateSpec scid dcid ipn lens single udpMin plans maxPacket = true ->
  let l := firstPnLen lens single ipn in
  initialPN ipn = ipn /\ peekPnLen lens single (pnBase ipn) (initialPN ipn) = l /\ valid_len l /\
  decodePN l (-1) (truncatePN l (initialPN ipn)) = initialPN ipn.
Proof. exact t_C10_validated_first_packet. Qed.
Print Assumptions C10_validated_first_packet.

(** Regression: the inputs of the former findings pn-len/beyond-2^62, pn-range,
    decryptable/pn-not-decodable, dcid-len/below-8, size-rfc-min, release-panic and
    size-max/plan are refused; Chrome_146 with a plan and Firefox_116A are accepted. *)
Example C10_validation_regression :
  validateSpec 0 8 two62 [1; 2; 3] 0 0 [] 1280 = false /\
  validateSpec 0 8 (two64 - 1) [1; 2; 3] 0 0 [] 1280 = false /\
  validateSpec 0 8 300 [] 1 0 [] 1280 = false /\
  validateSpec 0 8 (two62 - 1) [4] 0 0 [] 1280 = false /\
  validateSpec 0 4 1 [] 1 0 [] 1280 = false /\
  validateSpec 0 8 1 [] 1 600 [] 1280 = false /\
  validateSpec 0 8 1 [] 1 1500 [] 1280 = false /\
  validateSpec 0 8 1 [] 1 0 [(0, 1400)] 1280 = false /\
  validateSpec 0 8 1 [1; 2] 0 0 [(999, 1200); (0, 1200)] 1280 = true /\
  validateSpec 3 8 0 [] 1 1357 [] 1280 = true.
Proof. exact t_C10_validation_regression. Qed.
Print Assumptions C10_validation_regression.

(** Token: an explicit store's token as it is; otherwise, when ClientTokenLength or the prefix
    ask for one, max(ClientTokenLength, |prefix|) bytes starting with the prefix (the rest is
    the random source's output, for every output); otherwise what the Config's store has. *)
Theorem C10_token : forall ctl prefix tail conf,
  (forall t, resolveToken (Some t) ctl prefix tail conf = t) /\
  (Z.max ctl (Z.of_nat (length prefix)) > 0 ->
   (Z.to_nat (Z.max ctl (Z.of_nat (length prefix))) - length prefix <= length tail)%nat ->
   exists t, resolveToken None ctl prefix tail conf = Some t /\
             Z.of_nat (length t) = Z.max ctl (Z.of_nat (length prefix)) /\ firstn (length prefix) t = prefix) /\
  (ctl <= 0 -> prefix = [] -> resolveToken None ctl prefix tail conf = conf).
Proof. exact t_C10_token. Qed.
Print Assumptions C10_token.

Theorem C10_cid_lengths : forall specScid specDcid drawn,
  dialScidLen specScid = specScid /\ (specDcid > 0 -> dialDcidLen specDcid drawn = specDcid) /\
  (specDcid <= 0 -> dialDcidLen specDcid drawn = drawn).
Proof. exact t_C10_cid_lengths. Qed.
Print Assumptions C10_cid_lengths.

(** ** C10_crypto_split_exact *)

(** With CryptoLength = c in [1, 16383], at least c bytes queued, and the budget below the
    packet's maximum (PacketSize when it is set below the maximum packet size, else the
    maximum packet size: the plan "leaves room"), exactly one CRYPTO frame of c bytes is
    popped for the datagram, for every write offset (every varint width of it), every header,
    every builder kind; the next datagram starts at off + c. *)
Theorem C10_crypto_split_exact : forall fuel hdr off rem maxSize c ps bk idx,
  1 <= c <= 16383 -> c <= rem ->
  0 < hdr + (1 + vlen off + vlen c + c) < (if (ps >? 0) && (ps <? maxSize) then ps else maxSize) - 16 ->
  popLoop (S fuel) off rem (initialBudget hdr off maxSize (c, ps) bk idx - hdr) = ([(off, c)], off + c, rem - c).
Proof. exact t_C10_crypto_split_exact. Qed.
Print Assumptions C10_crypto_split_exact.

Example C10_crypto_split_nonvacuous :
  1 <= 999 <= 16383 /\ 999 <= 1734 /\ 0 < 19 + (1 + vlen 0 + vlen 999 + 999) < 1200 - 16 /\
  flight (wcfg BPlain [] 1 [(999, 1200); (0, 1250)] 0) 1700 [1003; 705] =
  [DG 1 1 19 [(0, 999)] 1182 1200 1200 1 false; DG 2 1 19 [(999, 701)] 1232 1250 1250 2 false].
Proof. exact t_C10_crypto_split_nonvacuous. Qed.
Print Assumptions C10_crypto_split_nonvacuous.

(** ** QUICRandomFrames: the frames total exactly Length *)

(** For a QUICRandomFrames / QUICMultiDatagramFrames builder (Length > 0, MinPADDING >= 1, no
    CryptoLength) the datagram gets exactly n = maxCryptoData bytes of CRYPTO ... *)
Theorem C10_random_split_exact : forall fuel hdr off rem maxSize ps rfs idx rf,
  rfFor rfs idx = Some rf -> 0 < fst (fst (fst rf)) -> 1 <= snd (fst (fst rf)) ->
  let n := maxCryptoData rf off in
  1 <= n <= 16383 -> n <= rem ->
  0 < hdr + (1 + vlen off + vlen n + n) < (if (ps >? 0) && (ps <? maxSize) then ps else maxSize) - 16 ->
  popLoop (S fuel) off rem (initialBudget hdr off maxSize (0, ps) (BRandom rfs) idx - hdr) = ([(off, n)], off + n, rem - n).
Proof. exact t_C10_random_split_exact. Qed.
Print Assumptions C10_random_split_exact.

(** ... and every way of cutting at most that many bytes into at most max(maxCRYPTO, 1) CRYPTO
    frames inside the slice, with at most maxPING PING frames, totals at most
    Length - MinPADDING bytes: the builder's PADDING then brings the frames to exactly Length,
    for every draw of its counts and cut points. *)
Theorem C10_random_reserve_sufficient : forall len minpad maxping maxcrypto off (fs : list (Z * Z)) pings,
  0 <= off -> 0 < len -> off + len <= maxVarInt8 ->
  0 < maxCryptoData (len, minpad, maxping, maxcrypto) off ->
  dataLen fs <= maxCryptoData (len, minpad, maxping, maxcrypto) off ->
  Z.of_nat (length fs) <= Z.max maxcrypto 1 ->
  Forall (fun f => fst f <= off + len /\ 0 <= snd f <= len) fs ->
  0 <= pings <= maxping ->
  pings + framesLen fs <= len - minpad.
Proof. exact t_C10_random_reserve_sufficient. Qed.
Print Assumptions C10_random_reserve_sufficient.

(** Regression (findings size-frames/overshoot, size-max/builder on the Chrome_146 parrots):
    1145 bytes per datagram instead of 1195; datagrams of 1250 and 1251 bytes. *)
Example C10_random_reserve_regression :
  maxCryptoData (1215, 2, 3, 13) 0 = 1145 /\
  flight (wcfg (BRandom [(1215, 2, 3, 13)]) [1; 2] 0 [] 0) 1734 [1215; 1215] =
  [DG 1 1 19 [(0, 1145)] 1232 1250 1250 1 false; DG 2 2 20 [(1145, 589)] 1233 1251 1251 2 false].
Proof. exact t_C10_random_reserve_regression. Qed.
Print Assumptions C10_random_reserve_regression.

(** ** C10_exact_size *)

(** PacketSize = s > 0 and the frames fit: packet and datagram are exactly s bytes, nothing is
    appended outside the packet, Length = pnLen + |padded payload| + 16. *)
Theorem C10_exact_size : forall cl s hdr pnLen plen udpMin,
  0 < s -> hdr + plen + 16 <= s -> s <= 1452 ->
  appendInitial (cl, s) hdr pnLen plen udpMin = AppOk (pnLen + (s - hdr - 16) + 16) s s false.
Proof. exact t_C10_exact_size. Qed.
Print Assumptions C10_exact_size.

(** PacketSize = 0: the packet is header + frames + 16, Length = pnLen + |frames| + 16, and the
    datagram is max(packet, UDPDatagramMinSize or 1200, at most the 1452-byte buffer) — the
    excess lies outside the packet. *)
Theorem C10_udp_min_size : forall cl hdr pnLen plen udpMin,
  hdr + plen + 16 <= 1452 ->
  let mn := Z.min (if udpMin =? 0 then 1200 else udpMin) 1452 in
  appendInitial (cl, 0) hdr pnLen plen udpMin
  = AppOk (pnLen + plen + 16) (hdr + plen + 16) (Z.max (hdr + plen + 16) mn) false.
Proof. exact t_C10_udp_min_size. Qed.
Print Assumptions C10_udp_min_size.

(** For the pass-through builders (nil / empty QUICFrames) the frames always fit: the k-th
    datagram of every flight is exactly PacketSize where InitialPackets[k] pins one (with or
    without a CryptoLength), and otherwise within the maximum packet size. *)
Theorem C10_passthrough_sizes : forall c helloLen plens k pn pnLen h fs lf pk dl ix rp,
  c_bk c = BPass -> 0 <= c_maxSize c <= 16383 -> 0 <= h ->
  nth_error (flight c helloLen plens) k = Some (DG pn pnLen h fs lf pk dl ix rp) ->
  let ps := snd (planFor (c_plans c) (Z.of_nat k)) in
  (0 < ps <= c_maxSize c -> ps <= 1452 -> pk = ps /\ dl = ps) /\
  (ps = 0 -> (if c_udpMin c =? 0 then 1200 else c_udpMin c) <= c_maxSize c -> pk <= c_maxSize c /\ dl <= c_maxSize c).
Proof. exact t_C10_passthrough_sizes. Qed.
Print Assumptions C10_passthrough_sizes.

(** Regression (finding size-exact/frames-exceed, nil builder): PacketSize 1232, 1734-byte
    ClientHello — two datagrams of exactly 1232 bytes (was 1280). *)
Example C10_passthrough_sizes_regression :
  flight (wcfg BPass [] 1 [(0, 1232)] 0) 1734 [] =
  [DG 1 1 19 [(0, 1193)] 1214 1232 1232 1 false; DG 2 1 19 [(1193, 541)] 1214 1232 1232 2 false].
Proof. exact t_C10_passthrough_sizes_regression. Qed.
Print Assumptions C10_passthrough_sizes_regression.

(** STILL REFUTED for builders that re-frame (open finding .../size-exact/frames-exceed; the
    rejection the property asks for is pinned away by TestInitialPacketNumberFromSpec): frames
    that do not fit PacketSize are sent in a larger packet, without error. *)
Theorem C10_exact_size_refuted :
  (forall cl s hdr pnLen plen udpMin, 0 < s -> s < hdr + plen + 16 -> hdr + plen + 16 <= 1452 ->
     appendInitial (cl, s) hdr pnLen plen udpMin = AppOk (pnLen + plen + 16) (hdr + plen + 16) (hdr + plen + 16) false) /\
  (exists s hdr pnLen plen pk lf dl rp, appendInitial (0, s) hdr pnLen plen 0 = AppOk lf pk dl rp /\ s < pk).
Proof. exact t_C10_exact_size_refuted. Qed.
Print Assumptions C10_exact_size_refuted.

(** Regression (finding plan-index): nil builder, InitialPackets [{999,1200},{0,1250}] — the
    second datagram is 1250 bytes (was 1200). *)
Example C10_plan_index_regression :
  flight (wcfg BPass [] 1 [(999, 1200); (0, 1250)] 0) 1700 [] =
  [DG 1 1 19 [(0, 999)] 1182 1200 1200 1 false; DG 2 1 19 [(999, 701)] 1232 1250 1250 2 false].
Proof. exact t_C10_plan_index_regression. Qed.
Print Assumptions C10_plan_index_regression.

(** ** C10_fits_or_error *)

(** Whatever the builder returned and the plan asks: either the error is returned (exactly
    when header + padded payload + 16 exceeds the 1452-byte packet buffer), or packet and
    datagram are at most 1452 bytes and releasing the buffer does not panic. *)
Theorem C10_fits_or_error : forall plan hdr pnLen plen udpMin,
  match appendInitial plan hdr pnLen plen udpMin with
  | AppErr => hdr + paddedLen (snd plan) hdr plen + 16 > 1452
  | AppOk lf pl dl rp =>
    pl <= 1452 /\ pl = hdr + paddedLen (snd plan) hdr plen + 16 /\
    lf = pnLen + paddedLen (snd plan) hdr plen + 16 /\ pl <= dl /\ dl <= 1452 /\ rp = false
  end.
Proof. exact t_C10_fits_or_error. Qed.
Print Assumptions C10_fits_or_error.

(** Regression (finding upacker/release-panic): UDPDatagramMinSize 1500 — refused by dial; the
    packer pads to the buffer's end. *)
Example C10_release_panic_regression :
  appendInitial (0, 0) 19 1 504 1500 = AppOk 521 539 1452 false.
Proof. exact t_C10_release_panic_regression. Qed.
Print Assumptions C10_release_panic_regression.

(** The datagram stays within the connection's maximum packet size under three hypotheses:
    the second holds for every accepted spec (C10_spec_validation), the first for the
    pass-through builders (C10_passthrough_sizes), for QUICRandomFrames whose Length fits
    (C10_random_reserve_sufficient) and for planned flights (C10_flight_budget_fits). *)
Theorem C10_le_max_packet_size : forall plan hdr pnLen plen udpMin maxSize lf pl dl rp,
  appendInitial plan hdr pnLen plen udpMin = AppOk lf pl dl rp ->
  hdr + plen + 16 <= maxSize -> snd plan <= maxSize ->
  (snd plan = 0 -> (if udpMin =? 0 then 1200 else udpMin) <= maxSize) ->
  dl <= maxSize.
Proof. exact t_C10_le_max_packet_size. Qed.
Print Assumptions C10_le_max_packet_size.

(** STILL REFUTED in general (open findings .../size-max/udp-min: Firefox's 1357-byte
    datagrams are deliberate mimicry; .../size-max/builder: a builder output that does not
    fit is not refused). *)
Theorem C10_le_max_packet_size_refuted :
  (exists lf, appendInitial (0, 0) 22 1 516 1357 = AppOk lf 554 1357 false) /\
  flight (wcfg BEx [] 1 [] 0) 1241 [1300] = [DG 1 1 19 [(0, 1241)] 1317 1335 1335 1 false].
Proof. exact t_C10_le_max_packet_size_refuted. Qed.
Print Assumptions C10_le_max_packet_size_refuted.

(** A planned datagram whose payload is within the budget offered for it (now computed with
    that packet's own packet-number length) has exactly its PacketSize, or stays within the
    maximum packet size. *)
Theorem C10_flight_budget_fits : forall c i plen,
  c_lens c <> [] \/ c_single c <> 0 -> 0 < budgetAt c i -> plen <= budgetAt c i ->
  let ps := snd (planFor (c_plans c) i) in
  (0 < ps <= 1452 ->
   appendInitial (planFor (c_plans c) i) (hdrOf c i) (pnLenOf c i) plen (c_udpMin c)
   = AppOk (pnLenOf c i + (ps - hdrOf c i - 16) + 16) ps ps false) /\
  (ps = 0 -> hdrOf c i + plen + 16 <= c_maxSize c).
Proof. exact t_C10_flight_budget_fits. Qed.
Print Assumptions C10_flight_budget_fits.

(** Regression (finding size-max/builder, flight part): InitPacketNumberLengths [1,4],
    PacketSize 1200 — budgets 1165 and 1162, both packets 1200 bytes; the payload of 1165
    bytes that used to make packet 1 1203 bytes long is refused. *)
Example C10_flight_budget_regression :
  flightBudgets (wcfg BFlight [1; 4] 0 [(0, 1200); (0, 1200)] 0) 1700 = [1165; 1162] /\
  flight (wcfg BFlight [1; 4] 0 [(0, 1200); (0, 1200)] 0) 1700 [1165; 1162] =
  [DG 1 1 19 [] 1182 1200 1200 1 false; DG 2 4 22 [] 1182 1200 1200 2 false] /\
  flight (wcfg BFlight [1; 4] 0 [(0, 1200); (0, 1200)] 0) 1700 [1165; 1165] = [DGErr 2].
Proof. exact t_C10_flight_budget_regression. Qed.
Print Assumptions C10_flight_budget_regression.

(** ** C10_decryptable *)

(** On top of C05's round trip: for every AEAD that opens what it sealed with a 16-byte tag and
    every header-protection mask, the k-th packet of every flight, carrying any payload of
    the length the model computed (non-empty, packet number + payload >= 4 bytes), opens at a
    receiver that has opened the previous packet of the flight — or, for the first packet,
    has opened nothing and the packet number is inside the decode window — to the same first
    byte, packet number, packet-number length and payload; and the Length field is
    pnLen + |payload| + 16. *)
Theorem C10_decryptable :
  forall (aead_seal : Z -> Z -> list Z -> list Z -> list Z)
         (aead_open : Z -> Z -> list Z -> list Z -> option (list Z))
         (hp_mask : list Z -> list Z),
    (forall pn kp ad p, aead_open pn kp ad (aead_seal pn kp ad p) = Some p) ->
    (forall pn kp ad p, length (aead_seal pn kp ad p) = (length p + 16)%nat) ->
    forall c helloLen plens k pn pnLen h fs lf pk dl ix rp (mid payload : list Z) largest,
      nth_error (flight c helloLen plens) k = Some (DG pn pnLen h fs lf pk dl ix rp) ->
      1 <= pnLen <= 4 -> pn < 2 ^ 62 -> 0 <= c_ipn c < 2 ^ 64 ->
      Z.of_nat (length payload) = pk - h - 16 -> payload <> [] ->
      4 <= pnLen + Z.of_nat (length payload) ->
      (largest = pn - 1 \/ (largest = -1 /\ pn <= 2 ^ (pnLen * 8) / 2)) ->
      unprotect aead_open hp_mask true (1 + length mid) largest
        (protect aead_seal hp_mask true (mk_header (long_first 0 (Z.to_nat pnLen)) mid (Z.to_nat pnLen) pn) payload pn 0 (Z.to_nat pnLen))
      = UOk (long_first 0 (Z.to_nat pnLen)) pn pnLen 0 payload /\
      lf = pnLen + Z.of_nat (length payload) + 16.
Proof. exact t_C10_decryptable. Qed.
Print Assumptions C10_decryptable.

(** The first packet of a connection is decoded to the sender's packet number exactly when
    the number fits its encoding (which dial now checks); later packets of the flight always
    are. *)
Theorem C10_first_pn_decodable_iff : forall len pn,
  valid_len len -> 0 <= pn < 2 ^ 62 ->
  (decodePN len (-1) (truncatePN len pn) = pn <-> pn < 2 ^ (len * 8)).
Proof. exact t_C10_first_pn_decodable_iff. Qed.
Print Assumptions C10_first_pn_decodable_iff.

Theorem C10_next_pn_decodable : forall len pn,
  valid_len len -> 1 <= pn < 2 ^ 62 -> decodePN len (pn - 1) (truncatePN len pn) = pn.
Proof. exact t_C10_next_pn_decodable. Qed.
Print Assumptions C10_next_pn_decodable.

(** Header protection samples 16 bytes starting 4 bytes after the packet number: they lie
    inside the packet (Length >= 20) whenever packet number + frames are at least 4 bytes. *)
Theorem C10_hp_sample_inside : forall plan hdr pnLen plen udpMin lf pl dl rp,
  appendInitial plan hdr pnLen plen udpMin = AppOk lf pl dl rp -> 4 <= pnLen + plen -> 20 <= lf.
Proof. exact t_C10_hp_sample_inside. Qed.
Print Assumptions C10_hp_sample_inside.

