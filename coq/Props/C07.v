(** C07 — ACKs acknowledge only what was received; duplicates are never processed twice.
    Only statements live here; each is closed by [exact] of a lemma proved in coq/RecvPH.

    Vocabulary (definitions in RecvPH/Model.v and RecvPH/Proofs*.v):
      [hrun newHist ops]        a bare receivedPacketHistory after the calls [ops]
      [run newHandler ops]      a ReceivedPacketHandler after the calls [ops] (stops at a Go panic);
      [trace newHandler ops]    the executed calls paired with their results
      [hist_of h sp]            history of space [sp] (0 Initial, 1 Handshake, 2 application data), [None] once dropped
      [recvd tr sp q]           ReceivedPacket was called with number [q] in space [sp]
      [accepted tr sp q]        ... and returned nil
      [inR q l]                 number [q] lies in one of the intervals of [l]
      [ranges_inv]              ascending, Start <= End, >= deletedBelow, non-adjacent, at most MaxNumAckRanges
      [ack_ranges_ok]           descending, Smallest <= Largest, disjoint and non-adjacent
      [pending tr]              receive time of the first accepted, still unacknowledged ack-eliciting app-data packet *)
From Coq Require Import List ZArith Bool.
From V Require Import Gen.Params RecvPH.Model RecvPH.ProofsHist RecvPH.ProofsAck RecvPH.ProofsDue RecvPH.ProofsDup RecvPH.ProofsMissing RecvPH.ProofsNonempty RecvPH.ProofsGap RecvPH.ProofsImmediate RecvPH.ProofsDupTrace RecvPH.ProofsTimer RecvPH.ProofsGlue RecvPH.DupAlways RecvPH.ProofsCovered.
From V Require RunLoop.Model.
Import ListNotations.
Open Scope Z_scope.

(** The constants the property fixes: the second ack-eliciting packet queues an ACK. *)
Theorem C07_constants : rph_packetsBeforeAck = 2 /\ 1 <= rph_MaxNumAckRanges /\ 0 < rph_MaxAckDelay.
Proof. exact (conj eq_refl (conj MaxNumAckRanges_pos eq_refl)). Qed.
Print Assumptions C07_constants.

(** (a) The interval list of a history is well-formed after every sequence of
    ReceivedPacket / DeleteBelow / IsPotentiallyDuplicate / HighestMissingUpTo calls ... *)
Theorem C07_ranges_inv : forall ops : list hop, ranges_inv (fst (hrun newHist ops)).
Proof. exact hist_ranges_inv. Qed.
Print Assumptions C07_ranges_inv.

(** ... and so is the history of every space of the handler after every sequence of handler calls. *)
Theorem C07_ranges_inv_handler : forall (ops : list op) sp x,
  hist_of (fst (run newHandler ops)) sp = Some x -> ranges_inv x.
Proof. exact handler_ranges_inv. Qed.
Print Assumptions C07_ranges_inv_handler.

(** (a) Whatever GetAckFrame returns, for every history of calls: every acknowledged number was
    passed to ReceivedPacket in that space; the ranges are descending, disjoint, non-adjacent,
    at most MaxNumAckRanges, and pass validateAckRanges unless there is none; in the application
    data space nothing below the current ignore threshold is acknowledged; every accepted number
    that is not below the threshold is at most the Largest of the first range (so the first range
    contains the largest received). *)
Theorem C07_ack_sound : forall (ops : list op) lvl now only f,
  let h := fst (run newHandler ops) in
  let tr := trace newHandler ops in
  snd (h_get_ack h lvl now only) = Some f ->
  exists sp, sp_of lvl = Some sp /\
    (forall q, inR q (aRanges f) -> recvd tr sp q) /\
    ack_ranges_ok (aRanges f) /\
    Z.of_nat (length (aRanges f)) <= rph_MaxNumAckRanges /\
    (aRanges f <> [] -> validateAckRanges (aRanges f) = true) /\
    (sp = 2%nat -> pn_nonneg ops -> forall q, inR q (aRanges f) -> aIgnoreBelow (hApp h) <= q) /\
    (forall q, accepted tr sp q -> (forall x, hist_of h sp = Some x -> deletedBelow x <= q) ->
       exists s l rest, aRanges f = (s, l) :: rest /\ q <= l).
Proof. exact ack_sound. Qed.
Print Assumptions C07_ack_sound.

(** (a) After IgnorePacketsBelow p no ACK contains a number below p. *)
Theorem C07_forget : forall (ops : list op) p r now only f,
  pn_nonneg ops ->
  In (Ignore p, r) (trace newHandler ops) ->
  snd (h_get_ack (fst (run newHandler ops)) rph_Enc1RTT now only) = Some f ->
  forall q, inR q (aRanges f) -> p <= q.
Proof. exact forget. Qed.
Print Assumptions C07_forget.

(** (a) A generated ACK frame has at least one range and passes validateAckRanges.
    For Initial/Handshake unconditionally. For the application data space under the CALLER
    DISCIPLINE of connection.go, the only hypothesis: at the moment GetAckFrame is called, the
    last IgnorePacketsBelow call has been followed by an accepted application-data packet
    ([owes trace = false]). connection.go guarantees it: IgnorePacketsBelow is only reached from
    handleFrames of a 1-RTT packet (handleAckFrame -> ReceivedAck -> ignorePacketsBelow), and that
    very packet is registered by ReceivedPacket right after handleFrames, before any packet is
    packed; if ReceivedPacket or handleFrames fails the connection closes and packs only a
    CONNECTION_CLOSE, which requests no ACK frame (see notes/C07.md). *)
Theorem C07_ack_nonempty : forall (ops : list op) lvl now only f,
  let h := fst (run newHandler ops) in
  (lvl = rph_Enc1RTT -> owes (trace newHandler ops) = false) ->
  snd (h_get_ack h lvl now only) = Some f ->
  aRanges f <> [] /\ validateAckRanges (aRanges f) = true.
Proof. exact ack_nonempty. Qed.
Print Assumptions C07_ack_nonempty.

(** The hypothesis cannot be dropped: a handler driven outside the discipline (forget threshold
    above everything received, ACK requested before any packet is registered) hands out a frame
    without ranges. No endpoint performs this call sequence; the witness is replayed on the
    implementation for information only (INFO line of unit recvph). *)
Theorem C07_ack_nonempty_needs_discipline :
  exists ops now f,
    owes (trace newHandler ops) = true /\
    snd (h_get_ack (fst (run newHandler ops)) rph_Enc1RTT now false) = Some f /\ aRanges f = [] /\
    validateAckRanges (aRanges f) = false.
Proof. exact ack_nonempty_needs_discipline. Qed.
Print Assumptions C07_ack_nonempty_needs_discipline.

(** (c) Every number that was passed to ReceivedPacket is flagged by IsPotentiallyDuplicate and
    refused by ReceivedPacket, after every history of calls, unless it is at or below the highest
    number the MaxNumAckRanges limit has dropped (ghost [snd (hrunW ..)]; the history itself is
    [fst (hrunW ops _) = fst (hrun _ ops)], lemma hrunW_fst). *)
Theorem C07_duplicate_detected : forall (ops : list hop) q,
  In (HRecv q) ops ->
  let hw := hrunW ops (newHist, None) in
  ~ le_opt q (snd hw) ->
  is_dup (fst hw) q = true /\ snd (hist_recv (fst hw) q) = false.
Proof. exact duplicate_detected. Qed.
Print Assumptions C07_duplicate_detected.

(** The limit never fires while at most MaxNumAckRanges packets were received: then every
    received number is flagged, whatever DeleteBelow calls are interleaved. *)
Theorem C07_duplicate_detected_few : forall (ops : list hop) q,
  Z.of_nat (length (filter is_recv ops)) <= rph_MaxNumAckRanges ->
  In (HRecv q) ops ->
  is_dup (fst (hrun newHist ops)) q = true /\ snd (hist_recv (fst (hrun newHist ops)) q) = false.
Proof. exact duplicate_detected_few. Qed.
Print Assumptions C07_duplicate_detected_few.

(** The verdict is exact: flagged iff below deletedBelow or inside a tracked range; and
    ReceivedPacket accepts exactly the numbers that are not flagged. *)
Theorem C07_duplicate_exact : forall (ops : list hop) p,
  let h := fst (hrun newHist ops) in
  (is_dup h p = true <-> p < deletedBelow h \/ inR p (ranges h)) /\
  snd (hist_recv h p) = negb (is_dup h p).
Proof.
  exact (fun ops p => conj (is_dup_spec _ p (hrun_ok ops newHist newHist_ok))
                           (hist_recv_isNew _ p (hrun_ok ops newHist newHist_ok))).
Qed.
Print Assumptions C07_duplicate_exact.

(** The same at the three-space handler: flagged numbers stay flagged over every call (except
    when pushed out by the limit), accepted packets are flagged afterwards, flagged packets are
    refused and change no history. *)
Theorem C07_duplicate_retained_handler : forall (ops : list op) o sp x y q,
  let h := fst (run newHandler ops) in
  hist_of h sp = Some x -> hist_of (fst (step h o)) sp = Some y ->
  is_dup x q = true ->
  is_dup y q = true \/
  (exists pn ecn lvl t ae, o = Recv pn ecn lvl t ae /\ sp_of lvl = Some sp /\ le_opt q (pruned_by x pn)).
Proof. exact handler_dup_retained. Qed.
Print Assumptions C07_duplicate_retained_handler.

Theorem C07_accepted_then_flagged : forall (ops : list op) pn ecn lvl t ae sp y,
  let h := fst (run newHandler ops) in
  snd (step h (Recv pn ecn lvl t ae)) = ROk -> sp_of lvl = Some sp ->
  hist_of (fst (step h (Recv pn ecn lvl t ae))) sp = Some y ->
  exists x, hist_of h sp = Some x /\ is_dup x pn = false /\
            (is_dup y pn = true \/ le_opt pn (pruned_by x pn)).
Proof. exact handler_accept_flagged. Qed.
Print Assumptions C07_accepted_then_flagged.

Theorem C07_duplicate_refused : forall (ops : list op) pn ecn lvl t ae,
  let h := fst (run newHandler ops) in
  h_is_dup h pn lvl = RB true ->
  (snd (step h (Recv pn ecn lvl t ae)) = RErrDup \/ snd (step h (Recv pn ecn lvl t ae)) = RErr0RTT) /\
  forall sp, hist_of (fst (step h (Recv pn ecn lvl t ae))) sp = hist_of h sp.
Proof. exact handler_dup_refused. Qed.
Print Assumptions C07_duplicate_refused.

(** (b) "covered": whatever is flagged and not below the forget threshold is in the ACK. *)
Theorem C07_ack_covers_flagged : forall (ops : list op) lvl now only f,
  let h := fst (run newHandler ops) in
  snd (h_get_ack h lvl now only) = Some f ->
  exists sp x, sp_of lvl = Some sp /\ hist_of h sp = Some x /\
    forall q, is_dup x q = true -> deletedBelow x <= q -> inR q (aRanges f).
Proof. exact ack_covers_flagged. Qed.
Print Assumptions C07_ack_covers_flagged.

(** (c) over whole handler histories. [runW] is [run] (lemma runW_fst) instrumented with one
    watermark per space: the highest number an accepted packet pushed out of that space's history
    through the MaxNumAckRanges limit. Every number accepted in a space is flagged by
    IsPotentiallyDuplicate and refused by ReceivedPacket for as long as the space exists, unless it
    is at or below that watermark — across IgnorePacketsBelow, DropPackets of other spaces, ACK
    retrievals, Truncate and further receptions. *)
Theorem C07_duplicate_detected_handler : forall (ops : list op) sp q x,
  let hw := runW newHandler (fun _ => None) ops in
  accepted (trace newHandler ops) sp q ->
  hist_of (fst hw) sp = Some x ->
  ~ le_opt q (snd hw sp) ->
  is_dup x q = true /\ snd (hist_recv x q) = false.
Proof. exact handler_duplicate_detected. Qed.
Print Assumptions C07_duplicate_detected_handler.

Theorem C07_runW_is_run : forall (ops : list op) h W, fst (runW h W ops) = fst (run h ops).
Proof. exact runW_fst. Qed.
Print Assumptions C07_runW_is_run.

(** The watermark of a space only moves in a call made while that space tracks MaxNumAckRanges ranges. *)
Theorem C07_watermark_only_at_limit : forall h W o sp x,
  hist_of h sp = Some x -> hist_ok x -> Z.of_nat (length (ranges x)) < rph_MaxNumAckRanges ->
  wstep h W o sp = W sp.
Proof. exact wstep_unchanged. Qed.
Print Assumptions C07_watermark_only_at_limit.

Example C07_example_duplicate_handler :
  let ops := [Recv 5 1 rph_Enc1RTT 1000 true; Ignore 3; Drop rph_EncInitial; Recv 7 1 rph_Enc1RTT 2000 false;
              GetAck rph_Enc1RTT 3000 false; Trunc rph_Enc1RTT 1] in
  let hw := runW newHandler (fun _ => None) ops in
  accepted (trace newHandler ops) 2 5 /\ snd hw 2%nat = None /\
  h_is_dup (fst hw) 5 rph_Enc1RTT = RB true.
Proof.
  cbv zeta. split; [| split]; try (vm_compute; reflexivity).
  exists 1, rph_Enc1RTT, 1000, true. split; [vm_compute; tauto | reflexivity].
Qed.
Print Assumptions C07_example_duplicate_handler.

(** (a) "not below the threshold the peer allowed it to forget": the handler forgets exactly what
    IgnorePacketsBelow tells it. If every threshold passed by the caller is at most [A] (1 + the
    largest LargestAcked among our ACK frames in packets the peer has acknowledged - unit c07glue
    checks on the real sentPacketHandler that connection.go's caller never passes more), then every
    accepted application-data packet at or above [A] that the range limit has not dropped is listed
    in every ACK frame generated, i.e. stays acknowledged until the peer has confirmed an ACK. *)
Theorem C07_unconfirmed_stay_acked : forall (ops : list op) A q now only f,
  let hw := runW newHandler (fun _ => None) ops in
  0 <= A ->
  (forall p r, In (Ignore p, r) (trace newHandler ops) -> p <= A) ->
  accepted (trace newHandler ops) 2 q -> A <= q ->
  ~ le_opt q (snd hw 2%nat) ->
  snd (h_get_ack (fst hw) rph_Enc1RTT now only) = Some f ->
  inR q (aRanges f).
Proof. exact unconfirmed_stay_acked. Qed.
Print Assumptions C07_unconfirmed_stay_acked.

(** (c) at the connection: [conn_packet] is the model of connection.go's handleShortHeaderPacket /
    handleLongHeaderPacket after decryption (unit c07recvglue drives the real functions). After
    every history of handler calls, a packet whose number was accepted before in its space - the
    space still exists, the number is above that space's watermark - is dropped before any of its
    frames is handled, and nothing changes: a duplicate within tracked history never has its frames
    processed. *)
Theorem C07_duplicate_frames_not_processed : forall (ops : list op) sp q x p srv d,
  let hw := runW newHandler (fun _ => None) ops in
  accepted (trace newHandler ops) sp q ->
  hist_of (fst hw) sp = Some x -> ~ le_opt q (snd hw sp) ->
  sp_of (kLvl p) = Some sp -> kPn p = q ->
  let g := mkG (fst hw) srv d in
  fst (conn_packet g p) = g /\
  (snd (conn_packet g p) = GDropDup \/ snd (conn_packet g p) = GDrop0RTT).
Proof. exact conn_packet_duplicate. Qed.
Print Assumptions C07_duplicate_frames_not_processed.

(** ... and every run of that glue (without a Go panic) IS such a history: its handler state is
    [run] of the calls it made, and every packet it processed with a nil result is an accepted
    packet of that history - so the theorem above applies to whatever packets a connection sees. *)
Theorem C07_glue_runs_are_histories : forall (ps : list pkt) g,
  forallb out_ok (snd (conn_run g ps)) = true ->
  let ops := conn_ops g ps in
  fst (run (gH g) ops) = gH (fst (conn_run g ps)) /\ no_panic (snd (run (gH g) ops)) /\
  (forall p, In (p, GProcessed ROk) (combine ps (snd (conn_run g ps))) ->
     In (Recv (kPn p) (kEcn p) (kLvl p) (kTime p) (existsb frame_ack_eliciting (kFrames p)), ROk) (trace (gH g) ops)).
Proof. exact conn_run_is_run. Qed.
Print Assumptions C07_glue_runs_are_histories.

Example C07_example_glue :
  snd (conn_run (mkG newHandler true false)
         [mkPkt rph_Enc1RTT 0 1 1000 [1]; mkPkt rph_Enc1RTT 0 1 2000 [1]; mkPkt rph_Enc0RTT 0 1 3000 [0];
          mkPkt rph_EncHandshake 0 1 4000 [2]])
  = [GProcessed ROk; GDropDup; GDropDup; GProcessed ROk].
Proof. vm_compute. reflexivity. Qed.
Print Assumptions C07_example_glue.

(** (c), final form with fixes/C07-trimmed-history-counts-as-received.patch (the model mirrors the
    repaired ReceivedPacket: when the range limit drops the oldest ranges, deletedBelow is raised
    past them). Every number ever passed to ReceivedPacket is flagged by IsPotentiallyDuplicate and
    refused by ReceivedPacket after EVERY history - no "tracked history" exception. *)
Theorem C07_duplicate_detected_always : forall (ops : list hop) q,
  In (HRecv q) ops ->
  let h := fst (hrun newHist ops) in
  is_dup h q = true /\ snd (hist_recv h q) = false.
Proof. exact duplicate_detected_always. Qed.
Print Assumptions C07_duplicate_detected_always.

(** the same at the handler: every number accepted in a space is flagged and refused for as long
    as the space exists, over all histories of handler calls *)
Theorem C07_duplicate_always_handler : forall (ops : list op) sp q x,
  let h := fst (run newHandler ops) in
  accepted (trace newHandler ops) sp q ->
  hist_of h sp = Some x ->
  is_dup x q = true /\ snd (hist_recv x q) = false.
Proof. exact handler_duplicate_always. Qed.
Print Assumptions C07_duplicate_always_handler.

(** the form exported to other units (coq/RecvPH/DupAlways.v: [dup_always], with the step-wise
    interface [dup_inv] / [dup_inv_init] / [dup_inv_step] / [dup_always_step]): answered by the
    handler's IsPotentiallyDuplicate at every encryption level of the space *)
Theorem C07_dup_always : forall (ops : list op) sp q x lvl,
  let h := fst (run newHandler ops) in
  accepted (trace newHandler ops) sp q ->
  hist_of h sp = Some x -> sp_of lvl = Some sp ->
  h_is_dup h q lvl = RB true /\ is_dup x q = true /\ snd (hist_recv x q) = false.
Proof. exact dup_always. Qed.
Print Assumptions C07_dup_always.

(** and at the connection glue: a packet whose number was accepted before in its (still existing)
    space never has its frames processed again *)
Theorem C07_duplicate_frames_never_processed : forall (ops : list op) sp q x p srv d,
  let h := fst (run newHandler ops) in
  accepted (trace newHandler ops) sp q -> hist_of h sp = Some x ->
  sp_of (kLvl p) = Some sp -> kPn p = q ->
  let g := mkG h srv d in
  fst (conn_packet g p) = g /\
  (snd (conn_packet g p) = GDropDup \/ snd (conn_packet g p) = GDrop0RTT).
Proof. exact conn_packet_duplicate_always. Qed.
Print Assumptions C07_duplicate_frames_never_processed.

(** coverage: every accepted packet that is not below the space's threshold is listed in every ACK
    frame generated for that space ... *)
Theorem C07_accepted_stay_acked : forall (ops : list op) sp q x lvl now only f,
  let h := fst (run newHandler ops) in
  accepted (trace newHandler ops) sp q -> sp_of lvl = Some sp -> hist_of h sp = Some x ->
  deletedBelow x <= q ->
  snd (h_get_ack h lvl now only) = Some f ->
  inR q (aRanges f).
Proof. exact accepted_stay_acked. Qed.
Print Assumptions C07_accepted_stay_acked.

(** ... and the threshold only ever comes from three sources: the initial value, a threshold the
    caller passed to IgnorePacketsBelow (application data: the peer's permission, unit c07glue), or
    one past the highest number the MaxNumAckRanges limit dropped (the watermark [W] of [runW]);
    it covers every dropped number. These are the only two ways an accepted packet can miss its ACK. *)
Theorem C07_threshold_origin : forall (ops : list op) sp x,
  let hw := runW newHandler (fun _ => None) ops in
  hist_of (fst hw) sp = Some x ->
  (forall w, snd hw sp = Some w -> w + 1 <= deletedBelow x) /\
  (deletedBelow x = rph_InvalidPacketNumber \/
   (sp = 2%nat /\ exists r, In (Ignore (deletedBelow x), r) (trace newHandler ops)) \/
   snd hw sp = Some (deletedBelow x - 1)).
Proof. exact (fun ops sp x => proj2 (invK_run ops) sp x). Qed.
Print Assumptions C07_threshold_origin.

(** Regression example: the history that, before the repair, made a received number be accepted a
    second time (65 isolated numbers, a merge, a late low packet): 10 stays flagged, the threshold is 11. *)
Example C07_lowstart_witness_handled :
  let h := fst (hrun newHist lowstart_witness) in
  In (HRecv 10) lowstart_witness /\ is_dup h 10 = true /\ snd (hist_recv h 10) = false /\
  deletedBelow h = 11 /\ is_dup h 5 = true.
Proof. exact lowstart_witness_handled. Qed.
Print Assumptions C07_lowstart_witness_handled.

(** (b) Application data: while an accepted ack-eliciting packet is unacknowledged, an ACK is
    queued or the alarm stands at exactly [t + MaxAckDelay] for the arrival time [t] of the FIRST
    such packet; GetAckFrame hands the frame out when asked unconditionally, when queued, or once
    that time has come. *)
Theorem C07_ack_due : forall (ops : list op) t,
  let h := fst (run newHandler ops) in
  pending (trace newHandler ops) = Some t ->
  (aAckQueued (hApp h) = true \/ aAckAlarm (hApp h) = t + rph_MaxAckDelay) /\
  (forall now only,
     only = false \/ aAckQueued (hApp h) = true \/ (0 <= t /\ t + rph_MaxAckDelay <= now) ->
     exists f, snd (h_get_ack h rph_Enc1RTT now only) = Some f).
Proof. exact ack_due. Qed.
Print Assumptions C07_ack_due.

(** (b) through the connection's timer (composition with C17's model of connection.go
    maybeResetTimer, whose ACK-alarm input is receivedPacketHandler.GetAlarmTimeout()): while an
    accepted ack-eliciting application-data packet is unacknowledged and the connection is not
    hard-blocked (send queue full), either an ACK is queued - the packer's GetAckFrame returns it at
    once, with onlyIfQueued or not - or the deadline the run loop arms is at most
    [t_first + MaxAckDelay], and at every wake-up from then on the packer's call returns the frame. *)
Theorem C07_ack_leaves_by_deadline : forall (ops : list op) t (s : RunLoop.Model.st) pto retire loss,
  let h := fst (run newHandler ops) in
  pending (trace newHandler ops) = Some t -> 0 <= t ->
  RunLoop.Model.blocked s <> rl_blockModeHardBlocked ->
  (aAckQueued (hApp h) = true /\
     forall now only, exists f, snd (h_get_ack h rph_Enc1RTT now only) = Some f) \/
  (RunLoop.Model.maybeResetTimer s pto retire (aAckAlarm (hApp h)) loss <= t + rph_MaxAckDelay /\
     forall now only, t + rph_MaxAckDelay <= now -> exists f, snd (h_get_ack h rph_Enc1RTT now only) = Some f).
Proof. exact ack_leaves_by_deadline. Qed.
Print Assumptions C07_ack_leaves_by_deadline.

(** (b) The ACK is queued on the second ack-eliciting packet, on ECN-CE, and stays queued. *)
Theorem C07_ack_queued_rules : forall a pn ecn t,
  snd (app_recv a pn ecn t true) = Ok3 ->
  (rph_packetsBeforeAck <= aCnt a + 1 \/ ecn = rph_ECNCE \/ aAckQueued a = true) ->
  aAckQueued (fst (app_recv a pn ecn t true)) = true.
Proof. exact ack_queued_rules. Qed.
Print Assumptions C07_ack_queued_rules.

(** (b) "when it fills a gap": an accepted ack-eliciting packet that the last generated ACK frame
    ([tLastAck], Go's [lastAck]) reported missing queues an ACK at once, after every history. The
    binary search of AckFrame.AcksPacket is part of the model (lemma acksPacket_spec). *)
Theorem C07_ack_queued_when_missing : forall (ops : list op) pn ecn t la l,
  let a := hApp (fst (run newHandler ops)) in
  tLastAck (aTr a) = Some la -> largestAcked la = Some l ->
  aIgnoreBelow a <= pn -> pn < l -> ~ inR pn la ->
  snd (app_recv a pn ecn t true) = Ok3 ->
  aAckQueued (fst (app_recv a pn ecn t true)) = true.
Proof. exact ack_queued_when_missing. Qed.
Print Assumptions C07_ack_queued_when_missing.

(** (b) ALL causes of an immediate ACK in the application data space, exactly. After every
    history of calls (non-negative packet numbers; the last ACK frame, if any, has a range — true
    under the caller discipline, C07_ack_nonempty), for an accepted ack-eliciting packet arriving
    while no ACK is queued, an ACK is queued by this packet IF AND ONLY IF
      - it fills a gap: the last ACK frame reported it missing ([fills_gap]: not below the ignore
        threshold, below that frame's Largest, in none of its ranges), or
      - it is the second unacknowledged ack-eliciting packet, or
      - it reveals a gap ([reveals_gap]: some number that is not tracked as received lies at or above
        the Largest of the last ACK frame and the forget threshold, at least reorderingThreshold
        below the largest observed number and not above the highest tracked number), or
      - it is ECN-CE marked.
    Otherwise the alarm of C07_ack_due is armed. (Initial/Handshake: C07_ack_immediate.) *)
Theorem C07_immediate_ack_iff : forall (ops : list op) pn ecn t,
  pn_nonneg ops ->
  let a := hApp (fst (run newHandler ops)) in
  (forall la, tLastAck (aTr a) = Some la -> la <> []) ->
  aAckQueued a = false ->
  snd (app_recv a pn ecn t true) = Ok3 ->
  let a' := fst (app_recv a pn ecn t true) in
  (aAckQueued a' = true <->
     fills_gap a' pn \/ rph_packetsBeforeAck <= aCnt a' \/ reveals_gap a' \/ ecn = rph_ECNCE).
Proof. exact immediate_ack_iff. Qed.
Print Assumptions C07_immediate_ack_iff.

(** What HighestMissingUpTo computes on every reachable history: the highest number at or below
    min(p, highest tracked) that is in no range, or InvalidPacketNumber if that lies below the
    forget threshold. *)
Theorem C07_highest_missing : forall (ops : list hop) p eT,
  let h := fst (hrun newHist ops) in
  top_end h = Some eT ->
  (deletedBelow h = rph_InvalidPacketNumber \/ deletedBelow h <= p) ->
  exists M, is_hm (ranges h) (Z.min eT p) M /\
    highest_missing_up_to h p =
      if negb (deletedBelow h =? rph_InvalidPacketNumber) && (M <? deletedBelow h) then rph_InvalidPacketNumber else M.
Proof. exact (fun ops p eT => highest_missing_spec _ p eT (hrun_ok ops newHist newHist_ok)). Qed.
Print Assumptions C07_highest_missing.

(** The frame GetAckFrame returns is the tracker's [lastAck]; the packer truncates it in place
    (op [Trunc], keeps >= 1 range). Whatever queues an ACK with the untruncated [lastAck] queues
    it with the truncated one: the aliasing can add immediate ACKs, never suppress one. *)
Theorem C07_truncate_never_suppresses : forall a n pn ecn t,
  app_wf a -> (forall la, tLastAck (aTr a) = Some la -> la <> []) -> 1 <= n ->
  aAckQueued a = false ->
  snd (app_recv a pn ecn t true) = Ok3 ->
  snd (app_recv (app_trunc a n) pn ecn t true) = Ok3 /\
  (aAckQueued (fst (app_recv a pn ecn t true)) = true ->
   aAckQueued (fst (app_recv (app_trunc a n) pn ecn t true)) = true).
Proof. exact truncate_never_suppresses. Qed.
Print Assumptions C07_truncate_never_suppresses.

(** [app_wf] holds in every reachable state (non-negative packet numbers). *)
Theorem C07_reachable_app_wf : forall (ops : list op), pn_nonneg ops -> app_wf (hApp (fst (run newHandler ops))).
Proof. exact reachable_app_wf. Qed.
Print Assumptions C07_reachable_app_wf.

(** Non-vacuity: packet 0, ACK [0..0], then packet 2 reveals the gap 1; packets 0 and 2, ACK, then
    packet 1 fills the gap. *)
Example C07_example_reveals_gap :
  let ops := [Recv 0 1 rph_Enc1RTT 1000 true; GetAck rph_Enc1RTT 2000 false] in
  let a := hApp (fst (run newHandler ops)) in
  pn_nonneg ops /\ (forall la, tLastAck (aTr a) = Some la -> la <> []) /\ aAckQueued a = false /\
  snd (app_recv a 2 1 3000 true) = Ok3 /\ reveals_gap (fst (app_recv a 2 1 3000 true)) /\
  aAckQueued (fst (app_recv a 2 1 3000 true)) = true.
Proof.
  cbv zeta. split; [| split; [| split; [| split; [| split]]]]; try (vm_compute; reflexivity).
  - intros pn ecn lvl t ae [H | [H | []]]; inversion H; vm_compute; discriminate.
  - vm_compute. intros la H. inversion H. discriminate.
  - exists [(0, 0)], 0, 2, 1. repeat split; try (vm_compute; reflexivity); try (vm_compute; discriminate).
    vm_compute. intros (s & e & [H | [H | []]] & Hr); inversion H; subst; destruct Hr as [H1 H2]; auto.
Qed.
Print Assumptions C07_example_reveals_gap.

Example C07_example_fills_gap :
  let ops := [Recv 0 1 rph_Enc1RTT 1000 true; Recv 2 1 rph_Enc1RTT 1500 true; GetAck rph_Enc1RTT 2000 false] in
  let a := hApp (fst (run newHandler ops)) in
  snd (app_recv a 1 1 3000 true) = Ok3 /\ fills_gap (fst (app_recv a 1 1 3000 true)) 1 /\
  aAckQueued (fst (app_recv a 1 1 3000 true)) = true.
Proof.
  cbv zeta. split; [| split]; try (vm_compute; reflexivity).
  exists [(2, 2); (0, 0)], 2. repeat split; try (vm_compute; reflexivity); try (vm_compute; discriminate).
  vm_compute. intros (s & e & [H | [H | []]] & Hr); inversion H; subst; destruct Hr as [H1 H2]; auto.
Qed.
Print Assumptions C07_example_fills_gap.

(** (b) Initial / Handshake: an accepted ack-eliciting packet makes GetAckFrame non-nil at once. *)
Theorem C07_ack_immediate : forall h pn ecn lvl t now only sp x,
  sp_of lvl = Some sp -> sp <> 2%nat -> hist_of h sp = Some x ->
  snd (step h (Recv pn ecn lvl t true)) = ROk ->
  exists f, snd (h_get_ack (fst (step h (Recv pn ecn lvl t true))) lvl now only) = Some f.
Proof. exact ack_immediate. Qed.
Print Assumptions C07_ack_immediate.

(** Non-vacuity: 1-RTT packets 1 and 3 (ack-eliciting, at 1 ms and 2 ms), forget below 1: the
    second packet queues the ACK, the frame is [3..3],[1..1], nothing pending afterwards. *)
Example C07_example :
  let ops := [Recv 1 1 rph_Enc1RTT 1000000 true; Ignore 1; Recv 3 1 rph_Enc1RTT 2000000 true] in
  pn_nonneg ops /\
  pending (trace newHandler ops) = Some 1000000 /\
  aAckQueued (hApp (fst (run newHandler ops))) = true /\
  option_map aRanges (snd (h_get_ack (fst (run newHandler ops)) rph_Enc1RTT 3000000 true)) = Some [(3, 3); (1, 1)] /\
  accepted (trace newHandler ops) 2 3 /\
  In (Ignore 1, ROk) (trace newHandler ops) /\
  owes (trace newHandler ops) = false.
Proof.
  cbv zeta. split; [| split; [| split; [| split; [| split; [| split]]]]]; try (vm_compute; reflexivity).
  - intros pn ecn lvl t ae [H | [H | [H | []]]]; inversion H; vm_compute; discriminate.
  - exists 1, rph_Enc1RTT, 2000000, true. split; [vm_compute; tauto | reflexivity].
  - vm_compute. tauto.
Qed.
Print Assumptions C07_example.

(** Non-vacuity of the pending case with the alarm: one ack-eliciting packet at t = 5 ms. *)
Example C07_example_alarm :
  let ops := [Recv 0 1 rph_Enc1RTT 5000000 true] in
  pending (trace newHandler ops) = Some 5000000 /\
  aAckQueued (hApp (fst (run newHandler ops))) = false /\
  aAckAlarm (hApp (fst (run newHandler ops))) = 5000000 + rph_MaxAckDelay.
Proof. vm_compute. auto. Qed.
Print Assumptions C07_example_alarm.

(** The coverage clause as ONE statement over handler histories ([pendset tr]: the accepted
    ack-eliciting application-data packets since the last ACK frame generated for that space;
    [pending tr = Some t]: [t] is the arrival of the oldest of them). Every such packet is covered by
    an ACK that becomes due no later than MaxAckDelay after the oldest arrival (C07_ack_leaves_by_deadline
    carries the deadline through the connection's timer), or it is below the space's threshold -
    forgotten by the peer's permission or pushed out by the range limit (C07_threshold_origin).
    The frame whose generation clears the queue/alarm is the one that lists them. *)
Theorem C07_every_packet_covered : forall (ops : list op) t,
  let h := fst (run newHandler ops) in
  let tr := trace newHandler ops in
  pending tr = Some t -> 0 <= t ->
  (aAckQueued (hApp h) = true \/ aAckAlarm (hApp h) = t + rph_MaxAckDelay) /\
  pendset tr <> [] /\
  forall now only,
    only = false \/ aAckQueued (hApp h) = true \/ t + rph_MaxAckDelay <= now ->
    exists f, snd (h_get_ack h rph_Enc1RTT now only) = Some f /\
      (forall q, In q (pendset tr) ->
         accepted tr 2 q /\
         (inR q (aRanges f) \/ q < deletedBelow (tHist (aTr (hApp h))))) /\
      pending (tr ++ [(GetAck rph_Enc1RTT now only, RAck (Some f))]) = None /\
      pendset (tr ++ [(GetAck rph_Enc1RTT now only, RAck (Some f))]) = [].
Proof. exact every_packet_covered. Qed.
Print Assumptions C07_every_packet_covered.

Example C07_example_covered :
  let ops := [Recv 1 1 rph_Enc1RTT 1000000 true; Recv 3 1 rph_Enc1RTT 2000000 true] in
  pending (trace newHandler ops) = Some 1000000 /\ pendset (trace newHandler ops) = [3; 1] /\
  option_map aRanges (snd (h_get_ack (fst (run newHandler ops)) rph_Enc1RTT 2000000 true)) = Some [(3, 3); (1, 1)].
Proof. vm_compute. auto. Qed.
Print Assumptions C07_example_covered.

(** (a) in the stronger form: every number in a generated ACK frame was ACCEPTED in that space
    (ReceivedPacket returned nil), not merely passed to ReceivedPacket (audit problem 6). *)
Theorem C07_ack_sound_accepted : forall (ops : list op) lvl now only f,
  let h := fst (run newHandler ops) in
  snd (h_get_ack h lvl now only) = Some f ->
  exists sp, sp_of lvl = Some sp /\ forall q, inR q (aRanges f) -> accepted (trace newHandler ops) sp q.
Proof. exact ack_sound_accepted. Qed.
Print Assumptions C07_ack_sound_accepted.
