From Coq Require Import List ZArith.
From V Require Import Gen.Params RecvPH.Model.
Import ListNotations.
Open Scope Z_scope.
Theorem C07_placeholder : rph_MaxNumAckRanges = 64.
Proof. reflexivity. Qed.
Print Assumptions C07_placeholder.
