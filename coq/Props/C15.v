(** C15 — stream concurrency limits and stream-ID discipline always hold.
    Only statements live here; each is closed by [exact] of a lemma of coq/StreamsMap/Proofs*.v.
    Model: coq/StreamsMap/Model.v (incomingStreamsMap, outgoingStreamsMap, streamsMap dispatch,
    protocol.StreamID arithmetic), tied to /repo by the correspondence check of unit streamsmap. *)
From Coq Require Import List ZArith Bool.
From V Require Import Gen.Params StreamsMap.Model StreamsMap.ProofsIn StreamsMap.ProofsOut StreamsMap.ProofsTop.
From V Require Import StreamsMap.AcceptWake StreamsMap.ProofsWake StreamsMap.RunGlue StreamsMap.ProofsGlue.
Import ListNotations.
Open Scope Z_scope.

(** The stream-ID constants the theorems rely on have the values of RFC 9000 section 2.1. *)
Theorem C15_first_stream_ids :
  SM_FirstOutgoingBidiStreamClient = 0 /\ SM_FirstOutgoingBidiStreamServer = 1 /\
  SM_FirstOutgoingUniStreamClient = 2 /\ SM_FirstOutgoingUniStreamServer = 3 /\
  SM_FirstIncomingBidiStreamServer = 0 /\ SM_FirstIncomingBidiStreamClient = 1 /\
  SM_FirstIncomingUniStreamServer = 2 /\ SM_FirstIncomingUniStreamClient = 3 /\
  SM_InvalidStreamID = -1 /\ SM_InvalidStreamNum = -1 /\
  SM_MaxStreamCount = 2 ^ 60 /\ SM_MaxStreamID = 2 ^ 62 - 1.
Proof. repeat split; reflexivity. Qed.
Print Assumptions C15_first_stream_ids.

(** (a) For every history of GetOrOpenStream (IDs of the map's class) / DeleteStream / one
    AcceptStream loop body / CloseWithError on an incoming map with limit N: never more than N
    streams in the map; streams in the map + streams the peer may still open <= N; the MAX_STREAMS
    frames queued form a strictly increasing chain from N to the limit now enforced, none above 2^60. *)
Theorem C15_incoming_bound : forall uni client N ops m outs, 0 <= N ->
  Forall (iop_ok (first_incoming uni client)) ops ->
  irun (init_in uni client N) ops = (m, outs) ->
  zlen (i_streams m) <= N /\ 0 <= in_credit m /\ in_credit m + zlen (i_streams m) <= N /\
  chain uni N (frames_of outs) (in_adv m) /\ N <= in_adv m.
Proof. exact in_bound. Qed.
Print Assumptions C15_incoming_bound.

(** (a) In every reachable state of an incoming map: STREAM_LIMIT_ERROR exactly for stream numbers
    above the advertised limit; opening a stream opens all lower ones; MAX_STREAMS is queued only
    when an accepted stream is removed, with a strictly larger count <= 2^60; the limit never
    decreases; an opened, not yet accepted stream (also one already completed) is returned by Accept. *)
Theorem C15_incoming_limit_and_credit : forall uni client N m, 0 <= N -> ireach uni client N m ->
  in_facts (first_incoming uni client) m /\ i_uni m = uni.
Proof. exact in_reach_facts. Qed.
Print Assumptions C15_incoming_limit_and_credit.

(** [in_facts] spelled out (so that the statement above can be read here). *)
Theorem C15_in_facts_meaning : forall f m, in_facts f m <->
  (forall id, on_lattice f id ->
     (snd (in_get_or_open m id) = RErr ErrLimit <-> in_adv m < id_stream_num id)) /\
  (forall id m' r, on_lattice f id -> in_get_or_open m id = (m', r) -> r <> RErr ErrLimit ->
     forall id', on_lattice f id' -> i_nextAccept m <= id' <= id -> lookup id' (i_streams m') <> None) /\
  (forall op m' r fr, iop_ok f op -> istep m op = (m', r, fr) -> fr <> [] ->
     zlen (i_streams m') = zlen (i_streams m) - 1 /\
     (exists id, (op = IDelete id \/ (exists c, op = IAccept c) /\ r = RId id) /\ id < i_nextAccept m' /\
                 lookup id (i_streams m) <> None /\ lookup id (i_streams m') = None) /\
     exists n, fr = [FMax (i_uni m) n] /\ in_adv m < n /\ n = in_adv m' /\ n <= SM_MaxStreamCount) /\
  (forall op m' r fr, iop_ok f op -> istep m op = (m', r, fr) -> in_adv m <= in_adv m') /\
  (i_closed m = None -> i_nextAccept m < i_nextOpen m -> forall c, snd (fst (in_accept m c)) = RId (i_nextAccept m)).
Proof. exact (fun f m => iff_refl _). Qed.
Print Assumptions C15_in_facts_meaning.

(** (a) The bound for the four-map streamsMap: every history of the API of streams_map.go
    (frames with IDs >= 0, Open/OpenSync/Accept with wake-ups and cancellations, completions,
    MAX_STREAMS, transport parameters, CloseWithError, ResetFor0RTT/UseResetMaps), both
    perspectives, both stream types. *)
Theorem C15_incoming_bound_streams_map : forall client mb mu ops s outs,
  0 <= mb -> 0 <= mu -> Forall top_ok ops ->
  trun (init_sm client mb mu) ops = (s, outs) ->
  zlen (i_streams (s_ib s)) <= mb /\ zlen (i_streams (s_iu s)) <= mu /\
  0 <= in_credit (s_ib s) /\ in_credit (s_ib s) + zlen (i_streams (s_ib s)) <= mb /\
  0 <= in_credit (s_iu s) /\ in_credit (s_iu s) + zlen (i_streams (s_iu s)) <= mu.
Proof. exact sm_incoming_bound. Qed.
Print Assumptions C15_incoming_bound_streams_map.

(** (b) Locally opened streams: for every history on an outgoing map (SetMaxStream with the IDs
    HandleMaxStreamsFrame computes), the IDs returned by OpenStream / OpenStreamSync are
    first, first+4, first+8, ... in this order, each <= the peer's limit; the map never opens
    beyond the limit; the STREAMS_BLOCKED frames name strictly increasing limits (one per limit). *)
Theorem C15_outgoing_ids : forall uni client ops m outs,
  Forall (oop_ok (first_outgoing uni client)) ops ->
  orun (init_out uni client) ops = (m, outs) ->
  opened ops outs = ids_from (first_outgoing uni client) (length (opened ops outs)) /\
  Forall (fun id => id <= o_max m) (opened ops outs) /\
  o_next m = first_outgoing uni client + 4 * zlen (opened ops outs) /\
  o_next m <= o_max m + 4 /\
  exists B, bchain uni (-1) (frames_of outs) B.
Proof. exact out_ids. Qed.
Print Assumptions C15_outgoing_ids.

(** (b) On an open (not closed) map, OpenStream fails with StreamLimitReachedError exactly when the
    limit is reached or when OpenStreamSync callers are waiting (they must not be overtaken). *)
Theorem C15_open_fails_iff : forall m, o_closed m = None ->
  (snd (fst (o_open m)) = RErr ErrLimitReached <-> o_queue m <> [] \/ o_max m < o_next m).
Proof. exact out_open_fails_iff_open. Qed.
Print Assumptions C15_open_fails_iff.

(** (b) FIFO, over all interleavings of calls, wake-ups, cancellations, SetMaxStream, Close: the
    callers that obtained a stream after waiting, in the order they obtained it, are a
    subsequence of the callers in the order they started to wait. *)
Theorem C15_fifo : forall uni client ops m outs,
  Forall (oop_ok (first_outgoing uni client)) ops ->
  orun (init_out uni client) ops = (m, outs) ->
  subseq (served ops outs) (arrivals ops outs).
Proof. exact out_fifo. Qed.
Print Assumptions C15_fifo.

(** (b) FIFO, state form, in every reachable state of an outgoing map: only the head of the queue
    can be served and gets the next ID; if a stream can be opened while somebody waits, the head's
    wake-up is pending and yields that stream (no credit is lost, e.g. when a woken waiter
    cancels); a woken waiter never has to wait again; nobody but the head holds a wake-up. *)
Theorem C15_fifo_no_lost_credit : forall uni client m, oreach uni client m -> out_facts m.
Proof. exact out_fifo_state. Qed.
Print Assumptions C15_fifo_no_lost_credit.

Theorem C15_out_facts_meaning : forall m, out_facts m <->
  (forall w m' id fr, o_sync_wake m w = (m', RId id, fr) ->
     exists q, o_queue m = (w, true) :: q /\ queue_ids m' = map fst q /\ id = o_next m /\ fr = []) /\
  (forall w t q, o_closed m = None -> o_queue m = (w, t) :: q -> o_next m <= o_max m ->
     t = true /\ exists m', o_sync_wake m w = (m', RId (o_next m), [])) /\
  (forall w, snd (fst (o_sync_wake m w)) <> RParked) /\
  head_tok m /\
  o_next m <= o_max m + 4.
Proof. exact (fun m => iff_refl _). Qed.
Print Assumptions C15_out_facts_meaning.

(** (a)-(c) in every reachable state of the four-map streamsMap (any history of its API incl.
    ResetFor0RTT), both perspectives, both stream types: all per-map facts above. *)
Theorem C15_streams_map_reachable : forall client mb mu ops s outs uni,
  0 <= mb -> 0 <= mu -> Forall top_ok ops ->
  trun (init_sm client mb mu) ops = (s, outs) ->
  in_facts (first_incoming uni client) (s_in s uni) /\ i_uni (s_in s uni) = uni /\
  out_facts (s_out s uni) /\ o_uni (s_out s uni) = uni.
Proof. exact sm_reachable_facts. Qed.
Print Assumptions C15_streams_map_reachable.

(** (b) for the four-map streamsMap, every reachable state, both types. *)
Theorem C15_outgoing_streams_map : forall client mb mu ops s outs uni,
  0 <= mb -> 0 <= mu -> Forall top_ok ops ->
  trun (init_sm client mb mu) ops = (s, outs) ->
  let m := s_out s uni in
  o_next m <= o_max m + 4 /\ head_tok m /\
  (exists n, o_next m = first_outgoing uni client + 4 * n /\ 0 <= n).
Proof. exact sm_outgoing_discipline. Qed.
Print Assumptions C15_outgoing_streams_map.

(** (c) AcceptStream returns first, first+4, ... : every stream once, in ID order.
    The histories quantified over contain [IAccept c] steps of arbitrarily many callers [c]
    (first calls, wake-ups of parked callers, spurious wake-ups) and [IAcceptCancel c], in any
    interleaving with the peer's frames and stream completions: the statement covers any number
    of concurrent AcceptStream callers.  It rests on lookup-and-advance being ONE step of the
    model, i.e. one critical section of the code. *)
Theorem C15_accept_once_in_order : forall uni client N ops m outs, 0 <= N ->
  Forall (iop_ok (first_incoming uni client)) ops ->
  irun (init_in uni client N) ops = (m, outs) ->
  accepted ops outs = ids_from (first_incoming uni client) (length (accepted ops outs)) /\
  i_nextAccept m = first_incoming uni client + 4 * zlen (accepted ops outs).
Proof. exact in_accept_order. Qed.
Print Assumptions C15_accept_once_in_order.

(** (c) the same with the callers made visible: [accepted_by] lists (caller, stream) in the order
    of the critical sections; whatever the callers, no stream goes to two of them, none is skipped. *)
Theorem C15_accept_concurrent_callers : forall uni client N ops m outs, 0 <= N ->
  Forall (iop_ok (first_incoming uni client)) ops ->
  irun (init_in uni client N) ops = (m, outs) ->
  map snd (accepted_by ops outs) =
    ids_from (first_incoming uni client) (length (accepted_by ops outs)) /\
  NoDup (map snd (accepted_by ops outs)).
Proof. exact in_accept_concurrent. Qed.
Print Assumptions C15_accept_concurrent_callers.

Theorem C15_accept_no_duplicates : forall n from, NoDup (ids_from from n).
Proof. exact ids_from_NoDup. Qed.
Print Assumptions C15_accept_no_duplicates.

(** (d) STREAM_STATE_ERROR exactly for a frame of the wrong direction or for a locally
    initiated stream that was never opened. *)
Theorem C15_state_errors_recv : forall s id,
  snd (fst (t_get_recv s id)) = RErr ErrState <->
  (id_is_uni id = true /\ by_self s id = true) \/
  (id_is_uni id = false /\ by_self s id = true /\ o_next (s_ob s) <= id).
Proof. exact recv_state_error_iff. Qed.
Print Assumptions C15_state_errors_recv.

Theorem C15_state_errors_send : forall s id,
  snd (fst (t_get_send s id)) = RErr ErrState <->
  (id_is_uni id = true /\ by_self s id = false) \/
  (by_self s id = true /\ o_next (s_out s (id_is_uni id)) <= id).
Proof. exact send_state_error_iff. Qed.
Print Assumptions C15_state_errors_send.

(** (d) frames for a local stream that was opened and already deleted are ignored *)
Theorem C15_deleted_stream_ignored : forall s id, by_self s id = true ->
  id < o_next (s_out s (id_is_uni id)) -> zmem id (o_streams (s_out s (id_is_uni id))) = false ->
  t_get_send s id = (s, RNil, []) /\ (id_is_uni id = false -> t_get_recv s id = (s, RNil, [])).
Proof. exact deleted_local_ignored. Qed.
Print Assumptions C15_deleted_stream_ignored.

(** Non-vacuity: a server-side history that hits the limit, gets credit back by completing an
    accepted stream, and serves two blocked openers in order. *)
Example C15_example_incoming :
  snd (irun (init_in false false 1)
            [IGetOrOpen 0; IGetOrOpen 4; IAccept 1; IDelete 0; IGetOrOpen 4]) =
  [(RId 0, []); (RErr ErrLimit, []); (RId 0, []); (RUnit, [FMax false 2]); (RId 4, [])].
Proof. vm_compute. reflexivity. Qed.
Print Assumptions C15_example_incoming.

Example C15_example_outgoing :
  snd (orun (init_out true true)
            [OpSyncCall 7 false; OpSyncCall 8 false; OpSetMax 2; OpSyncWake 7; OpSyncCancel 8; OpSetMax 6; OpOpen]) =
  [(RParked, [FBlocked true 0]); (RParked, []); (RUnit, [FBlocked true 1]); (RId 2, []);
   (RErr ErrCtx, []); (RUnit, []); (RId 6, [])].
Proof. vm_compute. reflexivity. Qed.
Print Assumptions C15_example_outgoing.

(** three callers parked at once, two streams opened by one frame, wake-ups in any order *)
Example C15_example_concurrent_accept :
  let r := irun (init_in true false 4)
             [IAccept 1; IAccept 2; IAccept 3; IGetOrOpen 6; IAccept 3; IAccept 1; IAccept 2; IAcceptCancel 2] in
  snd r = [(RParked, []); (RParked, []); (RParked, []); (RId 6, []); (RId 2, []); (RId 6, []);
           (RParked, []); (RErr ErrCtx, [])] /\
  i_parked (fst r) = [].
Proof. vm_compute. split; reflexivity. Qed.
Print Assumptions C15_example_concurrent_accept.

(** * Round 3 *)

(** (b) FIFO for the four-map streamsMap, for every API history including ResetFor0RTT /
    UseResetMaps: per stream type, served waiters are a subsequence of the arrivals. *)
Theorem C15_fifo_streams_map : forall client mb mu ops s outs uni, 0 <= mb -> 0 <= mu -> Forall top_ok ops ->
  trun (init_sm client mb mu) ops = (s, outs) ->
  subseq (tserved uni ops outs) (tarrivals uni ops outs).
Proof. exact sm_fifo. Qed.
Print Assumptions C15_fifo_streams_map.

(** What ResetFor0RTT does to blocked callers: none is carried over to the new maps (their queues
    and sets of parked acceptors are empty); all of them, and those of earlier resets, are remembered
    as callers of replaced maps ... *)
Theorem C15_reset_fails_waiters : forall s s' r fr, tstep s OReset = (s', r, fr) ->
  (forall w, In w (queue_ids (s_ob s) ++ o_dead (s_ob s) ++ queue_ids (s_ou s) ++ o_dead (s_ou s) ++ s_zomb s) ->
             In w (s_zomb s')) /\
  (forall a, In a (i_parked (s_ib s) ++ i_parked (s_iu s) ++ s_zacc s) -> In a (s_zacc s')) /\
  queue_ids (s_ob s') = [] /\ queue_ids (s_ou s') = [] /\ i_parked (s_ib s') = [] /\ i_parked (s_iu s') = [] /\
  s_reset s' = true.
Proof. exact sm_reset_fails_waiters. Qed.
Print Assumptions C15_reset_fails_waiters.

(** ... and such a caller returns Err0RTTRejected when it wakes, its context's error if it is
    cancelled first - never a stream (so it cannot disturb the FIFO order of the new maps). *)
Theorem C15_reset_waiter_outcome : forall s uni w, In w (s_zomb s) ->
  snd (fst (tstep s (OSyncWake uni w))) = RErr Err0RTT /\
  snd (fst (tstep s (OSyncCancel uni w))) = RErr ErrCtx.
Proof. exact sm_zombie_outcome. Qed.
Print Assumptions C15_reset_waiter_outcome.

Theorem C15_reset_acceptor_outcome : forall s uni a, In a (s_zacc s) ->
  snd (fst (tstep s (OAcceptWake uni a))) = RErr Err0RTT /\
  snd (fst (tstep s (OAcceptCancel uni a))) = RErr ErrCtx.
Proof. exact sm_zombie_acceptor_outcome. Qed.
Print Assumptions C15_reset_acceptor_outcome.

(** No lost wake-up, OpenStreamSync: in every reachable state of an outgoing map (and of the
    streamsMap) in which no wake-up is pending (no queued caller holds a token, nobody is still to be
    told about CloseWithError), callers are blocked only if the map is open and at the peer's limit. *)
Theorem C15_no_lost_wakeup_open : forall uni client m, oreach uni client m ->
  out_quiescent m -> o_queue m <> [] -> o_closed m = None /\ o_max m < o_next m.
Proof. exact out_no_lost_wakeup. Qed.
Print Assumptions C15_no_lost_wakeup_open.

Theorem C15_no_lost_wakeup_open_streams_map : forall client mb mu ops s outs uni,
  0 <= mb -> 0 <= mu -> Forall top_ok ops ->
  trun (init_sm client mb mu) ops = (s, outs) ->
  let m := s_out s uni in
  out_quiescent m -> o_queue m <> [] -> o_closed m = None /\ o_max m < o_next m.
Proof. exact sm_no_lost_wakeup_open. Qed.
Print Assumptions C15_no_lost_wakeup_open_streams_map.

(** No lost wake-up, AcceptStream (fine-grained protocol model AcceptWake.v, repaired code: a caller
    that takes a stream re-signals when the next one is already there): for every history of any
    number of callers, in every quiescent state (all callers blocked in their select) somebody is
    blocked only if no opened stream is waiting to be accepted. *)
Theorem C15_no_lost_wakeup_accept : forall ops, let m := aw_run true ops in
  quiescent m = true -> aw_callers m <> [] -> aw_avail m = 0.
Proof. exact no_lost_wakeup_accept. Qed.
Print Assumptions C15_no_lost_wakeup_accept.

(** Regression witness (the code before fixes/C15-accept-lost-wakeup.patch, [resignal = false]):
    caller 1 finds nothing; one frame opens two streams (one token); caller 2 drains the token and
    takes the first stream; caller 1 reaches its select: blocked although a stream is waiting.
    Replayed on the implementation by smAcceptLostWakeupProbe (monitor accept/lost-wakeup).
    With the repair the same schedule ends with caller 1 holding the wake-up. *)
Example C15_lost_wakeup_witness :
  let ops := [ACall 1; ACheck 1; AOpen 2; ACall 2; ACheck 2; ASelect 1] in
  (quiescent (aw_run false ops) = true /\ aw_callers (aw_run false ops) = [(1, PWaiting)] /\
   aw_avail (aw_run false ops) = 1) /\
  (aw_callers (aw_run true ops) = [(1, PWoken)] /\ aw_avail (aw_run true ops) = 1).
Proof. vm_compute. repeat split; reflexivity. Qed.
Print Assumptions C15_lost_wakeup_witness.

(** RESET_STREAM_AT needs the peer's consent: if the streams map would give the extension to a new
    stream, or some open outgoing stream has it switched on, then some transport parameters
    applied earlier carried reset_stream_at (possibly the ones restored for 0-RTT). *)
Theorem C15_reset_stream_at_needs_consent : forall client mb mu ops s outs,
  trun (init_sm client mb mu) ops = (s, outs) -> rsa_used s -> existsb tp_enables ops = true.
Proof. exact sm_rsa_needs_consent. Qed.
Print Assumptions C15_reset_stream_at_needs_consent.

(** Transport parameters without reset_stream_at switch the extension on for no open stream
    (the repair of fixes/C15-reset-stream-at-without-consent.patch). *)
Theorem C15_reset_stream_at_not_enabled_without_consent : forall s nb nu s' r fr,
  tstep s (OTransportParams nb nu false) = (s', r, fr) -> s_rsa s' = false /\ s_rsaIDs s' = s_rsaIDs s.
Proof. exact sm_tp_without_rsa. Qed.
Print Assumptions C15_reset_stream_at_not_enabled_without_consent.

(** Regression: the 0-RTT client of the finding (restored parameters, stream opened, real parameters,
    none with reset_stream_at): no stream has the extension; with reset_stream_at in the real
    parameters the stream opened during 0-RTT gets it. *)
Example C15_reset_stream_at_regression :
  s_rsaIDs (fst (trun (init_sm true 10 10)
                      [OTransportParams 3 3 false; OOpen false; OOpen true; OTransportParams 3 3 false])) = [] /\
  s_rsaIDs (fst (trun (init_sm true 10 10)
                      [OTransportParams 3 3 false; OOpen false; OOpen true; OTransportParams 3 3 true])) = [0; 2].
Proof. vm_compute. split; reflexivity. Qed.
Print Assumptions C15_reset_stream_at_regression.

(** * Connection glue (handleFrames in front of the streams map, unit streamsglue)
    In the packet-level model that is replayed against real connections with and without a qlog
    tracer, the first failing frame decides the packet: the verdict (= the connection's close
    error) and the state do not depend on the frames behind it. *)
Theorem C15_packet_first_error_decides : forall tr pre g g1 fr0 f o s2 e fr rest,
  handle_packet tr g pre = (g1, None, fr0) -> gframe_op f = Some o ->
  tstep (g_sm g1) o = (s2, RErr e, fr) ->
  (* frames behind the failing one are never handled *)
  fst (fst (handle_packet tr g (pre ++ f :: rest))) = fst (fst (handle_packet tr g (pre ++ [f]))) /\
  snd (handle_packet tr g (pre ++ f :: rest)) = snd (handle_packet tr g (pre ++ [f])) /\
  (* the packet fails (the connection is closed with an error) *)
  snd (fst (handle_packet tr g (pre ++ f :: rest))) <> None /\
  (* with the failing frame's error, unless a tracer is attached AND a malformed frame follows *)
  (tr = false \/ existsb is_malformed rest = false ->
   snd (fst (handle_packet tr g (pre ++ f :: rest))) = Some e).
Proof. exact handle_packet_rest. Qed.
Print Assumptions C15_packet_first_error_decides.

(** the exact verdict, including the tracer-dependent case *)
Theorem C15_packet_verdict : forall tr pre g g1 fr0 f o s2 e fr rest,
  handle_packet tr g pre = (g1, None, fr0) -> gframe_op f = Some o ->
  tstep (g_sm g1) o = (s2, RErr e, fr) ->
  handle_packet tr g (pre ++ f :: rest) =
    (mkG s2 (g_cancel g1) (g_final g1) (g_done g1) (g_nextA g1),
     Some (if tr && existsb is_malformed rest then ErrFrameEncoding else e), fr0 ++ fr).
Proof. exact handle_packet_first_error. Qed.
Print Assumptions C15_packet_verdict.

Example C15_packet_example :
  snd (fst (handle_packet true (g_init false 2 2) [GStream 8; GStream 0])) = Some ErrLimit /\
  snd (fst (handle_packet true (g_init false 2 2) [GPing; GStopSending 2; GStream 0; GStream 4])) = Some ErrState /\
  i_nextOpen (s_ib (g_sm (fst (fst (handle_packet true (g_init false 2 2) [GStream 8; GStream 0]))))) = 0.
Proof. vm_compute. repeat split; reflexivity. Qed.
Print Assumptions C15_packet_example.

(** OBSERVATION (refutes "always answered with STREAM_LIMIT_ERROR" for one corner, replayed on the
    implementation by the streamsglue table): a stream beyond the limit followed by a malformed frame
    in the same packet is answered with STREAM_LIMIT_ERROR without a qlog tracer and with
    FRAME_ENCODING_ERROR with one (C08_tracer_changes_the_error is the same fact at the codec level).
    The connection is closed in both cases and no stream is opened. *)
Example C15_tracer_changes_the_error_class :
  snd (fst (handle_packet false (g_init false 2 2) [GStream 8; GMalformed])) = Some ErrLimit /\
  snd (fst (handle_packet true (g_init false 2 2) [GStream 8; GMalformed])) = Some ErrFrameEncoding /\
  i_nextOpen (s_ib (g_sm (fst (fst (handle_packet true (g_init false 2 2) [GStream 8; GMalformed]))))) = 0.
Proof. vm_compute. repeat split; reflexivity. Qed.
Print Assumptions C15_tracer_changes_the_error_class.

(** a stream completed through the connection: accepted, abandoned by the application, final size
    told by the peer's FIN - the MAX_STREAMS for the freed slot is queued by the packet that carries
    the FIN, and the peer may then open one more stream; without the abandon the slot stays taken *)
Example C15_glue_completion_example :
  snd (glue_run false (g_init false 1 1)
         [SPacket [GStream 0]; SApp (GAAccept false); SPacket [GStreamFin 0; GStream 4]]) =
  [(0, []); (0, []); (ErrLimit, [])] /\
  snd (glue_run false (g_init false 1 1)
         [SPacket [GStream 0]; SApp (GAAccept false); SApp (GAAbandon 0);
          SPacket [GStreamFin 0; GStream 4]]) =
  [(0, []); (0, []); (0, []); (0, [FMax false 2])].
Proof. vm_compute. split; reflexivity. Qed.
Print Assumptions C15_glue_completion_example.

(** * Round 4 *)

(** (b) OpenStreamSync callers are woken exactly when the limit allows it: in every reachable state
    of an outgoing map the head of the queue holds a wake-up token iff a stream can be opened, and
    nobody behind it holds one. *)
Theorem C15_wakeup_iff_credit : forall uni client m w t q, oreach uni client m ->
  o_queue m = (w, t) :: q ->
  (t = true <-> o_next m <= o_max m) /\ Forall (fun e => snd e = false) q.
Proof. exact out_wakeup_iff_credit. Qed.
Print Assumptions C15_wakeup_iff_credit.

(** (c) A 0-RTT rejection makes the four maps start over: stream IDs restart at the first ID of each
    class, the advertised incoming limits are the configured ones again, the peer's limits are
    forgotten, no stream keeps RESET_STREAM_AT; no control frame is queued. *)
Theorem C15_reset_restarts : forall s s' r fr, tstep s OReset = (s', r, fr) ->
  s_ob s' = init_out false (s_client s) /\ s_ou s' = init_out true (s_client s) /\
  s_ib s' = init_in false (s_client s) (s_maxBidi s) /\ s_iu s' = init_in true (s_client s) (s_maxUni s) /\
  s_rsaIDs s' = [] /\ fr = [].
Proof. exact sm_reset_restarts. Qed.
Print Assumptions C15_reset_restarts.

(** (c) Until UseResetMaps, Open / OpenSync / Accept fail with Err0RTTRejected and change nothing. *)
Theorem C15_reset_blocks_api : forall s uni w c a, s_reset s = true ->
  tstep s (OOpen uni) = (s, RErr Err0RTT, []) /\
  tstep s (OSyncCall uni w c) = (s, RErr Err0RTT, []) /\
  tstep s (OAcceptCall uni a) = (s, RErr Err0RTT, []).
Proof. exact sm_reset_blocks_api. Qed.
Print Assumptions C15_reset_blocks_api.

(** (c) through the connection glue: a client opens streams with restored parameters, 0-RTT is
    rejected, the application abandons an old stream (no effect), moves on, and the IDs start over. *)
Example C15_glue_0rtt_example :
  map fst (snd (glue_run false (g_init true 2 2)
    [SApp (GAParams 2 2 false); SApp (GAOpen false); SApp (GAOpen false); SApp GAReject0RTT;
     SApp (GAOpen false); SApp GAOldStream; SApp GAUseReset; SApp (GAOpen false);
     SApp (GAParams 1 1 false); SApp (GAOpen false); SApp (GAOpen false)])) =
  [0; 0; 4; 0; - Err0RTT; 0; 0; - ErrLimitReached; 0; 0; - ErrLimitReached].
Proof. vm_compute. reflexivity. Qed.
Print Assumptions C15_glue_0rtt_example.

(** (a) Credit is re-issued exactly as streams fully complete: as long as the peer has opened
    fewer than 2^60 - N streams, streams in the map + streams the peer may still open = N in every
    reachable state - every stream that leaves the map frees exactly one slot, immediately (the
    monitors incoming/credit-reissue and streamsglue/maxstreams/credit check this on the code). *)
Theorem C15_credit_exact : forall uni client N ops m outs, 0 <= N ->
  Forall (iop_ok (first_incoming uni client)) ops ->
  irun (init_in uni client N) ops = (m, outs) ->
  in_opened m + N <= SM_MaxStreamCount ->
  in_credit m + zlen (i_streams m) = N.
Proof. exact in_credit_exact. Qed.
Print Assumptions C15_credit_exact.

(** * Round 5 (audit) *)

(** (audit 1) Each of the four maps inside a reachable streamsMap is a reachable state of the
    single-map model: the projection of a streams-map history (any API history, incl. ResetFor0RTT,
    after which the projected history starts afresh) onto one map is a history of that map. *)
Theorem C15_streams_map_components_reach : forall client mb mu ops s outs uni,
  0 <= mb -> 0 <= mu -> Forall top_ok ops ->
  trun (init_sm client mb mu) ops = (s, outs) ->
  ireach uni client (if uni then mu else mb) (s_in s uni) /\ oreach uni client (s_out s uni).
Proof. exact sm_components_reach. Qed.
Print Assumptions C15_streams_map_components_reach.

(** (audit 1) Exact credit at the newStreamsMap level: every reachable state, both stream types. *)
Theorem C15_credit_exact_streams_map : forall client mb mu ops s outs (uni : bool),
  0 <= mb -> 0 <= mu -> Forall top_ok ops ->
  trun (init_sm client mb mu) ops = (s, outs) ->
  let N := (if uni then mu else mb) : Z in
  in_opened (s_in s uni) + N <= SM_MaxStreamCount ->
  in_credit (s_in s uni) + zlen (i_streams (s_in s uni)) = N.
Proof. exact sm_credit_exact. Qed.
Print Assumptions C15_credit_exact_streams_map.

(** (audit 1, 5) The single-map trace theorems at the newStreamsMap level, for the part of the history
    since the last 0-RTT reset: there is a map history ending in the map's current state for which
    Accept handed out first, first+4, ... (nextStreamToAccept counts them), the MAX_STREAMS frames are
    a strictly increasing chain from the configured limit to the limit now enforced, the locally
    opened IDs are first, first+4, ... each within the peer's limit, and nextStream - the "never
    opened" threshold of C15_state_errors_recv/_send - is first + 4 * (number of streams opened).
    (Not restated: the same sequences as functions of the TOP-LEVEL op list.) *)
Theorem C15_streams_map_component_histories : forall client mb mu ops s outs (uni : bool),
  0 <= mb -> 0 <= mu -> Forall top_ok ops ->
  trun (init_sm client mb mu) ops = (s, outs) ->
  let N := (if uni then mu else mb) : Z in
  (exists iops iouts, Forall (iop_ok (first_incoming uni client)) iops /\
     irun (init_in uni client N) iops = (s_in s uni, iouts) /\
     accepted iops iouts = ids_from (first_incoming uni client) (length (accepted iops iouts)) /\
     i_nextAccept (s_in s uni) = first_incoming uni client + 4 * zlen (accepted iops iouts) /\
     chain uni N (frames_of iouts) (in_adv (s_in s uni))) /\
  (exists oops oouts, Forall (oop_ok (first_outgoing uni client)) oops /\
     orun (init_out uni client) oops = (s_out s uni, oouts) /\
     opened oops oouts = ids_from (first_outgoing uni client) (length (opened oops oouts)) /\
     o_next (s_out s uni) = first_outgoing uni client + 4 * zlen (opened oops oouts) /\
     Forall (fun id => id <= o_max (s_out s uni)) (opened oops oouts)).
Proof. exact sm_component_histories. Qed.
Print Assumptions C15_streams_map_component_histories.

(** (audit 2) STREAMS_BLOCKED: over whole histories the frames queued so far end with the CURRENT
    limit exactly when blockedSent is set (at most once per limit, never for another value) ... *)
Theorem C15_blocked_history : forall uni client ops m outs,
  Forall (oop_ok (first_outgoing uni client)) ops ->
  orun (init_out uni client) ops = (m, outs) ->
  exists B, bchain uni (-1) (frames_of outs) B /\
    (if o_blockedSent m then B = out_limit m else B < out_limit m) /\ 0 <= out_limit m.
Proof. exact out_blocked_history. Qed.
Print Assumptions C15_blocked_history.

(** ... and it IS sent: when OpenStream fails at the limit, the frames queued up to and including
    this call are not empty and the last STREAMS_BLOCKED names the current limit. *)
Theorem C15_blocked_is_sent : forall uni client ops m1 outs1 m fr,
  Forall (oop_ok (first_outgoing uni client)) ops ->
  orun (init_out uni client) ops = (m1, outs1) -> o_closed m1 = None ->
  o_open m1 = (m, RErr ErrLimitReached, fr) ->
  bchain uni (-1) (frames_of outs1 ++ fr) (out_limit m) /\ 0 <= out_limit m /\
  frames_of outs1 ++ fr <> [].
Proof. exact out_blocked_is_sent. Qed.
Print Assumptions C15_blocked_is_sent.

(** by the code alone, for OpenStream and for an OpenStreamSync that has to wait: blockedSent is
    set afterwards and the frame, if one is queued now, names the current limit *)
Theorem C15_blocked_on_failure : forall m,
  (forall m' fr, o_closed m = None -> o_open m = (m', RErr ErrLimitReached, fr) ->
     o_blockedSent m' = true /\ out_limit m' = out_limit m /\
     ((o_blockedSent m = false /\ fr = [FBlocked (o_uni m) (out_limit m)]) \/ (o_blockedSent m = true /\ fr = []))) /\
  (forall w m' fr, o_sync_call m w false = (m', RParked, fr) ->
     o_blockedSent m' = true /\ out_limit m' = out_limit m /\
     ((o_blockedSent m = false /\ fr = [FBlocked (o_uni m) (out_limit m)]) \/ (o_blockedSent m = true /\ fr = []))).
Proof. exact (fun m => conj (out_open_fail_blocked m) (out_sync_park_blocked m)). Qed.
Print Assumptions C15_blocked_on_failure.

(** (audit 4) Real FIFO. (i) What a step does to the queue of waiting callers, exactly: a caller that
    has to wait joins at the BACK; a served caller is the HEAD; a cancelled caller is removed; Close
    empties the queue; nothing else moves anybody - the queue is the arrival order of the callers
    still waiting. *)
Theorem C15_fifo_queue_discipline : forall uni client m op m' r fr, oreach uni client m ->
  ostep m op = (m', r, fr) ->
  match op, r with
  | OpSyncCall w _, RParked => queue_ids m' = queue_ids m ++ [w]
  | OpSyncWake w, RId _ => queue_ids m = w :: queue_ids m'
  | OpSyncCancel w, _ =>
    queue_ids m' = filter (fun x => negb (w =? x)) (queue_ids m) \/ queue_ids m' = queue_ids m
  | OpClose _, _ => queue_ids m' = []
  | _, _ => queue_ids m' = queue_ids m
  end.
Proof.
  intros uni client m op m' r fr R. destruct (oreach_inv _ _ _ R) as ((n & K & B & I) & _ & _).
  exact (ostep_queue_exact _ _ _ _ _ _ _ _ _ (first_outgoing_range uni client) I).
Qed.
Print Assumptions C15_fifo_queue_discipline.

(** (ii) No overtaking: while an earlier arrival [a] still waits, a later one [b] cannot be served
    (hypothesis: [b] does not also occur before [a], i.e. waiter ids are fresh per call).
    So if a arrived before b and b was served, a was served before, or left (cancel / Close). *)
Theorem C15_fifo_no_overtaking : forall uni client m pre a rest b, oreach uni client m ->
  queue_ids m = pre ++ a :: rest -> In b rest -> ~ In b (pre ++ [a]) ->
  forall m' id fr, o_sync_wake m b <> (m', RId id, fr).
Proof. exact out_no_overtaking. Qed.
Print Assumptions C15_fifo_no_overtaking.

Example C15_fifo_no_overtaking_example :
  let m0 := fst (orun (init_out false true) [OpSyncCall 1 false; OpSyncCall 2 false; OpSetMax 4]) in
  queue_ids m0 = [1; 2] /\ snd (fst (o_sync_wake m0 2)) = RNotEnabled /\ snd (fst (o_sync_wake m0 1)) = RId 0.
Proof. vm_compute. repeat split; reflexivity. Qed.
Print Assumptions C15_fifo_no_overtaking_example.

(** * Round 6: the trace theorems as functions of the TOP-LEVEL op list *)
From V Require Import StreamsMap.ProofsProj.

(** [proj_in uni (init_sm client mb mu) ops []] is the functional projection of a streams-map history
    onto its incoming map of type [uni]: the steps that reached that map since the last ResetFor0RTT
    (with their results and queued frames). Running the four-map structure and looking at the map is
    running the single-map model on the projection; hence, at the newStreamsMap level, for every API
    history: Accept hands out first, first+4, ... each once (whatever the callers), the MAX_STREAMS
    frames are a strictly increasing chain from the configured limit to the limit now enforced, the
    map holds at most N streams and, below 2^60, streams + remaining credit = N. *)
Theorem C15_incoming_streams_map_trace : forall client mb mu ops s outs (uni : bool),
  0 <= mb -> 0 <= mu -> Forall top_ok ops ->
  trun (init_sm client mb mu) ops = (s, outs) ->
  let N := (if uni then mu else mb) : Z in
  let P := proj_in uni (init_sm client mb mu) ops [] in
  let iops := map fst P in let iouts := map snd P in
  irun (init_in uni client N) iops = (s_in s uni, iouts) /\
  accepted iops iouts = ids_from (first_incoming uni client) (length (accepted iops iouts)) /\
  i_nextAccept (s_in s uni) = first_incoming uni client + 4 * zlen (accepted iops iouts) /\
  NoDup (map snd (accepted_by iops iouts)) /\
  chain uni N (frames_of iouts) (in_adv (s_in s uni)) /\
  zlen (i_streams (s_in s uni)) <= N /\
  (in_opened (s_in s uni) + N <= SM_MaxStreamCount -> in_credit (s_in s uni) + zlen (i_streams (s_in s uni)) = N).
Proof. exact sm_incoming_trace. Qed.
Print Assumptions C15_incoming_streams_map_trace.

Example C15_incoming_streams_map_trace_example :
  map fst (proj_in false (init_sm false 1 1)
             [ORecv 0; OOpen false; OAcceptCall false 7; ORecv 2; ODelete 0; ORecv 4] []) =
  [IGetOrOpen 0; IAccept 7; IDelete 0; IGetOrOpen 4].
Proof. vm_compute. reflexivity. Qed.
Print Assumptions C15_incoming_streams_map_trace_example.

(** The same for the outgoing maps: [proj_out uni (init_sm client mb mu) ops []] is the projection
    of the top-level history onto the outgoing map of type [uni] since the last ResetFor0RTT (with
    the map's own results and frames; a transport-parameter op contributes one SetMaxStream to each
    map). At the newStreamsMap level, for every API history: the IDs handed out by OpenStream /
    OpenStreamSync are first, first+4, ... each within the peer's limit, nextStream counts them, the
    STREAMS_BLOCKED frames name strictly increasing limits and the last one names the current limit
    iff blockedSent, and the callers served after waiting are a subsequence of the arrivals. *)
Theorem C15_outgoing_streams_map_trace : forall client mb mu ops s outs (uni : bool),
  0 <= mb -> 0 <= mu -> Forall top_ok ops ->
  trun (init_sm client mb mu) ops = (s, outs) ->
  let P := proj_out uni (init_sm client mb mu) ops [] in
  let oops := map fst P in let oouts := map snd P in
  orun (init_out uni client) oops = (s_out s uni, oouts) /\
  opened oops oouts = ids_from (first_outgoing uni client) (length (opened oops oouts)) /\
  Forall (fun id => id <= o_max (s_out s uni)) (opened oops oouts) /\
  o_next (s_out s uni) = first_outgoing uni client + 4 * zlen (opened oops oouts) /\
  (exists B, bchain uni (-1) (frames_of oouts) B /\
     (if o_blockedSent (s_out s uni) then B = out_limit (s_out s uni) else B < out_limit (s_out s uni))) /\
  subseq (served oops oouts) (arrivals oops oouts).
Proof. exact sm_outgoing_trace. Qed.
Print Assumptions C15_outgoing_streams_map_trace.

Example C15_outgoing_streams_map_trace_example :
  map fst (proj_out true (init_sm true 1 1)
             [OTransportParams 1 2 false; OOpen true; OOpen false; OReset; OUseReset; OMaxStreams true 1; OOpen true] []) =
  [OpSetMax 2; OpOpen].
Proof. vm_compute. reflexivity. Qed.
Print Assumptions C15_outgoing_streams_map_trace_example.
