(** Generic glue of the correspondence check: indices of the cases on which the
    model disagrees with what the implementation logged. *)
From Coq Require Import List.
Import ListNotations.

Fixpoint mismatches_from {A} (f : A -> bool) (i : nat) (l : list A) : list nat :=
  match l with
  | [] => []
  | x :: r => if f x then mismatches_from f (S i) r else i :: mismatches_from f (S i) r
  end.
Definition mismatches {A} (f : A -> bool) (l : list A) : list nat := mismatches_from f 0 l.
