(** Byte strings travel from the Go harness as hex string literals (fast to parse);
    the models work on [list Z] with every element in [0,256). *)
From Coq Require Import List ZArith String Ascii Bool.
Open Scope bool_scope.
Import ListNotations.
Open Scope Z_scope.

Definition hexval (c : ascii) : Z :=
  let n := Z.of_N (N_of_ascii c) in
  if (48 <=? n) && (n <=? 57) then n - 48
  else if (97 <=? n) && (n <=? 102) then n - 87
  else if (65 <=? n) && (n <=? 70) then n - 55 else 0.

Fixpoint hx (s : string) : list Z :=
  match s with
  | String a (String b r) => (16 * hexval a + hexval b) :: hx r
  | _ => []
  end.

Definition zlen {A} (l : list A) : Z := Z.of_nat (List.length l).

Fixpoint zeqb_list (a b : list Z) : bool :=
  match a, b with
  | [], [] => true
  | x :: a', y :: b' => (x =? y) && zeqb_list a' b'
  | _, _ => false
  end.

Lemma zeqb_list_eq a b : zeqb_list a b = true <-> a = b.
Proof.
  revert b; induction a as [|x a IH]; intros [|y b]; simpl; split; intros H; try congruence; auto.
  - apply andb_prop in H as [H1 H2]. apply Z.eqb_eq in H1. apply IH in H2. congruence.
  - inversion H; subst. rewrite Z.eqb_refl. simpl. apply IH. reflexivity.
Qed.
