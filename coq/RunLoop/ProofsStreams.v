(** The per-stream side of the fan-out, on the C03 unit's ReceiveStream model (RecvStream/Model.v, tied to
    receive_stream.go by the C03 correspondence unit): whatever state a receive stream is in — data outstanding,
    FIN with a gap, locally cancelled, RESET_STREAM, RESET_STREAM_AT whose reliable part is still incomplete —
    closeForShutdown latches it, so by C03's liveness theorems neither Read nor Peek parks afterwards. *)
From Coq Require Import List ZArith Lia Bool.
From V Require Import Gen.Params FrameSorter.Model RecvStream.Model RecvStream.Spec RecvStream.ProofsRecv2.
Import ListNotations.
Open Scope Z_scope.

Lemma shutdown_latches : forall s, latched (CloseForShutdown s) = true.
Proof. intros s. reflexivity. Qed.

Lemma rsrun_snoc : forall S ops r0 r o, rsrun S r0 ops = Some r -> rsrun S r0 (ops ++ [o]) = rstep S r o.
Proof.
  induction ops as [|x ops IH]; intros r0 r o H; cbn [rsrun app] in *.
  - inversion H; subst. destruct (rstep S r o); reflexivity.
  - destruct (rstep S r0 x) as [r1|]; [|discriminate]. apply IH. exact H.
Qed.

(** for every reachable stream state (any valid history of frames, resets, reads, peeks, cancels): after
    closeForShutdown a Read / Peek of the woken or any later caller does not park *)
Theorem stream_unblocked_every_state : forall S w ops r n,
  0 <= w < MaxBC -> Forall rvalid ops -> rsrun S (rrun_init w) ops = Some r -> 0 < n ->
  (forall s' d e bug, Read (CloseForShutdown (rr_st r)) n = (s', d, e, bug) -> e <> EWouldBlock) /\
  (forall s' d e bug, PeekS (CloseForShutdown (rr_st r)) n = (s', d, e, bug) -> e <> EWouldBlock).
Proof.
  intros S w ops r n Hw Hv Hs Hn.
  set (r' := {| rr_st := CloseForShutdown (rr_st r); rr_out := rr_out r; rr_eof := rr_eof r; rr_acc := rr_acc r |}).
  assert (Hs' : rsrun S (rrun_init w) (ops ++ [ROShutdown]) = Some r').
  { rewrite (rsrun_snoc S ops _ r ROShutdown Hs). reflexivity. }
  assert (Hv' : Forall rvalid (ops ++ [ROShutdown])).
  { apply Forall_app. split; [exact Hv|]. constructor; [exact I|constructor]. }
  split; intros s' d e bug H.
  - destruct (recv_read_live S w _ r' n s' d e bug Hw Hv' Hs' Hn H) as [L _]. apply L. right. left. reflexivity.
  - destruct (recv_peek_live S w _ r' n s' d e bug Hw Hv' Hs' Hn H) as [L _]. apply L. reflexivity.
Qed.
