(** The composed model: the recorded close error reaches every API object and every parked goroutine. *)
From Coq Require Import List ZArith Bool Lia.
From V Require Import Gen.Params RunLoop.Model RunLoop.Proofs.
Import ListNotations.
Open Scope Z_scope.

Definition calls_in_range (a : api) (l : list cev) : Prop :=
  Forall (fun e => match e with CCall c => call_in_range a c | _ => True end) l.

Definition good_result (e : errk) (rcv : bool) (cr : call * res) : Prop :=
  snd cr <> RBlock /\
  (snd cr = RErr e \/ own_result (snd cr) \/ (fst cr = CReceiveDatagram /\ rcv = true /\ snd cr = ROk)).

(** before the loop is left the API objects are untouched; after it: the recorded cause's mapped error is in every
    object, nobody is parked, and everything handed to the goroutines that were parked is the cause (or the object's own
    terminal result / a datagram queued before) *)
Definition cinv (a0 : api) (k : conn) : Prop :=
  (k_exited k = false /\ k_api k = a0 /\ k_returned k = [] /\ one_per_stream (k_parked k) /\ Forall (call_in_range a0) (k_parked k)) \/
  (k_exited k = true /\ exists ce, closeErr (k_st k) = Some ce /\ k_api k = fanout a0 (mapped_err ce) /\
     k_parked k = [] /\ Forall (good_result (mapped_err ce) (a_rcvQueued a0)) (k_returned k)).

Lemma unwoken_from_none : forall ps served,
  NoDup (filter (fun c => match close_wakeup c with WakeOne => true | WakeAll => false end) ps) ->
  (forall p, In p ps -> close_wakeup p = WakeOne -> ~ In p served) ->
  unwoken_from close_wakeup served ps = [].
Proof.
  induction ps as [|p r IH]; intros served N D; [reflexivity|].
  cbn [unwoken_from]. cbn [filter] in N. destruct (close_wakeup p) eqn:W.
  - apply IH; [exact N|]. intros q Hq. apply D. right. exact Hq.
  - inversion N as [|? ? Hnotin N']; subst.
    destruct (in_dec call_eq_dec p served) as [I|I].
    + exfalso. apply (D p (or_introl eq_refl) W). exact I.
    + apply IH; [exact N'|]. intros q Hq Wq [E|I'].
      * subst q. apply Hnotin. apply filter_In. split; [exact Hq|]. rewrite W. reflexivity.
      * apply (D q (or_intror Hq) Wq). exact I'.
Qed.

Lemma filter_all_false : forall (A : Type) (f : A -> bool) l, (forall x, In x l -> f x = false) -> filter f l = [].
Proof.
  intros A f l H. induction l as [|x l IH]; [reflexivity|]. cbn [filter]. rewrite (H x (or_introl eq_refl)).
  apply IH. intros y Hy. apply H. right. exact Hy.
Qed.

Lemma NoDup_snoc : forall (A : Type) (l : list A) x, NoDup l -> ~ In x l -> NoDup (l ++ [x]).
Proof.
  intros A l x H Hn. induction H as [|y l Hy H IH]; cbn.
  - constructor; [intros []|constructor].
  - constructor.
    + intros I. apply in_app_or in I. destruct I as [I|[I|[]]]; [contradiction|]. subst. apply Hn. left. reflexivity.
    + apply IH. intros I. apply Hn. right. exact I.
Qed.

Lemma one_per_stream_snoc : forall ps c, one_per_stream ps ->
  (close_wakeup c = WakeOne -> ~ In c ps) -> one_per_stream (ps ++ [c]).
Proof.
  intros ps c H Hn. unfold one_per_stream in *. rewrite filter_app. cbn [filter].
  destruct (close_wakeup c) eqn:W; [rewrite app_nil_r; exact H|].
  apply NoDup_snoc; [exact H|]. intros I. apply filter_In in I. destruct I as [I _]. exact (Hn eq_refl I).
Qed.

Lemma cstep_inv : forall a0 k e, fresh_streams a0 ->
  match e with CCall c => call_in_range a0 c | _ => True end ->
  cinv a0 k -> cinv a0 (fst (cstep k e)).
Proof.
  intros a0 k e Hf He [(Hx & Ha & Hr & H1 & Hin)|(Hx & ce & Hc & Ha & Hp & Hg)].
  - destruct e as [e'|c|]; cbn [cstep].
    + rewrite Hx. cbn [fst]. left. cbn. auto.
    + destruct (is_blocked (api_call (k_api k) c)) eqn:B; [|cbn [fst]; left; auto].
      destruct (close_wakeup c) eqn:W.
      * cbn [fst]. left. cbn. repeat split; auto.
        -- apply one_per_stream_snoc; [exact H1|]. intros W'. congruence.
        -- apply Forall_app. split; [exact Hin|]. constructor; [exact He|constructor].
      * destruct (in_dec call_eq_dec c (k_parked k)) as [I|I]; cbn [fst]; [left; auto|].
        left. cbn. repeat split; auto.
        -- apply one_per_stream_snoc; [exact H1|]. intros _. exact I.
        -- apply Forall_app. split; [exact Hin|]. constructor; [exact He|constructor].
    + destruct (closeErr (k_st k)) as [ce|] eqn:C; [|cbn [fst]; left; auto].
      rewrite Hx. cbn [fst]. right. cbn. split; [reflexivity|]. exists ce. rewrite Ha, Hr.
      assert (W : woken (k_parked k) = k_parked k) by (apply all_parked_woken; exact H1).
      assert (U : unwoken_from close_wakeup [] (k_parked k) = []) by (apply unwoken_from_none; [exact H1|intros p _ _ []]).
      assert (NB : forall c, In c (k_parked k) -> is_blocked (api_call (fanout a0 (mapped_err ce)) c) = false).
      { intros c Hc. rewrite Forall_forall in Hin. destruct (Hin c Hc) as [R Wr].
        pose proof (fanout_never_parks a0 (mapped_err ce) c Hf R Wr) as N.
        destruct (api_call (fanout a0 (mapped_err ce)) c); try reflexivity. contradiction. }
      rewrite W, U. repeat split; auto.
      * cbn [app]. apply filter_all_false. exact NB.
      * cbn [app]. apply Forall_forall. intros [c r] Hcr. apply in_map_iff in Hcr. destruct Hcr as [c' [E Hc']].
        injection E as E1 E2. subst c r. apply filter_In in Hc'. destruct Hc' as [Hc' _].
        rewrite Forall_forall in Hin. destruct (Hin c' Hc') as [R Wr]. unfold good_result. cbn [fst snd]. split.
        -- apply fanout_never_parks; assumption.
        -- apply fanout_call; assumption.
  - right. destruct e as [e'|c|]; cbn [cstep].
    + rewrite Hx. cbn [fst]. split; [exact Hx|]. exists ce. auto.
    + rewrite Ha.
      assert (N : is_blocked (api_call (fanout a0 (mapped_err ce)) c) = false).
      { destruct He as [R Wr]. pose proof (fanout_never_parks a0 (mapped_err ce) c Hf R Wr) as N.
        destruct (api_call (fanout a0 (mapped_err ce)) c); try reflexivity. contradiction. }
      rewrite N. cbn [fst]. split; [exact Hx|]. exists ce. rewrite <- Ha. auto.
    + rewrite Hc, Hx. cbn [fst]. split; [exact Hx|]. exists ce. auto.
Qed.

Lemma crun_inv : forall a0 l k, fresh_streams a0 -> calls_in_range a0 l -> cinv a0 k -> cinv a0 (crun k l).
Proof.
  intros a0 l. induction l as [|e l IH]; intros k Hf Hr Hi; [exact Hi|].
  inversion Hr; subst. unfold crun. cbn [fold_left]. apply IH; [exact Hf|assumption|].
  apply cstep_inv; assumption.
Qed.

(** the run-loop state and the loop's exit flag of the composed history *)
Lemma cstep_exited_mono : forall k e, k_exited k = true -> k_exited (fst (cstep k e)) = true /\ k_st (fst (cstep k e)) = k_st k.
Proof.
  intros k e H. destruct e as [e'|c|]; cbn [cstep].
  - rewrite H. auto.
  - destruct (is_blocked _); [|auto]. destruct (close_wakeup c); [auto|]. destruct (in_dec _ _ _); auto.
  - rewrite H. destruct (closeErr (k_st k)); auto.
Qed.

(** Over all composed histories (run-loop events, API calls of any number of goroutines, the loop's exit) starting with
    untouched API objects: if run() has left its loop, then a close error ce is recorded in the run loop's state, every API
    object has been closed with EXACTLY mapped_err ce (stream maps, datagram queue, every stream), no goroutine is parked in
    any call, and everything that the goroutines parked at that moment were handed is that error (or the object's own terminal
    result / a datagram queued before). Before that, nothing has touched the API objects. handleCloseError runs once:
    a second exit event changes nothing. *)
Theorem close_reaches_every_caller : forall s0 a0 l,
  fresh_streams a0 -> calls_in_range a0 l ->
  let k := crun (conn_init s0 a0) l in
  (k_exited k = false -> k_api k = a0 /\ k_returned k = []) /\
  (k_exited k = true -> exists ce,
     closeErr (k_st k) = Some ce /\ k_api k = fanout a0 (mapped_err ce) /\ k_parked k = [] /\
     Forall (good_result (mapped_err ce) (a_rcvQueued a0)) (k_returned k) /\
     fst (cstep k CExit) = k /\
     forall c, call_in_range a0 c -> exists r, cstep k (CCall c) = (k, Some r) /\ good_result (mapped_err ce) (a_rcvQueued a0) (c, r)).
Proof.
  intros s0 a0 l Hf Hr k.
  assert (I : cinv a0 k).
  { apply crun_inv; [exact Hf|exact Hr|]. left. cbn. repeat split; auto; constructor. }
  split.
  - intros Hx. destruct I as [(_ & Ha & Hre & _)|(Hx' & _)]; [auto|congruence].
  - intros Hx. destruct I as [(Hx' & _)|(_ & ce & Hc & Ha & Hp & Hg)]; [congruence|].
    exists ce. repeat split; auto.
    + cbn [cstep]. rewrite Hc, Hx. reflexivity.
    + intros c [R W]. cbn [cstep]. rewrite Ha.
      pose proof (fanout_never_parks a0 (mapped_err ce) c Hf R W) as N.
      pose proof (fanout_call a0 (mapped_err ce) c Hf R W) as G. cbv zeta in G.
      destruct (api_call (fanout a0 (mapped_err ce)) c) eqn:E; try contradiction;
        (eexists; split; [cbn [is_blocked]; reflexivity|]; unfold good_result; cbn [fst snd]; split; [discriminate|exact G]).
Qed.

(** and the loop can only be left with a recorded close error: an exit event before any close is a no-op *)
Lemma exit_needs_cause : forall k, closeErr (k_st k) = None -> fst (cstep k CExit) = k.
Proof. intros k H. cbn [cstep]. rewrite H. reflexivity. Qed.
