(** Correspondence glue of the simclose unit: what whole simulated connections (real client, real server, real TLS
    over simnet) showed when they ended, replayed through the RunLoop close model. Per side of a closed connection the
    harness logs the recorded cause (class, code) and whether the close was immediate (read from Conn.closeErr), and
    the model predicts from these two alone: whether a CONNECTION_CLOSE goes on the wire, what the peer records when
    a copy reaches it, what every call that was parked at the close or issued after it returns, and that nothing is
    left in the routing table after the closing period. *)
From Coq Require Import List ZArith Bool.
From V Require Import Gen.Params RunLoop.Model RunLoop.Run.
Import ListNotations.
Open Scope Z_scope.

Record side := mkSide {
  sd_client : bool;
  sd_cause : Z * Z;             (* context.Cause(conn.Context()): class, code (classes as in Run.errk_of) *)
  sd_immediate : bool;          (* closeErr.immediate *)
  sd_sentFirst : bool;          (* Conn.sentFirstPacket *)
  sd_hs : bool;                 (* Conn.handshakeComplete: the anti-amplification branch of handleCloseError needs it false *)
  sd_sent : bool;               (* closer: a CONNECTION_CLOSE datagram left at the close; others: anything left after it *)
  sd_parked : list (Z * Z);     (* calls parked at the close: (kind, result class) *)
  sd_later : list (Z * Z);      (* calls issued after the close *)
  sd_routing : Z;               (* entries left in the side's transport after the closing period *)
  sd_delivered : bool;          (* a copy of the side's CONNECTION_CLOSE reached the peer before the peer closed otherwise *)
  sd_peer : option (Z * Z) }.   (* what the peer recorded, if a copy of the close reached it before it closed otherwise *)

Inductive case :=
| EstCase (sides : list side)
| HsCase (cause : Z) (dialOk : bool) (dialErr : Z * Z) (clientSentAfterReturn : bool) (leftClient leftServer : Z)
  (* a dial that met its cause during the handshake: 0 context cancelled, 1 client Transport.Close, 2 server
     Transport.Close, 3 Listener.Close, 4 blackhole, 5 unusable TLS configuration, 6 version negotiation *)
| TextCase.

(** call kinds: 0 Read, 1 Write, 2 AcceptStream, 3 AcceptUniStream, 4 OpenStreamSync, 5 OpenUniStreamSync,
    6 ReceiveDatagram, 7 SendDatagram, 8 OpenStream, 9 OpenUniStream *)
Definition call_of (k : Z) : call :=
  match k with
  | 0 => CRead 0 | 1 => CWrite 0 | 2 => CAcceptStream | 3 => CAcceptUniStream | 4 => COpenStreamSync
  | 5 => COpenUniStreamSync | 6 => CReceiveDatagram | 7 => CSendDatagram | 8 => COpenStream | _ => COpenUniStream
  end.

(** the API objects of a scenario side at the moment of the close: one open stream in each direction, no datagram
    queued (the harness drains), every blocking call would park *)
Definition sim_api : api :=
  {| a_mapErr := None; a_dgErr := None;
     a_rstreams := [{| r_eof := false; r_cancelErr := false; r_cancel := false; r_shutdown := None; r_data := false |}];
     a_sstreams := [{| s_reset := false; s_shutdown := None; s_finished := false; s_room := false |}];
     a_canOpen := false; a_canAccept := false; a_rcvQueued := false; a_sendRoom := false |}.

(** what the model says about a side, from (cause, immediate) alone *)
Definition side_model (s : side) : bool * option (Z * Z) * Z * Z :=
  let ce := {| ce_err := errk_of (sd_cause s); ce_immediate := sd_immediate s |} in
  let a := close_action (sd_client s) (sd_sentFirst s) false ce in
  (match a with ActSendClose _ _ => true | _ => false end,
   match a with ActSendClose isApp code => Some (if isApp then 3 else 4, code) | _ => None end,
   exit_routing (sd_client s) (sd_sentFirst s) false ce 1 1,
   0).

Definition call_ok (e : errk) (kc : Z * Z) : bool :=
  res_code (api_call (fanout sim_api e) (call_of (fst kc))) =? snd kc.

Definition check_side (s : side) : bool :=
  let ce := {| ce_err := errk_of (sd_cause s); ce_immediate := sd_immediate s |} in
  let e := mapped_err ce in
  let '(sent, peer, routing, _) := side_model s in
  sd_hs s &&                     (* established connections: the amplification branch cannot apply *)
  Bool.eqb (sd_sent s) sent &&
  match sd_peer s, peer with
  | Some p, Some q => pair_eqb p q
  | Some _, None => false        (* the peer recorded a remote close that the model says was never sent *)
  | None, Some _ => negb (sd_delivered s)   (* a copy reached the peer in time: it must have recorded it *)
  | None, None => negb (sd_delivered s)
  end &&
  (sd_routing s =? routing) &&
  forallb (call_ok e) (sd_parked s) && forallb (call_ok e) (sd_later s).

(** expected outcome of a dial that met its cause during the handshake: the error class Dial returns, from the model's
    view of how the attempt is closed *)
Definition hs_dial_ok (cause : Z) (err : Z * Z) : bool :=
  match cause with
  | 0 => fst err =? 10                                   (* doDial returns context.Cause(ctx); the attempt: destroy(nil) *)
  | 1 => fst err =? 9                                    (* Transport.close: destroy(errTransportClosed) *)
  | 2 | 4 => (fst err =? 5) || (fst err =? 6)            (* the server is gone / unreachable: one of the two timeouts of [decide] *)
  | 3 => pair_eqb err (4, 2) || (fst err =? 5) || (fst err =? 6)   (* CONNECTION_REFUSED from the closing listener, or a timeout *)
  | 5 => (fst err =? 9) || (fst err =? 2)                (* start_failure: the TLS stack's error, a local (crypto) transport error or a plain error *)
  | _ => false
  end.
(** the close request of the abandoned attempt, for the causes where it is known from the cause alone *)
Definition hs_request (cause : Z) (err : Z * Z) : option closeError :=
  match cause with
  | 0 => Some {| ce_err := ENil; ce_immediate := true |}
  | 1 => Some {| ce_err := EOther 0; ce_immediate := true |}
  | 5 => Some (start_failure (errk_of err))
  | _ => None
  end.

Definition check_case (c : case) : bool :=
  match c with
  | EstCase sides => forallb check_side sides
  | HsCase cause dialOk err sentAfter lc ls =>
    (lc =? 0) && (ls =? 0) &&
    (dialOk ||
     (hs_dial_ok cause err &&
      match hs_request cause err with
      | Some ce =>
        (* immediate closes: nothing sent, nothing registered *)
        negb sentAfter && (exit_routing true true false ce 0 1 =? 0) &&
        match close_action true true false ce with ActSendClose _ _ => false | _ => true end
      | None => true
      end))
  | TextCase => true
  end.

Definition model_obs (c : case) : list (bool * option (Z * Z) * Z * Z) :=
  match c with EstCase sides => map side_model sides | _ => [] end.
