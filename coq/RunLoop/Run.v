(** Correspondence glue of the runloop unit: a case is what the Go harness logged from real
    connections in the simulation (see harness/drv/runloop.go). *)
From Coq Require Import List ZArith Bool String.
From V Require Import Gen.Params RunLoop.Model.
Import ListNotations.
Open Scope Z_scope.

(** timer-relevant fields of a Conn at an observation point, plus the oracle inputs *)
Record snap := mkSnap {
  sn_now : Z; sn_client : bool; sn_hs : bool; sn_idle : Z; sn_kai : Z;
  sn_kap : Z; sn_cfgIdle : Z; sn_hsIdle : Z; sn_hsTimeout : Z;
  sn_creation : Z; sn_lastRecv : Z; sn_firstAE : Z; sn_kaSent : bool;
  sn_blocked : Z; sn_pacing : Z; sn_pto : Z; sn_ack : Z; sn_loss : Z;
  sn_retire : Z;     (* connIDGenerator.NextRetireTime(), 0 = nothing waits *)
  sn_ownAdv : Z }.   (* Conn.advertisedIdleTimeout (0 where the field does not exist / nothing advertised) *)

Definition st_of (s : snap) : st :=
  {| cf := {| c_client := sn_client s; c_keepAlivePeriod := sn_kap s; c_maxIdleTimeout := sn_cfgIdle s; c_hsIdleTimeout := sn_hsIdle s; c_ownAdvIdle := sn_ownAdv s |};
     hsComplete := sn_hs s; idleTimeout := sn_idle s; kaInterval := sn_kai s; creation := sn_creation s;
     lastRecv := sn_lastRecv s; firstAE := sn_firstAE s; kaSent := sn_kaSent s; blocked := sn_blocked s;
     pacing := sn_pacing s; sentFirst := true; closeErr := None |}.

(** error classes as printed by the harness *)
Definition errk_of (p : Z * Z) : errk :=
  let '(k, c) := p in
  match k with
  | 0 => ENil | 1 => EApp false c | 2 => ETransport false c | 3 => EApp true c | 4 => ETransport true c
  | 5 => EIdle | 6 => EHsTimeout | 7 => EStatelessReset | 8 => EVersionNeg | 9 => EOther 0 | _ => ECanceled
  end.
(** observational class of a model error (tags of non-QUIC errors are not observable) *)
Definition pair_of (e : errk) : Z * Z :=
  match e with
  | ENil => (0, 0) | EApp false c => (1, c) | ETransport false c => (2, c) | EApp true c => (3, c) | ETransport true c => (4, c)
  | EIdle => (5, 0) | EHsTimeout => (6, 0) | EStatelessReset => (7, 0) | EVersionNeg => (8, 0) | EOther _ => (9, 0)
  | ERecreate => (11, 0) | ECanceled => (10, 0)
  end.

(** ops a real connection went through between two observation points (harness: qlog packet events with their
    virtual time, the stop at its armed deadline, flags that flipped) *)
Inductive op :=
| OpRecv (t : Z)                       (* a packet was unpacked *)
| OpSent (t : Z) (ackEliciting : bool) (* a packet was registered as sent *)
| OpKeepAlive (now pto : Z)            (* keepAlivePingSent got set without the timer having fired: must have been due *)
| OpHsDone
| OpTP (peerIdle peerAdv : Z)          (* applyTransportParams *)
| OpTimer (t pto : Z).                 (* the loop was woken at its armed deadline *)

Definition replay_op (s : st) (o : op) : option st :=
  match o with
  | OpRecv t => Some (step s (EvRecv t))
  | OpSent t true => Some (step s (EvSentAE t))
  | OpSent _ false => Some s
  | OpKeepAlive now pto =>
    match decide s now pto with DKeepAlive => Some (step s (EvWake now pto)) | _ => None end
  | OpHsDone => Some (step s EvHsDone)
  | OpTP p a => Some (step s (EvTP p a))
  | OpTimer t pto => Some (step s (EvWake t pto))
  end.
Fixpoint replay (s : st) (ops : list op) : option st :=
  match ops with
  | [] => Some s
  | o :: r => match replay_op s o with Some s' => replay s' r | None => None end
  end.

Inductive case :=
| SnapCase (s : snap) (implIdleStart implNextIdle implNextKA : Z) (timer : option Z)
| WakeCase (s : snap) (now : Z) (obs : Z)   (* 0 continue, 1 keep-alive PING, 2 handshake timeout, 3 idle timeout *)
| ParamsCase (cfgIdle peerIdle peerAdv ownAdv kap obsIdle obsKai : Z)
| CloseCase (client sentFirstPacket : bool) (reqs : list (Z * Z * bool))
            (obsCause obsApi : Z * Z) (sentClose blackhole : bool) (peer : option (Z * Z)) (routing : Z)
| RaceCase (client sentFirstPacket : bool) (reqs : list (Z * Z * bool))
           (obsCause obsApi : Z * Z) (sentClose blackhole : bool) (peer : option (Z * Z)) (routing : Z)
  (* close requests issued concurrently at one instant (accessor, Conn.CloseWithError, Transport.Close, the idle timer);
     listed with the one whose cause was recorded first *)
| HsCloseCase (isApp : bool) (code : Z) (peerSaw : Z * Z)
  (* the server closes while the handshake is in progress; what the dialing client records *)
| ClosedConnCase (start : Z) (replies : list bool)
| FanoutCase (streams : list (Z * bool * Z * Z * Z * bool * Z * Z)) (maps : list Z)
  (* unit-level fan-out over stream states: per stream (receive state, Read parked before the close, its result,
     result of a Read/Peek issued after the close, send state, Write parked, its result, result of a later Write);
     maps: results of the parked AcceptStream / OpenStreamSync / ReceiveDatagram calls.
     result classes: 0 the cause, 1 EOF, 2 stream error, 3 closed stream, 4 progress, 5 parked, -1 no call *)
| HistCase (pre : snap) (ops : list op) (post : snap) (closed : Z)   (* closed: 0 open, 2 handshake timeout, 3 idle timeout *)
| EarlyExitCase (routing : Z) (apiClosed : option bool).  (* Dial whose StartHandshake fails: what is left behind
                                                             (apiClosed only observable while the Conn is still registered) *)

Inductive obs :=
| SnapObs (hsTimeout idleStart nextIdle nextKA deadline : Z)
| WakeObs (d : Z)
| ParamsObs (idle kai : Z)
| CloseObs (cause api : Z * Z) (sentClose : bool) (peer : option (Z * Z)) (routing : Z)
| ClosedConnObs (replies : list bool)
| FanoutObs (streams : list (bool * Z * Z * bool * Z * Z)) (maps : list Z)
| HistObs (fields : option (Z * Z * bool * bool * Z * Z * Z))
| EarlyExitObs (routing : Z) (apiClosed : bool).

(** stream states as set up by the harness (harness/drv/runloop_fanout.go) *)
Definition rstream_of (st : Z) : rstream :=
  let mk eof cerr c d := {| r_eof := eof; r_cancelErr := cerr; r_cancel := c; r_shutdown := None; r_data := d |} in
  match st with
  | 1 | 8 => mk false true false false  (* RESET_STREAM_AT pending: cancelErr set, not effective *)
  | 2 | 3 | 4 => mk false true true false
  | 6 => mk true false false false
  | 7 => mk false false false true
  | _ => mk false false false false      (* open; FIN with a gap *)
  end.
Definition sstream_of (st : Z) : sstream :=
  let mk r f room := {| s_reset := r; s_shutdown := None; s_finished := f; s_room := room |} in
  match st with
  | 11 | 12 => mk true false false
  | 13 => mk false true false
  | 14 => mk false false true
  | _ => mk false false false            (* Write of more than fits *)
  end.
Definition res_code (r : res) : Z :=
  match r with RErr _ => 0 | REOF => 1 | RStreamErr => 2 | RClosedStream => 3 | ROk => 4 | RBlock => 5 end.
Definition is_block (r : res) : bool := match r with RBlock => true | _ => false end.

Definition decision_code (d : decision) : Z :=
  match d with DContinue => 0 | DKeepAlive => 1 | DHandshakeTimeout => 2 | DIdleTimeout => 3 end.

Definition dummy_cfg : cfg := {| c_client := true; c_keepAlivePeriod := 0; c_maxIdleTimeout := 0; c_hsIdleTimeout := 0; c_ownAdvIdle := 0 |}.

Definition model_obs (c : case) : obs :=
  match c with
  | SnapCase s _ _ _ _ =>
    let m := st_of s in
    SnapObs (hsTimeout (cf m)) (idleStart m) (nextIdle m (sn_pto s)) (nextKA m (sn_pto s))
            (maybeResetTimer m (sn_pto s) (sn_retire s) (sn_ack s) (sn_loss s))
  | WakeCase s now _ => WakeObs (decision_code (decide (st_of s) now (sn_pto s)))
  | ParamsCase cfgIdle peerIdle peerAdv ownAdv kap _ _ =>
    let m := applyTP (init {| c_client := true; c_keepAlivePeriod := kap; c_maxIdleTimeout := cfgIdle; c_hsIdleTimeout := 0; c_ownAdvIdle := ownAdv |} 1) peerIdle peerAdv in
    ParamsObs (idleTimeout m) (kaInterval m)
  | CloseCase client sentFirstPacket reqs _ _ _ _ _ _ =>
    let s := fold_left (fun s (q : Z * Z * bool) => let '(k, c, imm) := q in
                          setCloseError s {| ce_err := errk_of (k, c); ce_immediate := imm |}) reqs (init dummy_cfg 1) in
    match closeErr s with
    | None => CloseObs (0, 0) (0, 0) false None 0
    | Some ce =>
      let a := close_action client sentFirstPacket false ce in
      CloseObs (pair_of (ctx_cause ce)) (pair_of (mapped_err ce))
               (match a with ActSendClose _ _ => true | _ => false end)
               (match a with ActSendClose isApp code => Some (if isApp then 3 else 4, code) | _ => None end)
               (routing_after a)
    end
  | RaceCase _ _ _ _ _ _ _ _ _ => ClosedConnObs []   (* replayed as the CloseCase with the winner first, see check_case *)
  | HsCloseCase isApp code _ =>
    (* the client has not completed the handshake: it reads the Initial / Handshake copy of the frame *)
    let '(a, c0) := frame_at LInitial (isApp, code) in
    CloseObs (0, 0) (if a then 3 else 4, c0) false None 0
  | ClosedConnCase start replies => ClosedConnObs (closed_replies start (List.length replies))
  | FanoutCase streams maps =>
    let e := EApp true 23 in
    FanoutObs
      (map (fun t : Z * bool * Z * Z * Z * bool * Z * Z =>
              let '(rs, _, _, _, ws, _, _, _) := t in
              let r := rstream_of rs in let w := sstream_of ws in
              let r' := r_closeForShutdown r e in let w' := s_closeForShutdown w e in
              (is_block (r_read r), res_code (if is_block (r_read r) then r_read r' else r_read r), res_code (r_read r'),
               is_block (s_write w), res_code (if is_block (s_write w) then s_write w' else s_write w), res_code (s_write w')))
           streams)
      (map (fun _ => res_code (api_call (fanout {| a_mapErr := None; a_dgErr := None; a_rstreams := []; a_sstreams := [];
                                                    a_canOpen := false; a_canAccept := false; a_rcvQueued := false; a_sendRoom := true |} e)
                                           CAcceptStream)) maps)
  | HistCase pre ops _ _ =>
    match replay (st_of pre) ops with
    | None => HistObs None
    | Some m =>
      HistObs (Some (lastRecv m, firstAE m, kaSent m, hsComplete m, idleTimeout m, kaInterval m,
                     match closeErr m with
                     | None => 0
                     | Some {| ce_err := EHsTimeout; ce_immediate := true |} => 2
                     | Some {| ce_err := EIdle; ce_immediate := true |} => 3
                     | Some _ => 9
                     end))
    end
  | EarlyExitCase _ _ =>
    (* StartHandshake fails: destroyImpl(err), then the regular close path *)
    let ce := start_failure (EOther 0) in
    EarlyExitObs (exit_routing true false false ce 0 1) (match exit_fanout ce with ENil => false | _ => true end)
  end.

Fixpoint zs_eqb (a b : list Z) : bool :=
  match a, b with
  | [], [] => true
  | x :: a', y :: b' => (x =? y) && zs_eqb a' b'
  | _, _ => false
  end.
Definition pair_eqb (a b : Z * Z) : bool := (fst a =? fst b) && (snd a =? snd b).
Fixpoint bools_eqb (a b : list bool) : bool :=
  match a, b with
  | [], [] => true
  | x :: a', y :: b' => Bool.eqb x y && bools_eqb a' b'
  | _, _ => false
  end.

Definition as_close_case (c : case) : case :=
  match c with
  | RaceCase a b c0 d e f g h i => CloseCase a b c0 d e f g h i
  | x => x
  end.

Definition check_case (c0 : case) : bool :=
  let c := as_close_case c0 in
  match c, model_obs c with
  | SnapCase s is ni nk timer, SnapObs ht is' ni' nk' d =>
    (sn_hsTimeout s =? ht) && (is =? is') && (ni =? ni') && (nk =? nk') &&
    match timer with Some t => t =? d | None => true end
  | WakeCase _ _ o, WakeObs d => o =? d
  | ParamsCase _ peerIdle peerAdv _ _ oi ok, ParamsObs i k =>
    (oi =? i) && (ok =? k) &&
    (* the parser: what the peer advertised, raised to MinRemoteIdleTimeout *)
    (if 0 <? peerAdv then peerIdle =? parse_idle peerAdv else true)
  | CloseCase _ _ _ cause api sent blackhole peer routing, CloseObs cause' api' sent' peer' routing' =>
    pair_eqb cause cause' && pair_eqb api api' && Bool.eqb sent sent' && (routing =? routing') &&
    (blackhole ||
     match peer, peer' with
     | Some p, Some p' => pair_eqb p p'
     | None, None => true
     | _, _ => false
     end)
  | FanoutCase streams maps, FanoutObs ss ms =>
    (fix go (a : list (Z * bool * Z * Z * Z * bool * Z * Z)) (b : list (bool * Z * Z * bool * Z * Z)) : bool :=
       match a, b with
       | [], [] => true
       | (_, rp, rpre, rl, _, wp, wpre, wl) :: a', (rp', rpre', rl', wp', wpre', wl') :: b' =>
         (* a call issued before the close: parked or not as the model says, and its result; -1: none was issued *)
         ((rpre =? -1) || (Bool.eqb rp rp' && (rpre =? rpre'))) && (rl =? rl') &&
         ((wpre =? -1) || (Bool.eqb wp wp' && (wpre =? wpre'))) && (wl =? wl') && go a' b'
       | _, _ => false
       end) streams ss &&
    zs_eqb maps ms
  | HistCase _ _ post closed, HistObs (Some (lr, fa, ks, hs, idle, kai, cl)) =>
    (lr =? sn_lastRecv post) && (fa =? sn_firstAE post) && Bool.eqb ks (sn_kaSent post) && Bool.eqb hs (sn_hs post) &&
    (idle =? sn_idle post) && (kai =? sn_kai post) && (cl =? closed)
  | EarlyExitCase r c, EarlyExitObs r' c' => (r =? r') && match c with Some b => Bool.eqb b c' | None => true end
  | HsCloseCase _ _ saw, CloseObs _ want _ _ _ => pair_eqb saw want
  | ClosedConnCase _ r, ClosedConnObs r' => bools_eqb r r'
  | _, _ => false
  end.
