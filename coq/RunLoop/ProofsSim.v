(** What an observation of a simulated connection that the replay accepts ([SimRun.check_side]) establishes. *)
From Coq Require Import List ZArith Bool Lia ZifyBool.
From V Require Import Gen.Params RunLoop.Model RunLoop.Proofs RunLoop.Run RunLoop.SimRun.
Import ListNotations.
Open Scope Z_scope.

Lemma sim_api_call : forall e k, api_call (fanout sim_api e) (call_of k) = RErr e.
Proof.
  intros e k. destruct k as [|p|p]; try reflexivity.
  do 4 (destruct p as [p|p|]; try reflexivity).
Qed.

Lemma call_ok_cause : forall e kc, call_ok e kc = true -> snd kc = 0.
Proof. intros e kc H. unfold call_ok in H. rewrite sim_api_call in H. cbn [res_code] in H. apply Z.eqb_eq in H. symmetry. exact H. Qed.

(** an accepted side of an established connection: every call that was parked at the close or issued after it returned the
    recorded cause; nothing of the connection is left in the routing table after the closing period; a CONNECTION_CLOSE
    went out iff the recorded cause is a local, non-immediate, non-silent error and (server or first packet sent); if a copy
    of it reached the peer in time the peer recorded exactly that cause's frame kind and code; and a peer never records a
    remote close that was not sent *)
Theorem accepted_side : forall s, check_side s = true ->
  let ce := {| ce_err := errk_of (sd_cause s); ce_immediate := sd_immediate s |} in
  let frame := (let '(isApp, code) := close_frame (mapped_err ce) in (if isApp then 3 else 4, code)) in
  sd_hs s = true /\
  Forall (fun kc => snd kc = 0) (sd_parked s ++ sd_later s) /\
  sd_routing s = 0 /\
  (sd_sent s = true <->
     is_remote (errk_of (sd_cause s)) = false /\ sd_immediate s = false /\ silent_err (errk_of (sd_cause s)) = false /\
     (sd_client s = false \/ sd_sentFirst s = true)) /\
  (sd_delivered s = true -> sd_sent s = true /\ sd_peer s = Some frame) /\
  (forall p, sd_peer s = Some p -> sd_sent s = true /\ p = frame).
Proof.
  intros s H. cbv zeta. unfold check_side in H.
  set (ce := {| ce_err := errk_of (sd_cause s); ce_immediate := sd_immediate s |}) in *.
  unfold side_model in H. fold ce in H.
  apply andb_prop in H. destruct H as [H Hl]. apply andb_prop in H. destruct H as [H Hp].
  apply andb_prop in H. destruct H as [H Hr]. apply andb_prop in H. destruct H as [H Hpeer].
  apply andb_prop in H. destruct H as [Hhs Hs].
  assert (M : is_remote (mapped_err ce) = is_remote (errk_of (sd_cause s)) /\ silent_err (mapped_err ce) = silent_err (errk_of (sd_cause s))).
  { unfold mapped_err, ce. cbn [ce_err ce_immediate]. destruct (errk_of (sd_cause s)); try (split; reflexivity);
      destruct (sd_immediate s); split; reflexivity. }
  destruct M as [M1 M2].
  pose proof (close_frame_iff (sd_client s) (sd_sentFirst s) false ce) as I. rewrite M1, M2 in I. cbn [ce_immediate ce] in I.
  apply Bool.eqb_prop in Hs.
  assert (FR : forall isApp code, close_action (sd_client s) (sd_sentFirst s) false ce = ActSendClose isApp code ->
               (let '(a, c) := close_frame (mapped_err ce) in (if a then 3 else 4, c)) = (if isApp then 3 else 4, code)).
  { intros isApp code A. pose proof (close_frame_code _ _ _ _ _ _ A) as C.
    destruct (mapped_err ce); cbn [close_frame]; destruct C as [C1 C2]; subst; reflexivity. }
  split; [exact Hhs|]. split; [|split; [|split; [|split]]].
  - apply Forall_app. rewrite forallb_forall in Hp, Hl. split; apply Forall_forall; intros kc Hin;
      eapply call_ok_cause; [apply Hp|apply Hl]; exact Hin.
  - unfold exit_routing in Hr. cbn in Hr. lia.
  - rewrite Hs. split.
    + intros T. assert (X : exists a c, close_action (sd_client s) (sd_sentFirst s) false ce = ActSendClose a c).
      { destruct (close_action (sd_client s) (sd_sentFirst s) false ce); try discriminate. eauto. }
      apply I in X. destruct X as (A & B & C & D & _). repeat split; auto.
    + intros (A & B & C & D). assert (X : exists a c, close_action (sd_client s) (sd_sentFirst s) false ce = ActSendClose a c).
      { apply I. repeat split; auto. }
      destruct X as [a [c X]]. rewrite X. reflexivity.
  - intros Hd. rewrite Hd in Hpeer. destruct (sd_peer s) as [p|] eqn:Pe;
      destruct (close_action (sd_client s) (sd_sentFirst s) false ce) as [| |isApp code] eqn:A; try discriminate.
    split; [rewrite Hs; reflexivity|]. f_equal.
    unfold pair_eqb in Hpeer. apply andb_prop in Hpeer. destruct Hpeer as [P1 P2].
    rewrite (FR isApp code eq_refl). destruct p as [p1 p2]. cbn [fst snd] in *. f_equal; lia.
  - intros p Hpe. rewrite Hpe in Hpeer.
    destruct (close_action (sd_client s) (sd_sentFirst s) false ce) as [| |isApp code] eqn:A; try discriminate.
    split; [rewrite Hs; reflexivity|].
    unfold pair_eqb in Hpeer. apply andb_prop in Hpeer. destruct Hpeer as [P1 P2].
    rewrite (FR isApp code eq_refl). destruct p as [p1 p2]. cbn [fst snd] in *. f_equal; lia.
Qed.
