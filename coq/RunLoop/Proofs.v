(** Proofs about the RunLoop model (close causes, CONNECTION_CLOSE, idle / keep-alive timers,
    closed-connection back-off, fan-out to the API objects). *)
From Coq Require Import List ZArith Bool Lia.
From Coq Require Import ZifyBool ZifyNat.
From V Require Import Gen.Params RunLoop.Model.
Import ListNotations.
Open Scope Z_scope.
Local Ltac Zify.zify_post_hook ::= Z.div_mod_to_equations.

(** ** 1. Single cause *)

Lemma step_keeps_cause : forall s e ce, closeErr s = Some ce -> closeErr (step s e) = Some ce.
Proof.
  intros s e ce H. destruct e; cbn [step]; try (cbn; exact H).
  - destruct (firstAE s =? 0); cbn; exact H.
  - rewrite H. exact H.
  - unfold setCloseError. rewrite H. exact H.
Qed.

Lemma run_keeps_cause : forall l s ce, closeErr s = Some ce -> closeErr (run s l) = Some ce.
Proof.
  induction l as [|e l IH]; intros s ce H; cbn [run fold_left]; [exact H|].
  apply IH. apply step_keeps_cause. exact H.
Qed.

Lemma setCloseError_first : forall s ce, closeErr s = None -> closeErr (setCloseError s ce) = Some ce.
Proof. intros s ce H. unfold setCloseError. rewrite H. reflexivity. Qed.

Lemma run_cons : forall e l s, run s (e :: l) = run (step s e) l.
Proof. reflexivity. Qed.

Lemma run_app : forall l1 l2 s, run s (l1 ++ l2) = run (run s l1) l2.
Proof. intros. unfold run. apply fold_left_app. Qed.

(** whatever happens before (as long as nothing closed yet) and after: the first request is the recorded cause *)
Lemma first_request_wins : forall s l1 ce l2,
  closeErr (run s l1) = None ->
  closeErr (run s (l1 ++ EvClose ce :: l2)) = Some ce.
Proof.
  intros s l1 ce l2 H. rewrite run_app. cbn [run fold_left].
  apply (run_keeps_cause l2). cbn [step]. apply setCloseError_first. exact H.
Qed.

(** a close can only come from a close request or from the timeout branches of a wake-up *)
Lemma step_sets_cause : forall s e ce, closeErr s = None -> closeErr (step s e) = Some ce ->
  e = EvClose ce \/
  (exists now pto, e = EvWake now pto /\
     ((decide s now pto = DIdleTimeout /\ ce = {| ce_err := EIdle; ce_immediate := true |}) \/
      (decide s now pto = DHandshakeTimeout /\ ce = {| ce_err := EHsTimeout; ce_immediate := true |}))).
Proof.
  intros s e ce Hn H. destruct e; cbn [step] in H.
  - cbn in H. congruence.
  - destruct (firstAE s =? 0); cbn in H; congruence.
  - rewrite Hn in H. right. exists now, pto. split; [reflexivity|].
    destruct (decide s now pto) eqn:D.
    + cbn in H. congruence.
    + right. split; [reflexivity|]. unfold destroyImpl, setCloseError in H. rewrite Hn in H. cbn in H. congruence.
    + left. split; [reflexivity|]. unfold destroyImpl, setCloseError in H. rewrite Hn in H. cbn in H. congruence.
    + congruence.
  - cbn in H. congruence.
  - cbn in H. congruence.
  - cbn in H. congruence.
  - cbn in H. congruence.
  - left. unfold setCloseError in H. rewrite Hn in H. cbn in H. congruence.
Qed.

(** exactly one recorded cause, and it has an origin in the history: whatever events race — close requests from the
    application, from the peer's CONNECTION_CLOSE, from Transport.Close / destroy, the timers of the loop — if a cause is
    recorded after a history, it is the close request of one of its events or the timeout found by one of its wake-ups,
    and it is the one recorded after every extension of the history *)
Lemma recorded_cause_origin : forall l s ce, closeErr s = None -> closeErr (run s l) = Some ce ->
  (In (EvClose ce) l \/
   exists now pto, In (EvWake now pto) l /\
     (ce = {| ce_err := EIdle; ce_immediate := true |} \/ ce = {| ce_err := EHsTimeout; ce_immediate := true |})) /\
  forall l', closeErr (run s (l ++ l')) = Some ce.
Proof.
  induction l as [|e l IH]; intros s ce Hn H; [cbn in H; congruence|].
  rewrite run_cons in H. destruct (closeErr (step s e)) as [ce'|] eqn:E.
  - rewrite (run_keeps_cause l _ _ E) in H. inversion H; subst ce'. split.
    + destruct (step_sets_cause _ _ _ Hn E) as [X|[now [pto [X [[_ C]|[_ C]]]]]]; subst e.
      * left. left. reflexivity.
      * right. exists now, pto. split; [left; reflexivity|auto].
      * right. exists now, pto. split; [left; reflexivity|auto].
    + intros l'. cbn [app]. rewrite run_cons. apply run_keeps_cause. exact E.
  - destruct (IH _ _ E H) as [[X|[now [pto [X C]]]] K]; split.
    + left. right. exact X.
    + intros l'. cbn [app]. rewrite run_cons. apply K.
    + right. exists now, pto. split; [right; exact X|exact C].
    + intros l'. cbn [app]. rewrite run_cons. apply K.
Qed.

(** racing close requests: in whatever order they reach setCloseError, the recorded cause is the one that came first *)
Lemma race_first_wins : forall s reqs ce rest, closeErr s = None ->
  closeErr (run s (map EvClose (ce :: reqs) ++ rest)) = Some ce.
Proof.
  intros s reqs ce rest H. cbn [map app]. rewrite run_cons. apply run_keeps_cause. cbn [step].
  apply setCloseError_first. exact H.
Qed.

(** *** fan-out *)

Definition own_result (r : res) : Prop := r = REOF \/ r = RStreamErr \/ r = RClosedStream.

Definition fresh_streams (a : api) : Prop :=
  Forall (fun s => s_shutdown s = None) (a_sstreams a).

Lemma nth_error_map_some : forall {A B} (f : A -> B) l i x, nth_error l i = Some x -> nth_error (map f l) i = Some (f x).
Proof. intros. rewrite nth_error_map. rewrite H. reflexivity. Qed.

Lemma read_after_shutdown : forall r e, r_read (r_closeForShutdown r e) = RErr e \/ own_result (r_read (r_closeForShutdown r e)).
Proof.
  intros r e. unfold r_read, r_closeForShutdown, own_result. cbn.
  destruct (r_eof r); [right; auto|]. destruct (r_cancel r); [right; auto|]. left. reflexivity.
Qed.

Lemma write_after_shutdown : forall s e, s_shutdown s = None ->
  s_write (s_closeForShutdown s e) = RErr e \/ own_result (s_write (s_closeForShutdown s e)).
Proof.
  intros s e H. unfold s_write, s_closeForShutdown, own_result. rewrite H.
  destruct (s_finished s) eqn:F.
  - destruct (s_reset s); [right; auto|]. rewrite H, F. right. auto.
  - cbn. destruct (s_reset s); [right; auto|]. left. reflexivity.
Qed.

(** every call on the API objects after the fan-out with [e]: the cause, or the object's own terminal
    result, or (datagrams only) progress on what was queued before; never parks *)
Lemma fanout_call : forall a e c, fresh_streams a ->
  (forall i, c = CRead i -> (i < length (a_rstreams a))%nat) ->
  (forall i, c = CWrite i -> (i < length (a_sstreams a))%nat) ->
  let r := api_call (fanout a e) c in
  r = RErr e \/ own_result r \/
  (c = CReceiveDatagram /\ a_rcvQueued a = true /\ r = ROk).
Proof.
  intros a e c Hf Hr Hw. destruct c; cbn [api_call fanout a_mapErr a_dgErr a_rcvQueued a_sendRoom a_rstreams a_sstreams]; auto.
  - destruct (a_rcvQueued a) eqn:Q; [right; right; auto | left; reflexivity].
  - specialize (Hr i eq_refl). destruct (nth_error (a_rstreams a) i) as [r|] eqn:N.
    + rewrite (nth_error_map_some _ _ _ _ N). destruct (read_after_shutdown r e); auto.
    + apply nth_error_None in N. lia.
  - specialize (Hw i eq_refl). destruct (nth_error (a_sstreams a) i) as [s|] eqn:N.
    + rewrite (nth_error_map_some _ _ _ _ N).
      assert (Hs : s_shutdown s = None).
      { unfold fresh_streams in Hf. rewrite Forall_forall in Hf. apply Hf. eapply nth_error_In. exact N. }
      destruct (write_after_shutdown s e Hs); auto.
    + apply nth_error_None in N. lia.
Qed.

Lemma fanout_never_parks : forall a e c, fresh_streams a ->
  (forall i, c = CRead i -> (i < length (a_rstreams a))%nat) ->
  (forall i, c = CWrite i -> (i < length (a_sstreams a))%nat) ->
  api_call (fanout a e) c <> RBlock.
Proof.
  intros a e c Hf Hr Hw. pose proof (fanout_call a e c Hf Hr Hw) as H. cbv zeta in H.
  unfold own_result in H. intro B. rewrite B in H.
  destruct H as [H|[[H|[H|H]]|[_ [_ H]]]]; discriminate H.
Qed.

(** SendDatagram after the close fails with the cause, whether or not its queue has room
    (datagramQueue.Add looks at the closed queue first). *)
Lemma send_datagram_after_close : forall a e, api_call (fanout a e) CSendDatagram = RErr e.
Proof. intros. reflexivity. Qed.

(** ** 2. CONNECTION_CLOSE *)

Lemma close_frame_iff : forall client sentFirstPacket ampl ce,
  (exists isApp code, close_action client sentFirstPacket ampl ce = ActSendClose isApp code) <->
  (is_remote (mapped_err ce) = false /\ ce_immediate ce = false /\ silent_err (mapped_err ce) = false /\
   (client = false \/ sentFirstPacket = true) /\ ampl = false).
Proof.
  intros client sf ampl ce. unfold close_action.
  destruct (is_remote (mapped_err ce)) eqn:R.
  - split; [intros [a [c H]]; discriminate H | intros [H _]; discriminate H].
  - destruct (ce_immediate ce) eqn:I; cbn [orb].
    + split; [intros [a [c H]]; discriminate H | intros [_ [H _]]; discriminate H].
    + destruct (silent_err (mapped_err ce)) eqn:S.
      * split; [intros [a [c H]]; discriminate H | intros [_ [_ [H _]]]; discriminate H].
      * destruct client, sf, ampl; cbn [andb negb];
          try (split; [intros [a [c H]]; discriminate H | intros [_ [_ [_ [[H|H] H']]]]; discriminate]);
          (split; [intros _; auto 6 |]; intros _; destruct (close_frame (mapped_err ce)) as [a c]; eauto).
Qed.

(** the frame carries the kind and code of the (mapped) cause; anything that is neither an
    application nor a transport error goes out as INTERNAL_ERROR *)
Lemma close_frame_code : forall client sf ampl ce isApp code,
  close_action client sf ampl ce = ActSendClose isApp code ->
  match mapped_err ce with
  | EApp _ c => isApp = true /\ code = c
  | ETransport _ c => isApp = false /\ code = c
  | _ => isApp = false /\ code = rl_InternalError
  end.
Proof.
  intros client sf ampl ce isApp code H. unfold close_action in H.
  destruct (is_remote (mapped_err ce)); [discriminate|].
  destruct (ce_immediate ce || silent_err (mapped_err ce)); [discriminate|].
  destruct (client && negb sf); [discriminate|].
  destruct ampl; [discriminate|].
  destruct (mapped_err ce); cbn in H; inversion H; auto.
Qed.

(** non-QUIC errors of a non-immediate close are reported (locally and on the wire) as INTERNAL_ERROR *)
Lemma other_maps_to_internal : forall t client sf,
  (client = false \/ sf = true) ->
  mapped_err {| ce_err := EOther t; ce_immediate := false |} = ETransport false rl_InternalError /\
  close_action client sf false {| ce_err := EOther t; ce_immediate := false |} = ActSendClose false rl_InternalError.
Proof.
  intros t client sf H. split; [reflexivity|]. unfold close_action. cbn.
  destruct client, sf; cbn; try reflexivity. destruct H; discriminate.
Qed.

(** The close requests the code can issue (the sites in connection.go / transport.go). *)
Inductive code_request : closeError -> Prop :=
| CR_CloseWithError c : code_request {| ce_err := EApp false c; ce_immediate := false |}           (* CloseWithError *)
| CR_closeWithTransportError c : code_request {| ce_err := ETransport false c; ce_immediate := false |}
| CR_loop_transport c : code_request {| ce_err := ETransport false c; ce_immediate := false |}    (* error from packet handling / sending *)
| CR_loop_other t : code_request {| ce_err := EOther t; ce_immediate := false |}
| CR_peer_app c : code_request {| ce_err := EApp true c; ce_immediate := false |}                  (* CONNECTION_CLOSE frame received *)
| CR_peer_transport c : code_request {| ce_err := ETransport true c; ce_immediate := false |}
| CR_idle : code_request {| ce_err := EIdle; ce_immediate := true |}                               (* run(): destroyImpl *)
| CR_hsTimeout : code_request {| ce_err := EHsTimeout; ce_immediate := true |}
| CR_versionNeg : code_request {| ce_err := EVersionNeg; ce_immediate := true |}
| CR_recreate : code_request {| ce_err := ERecreate; ce_immediate := false |}                       (* handleVersionNegotiationPacket returns it as error *)
| CR_reset_transport : code_request {| ce_err := EStatelessReset; ce_immediate := true |}           (* Transport.maybeHandleStatelessReset: destroy *)
| CR_reset_conn : code_request {| ce_err := EStatelessReset; ce_immediate := false |}               (* handleShortHeaderPacket returns it as error *)
| CR_destroy_nil : code_request {| ce_err := ENil; ce_immediate := true |}                          (* doDial: ctx cancelled *)
| CR_destroy_other t : code_request {| ce_err := EOther t; ce_immediate := true |}                  (* Transport.close, send queue error, StartHandshake failure *)
| CR_start_failure_transport c : code_request {| ce_err := ETransport false c; ce_immediate := true |}. (* run(): StartHandshake / the first
      handleHandshakeEvents failed with a *qerr.TransportError (a TLS alert as a crypto error): destroyImpl(err) *)

(** timeouts, remote closes, destroy(), stateless resets and abandoned attempts never put anything on the wire, whoever asks *)
Lemma silent_closes : forall client sf ampl ce,
  ce_immediate ce = true \/ is_remote (mapped_err ce) = true \/ silent_err (mapped_err ce) = true ->
  forall a c, close_action client sf ampl ce <> ActSendClose a c.
Proof.
  intros client sf ampl ce H a c E.
  assert (X : exists a c, close_action client sf ampl ce = ActSendClose a c) by eauto.
  apply close_frame_iff in X. destruct X as [R [I [S _]]]. destruct H as [H|[H|H]]; congruence.
Qed.

Lemma timeouts_silent : forall s now pto ce client sf ampl a c,
  closeErr s = None -> closeErr (step s (EvWake now pto)) = Some ce ->
  close_action client sf ampl ce <> ActSendClose a c.
Proof.
  intros s now pto ce client sf ampl a c Hn H.
  destruct (step_sets_cause _ _ _ Hn H) as [E|[n [p [E [[_ C]|[_ C]]]]]]; [discriminate| |];
    subst ce; apply silent_closes; left; reflexivity.
Qed.

(** Every request of the code whose cause is a timeout, a stateless reset (detected by the transport or by the
    connection itself), a version-negotiation outcome, a cancelled dial or a close by the peer is silent. *)
Lemma silent_causes : forall ce client sf ampl a c, code_request ce ->
  match ce_err ce with
  | EIdle | EHsTimeout | EStatelessReset | EVersionNeg | ERecreate | ENil => True
  | EApp r _ | ETransport r _ => r = true
  | _ => False
  end ->
  close_action client sf ampl ce <> ActSendClose a c.
Proof.
  intros ce client sf ampl a c H M. apply silent_closes.
  destruct H; cbn in M |- *; auto; try contradiction; try discriminate.
Qed.

(** all code requests: a frame iff local application/transport error (or unknown error) of a
    non-immediate close, with exactly the cause's kind and code *)
Lemma code_request_frames : forall ce client sf, code_request ce -> (client = false \/ sf = true) ->
  match ce_err ce, ce_immediate ce with
  | EApp false c, false => close_action client sf false ce = ActSendClose true c
  | ETransport false c, false => close_action client sf false ce = ActSendClose false c
  | EOther _, false => close_action client sf false ce = ActSendClose false rl_InternalError
  | EApp true _, _ | ETransport true _, _ => close_action client sf false ce = ActReplaceClosedNil
  | _, _ => close_action client sf false ce = ActRemoveAll
  end.
Proof.
  intros ce client sf H Hs.
  assert (B : client && negb sf = false) by (destruct client, sf; cbn; try reflexivity; destruct Hs; discriminate).
  destruct H; cbn; unfold close_action; cbn; rewrite ?B; reflexivity.
Qed.

(** anti-amplification: while the limit is used up nothing is sent, a stand-in absorbs what still arrives *)
Lemma amplification_limited_silent : forall client sf ce a c, close_action client sf true ce <> ActSendClose a c.
Proof.
  intros client sf ce a c E.
  assert (X : exists a c, close_action client sf true ce = ActSendClose a c) by eauto.
  apply close_frame_iff in X. destruct X as (_ & _ & _ & _ & X). discriminate.
Qed.

(** the frame a peer sees that has not completed the handshake (it can only read Initial / Handshake packets): never an
    application close — APPLICATION_ERROR as a transport close instead —, transport errors unchanged; at 1-RTT unchanged *)
Lemma frame_at_levels : forall isApp code,
  frame_at LInitial (isApp, code) = frame_at LHandshake (isApp, code) /\
  fst (frame_at LInitial (isApp, code)) = false /\
  (isApp = true -> frame_at LInitial (isApp, code) = (false, rl_ApplicationErrorErrorCode)) /\
  (isApp = false -> frame_at LInitial (isApp, code) = (false, code)) /\
  frame_at L1RTT (isApp, code) = (isApp, code) /\ frame_at L0RTT (isApp, code) = (isApp, code).
Proof. intros [] code; repeat split; intros; try reflexivity; discriminate. Qed.

Lemma application_error_code_is_0xc : rl_ApplicationErrorErrorCode = 12.
Proof. reflexivity. Qed.

(** *** closed-connection stand-in: replies exactly on packets 1, 2, 4, 8, ... *)

Lemma popcount_pos_ge1 : forall p, (1 <= popcount_pos p)%nat.
Proof. induction p; cbn; lia. Qed.

Lemma popcount_pos_one : forall p, popcount_pos p = 1%nat <-> exists k : nat, Zpos p = 2 ^ Z.of_nat k.
Proof.
  induction p as [p IH|p IH|].
  - cbn [popcount_pos]. split.
    + intros H. pose proof (popcount_pos_ge1 p). lia.
    + intros [k H]. destruct k as [|k].
      * cbn in H. lia.
      * rewrite Nat2Z.inj_succ, Z.pow_succ_r in H by lia. lia.
  - cbn [popcount_pos]. rewrite IH. split.
    + intros [k H]. exists (S k). rewrite Nat2Z.inj_succ, Z.pow_succ_r by lia. lia.
    + intros [k H]. destruct k as [|k].
      * cbn in H. lia.
      * exists k. rewrite Nat2Z.inj_succ, Z.pow_succ_r in H by lia. lia.
  - cbn. split; [intros _; exists 0%nat; reflexivity | reflexivity].
Qed.

Lemma closed_reply_pow2 : forall n, 0 < n < 2 ^ 32 ->
  (closed_reply n = true <-> exists k : nat, n = 2 ^ Z.of_nat k).
Proof.
  intros n Hn. unfold closed_reply. rewrite Z.mod_small by lia.
  destruct n as [|p|p]; try lia. cbn [popcount]. rewrite Nat.eqb_eq. apply popcount_pos_one.
Qed.

(** the counter is a uint32: after 2^32 packets it wraps to 0 and that packet is not answered *)
Lemma closed_reply_wrap : closed_reply (2 ^ 32) = false.
Proof. reflexivity. Qed.

(** ** 3. Idle timeout: never early; the armed deadline is never later *)

Definition sane (s : st) : Prop := 0 <= kaInterval s <= idleTimeout s.

Lemma idleStart_ge_lastRecv : forall s, lastRecv s <= idleStart s.
Proof. intros s. unfold idleStart. destruct (negb (firstAE s =? 0) && (lastRecv s <? firstAE s)) eqn:E; lia. Qed.

Lemma idleStart_max : forall s, 0 <= lastRecv s -> idleStart s = Z.max (lastRecv s) (firstAE s) \/ (firstAE s < 0).
Proof. intros s H. unfold idleStart. destruct (negb (firstAE s =? 0) && (lastRecv s <? firstAE s)) eqn:E; lia. Qed.

Lemma idleStart_max' : forall s, 0 <= lastRecv s -> 0 <= firstAE s -> idleStart s = Z.max (lastRecv s) (firstAE s).
Proof. intros s H H'. destruct (idleStart_max s H); lia. Qed.

(** the branch condition itself *)
Lemma decide_idle_cond : forall s now pto, decide s now pto = DIdleTimeout ->
  (hsComplete s = true /\ idleStart s + Z.max (idleTimeout s) (pto * 3) <= now) \/
  (hsComplete s = false /\ idleStart s + c_hsIdleTimeout (cf s) <= now).
Proof.
  intros s now pto H. unfold decide in H.
  destruct (negb (nextKA s pto =? 0) && (nextKA s pto <=? now)); [discriminate|].
  destruct (hsComplete s) eqn:HS; cbn [negb andb orb] in H.
  - destruct (nextIdle s pto <=? now) eqn:E; [|discriminate]. left. split; [reflexivity|].
    unfold nextIdle, idleEff in E. lia.
  - destruct (hsTimeout (cf s) <=? now - creation s); [discriminate|].
    rewrite orb_false_r in H.
    destruct (c_hsIdleTimeout (cf s) <=? now - idleStart s) eqn:E; [|discriminate]. right. split; [reflexivity|]. lia.
Qed.

Lemma decide_hs_cond : forall s now pto, decide s now pto = DHandshakeTimeout ->
  hsComplete s = false /\ creation s + hsTimeout (cf s) <= now.
Proof.
  intros s now pto H. unfold decide in H.
  destruct (negb (nextKA s pto =? 0) && (nextKA s pto <=? now)); [discriminate|].
  destruct (hsComplete s) eqn:HS; cbn [negb andb orb] in H.
  - destruct (nextIdle s pto <=? now); discriminate.
  - destruct (hsTimeout (cf s) <=? now - creation s) eqn:E.
    + split; [reflexivity|lia].
    + rewrite orb_false_r in H. destruct (c_hsIdleTimeout (cf s) <=? now - idleStart s); discriminate.
Qed.

(** *** the fields against the history *)

(** time of the last received packet in a history (starting from [t0]) *)
Fixpoint hist_lastRecv (t0 : Z) (l : list ev) : Z :=
  match l with
  | [] => t0
  | EvRecv t :: r => hist_lastRecv t r
  | _ :: r => hist_lastRecv t0 r
  end.
(** time of the first ack-eliciting packet sent after the last received one (0: none) *)
Fixpoint hist_firstAE (f0 : Z) (l : list ev) : Z :=
  match l with
  | [] => f0
  | EvRecv _ :: r => hist_firstAE 0 r
  | EvSentAE now :: r => hist_firstAE (if f0 =? 0 then now else f0) r
  | _ :: r => hist_firstAE f0 r
  end.
(** the negotiated idle timeout: min(configured, peer's) at the last handshake completion *)
Fixpoint hist_idle (c : cfg) (i0 : Z) (l : list ev) : Z :=
  match l with
  | [] => i0
  | EvHsComplete p _ :: r | EvTP p _ :: r => hist_idle c (if 0 <? p then Z.min (c_maxIdleTimeout c) p else c_maxIdleTimeout c) r
  | _ :: r => hist_idle c i0 r
  end.

Lemma step_cf : forall s e, cf (step s e) = cf s.
Proof.
  intros s e. destruct e; cbn [step]; try reflexivity.
  - destruct (firstAE s =? 0); reflexivity.
  - destruct (closeErr s); [reflexivity|]. destruct (decide s now pto); try reflexivity;
      unfold destroyImpl, setCloseError; destruct (closeErr s); reflexivity.
  - unfold setCloseError. destruct (closeErr s); reflexivity.
Qed.

Lemma run_fields : forall l s,
  lastRecv (run s l) = hist_lastRecv (lastRecv s) l /\
  firstAE (run s l) = hist_firstAE (firstAE s) l /\
  idleTimeout (run s l) = hist_idle (cf s) (idleTimeout s) l.
Proof.
  induction l as [|e l IH]; intros s; [cbn; auto|].
  cbn [run fold_left]. specialize (IH (step s e)). fold (run (step s e) l). rewrite step_cf in IH.
  destruct IH as [A [B C]]. rewrite A, B, C. clear A B C.
  destruct e; cbn [step hist_lastRecv hist_firstAE hist_idle].
  - cbn. auto.
  - destruct (firstAE s =? 0) eqn:E; cbn; rewrite ?E; auto.
  - destruct (closeErr s) eqn:CE; [auto|]. destruct (decide s now pto); cbn; auto;
      unfold destroyImpl, setCloseError; rewrite CE; cbn; auto.
  - cbn. auto.
  - cbn. auto.
  - cbn. auto.
  - cbn. auto.
  - unfold setCloseError. destruct (closeErr s); cbn; auto.
Qed.

(** ErrIdleTimeout after the handshake is raised only at
    now >= max(last packet received, first ack-eliciting packet sent after it) + max(idleTimeout, 3 PTO),
    all three read off the history; idleTimeout = min(Config.MaxIdleTimeout, peer's). *)
Lemma idle_not_early : forall s0 l now pto,
  0 <= lastRecv s0 -> firstAE s0 = 0 ->
  Forall (fun e => match e with EvRecv t | EvSentAE t => 0 < t | _ => True end) l ->
  closeErr (run s0 l) = None -> hsComplete (run s0 l) = true ->
  closeErr (step (run s0 l) (EvWake now pto)) = Some {| ce_err := EIdle; ce_immediate := true |} ->
  Z.max (hist_lastRecv (lastRecv s0) l) (hist_firstAE 0 l)
    + Z.max (hist_idle (cf s0) (idleTimeout s0) l) (3 * pto) <= now.
Proof.
  intros s0 l now pto H0 F0 Hpos Hn Hhs H.
  destruct (run_fields l s0) as [A [B C]]. rewrite F0 in B.
  set (s := run s0 l) in *.
  destruct (step_sets_cause _ _ _ Hn H) as [E|[n [p [E [[D _]|[_ D]]]]]]; [discriminate| |discriminate].
  inversion E; subst n p. apply decide_idle_cond in D. destruct D as [[_ D]|[D _]]; [|congruence].
  assert (P1 : 0 <= hist_lastRecv (lastRecv s0) l).
  { clear - H0 Hpos. revert H0. generalize (lastRecv s0). induction l as [|e l IH]; intros t Ht; cbn; [exact Ht|].
    inversion Hpos; subst. destruct e; try (apply IH; assumption). apply IH; [assumption|lia]. }
  assert (P2 : 0 <= hist_firstAE 0 l).
  { clear - Hpos. assert (G : forall f, 0 <= f -> 0 <= hist_firstAE f l).
    { induction l as [|e l IH]; intros f Hf; cbn; [exact Hf|].
      inversion Hpos; subst. destruct e; try (apply IH; assumption).
      - apply IH; [assumption|lia].
      - apply IH; [assumption|]. destruct (f =? 0); lia. }
    apply G. lia. }
  rewrite <- A in P1. rewrite <- B in P2.
  rewrite (idleStart_max' s P1 P2) in D. rewrite <- A, <- B, <- C. lia.
Qed.

(** before the handshake completes: only HandshakeIdleTimeout after the same starting point *)
Lemma hs_idle_not_early : forall s now pto, closeErr s = None -> hsComplete s = false ->
  closeErr (step s (EvWake now pto)) = Some {| ce_err := EIdle; ce_immediate := true |} ->
  idleStart s + c_hsIdleTimeout (cf s) <= now.
Proof.
  intros s now pto Hn Hhs H.
  destruct (step_sets_cause _ _ _ Hn H) as [E|[n [p [E [[D _]|[_ D]]]]]]; [discriminate| |discriminate].
  inversion E; subst n p. apply decide_idle_cond in D. destruct D as [[D _]|[_ D]]; [congruence|exact D].
Qed.

Lemma hs_timeout_not_early : forall s now pto, closeErr s = None ->
  closeErr (step s (EvWake now pto)) = Some {| ce_err := EHsTimeout; ce_immediate := true |} ->
  hsComplete s = false /\ creation s + 2 * c_hsIdleTimeout (cf s) <= now.
Proof.
  intros s now pto Hn H.
  destruct (step_sets_cause _ _ _ Hn H) as [E|[n [p [E [[_ D]|[D _]]]]]]; [discriminate|discriminate|].
  inversion E; subst n p. apply decide_hs_cond in D. exact D.
Qed.

(** *** the deadline armed by maybeResetTimer *)

Lemma earlier_nz_le : forall t d, earlier_nz t d <= d.
Proof. intros. unfold earlier_nz. destruct (negb (t =? 0) && (t <? d)) eqn:E; lia. Qed.

Lemma earlier_nz_0 : forall d, earlier_nz 0 d = d.
Proof. reflexivity. Qed.

Lemma kaEff_le_idleEff : forall s pto, sane s -> 0 <= pto -> kaEff s pto <= idleEff s pto.
Proof. intros s pto [H1 H2] Hp. unfold kaEff, idleEff. lia. Qed.

Lemma base_deadline_le_idle : forall s pto, sane s -> 0 <= pto -> hsComplete s = true ->
  (if negb (blocked s =? rl_blockModeNone) then nextIdle s pto
   else if negb (nextKA s pto =? 0) then nextKA s pto else nextIdle s pto) <= nextIdle s pto.
Proof.
  intros s pto Hs Hp _. destruct (negb (blocked s =? rl_blockModeNone)); [lia|].
  destruct (negb (nextKA s pto =? 0)) eqn:E; [|lia].
  unfold nextKA in *. destruct ((c_keepAlivePeriod (cf s) =? 0) || kaSent s); [cbn in E; discriminate|].
  unfold nextIdle. pose proof (kaEff_le_idleEff s pto Hs Hp). pose proof (idleStart_ge_lastRecv s). lia.
Qed.

Lemma arm_le : forall s d ack loss, arm s d ack loss <= d.
Proof.
  intros s d ack loss. unfold arm. destruct (blocked s =? rl_blockModeHardBlocked); [lia|].
  pose proof (earlier_nz_le ack d). pose proof (earlier_nz_le loss (earlier_nz ack d)).
  destruct (blocked s =? rl_blockModeCongestionLimited); [lia|].
  pose proof (earlier_nz_le (pacing s) (earlier_nz loss (earlier_nz ack d))). lia.
Qed.

Lemma arm_nothing_pending : forall s d, pacing s = 0 -> arm s d 0 0 = d.
Proof.
  intros s d Hp. unfold arm. rewrite Hp, !earlier_nz_0.
  destruct (blocked s =? rl_blockModeHardBlocked); [reflexivity|].
  destruct (blocked s =? rl_blockModeCongestionLimited); reflexivity.
Qed.

Lemma base_deadline_hs : forall s pto, hsComplete s = true ->
  base_deadline s pto = (if negb (blocked s =? rl_blockModeNone) then nextIdle s pto
                         else if negb (nextKA s pto =? 0) then nextKA s pto else nextIdle s pto).
Proof. intros s pto H. unfold base_deadline. rewrite H. reflexivity. Qed.

(** after the handshake the timer is never armed later than the idle-timeout instant ... *)
Lemma deadline_le_idle : forall s pto retire ack loss, sane s -> 0 <= pto -> hsComplete s = true ->
  maybeResetTimer s pto retire ack loss <= nextIdle s pto.
Proof.
  intros s pto retire ack loss Hs Hp Hh. unfold maybeResetTimer.
  pose proof (base_deadline_le_idle s pto Hs Hp Hh) as B. rewrite <- (base_deadline_hs s pto Hh) in B.
  pose proof (earlier_nz_le retire (base_deadline s pto)).
  pose proof (arm_le s (earlier_nz retire (base_deadline s pto)) ack loss). lia.
Qed.

(** ... and exactly at it when nothing else is pending (no keep-alive due, no connection ID waiting for its
    retirement, no ACK alarm, no loss timer, no pacing) *)
Lemma deadline_eq_idle : forall s pto, hsComplete s = true ->
  nextKA s pto = 0 \/ blocked s <> rl_blockModeNone -> pacing s = 0 ->
  maybeResetTimer s pto 0 0 0 = nextIdle s pto.
Proof.
  intros s pto Hh Hk Hp. unfold maybeResetTimer. rewrite earlier_nz_0, (arm_nothing_pending _ _ Hp), (base_deadline_hs s pto Hh).
  destruct (blocked s =? rl_blockModeNone) eqn:B; cbn [negb]; [|reflexivity].
  destruct Hk as [K|K]; [rewrite K; reflexivity | lia].
Qed.

(** the armed deadline covers every source that is due in the current block mode, and is one of them:
    the base deadline (handshake / idle / keep-alive) and the next connection-ID retirement always;
    the ACK alarm and the loss-detection timer unless hard-blocked; the pacing deadline only if not blocked *)
Lemma earlier_nz_spec : forall t d,
  (earlier_nz t d = t /\ t <> 0 /\ t < d) \/ (earlier_nz t d = d /\ (t = 0 \/ d <= t)).
Proof. intros t d. unfold earlier_nz. destruct (negb (t =? 0) && (t <? d)) eqn:E; [left|right]; lia. Qed.

Lemma timer_covers_every_source : forall s pto retire ack loss,
  let d := maybeResetTimer s pto retire ack loss in
  d <= base_deadline s pto /\
  (retire <> 0 -> d <= retire) /\
  (blocked s <> rl_blockModeHardBlocked -> (ack <> 0 -> d <= ack) /\ (loss <> 0 -> d <= loss)) /\
  (blocked s <> rl_blockModeHardBlocked -> blocked s <> rl_blockModeCongestionLimited -> pacing s <> 0 -> d <= pacing s) /\
  (d = base_deadline s pto \/ d = retire \/ d = ack \/ d = loss \/ d = pacing s).
Proof.
  intros s pto retire ack loss. cbv zeta. unfold maybeResetTimer, arm.
  set (b := base_deadline s pto).
  destruct (earlier_nz_spec retire b) as [(E0 & ? & ?)|(E0 & ?)]; rewrite E0;
  (destruct (blocked s =? rl_blockModeHardBlocked) eqn:BH; [repeat split; intros; try lia; auto 10|]);
  match goal with |- context [earlier_nz ack ?d] =>
    destruct (earlier_nz_spec ack d) as [(E1 & ? & ?)|(E1 & ?)]; rewrite E1 end;
  match goal with |- context [earlier_nz loss ?d] =>
    destruct (earlier_nz_spec loss d) as [(E2 & ? & ?)|(E2 & ?)]; rewrite E2 end;
  (destruct (blocked s =? rl_blockModeCongestionLimited) eqn:BC; [repeat split; intros; try lia; auto 10|]);
  match goal with |- context [earlier_nz (pacing s) ?d] =>
    destruct (earlier_nz_spec (pacing s) d) as [(E3 & ? & ?)|(E3 & ?)]; rewrite E3 end;
  repeat split; intros; try lia; auto 10.
Qed.

(** so a loop that wakes at its deadline (or earlier) and finds the idle condition false re-arms, and one
    that sleeps until the deadline wakes no later than the idle instant: the timeout is declared AT it *)
Lemma wake_at_idle_deadline_fires : forall s pto, hsComplete s = true -> nextKA s pto = 0 ->
  decide s (nextIdle s pto) pto = DIdleTimeout.
Proof.
  intros s pto Hh Hk. unfold decide. rewrite Hk, Hh. cbn [negb andb orb Z.eqb].
  rewrite Z.leb_refl. reflexivity.
Qed.

(** ** 4. Keep-alive *)

Definition ka_state (s : st) : Prop :=
  hsComplete s = true /\ closeErr s = None /\ c_keepAlivePeriod (cf s) <> 0 /\ kaSent s = false /\
  0 < lastRecv s /\ 0 <= kaInterval s /\ blocked s = rl_blockModeNone.

Lemma ka_nextKA : forall s pto, ka_state s -> 0 <= pto -> nextKA s pto = lastRecv s + kaEff s pto /\ nextKA s pto <> 0.
Proof.
  intros s pto (Hh & Hc & Hk & Hs & Hl & Hi & Hb) Hp. unfold nextKA.
  apply Z.eqb_neq in Hk. rewrite Hk, Hs. cbn [orb]. split; [reflexivity|]. unfold kaEff. lia.
Qed.

(** with keep-alive enabled and block mode none the timer is armed no later than
    lastPacketReceived + max(keepAliveInterval, 1.5 PTO), exactly then if nothing else is pending *)
Lemma ka_base_deadline : forall s pto, ka_state s -> 0 <= pto -> base_deadline s pto = lastRecv s + kaEff s pto.
Proof.
  intros s pto K Hp. destruct (ka_nextKA s pto K Hp) as [E N].
  destruct K as (Hh & Hc & Hk & Hs & Hl & Hi & Hb).
  rewrite (base_deadline_hs s pto Hh), Hb, Z.eqb_refl. cbn [negb].
  apply Z.eqb_neq in N. rewrite N. cbn [negb]. exact E.
Qed.

Lemma ka_deadline : forall s pto retire ack loss, ka_state s -> 0 <= pto ->
  maybeResetTimer s pto retire ack loss <= lastRecv s + kaEff s pto.
Proof.
  intros s pto retire ack loss K Hp. unfold maybeResetTimer. rewrite (ka_base_deadline s pto K Hp).
  pose proof (earlier_nz_le retire (lastRecv s + kaEff s pto)).
  pose proof (arm_le s (earlier_nz retire (lastRecv s + kaEff s pto)) ack loss). lia.
Qed.

Lemma ka_deadline_eq : forall s pto, ka_state s -> 0 <= pto -> pacing s = 0 ->
  maybeResetTimer s pto 0 0 0 = lastRecv s + kaEff s pto.
Proof.
  intros s pto K Hp Hpc. unfold maybeResetTimer.
  rewrite earlier_nz_0, (arm_nothing_pending _ _ Hpc). apply ka_base_deadline; assumption.
Qed.

(** a wake-up at or after that instant queues the PING — the keep-alive branch comes first, so not even an
    idle deadline that has passed as well is declared in that iteration *)
Lemma ka_wake_pings : forall s now pto, ka_state s -> 0 <= pto -> lastRecv s + kaEff s pto <= now ->
  decide s now pto = DKeepAlive.
Proof.
  intros s now pto K Hp Hn. destruct (ka_nextKA s pto K Hp) as [E N].
  unfold decide. apply Z.eqb_neq in N. rewrite N. cbn [negb andb]. rewrite E.
  assert (X : (lastRecv s + kaEff s pto <=? now) = true) by lia. rewrite X. reflexivity.
Qed.

(** keep-alive leaves at least half of the idle period for the answer *)
Lemma ka_half : forall s pto, 0 <= pto -> 0 <= idleTimeout s -> kaInterval s <= idleTimeout s / 2 ->
  2 * kaEff s pto <= idleEff s pto + 1.
Proof. intros s pto Hp Hi Hk. unfold kaEff, idleEff. lia. Qed.

Lemma applyTP_sane : forall s p a, 0 <= c_maxIdleTimeout (cf s) -> 0 <= c_keepAlivePeriod (cf s) ->
  sane (applyTP s p a) /\ kaInterval (applyTP s p a) <= idleTimeout (applyTP s p a) / 2.
Proof.
  intros s p a Hi Hk. unfold sane, applyTP. cbn.
  destruct (0 <? p) eqn:E; destruct (0 <? a) eqn:E'; destruct (0 <? c_ownAdvIdle (cf s)) eqn:E''; lia.
Qed.

(** the interval also leaves half of the period the PEER advertised (it times out after that, whatever
    lower bound is applied to the own idle timer) *)
Lemma applyTP_respects_peer : forall s p a, 0 < a -> kaInterval (applyTP s p a) <= a / 2.
Proof.
  intros s p a Ha. unfold applyTP. cbn. assert (E : (0 <? a) = true) by lia. rewrite E.
  destruct (0 <? p); destruct (0 <? c_ownAdvIdle (cf s)); lia.
Qed.

(** ... and half of the period this endpoint itself ADVERTISED (a spec may advertise less than is enforced): the peer
    uses the minimum of both advertised values *)
Lemma applyTP_respects_own_advertised : forall s p a, 0 < c_ownAdvIdle (cf s) ->
  kaInterval (applyTP s p a) <= c_ownAdvIdle (cf s) / 2.
Proof.
  intros s p a Ho. unfold applyTP. cbn. assert (E : (0 <? c_ownAdvIdle (cf s)) = true) by lia. rewrite E.
  destruct (0 <? p); destruct (0 <? a); lia.
Qed.

(** *** rounds: PING at the armed deadline, answered in time => never idle *)

Record round := { rd_pto : Z; rd_wakes : list (Z * Z); rd_recv : Z }.

Definition ka_due (s : st) (r : round) : Z := lastRecv s + kaEff s (rd_pto r).

Definition round_events (s : st) (r : round) : list ev :=
  EvWake (ka_due s r) (rd_pto r) :: EvSentAE (ka_due s r) ::
  map (fun w => EvWake (fst w) (snd w)) (rd_wakes r) ++ [EvRecv (rd_recv r)].

(** the answer to the PING arrives within (effective idle period) - (effective keep-alive interval) of it, both with the
    round's PTO: max(idleTimeout, 3 PTO) - max(keepAliveInterval, 1.5 PTO) — on a path whose PTO is large the idle period
    is 3 PTO, not idleTimeout. The loop may be woken any number of times in between; the PTO does not shrink before the
    answer (it only changes when an ACK is received). *)
Definition round_ok (s : st) (r : round) : Prop :=
  0 <= rd_pto r /\ ka_due s r <= rd_recv r /\
  rd_recv r - ka_due s r < idleEff s (rd_pto r) - kaEff s (rd_pto r) /\
  Forall (fun w => ka_due s r <= fst w <= rd_recv r /\ rd_pto r <= snd w) (rd_wakes r).

Fixpoint run_rounds (s : st) (rs : list round) : st :=
  match rs with
  | [] => s
  | r :: rs' => run_rounds (run s (round_events s r)) rs'
  end.
Fixpoint rounds_ok (s : st) (rs : list round) : Prop :=
  match rs with
  | [] => True
  | r :: rs' => round_ok s r /\ rounds_ok (run s (round_events s r)) rs'
  end.

(** state between the PING and its answer *)
Definition pinged (s : st) (lr idle : Z) : Prop :=
  hsComplete s = true /\ closeErr s = None /\ kaSent s = true /\ lastRecv s = lr /\ idleTimeout s = idle /\
  lr <= idleStart s.

(** wake-ups between the PING and its answer change nothing (the idle branch is not reached) *)
Lemma wakes_noop : forall ws s lr idle hi,
  pinged s lr idle ->
  Forall (fun w => fst w <= hi /\ hi < lr + Z.max idle (snd w * 3)) ws ->
  run s (map (fun w => EvWake (fst w) (snd w)) ws) = s.
Proof.
  induction ws as [|w ws IH]; intros s lr idle hi P F; [reflexivity|].
  inversion F as [|? ? [Hw Hp] F']; subst. cbn [map]. rewrite run_cons.
  assert (E : step s (EvWake (fst w) (snd w)) = s).
  { destruct P as (Hh & Hc & Hk & Hl & Hi & Hs). cbn [step]. rewrite Hc.
    assert (D : decide s (fst w) (snd w) = DContinue).
    { unfold decide, nextKA. rewrite Hk, orb_true_r. cbn [Z.eqb negb andb]. rewrite Hh. cbn [negb andb orb].
      assert (X : (nextIdle s (snd w) <=? fst w) = false).
      { unfold nextIdle, idleEff. rewrite Hi. lia. }
      rewrite X. reflexivity. }
    rewrite D. reflexivity. }
  rewrite E. apply (IH s lr idle hi); assumption.
Qed.

Lemma round_preserves : forall s r, ka_state s -> round_ok s r ->
  decide s (ka_due s r) (rd_pto r) = DKeepAlive /\
  ka_state (run s (round_events s r)) /\
  cf (run s (round_events s r)) = cf s /\ kaInterval (run s (round_events s r)) = kaInterval s /\
  idleTimeout (run s (round_events s r)) = idleTimeout s /\
  lastRecv (run s (round_events s r)) = rd_recv r.
Proof.
  intros s r K (Hp & Hr & Hans & Hw).
  pose proof (ka_wake_pings s (ka_due s r) (rd_pto r) K Hp (Z.le_refl _)) as D.
  split; [exact D|].
  destruct K as (Hh & Hc & Hk & Hs & Hl & Hi & Hb).
  unfold round_events. rewrite !run_cons.
  set (s1 := upd_timers s (lastRecv s) (firstAE s) true (blocked s)).
  assert (E1 : step s (EvWake (ka_due s r) (rd_pto r)) = s1) by (cbn [step]; rewrite Hc, D; reflexivity).
  rewrite E1.
  set (s2 := step s1 (EvSentAE (ka_due s r))).
  assert (P2 : pinged s2 (lastRecv s) (idleTimeout s)).
  { assert (L2 : lastRecv s2 = lastRecv s) by (unfold s2; cbn [step]; destruct (firstAE s1 =? 0); reflexivity).
    unfold pinged. repeat split; try (unfold s2; cbn [step]; destruct (firstAE s1 =? 0); cbn; auto; fail).
    rewrite <- L2. apply idleStart_ge_lastRecv. }
  assert (C2 : cf s2 = cf s /\ kaInterval s2 = kaInterval s).
  { unfold s2. cbn [step]. destruct (firstAE s1 =? 0); unfold s1; cbn; auto. }
  rewrite run_app.
  assert (F : Forall (fun w => fst w <= rd_recv r /\ rd_recv r < lastRecv s + Z.max (idleTimeout s) (snd w * 3)) (rd_wakes r)).
  { eapply Forall_impl; [|exact Hw]. cbn. intros a [[_ A] B]. unfold ka_due, idleEff, kaEff in *. lia. }
  pose proof (wakes_noop (rd_wakes r) s2 _ _ _ P2 F) as S3.
  rewrite S3. rewrite run_cons. cbn [run fold_left step].
  destruct P2 as (Hh2 & Hc2 & Hk2 & Hl2 & Hi2 & Hs2). destruct C2 as [C2a C2b].
  unfold ka_state, upd_timers. cbn [cf hsComplete idleTimeout kaInterval creation lastRecv firstAE kaSent blocked pacing sentFirst closeErr].
  rewrite C2a, C2b, Hi2, Hh2, Hc2. repeat split; auto. unfold ka_due, kaEff in Hr. lia.
Qed.

(** keep-alive enabled, block mode none, every PING answered within (effective idle period - effective interval):
    each round queues its PING at lastPacketReceived + max(keepAliveInterval, 1.5 PTO) and no history of such
    rounds — with arbitrary extra wake-ups — ever reaches the idle-timeout branch *)
Lemma keepalive_prevents_idle : forall rs s, ka_state s -> rounds_ok s rs ->
  closeErr (run_rounds s rs) = None /\ ka_state (run_rounds s rs).
Proof.
  induction rs as [|r rs IH]; intros s K H; cbn [run_rounds].
  - split; [|exact K]. destruct K as (_ & Hc & _). exact Hc.
  - destruct H as [Hr Hrs]. destruct (round_preserves s r K Hr) as (_ & K' & _). apply IH; assumption.
Qed.

Lemma rounds_ping_each : forall s r, ka_state s -> round_ok s r ->
  decide s (lastRecv s + Z.max (kaInterval s) (rd_pto r * 3 / 2)) (rd_pto r) = DKeepAlive.
Proof. intros s r K H. destruct (round_preserves s r K H) as [D _]. exact D. Qed.

(** the keep-alive branch precedes the timeout branches: when a PING is due AND the idle deadline has passed (possible when
    the timer was armed for the idle timeout because sending is blocked, or the loop was late), the iteration queues the
    PING and the idle timeout is declared by the NEXT iteration, at the same instant (the timer is re-armed for a
    deadline that has passed) *)
Lemma idle_after_keepalive_iteration : forall s now pto,
  hsComplete s = true -> closeErr s = None -> decide s now pto = DKeepAlive -> nextIdle s pto <= now ->
  closeErr (step s (EvWake now pto)) = None /\
  closeErr (step (step s (EvWake now pto)) (EvWake now pto)) = Some {| ce_err := EIdle; ce_immediate := true |}.
Proof.
  intros s now pto Hh Hc D Hn. cbn [step]. rewrite Hc, D. split; [exact Hc|].
  set (s1 := upd_timers s (lastRecv s) (firstAE s) true (blocked s)).
  assert (C1 : closeErr s1 = None) by exact Hc. rewrite C1.
  assert (D1 : decide s1 now pto = DIdleTimeout).
  { unfold decide, nextKA. cbn [kaSent s1 upd_timers]. rewrite orb_true_r. cbn [Z.eqb negb andb].
    assert (H1 : hsComplete s1 = true) by exact Hh. rewrite H1. cbn [negb andb orb].
    assert (X : (nextIdle s1 pto <=? now) = true) by (unfold nextIdle, idleStart, idleEff in *; cbn in *; lia).
    rewrite X. reflexivity. }
  rewrite D1. unfold destroyImpl, setCloseError. rewrite C1. reflexivity.
Qed.

(** ** 4a. History-level statements *)

Definition timed (l : list ev) : Prop :=
  Forall (fun e => match e with EvRecv t | EvSentAE t => 0 < t | _ => True end) l.

(** "not much later": after any history, with the handshake complete, no keep-alive due and nothing else
    pending, the deadline the loop arms IS max(last received, first ack-eliciting sent after it) +
    max(idleTimeout, 3 PTO) read off the history, and the wake-up at that deadline closes with ErrIdleTimeout;
    with other things pending (ACK alarm, loss timer, pacing, keep-alive) the deadline is only earlier. *)
Lemma idle_not_late_history : forall s0 l pto,
  0 <= lastRecv s0 -> firstAE s0 = 0 -> timed l ->
  let s := run s0 l in
  let T := Z.max (hist_lastRecv (lastRecv s0) l) (hist_firstAE 0 l) + Z.max (hist_idle (cf s0) (idleTimeout s0) l) (3 * pto) in
  closeErr s = None -> hsComplete s = true ->
  (nextKA s pto = 0 -> pacing s = 0 ->
     maybeResetTimer s pto 0 0 0 = T /\
     closeErr (step s (EvWake (maybeResetTimer s pto 0 0 0) pto)) = Some {| ce_err := EIdle; ce_immediate := true |}) /\
  (forall retire ack loss, sane s -> 0 <= pto -> maybeResetTimer s pto retire ack loss <= T).
Proof.
  intros s0 l pto H0 F0 Hpos s T Hn Hhs.
  destruct (run_fields l s0) as [A [B C]]. rewrite F0 in B. fold s in A, B, C.
  assert (P1 : 0 <= lastRecv s).
  { rewrite A. clear - H0 Hpos. revert H0. generalize (lastRecv s0). induction l as [|e l IH]; intros t Ht; cbn; [exact Ht|].
    inversion Hpos; subst. destruct e; try (apply IH; assumption). apply IH; [assumption|lia]. }
  assert (P2 : 0 <= firstAE s).
  { rewrite B. clear - Hpos. assert (G : forall f, 0 <= f -> 0 <= hist_firstAE f l).
    { induction l as [|e l IH]; intros f Hf; cbn; [exact Hf|].
      inversion Hpos; subst. destruct e; try (apply IH; assumption).
      - apply IH; [assumption|lia].
      - apply IH; [assumption|]. destruct (f =? 0); lia. }
    apply G. lia. }
  assert (ET : nextIdle s pto = T).
  { unfold nextIdle, idleEff, T. rewrite (idleStart_max' s P1 P2), A, B, C. lia. }
  split.
  - intros Hk Hp. rewrite (deadline_eq_idle s pto Hhs (or_introl Hk) Hp). split; [exact ET|].
    cbn [step]. rewrite Hn. rewrite (wake_at_idle_deadline_fires s pto Hhs Hk).
    unfold destroyImpl, setCloseError. rewrite Hn. reflexivity.
  - intros retire ack loss Hs Hp. rewrite <- ET. apply deadline_le_idle; assumption.
Qed.

Lemma step_hs : forall s e, hsComplete s = true -> hsComplete (step s e) = true.
Proof.
  intros s e H. destruct e; cbn [step]; try (cbn; auto; fail).
  - destruct (firstAE s =? 0); cbn; exact H.
  - destruct (closeErr s); [exact H|]. destruct (decide s now pto); cbn; auto;
      unfold destroyImpl, setCloseError; destruct (closeErr s); cbn; exact H.
  - unfold setCloseError. destruct (closeErr s); cbn; exact H.
Qed.

Lemma decide_no_timeout : forall s now pto, hsComplete s = true -> now < lastRecv s + idleTimeout s ->
  decide s now pto = DKeepAlive \/ decide s now pto = DContinue.
Proof.
  intros s now pto Hh Hlt. destruct (decide s now pto) eqn:D; auto.
  - apply decide_hs_cond in D. destruct D as [D _]. congruence.
  - apply decide_idle_cond in D. destruct D as [[_ D]|[D _]]; [|congruence].
    pose proof (idleStart_ge_lastRecv s). lia.
Qed.

Definition no_close_requests (l : list ev) : Prop :=
  Forall (fun e => match e with EvClose _ => False | _ => True end) l.

(** every wake-up of the history comes before lastPacketReceived + idleTimeout: the peer's packets (the answers
    to the keep-alive PINGs) keep arriving within the idle period *)
Definition wakes_in_time (s0 : st) (l : list ev) : Prop :=
  forall l1 now pto l2, l = l1 ++ EvWake now pto :: l2 ->
    now < lastRecv (run s0 l1) + idleTimeout (run s0 l1).

(** over ALL histories (any interleaving of receive / send / wake-up / block-mode / parameter events):
    as long as packets keep arriving in time, the idle branch is never reached *)
Lemma no_idle_while_answered : forall l s0,
  hsComplete s0 = true -> closeErr s0 = None -> no_close_requests l -> wakes_in_time s0 l ->
  closeErr (run s0 l) = None /\ hsComplete (run s0 l) = true.
Proof.
  induction l as [|e l IH]; intros s0 Hh Hc Hn Hw; [cbn; auto|].
  rewrite run_cons. inversion Hn as [|? ? He Hn']; subst.
  apply IH; [apply step_hs; exact Hh| |exact Hn'|].
  - destruct e; cbn [step]; try (cbn; exact Hc).
    + destruct (firstAE s0 =? 0); cbn; exact Hc.
    + rewrite Hc. specialize (Hw [] now pto l eq_refl). cbn in Hw.
      destruct (decide_no_timeout s0 now pto Hh Hw) as [D|D]; rewrite D; cbn; exact Hc.
    + contradiction.
  - intros l1 now pto l2 E. specialize (Hw (e :: l1) now pto l2). rewrite run_cons in Hw. apply Hw.
    rewrite E. reflexivity.
Qed.

(** a PING sent at lastPacketReceived + interval and answered within idleTimeout - interval arrives in time *)
Lemma answer_in_time : forall lr interval idle r, r - (lr + interval) < idle - interval -> r < lr + idle.
Proof. intros. lia. Qed.

(** ** 4c. The lower bound on the peer's idle timeout (MinRemoteIdleTimeout) *)

Lemma min_remote_idle_timeout_5s : rl_MinRemoteIdleTimeout = 5000000000.
Proof. reflexivity. Qed.

(** RFC 9000 10.1: the effective idle timeout is the minimum of both advertised values. The own idle timer
    uses min(own, max(5 s, peer's)) instead: never shorter than the RFC's value, longer only when the peer
    advertised less than 5 s, and then by less than 5 s - peer's value. *)
Lemma idle_excess_bounded : forall s adv, 0 < adv -> 0 <= c_maxIdleTimeout (cf s) ->
  let own := idleTimeout (applyTP s (parse_idle adv) adv) in
  let rfc := Z.min (c_maxIdleTimeout (cf s)) adv in
  rfc <= own /\ own - rfc <= Z.max 0 (rl_MinRemoteIdleTimeout - adv) /\ own - rfc < rl_MinRemoteIdleTimeout /\
  (rl_MinRemoteIdleTimeout <= adv -> own = rfc).
Proof.
  intros s adv Ha Hc. unfold applyTP, parse_idle. cbn [idleTimeout].
  assert (E : (0 <? Z.max rl_MinRemoteIdleTimeout adv) = true) by (unfold rl_MinRemoteIdleTimeout; lia).
  rewrite E. unfold rl_MinRemoteIdleTimeout. lia.
Qed.

(** ** 4a'. Every stream state *)

(** whatever state a receive stream is in (the record's flags are arbitrary: end reached or not, cancellation
    error recorded or not, cancellation effective or not — i.e. also a RESET_STREAM_AT whose reliable part is still
    incomplete —, data queued or not): after closeForShutdown a Read returns the cause or the stream's own terminal
    result; it never parks. The same for a send stream not shut down before. *)
Lemma read_after_shutdown_every_state : forall r e,
  r_read (r_closeForShutdown r e) <> RBlock /\
  (r_read (r_closeForShutdown r e) = RErr e \/ own_result (r_read (r_closeForShutdown r e))).
Proof.
  intros r e. destruct (read_after_shutdown r e) as [H|H]; split; auto; rewrite ?H; try discriminate.
  unfold own_result in H. destruct H as [H|[H|H]]; rewrite H; discriminate.
Qed.

Lemma write_after_shutdown_every_state : forall s e, s_shutdown s = None ->
  s_write (s_closeForShutdown s e) <> RBlock /\
  (s_write (s_closeForShutdown s e) = RErr e \/ own_result (s_write (s_closeForShutdown s e))).
Proof.
  intros s e Hs. destruct (write_after_shutdown s e Hs) as [H|H]; split; auto; rewrite ?H; try discriminate.
  unfold own_result in H. destruct H as [H|[H|H]]; rewrite H; discriminate.
Qed.

(** why closeForShutdown must not depend on the cancellation error: a stream that saw RESET_STREAM_AT but has not
    read the reliable part completely (cancelErr set, cancellation not effective, nothing queued) would keep its
    reader parked for ever *)
Lemma conditional_shutdown_leaves_parked : forall e,
  let r := {| r_eof := false; r_cancelErr := true; r_cancel := false; r_shutdown := None; r_data := false |} in
  r_read (r_closeForShutdown_unless_cancelled r e) = RBlock /\ r_read (r_closeForShutdown r e) = RErr e.
Proof. intros e. split; reflexivity. Qed.

(** why the datagram queue must be closed whatever the own EnableDatagrams says: on a send-only connection (own flag
    off, peer's on) a fan-out that skips the queue lets a later SendDatagram succeed while there is room and park
    for ever when the 32 slots are full *)
Lemma dg_close_must_not_depend_on_own_flag : forall e room,
  let a := {| a_mapErr := None; a_dgErr := None; a_rstreams := []; a_sstreams := []; a_canOpen := false;
              a_canAccept := false; a_rcvQueued := false; a_sendRoom := room |} in
  api_call (fanout_dg_if_enabled false a e) CSendDatagram = (if room then ROk else RBlock) /\
  api_call (fanout a e) CSendDatagram = RErr e.
Proof. intros e []; split; reflexivity. Qed.

(** ** 4b. Any number of parked callers per call *)

Lemma woken_from_all : forall ps served,
  NoDup (filter (fun c => match close_wakeup c with WakeOne => true | WakeAll => false end) ps) ->
  (forall p, In p ps -> close_wakeup p = WakeOne -> ~ In p served) ->
  woken_from close_wakeup served ps = ps.
Proof.
  induction ps as [|p r IH]; intros served N D; [reflexivity|].
  cbn [woken_from]. cbn [filter] in N. destruct (close_wakeup p) eqn:W.
  - f_equal. apply IH; [exact N|]. intros q Hq. apply D. right. exact Hq.
  - inversion N as [|? ? Hnotin N']; subst.
    destruct (in_dec call_eq_dec p served) as [I|I].
    + exfalso. apply (D p (or_introl eq_refl) W). exact I.
    + f_equal. apply IH; [exact N'|]. intros q Hq Wq [E|I'].
      * subst q. apply Hnotin. apply filter_In. split; [exact Hq|]. rewrite W. reflexivity.
      * apply (D q (or_intror Hq) Wq). exact I'.
Qed.

(** every parked goroutine is woken, however many are parked in the same call *)
Lemma all_parked_woken : forall ps, one_per_stream ps -> woken ps = ps.
Proof. intros ps H. apply woken_from_all; [exact H|]. intros p _ _ []. Qed.

(** ... and what a single token would do instead: of two goroutines parked in the same call the second one
    stays parked (this is why the maps and the datagram queue close a channel) *)
Lemma one_token_leaves_parked : forall wk c, wk c = WakeOne -> woken_from wk [] [c; c] = [c].
Proof.
  intros wk c H. cbn [woken_from]. rewrite H. destruct (in_dec call_eq_dec c []) as [[]|_].
  destruct (in_dec call_eq_dec c [c]) as [_|N]; [reflexivity|]. exfalso. apply N. left. reflexivity.
Qed.

Lemma close_wakeup_accept_open_datagram : forall c,
  match c with CRead _ | CWrite _ => True | _ => close_wakeup c = WakeAll end.
Proof. destruct c; exact I || reflexivity. Qed.

(** ** Statements as used by Props/C17.v *)

Definition call_in_range (a : api) (c : call) : Prop :=
  (forall i, c = CRead i -> (i < length (a_rstreams a))%nat) /\
  (forall i, c = CWrite i -> (i < length (a_sstreams a))%nat).

Lemma single_cause : forall s l1 ce l2,
  closeErr (run s l1) = None ->
  closeErr (run s (l1 ++ EvClose ce :: l2)) = Some ce /\
  forall a c, fresh_streams a -> call_in_range a c ->
    let e := mapped_err ce in
    let r := api_call (fanout a e) c in
    r <> RBlock /\
    (r = RErr e \/ own_result r \/
     (c = CReceiveDatagram /\ a_rcvQueued a = true /\ r = ROk)).
Proof.
  intros s l1 ce l2 H. split; [apply first_request_wins; exact H|].
  intros a c Hf [Hr Hw]. cbv zeta. split.
  - apply fanout_never_parks; assumption.
  - apply fanout_call; assumption.
Qed.

(** the parked goroutines: a list [ps] of calls in which the same call may occur any number of times
    (at most one per stream direction). All of them are woken, and each returns the cause (or its object's
    own terminal result / a datagram queued before). *)
Lemma single_cause_parked : forall a e ps, fresh_streams a -> Forall (call_in_range a) ps -> one_per_stream ps ->
  woken ps = ps /\
  Forall (fun c => let r := api_call (fanout a e) c in
                   r <> RBlock /\
                   (r = RErr e \/ own_result r \/ (c = CReceiveDatagram /\ a_rcvQueued a = true /\ r = ROk))) ps.
Proof.
  intros a e ps Hf Hr H1. split; [apply all_parked_woken; exact H1|].
  rewrite Forall_forall in *. intros c Hc. destruct (Hr c Hc) as [R W]. cbv zeta. split.
  - apply fanout_never_parks; assumption.
  - apply fanout_call; assumption.
Qed.

(** the same when the cause is a timeout found by the loop itself *)
Lemma single_cause_timeout : forall s l1 now pto ce l2,
  closeErr (run s l1) = None ->
  closeErr (step (run s l1) (EvWake now pto)) = Some ce ->
  closeErr (run s (l1 ++ EvWake now pto :: l2)) = Some ce /\
  (ce = {| ce_err := EIdle; ce_immediate := true |} \/ ce = {| ce_err := EHsTimeout; ce_immediate := true |}).
Proof.
  intros s l1 now pto ce l2 Hn H. split.
  - rewrite run_app, run_cons. apply run_keeps_cause. exact H.
  - destruct (step_sets_cause _ _ _ Hn H) as [E|[n [p [E [[_ C]|[_ C]]]]]]; [discriminate|auto|auto].
Qed.

Lemma close_frame_due : forall client sentFirstPacket ampl ce,
  ((exists isApp code, close_action client sentFirstPacket ampl ce = ActSendClose isApp code) <->
   (is_remote (mapped_err ce) = false /\ ce_immediate ce = false /\ silent_err (mapped_err ce) = false /\
    (client = false \/ sentFirstPacket = true) /\ ampl = false)) /\
  (forall isApp code, close_action client sentFirstPacket ampl ce = ActSendClose isApp code ->
     match mapped_err ce with
     | EApp _ c => isApp = true /\ code = c
     | ETransport _ c => isApp = false /\ code = c
     | _ => isApp = false /\ code = rl_InternalError
     end).
Proof.
  intros. split; [apply close_frame_iff|]. intros. eapply close_frame_code; eassumption.
Qed.

Lemma internal_error_code : rl_InternalError = 1.
Proof. reflexivity. Qed.

(** ** 5. Routing entries *)

(** after a close nothing is left once the closing period (3 PTO) is over; timeouts, destroy(), stateless
    resets, abandoned attempts and closes before the first packet leave nothing from the start *)
Lemma routing_released : forall client sf ampl ce elapsed expiry,
  (expiry <= elapsed -> exit_routing client sf ampl ce elapsed expiry = 0) /\
  (ce_immediate ce = true \/ silent_err (mapped_err ce) = true -> is_remote (mapped_err ce) = false ->
   exit_routing client sf ampl ce elapsed expiry = 0).
Proof.
  intros client sf ampl ce elapsed expiry. split.
  - intros H. unfold exit_routing. assert (X : (expiry <=? elapsed) = true) by lia. rewrite X. reflexivity.
  - intros I R. unfold exit_routing, close_action. rewrite R.
    assert (X : ce_immediate ce || silent_err (mapped_err ce) = true) by (destruct I as [I|I]; rewrite I; auto using orb_true_r).
    rewrite X. destruct (expiry <=? elapsed); reflexivity.
Qed.

(** a handshake that cannot even be started, whatever local error the TLS stack reports (a plain error, or a TLS alert as
    a local transport error): nothing is sent, nothing stays registered, and the API objects and the context get the
    very error Dial returns *)
Lemma start_failure_released : forall client sf ampl e elapsed expiry a c,
  is_remote e = false -> e <> ENil ->
  exit_routing client sf ampl (start_failure e) elapsed expiry = 0 /\
  exit_fanout (start_failure e) = e /\ ctx_cause (start_failure e) = e /\
  close_action client sf ampl (start_failure e) <> ActSendClose a c.
Proof.
  intros client sf ampl e elapsed expiry a c Hr Hn.
  assert (M : mapped_err (start_failure e) = e) by (destruct e; try reflexivity; contradiction).
  split; [|split; [exact M|split]].
  - unfold exit_routing, close_action. rewrite M, Hr. cbn. destruct (expiry <=? elapsed); reflexivity.
  - unfold ctx_cause. destruct e; try exact M; contradiction.
  - apply silent_closes. left. reflexivity.
Qed.

(** the context cause and the error handed to the API objects are the same error for every close except the nil close
    (destroy(nil): dial cancellation), where cancel(nil) records context.Canceled while the API objects get ApplicationError{} *)
Lemma ctx_cause_is_mapped : forall ce, ce_err ce <> ENil -> ctx_cause ce = mapped_err ce.
Proof. intros [e i] H. unfold ctx_cause. cbn in *. destruct e; try reflexivity. contradiction. Qed.

Lemma nil_close_two_causes : forall i,
  ctx_cause {| ce_err := ENil; ce_immediate := i |} = ECanceled /\ mapped_err {| ce_err := ENil; ce_immediate := i |} = EApp false 0.
Proof. intros i. split; reflexivity. Qed.
