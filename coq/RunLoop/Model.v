(** RunLoop — model of the close / timer logic of /repo/connection.go and closed_conn.go.

    Mirrors (names as in the Go code):
      setCloseError / closeLocal / destroyImpl         first close request wins
      handleCloseError                                 classification, error mapping, routing action, CONNECTION_CLOSE
      applyTransportParams (idle part; Go: applyTransport-Params)   idleTimeout, keepAliveInterval
      idleTimeoutStartTime, nextIdleTimeoutTime,
      nextKeepAliveTime, maybeResetTimer               deadline selection
      run(): the branch order after a wake-up          keep-alive PING / handshake timeout / idle timeout
      closedLocalConn.handlePacket                     exponential back-off of the CONNECTION_CLOSE retransmission
      fan-out: streamsMap.CloseWithError, Send/ReceiveStream.closeForShutdown, datagramQueue.CloseWithError
    Time is an input (monotime ns as Z, 0 = unset exactly as in the code).  PTO, the ACK alarm and the
    loss-detection timeout are oracle inputs (values the implementation computed).
    Executable definitions only. *)
From Coq Require Import List ZArith Bool.
From V Require Import Gen.Params.
Import ListNotations.
Open Scope Z_scope.

(** * Errors and close requests *)

Inductive errk :=
| ENil                                   (* error(nil) *)
| EApp (remote : bool) (code : Z)        (* *qerr.ApplicationError (also when wrapped: errors.As finds it) *)
| ETransport (remote : bool) (code : Z)  (* *qerr.TransportError *)
| EIdle                                  (* qerr.ErrIdleTimeout *)
| EHsTimeout                             (* qerr.ErrHandshakeTimeout *)
| EStatelessReset
| EVersionNeg
| ERecreate                              (* errCloseForRecreating *)
| EOther (tag : Z)                       (* any other (non-QUIC) error *)
| ECanceled.                             (* context.Canceled: only as context cause of a nil close *)

Record closeError := { ce_err : errk; ce_immediate : bool }.

Definition errk_eqb (a b : errk) : bool :=
  match a, b with
  | ENil, ENil | EIdle, EIdle | EHsTimeout, EHsTimeout | EStatelessReset, EStatelessReset
  | EVersionNeg, EVersionNeg | ERecreate, ERecreate | ECanceled, ECanceled => true
  | EApp r c, EApp r' c' | ETransport r c, ETransport r' c' => Bool.eqb r r' && (c =? c')
  | EOther t, EOther t' => t =? t'
  | _, _ => false
  end.

(** * Connection state (timer- and close-relevant part of [Conn]) *)

Record cfg := {
  c_client : bool;            (* perspective == PerspectiveClient *)
  c_keepAlivePeriod : Z;      (* config.KeepAlivePeriod *)
  c_maxIdleTimeout : Z;       (* config.MaxIdleTimeout *)
  c_hsIdleTimeout : Z;        (* config.HandshakeIdleTimeout *)
  c_ownAdvIdle : Z }.         (* Conn.advertisedIdleTimeout: the max_idle_timeout a spec-driven client put on the wire
                                 (after suppression); 0 = none advertised / not a spec-driven client *)

Definition hsTimeout (c : cfg) : Z := 2 * c_hsIdleTimeout c.   (* Config.handshakeTimeout *)

Record st := {
  cf : cfg;
  hsComplete : bool;
  idleTimeout : Z;
  kaInterval : Z;             (* keepAliveInterval *)
  creation : Z;               (* creationTime *)
  lastRecv : Z;               (* lastPacketReceivedTime *)
  firstAE : Z;                (* firstAckElicitingPacketAfterIdleSentTime, 0 = unset *)
  kaSent : bool;              (* keepAlivePingSent *)
  blocked : Z;                (* blockMode *)
  pacing : Z;                 (* pacingDeadline, 0 = unset *)
  sentFirst : bool;           (* sentFirstPacket *)
  closeErr : option closeError }.

Definition upd_close (s : st) (c : option closeError) : st :=
  {| cf := cf s; hsComplete := hsComplete s; idleTimeout := idleTimeout s; kaInterval := kaInterval s;
     creation := creation s; lastRecv := lastRecv s; firstAE := firstAE s; kaSent := kaSent s;
     blocked := blocked s; pacing := pacing s; sentFirst := sentFirst s; closeErr := c |}.

Definition upd_timers (s : st) (lr fa : Z) (ks : bool) (bl : Z) : st :=
  {| cf := cf s; hsComplete := hsComplete s; idleTimeout := idleTimeout s; kaInterval := kaInterval s;
     creation := creation s; lastRecv := lr; firstAE := fa; kaSent := ks;
     blocked := bl; pacing := pacing s; sentFirst := sentFirst s; closeErr := closeErr s |}.

(** preSetup: lastPacketReceivedTime = creationTime = now *)
Definition init (c : cfg) (now : Z) : st :=
  {| cf := c; hsComplete := false; idleTimeout := 0; kaInterval := 0; creation := now; lastRecv := now;
     firstAE := 0; kaSent := false; blocked := rl_blockModeNone; pacing := 0; sentFirst := false; closeErr := None |}.

(** * setCloseError: CompareAndSwap(nil, e) — the first request wins *)
Definition setCloseError (s : st) (e : closeError) : st :=
  match closeErr s with
  | None => upd_close s (Some e)
  | Some _ => s
  end.
Definition closeLocal (s : st) (e : errk) := setCloseError s {| ce_err := e; ce_immediate := false |}.
Definition destroyImpl (s : st) (e : errk) := setCloseError s {| ce_err := e; ce_immediate := true |}.

(** * handleCloseError *)

Inductive action :=
| ActReplaceClosedNil                      (* connIDGenerator.ReplaceWithClosed(nil, 3*PTO): absorb late packets *)
| ActRemoveAll                             (* connIDGenerator.RemoveAll() *)
| ActSendClose (isApp : bool) (code : Z).  (* sendConnectionClose + ReplaceWithClosed(packet, 3*PTO) *)

(** the error after the [switch] of handleCloseError: what streams, maps and the datagram queue are closed with,
    and (for a non-nil request) what run() returns and the context is cancelled with *)
Definition mapped_err (ce : closeError) : errk :=
  match ce_err ce with
  | ENil => EApp false 0
  | EOther t => if ce_immediate ce then EOther t else ETransport false rl_InternalError
  | ECanceled => if ce_immediate ce then ECanceled else ETransport false rl_InternalError
  | e => e
  end.

Definition is_remote (e : errk) : bool :=
  match e with EApp r _ | ETransport r _ => r | _ => false end.

(** frame built by sendConnectionClose(e) *)
Definition close_frame (e : errk) : bool * Z :=
  match e with
  | ETransport _ c => (false, c)
  | EApp _ c => (true, c)
  | _ => (false, rl_InternalError)
  end.

(** isSilentClose: errors that must not be answered with a CONNECTION_CLOSE even when they reach the run
    loop as an ordinary (not immediate) error: a stateless reset detected by the connection itself
    (RFC 9000 10.3.1) and the attempt abandoned after Version Negotiation *)
Definition silent_err (e : errk) : bool :=
  match e with EStatelessReset | ERecreate => true | _ => false end.

(** [ampl]: server, handshake not complete, something was sent, and the sent-packet handler says SendNone
    (anti-amplification limit used up): close silently, keep a stand-in that absorbs packets (oracle input) *)
Definition close_action (client sentFirstPacket ampl : bool) (ce : closeError) : action :=
  let e := mapped_err ce in
  if is_remote e then ActReplaceClosedNil
  else if ce_immediate ce || silent_err e then ActRemoveAll
  else if client && negb sentFirstPacket then ActRemoveAll
  else if ampl then ActReplaceClosedNil
  else let '(a, c) := close_frame e in ActSendClose a c.

(** context.Cause(conn.Context()): run() returns closeErr.err; a nil close keeps it nil, and cancel(nil) records Canceled *)
Definition ctx_cause (ce : closeError) : errk :=
  match ce_err ce with ENil => ECanceled | _ => mapped_err ce end.

(** routing entry kind of the connection's IDs right after the close: 0 = none, 1 = closedLocalConn, 2 = closedRemoteConn *)
Definition routing_after (a : action) : Z :=
  match a with ActRemoveAll => 0 | ActSendClose _ _ => 1 | ActReplaceClosedNil => 2 end.

(** * Timers *)

(** applyTransportParams. peerIdle = params.MaxIdleTimeout (as parsed: raised to MinRemoteIdleTimeout),
    peerAdv = params.AdvertisedMaxIdleTimeout (exactly what the peer sent; 0 = not known).
    The keep-alive interval is computed from the smaller of the own idle timeout and what the peer
    advertised: the peer times out after THAT duration. *)
Definition applyTP (s : st) (peerIdle peerAdv : Z) : st :=
  let idle0 := c_maxIdleTimeout (cf s) in
  let idle := if 0 <? peerIdle then Z.min idle0 peerIdle else idle0 in
  let kaIdle0 := if 0 <? peerAdv then Z.min idle peerAdv else idle in
  (* the peer also counts the idle timeout WE advertised (repo 97504e3): a spec may advertise less than is enforced *)
  let kaIdle := if 0 <? c_ownAdvIdle (cf s) then Z.min kaIdle0 (c_ownAdvIdle (cf s)) else kaIdle0 in
  {| cf := cf s; hsComplete := hsComplete s; idleTimeout := idle;
     kaInterval := Z.min (c_keepAlivePeriod (cf s)) (kaIdle / 2);
     creation := creation s; lastRecv := lastRecv s; firstAE := firstAE s; kaSent := kaSent s;
     blocked := blocked s; pacing := pacing s; sentFirst := sentFirst s; closeErr := closeErr s |}.

(** wire: parsing max_idle_timeout. The advertised value is kept, MaxIdleTimeout gets the lower bound
    protocol.MinRemoteIdleTimeout. *)
Definition parse_idle (adv : Z) : Z := Z.max rl_MinRemoteIdleTimeout adv.

Definition setHsComplete (s : st) : st :=
  {| cf := cf s; hsComplete := true; idleTimeout := idleTimeout s; kaInterval := kaInterval s;
     creation := creation s; lastRecv := lastRecv s; firstAE := firstAE s; kaSent := kaSent s;
     blocked := blocked s; pacing := pacing s; sentFirst := sentFirst s; closeErr := closeErr s |}.

Definition idleStart (s : st) : Z :=
  let t := firstAE s in
  if negb (t =? 0) && (lastRecv s <? t) then t else lastRecv s.

Definition idleEff (s : st) (pto : Z) : Z := Z.max (idleTimeout s) (pto * 3).

Definition nextIdle (s : st) (pto : Z) : Z := idleStart s + idleEff s pto.

Definition kaEff (s : st) (pto : Z) : Z := Z.max (kaInterval s) (pto * 3 / 2).

Definition nextKA (s : st) (pto : Z) : Z :=
  if (c_keepAlivePeriod (cf s) =? 0) || kaSent s then 0
  else lastRecv s + kaEff s pto.

(** [if t := ...; !t.IsZero() && t.Before(deadline) { deadline = t }] *)
Definition earlier_nz (t d : Z) : Z := if negb (t =? 0) && (t <? d) then t else d.

(** the base deadline: before the handshake completes the earlier of handshake timeout and handshake idle timeout;
    after it the idle timeout if sending is blocked, else the keep-alive time if there is one, else the idle timeout *)
Definition base_deadline (s : st) (pto : Z) : Z :=
  if negb (hsComplete s) then
    let d := creation s + hsTimeout (cf s) in
    let t := idleStart s + c_hsIdleTimeout (cf s) in
    if t <? d then t else d
  else if negb (blocked s =? rl_blockModeNone) then nextIdle s pto
  else let ka := nextKA s pto in
       if negb (ka =? 0) then ka else nextIdle s pto.

(** the sources that depend on whether (and how) sending is blocked *)
Definition arm (s : st) (d0 ackAlarm loss : Z) : Z :=
  if blocked s =? rl_blockModeHardBlocked then d0 else
  let d1 := earlier_nz ackAlarm d0 in
  let d2 := earlier_nz loss d1 in
  if blocked s =? rl_blockModeCongestionLimited then d2 else
  earlier_nz (pacing s) d2.

(** [retire] = connIDGenerator.NextRetireTime(): the earliest pending expiry of a retired connection ID's grace
    period, 0 when nothing waits (oracle input). Removing the ID sends nothing, so this source applies in every block
    mode, before and after the handshake: it is taken BEFORE the hard-blocked early return. *)
Definition maybeResetTimer (s : st) (pto retire ackAlarm loss : Z) : Z :=
  arm s (earlier_nz retire (base_deadline s pto)) ackAlarm loss.

(** the branch taken in run() after a wake-up at [now] (after loss detection) *)
Inductive decision := DKeepAlive | DHandshakeTimeout | DIdleTimeout | DContinue.

Definition decide (s : st) (now pto : Z) : decision :=
  let ka := nextKA s pto in
  if negb (ka =? 0) && (ka <=? now) then DKeepAlive
  else if negb (hsComplete s) && (hsTimeout (cf s) <=? now - creation s) then DHandshakeTimeout
  else if (negb (hsComplete s) && (c_hsIdleTimeout (cf s) <=? now - idleStart s))
          || (hsComplete s && (nextIdle s pto <=? now)) then DIdleTimeout
  else DContinue.

(** * Events of the run loop that touch the timer state *)
Inductive ev :=
| EvRecv (t : Z)              (* a packet was unpacked: handleUnpacked{Long,Short}HeaderPacket *)
| EvSentAE (now : Z)          (* an ack-eliciting packet was registered as sent *)
| EvWake (now pto : Z)        (* the loop passes the timeout checks at [now] *)
| EvHsComplete (peerIdle peerAdv : Z) (* client: handshake complete + applyTransportParams in one go *)
| EvTP (peerIdle peerAdv : Z)         (* server: applyTransportParams when the parameters arrive ... *)
| EvHsDone                            (* ... handshake complete later *)
| EvBlocked (mode : Z)        (* triggerSending set the block mode *)
| EvClose (e : closeError).   (* a close request from anywhere *)

Definition step (s : st) (e : ev) : st :=
  match e with
  | EvRecv t => upd_timers s t 0 false rl_blockModeNone
  | EvSentAE now => if firstAE s =? 0 then upd_timers s (lastRecv s) now (kaSent s) (blocked s) else s
  | EvWake now pto =>
    match closeErr s with
    | Some _ => s (* the loop has left *)
    | None =>
      match decide s now pto with
      | DKeepAlive => upd_timers s (lastRecv s) (firstAE s) true (blocked s)
      | DHandshakeTimeout => destroyImpl s EHsTimeout
      | DIdleTimeout => destroyImpl s EIdle
      | DContinue => s
      end
    end
  | EvHsComplete p a => setHsComplete (applyTP s p a)
  | EvTP p a => applyTP s p a
  | EvHsDone => setHsComplete s
  | EvBlocked m => upd_timers s (lastRecv s) (firstAE s) (kaSent s) m
  | EvClose ce => setCloseError s ce
  end.

Definition run (s : st) (l : list ev) : st := fold_left step l s.

(** * closedLocalConn: reply to the n-th packet (n = counter after Add(1), uint32) iff OnesCount32(n) == 1 *)
Fixpoint popcount_pos (p : positive) : nat :=
  match p with
  | xH => 1
  | xO q => popcount_pos q
  | xI q => S (popcount_pos q)
  end.
Definition popcount (n : Z) : nat := match n with Zpos p => popcount_pos p | _ => 0%nat end.
Definition closed_reply (n : Z) : bool := Nat.eqb (popcount (n mod 2 ^ 32)) 1.

(** replies to packets start+1 .. start+k *)
Fixpoint closed_replies (start : Z) (k : nat) : list bool :=
  match k with
  | O => []
  | S k' => closed_reply (start + 1) :: closed_replies (start + 1) k'
  end.

(** * Fan-out to the API objects *)

(** results of API calls, by class *)
Inductive res :=
| RErr (e : errk)     (* the connection's close error *)
| REOF                (* io.EOF: stream was read to its end *)
| RStreamErr          (* the stream's own reset / cancellation error *)
| RClosedStream       (* "write on closed stream" *)
| ROk                 (* progress: data / a stream / a datagram *)
| RBlock.             (* would park *)

Record rstream := {     (* ReceiveStream *)
  r_eof : bool;         (* currentFrameIsLast && currentFrame == nil *)
  r_cancelErr : bool;   (* cancelErr != nil: CancelRead, RESET_STREAM or RESET_STREAM_AT seen (effective or not) *)
  r_cancel : bool;      (* cancelledLocally || isRemoteCancellationEffective(): a RESET_STREAM_AT whose reliable
                           part has not been read completely is NOT effective yet — Read waits for the rest *)
  r_shutdown : option errk;
  r_data : bool }.      (* a frame is available *)
Record sstream := {     (* SendStream *)
  s_reset : bool;       (* resetErr != nil *)
  s_shutdown : option errk;
  s_finished : bool;    (* finishedWriting *)
  s_room : bool }.      (* the write can be buffered completely *)

(** closeForShutdown records the error UNCONDITIONALLY — in particular also when cancelErr is set *)
Definition r_closeForShutdown (r : rstream) (e : errk) : rstream :=
  {| r_eof := r_eof r; r_cancelErr := r_cancelErr r; r_cancel := r_cancel r; r_shutdown := Some e; r_data := r_data r |}.
(** a variant that leaves a stream with a cancellation error alone (what seeded change C17-d does) *)
Definition r_closeForShutdown_unless_cancelled (r : rstream) (e : errk) : rstream :=
  if r_cancelErr r then r else r_closeForShutdown r e.
Definition s_closeForShutdown (s : sstream) (e : errk) : sstream :=
  match s_shutdown s with
  | None => if s_finished s then s
            else {| s_reset := s_reset s; s_shutdown := Some e; s_finished := false; s_room := s_room s |}
  | Some _ => s
  end.

(** ReceiveStream.readImpl: entry checks, then the wait loop *)
Definition r_read (r : rstream) : res :=
  if r_eof r then REOF
  else if r_cancel r then RStreamErr
  else match r_shutdown r with
       | Some e => RErr e
       | None => if r_data r then ROk else RBlock
       end.
(** SendStream.write *)
Definition s_write (s : sstream) : res :=
  if s_reset s then RStreamErr
  else match s_shutdown s with
       | Some e => RErr e
       | None => if s_finished s then RClosedStream else if s_room s then ROk else RBlock
       end.

Record api := {
  a_mapErr : option errk;        (* closeErr of the four stream maps *)
  a_dgErr : option errk;         (* datagramQueue closed with *)
  a_rstreams : list rstream;
  a_sstreams : list sstream;
  a_canOpen : bool;              (* nextStream <= maxStream and no queued OpenStreamSync *)
  a_canAccept : bool;            (* next stream to accept exists *)
  a_rcvQueued : bool;            (* a received datagram is queued *)
  a_sendRoom : bool }.           (* datagram send queue below its limit *)

(** streamsMap.CloseWithError(e); datagramQueue.CloseWithError(e) *)
Definition fanout (a : api) (e : errk) : api :=
  {| a_mapErr := Some e; a_dgErr := Some e;
     a_rstreams := map (fun r => r_closeForShutdown r e) (a_rstreams a);
     a_sstreams := map (fun s => s_closeForShutdown s e) (a_sstreams a);
     a_canOpen := a_canOpen a; a_canAccept := a_canAccept a; a_rcvQueued := a_rcvQueued a; a_sendRoom := a_sendRoom a |}.

Inductive call :=
| COpenStream | COpenStreamSync | COpenUniStream | COpenUniStreamSync
| CAcceptStream | CAcceptUniStream
| CReceiveDatagram | CSendDatagram
| CRead (i : nat) | CWrite (i : nat).

Definition api_call (a : api) (c : call) : res :=
  match c with
  | COpenStream | COpenUniStream =>
    match a_mapErr a with Some e => RErr e | None => if a_canOpen a then ROk else RStreamErr (* StreamLimitReachedError *) end
  | COpenStreamSync | COpenUniStreamSync =>
    match a_mapErr a with Some e => RErr e | None => if a_canOpen a then ROk else RBlock end
  | CAcceptStream | CAcceptUniStream =>
    match a_mapErr a with Some e => RErr e | None => if a_canAccept a then ROk else RBlock end
  | CReceiveDatagram =>
    if a_rcvQueued a then ROk else match a_dgErr a with Some e => RErr e | None => RBlock end
  | CSendDatagram =>
    (* datagramQueue.Add: fails once the queue is closed; else queues while there is room *)
    match a_dgErr a with Some e => RErr e | None => if a_sendRoom a then ROk else RBlock end
  | CRead i => match nth_error (a_rstreams a) i with Some r => r_read r | None => RBlock end
  | CWrite i => match nth_error (a_sstreams a) i with Some s => s_write s | None => RBlock end
  end.

(** * Parked goroutines and how the fan-out wakes them

    Any number of goroutines may be parked in the same call (several AcceptStream callers, several
    OpenStreamSync waiters, several ReceiveDatagram callers ...): the parked set is a LIST of calls in which
    a call may occur any number of times. What wakes them when the connection ends:
      incoming maps   close(m.newStreamChan)                 a closed channel wakes every waiter
      outgoing maps   every waiter's own channel in openQueue is closed
      datagram queue  close(h.closed)
      streams         signalRead / signalWrite: one token in a 1-slot channel — wakes ONE goroutine; the API
                      allows one reader (writer) per stream at a time (Write is serialised by writeOnce) *)
Inductive wakeup := WakeAll | WakeOne.

Definition close_wakeup (c : call) : wakeup :=
  match c with
  | CRead _ | CWrite _ => WakeOne
  | _ => WakeAll
  end.

Definition call_eq_dec : forall c d : call, {c = d} + {c <> d}.
Proof. decide equality; apply Nat.eq_dec. Defined.

(** the parked calls that are woken, for a wake-up primitive [wk] per call: a token serves the first waiter on
    that object only *)
Fixpoint woken_from (wk : call -> wakeup) (served : list call) (ps : list call) : list call :=
  match ps with
  | [] => []
  | p :: r =>
    match wk p with
    | WakeAll => p :: woken_from wk served r
    | WakeOne => if in_dec call_eq_dec p served then woken_from wk served r
                 else p :: woken_from wk (p :: served) r
    end
  end.
Definition woken (ps : list call) : list call := woken_from close_wakeup [] ps.

(** at most one goroutine parked per stream direction *)
Definition one_per_stream (ps : list call) : Prop :=
  NoDup (filter (fun c => match close_wakeup c with WakeOne => true | WakeAll => false end) ps).

(** * The CONNECTION_CLOSE frame per encryption level (packetPacker.packConnectionClose)

    One frame is packed for every level the endpoint has send keys for (Initial, Handshake, 0-RTT at the client,
    1-RTT), coalesced. Application errors are not sent in Initial or Handshake packets: there the frame becomes a
    transport CONNECTION_CLOSE with APPLICATION_ERROR and an empty reason phrase (RFC 9000 10.2.3). *)
Inductive enclevel := LInitial | LHandshake | L0RTT | L1RTT.
Definition frame_at (l : enclevel) (f : bool * Z) : bool * Z :=
  let '(isApp, code) := f in
  match l with
  | LInitial | LHandshake => if isApp then (false, rl_ApplicationErrorErrorCode) else (isApp, code)
  | _ => (isApp, code)
  end.

(** * How run() ends, and what is left in the transport's routing table

    If cryptoStreamHandler.StartHandshake (or the first handleHandshakeEvents) fails, run() calls
    destroyImpl(err) and goes on: the loop is left in its first iteration and handleCloseError runs like
    for every other close (nothing is sent, the connection IDs are removed, streams and datagram queue
    are closed, the timer is stopped). *)
Definition start_failure (e : errk) : closeError := {| ce_err := e; ce_immediate := true |}.

(** routing entry kind of the connection's IDs [elapsed] after run() returned (expiry = 3 PTO):
    0 none, 1 closedLocalConn, 2 closedRemoteConn *)
Definition exit_routing (client sentFirstPacket ampl : bool) (ce : closeError) (elapsed expiry : Z) : Z :=
  if expiry <=? elapsed then 0 else routing_after (close_action client sentFirstPacket ampl ce).
(** what the API objects were closed with *)
Definition exit_fanout (ce : closeError) : errk := mapped_err ce.

(** handleCloseError closes the datagram queue whenever it exists — always: preSetup allocates it whatever
    Config.EnableDatagrams says, because SendDatagram is gated on the PEER's max_datagram_frame_size, not on the own
    flag. A fan-out that closes the queue only if the own flag is set (seeded change C17-f): *)
Definition fanout_dg_if_enabled (enableDatagrams : bool) (a : api) (e : errk) : api :=
  let f := fanout a e in
  if enableDatagrams then f else
  {| a_mapErr := a_mapErr f; a_dgErr := a_dgErr a; a_rstreams := a_rstreams f; a_sstreams := a_sstreams f;
     a_canOpen := a_canOpen f; a_canAccept := a_canAccept f; a_rcvQueued := a_rcvQueued f; a_sendRoom := a_sendRoom f |}.

(** * The connection as a whole: run loop, API objects, parked goroutines

    Links the run loop's recorded close error to the fan-out: run() can leave its loop only with a recorded close error,
    and then calls handleCloseError exactly once, which closes every API object with the MAPPED error and wakes the
    goroutines parked in API calls. A parked call is a continuation: once woken it re-evaluates its wait condition
    on the new state of its object (that is what the loops in AcceptStream / OpenStreamSync / readImpl / write /
    datagramQueue.Receive / Add do) and either returns or parks again. *)
Fixpoint unwoken_from (wk : call -> wakeup) (served : list call) (ps : list call) : list call :=
  match ps with
  | [] => []
  | p :: r =>
    match wk p with
    | WakeAll => unwoken_from wk served r
    | WakeOne => if in_dec call_eq_dec p served then p :: unwoken_from wk served r
                 else unwoken_from wk (p :: served) r
    end
  end.

Record conn := {
  k_st : st;
  k_api : api;
  k_parked : list call;              (* goroutines parked in an API call *)
  k_returned : list (call * res);    (* what parked goroutines were handed when they were woken *)
  k_exited : bool }.                 (* run() has left its loop and handleCloseError has run *)

Inductive cev :=
| CLoop (e : ev)     (* an event of the run loop (none is processed after the loop has been left) *)
| CCall (c : call)   (* a goroutine calls into the API *)
| CExit.             (* run() leaves its loop and runs handleCloseError: only with a recorded close error, only once *)

Definition is_blocked (r : res) : bool := match r with RBlock => true | _ => false end.

(** immediate result of a call event: [None] = the goroutine parks (or the event is not a call) *)
Definition cstep (k : conn) (e : cev) : conn * option res :=
  match e with
  | CLoop e' =>
    if k_exited k then (k, None)
    else ({| k_st := step (k_st k) e'; k_api := k_api k; k_parked := k_parked k; k_returned := k_returned k; k_exited := false |}, None)
  | CCall c =>
    let r := api_call (k_api k) c in
    if is_blocked r then
      (* one goroutine per stream direction (API contract; Write is serialised by writeOnce): a second concurrent
         Read / Write on the same stream is not modelled *)
      match close_wakeup c with
      | WakeOne => if in_dec call_eq_dec c (k_parked k) then (k, None)
                   else ({| k_st := k_st k; k_api := k_api k; k_parked := k_parked k ++ [c]; k_returned := k_returned k; k_exited := k_exited k |}, None)
      | WakeAll => ({| k_st := k_st k; k_api := k_api k; k_parked := k_parked k ++ [c]; k_returned := k_returned k; k_exited := k_exited k |}, None)
      end
    else (k, Some r)
  | CExit =>
    match closeErr (k_st k), k_exited k with
    | Some ce, false =>
      let a' := fanout (k_api k) (mapped_err ce) in
      let w := woken (k_parked k) in
      ({| k_st := k_st k; k_api := a';
          k_parked := unwoken_from close_wakeup [] (k_parked k) ++ filter (fun c => is_blocked (api_call a' c)) w;
          k_returned := k_returned k ++ map (fun c => (c, api_call a' c)) (filter (fun c => negb (is_blocked (api_call a' c))) w);
          k_exited := true |}, None)
    | _, _ => (k, None)
    end
  end.

Definition crun (k : conn) (l : list cev) : conn := fold_left (fun k e => fst (cstep k e)) l k.

Definition conn_init (s : st) (a : api) : conn :=
  {| k_st := s; k_api := a; k_parked := []; k_returned := []; k_exited := false |}.
