(** Proofs about the EarlyData model (C13 d). *)
From Coq Require Import List ZArith Bool Lia.
From V Require Import EarlyData.Model.
Import ListNotations.
Open Scope Z_scope.

Definition all_gen1 (l : list frame) : Prop := forall f, In f l -> fgen f = 1.
Definition pkts_ok (l : list packet) : Prop :=
  forall n lv fs, In (n, lv, fs) l -> lv = L1 -> all_gen1 fs.
Definition pkts_l0 (l : list packet) : Prop := forall n lv fs, In (n, lv, fs) l -> lv = L0.

Lemma find_pkt_In pn l p : find_pkt pn l = Some p -> In p l.
Proof.
  induction l as [|[[n lv] fs] r IH]; simpl; [discriminate|].
  destruct (n =? pn); intros H; [inversion H; left; reflexivity | right; apply IH; exact H].
Qed.

Lemma del_pkt_In pn l p : In p (del_pkt pn l) -> In p l.
Proof.
  induction l as [|[[n lv] fs] r IH]; simpl; [auto|].
  destruct (n =? pn); [intros H; right; apply IH; exact H|].
  intros [H|H]; [left; exact H | right; apply IH; exact H].
Qed.

Lemma only_l1_In p l : In p (only_l1 l) -> In p l /\ exists n fs, p = (n, L1, fs).
Proof.
  unfold only_l1. intros H. apply filter_In in H. destruct H as (I & E). split; [exact I|].
  destruct p as [[n lv] fs]. destruct lv; [discriminate|]. eauto.
Qed.

Lemma firstn_In {A} k (l : list A) x : In x (firstn k l) -> In x l.
Proof. revert l; induction k; intros [|y r]; simpl; try tauto. intros [H|H]; auto. Qed.
Lemma skipn_In {A} k (l : list A) x : In x (skipn k l) -> In x l.
Proof. revert l; induction k; intros [|y r]; simpl; try tauto. intros H; right; auto. Qed.

(** invariant when the server does not accept early data *)
Definition inv_rej (s : est) : Prop :=
  all_gen1 (srv s) /\ pkts_ok (wire s) /\ pkts_ok (hist s) /\
  (decided s = None \/ (decided s = Some false /\ gen s = 1 /\ all_gen1 (queued s))) /\
  (decided s <> None -> forall n lv fs, In (n, lv, fs) (hist s) -> lv = L1).

Lemma inv_rej_e0 : inv_rej e0.
Proof.
  unfold inv_rej, e0, all_gen1, pkts_ok. simpl.
  split; [intros f []|]. split; [intros n lv fs []|]. split; [intros n lv fs []|].
  split; [left; reflexivity | intros _ n lv fs []].
Qed.

Lemma all_gen1_app a b : all_gen1 a -> all_gen1 b -> all_gen1 (a ++ b).
Proof. intros A B f I. apply in_app_or in I. destruct I; auto. Qed.

Lemma pkts_ok_app l p : pkts_ok l -> (forall n lv fs, p = (n, lv, fs) -> lv = L1 -> all_gen1 fs) -> pkts_ok (l ++ [p]).
Proof.
  intros A B n lv fs I E. apply in_app_or in I. destruct I as [I|[I|[]]].
  - eapply A; eauto.
  - eapply B; eauto.
Qed.

Lemma inv_rej_step s o : inv_rej s -> inv_rej (estep false s o).
Proof.
  intros (S & W & H & D & F). destruct o as [sid off len|pn k|pn|pn|b]; simpl.
  - (* write *)
    unfold inv_rej; simpl. split; [exact S|]. split; [exact W|]. split; [exact H|]. split; [|exact F].
    destruct D as [D|(D & G & Q)]; [left; exact D|]. right. split; [exact D|]. split; [exact G|].
    apply all_gen1_app; [exact Q|]. intros f [I|[]]. subst f. simpl. exact G.
  - (* pack *)
    destruct D as [D|(D & G & Q)].
    + rewrite D. unfold inv_rej; simpl. split; [exact S|].
      split; [apply pkts_ok_app; [exact W|]; intros n lv fs E L; inversion E; subst; discriminate|].
      split; [apply pkts_ok_app; [exact H|]; intros n lv fs E L; inversion E; subst; discriminate|].
      split; [left; reflexivity | intros N; congruence].
    + rewrite D.
      assert (P : forall n lv fs, (pn, L1, firstn k (queued s)) = (n, lv, fs) -> lv = L1 -> all_gen1 fs).
      { intros n lv fs E _. inversion E; subst. intros f I. apply Q. eapply firstn_In; eauto. }
      unfold inv_rej; simpl. split; [exact S|].
      split; [apply pkts_ok_app; auto|]. split; [apply pkts_ok_app; auto|].
      split.
      * right. split; [reflexivity|]. split; [exact G|]. intros f I. apply Q. eapply skipn_In; eauto.
      * intros _ n lv fs I. apply in_app_or in I. destruct I as [I|[I|[]]].
        -- eapply F; eauto. congruence.
        -- inversion I; reflexivity.
  - (* lost *)
    destruct (find_pkt pn (hist s)) as [[[n lv] fs]|] eqn:E; [|unfold inv_rej; auto].
    pose proof (find_pkt_In _ _ _ E) as I.
    unfold inv_rej; simpl. split; [exact S|]. split; [exact W|].
    split; [intros n' lv' fs' J L; eapply H; eauto; eapply del_pkt_In; eauto|].
    split.
    + destruct D as [D|(D & G & Q)]; [left; exact D|]. right. split; [exact D|]. split; [exact G|].
      apply all_gen1_app; [exact Q|]. eapply H; eauto. eapply F; eauto. congruence.
    + intros N n' lv' fs' J. eapply F; eauto. eapply del_pkt_In; eauto.
  - (* deliver *)
    destruct (find_pkt pn (wire s)) as [[[n lv] fs]|] eqn:E; [|unfold inv_rej; auto].
    pose proof (find_pkt_In _ _ _ E) as I.
    destruct lv; simpl; [unfold inv_rej; auto|].
    unfold inv_rej; simpl. split; [|auto]. apply all_gen1_app; [exact S|]. eapply W; eauto.
  - (* the answer arrives *)
    destruct (decided s) eqn:E; [unfold inv_rej; rewrite E; auto|].
    destruct b; simpl; [unfold inv_rej; rewrite E; auto|].
    unfold inv_rej; simpl. split; [exact S|]. split; [exact W|].
    split; [intros n lv fs I L; apply only_l1_In in I; destruct I as (I & _); eapply H; eauto|].
    split; [right; split; [reflexivity|]; split; [reflexivity|]; intros f []|].
    intros _ n lv fs I. apply only_l1_In in I. destruct I as (_ & n' & fs' & Ep). inversion Ep; reflexivity.
Qed.

Lemma inv_rej_run ops : forall s, inv_rej s -> inv_rej (erun false s ops).
Proof.
  induction ops as [|o r IH]; intros s I; [exact I|]. simpl. apply IH. apply inv_rej_step. exact I.
Qed.

(** C13 (d), rejected: whatever the application writes, whatever is lost, re-sent, duplicated or delayed on the wire,
    a server that rejects early data hands its application only stream frames that were written AFTER the
    rejection (on the new stream maps, i.e. re-sent by the application as 1-RTT data): none of the 0-RTT bytes. *)
Lemma reject_clean ops : forall f, In f (srv (erun false e0 ops)) -> fgen f = 1.
Proof. destruct (inv_rej_run ops e0 inv_rej_e0) as (S & _). exact S. Qed.

(** ... and before the rejection reaches the client nothing at all is handed over. *)
Lemma reject_nothing_before ops : decided (erun false e0 ops) = None -> srv (erun false e0 ops) = [].
Proof.
  assert (G : forall ops s, decided (erun false s ops) = None -> decided s = None /\ (srv s = [] -> (forall n lv fs, In (n, lv, fs) (wire s) -> lv = L0) -> srv (erun false s ops) = [])).
  { induction ops0 as [|o r IH]; intros s D; [simpl in *; auto|].
    simpl in D. destruct (IH _ D) as (D1 & K).
    assert (D0 : decided s = None).
    { destruct o; simpl in D1; auto.
      - destruct (find_pkt pn (hist s)) as [[[? ?] ?]|]; auto.
      - destruct (find_pkt pn (wire s)) as [[[? []] ?]|]; auto.
      - destruct (decided s) eqn:E; [simpl in D1; congruence | reflexivity]. }
    split; [exact D0|]. intros S W. simpl. apply K.
    - destruct o; simpl; auto.
      + destruct (find_pkt pn (hist s)) as [[[? ?] ?]|]; auto.
      + destruct (find_pkt pn (wire s)) as [[[n lv] fs]|] eqn:E; auto.
        pose proof (W _ _ _ (find_pkt_In _ _ _ E)). subst lv. simpl. exact S.
      + rewrite D0. destruct b; simpl; exact S.
    - destruct o; simpl; auto.
      + rewrite D0. intros n lv fs I. apply in_app_or in I. destruct I as [I|[I|[]]]; [eapply W; eauto|]. inversion I; reflexivity.
      + destruct (find_pkt pn (hist s)) as [[[? ?] ?]|]; auto.
      + destruct (find_pkt pn (wire s)) as [[[? []] ?]|]; auto.
      + rewrite D0. destruct b; simpl; exact W. }
  intros D. destruct (G ops e0 D) as (_ & K). apply K; [reflexivity | intros n lv fs []].
Qed.

(** whatever the server decides: it only ever hands over frames the client application wrote *)
Definition inv_written (s : est) : Prop :=
  (forall f, In f (srv s) -> In f (written s)) /\ (forall f, In f (queued s) -> In f (written s)) /\
  (forall n lv fs f, In (n, lv, fs) (wire s) -> In f fs -> In f (written s)) /\
  (forall n lv fs f, In (n, lv, fs) (hist s) -> In f fs -> In f (written s)).

Lemma inv_written_step a s o : inv_written s -> inv_written (estep a s o).
Proof.
  intros (S & Q & W & H). destruct o as [sid off len|pn k|pn|pn|b]; simpl.
  - unfold inv_written; simpl. split; [intros f I; apply in_or_app; left; auto|].
    split; [intros f I; apply in_app_or in I; apply in_or_app; destruct I; [left; auto | right; auto]|].
    split; intros n lv fs f I J; apply in_or_app; left; eauto.
  - unfold inv_written; simpl. split; [exact S|]. split; [intros f I; apply Q; eapply skipn_In; eauto|].
    split; intros n lv fs f I J; apply in_app_or in I; destruct I as [I|[I|[]]]; eauto;
      inversion I; subst; apply Q; eapply firstn_In; eauto.
  - destruct (find_pkt pn (hist s)) as [[[n lv] fs]|] eqn:E; [|unfold inv_written; auto].
    pose proof (find_pkt_In _ _ _ E) as I. unfold inv_written; simpl. split; [exact S|].
    split; [intros f J; apply in_app_or in J; destruct J; eauto|]. split; [exact W|].
    intros n' lv' fs' f J K. apply (H n' lv' fs' f); [eapply del_pkt_In; exact J | exact K].
  - destruct (find_pkt pn (wire s)) as [[[n lv] fs]|] eqn:E; [|unfold inv_written; auto].
    pose proof (find_pkt_In _ _ _ E) as I.
    destruct (lvl_eqb lv L1 || a); [|unfold inv_written; auto].
    unfold inv_written; simpl. split; [|auto]. intros f J. apply in_app_or in J. destruct J; eauto.
  - destruct (decided s); [unfold inv_written; auto|].
    destruct (negb (Bool.eqb b a)); [unfold inv_written; auto|].
    destruct b; unfold inv_written; simpl; [auto|].
    split; [exact S|]. split; [intros f []|]. split; [exact W|].
    intros n lv fs f I J. apply only_l1_In in I. destruct I as (I & _). eauto.
Qed.

Lemma only_written a ops : forall f, In f (srv (erun a e0 ops)) -> In f (written (erun a e0 ops)).
Proof.
  assert (G : forall ops s, inv_written s -> inv_written (erun a s ops)).
  { induction ops0 as [|o r IH]; intros s I; [exact I|]. simpl. apply IH. apply inv_written_step. exact I. }
  assert (I0 : inv_written e0) by (unfold inv_written, e0; simpl; repeat split; intros; contradiction).
  destruct (G ops e0 I0) as (S & _). exact S.
Qed.
