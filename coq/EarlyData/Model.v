(** EarlyData — which stream bytes a server application can ever be handed when a client uses 0-RTT:
    the client's rejection path of /repo (connection.go dropEncryptionLevel(0-RTT): sent packet handler
    DropPackets(0-RTT) forgets the 0-RTT packets WITHOUT declaring them lost, streamsMap.ResetFor0RTT closes
    every stream and starts new stream maps, framer.Handle0RTTRejection empties the send queues), loss recovery
    (OnLost puts the frames of a lost packet back into the send queues), and the server's key availability
    (0-RTT packets can be opened iff the server accepted early data).

    Abstract, proof-level model: it is NOT replayed against the code case by case (qlog does not expose stream
    payloads); its tie to the code are the simhandshake 0-RTT scenarios and monitors. *)
From Coq Require Import List ZArith Bool.
Import ListNotations.
Open Scope Z_scope.

Inductive lvl := L0 | L1.                 (* 0-RTT / 1-RTT packet protection *)
Definition lvl_eqb (a b : lvl) : bool := match a, b with L0, L0 | L1, L1 => true | _, _ => false end.

(** a STREAM frame: generation of the stream maps it was written under (0 = before a rejection, 1 = after
    ResetFor0RTT, i.e. through NextConnection), stream ID, offset, length *)
Definition frame := (Z * Z * Z * Z)%type.
Definition fgen (f : frame) : Z := match f with (g, _, _, _) => g end.

Definition packet := (Z * lvl * list frame)%type.   (* packet number, level, frames *)

Record est := mkE {
  decided : option bool;       (* None: no answer yet; Some true: 0-RTT accepted; Some false: rejected *)
  gen : Z;
  queued : list frame;         (* stream / framer send queues *)
  hist : list packet;          (* sent packet history (outstanding packets) *)
  wire : list packet;          (* everything ever put on the wire: may arrive at any time, any number of times *)
  written : list frame;        (* ghost: everything the application ever wrote *)
  srv : list frame             (* frames handed to the server's stream layer *)
}.

Definition e0 : est := mkE None 0 [] [] [] [] [].

Inductive eop :=
| EWrite (sid off len : Z)     (* application writes on a stream of the current generation *)
| EPack (pn : Z) (k : nat)     (* the first k queued frames go out in packet pn *)
| ELost (pn : Z)               (* loss detection declares packet pn lost *)
| EDeliver (pn : Z)            (* a copy of packet pn reaches the server *)
| EDecide (b : bool).          (* the server's answer to the 0-RTT offer arrives (EncryptedExtensions) *)

Fixpoint find_pkt (pn : Z) (l : list packet) : option packet :=
  match l with
  | [] => None
  | (n, lv, fs) :: r => if n =? pn then Some (n, lv, fs) else find_pkt pn r
  end.
Fixpoint del_pkt (pn : Z) (l : list packet) : list packet :=
  match l with
  | [] => []
  | (n, lv, fs) :: r => if n =? pn then del_pkt pn r else (n, lv, fs) :: del_pkt pn r
  end.
Definition only_l1 (l : list packet) : list packet :=
  filter (fun p => match p with (_, lv, _) => lvl_eqb lv L1 end) l.

Section WithServer.
Variable srvAccept : bool.     (* does the server accept early data (TLS tells the client the truth) *)

Definition estep (s : est) (o : eop) : est :=
  match o with
  | EWrite sid off len =>
      let f := (gen s, sid, off, len) in
      mkE (decided s) (gen s) (queued s ++ [f]) (hist s) (wire s) (written s ++ [f]) (srv s)
  | EPack pn k =>
      let lv := match decided s with None => L0 | Some _ => L1 end in
      let p := (pn, lv, firstn k (queued s)) in
      mkE (decided s) (gen s) (skipn k (queued s)) (hist s ++ [p]) (wire s ++ [p]) (written s) (srv s)
  | ELost pn =>
      match find_pkt pn (hist s) with
      | Some (_, _, fs) => mkE (decided s) (gen s) (queued s ++ fs) (del_pkt pn (hist s)) (wire s) (written s) (srv s)
      | None => s
      end
  | EDeliver pn =>
      match find_pkt pn (wire s) with
      | Some (_, lv, fs) =>
          if lvl_eqb lv L1 || srvAccept
          then mkE (decided s) (gen s) (queued s) (hist s) (wire s) (written s) (srv s ++ fs)
          else s
      | None => s
      end
  | EDecide b =>
      match decided s with
      | Some _ => s
      | None =>
          if negb (Bool.eqb b srvAccept) then s
          else if b then mkE (Some true) (gen s) (queued s) (hist s) (wire s) (written s) (srv s)
          else (* rejection: forget the 0-RTT packets (no OnLost), close all streams, empty the queues, new maps *)
               mkE (Some false) 1 [] (only_l1 (hist s)) (wire s) (written s) (srv s)
      end
  end.

Definition erun (s : est) (ops : list eop) : est := fold_left estep ops s.

End WithServer.
