(** C13 (d) on the tied unit models: the client's 0-RTT rejection path, composed (proof-level) from
    - V.SentPH.Model (C06, unit sentph): sentPacketHandler.DropPackets(0-RTT) forgets the 0-RTT packets without
      reporting their frames lost or acknowledged, and
    - V.SendStream.Model (C01, unit sendstream): a send stream re-emits data only in answer to an OnLost callback
      (queueRetransmission); SendStream.closeForShutdown is [do_shutdown].
    The two models meet at the callback interface: an OnLost callback logged by SentPH for a STREAM frame is the
    [OLost] op of that stream. Nothing is re-modelled here. *)
From Coq Require Import List ZArith Bool Lia.
From V Require Import Gen.Params.
From V Require SentPH.Model SentPH.ProofsHist SentPH.ProofsBase SentPH.ProofsOps2 SentPH.ProofsOps3 SentPH.ProofsMain.
From V Require SendStream.Model.
Import ListNotations.
Open Scope Z_scope.

Module PH.
Import SentPH.Model SentPH.ProofsHist SentPH.ProofsBase SentPH.ProofsOps2 SentPH.ProofsOps3 SentPH.ProofsMain.

Lemma grun_app ops1 : forall st D H ops2,
  grun st D H (ops1 ++ ops2) = let '(st1, D1, H1) := grun st D H ops1 in grun st1 D1 H1 ops2.
Proof.
  induction ops1 as [|oo r IH]; intros st D H ops2; [reflexivity|].
  simpl app. cbn [grun]. apply IH.
Qed.

Lemma grun_D_mono ops : forall st D H,
  exists X, snd (fst (grun st D H ops)) = D ++ X.
Proof.
  induction ops as [|oo r IH]; intros st D H; cbn [grun].
  - exists []. rewrite app_nil_r. reflexivity.
  - destruct (IH (fst (step st oo)) (D ++ discarded st oo) (H ++ handed st oo)) as (X & E).
    exists (discarded st oo ++ X). rewrite E, app_assoc. reflexivity.
Qed.

(** After DropPackets(0-RTT), in every continuation of the history: no frame of a dropped 0-RTT packet is ever
    reported lost (or acknowledged) and none is tracked any more — provided frame ids are not handed to SentPacket
    twice (NoDup: a re-sent frame would be a new frame, i.e. the application wrote again). *)
Theorem zero_rtt_reject_no_callback client validated ipn period maxPeriod rnd0 ops1 now orc ops2 :
  0 <= ipn ->
  let st1 := run (init client validated ipn period maxPeriod rnd0) ops1 in
  executed st1 (ODrop sph_Enc0RTT now) = true ->
  let '(st, D, H) := history_from client validated ipn period maxPeriod rnd0 (ops1 ++ (ODrop sph_Enc0RTT now, orc) :: ops2) in
  NoDup H ->
  forall id, In id (ids_of (take0rtt (pk st1 SA))) ->
    cntcb id (sCbs st) = 0 /\ ~ In id (tracked_ids st).
Proof.
  intros Hi st1 Hex.
  pose proof (exactly_once client validated ipn period maxPeriod rnd0 (ops1 ++ (ODrop sph_Enc0RTT now, orc) :: ops2) Hi) as X.
  unfold history_from in *. rewrite grun_app in *.
  pose proof (grun_run (init client validated ipn period maxPeriod rnd0) [] [] ops1) as R.
  destruct (grun (init client validated ipn period maxPeriod rnd0) [] [] ops1) as [[sa D1] H1] eqn:E1.
  cbn [fst] in R. fold st1 in R. subst sa.
  cbn [grun] in *.
  assert (Ed : discarded st1 (ODrop sph_Enc0RTT now, orc) = ids_of (take0rtt (pk st1 SA))).
  { unfold discarded. cbn [fst]. rewrite Hex. unfold drop_discarded.
    assert (A : (sph_Enc0RTT =? sph_EncInitial) = false) by reflexivity.
    assert (B : (sph_Enc0RTT =? sph_EncHandshake) = false) by reflexivity.
    rewrite A, B, Z.eqb_refl. reflexivity. }
  rewrite Ed in *.
  destruct (grun_D_mono ops2 (fst (step st1 (ODrop sph_Enc0RTT now, orc))) (D1 ++ ids_of (take0rtt (pk st1 SA)))
              (H1 ++ handed st1 (ODrop sph_Enc0RTT now, orc))) as (Y & EY).
  destruct (grun (fst (step st1 (ODrop sph_Enc0RTT now, orc))) (D1 ++ ids_of (take0rtt (pk st1 SA)))
              (H1 ++ handed st1 (ODrop sph_Enc0RTT now, orc)) ops2) as [[st D] H].
  cbn [fst snd] in EY. subst D.
  intros Hnd id Hin. specialize (X id).
  pose proof (cnt_NoDup id H Hnd) as N.
  rewrite !cnt_app in X.
  pose proof (cnt_In_pos _ _ Hin) as P.
  pose proof (cnt_nonneg id D1). pose proof (cnt_nonneg id Y). pose proof (cnt_nonneg id (tracked_ids st)).
  pose proof (cnt_nonneg id (map fst (sCbs st))) as C. unfold cntcb in *.
  split; [lia|]. intros T. pose proof (cnt_In_pos _ _ T). lia.
Qed.
End PH.

Module SS.
Import SendStream.Model.

Definition not_lost (o : op) : bool := match o with OLost _ => false | _ => true end.
Definition Rk (s s' : state) : Prop :=
  retransQ s' = [] /\ exists X, emitted s' = emitted s ++ X /\ emittedNew s' = emittedNew s ++ X.
Definition S3 (s s' : state) : Prop :=
  retransQ s' = retransQ s /\ emitted s' = emitted s /\ emittedNew s' = emittedNew s.

Ltac brk := repeat match goal with
  | |- context [if ?b then _ else _] => destruct b
  | |- context [match ?x with _ => _ end] => destruct x
  end.
Ltac fin R := unfold Rk; simpl; rewrite ?R; simpl;
  first [ split; [reflexivity | exists []; rewrite !app_nil_r; split; reflexivity]
        | split; [reflexivity | eexists; split; reflexivity] ].

Lemma S3_getData mb s : S3 s (fst (getDataForWriting mb s)).
Proof. unfold getDataForWriting, S3. brk; simpl; repeat split. Qed.

Lemma S3_popNew mb mdl s : S3 s (fst (fst (popNewStreamFrame mb mdl s))).
Proof.
  unfold popNewStreamFrame. destruct (nextFrame s) as [[o d]|].
  - unfold S3. brk; simpl; repeat split.
  - destruct (max_data_len (sid s) (writeOffset s) mb =? 0); [unfold S3; simpl; repeat split|].
    destruct (Z.min (Hex.zlen (dataForWriting s)) (Z.min (max_data_len (sid s) (writeOffset s) mb) mdl) >? ssMaxPacketBufferSize);
      [unfold S3; simpl; repeat split|].
    pose proof (S3_getData (Z.min (max_data_len (sid s) (writeOffset s) mb) mdl) s) as G.
    destruct (getDataForWriting (Z.min (max_data_len (sid s) (writeOffset s) mb) mdl) s) as [s1 data].
    simpl in G. destruct (isNil data); simpl; exact G.
Qed.

Lemma finish_new_emit mdl r more s1 f0 :
  exists f, retransQ (fst (finish_new mdl r more s1 f0)) = retransQ s1 /\
            emitted (fst (finish_new mdl r more s1 f0)) = emitted s1 ++ [f] /\
            emittedNew (fst (finish_new mdl r more s1 f0)) = emittedNew s1 ++ [f].
Proof.
  unfold finish_new, emit, isNewlyBlocked, addBytesSent. brk; simpl; eexists; repeat split.
Qed.

Lemma keep_pop mb s : retransQ s = [] -> Rk s (fst (do_pop mb s)).
Proof.
  intros R. unfold do_pop. destruct (shutdown s); [fin R|].
  destruct (isSome (resetErr s) && ((ro s =? 0) || (writeOffset s >=? ro s) && isNil (retransQ s))); [fin R|].
  rewrite R.
  destruct (isNil (dataForWriting s) && negb (isSome (nextFrame s))).
  - destruct (finishedWriting s && negb (finSent s)); [|fin R].
    unfold emit. fin R.
  - destruct (sendWindowSize s =? 0); [fin R|].
    set (mdl := if isSome (resetErr s) && (0 <? ro s) then Z.min (sendWindowSize s) (ro s - writeOffset s) else sendWindowSize s).
    pose proof (S3_popNew mb mdl s) as P.
    destruct (popNewStreamFrame mb mdl s) as [[s1 fo] more]. simpl in P. destruct P as (P1 & P2 & P3).
    destruct fo as [f0|].
    + destruct (finish_new_emit mdl (ro s) more s1 f0) as (f & A & B & C).
      unfold Rk. rewrite A, B, C, P1, P2, P3, R. split; [reflexivity|]. exists [f]. split; reflexivity.
    + unfold Rk. simpl. rewrite P1, P2, P3, R. split; [reflexivity|]. exists []. rewrite !app_nil_r. split; reflexivity.
Qed.

Lemma keep_step o s : not_lost o = true -> retransQ s = [] -> Rk s (fst (step s o)).
Proof.
  intros N R. unfold step. destruct (panicked s) eqn:EP; [fin R|].
  destruct o; try discriminate.
  - unfold do_write, write_iter, newly_completed; brk; fin R.
  - unfold do_resume, write_iter, newly_completed; brk; fin R.
  - unfold do_close, newly_completed; brk; fin R.
  - apply keep_pop; exact R.
  - (unfold do_acked, dec_outstanding_then_complete, newly_completed; brk; fin R).
  - (unfold do_cancel, newly_completed, trunc_queue; brk; fin R).
  - (unfold do_stop; brk; fin R).
  - (unfold do_ctrl; brk; fin R).
  - (unfold do_racked, dec_outstanding_then_complete, newly_completed; brk; fin R).
  - (unfold do_rlost; brk; fin R).
  - (unfold do_win; brk; fin R).
  - (unfold do_cwin; brk; fin R).
  - (unfold do_rel; brk; fin R).
  - (unfold do_enable; brk; fin R).
  - (unfold do_shutdown; brk; fin R).
Qed.

Lemma Rk_trans a b c : Rk a b -> Rk b c -> Rk a c.
Proof.
  intros (_ & X & E1 & E2) (R & Y & F1 & F2). split; [exact R|].
  exists (X ++ Y). rewrite F1, F2, E1, E2, !app_assoc. split; reflexivity.
Qed.

(** A send stream with an empty retransmission queue that receives no OnLost callback never re-emits data: over any
    sequence of writes, closes, pops, acknowledgements, cancellations, STOP_SENDING, window updates and
    closeForShutdown (which leaves a stream whose writing side was already closed untouched), the retransmission queue
    stays empty and every frame that leaves the stream is new data (emitted and emittedNew grow by the same frames). *)
Theorem no_lost_no_retransmit ops : forall s,
  forallb not_lost ops = true -> retransQ s = [] ->
  retransQ (run_state s ops) = [] /\
  exists X, emitted (run_state s ops) = emitted s ++ X /\ emittedNew (run_state s ops) = emittedNew s ++ X.
Proof.
  induction ops as [|o r IH]; intros s N R.
  - simpl. split; [exact R|]. exists []. rewrite !app_nil_r. split; reflexivity.
  - simpl in N. apply andb_prop in N as [No Nr]. simpl.
    pose proof (keep_step o s No R) as K. destruct K as (R1 & K).
    pose proof (IH (fst (step s o)) Nr R1) as J.
    exact (Rk_trans s (fst (step s o)) _ (conj R1 K) J).
Qed.

(** a stream that closeForShutdown did shut down emits nothing at all any more *)
Lemma shutdown_silent mb s : shutdown s = true -> panicked s = false -> step s (OPop mb) = (s, out0).
Proof. intros H P. unfold step, do_pop. rewrite P, H. reflexivity. Qed.
End SS.
