(** Correspondence glue for the ackglue unit: a real connection registers packets with its sentPacketHandler and
    handles 1-RTT payloads containing ACK frames; the connection's verdict for each packet (no error /
    PROTOCOL_VIOLATION) must be the SentPH model's ReceivedAck verdict for the same history, tracer or not. *)
From Coq Require Import List ZArith Bool String.
From V Require Import Gen.Params.
From V Require Export SentPH.Model.
Import ListNotations.
Open Scope Z_scope.

(* expected class per step: 0 no error, 1 PROTOCOL_VIOLATION, -2 not an ACK step *)
Inductive case :=
| GlueCase (client : bool) (rnd0 : Z) (steps : list (op * oracle * Z)) (skipped : list Z) (largestSent : Z).

Definition cls (ret : Z) : Z := if (ret =? 1) || (ret =? 2) then 1 else if ret =? -1 then 9 else 0.
Definition is_ack (o : op) : bool := match o with OAck _ _ _ _ => true | _ => false end.

Fixpoint replay (st : state) (steps : list (op * oracle * Z)) : list Z * state :=
  match steps with
  | [] => ([], st)
  | (o, orc, _) :: rest =>
    let '(st', ret) := step st (o, orc) in
    let '(l, fin) := replay st' rest in
    ((if is_ack o then cls ret else if ret =? -1 then 9 else -2) :: l, fin)
  end.

Definition init_of (c : case) : state :=
  match c with GlueCase client rnd0 _ _ _ => init client (negb client) 0 sph_SkipPacketInitialPeriod sph_SkipPacketMaxPeriod rnd0 end.

Definition model_obs (c : case) : list Z * list Z * Z * Z :=
  match c with
  | GlueCase _ _ steps _ _ =>
    let '(l, fin) := replay (init_of c) steps in (l, hSkipped (spH (sApp fin)), spLargestSent (sApp fin), sPanic fin)
  end.

Definition zl_eqb (a b : list Z) : bool := if list_eq_dec Z.eq_dec a b then true else false.

Definition check_case (c : case) : bool :=
  match c with
  | GlueCase _ _ steps skipped largestSent =>
    let '(l, sk, ls, pan) := model_obs c in
    zl_eqb l (map snd steps) && zl_eqb sk skipped && (ls =? largestSent) && (pan =? 0)
  end.
