(** Lemmas about the sent-packet history: the slice-with-nil-gaps representation refines
    an association list of (packet number, packet) pairs. *)
From Coq Require Import List ZArith Bool Lia.
From V Require Import Gen.Params SentPH.Model.
Import ListNotations.
Open Scope Z_scope.

(** additive measure of a packet list *)
Definition msum (f : packet -> Z) (l : list (Z * packet)) : Z := fold_right (fun x a => f (snd x) + a) 0 l.

Lemma msum_nil f : msum f [] = 0. Proof. reflexivity. Qed.
Lemma msum_cons f x l : msum f (x :: l) = f (snd x) + msum f l. Proof. reflexivity. Qed.
Lemma msum_app f l1 l2 : msum f (l1 ++ l2) = msum f l1 + msum f l2.
Proof. induction l1 as [|x l1 IH]; [reflexivity|]. rewrite <- app_comm_cons, !msum_cons, IH. lia. Qed.

Lemma msum_nonneg f l : (forall x, In x l -> 0 <= f (snd x)) -> 0 <= msum f l.
Proof.
  induction l as [|x l IH]; intros H; [cbn; lia|]. rewrite msum_cons.
  assert (0 <= f (snd x)) by (apply H; left; reflexivity).
  assert (0 <= msum f l) by (apply IH; intros y Hy; apply H; right; exact Hy). lia.
Qed.

Lemma msum_In_le f l x : (forall y, In y l -> 0 <= f (snd y)) -> In x l -> f (snd x) <= msum f l.
Proof.
  induction l as [|y l IH]; intros Hn Hin; [destruct Hin|]. rewrite msum_cons.
  assert (0 <= f (snd y)) by (apply Hn; left; reflexivity).
  assert (0 <= msum f l) by (apply msum_nonneg; intros z Hz; apply Hn; right; exact Hz).
  destruct Hin as [->|Hin]; [lia|].
  assert (f (snd x) <= msum f l) by (apply IH; [intros z Hz; apply Hn; right; exact Hz|exact Hin]). lia.
Qed.

Lemma zlen_nil {A} : zlen (@nil A) = 0. Proof. reflexivity. Qed.
Lemma zlen_cons {A} (x : A) l : zlen (x :: l) = zlen l + 1.
Proof. unfold zlen. cbn [length]. lia. Qed.
Lemma zlen_app {A} (l1 l2 : list A) : zlen (l1 ++ l2) = zlen l1 + zlen l2.
Proof. unfold zlen. rewrite app_length. lia. Qed.
Lemma zlen_nonneg {A} (l : list A) : 0 <= zlen l. Proof. unfold zlen. lia. Qed.

(** ** plist *)
Lemma plist_app first l1 l2 : plist first (l1 ++ l2) = plist first l1 ++ plist (first + zlen l1) l2.
Proof.
  revert first; induction l1 as [|[p|] l1 IH]; intros first; cbn [app plist].
  - rewrite zlen_nil. f_equal. lia.
  - rewrite IH, zlen_cons. cbn [app]. do 3 f_equal. lia.
  - rewrite IH, zlen_cons. do 2 f_equal. lia.
Qed.

Lemma plist_bounds first l x : In x (plist first l) -> first <= fst x < first + zlen l.
Proof.
  revert first; induction l as [|[p|] l IH]; intros first Hin; cbn [plist] in Hin.
  - destruct Hin.
  - rewrite zlen_cons. pose proof (zlen_nonneg l). destruct Hin as [<-|Hin]; [cbn; lia|]. apply IH in Hin. lia.
  - rewrite zlen_cons. apply IH in Hin. lia.
Qed.

Lemma plist_nodup first l : NoDup (map fst (plist first l)).
Proof.
  revert first; induction l as [|[p|] l IH]; intros first; cbn [plist map]; [constructor| |apply IH].
  constructor; [|apply IH]. intros Hin. apply in_map_iff in Hin as [x [Hx Hin]].
  apply plist_bounds in Hin. cbn in Hx. lia.
Qed.

Lemma plist_fst_unique first l pn p q : In (pn, p) (plist first l) -> In (pn, q) (plist first l) -> p = q.
Proof.
  revert first; induction l as [|[r|] l IH]; intros first H1 H2; cbn [plist] in *.
  - destruct H1.
  - destruct H1 as [H1|H1], H2 as [H2|H2].
    + congruence.
    + apply plist_bounds in H2. inversion H1; subst. cbn in H2. lia.
    + apply plist_bounds in H1. inversion H2; subst. cbn in H1. lia.
    + eapply IH; eauto.
  - eapply IH; eauto.
Qed.

(* the entry at the index of a listed packet *)
Lemma plist_nth first l pn p : In (pn, p) (plist first l) -> nth (Z.to_nat (pn - first)) l None = Some p.
Proof.
  revert first; induction l as [|[r|] l IH]; intros first Hin; cbn [plist] in Hin.
  - destruct Hin.
  - destruct Hin as [Hin|Hin].
    + inversion Hin; subst. replace (pn - pn) with 0 by lia. reflexivity.
    + pose proof (plist_bounds _ _ _ Hin) as Hb. cbn in Hb. apply IH in Hin.
      replace (Z.to_nat (pn - first)) with (S (Z.to_nat (pn - (first + 1)))) by lia. exact Hin.
  - pose proof (plist_bounds _ _ _ Hin) as Hb. cbn in Hb. apply IH in Hin.
    replace (Z.to_nat (pn - first)) with (S (Z.to_nat (pn - (first + 1)))) by lia. exact Hin.
Qed.

Lemma plist_nth_In first l (idx : nat) p : nth idx l None = Some p -> In (first + Z.of_nat idx, p) (plist first l).
Proof.
  revert first idx; induction l as [|r l IH]; intros first idx Hn.
  - destruct idx; discriminate.
  - destruct idx as [|idx].
    + cbn in Hn. subst r. cbn [plist]. left. f_equal. lia.
    + cbn [nth] in Hn. apply (IH (first + 1)) in Hn.
      replace (first + Z.of_nat (S idx)) with (first + 1 + Z.of_nat idx) by lia.
      destruct r; cbn [plist]; [right|]; exact Hn.
Qed.

(* clearing one entry removes exactly that packet *)
Lemma plist_clear_at f first l idx p :
  nth idx l None = Some p ->
  msum f (plist first l) = f p + msum f (plist first (clear_at idx l)).
Proof.
  revert first idx; induction l as [|r l IH]; intros first idx Hn.
  - destruct idx; discriminate.
  - destruct idx as [|idx].
    + cbn in Hn. subst r. cbn [clear_at plist]. rewrite msum_cons. reflexivity.
    + cbn [nth] in Hn. cbn [clear_at]. destruct r; cbn [plist]; rewrite ?msum_cons; rewrite (IH (first + 1) idx Hn); lia.
Qed.

Lemma plist_clear_at_In first l idx x :
  In x (plist first (clear_at idx l)) <-> In x (plist first l) /\ fst x <> first + Z.of_nat idx.
Proof.
  revert first idx; induction l as [|r l IH]; intros first idx.
  - destruct idx; cbn; tauto.
  - destruct idx as [|idx].
    + cbn [clear_at plist]. destruct r as [p|]; cbn [plist].
      * split.
        -- intros H. pose proof (plist_bounds _ _ _ H). split; [right; exact H|lia].
        -- intros [[H|H] Hne]; [subst x; cbn in Hne; lia|exact H].
      * split.
        -- intros H. pose proof (plist_bounds _ _ _ H). split; [exact H|lia].
        -- tauto.
    + cbn [clear_at]. destruct r as [p|]; cbn [plist].
      * cbn [In]. rewrite (IH (first + 1) idx). split.
        -- intros [H|[H Hne]]; [subst x; cbn; split; [left; reflexivity|lia]|split; [right; exact H|lia]].
        -- intros [[H|H] Hne]; [left; exact H|right; split; [exact H|lia]].
      * rewrite (IH (first + 1) idx). split; intros [H Hne]; (split; [exact H|lia]).
Qed.

Lemma clear_at_length idx l : length (clear_at idx l) = length l.
Proof. revert idx; induction l as [|r l IH]; intros [|idx]; cbn; auto. Qed.

Lemma drop_none_plist first l : plist (fst (drop_none first l)) (snd (drop_none first l)) = plist first l.
Proof. revert first; induction l as [|[p|] l IH]; intros first; cbn [drop_none plist fst snd]; auto. Qed.

Lemma drop_none_head first l : match snd (drop_none first l) with None :: _ => False | _ => True end.
Proof. revert first; induction l as [|[p|] l IH]; intros first; cbn; auto; apply IH. Qed.

Lemma drop_none_span first l : fst (drop_none first l) + zlen (snd (drop_none first l)) = first + zlen l.
Proof.
  revert first; induction l as [|[p|] l IH]; intros first; cbn [drop_none fst snd]; auto.
  rewrite IH, zlen_cons. lia.
Qed.

(** ** well-formed histories *)
Definition cnt_out_f (p : packet) : Z := if outstanding p then 1 else 0.

Record hwf (h : hist) : Prop := {
  wf_head : match hPackets h with None :: _ => False | _ => True end;
  wf_span : hPackets h <> [] -> hFirst h + zlen (hPackets h) = hHighest h + 1;
  wf_fresh : hHighest h = -1 -> hPackets h = [];
  wf_out : hNumOut h = msum cnt_out_f (h_list h) }.

Lemma hwf_new : hwf newHist.
Proof. constructor; cbn; auto; congruence. Qed.

Lemma cleanup_start_list h : h_list (cleanup_start h) = h_list h.
Proof.
  unfold cleanup_start, h_list. pose proof (drop_none_plist (hFirst h) (hPackets h)) as H.
  destruct (drop_none (hFirst h) (hPackets h)) as [f l]. cbn [fst snd] in H.
  destruct l; cbn [hFirst hPackets]; [rewrite <- H; reflexivity|exact H].
Qed.

Lemma cleanup_start_fields h :
  hProbes (cleanup_start h) = hProbes h /\ hSkipped (cleanup_start h) = hSkipped h /\
  hNumOut (cleanup_start h) = hNumOut h /\ hHighest (cleanup_start h) = hHighest h.
Proof. unfold cleanup_start. destruct (drop_none _ _) as [f [|x l]]; cbn; auto. Qed.

Lemma cleanup_start_head h : match hPackets (cleanup_start h) with None :: _ => False | _ => True end.
Proof.
  unfold cleanup_start. pose proof (drop_none_head (hFirst h) (hPackets h)) as H.
  destruct (drop_none _ _) as [f [|x l]]; cbn in *; auto.
Qed.

Lemma cleanup_start_span h :
  (hPackets h <> [] -> hFirst h + zlen (hPackets h) = hHighest h + 1) ->
  hPackets (cleanup_start h) <> [] ->
  hFirst (cleanup_start h) + zlen (hPackets (cleanup_start h)) = hHighest (cleanup_start h) + 1.
Proof.
  intros Hs. unfold cleanup_start. pose proof (drop_none_span (hFirst h) (hPackets h)) as H.
  destruct (hPackets h) as [|y l0] eqn:E.
  - cbn [drop_none]. cbn. congruence.
  - destruct (drop_none (hFirst h) (y :: l0)) as [f [|x l]]; cbn [fst snd hPackets hFirst hHighest] in *; [congruence|].
    intros _. rewrite H. apply Hs. discriminate.
Qed.

Lemma getIndex_of_In h pn p : In (pn, p) (h_list h) ->
  getIndex h pn = Some (Z.to_nat (pn - hFirst h)) /\ nth (Z.to_nat (pn - hFirst h)) (hPackets h) None = Some p /\ hFirst h <= pn.
Proof.
  intros Hin. unfold h_list in Hin. pose proof (plist_bounds _ _ _ Hin) as Hb. cbn [fst] in Hb.
  pose proof (plist_nth _ _ _ _ Hin) as Hn. unfold getIndex.
  destruct (hPackets h) as [|x l] eqn:E; [destruct Hin|]. cbn [isnil].
  destruct (Z.ltb_spec pn (hFirst h)); [lia|]. destruct (Z.gtb_spec (pn - hFirst h) (zlen (x :: l) - 1)); [lia|]. auto.
Qed.

(* the common effect of DeclareLost and Remove *)
Definition removed_from (h h' : hist) (pn : Z) (p : packet) : Prop :=
  hwf h' /\ (forall f, msum f (h_list h) = f p + msum f (h_list h')) /\
  (forall x, In x (h_list h') <-> In x (h_list h) /\ fst x <> pn) /\
  hProbes h' = hProbes h /\ hSkipped h' = hSkipped h /\ hHighest h' = hHighest h /\
  hNumOut h' = hNumOut h - cnt_out_f p.

Lemma clear_entry_spec h pn p idx :
  hwf h -> In (pn, p) (h_list h) -> idx = Z.to_nat (pn - hFirst h) ->
  let no := if outstanding p then hNumOut h - 1 else hNumOut h in
  let h1 := mkH (clear_at idx (hPackets h)) (hProbes h) (hSkipped h) no (hFirst h) (hHighest h) in
  0 <= no /\
  (forall f, msum f (h_list h) = f p + msum f (h_list h1)) /\
  (forall x, In x (h_list h1) <-> In x (h_list h) /\ fst x <> pn) /\
  no = hNumOut h - cnt_out_f p /\ no = msum cnt_out_f (h_list h1).
Proof.
  intros Hwf Hin -> no h1. destruct (getIndex_of_In _ _ _ Hin) as [_ [Hn Hge]].
  assert (Hm : forall f, msum f (h_list h) = f p + msum f (h_list h1)).
  { intros f. unfold h_list, h1. cbn [hFirst hPackets]. apply plist_clear_at. exact Hn. }
  assert (Hno : no = hNumOut h - cnt_out_f p) by (subst no; unfold cnt_out_f; destruct (outstanding p); lia).
  assert (Hout : no = msum cnt_out_f (h_list h1)).
  { rewrite Hno, (wf_out _ Hwf), (Hm cnt_out_f). ring. }
  split; [|split; [exact Hm|split; [|split; [exact Hno|exact Hout]]]].
  - rewrite Hout. apply msum_nonneg. intros x _. unfold cnt_out_f. destruct (outstanding (snd x)); lia.
  - intros x. unfold h_list, h1. cbn [hFirst hPackets]. rewrite plist_clear_at_In.
    replace (hFirst h + Z.of_nat (Z.to_nat (pn - hFirst h))) with pn by lia. tauto.
Qed.

Lemma clear_at_head_pos idx l x : clear_at (S idx) (x :: l) = x :: clear_at idx l.
Proof. reflexivity. Qed.

Lemma removed_from_mk h h' pn p :
  hwf h' -> (forall f, msum f (h_list h) = f p + msum f (h_list h')) ->
  (forall x, In x (h_list h') <-> In x (h_list h) /\ fst x <> pn) ->
  hProbes h' = hProbes h -> hSkipped h' = hSkipped h -> hHighest h' = hHighest h ->
  hNumOut h' = hNumOut h - cnt_out_f p -> removed_from h h' pn p.
Proof. unfold removed_from. intuition. Qed.

(* facts shared by DeclareLost and Remove once the entry is located *)
Lemma cleared_wf h pn p :
  hwf h -> In (pn, p) (h_list h) ->
  let idx := Z.to_nat (pn - hFirst h) in
  let no := if outstanding p then hNumOut h - 1 else hNumOut h in
  let h1 := mkH (clear_at idx (hPackets h)) (hProbes h) (hSkipped h) no (hFirst h) (hHighest h) in
  (idx <> O -> removed_from h h1 pn p) /\ removed_from h (cleanup_start h1) pn p.
Proof.
  intros Hwf Hin idx no h1. destruct (getIndex_of_In _ _ _ Hin) as [Hgi [Hn Hge]].
  destruct (clear_entry_spec h pn p _ Hwf Hin eq_refl) as [Hno [Hm [HI [Hno2 Hout]]]].
  fold idx in Hn. fold no in Hno, Hno2, Hout. fold idx no h1 in Hm, HI, Hout.
  assert (Hne : hPackets h <> []) by (intros E; rewrite E in Hn; destruct idx; discriminate).
  assert (Hfresh : hHighest h <> -1) by (intros E; apply Hne, (wf_fresh _ Hwf E)).
  assert (Hspan1 : hPackets h1 <> [] -> hFirst h1 + zlen (hPackets h1) = hHighest h1 + 1).
  { unfold h1. cbn [hPackets hFirst hHighest]. intros _. unfold zlen. rewrite clear_at_length. apply (wf_span _ Hwf Hne). }
  split.
  - intros Hidx. apply removed_from_mk; auto.
    constructor.
    + unfold h1. cbn [hPackets]. pose proof (wf_head _ Hwf) as Hh.
      destruct idx as [|i]; [congruence|]. destruct (hPackets h) as [|[q|] l]; cbn; auto.
    + exact Hspan1.
    + unfold h1. cbn [hHighest]. intros E. contradiction.
    + unfold h1 at 1. cbn [hNumOut]. exact Hout.
  - destruct (cleanup_start_fields h1) as [E1 [E2 [E3 E4]]].
    apply removed_from_mk; rewrite ?cleanup_start_list, ?E1, ?E2, ?E3, ?E4; auto.
    constructor.
    + apply cleanup_start_head.
    + apply cleanup_start_span. exact Hspan1.
    + rewrite E4. unfold h1. cbn [hHighest]. intros E. contradiction.
    + rewrite cleanup_start_list, E3. unfold h1 at 1. cbn [hNumOut]. exact Hout.
Qed.

Lemma h_declareLost_spec h pn p :
  hwf h -> In (pn, p) (h_list h) ->
  exists h', h_declareLost h pn = (h', 0) /\ removed_from h h' pn p.
Proof.
  intros Hwf Hin. destruct (getIndex_of_In _ _ _ Hin) as [Hgi [Hn Hge]].
  destruct (clear_entry_spec h pn p _ Hwf Hin eq_refl) as [Hno _].
  destruct (cleared_wf h pn p Hwf Hin) as [HA HB].
  unfold h_declareLost. rewrite Hgi, Hn.
  destruct (Z.ltb_spec (if outstanding p then hNumOut h - 1 else hNumOut h) 0); [lia|].
  destruct (Z.to_nat (pn - hFirst h)) as [|idx] eqn:Eidx.
  - eexists. split; [reflexivity|]. exact HB.
  - eexists. split; [reflexivity|]. apply HA. discriminate.
Qed.

Lemma h_remove_spec h pn p :
  hwf h -> In (pn, p) (h_list h) ->
  exists h', h_remove h pn = (h', 0) /\ removed_from h h' pn p.
Proof.
  intros Hwf Hin. destruct (getIndex_of_In _ _ _ Hin) as [Hgi [Hn Hge]].
  destruct (clear_entry_spec h pn p _ Hwf Hin eq_refl) as [Hno _].
  destruct (cleared_wf h pn p Hwf Hin) as [HA HB].
  unfold h_remove. rewrite Hgi, Hn.
  destruct (Z.ltb_spec (if outstanding p then hNumOut h - 1 else hNumOut h) 0); [lia|].
  pose proof (wf_head _ Hwf) as Hh.
  destruct (Z.to_nat (pn - hFirst h)) as [|idx] eqn:Eidx.
  - cbn [firstn existsb].
    match goal with |- exists h', (match hPackets ?H with _ => _ end) = _ /\ _ => set (h2 := H) in * end.
    pose proof (cleanup_start_head (mkH (clear_at 0 (hPackets h)) (hProbes h) (hSkipped h)
       (if outstanding p then hNumOut h - 1 else hNumOut h) (hFirst h) (hHighest h))) as Hc. fold h2 in Hc.
    exists h2. split; [|exact HB].
    destruct (hPackets h2) as [|[q|] l]; [reflexivity|reflexivity|destruct Hc].
  - assert (Hex : existsb is_some (firstn (S idx) (clear_at (S idx) (hPackets h))) = true).
    { destruct (hPackets h) as [|[q|] l]; [discriminate|cbn; reflexivity|destruct Hh]. }
    rewrite Hex. eexists. split; [|apply HA; discriminate].
    cbn [hPackets]. destruct (hPackets h) as [|[q|] l]; [discriminate|reflexivity|destruct Hh].
Qed.

(** appending *)
Lemma h_seq_ok h pn : hwf h -> seq_bad h pn = false ->
  (hPackets h = [] \/ hFirst h + zlen (hPackets h) = pn).
Proof.
  intros Hwf Hs. unfold seq_bad in Hs. destruct (hPackets h) as [|x l] eqn:E; [left; reflexivity|right].
  assert (Hne : hPackets h <> []) by (rewrite E; discriminate).
  pose proof (wf_span _ Hwf Hne) as Hsp. rewrite E in Hsp.
  destruct (Z.eqb_spec (hHighest h) (-1)) as [E1|E1].
  - apply (wf_fresh _ Hwf) in E1. congruence.
  - cbn in Hs. destruct (Z.eqb_spec pn (hHighest h + 1)); [lia|discriminate].
Qed.

Lemma h_sent_spec h pn p : hwf h -> seq_bad h pn = false -> pn <> -1 ->
  let h' := h_sent h pn p in
  hwf h' /\ h_list h' = h_list h ++ [(pn, p)] /\ hProbes h' = hProbes h /\ hSkipped h' = hSkipped h /\
  hHighest h' = pn /\ hNumOut h' = hNumOut h + cnt_out_f p.
Proof.
  intros Hwf Hs Hpn h'. pose proof (h_seq_ok _ _ Hwf Hs) as Hc.
  assert (HL : h_list h' = h_list h ++ [(pn, p)]).
  { unfold h', h_sent, h_seq, h_list. cbn [hPackets hFirst]. rewrite plist_app. cbn [plist].
    destruct (hPackets h) as [|y l0] eqn:E'.
    - cbn [isnil plist app]. unfold zlen. cbn [length Z.of_nat]. repeat f_equal. lia.
    - cbn [isnil]. destruct Hc as [E|E]; [discriminate|]. rewrite E. reflexivity. }
  split; [|split; [exact HL|unfold h', h_sent, h_seq; cbn; repeat split; unfold cnt_out_f; destruct (outstanding p); lia]].
  constructor.
  - unfold h', h_sent, h_seq. cbn [hPackets]. pose proof (wf_head _ Hwf). destruct (hPackets h) as [|[q|] l]; cbn; auto.
  - intros _. unfold h', h_sent, h_seq. cbn [hPackets hFirst hHighest]. rewrite zlen_app. change (zlen [Some p]) with 1.
    destruct (hPackets h) as [|y l0] eqn:E'; cbn [isnil].
    + unfold zlen. cbn [length Z.of_nat]. lia.
    + destruct Hc as [E|E]; [discriminate|lia].
  - unfold h', h_sent, h_seq. cbn [hHighest]. intros E. contradiction.
  - rewrite HL, msum_app, <- (wf_out _ Hwf). unfold h', h_sent, h_seq. cbn [hNumOut msum fold_right snd].
    unfold cnt_out_f. destruct (outstanding p); lia.
Qed.

Lemma h_sent_probe_spec h pn p : hwf h -> seq_bad h pn = false -> pn <> -1 ->
  let h' := h_sent_probe h pn p in
  hwf h' /\ h_list h' = h_list h ++ [(pn, placeholder)] /\ hProbes h' = hProbes h ++ [(pn, p)] /\ hSkipped h' = hSkipped h /\
  hHighest h' = pn /\ hNumOut h' = hNumOut h.
Proof.
  intros Hwf Hs Hpn h'.
  destruct (h_sent_spec h pn placeholder Hwf Hs Hpn) as [[W1 W2 W3 W4] [HL _]].
  assert (HL' : h_list h' = h_list h ++ [(pn, placeholder)]) by exact HL.
  split; [|split; [exact HL'|unfold h', h_sent_probe, h_seq; cbn; auto]].
  constructor; [exact W1|exact W2|exact W3|].
  rewrite HL', msum_app, <- (wf_out _ Hwf). unfold h', h_sent_probe, h_seq. cbn. lia.
Qed.

Lemma h_skipped_spec h pn : hwf h -> seq_bad h pn = false -> pn <> -1 ->
  let h' := h_skipped h pn in
  hwf h' /\ h_list h' = h_list h /\ hProbes h' = hProbes h /\ hHighest h' = pn /\ hNumOut h' = hNumOut h.
Proof.
  intros Hwf Hs Hpn h'. pose proof (h_seq_ok _ _ Hwf Hs) as Hc.
  assert (HL : h_list h' = h_list h).
  { unfold h', h_skipped, h_seq, h_list. cbn [hPackets hFirst].
    destruct (hPackets h) as [|x l] eqn:E; cbn [isnil]; [reflexivity|].
    rewrite plist_app. cbn [plist]. apply app_nil_r. }
  split; [|split; [exact HL|unfold h', h_skipped, h_seq; cbn; auto]].
  constructor.
  - unfold h', h_skipped, h_seq. cbn [hPackets]. pose proof (wf_head _ Hwf). destruct (hPackets h) as [|[q|] l]; cbn; auto.
  - unfold h', h_skipped, h_seq. cbn [hPackets hFirst hHighest].
    destruct (hPackets h) as [|x l] eqn:E; cbn [isnil]; [congruence|]. intros _.
    rewrite zlen_app. change (zlen [None]) with 1. destruct Hc as [E'|E']; [discriminate|lia].
  - unfold h', h_skipped, h_seq. cbn [hHighest]. intros E; contradiction.
  - rewrite HL, <- (wf_out _ Hwf). unfold h', h_skipped, h_seq. reflexivity.
Qed.

Lemma h_set_probes_wf h pr : hwf h -> hwf (h_set_probes h pr).
Proof. intros [A B C D]. constructor; auto. Qed.

(** remove_probe *)
Lemma remove_probe_spec f l pn :
  msum f l = msum f (fst (remove_probe l pn)) + match snd (remove_probe l pn) with Some p => f p | None => 0 end.
Proof.
  induction l as [|[q p] l IH]; cbn [remove_probe]; [reflexivity|].
  destruct (Z.eqb_spec q pn); cbn [fst snd]; [rewrite msum_cons; cbn; lia|].
  destruct (remove_probe l pn) as [r' fo]. cbn [fst snd] in *. rewrite !msum_cons. lia.
Qed.

Lemma remove_probe_In l pn x : In x (fst (remove_probe l pn)) -> In x l.
Proof.
  induction l as [|[q p] l IH]; cbn [remove_probe]; [auto|].
  destruct (Z.eqb_spec q pn); cbn [fst]; [intros; right; auto|].
  destruct (remove_probe l pn) as [r' fo]. cbn [fst] in *. intros [H|H]; [left; auto|right; auto].
Qed.

Lemma remove_probe_found l pn p : snd (remove_probe l pn) = Some p -> In (pn, p) l.
Proof.
  induction l as [|[q r] l IH]; cbn [remove_probe]; [discriminate|].
  destruct (Z.eqb_spec q pn); cbn [snd]; [intros E; inversion E; subst; left; reflexivity|].
  destruct (remove_probe l pn) as [r' fo]. cbn [snd] in *. intros H; right; auto.
Qed.

Lemma remove_probe_none l pn : snd (remove_probe l pn) = None -> fst (remove_probe l pn) = l.
Proof.
  induction l as [|[q r] l IH]; cbn [remove_probe]; [reflexivity|].
  destruct (Z.eqb_spec q pn); cbn [snd fst]; [discriminate|].
  destruct (remove_probe l pn) as [r' fo]. cbn [snd fst] in *. intros H. rewrite (IH H). reflexivity.
Qed.

Lemma remove_probe_nodup l pn p : NoDup (map fst l) -> In (pn, p) l ->
  snd (remove_probe l pn) = Some p /\
  (forall f, msum f l = f p + msum f (fst (remove_probe l pn))) /\
  (forall x, In x (fst (remove_probe l pn)) <-> In x l /\ fst x <> pn) /\
  NoDup (map fst (fst (remove_probe l pn))).
Proof.
  induction l as [|[q r] l IH]; intros Hnd Hin; [destruct Hin|].
  cbn [map fst] in Hnd. inversion Hnd as [|? ? Hni Hnd']; subst. cbn [remove_probe].
  destruct (Z.eqb_spec q pn) as [->|Hne]; cbn [fst snd].
  - assert (r = p).
    { destruct Hin as [H|H]; [congruence|]. exfalso. apply Hni. change pn with (fst (pn, p)). apply in_map. exact H. }
    subst r. split; [reflexivity|split; [intros f; rewrite msum_cons; reflexivity|split; [|exact Hnd']]].
    intros x. split.
    + intros H. split; [right; exact H|]. intros E. apply Hni. rewrite <- E. apply in_map. exact H.
    + intros [[H|H] Hx]; [subst x; cbn in Hx; congruence|exact H].
  - destruct Hin as [H|Hin]; [congruence|]. destruct (IH Hnd' Hin) as [I1 [I2 [I3 I4]]].
    destruct (remove_probe l pn) as [r' fo]. cbn [fst snd] in *.
    split; [exact I1|split; [|split]].
    + intros f. rewrite !msum_cons, (I2 f). lia.
    + intros x. cbn [In]. rewrite I3. split.
      * intros [H|[H Hx]]; [subst x; cbn; split; [left; reflexivity|exact Hne]|split; [right; exact H|exact Hx]].
      * intros [[H|H] Hx]; [left; exact H|right; split; assumption].
    + cbn [map fst]. constructor; [|exact I4]. intros H. apply Hni. apply in_map_iff in H as [x [Hx1 Hx2]].
      apply I3 in Hx2. apply in_map_iff. exists x. tauto.
Qed.

Lemma NoDup_map_filter {A} (g : A -> Z) (pred : A -> bool) l : NoDup (map g l) -> NoDup (map g (filter pred l)).
Proof.
  induction l as [|x l IH]; intros H; [constructor|]. cbn [map] in H. inversion H as [|? ? Hni Hnd]; subst.
  cbn [filter]. destruct (pred x); [|auto]. cbn [map]. constructor; [|auto].
  intros Hin. apply Hni. apply in_map_iff in Hin as [y [Hy1 Hy2]]. apply filter_In in Hy2 as [Hy2 _].
  apply in_map_iff. exists y. auto.
Qed.
