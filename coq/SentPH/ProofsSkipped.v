(** History-level retention of skipped packet numbers (repaired SkippedPacket):
    every application-data number that was ever skipped and is not below the lowest packet number still
    tracked is still recorded, hence an ACK covering it is a PROTOCOL_VIOLATION. *)
From Coq Require Import List ZArith Bool Lia.
From V Require Import Gen.Params SentPH.Model SentPH.ProofsHist SentPH.ProofsBase SentPH.ProofsOps SentPH.ProofsOps2
  SentPH.ProofsOps3 SentPH.ProofsAck SentPH.ProofsSend SentPH.ProofsTimeout SentPH.ProofsMain SentPH.ProofsAckRules.
Import ListNotations.
Open Scope Z_scope.

Definition appH (st : state) : hist := spH (sApp st).

(** frame condition: the op neither touches the skipped list nor the generator of the application-data
    space, and tracks no new packet there *)
Definition AppFrame (st st' : state) : Prop :=
  hSkipped (appH st') = hSkipped (appH st) /\ spG (sApp st') = spG (sApp st) /\
  (forall x, In x (h_list (appH st')) -> In x (h_list (appH st))).

Lemma AF_refl st : AppFrame st st. Proof. repeat split; auto. Qed.
Lemma AF_trans a b c : AppFrame a b -> AppFrame b c -> AppFrame a c.
Proof. intros [A1 [A2 A3]] [B1 [B2 B3]]. repeat split; try congruence. auto. Qed.
Lemma AF_same_app st st' : sApp st' = sApp st -> AppFrame st st'.
Proof. intros E. unfold AppFrame, appH. rewrite E. repeat split; auto. Qed.

Ltac same_app := apply AF_same_app;
  repeat match goal with |- context [if ?c then _ else _] => destruct c end; reflexivity.

Lemma AF_fold {A} (f : state -> A -> state) l : (forall st x, AppFrame st (f st x)) -> forall st, AppFrame st (fold_left f l st).
Proof. intros H. induction l as [|x l IH]; intros st; cbn [fold_left]; [apply AF_refl|]. eapply AF_trans; [apply H|apply IH]. Qed.

Lemma AF_rm_bif st p : AppFrame st (rm_bif st p). Proof. unfold rm_bif. same_app. Qed.
Lemma AF_queue st p : AppFrame st (queue_frames st p). Proof. unfold queue_frames. same_app. Qed.
Lemma AF_setTimer st o now : AppFrame st (setTimer st o now). Proof. apply AF_same_app. reflexivity. Qed.
Lemma AF_panic st c : AppFrame st (panic c st). Proof. apply AF_same_app. reflexivity. Qed.

(* replacing a space by one with the same skipped list and generator and no new packets *)
Lemma AF_set_space st l s s' :
  get_space st l = Some s -> hSkipped (spH s') = hSkipped (spH s) -> spG s' = spG s ->
  (forall x, In x (h_list (spH s')) -> In x (h_list (spH s))) -> AppFrame st (set_space st l s').
Proof.
  intros Hg H1 H2 H3. unfold set_space, get_space in *.
  destruct (l =? sph_EncInitial); [apply AF_same_app; reflexivity|].
  destruct (l =? sph_EncHandshake); [apply AF_same_app; reflexivity|].
  destruct (is_app l); [|apply AF_refl]. inversion Hg; subst s. unfold AppFrame, appH. cbn. auto.
Qed.

Lemma cleanup_start_skipped h : hSkipped (cleanup_start h) = hSkipped h.
Proof. destruct (cleanup_start_fields h) as [_ [E _]]. exact E. Qed.

Lemma clear_at_sub first l idx x : In x (plist first (clear_at idx l)) -> In x (plist first l).
Proof. intros H. apply plist_clear_at_In in H. tauto. Qed.

Lemma h_declareLost_af h pn :
  hSkipped (fst (h_declareLost h pn)) = hSkipped h /\ (forall x, In x (h_list (fst (h_declareLost h pn))) -> In x (h_list h)).
Proof.
  split; [destruct (skipped_untouched h pn placeholder []) as [_ [_ [_ [_ Hd]]]]; apply Hd; reflexivity|].
  unfold h_declareLost. destruct (getIndex h pn) as [idx|]; [|auto]. destruct (nth idx (hPackets h) None); [|auto].
  destruct (_ <? 0); [auto|]. cbn [fst]. destruct idx.
  - intros x. rewrite cleanup_start_list. unfold h_list. cbn [hFirst hPackets]. apply clear_at_sub.
  - intros x. unfold h_list. cbn [hFirst hPackets]. apply clear_at_sub.
Qed.

Lemma h_remove_af h pn :
  hSkipped (fst (h_remove h pn)) = hSkipped h /\ (forall x, In x (h_list (fst (h_remove h pn))) -> In x (h_list h)).
Proof.
  split; [destruct (skipped_untouched h pn placeholder []) as [_ [_ [_ [Hr _]]]]; apply Hr; reflexivity|].
  unfold h_remove. destruct (getIndex h pn) as [idx|]; [|auto]. destruct (nth idx (hPackets h) None); [|auto].
  destruct (_ <? 0); [auto|].
  match goal with |- context [if ?c then ?a else cleanup_start ?b] => destruct c end.
  - match goal with |- forall x, In x (h_list (fst (match ?y with _ => _ end))) -> _ => destruct y as [|[?|] ?] end;
      cbn [fst]; intros x; unfold h_list; cbn [hFirst hPackets]; apply clear_at_sub.
  - match goal with |- forall x, In x (h_list (fst (match ?y with _ => _ end))) -> _ => destruct y as [|[?|] ?] end;
      cbn [fst]; intros x; rewrite cleanup_start_list; unfold h_list; cbn [hFirst hPackets]; apply clear_at_sub.
Qed.

Lemma AF_declareLost st l pn : AppFrame st (st_declareLost st l pn).
Proof.
  unfold st_declareLost. destruct (get_space st l) as [s|] eqn:Hg; [|apply AF_panic].
  destruct (h_declareLost_af (spH s) pn) as [A1 A2]. destruct (h_declareLost (spH s) pn) as [h c]. cbn [fst] in *.
  assert (X : AppFrame st (set_space st l (sp_setH s h))) by (eapply AF_set_space; eauto).
  destruct (c =? 0); [exact X|]. eapply AF_trans; [exact X|apply AF_panic].
Qed.

Lemma AF_remove st l pn : AppFrame st (st_remove st l pn).
Proof.
  unfold st_remove. destruct (get_space st l) as [s|] eqn:Hg; [|apply AF_panic].
  destruct (h_remove_af (spH s) pn) as [A1 A2]. destruct (h_remove (spH s) pn) as [h c]. cbn [fst] in *.
  assert (X : AppFrame st (set_space st l (sp_setH s h))) by (eapply AF_set_space; eauto).
  destruct (c =? 0); [exact X|]. eapply AF_trans; [exact X|apply AF_panic].
Qed.

Lemma AF_emit st e : AppFrame st (emit e st). Proof. apply AF_same_app. reflexivity. Qed.
Lemma AF_callbacks st b ids : AppFrame st (callbacks b ids st). Proof. apply AF_same_app. reflexivity. Qed.
Lemma AF_lost st l : AppFrame st (st_lost st l). Proof. apply AF_same_app. reflexivity. Qed.
Lemma AF_pto st c m n : AppFrame st (st_pto st c m n). Proof. apply AF_same_app. reflexivity. Qed.
Lemma AF_flags st a b c : AppFrame st (st_flags st a b c). Proof. apply AF_same_app. reflexivity. Qed.
Lemma AF_bytes st a b : AppFrame st (st_bytes st a b). Proof. apply AF_same_app. reflexivity. Qed.
Lemma AF_lat st a : AppFrame st (st_lat st a). Proof. apply AF_same_app. reflexivity. Qed.
Lemma AF_bif st a : AppFrame st (st_bif st a). Proof. apply AF_same_app. reflexivity. Qed.

Ltac af := repeat first
  [ apply AF_refl | apply AF_setTimer | apply AF_panic | apply AF_emit | apply AF_callbacks | apply AF_lost | apply AF_pto
  | apply AF_flags | apply AF_bytes | apply AF_lat | apply AF_bif | apply AF_rm_bif | apply AF_queue
  | apply AF_declareLost | apply AF_remove
  | (eapply AF_trans; [|solve [af]]) ].

Lemma AF_meta st l s lt ae la ls : get_space st l = Some s -> AppFrame st (set_space st l (mkS (spH s) (spG s) lt ae la ls)).
Proof. intros H. eapply AF_set_space; eauto. Qed.

Lemma AF_lost_one now ld l la prior sk st x : AppFrame st (lost_one now ld l la prior sk st x).
Proof.
  unfold lost_one. destruct x as [pn p]. destruct (pn >? la); [apply AF_refl|].
  destruct (_ || _).
  - set (st1 := if is_app l then st_lost st (lt_add (sLost st) pn (pTime p)) else st).
    assert (A1 : AppFrame st st1) by (unfold st1; destruct (is_app l); [apply AF_lost|apply AF_refl]).
    eapply AF_trans; [exact A1|]. eapply AF_trans; [apply AF_declareLost|].
    destruct (negb (pProbe p) && ackEliciting p); [|apply AF_refl].
    eapply AF_trans; [apply AF_rm_bif|]. eapply AF_trans; [apply AF_queue|]. destruct (negb (pMTU p)); [apply AF_emit|apply AF_refl].
  - destruct (get_space st l) as [s|] eqn:Hg; [|apply AF_refl]. destruct (spLossTime s =? 0); [|apply AF_refl]. apply AF_meta. exact Hg.
Qed.

Lemma AF_detectLost st o now l : AppFrame st (detectLost st o now l).
Proof.
  unfold detectLost. destruct (get_space st l) as [s|] eqn:Hg; [|apply AF_panic].
  eapply AF_trans; [apply AF_meta; exact Hg|]. apply AF_fold. intros. apply AF_lost_one.
Qed.

Lemma remove_probe_same_list (h : hist) pr : hSkipped (h_set_probes h pr) = hSkipped h /\ h_list (h_set_probes h pr) = h_list h.
Proof. split; reflexivity. Qed.

Lemma AF_probe_lost_one st x : AppFrame st (probe_lost_one st x).
Proof. destruct x as [pn p]. unfold probe_lost_one, AppFrame, appH. cbn. auto. Qed.

Lemma AF_detectLostPathProbes st now : AppFrame st (detectLostPathProbes st now).
Proof.
  unfold detectLostPathProbes. destruct (isnil _); [apply AF_refl|]. apply AF_fold. intros. apply AF_probe_lost_one.
Qed.

Lemma AF_ack_one l st x : AppFrame st (ack_one l st x).
Proof.
  destruct x as [pn p]. unfold ack_one.
  eapply AF_trans; [|apply AF_remove]. eapply AF_trans; [|apply AF_callbacks].
  destruct (_ && _); [apply AF_emit|apply AF_refl].
Qed.

Lemma AF_detectAndRemoveAcked st rs l : AppFrame st (fst (fst (fst (detectAndRemoveAcked st rs l)))).
Proof.
  unfold detectAndRemoveAcked. destruct (get_space st l) as [s|] eqn:Hg; [|cbn; apply AF_panic].
  destruct (_ && _); [cbn; apply AF_refl|].
  destruct (collect _ _ _ _ _ _ _ _) as [[[probes acc] hasAE] bug].
  assert (X : AppFrame st (set_space st l (sp_setH s (h_set_probes (spH s) probes)))).
  { eapply AF_set_space; eauto. }
  destruct bug; cbn [fst]; [eapply AF_trans; [exact X|apply AF_panic]|].
  eapply AF_trans; [exact X|]. apply AF_fold. intros. apply AF_ack_one.
Qed.

Lemma AF_acked_one prior acked : forall st a1, AppFrame st (fst (fold_left (acked_one prior) acked (st, a1))).
Proof.
  induction acked as [|[pn q] acked IH]; intros st a1; cbn [fold_left fst]; [apply AF_refl|].
  cbn [acked_one]. eapply AF_trans; [|apply IH]. eapply AF_trans; [|apply AF_rm_bif]. destruct (pIncl q); [apply AF_emit|apply AF_refl].
Qed.

Lemma AF_receivedAck st o rs l now : AppFrame st (fst (fst (receivedAck st o rs l now))).
Proof.
  unfold receivedAck. destruct (get_space st l) as [s0|]; [|cbn; apply AF_panic].
  destruct (_ || _); [cbn; apply AF_refl|].
  match goal with |- context [detectAndRemoveAcked ?X rs l] => set (st_a := X) end.
  assert (Aa : AppFrame st st_a).
  { unfold st_a. match goal with |- AppFrame _ (if ?c then _ else _) => destruct c end; [|apply AF_refl].
    eapply AF_trans; [apply AF_flags|apply AF_setTimer]. }
  pose proof (AF_detectAndRemoveAcked st_a rs l) as Ab.
  destruct (detectAndRemoveAcked st_a rs l) as [[[st_b acked] hasAE] err]. cbn [fst] in Ab.
  assert (Aab : AppFrame st st_b) by (eapply AF_trans; eauto).
  destruct (negb (err =? 0) || isnil acked); [cbn; exact Aab|].
  destruct (last acked (0, placeholder)) as [lpn lp].
  match goal with |- context [get_space ?X l] => set (st_c := X) end.
  assert (Ac : AppFrame st st_c).
  { eapply AF_trans; [exact Aab|]. unfold st_c.
    match goal with |- AppFrame _ (if ?c then _ else _) => destruct c end; [|apply AF_refl].
    eapply AF_trans; [|apply AF_emit].
    match goal with |- AppFrame _ (if ?c then _ else _) => destruct c end; [apply AF_lat|apply AF_refl]. }
  destruct (get_space st_c l) as [sc|] eqn:Hg; [|cbn; eapply AF_trans; [exact Ac|apply AF_panic]].
  match goal with |- context [detectLost ?X o now l] => set (st_d := X) end.
  assert (Ad : AppFrame st st_d) by (eapply AF_trans; [exact Ac|apply AF_meta; exact Hg]).
  set (st_e := detectLost st_d o now l).
  assert (Ae : AppFrame st st_e) by (eapply AF_trans; [exact Ad|apply AF_detectLost]).
  match goal with |- context [fold_left (acked_one ?pr) acked (?X, false)] => set (st_f := X); pose proof (AF_acked_one pr acked st_f false) as Ag;
    destruct (fold_left (acked_one pr) acked (st_f, false)) as [st_g a1] end.
  cbn [fst] in *.
  assert (Af : AppFrame st st_f).
  { eapply AF_trans; [exact Ae|]. unfold st_f.
    match goal with |- AppFrame _ (if ?c then _ else _) => destruct c end; [apply AF_detectLostPathProbes|apply AF_refl]. }
  eapply AF_trans; [exact Af|]. eapply AF_trans; [exact Ag|].
  eapply AF_trans; [|apply AF_setTimer]. eapply AF_trans; [|apply AF_pto].
  match goal with |- AppFrame st_g (if sPCAV ?X then _ else _) => assert (Ah : AppFrame st_g X) end.
  { match goal with |- AppFrame _ (if ?c then _ else _) => destruct c end; [apply AF_lost|apply AF_refl]. }
  match goal with |- AppFrame _ (if ?c then _ else _) => destruct c end; [eapply AF_trans; [exact Ah|apply AF_pto]|exact Ah].
Qed.

Lemma AF_queueProbe st l : AppFrame st (fst (queueProbePacket st l)).
Proof.
  unfold queueProbePacket. destruct (get_space st l); [|cbn; apply AF_panic].
  destruct (h_firstOutstanding _) as [[pn p]|]; cbn [fst]; [|apply AF_refl].
  eapply AF_trans; [apply AF_declareLost|]. eapply AF_trans; [apply AF_rm_bif|apply AF_queue].
Qed.

Lemma AF_migrate_one st x : AppFrame st (migrate_one st x).
Proof.
  destruct x as [pn p]. unfold migrate_one. eapply AF_trans; [apply AF_declareLost|].
  destruct (negb (pProbe p)); [|apply AF_refl]. eapply AF_trans; [apply AF_rm_bif|]. destruct (ackEliciting p); [apply AF_queue|apply AF_refl].
Qed.

Lemma AF_migratedPath st o now : AppFrame st (migratedPath st o now).
Proof.
  unfold migratedPath. eapply AF_trans; [apply (AF_fold migrate_one); intros; apply AF_migrate_one|].
  eapply AF_trans; [|apply AF_setTimer]. unfold AppFrame, appH. cbn. auto.
Qed.

Lemma AF_drop0rtt items : forall st, AppFrame st (drop0rtt items st).
Proof.
  induction items as [|[pn p] items IH]; intros st; cbn [drop0rtt]; [apply AF_refl|].
  destruct (negb (pLvl p =? sph_Enc0RTT)); [apply AF_refl|].
  destruct (h_remove_af (spH (sApp (rm_bif st p))) pn) as [A1 A2]. destruct (h_remove (spH (sApp (rm_bif st p))) pn) as [h c]. cbn [fst] in *.
  eapply AF_trans; [|apply IH]. eapply AF_trans; [apply AF_rm_bif|].
  match goal with |- AppFrame ?a (if _ then ?b else _) => assert (X : AppFrame a b) by (unfold AppFrame, appH; cbn [sApp st_spaces spH sp_setH spG]; repeat split; [exact A1|exact A2]) end.
  match goal with |- AppFrame _ (if ?c then _ else _) => destruct c end; [exact X|eapply AF_trans; [exact X|apply AF_panic]].
Qed.

Lemma AF_dropPackets st o l now : AppFrame st (dropPackets st o l now).
Proof.
  unfold dropPackets.
  match goal with |- context [get_space ?X l] => set (st0 := X) end.
  assert (A0 : AppFrame st st0) by (unfold st0; destruct (_ && _); [apply AF_flags|apply AF_refl]).
  eapply AF_trans; [exact A0|].
  destruct (_ || _).
  - destruct (get_space st0 l) as [s|]; [|apply AF_refl].
    match goal with |- context [fold_left ?f ?items st0] => assert (A1 : AppFrame st0 (fold_left f items st0)) by (apply AF_fold; intros; apply AF_rm_bif);
      set (st1 := fold_left f items st0) in * end.
    eapply AF_trans; [exact A1|].
    destruct (l =? sph_EncInitial); (eapply AF_trans; [|apply AF_setTimer]); (eapply AF_trans; [|apply AF_pto]); apply AF_same_app; reflexivity.
  - destruct (l =? sph_Enc0RTT); [|apply AF_panic].
    eapply AF_trans; [apply AF_drop0rtt|]. eapply AF_trans; [apply AF_pto|apply AF_setTimer].
Qed.

Lemma AF_receivedBytes st o n t : AppFrame st (receivedBytes st o n t).
Proof. unfold receivedBytes. destruct (_ && _); [eapply AF_trans; [apply AF_bytes|apply AF_setTimer]|apply AF_bytes]. Qed.
Lemma AF_receivedPacket st o l t : AppFrame st (receivedPacket st o l t).
Proof. unfold receivedPacket. destruct (_ && _ && _); [eapply AF_trans; [apply AF_flags|apply AF_setTimer]|apply AF_refl]. Qed.

(** ** the retention invariant *)
Definition gnext (st : state) : Z := gNext (spG (sApp st)).
Definition below (st : state) (p : Z) : Prop := forall x, In x (h_list (appH st)) -> p < fst x.
(* p was skipped at some point: it is below the generator, and either still recorded or below every tracked packet *)
Definition kept (st : state) (p : Z) : Prop := p < gnext st /\ (In p (hSkipped (appH st)) \/ below st p).
Definition sk_bounded (st : state) : Prop := forall p, In p (hSkipped (appH st)) -> p < gnext st.

Lemma kept_frame st st' p : AppFrame st st' -> kept st p -> kept st' p.
Proof.
  intros [A1 [A2 A3]] [K1 K2]. unfold kept, gnext, below in *. rewrite A1, A2. split; [exact K1|].
  destruct K2 as [K2|K2]; [left; exact K2|right; intros x Hx; apply K2; apply A3; exact Hx].
Qed.
Lemma bounded_frame st st' : AppFrame st st' -> sk_bounded st -> sk_bounded st'.
Proof. intros [A1 [A2 A3]] B p Hp. unfold sk_bounded, gnext in *. rewrite A1 in Hp. rewrite A2. apply B. exact Hp. Qed.

Lemma retained_below h pn p :
  In p (hSkipped h) -> In p (hSkipped (h_skipped h pn)) \/ (forall x, In x (h_list h) -> p < fst x).
Proof.
  intros Hin. destruct (skipped_retained h pn p Hin) as [H|[H|H]]; [left; exact H| |].
  - right. unfold h_list. rewrite H. intros x [].
  - right. intros x Hx. apply plist_bounds in Hx. lia.
Qed.

Lemma h_skipped_members h pn p : In p (hSkipped (h_skipped h pn)) -> In p (hSkipped h) \/ p = pn.
Proof.
  unfold h_skipped. cbn [hSkipped]. intros H. apply in_app_or in H as [H|[H|[]]]; [left|right; auto].
  unfold h_seq in H. cbn [hSkipped hPackets hFirst] in H. eapply gc_skipped_sub; eauto.
Qed.

(* PopPacketNumber: shape of the space it leaves *)
Lemma popPN_shape T st l rnd s :
  Base T st -> lvl_ok l = true -> sget st (slot_of l) = Some s ->
  exists s1 pn, popPN st l rnd = (sset st (slot_of l) s1, pn) /\ popped s s1 pn /\
    gNext (spG s) <= pn /\
    (spH s1 = spH s \/ (spH s1 = h_skipped (spH s) (pn - 1) /\ pn - 1 = gNext (spG s))).
Proof.
  intros B Hl Hs. pose proof (popPN_spec T _ s rnd (Base_sget _ _ _ _ B Hs)) as P.
  unfold popPN. rewrite (get_space_slot st l Hl), Hs. unfold g_pop in *.
  destruct (gSkipping (spG s) && (gNext (spG s) =? gNextToSkip (spG s))); cbn zeta in P; destruct P as [P Hsk].
  - cbn [spH]. rewrite (Hsk eq_refl). rewrite (set_space_slot _ l _ Hl). eexists _, _. split; [reflexivity|split; [exact P|split; [lia|]]].
    right. cbn [spH sp_setH]. split; [reflexivity|lia].
  - rewrite (set_space_slot _ l _ Hl). eexists _, _. split; [reflexivity|split; [exact P|split; [lia|left; reflexivity]]].
Qed.

Definition keeps (st st' : state) : Prop :=
  (sk_bounded st -> sk_bounded st') /\ (forall p, kept st p -> kept st' p).

Lemma keeps_frame st st' : AppFrame st st' -> keeps st st'.
Proof. intros A. split; [apply bounded_frame; exact A|intros p; apply kept_frame; exact A]. Qed.

(* the application-data space after a pop (and possibly a generator skip) followed by appending a packet or a skip *)
Lemma keeps_app st st' s s1 pn T :
  Base T st -> sApp st = s -> popped s s1 pn -> gNext (spG s) <= pn ->
  (spH s1 = spH s \/ (spH s1 = h_skipped (spH s) (pn - 1) /\ pn - 1 = gNext (spG s))) ->
  spG (sApp st') = spG s1 ->
  (* either a packet with number pn was appended, or pn was skipped *)
  ((hSkipped (appH st') = hSkipped (spH s1) /\ exists q, h_list (appH st') = h_list (spH s1) ++ [(pn, q)]) \/
   (appH st' = h_skipped (spH s1) pn)) ->
  keeps st st'.
Proof.
  intros B Hs [P1 P2 P3 P4 P5 P6 P7 P8 P9] Hge Hsh Hg Hfin. subst s. unfold keeps, kept, below, sk_bounded, appH in *.
  assert (Hg' : gnext st' = pn + 1) by (unfold gnext; rewrite Hg; exact P8).
  assert (Hgn : gnext st <= pn) by exact Hge.
  (* after the pop *)
  assert (S1 : forall p, In p (hSkipped (spH s1)) -> p <= pn - 1 \/ In p (hSkipped (appH st))).
  { intros p Hp. destruct Hsh as [E|[E E2]]; rewrite E in Hp; [right; exact Hp|].
    apply h_skipped_members in Hp as [Hp|Hp]; [right; exact Hp|left; lia]. }
  assert (K1 : forall p, In p (hSkipped (appH st)) -> In p (hSkipped (spH s1)) \/ (forall x, In x (h_list (appH st)) -> p < fst x)).
  { intros p Hp. destruct Hsh as [E|[E E2]]; rewrite E; [left; exact Hp|]. apply retained_below. exact Hp. }
  split.
  - intros Bd p Hp. rewrite Hg'. destruct Hfin as [[F1 _]|F].
    + rewrite F1 in Hp. destruct (S1 p Hp) as [H|H]; [lia|]. specialize (Bd p H). lia.
    + rewrite F in Hp. apply h_skipped_members in Hp as [Hp|Hp]; [|lia]. destruct (S1 p Hp) as [H|H]; [lia|]. specialize (Bd p H). lia.
  - intros p [Kp Kd]. split; [rewrite Hg'; lia|].
    assert (Kd1 : In p (hSkipped (spH s1)) \/ (forall x, In x (h_list (spH s1)) -> p < fst x)).
    { rewrite P2. destruct Kd as [Kd|Kd]; [apply K1; exact Kd|right; exact Kd]. }
    destruct Hfin as [[F1 [q F2]]|F].
    + destruct Kd1 as [H|H]; [left; rewrite F1; exact H|right]. intros x Hx. rewrite F2 in Hx.
      apply in_app_or in Hx as [Hx|[<-|[]]]; [apply H; exact Hx|cbn; lia].
    + assert (HL : h_list (spH (sApp st')) = h_list (spH s1)).
      { rewrite F. apply (h_skipped_spec (spH s1) pn P1 P6). lia. }
      destruct Kd1 as [H|H].
      * rewrite F. destruct (retained_below (spH s1) pn p H) as [H'|H']; [left; exact H'|right].
        intros x Hx. rewrite <- F, HL in Hx. apply H'. exact Hx.
      * right. intros x Hx. rewrite HL in Hx. apply H. exact Hx.
Qed.

Lemma send_keeps T st o l t la sfs fs size mtu probe rnd s :
  Base T st -> lvl_ok l = true -> sget st (slot_of l) = Some s ->
  keeps st (sentPacket (fst (popPN st l rnd)) o t (snd (popPN st l rnd)) la sfs fs l size mtu probe).
Proof.
  intros B Hl Hs.
  destruct (popPN_shape T st l rnd s B Hl Hs) as [s1 [pn [Eq [Pp [Hge Hsh]]]]].
  rewrite Eq. cbn [fst snd]. pose proof Pp as [P1 P2 P3 P4 P5 P6 P7 P8 P9].
  unfold sentPacket. rewrite (get_space_slot _ l Hl), sget_bytes, sget_sset_same.
  cbn [spH spG spLossTime spLastAE spLargestAcked spLargestSent]. rewrite P6.
  rewrite !(set_space_slot _ l _ Hl).
  assert (Hpn : pn <> -1) by lia.
  destruct (slot_of l) eqn:Ek.
  - apply keeps_frame. apply AF_same_app.
    repeat match goal with |- context [if ?c then _ else _] => destruct c end; reflexivity.
  - apply keeps_frame. apply AF_same_app.
    repeat match goal with |- context [if ?c then _ else _] => destruct c end; reflexivity.
  - cbn [sget] in Hs. inversion Hs as [Hs'].
    destruct probe.
    + eapply (keeps_app st _ s s1 pn T B Hs' Pp Hge Hsh); [reflexivity|].
      left. split; [reflexivity|]. eexists. unfold appH. cbn [sApp setTimer st_alarm sset st_spaces spH sp_setH].
      apply (h_sent_probe_spec (spH s1) pn _ P1 P6 Hpn).
    + destruct (ackEliciting _) eqn:Ea; cbn [negb spH]; rewrite ?P6.
      * eapply (keeps_app st _ s s1 pn T B Hs' Pp Hge Hsh); [reflexivity|].
        left. split; [reflexivity|]. eexists. unfold appH. cbn [sApp setTimer st_alarm sset st_spaces spH sp_setH].
        apply (h_sent_spec (spH s1) pn _ P1 P6 Hpn).
      * match goal with |- keeps st (if ?c then _ else _) => destruct c end.
        -- eapply (keeps_app st _ s s1 pn T B Hs' Pp Hge Hsh); [reflexivity|].
           left. split; [reflexivity|]. eexists. unfold appH. cbn [sApp setTimer st_alarm sset st_spaces spH sp_setH].
           apply (h_sent_spec (spH s1) pn _ P1 P6 Hpn).
        -- eapply (keeps_app st _ s s1 pn T B Hs' Pp Hge Hsh); [reflexivity|].
           left. split; [reflexivity|]. eexists. unfold appH. cbn [sApp sset st_spaces spH sp_setH].
           apply (h_sent_spec (spH s1) pn _ P1 P6 Hpn).
Qed.

Lemma keeps_refl st : keeps st st. Proof. split; auto. Qed.
Lemma keeps_trans a b c : keeps a b -> keeps b c -> keeps a c.
Proof. intros [A1 A2] [B1 B2]. split; auto. Qed.

Lemma onTimeout_keeps T st o now rnd : Good T st -> keeps st (fst (onTimeout st o now rnd)).
Proof.
  intros G. unfold onTimeout.
  set (st1 := if sConf st then detectLostPathProbes st now else st).
  assert (P1 : Pres T 0 st st1).
  { unfold st1. destruct (sConf st); [apply detectLostPathProbes_spec; exact G|apply Pres_refl; apply G]. }
  assert (A1 : AppFrame st st1) by (unfold st1; destruct (sConf st); [apply AF_detectLostPathProbes|apply AF_refl]).
  assert (B1 : Base T st1) by apply (p_base _ _ _ _ P1).
  eapply keeps_trans; [apply keeps_frame; exact A1|]. clearbody st1. clear P1 A1 G st. rename st1 into st.
  destruct (getLossTimeAndSpace st) as [lt lv].
  assert (Fin : forall X, keeps st X -> keeps st (setTimer X o now)).
  { intros X K. eapply keeps_trans; [exact K|apply keeps_frame; apply AF_setTimer]. }
  destruct (negb (lt =? 0)); [cbn [fst]; apply Fin; apply keeps_frame; apply AF_detectLost|].
  destruct ((sBif st =? 0) && negb (sPCAV st)).
  { destruct (sInit st), (sHs st); cbn [fst]; apply Fin; apply keeps_frame; (eapply AF_trans; [apply AF_pto|]); try apply AF_pto; apply AF_refl. }
  destruct (getPTOTimeAndSpace st o now) as [pt lv'].
  destruct (pt =? 0); [cbn [fst]; apply Fin; apply keeps_refl|].
  destruct (get_space st lv') as [ps|]; [|cbn [fst]; apply Fin; apply keeps_frame; apply AF_panic].
  destruct (_ && _ && _); [cbn [fst]; apply Fin; apply keeps_refl|].
  set (st2 := st_pto st (sPtoC st + 1) (sPtoM st) (sProbes st + 2)).
  assert (A2 : AppFrame st st2) by apply AF_pto.
  assert (B2 : Base T st2) by (apply (p_base _ _ _ _ (st_pto_pres T st _ _ _ B1))).
  destruct (lv' =? sph_EncInitial); [cbn [fst]; apply Fin; apply keeps_frame; eapply AF_trans; [exact A2|apply AF_pto]|].
  destruct (lv' =? sph_EncHandshake); [cbn [fst]; apply Fin; apply keeps_frame; eapply AF_trans; [exact A2|apply AF_pto]|].
  destruct (lv' =? sph_Enc1RTT); [|cbn [fst]; apply Fin; apply keeps_frame; exact A2].
  destruct (popPN_shape T st2 sph_Enc1RTT rnd (sApp st2) B2 lvl_ok_1rtt eq_refl) as [s1 [pn [Eq [Pp [Hge Hsh]]]]].
  rewrite Eq. rewrite slot_1rtt. cbn [sApp sset st_spaces]. pose proof Pp as [Q1 Q2 Q3 Q4 Q5 Q6 Q7 Q8 Q9]. rewrite Q6.
  cbn [fst]. apply Fin. eapply keeps_trans; [apply keeps_frame; exact A2|].
  eapply keeps_trans; [|apply keeps_frame; apply AF_pto].
  eapply (keeps_app st2 _ (sApp st2) s1 pn T B2 eq_refl Pp Hge Hsh); [reflexivity|right; reflexivity].
Qed.

Lemma g_peek_ge g : gNext g <= g_peek g.
Proof. unfold g_peek. destruct (_ && _); lia. Qed.

Lemma resetForRetry_keeps T st rnd : Base T st -> keeps st (resetForRetry st rnd).
Proof.
  intros B. destruct (sInit st) as [si|] eqn:Ei.
  2:{ unfold resetForRetry. rewrite Ei. apply keeps_frame; apply AF_panic. }
  rewrite (resetForRetry_eq st rnd si Ei). unfold retry_result, retry_folds.
  set (st2 := fold_left retry_q (h_list (spH si)) (st_bif st 0)).
  assert (A2 : AppFrame st st2).
  { eapply AF_trans; [apply AF_bif|]. apply AF_fold. intros s x. unfold retry_q. destruct (ackEliciting (snd x)); [apply AF_queue|apply AF_refl]. }
  set (st3 := fold_left retry_q (h_list (spH (sApp st2))) st2).
  assert (A3 : AppFrame st st3).
  { eapply AF_trans; [exact A2|]. apply AF_fold. intros s x. unfold retry_q. destruct (ackEliciting (snd x)); [apply AF_queue|apply AF_refl]. }
  destruct A3 as [_ [Hg _]].
  destruct (retry_app_space_spec T (spG (sApp st3)) rnd) as [_ [Ln [_ [Hge [Hsk _]]]]].
  { rewrite Hg. apply (sw_gnext _ _ _ (b_app _ _ B)). }
  set (na := retry_app_space (spG (sApp st3)) rnd) in *.
  split.
  - intros _ p Hp. unfold gnext, appH in *. cbn [sApp st_pto st_alarm st_spaces] in *. apply Hsk in Hp. lia.
  - intros p [Kp _]. unfold kept, gnext, below, appH in *. cbn [sApp st_pto st_alarm st_spaces].
    rewrite Hg in Hge. split; [lia|right]. rewrite Ln. intros x [].
Qed.

(** every op keeps the retention invariant *)
Lemma step_keeps T st oo : Inv T st -> keeps st (fst (step st oo)).
Proof.
  intros I. pose proof (Inv_Good _ _ I) as G. destruct I as [B S]. destruct oo as [o orc].
  unfold step. rewrite (b_panic _ _ B). cbn [Z.eqb negb orb].
  destruct (op_valid st o) eqn:Ev; cbn [negb]; [|apply keeps_refl].
  destruct o as [l t la sfs fs size mtu probe rnd|l now delay rs|now rnd|l now|now rnd|now|n now|l now|l|now cs hb]; cbn [op_valid] in Ev.
  - apply andb_prop in Ev as [Ev Hnil]. apply andb_prop in Ev as [Ev Hpr]. apply andb_prop in Ev as [Ev Hsz]. apply andb_prop in Ev as [Hlive Hl].
    destruct (space_live_sget st l Hl Hlive) as [s Hs].
    pose proof (send_keeps T st orc l t la sfs fs size mtu probe rnd s B Hl Hs) as X.
    destruct (popPN st l rnd) as [st1 pn]. exact X.
  - pose proof (AF_receivedAck st orc rs l now) as X. destruct (receivedAck st orc rs l now) as [[st' a1] err]. apply keeps_frame. exact X.
  - apply (onTimeout_keeps T). exact G.
  - apply keeps_frame. apply AF_dropPackets.
  - apply (resetForRetry_keeps T). exact B.
  - apply keeps_frame. apply AF_migratedPath.
  - apply keeps_frame. apply AF_receivedBytes.
  - apply keeps_frame. apply AF_receivedPacket.
  - pose proof (AF_queueProbe st l) as X. destruct (queueProbePacket st l) as [st' b]. apply keeps_frame. exact X.
  - apply keeps_refl.
Qed.

Lemma run_keeps ops : forall st, Inv false st -> keeps st (run st ops) /\ Inv false (run st ops).
Proof.
  induction ops as [|oo r IH]; intros st I; cbn [run fold_left]; [split; [apply keeps_refl|exact I]|].
  assert (I' : Inv false (fst (step st oo))) by (apply step_inv; [exact I|intros Hf; discriminate Hf]).
  destruct (IH _ I') as [K1 I2]. split; [|exact I2]. eapply keeps_trans; [apply (step_keeps false); exact I|exact K1].
Qed.

Lemma run_app st a b : run st (a ++ b) = run (run st a) b.
Proof. unfold run. apply fold_left_app. Qed.

Lemma bounded_init client validated ipn period maxPeriod rnd0 : sk_bounded (init client validated ipn period maxPeriod rnd0).
Proof. intros p Hp. cbn in Hp. destruct Hp. Qed.

(** History-level retention: a number that was recorded as skipped at some point of a history and is not
    below every packet still tracked in the application-data space is still recorded at the end. *)
Theorem skipped_kept client validated ipn period maxPeriod rnd0 ops n p :
  0 <= ipn ->
  let i := init client validated ipn period maxPeriod rnd0 in
  In p (hSkipped (spH (sApp (run i (firstn n ops))))) ->
  (exists x, In x (h_list (spH (sApp (run i ops)))) /\ fst x <= p) ->
  In p (hSkipped (spH (sApp (run i ops)))).
Proof.
  intros Hi i Hin [x [Hx Hle]].
  pose proof (Inv_init false client validated ipn period maxPeriod rnd0 Hi) as I0. fold i in I0.
  destruct (run_keeps (firstn n ops) i I0) as [[Kb _] I1].
  specialize (Kb (bounded_init _ _ _ _ _ _)).
  destruct (run_keeps (skipn n ops) (run i (firstn n ops)) I1) as [[_ Kk] _].
  rewrite <- run_app, firstn_skipn in Kk.
  destruct (Kk p) as [_ [H|H]].
  - split; [apply Kb; exact Hin|left; exact Hin].
  - exact H.
  - specialize (H x Hx). lia.
Qed.

(** ... hence an ACK covering it is a PROTOCOL_VIOLATION and changes nothing. *)
Theorem ack_ever_skipped client validated ipn period maxPeriod rnd0 ops n p orc now delay rs :
  0 <= ipn ->
  let i := init client validated ipn period maxPeriod rnd0 in
  let st := run i ops in
  In p (hSkipped (spH (sApp (run i (firstn n ops))))) ->
  (exists x, In x (h_list (spH (sApp st))) /\ fst x <= p) ->
  op_valid st (OAck sph_Enc1RTT now delay rs) = true -> acks_pn rs p = true ->
  exists st' c, step st (OAck sph_Enc1RTT now delay rs, orc) = (st', c) /\
  (c = 1 \/ c = 2) /\ sCbs st' = sCbs st /\ sBif st' = sBif st /\
  sInit st' = sInit st /\ sHs st' = sHs st /\ sApp st' = sApp st.
Proof.
  intros Hi i st Hin Hx Hv Ha.
  apply (ack_skipped st orc now delay rs p); auto.
  - pose proof (Inv_init false client validated ipn period maxPeriod rnd0 Hi) as I0.
    destruct (run_keeps ops _ I0) as [_ [B _]]. apply (b_panic _ _ B).
  - apply (skipped_kept client validated ipn period maxPeriod rnd0 ops n p Hi Hin Hx).
Qed.
