(** What a key discard does to the frames of the discarded space: nothing is reported (neither OnAcked nor
    OnLost, hence nothing is requeued by loss recovery), the space disappears, and bytesInFlight drops by exactly the
    in-flight bytes of that space. *)
From Coq Require Import List ZArith Bool Lia.
From V Require Import Gen.Params SentPH.Model SentPH.ProofsHist SentPH.ProofsBase SentPH.ProofsOps SentPH.ProofsOps2
  SentPH.ProofsOps3 SentPH.ProofsMain.
Import ListNotations.
Open Scope Z_scope.

Lemma drop_effect T st o l now s :
  Good T st -> (l = sph_EncInitial \/ l = sph_EncHandshake) -> sget st (slot_of l) = Some s ->
  let st' := dropPackets st o l now in
  sCbs st' = sCbs st /\ sBif st' = sBif st - msum f_incl (h_list (spH s)) /\ sget st' (slot_of l) = None /\
  (forall k, k <> slot_of l -> sget st' k = sget st k).
Proof.
  intros G Hl Hs. unfold dropPackets.
  set (st0 := if sClient st && (l =? sph_EncHandshake) then st_flags st true (sPAV st) (sConf st) else st).
  assert (E0 : sCbs st0 = sCbs st /\ sBif st0 = sBif st /\ (forall k, sget st0 k = sget st k)).
  { unfold st0. destruct (sClient st && (l =? sph_EncHandshake)); repeat split; auto; intros [| |]; reflexivity. }
  destruct E0 as [C0 [B0 S0]].
  assert (G0 : Good T st0).
  { unfold st0. destruct (sClient st && (l =? sph_EncHandshake)); [|exact G].
    eapply Good_Acct; [exact G|apply Acct_pcav; apply G]. }
  assert (Hl' : lvl_ok l = true) by (destruct Hl as [-> | ->]; reflexivity).
  assert (Hor : (l =? sph_EncInitial) || (l =? sph_EncHandshake) = true).
  { destruct Hl as [-> | ->]; reflexivity. }
  rewrite Hor. rewrite (get_space_slot st0 l Hl'), S0, Hs.
  destruct (fold_rm_bif (h_list (spH s)) st0) as [S [C Hb]].
  { intros x Hx. eapply (f_incl_nonneg_pk st0 T (slot_of l)); [apply G0|]. unfold pk. rewrite S0, Hs. exact Hx. }
  { pose proof (msum_pk_le_bif T st0 (slot_of l) G0) as X. unfold pk in X. rewrite S0, Hs in X. exact X. }
  set (st1 := fold_left (fun st x => rm_bif st (snd x)) (h_list (spH s)) st0) in *.
  assert (S1 : forall k, sget st1 k = sget st k) by (intros k; rewrite (same_sp_sget _ _ _ S); apply S0).
  destruct Hl as [-> | ->].
  - change (sph_EncInitial =? sph_EncInitial) with true. cbn iota. cbn [sCbs sBif setTimer st_alarm st_pto st_spaces].
    repeat split; try congruence; try lia.
    all: try (intros k Hk; pose proof (S1 k) as X; destruct k; cbn in *; try congruence; exfalso; apply Hk; reflexivity).
  - change (sph_EncHandshake =? sph_EncInitial) with false. cbn iota. cbn [sCbs sBif setTimer st_alarm st_pto st_spaces st_flags].
    repeat split; try congruence; try lia.
    all: try (intros k Hk; pose proof (S1 k) as X; destruct k; cbn in *; try congruence; exfalso; apply Hk; reflexivity).
Qed.

Theorem drop_discards client validated ipn period maxPeriod rnd0 ops l now orc s :
  0 <= ipn ->
  let st := run (init client validated ipn period maxPeriod rnd0) ops in
  (l = sph_EncInitial \/ l = sph_EncHandshake) -> get_space st l = Some s ->
  let st' := fst (step st (ODrop l now, orc)) in
  sCbs st' = sCbs st /\ sBif st' = sBif st - msum f_incl (h_list (spH s)) /\ get_space st' l = None /\
  (forall l', lvl_ok l' = true -> slot_of l' <> slot_of l -> get_space st' l' = get_space st l').
Proof.
  intros Hi st Hl Hg. cbn zeta. unfold st in *. clear st.
  pose proof (grun_acct false ops (init client validated ipn period maxPeriod rnd0) [] [] (Inv_init false _ _ _ _ _ _ Hi)) as X.
  rewrite <- (grun_run _ [] [] ops) in *. destruct (grun _ [] [] ops) as [[st0 D] H]. cbn [fst] in *.
  destruct X as [I _]; [rewrite Forall_forall; intros oo _ Hf; discriminate|intros id; rewrite E_init; reflexivity|].
  assert (Hl' : lvl_ok l = true) by (destruct Hl as [-> | ->]; reflexivity).
  unfold step. rewrite (b_panic _ _ (proj1 I)). cbn [Z.eqb negb orb op_valid].
  assert (Hv : (l =? sph_EncInitial) || (l =? sph_EncHandshake) || (l =? sph_Enc0RTT) = true) by (destruct Hl as [-> | ->]; reflexivity).
  rewrite Hv. cbn [negb fst].
  rewrite (get_space_slot _ l Hl') in Hg.
  destruct (drop_effect false st0 orc l now s (Inv_Good _ _ I) Hl Hg) as [A [B [C D']]].
  split; [exact A|split; [exact B|split]].
  - rewrite (get_space_slot _ l Hl'). exact C.
  - intros l' Hl2 Hne. rewrite !(get_space_slot _ l' Hl2). apply D'. exact Hne.
Qed.
