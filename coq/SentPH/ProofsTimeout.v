(** OnLossDetectionTimeout, ReceivedBytes, ReceivedPacket. *)
From Coq Require Import List ZArith Bool Lia.
From V Require Import Gen.Params SentPH.Model SentPH.ProofsHist SentPH.ProofsBase SentPH.ProofsOps SentPH.ProofsOps2 SentPH.ProofsOps3 SentPH.ProofsSend.
Import ListNotations.
Open Scope Z_scope.

Lemma loss_space st lt lv : getLossTimeAndSpace st = (lt, lv) -> lt <> 0 -> lvl_ok lv = true /\ sget st (slot_of lv) <> None.
Proof.
  unfold getLossTimeAndSpace. intros H Hne.
  destruct (sInit st) as [si|] eqn:Ei; destruct (sHs st) as [sh|] eqn:Eh;
    repeat match type of H with
           | context [if ?c then _ else _] => destruct c
           end; inversion H; subst; try (split; [reflexivity|cbn; congruence]); try congruence.
Qed.

Lemma pto_space T st o now pt lv : Base T st -> getPTOTimeAndSpace st o now = (pt, lv) -> pt <> 0 -> lvl_ok lv = true /\ sget st (slot_of lv) <> None.
Proof.
  intros B. unfold getPTOTimeAndSpace. intros H Hne.
  destruct (negb (sConf st) && negb (hasOutstandingCrypto st)) eqn:Ec.
  - destruct (sPCAV st); [inversion H; subst; congruence|].
    destruct (sInit st) as [si|] eqn:Ei; inversion H; subst; [split; [reflexivity|cbn; congruence]|].
    split; [reflexivity|]. change (slot_of sph_EncHandshake) with SH. cbn. intros Eh.
    destruct (b_hsdrop _ _ B Eh) as [Hc _]. rewrite Hc in Ec. discriminate.
  - clear Ec. destruct (sInit st) as [si|] eqn:Ei; destruct (sHs st) as [sh|] eqn:Eh;
    repeat match type of H with
           | context [if ?c then _ else _] => destruct c
           end; inversion H; subst; try (split; [reflexivity|cbn; congruence]); try congruence.
Qed.

Lemma onTimeout_spec T st o now rnd : Good T st -> Acct T [] [] st (fst (onTimeout st o now rnd)).
Proof.
  intros G. unfold onTimeout.
  set (st1 := if sConf st then detectLostPathProbes st now else st).
  assert (P1 : Pres T 0 st st1).
  { unfold st1. destruct (sConf st); [apply detectLostPathProbes_spec; exact G|apply Pres_refl; apply G]. }
  assert (G1 : Good T st1) by (eapply Good_Pres; eauto).
  eapply Acct_Pres_l; [exact P1|]. clearbody st1. clear P1 G st. rename st1 into st. rename G1 into G.
  destruct (getLossTimeAndSpace st) as [lt lv] eqn:El.
  assert (Fin : forall stx, Acct T [] [] st stx -> Acct T [] [] st (setTimer stx o now)).
  { intros stx A. eapply Acct_Pres_r; [exact A|]. apply setTimer_pres. apply (a_base _ _ _ _ _ A). }
  destruct (Z.eqb_spec lt 0) as [Elt|Elt]; cbn [negb].
  2:{ destruct (loss_space st lt lv El Elt) as [Hl Hlive]. cbn [fst]. apply Fin. apply Acct_of_Pres. apply detectLost_spec; auto. }
  destruct ((sBif st =? 0) && negb (sPCAV st)).
  { destruct (sInit st), (sHs st); cbn [fst]; apply Fin; apply Acct_of_Pres;
      (eapply Pres_trans with (d1 := 0) (d2 := 0); [apply st_pto_pres; apply G|]);
      try (apply st_pto_pres; eapply p_base; apply st_pto_pres; apply G); apply Pres_refl; eapply p_base; apply st_pto_pres; apply G. }
  destruct (getPTOTimeAndSpace st o now) as [pt lv'] eqn:Ep.
  destruct (Z.eqb_spec pt 0) as [Ept|Ept].
  { cbn [fst]. apply Fin. apply Acct_of_Pres. apply Pres_refl. apply G. }
  destruct (pto_space T st o now pt lv' (proj1 G) Ep Ept) as [Hl Hlive].
  rewrite (get_space_slot st lv' Hl). destruct (sget st (slot_of lv')) as [ps|] eqn:Eps; [|congruence].
  destruct (negb (h_hasOut (spH ps)) && negb (h_hasProbes (spH ps)) && negb (sPCAV st)).
  { cbn [fst]. apply Fin. apply Acct_of_Pres. apply Pres_refl. apply G. }
  set (st2 := st_pto st (sPtoC st + 1) (sPtoM st) (sProbes st + 2)).
  assert (P2 : Pres T 0 st st2) by (apply st_pto_pres; apply G).
  assert (B2 : Base T st2) by apply (p_base _ _ _ _ P2).
  destruct (lv' =? sph_EncInitial).
  { cbn [fst]. apply Fin. apply Acct_of_Pres. replace 0 with (0 + 0) by lia. eapply Pres_trans; [exact P2|]. apply st_pto_pres. exact B2. }
  destruct (lv' =? sph_EncHandshake).
  { cbn [fst]. apply Fin. apply Acct_of_Pres. replace 0 with (0 + 0) by lia. eapply Pres_trans; [exact P2|]. apply st_pto_pres. exact B2. }
  destruct (lv' =? sph_Enc1RTT).
  2:{ cbn [fst]. apply Fin. apply Acct_of_Pres. exact P2. }
  destruct (popPN_eq T st2 sph_Enc1RTT rnd (sApp st2) B2 lvl_ok_1rtt eq_refl) as [s1 [pn [Eq [[Q1 Q2 Q3 Q4 Q5 Q6 Q7 Q8 Q9] [L1 [L2 L3]]]]]].
  rewrite Eq. rewrite slot_1rtt. cbn [sApp sset st_spaces]. rewrite Q6.
  assert (Hpn : pn <> -1) by lia.
  destruct (h_skipped_spec (spH s1) pn Q1 Q6 Hpn) as [K1 [K2 [K3 [K4 K5]]]].
  cbn [fst]. apply Fin. eapply Acct_Pres_l; [exact P2|].
  pose proof (b_app _ _ B2) as [W1 W2 W3 W4 W4a W4b W5 W6 W7].
  set (s2 := sp_setH s1 (h_skipped (spH s1) pn)).
  apply Acct_replace with (k := SA) (s := sApp st2) (s2 := s2);
    [exact B2|reflexivity|reflexivity|intros [| |] Hne; try congruence; reflexivity| |
     apply (b_panic _ _ B2)|reflexivity|reflexivity|reflexivity|reflexivity| | ].
  - constructor; cbn [s2 spH sp_setH spG spLastAE].
    + exact K1.
    + rewrite K2, Q2. exact W2.
    + rewrite K3, Q3. exact W3.
    + discriminate.
    + rewrite K3, Q3. exact W4a.
    + rewrite K3, Q3, K4. rewrite Forall_forall. intros x Hx. specialize (Q9 x Hx). lia.
    + lia.
    + rewrite K4. intros _. exact Q8.
    + rewrite K5, Q4, Q5. exact W7.
  - cbn [s2 spH sp_setH]. rewrite K2, Q2. reflexivity.
  - intros id. cbn [s2 spH sp_setH]. rewrite K2, K3, Q2, Q3, cnt_nil. lia.
Qed.

Lemma Acct_bytes T st a b : Base T st -> Acct T [] [] st (st_bytes st a b).
Proof.
  intros B. constructor.
  - destruct B as [B1 B2 B3 B4 B5 B6]. constructor; auto.
  - reflexivity.
  - intros id. reflexivity.
Qed.

Lemma receivedBytes_spec T st o n t : Base T st -> Acct T [] [] st (receivedBytes st o n t).
Proof.
  intros B. unfold receivedBytes. pose proof (Acct_bytes T st (sRecv st + n) (sSent st) B) as A.
  destruct (isAmplificationLimited st && negb (isAmplificationLimited (st_bytes st (sRecv st + n) (sSent st)))); [|exact A].
  eapply Acct_Pres_r; [exact A|]. apply setTimer_pres. apply (a_base _ _ _ _ _ A).
Qed.

Lemma receivedPacket_spec T st o l t : Base T st -> Acct T [] [] st (receivedPacket st o l t).
Proof.
  intros B. unfold receivedPacket.
  destruct (negb (sClient st) && (l =? sph_EncHandshake) && negb (sPAV st)); [|apply Acct_of_Pres; apply Pres_refl; exact B].
  assert (A : Acct T [] [] st (st_flags st (sPCAV st) true (sConf st))).
  { constructor; [destruct B as [B1 B2 B3 B4 B5 B6]; constructor; auto|reflexivity|intros id; reflexivity]. }
  eapply Acct_Pres_r; [exact A|]. apply setTimer_pres. apply (a_base _ _ _ _ _ A).
Qed.
