(** Frame conditions on the handler's scalar fields, reachable-state facts about them, and the three
    history-level theorems built on them: the send gate (with the congestion controller's window as a
    constrained oracle), the anti-amplification bound, and the client's anti-deadlock timer. *)
From Coq Require Import List ZArith Bool Lia.
From V Require Import Gen.Params SentPH.Model SentPH.ProofsHist SentPH.ProofsBase SentPH.ProofsOps SentPH.ProofsOps2
  SentPH.ProofsOps3 SentPH.ProofsAck SentPH.ProofsSend SentPH.ProofsTimeout SentPH.ProofsMain SentPH.ProofsAckRules
  SentPH.ProofsTimer SentPH.ProofsSkipped.
From V Require Congestion.Model.
Import ListNotations.
Open Scope Z_scope.

(** scalar frame: nothing but spaces, bytesInFlight, logs, loss bookkeeping, ptoCount/numProbes and the alarm change *)
Definition SF (st st' : state) : Prop :=
  sPtoM st' = sPtoM st /\ sSent st' = sSent st /\ sRecv st' = sRecv st /\ sPAV st' = sPAV st /\
  sClient st' = sClient st /\ sConf st' = sConf st /\ sPCAV st' = sPCAV st /\ sIPN st' = sIPN st.

Lemma SF_refl st : SF st st. Proof. unfold SF. repeat split. Qed.
Lemma SF_trans a b c : SF a b -> SF b c -> SF a c.
Proof. unfold SF. intuition congruence. Qed.

Ltac sf_crush :=
  repeat match goal with
         | |- context [if ?c then _ else _] => destruct c
         | |- context [match ?x with Some _ => _ | None => _ end] => destruct x
         | |- context [let '(_, _) := ?x in _] => destruct x
         end; unfold SF; cbn; repeat split; reflexivity.

Lemma SF_fold {A} (f : state -> A -> state) l : (forall st x, SF st (f st x)) -> forall st, SF st (fold_left f l st).
Proof. intros H. induction l as [|x l IH]; intros st; cbn [fold_left]; [apply SF_refl|]. eapply SF_trans; [apply H|apply IH]. Qed.

Lemma SF_set_space st l s : SF st (set_space st l s).
Proof. unfold set_space. sf_crush. Qed.
Lemma SF_panic st c : SF st (panic c st). Proof. unfold SF. cbn. repeat split. Qed.
Lemma SF_rm_bif st p : SF st (rm_bif st p). Proof. unfold rm_bif. sf_crush. Qed.
Lemma SF_queue st p : SF st (queue_frames st p). Proof. unfold queue_frames. sf_crush. Qed.
Lemma SF_setTimer st o now : SF st (setTimer st o now). Proof. unfold SF. cbn. repeat split. Qed.
Lemma SF_emit st e : SF st (emit e st). Proof. unfold SF. cbn. repeat split. Qed.
Lemma SF_callbacks st b ids : SF st (callbacks b ids st). Proof. unfold SF. cbn. repeat split. Qed.
Lemma SF_lost st l : SF st (st_lost st l). Proof. unfold SF. cbn. repeat split. Qed.
Lemma SF_lat st l : SF st (st_lat st l). Proof. unfold SF. cbn. repeat split. Qed.
Lemma SF_bif st l : SF st (st_bif st l). Proof. unfold SF. cbn. repeat split. Qed.
Lemma SF_pto_same st c n : SF st (st_pto st c (sPtoM st) n). Proof. unfold SF. cbn. repeat split. Qed.
Lemma SF_spaces st a b c : SF st (st_spaces st a b c). Proof. unfold SF. cbn. repeat split. Qed.

Lemma SF_declareLost st l pn : SF st (st_declareLost st l pn).
Proof.
  unfold st_declareLost. destruct (get_space st l); [|apply SF_panic]. destruct (h_declareLost _ _) as [h c].
  destruct (c =? 0); [apply SF_set_space|eapply SF_trans; [apply SF_set_space|apply SF_panic]].
Qed.
Lemma SF_remove st l pn : SF st (st_remove st l pn).
Proof.
  unfold st_remove. destruct (get_space st l); [|apply SF_panic]. destruct (h_remove _ _) as [h c].
  destruct (c =? 0); [apply SF_set_space|eapply SF_trans; [apply SF_set_space|apply SF_panic]].
Qed.

Ltac ifd := match goal with |- SF _ (if ?c then _ else _) => destruct c end.

Lemma SF_lost_one now ld l la prior sk st x : SF st (lost_one now ld l la prior sk st x).
Proof.
  unfold lost_one. destruct x as [pn p]. ifd; [apply SF_refl|]. ifd.
  - eapply SF_trans; [|]; [instantiate (1 := if is_app l then st_lost st (lt_add (sLost st) pn (pTime p)) else st); destruct (is_app l); [apply SF_lost|apply SF_refl]|].
    eapply SF_trans; [apply SF_declareLost|]. ifd; [|apply SF_refl].
    eapply SF_trans; [apply SF_rm_bif|]. eapply SF_trans; [apply SF_queue|]. ifd; [apply SF_emit|apply SF_refl].
  - destruct (get_space st l); [|apply SF_refl]. ifd; [apply SF_set_space|apply SF_refl].
Qed.

Lemma SF_detectLost st o now l : SF st (detectLost st o now l).
Proof.
  unfold detectLost. destruct (get_space st l); [|apply SF_panic].
  eapply SF_trans; [apply SF_set_space|]. apply SF_fold. intros. apply SF_lost_one.
Qed.

Lemma SF_probe_lost_one st x : SF st (probe_lost_one st x).
Proof. destruct x. unfold probe_lost_one, SF. cbn. repeat split. Qed.
Lemma SF_detectLostPathProbes st now : SF st (detectLostPathProbes st now).
Proof. unfold detectLostPathProbes. ifd; [apply SF_refl|]. apply SF_fold. intros. apply SF_probe_lost_one. Qed.

Lemma SF_ack_one l st x : SF st (ack_one l st x).
Proof.
  destruct x as [pn p]. unfold ack_one. eapply SF_trans; [|apply SF_remove]. eapply SF_trans; [|apply SF_callbacks].
  ifd; [apply SF_emit|apply SF_refl].
Qed.

Lemma SF_detectAndRemoveAcked st rs l : SF st (fst (fst (fst (detectAndRemoveAcked st rs l)))).
Proof.
  unfold detectAndRemoveAcked. destruct (get_space st l); [|cbn; apply SF_panic].
  destruct (_ && _); [cbn; apply SF_refl|].
  destruct (collect _ _ _ _ _ _ _ _) as [[[probes acc] hasAE] bug].
  destruct bug; cbn [fst]; [eapply SF_trans; [apply SF_set_space|apply SF_panic]|].
  eapply SF_trans; [apply SF_set_space|]. apply SF_fold. intros. apply SF_ack_one.
Qed.

Lemma SF_acked_one prior acked : forall st a1, SF st (fst (fold_left (acked_one prior) acked (st, a1))).
Proof.
  induction acked as [|[pn q] acked IH]; intros st a1; cbn [fold_left fst]; [apply SF_refl|].
  cbn [acked_one]. eapply SF_trans; [|apply IH]. eapply SF_trans; [|apply SF_rm_bif]. ifd; [apply SF_emit|apply SF_refl].
Qed.

Lemma SF_popPN st l rnd : SF st (fst (popPN st l rnd)).
Proof.
  unfold popPN. destruct (get_space st l); [|cbn; apply SF_panic]. destruct (g_pop _ _) as [[sk pn] g].
  destruct sk; cbn [fst]; [|apply SF_set_space]. ifd; [eapply SF_trans; [apply SF_set_space|apply SF_panic]|apply SF_set_space].
Qed.

Lemma SF_queueProbe st l : SF st (fst (queueProbePacket st l)).
Proof.
  unfold queueProbePacket. destruct (get_space st l); [|cbn; apply SF_panic].
  destruct (h_firstOutstanding _) as [[pn p]|]; cbn [fst]; [|apply SF_refl].
  eapply SF_trans; [apply SF_declareLost|]. eapply SF_trans; [apply SF_rm_bif|apply SF_queue].
Qed.

Lemma SF_migrate_one st x : SF st (migrate_one st x).
Proof.
  destruct x as [pn p]. unfold migrate_one. eapply SF_trans; [apply SF_declareLost|].
  ifd; [|apply SF_refl]. eapply SF_trans; [apply SF_rm_bif|]. ifd; [apply SF_queue|apply SF_refl].
Qed.
Lemma SF_migratedPath st o now : SF st (migratedPath st o now).
Proof.
  unfold migratedPath. eapply SF_trans; [apply (SF_fold migrate_one); intros; apply SF_migrate_one|].
  eapply SF_trans; [apply SF_spaces|apply SF_setTimer].
Qed.

Lemma SF_drop0rtt items : forall st, SF st (drop0rtt items st).
Proof.
  induction items as [|[pn p] items IH]; intros st; cbn [drop0rtt]; [apply SF_refl|].
  ifd; [apply SF_refl|]. destruct (h_remove _ _) as [h c].
  eapply SF_trans; [|apply IH]. eapply SF_trans; [apply SF_rm_bif|].
  ifd; [apply SF_spaces|eapply SF_trans; [apply SF_spaces|apply SF_panic]].
Qed.

Lemma SF_resetForRetry st rnd : SF st (resetForRetry st rnd).
Proof.
  destruct (sInit st) as [si|] eqn:Ei; [|unfold resetForRetry; rewrite Ei; apply SF_panic].
  rewrite (resetForRetry_eq st rnd si Ei). unfold retry_result, retry_folds.
  assert (Q : forall s0 x, SF s0 (retry_q s0 x)) by (intros s0 x; unfold retry_q; ifd; [apply SF_queue|apply SF_refl]).
  eapply SF_trans; [apply SF_bif|]. eapply SF_trans; [apply (SF_fold retry_q); exact Q|].
  eapply SF_trans; [apply (SF_fold retry_q); exact Q|].
  unfold SF. cbn. repeat split.
Qed.

(** ** op-level scalar facts *)
Definition ptoM_ok (st : state) : Prop :=
  sPtoM st = sph_SendNone \/ sPtoM st = sph_SendPTOInitial \/ sPtoM st = sph_SendPTOHandshake \/ sPtoM st = sph_SendPTOAppData.

(* reachable-state facts about the flags *)
Definition X (st : state) : Prop :=
  ptoM_ok st /\ (sClient st = true -> sPAV st = true) /\ (sConf st = true -> sPCAV st = true).

Lemma X_SF st st' : SF st st' -> X st -> X st'.
Proof. intros [A [_ [_ [B [C [D [F _]]]]]]] [X1 [X2 X3]]. unfold X, ptoM_ok. rewrite A, B, C, D, F. auto. Qed.

Lemma X_alarm st a : X (st_alarm st a) <-> X st. Proof. unfold X, ptoM_ok. cbn. tauto. Qed.

(* SentPacket changes bytesSent only *)
Definition SFs (size : Z) (st st' : state) : Prop :=
  sPtoM st' = sPtoM st /\ sSent st' = sSent st + size /\ sRecv st' = sRecv st /\ sPAV st' = sPAV st /\
  sClient st' = sClient st /\ sConf st' = sConf st /\ sPCAV st' = sPCAV st /\ sIPN st' = sIPN st.

Lemma sentPacket_sc st o t pn la sfs fs l size mtu probe : SFs size st (sentPacket st o t pn la sfs fs l size mtu probe).
Proof.
  unfold sentPacket.
  repeat match goal with
         | |- context [if ?c then _ else _] => destruct c
         | |- context [match get_space ?a ?b with Some _ => _ | None => _ end] => destruct (get_space a b)
         end;
    unfold set_space;
    repeat match goal with |- context [if ?c then _ else _] => destruct c end;
    unfold SFs; cbn; repeat split; reflexivity.
Qed.

Lemma send_sc st o l t la sfs fs size mtu probe rnd :
  SFs size st (sentPacket (fst (popPN st l rnd)) o t (snd (popPN st l rnd)) la sfs fs l size mtu probe).
Proof.
  pose proof (SF_popPN st l rnd) as P. destruct (popPN st l rnd) as [st1 pn]. cbn [fst snd] in *.
  pose proof (sentPacket_sc st1 o t pn la sfs fs l size mtu probe) as Q. unfold SF, SFs in *. intuition congruence.
Qed.

Lemma X_SFs size st st' : SFs size st st' -> X st -> X st'.
Proof. intros [A [_ [_ [B [C [D [F _]]]]]]] [X1 [X2 X3]]. unfold X, ptoM_ok. rewrite A, B, C, D, F. auto. Qed.

(* variant: peerCompletedAddressValidation may flip to true *)
Definition SFm (st st' : state) : Prop :=
  sPtoM st' = sPtoM st /\ sSent st' = sSent st /\ sRecv st' = sRecv st /\ sPAV st' = sPAV st /\
  sClient st' = sClient st /\ sConf st' = sConf st /\ (sPCAV st = true -> sPCAV st' = true) /\ sIPN st' = sIPN st.
Lemma SFm_of_SF a b : SF a b -> SFm a b. Proof. unfold SF, SFm. intuition congruence. Qed.
Lemma SFm_trans a b c : SFm a b -> SFm b c -> SFm a c. Proof. unfold SFm. intuition congruence. Qed.
Lemma X_SFm st st' : SFm st st' -> X st -> X st'.
Proof. intros [A [_ [_ [B [C [D [F _]]]]]]] [X1 [X2 X3]]. unfold X, ptoM_ok. rewrite A, B, C, D. auto. Qed.

Lemma receivedAck_sfm st o rs l now : SFm st (fst (fst (receivedAck st o rs l now))).
Proof.
  unfold receivedAck. destruct (get_space st l) as [s0|]; [|cbn; apply SFm_of_SF, SF_panic].
  destruct (_ || _); [cbn; apply SFm_of_SF, SF_refl|].
  match goal with |- context [detectAndRemoveAcked ?Y rs l] => set (st_a := Y) end.
  assert (Aa : SFm st st_a).
  { unfold st_a. match goal with |- SFm _ (if ?c then _ else _) => destruct c end; [|apply SFm_of_SF, SF_refl].
    unfold SFm. cbn. repeat split; auto. }
  pose proof (SF_detectAndRemoveAcked st_a rs l) as Ab.
  destruct (detectAndRemoveAcked st_a rs l) as [[[st_b acked] hasAE] err]. cbn [fst] in Ab.
  assert (Aab : SFm st st_b) by (eapply SFm_trans; [exact Aa|apply SFm_of_SF; exact Ab]).
  destruct (negb (err =? 0) || isnil acked); [cbn; exact Aab|].
  destruct (last acked (0, placeholder)) as [lpn lp].
  match goal with |- context [get_space ?Y l] => set (st_c := Y) end.
  assert (Ac : SF st_b st_c).
  { unfold st_c. match goal with |- SF _ (if ?c then _ else _) => destruct c end; [|apply SF_refl].
    eapply SF_trans; [|apply SF_emit]. match goal with |- SF _ (if ?c then _ else _) => destruct c end; [apply SF_lat|apply SF_refl]. }
  destruct (get_space st_c l) as [sc|] eqn:Hg; [|cbn; eapply SFm_trans; [exact Aab|apply SFm_of_SF; eapply SF_trans; [exact Ac|apply SF_panic]]].
  match goal with |- context [detectLost ?Y o now l] => set (st_d := Y) end.
  assert (Ad : SF st_c st_d) by apply SF_set_space.
  set (st_e := detectLost st_d o now l).
  match goal with |- context [fold_left (acked_one ?pr) acked (?Y, false)] => set (st_f := Y); pose proof (SF_acked_one pr acked st_f false) as Ag;
    destruct (fold_left (acked_one pr) acked (st_f, false)) as [st_g a1] end.
  cbn [fst] in *.
  assert (Af : SF st_e st_f).
  { unfold st_f. match goal with |- SF _ (if ?c then _ else _) => destruct c end; [apply SF_detectLostPathProbes|apply SF_refl]. }
  eapply SFm_trans; [exact Aab|]. apply SFm_of_SF.
  eapply SF_trans; [exact Ac|]. eapply SF_trans; [exact Ad|]. eapply SF_trans; [apply SF_detectLost|].
  eapply SF_trans; [exact Af|]. eapply SF_trans; [exact Ag|].
  eapply SF_trans; [|apply SF_setTimer].
  match goal with |- SF st_g (st_pto ?Z _ _ _) => assert (Ai : SF st_g Z) end.
  { match goal with |- SF st_g (if sPCAV ?W then _ else _) => assert (Ah : SF st_g W) end.
    { match goal with |- SF _ (if ?c then _ else _) => destruct c end; [apply SF_lost|apply SF_refl]. }
    match goal with |- SF _ (if ?c then _ else _) => destruct c end; [eapply SF_trans; [exact Ah|apply SF_pto_same]|exact Ah]. }
  eapply SF_trans; [exact Ai|apply SF_pto_same].
Qed.

(* variant: ptoMode may be set to one of the PTO modes / none *)
Definition SFp (st st' : state) : Prop :=
  (sPtoM st' = sPtoM st \/ ptoM_ok st') /\ sSent st' = sSent st /\ sRecv st' = sRecv st /\ sPAV st' = sPAV st /\
  sClient st' = sClient st /\ sConf st' = sConf st /\ sPCAV st' = sPCAV st /\ sIPN st' = sIPN st.
Lemma SFp_of_SF a b : SF a b -> SFp a b. Proof. unfold SF, SFp. intuition. Qed.
Lemma SFp_SF a b c : SF a b -> SFp b c -> SFp a c.
Proof. unfold SF, SFp. intros [A1 A] [[B1|B1] B]; (split; [|intuition congruence]); [left; congruence|right; exact B1]. Qed.
Lemma SFp_SF_r a b c : SFp a b -> SF b c -> SFp a c.
Proof.
  unfold SF, SFp, ptoM_ok. intros [[A1|A1] A] [B1 B]; (split; [|intuition congruence]); [left; congruence|right; rewrite B1; exact A1].
Qed.
Lemma X_SFp st st' : SFp st st' -> X st -> X st'.
Proof. intros [A [_ [_ [B [C [D [F _]]]]]]] [X1 [X2 X3]]. unfold X. rewrite B, C, D, F. repeat split; auto. destruct A as [A|A]; [unfold ptoM_ok in *; rewrite A; exact X1|exact A]. Qed.

Lemma SFp_pto_const st c m n : ptoM_ok (st_pto st c m n) -> SFp st (st_pto st c m n).
Proof. intros H. unfold SFp. split; [right; exact H|cbn; repeat split]. Qed.

Lemma onTimeout_sfp st o now rnd : SFp st (fst (onTimeout st o now rnd)).
Proof.
  unfold onTimeout.
  set (st1 := if sConf st then detectLostPathProbes st now else st).
  assert (A1 : SF st st1) by (unfold st1; destruct (sConf st); [apply SF_detectLostPathProbes|apply SF_refl]).
  eapply SFp_SF; [exact A1|]. clearbody st1. clear A1 st. rename st1 into st.
  destruct (getLossTimeAndSpace st) as [lt lv].
  assert (Fin : forall Y, SFp st Y -> SFp st (setTimer Y o now)) by (intros Y K; eapply SFp_SF_r; [exact K|apply SF_setTimer]).
  assert (OkI : forall Y c n, ptoM_ok (st_pto Y c sph_SendPTOInitial n)) by (intros; right; left; reflexivity).
  assert (OkH : forall Y c n, ptoM_ok (st_pto Y c sph_SendPTOHandshake n)) by (intros; right; right; left; reflexivity).
  assert (OkA : forall Y c n, ptoM_ok (st_pto Y c sph_SendPTOAppData n)) by (intros; right; right; right; reflexivity).
  destruct (negb (lt =? 0)); [cbn [fst]; apply Fin; apply SFp_of_SF; apply SF_detectLost|].
  destruct ((sBif st =? 0) && negb (sPCAV st)).
  { destruct (sInit st), (sHs st); cbn [fst]; apply Fin.
    - eapply SFp_SF; [apply SF_pto_same|apply SFp_pto_const; apply OkI].
    - eapply SFp_SF; [apply SF_pto_same|apply SFp_pto_const; apply OkI].
    - eapply SFp_SF; [apply SF_pto_same|apply SFp_pto_const; apply OkH].
    - apply SFp_of_SF. apply SF_pto_same. }
  destruct (getPTOTimeAndSpace st o now) as [pt lv'].
  destruct (pt =? 0); [cbn [fst]; apply Fin; apply SFp_of_SF; apply SF_refl|].
  destruct (get_space st lv') as [ps|]; [|cbn [fst]; apply Fin; apply SFp_of_SF; apply SF_panic].
  destruct (_ && _ && _); [cbn [fst]; apply Fin; apply SFp_of_SF; apply SF_refl|].
  set (st2 := st_pto st (sPtoC st + 1) (sPtoM st) (sProbes st + 2)).
  assert (A2 : SF st st2) by apply SF_pto_same.
  destruct (lv' =? sph_EncInitial); [cbn [fst]; apply Fin; eapply SFp_SF; [exact A2|apply SFp_pto_const; apply OkI]|].
  destruct (lv' =? sph_EncHandshake); [cbn [fst]; apply Fin; eapply SFp_SF; [exact A2|apply SFp_pto_const; apply OkH]|].
  destruct (lv' =? sph_Enc1RTT); [|cbn [fst]; apply Fin; apply SFp_of_SF; exact A2].
  pose proof (SF_popPN st2 sph_Enc1RTT rnd) as A3. destruct (popPN st2 sph_Enc1RTT rnd) as [st3 pn]. cbn [fst] in *.
  apply Fin. eapply SFp_SF; [exact A2|]. eapply SFp_SF; [exact A3|].
  match goal with |- SFp st3 (st_pto ?Y _ _ _) => assert (A4 : SF st3 Y) end.
  { match goal with |- SF _ (if ?c then _ else _) => destruct c end; [eapply SF_trans; [apply SF_spaces|apply SF_panic]|apply SF_spaces]. }
  eapply SFp_SF; [exact A4|apply SFp_pto_const; apply OkA].
Qed.

Definition sent_size (st : state) (oo : op * oracle) : Z :=
  match fst oo with OSend _ _ _ _ _ size _ _ _ => if executed st (fst oo) then size else 0 | _ => 0 end.
Definition recv_size (st : state) (oo : op * oracle) : Z :=
  match fst oo with ORecvBytes n _ => if executed st (fst oo) then n else 0 | _ => 0 end.

Definition Sc (st st' : state) (ds dr : Z) : Prop :=
  (X st -> X st') /\ sSent st' = sSent st + ds /\ sRecv st' = sRecv st + dr /\
  (sPAV st = true -> sPAV st' = true) /\ sClient st' = sClient st /\ sIPN st' = sIPN st.

Lemma Sc_SF st Y : SF st Y -> Sc st Y 0 0.
Proof. intros F. split; [apply X_SF; exact F|]. destruct F as [S1 [S2 [S3 [S4 [S5 [S6 [S7 S8]]]]]]]. repeat split; try lia; congruence. Qed.
Lemma Sc_SFm st Y : SFm st Y -> Sc st Y 0 0.
Proof. intros F. split; [apply X_SFm; exact F|]. destruct F as [S1 [S2 [S3 [S4 [S5 [S6 [S7 S8]]]]]]]. repeat split; try lia; congruence. Qed.
Lemma Sc_SFp st Y : SFp st Y -> Sc st Y 0 0.
Proof. intros F. split; [apply X_SFp; exact F|]. destruct F as [S1 [S2 [S3 [S4 [S5 [S6 [S7 S8]]]]]]]. repeat split; try lia; congruence. Qed.


Lemma dropPackets_sc T st o l now : Base T (dropPackets st o l now) -> Sc st (dropPackets st o l now) 0 0.
Proof.
  intros BR. set (st' := dropPackets st o l now).
  assert (G : (ptoM_ok st' \/ sPtoM st' = sPtoM st) /\ sSent st' = sSent st /\ sRecv st' = sRecv st /\ sPAV st' = sPAV st /\
              sClient st' = sClient st /\ sIPN st' = sIPN st /\ (sConf st' = sConf st \/ sConf st' = true) /\
              (sPCAV st = true -> sPCAV st' = true) /\ (sConf st' = sConf st \/ sClient st = false \/ sPCAV st' = true)).
  { unfold st', dropPackets.
    match goal with |- context [get_space ?Y l] => set (st0 := Y) end.
    assert (A0 : sPtoM st0 = sPtoM st /\ sSent st0 = sSent st /\ sRecv st0 = sRecv st /\ sPAV st0 = sPAV st /\ sClient st0 = sClient st /\
                 sIPN st0 = sIPN st /\ sConf st0 = sConf st /\ (sPCAV st = true -> sPCAV st0 = true) /\
                 (sClient st = true -> l = sph_EncHandshake -> sPCAV st0 = true)).
    { unfold st0. destruct (sClient st) eqn:Ec; cbn [andb].
      - destruct (Z.eqb_spec l sph_EncHandshake); cbn; repeat split; auto; intros; congruence.
      - repeat split; auto. discriminate. }
    destruct A0 as [Z1 [Z2 [Z3 [Z4 [Z5 [Z6 [Z7 [Z8 Z9]]]]]]]].
    assert (Fin : forall Y, SF st0 Y ->
       let R := setTimer (st_pto Y 0 sph_SendNone 0) o now in
       (ptoM_ok R \/ sPtoM R = sPtoM st) /\ sSent R = sSent st /\ sRecv R = sRecv st /\ sPAV R = sPAV st /\ sClient R = sClient st /\
       sIPN R = sIPN st /\ sConf R = sConf st /\ (sPCAV st = true -> sPCAV R = true) /\ (sPCAV R = sPCAV st0)).
    { intros Y [S1 [S2 [S3 [S4 [S5 [S6 [S7 S8]]]]]]] R. unfold R. cbn. repeat split; try congruence.
      - left. left. reflexivity.
      - intros H. rewrite S7. auto. }
    destruct (Z.eqb_spec l sph_EncInitial) as [E1|E1]; cbn [orb].
    - destruct (get_space st0 l) as [s|]; [|split; [right; exact Z1|repeat split; auto]].
      match goal with |- context [fold_left ?f ?items st0] => assert (A1 : SF st0 (fold_left f items st0)) by (apply SF_fold; intros; apply SF_rm_bif);
        set (st1 := fold_left f items st0) in * end.
      assert (A2 : SF st0 (st_spaces st1 None (sHs st1) (sApp st1))) by (eapply SF_trans; [exact A1|apply SF_spaces]).
      destruct (Fin _ A2) as [F1 [F2 [F3 [F4 [F5 [F6 [F7 [F8 F9]]]]]]]]. cbn zeta in *.
      repeat split; auto.
    - destruct (Z.eqb_spec l sph_EncHandshake) as [E2|E2].
      + destruct (get_space st0 l) as [s|]; [|split; [right; exact Z1|repeat split; auto]].
        match goal with |- context [fold_left ?f ?items st0] => assert (A1 : SF st0 (fold_left f items st0)) by (apply SF_fold; intros; apply SF_rm_bif);
          set (st1 := fold_left f items st0) in * end.
        destruct A1 as [S1 [S2 [S3 [S4 [S5 [S6 [S7 S8]]]]]]].
        cbn. repeat split; try congruence; auto.
        * left. left. reflexivity.
        * intros H. rewrite S7. auto.
        * destruct (sClient st) eqn:Ec; [right; right; rewrite S7; apply Z9; auto|right; left; reflexivity].
      + destruct (l =? sph_Enc0RTT).
        * assert (A2 : SF st0 (drop0rtt (h_list (spH (sApp st0))) st0)) by apply SF_drop0rtt.
          destruct (Fin _ A2) as [F1 [F2 [F3 [F4 [F5 [F6 [F7 [F8 F9]]]]]]]]. cbn zeta in *. repeat split; auto.
        * cbn. repeat split; auto; try congruence. }
  destruct G as [G1 [G2 [G3 [G4 [G5 [G6 [G7 [G8 G9]]]]]]]]. unfold st' in *. clear st'.
  split; [|repeat split; try lia; congruence]. intros [X1 [X2 X3]]. unfold X. split; [|split].
  - destruct G1 as [G1|G1]; [exact G1|unfold ptoM_ok in *; rewrite G1; exact X1].
  - rewrite G5, G4. exact X2.
  - intros Hc. destruct G9 as [G9|[G9|G9]].
    + apply G8. apply X3. congruence.
    + apply (b_server _ _ BR). congruence.
    + exact G9.
Qed.

Lemma step_sc T st oo : Inv T st -> op_timed T oo -> Sc st (fst (step st oo)) (sent_size st oo) (recv_size st oo).
Proof.
  intros I Ht. pose proof (step_inv T st oo I Ht) as [BR _]. destruct I as [B S]. destruct oo as [o orc].
  revert BR. unfold step, sent_size, recv_size, executed. cbn [fst]. rewrite (b_panic _ _ B). cbn [Z.eqb negb orb andb].
  destruct (op_valid st o) eqn:Ev; cbn [negb].
  2:{ intros _. cbn [fst]. destruct o; apply Sc_SF; apply SF_refl. }
  destruct o as [l t la sfs fs size mtu probe rnd|l now delay rs|now rnd|l now|now rnd|now|n now|l now|l|now cs hb].
  - intros _. pose proof (send_sc st orc l t la sfs fs size mtu probe rnd) as Z. destruct (popPN st l rnd) as [st1 pn]. cbn [fst snd] in *.
    split; [apply (X_SFs size); exact Z|]. destruct Z as [S1 [S2 [S3 [S4 [S5 [S6 [S7 S8]]]]]]]. repeat split; try lia; congruence.
  - intros _. pose proof (receivedAck_sfm st orc rs l now) as Z. destruct (receivedAck st orc rs l now) as [[st' a1] err]. apply Sc_SFm. exact Z.
  - intros _. apply Sc_SFp. apply onTimeout_sfp.
  - cbn [fst]. intros BR. apply (dropPackets_sc T). exact BR.
  - intros _. cbn [fst]. apply Sc_SF. apply SF_resetForRetry.
  - intros _. cbn [fst]. apply Sc_SF. apply SF_migratedPath.
  - intros _. cbn [fst]. unfold receivedBytes.
    match goal with |- Sc _ (if ?c then _ else _) _ _ => destruct c end; unfold Sc, X, ptoM_ok; cbn; repeat split; try tauto; auto; try lia.
  - intros _. cbn [fst]. unfold receivedPacket.
    match goal with |- Sc _ (if ?c then _ else _) _ _ => destruct c end; unfold Sc, X, ptoM_ok; cbn; repeat split; try tauto; auto; try lia.
  - intros _. pose proof (SF_queueProbe st l) as Z. destruct (queueProbePacket st l) as [st' b]. apply Sc_SF. exact Z.
  - intros _. cbn [fst]. apply Sc_SF. apply SF_refl.
Qed.

Lemma X_init client validated ipn period maxPeriod rnd0 : X (init client validated ipn period maxPeriod rnd0).
Proof. unfold X, ptoM_ok. cbn. repeat split; auto. intros ->. reflexivity. discriminate. Qed.

Lemma run_X T ops : forall st, Inv T st -> Forall (op_timed T) ops -> X st -> X (run st ops) /\ Inv T (run st ops).
Proof.
  induction ops as [|oo r IH]; intros st I Ht Hx; cbn [run fold_left]; [auto|].
  inversion Ht as [|? ? Ht1 Ht2]; subst.
  apply IH; auto.
  - apply step_inv; auto.
  - destruct (step_sc T st oo I Ht1) as [Z _]. auto.
Qed.

(** ** (1) the send gate, with the congestion controller's window as a constrained oracle:
    CanSend(bytesInFlight) answers (bytesInFlight < cwnd) for the window [cw] it reports (cubicSender.CanSend;
    the window itself is characterised in coq/Congestion) *)
Definition tracked_count (st : state) : Z :=
  zlen (hPackets (spH (sApp st))) + tracked_len (sInit st) + tracked_len (sHs st).

Lemma sendMode_gate st cw hb :
  ptoM_ok st -> sendMode st (sBif st <? cw) hb = sph_SendAny ->
  sBif st < cw /\ isAmplificationLimited st = false /\
  tracked_count st < sph_MaxOutstandingSentPackets /\ tracked_count st < sph_MaxTrackedSentPackets /\
  sProbes st <= 0 /\ hb = true.
Proof.
  intros Hp. unfold sendMode. fold (tracked_count st).
  destruct (isAmplificationLimited st); [discriminate|].
  destruct (Z.geb_spec (tracked_count st) sph_MaxTrackedSentPackets); [discriminate|].
  destruct (Z.gtb_spec (sProbes st) 0).
  { intros E. exfalso. unfold ptoM_ok in Hp. rewrite E in Hp. destruct Hp as [K|[K|[K|K]]]; discriminate K. }
  destruct (Z.ltb_spec (sBif st) cw); cbn [negb]; [|discriminate].
  destruct (Z.geb_spec (tracked_count st) sph_MaxOutstandingSentPackets); [discriminate|].
  destruct hb; cbn [negb]; [|discriminate]. intros _. repeat split; auto; lia.
Qed.

(* the handler's SendMode is the Congestion unit's decision function on the gate read from the state *)
Lemma sendMode_is_gate st cw hb :
  sendMode st (sBif st <? cw) hb =
  V.Congestion.Model.send_mode (V.Congestion.Model.G (tracked_count st) (isAmplificationLimited st) (sProbes st) (sPtoM st) (sBif st) cw hb).
Proof. unfold sendMode, V.Congestion.Model.send_mode. fold (tracked_count st). reflexivity. Qed.

Lemma popPN_bif st l rnd : sBif (fst (popPN st l rnd)) = sBif st.
Proof.
  unfold popPN. destruct (get_space st l); [|reflexivity]. destruct (g_pop _ _) as [[sk pn] g].
  destruct sk; cbn [fst]; unfold set_space; repeat match goal with |- context [if ?c then _ else _] => destruct c end; reflexivity.
Qed.

Lemma sentPacket_bif st o t pn la sfs fs l size mtu probe s :
  get_space st l = Some s ->
  sBif (sentPacket st o t pn la sfs fs l size mtu probe) =
  sBif st + (if negb probe && ackEliciting (mkP t fs sfs la size l mtu false probe) then size else 0).
Proof.
  intros Hg. unfold sentPacket.
  assert (Hg' : get_space (st_bytes st (sRecv st) (sSent st + size)) l = Some s) by exact Hg. rewrite Hg'.
  destruct probe; cbn [negb andb].
  - unfold set_space; repeat match goal with |- context [if ?c then _ else _] => destruct c end; cbn; lia.
  - destruct (ackEliciting _); cbn [negb];
      unfold set_space; repeat match goal with |- context [if ?c then _ else _] => destruct c end; cbn; lia.
Qed.

Theorem send_gate_history client validated ipn period maxPeriod rnd0 ops cw hb :
  0 <= ipn ->
  let st := run (init client validated ipn period maxPeriod rnd0) ops in
  sendMode st (sBif st <? cw) hb = sph_SendAny ->
  (* the gate *)
  sBif st < cw /\ isAmplificationLimited st = false /\
  tracked_count st < sph_MaxOutstandingSentPackets /\ tracked_count st < sph_MaxTrackedSentPackets /\
  sProbes st <= 0 /\ hb = true /\
  (* bytesInFlight is the real thing: the tracked in-flight packets *)
  sBif st = msum f_incl (pk st SI) + msum f_incl (pk st SH) + msum f_incl (pk st SA) /\
  (* a packet accepted next overshoots the window by less than its own size *)
  (forall l t la sfs fs size mtu probe rnd orc,
     op_valid st (OSend l t la sfs fs size mtu probe rnd) = true ->
     let st' := fst (step st (OSend l t la sfs fs size mtu probe rnd, orc)) in
     sBif st' = sBif st + (if negb probe && (negb (isnil sfs) || negb (isnil fs)) then size else 0) /\ sBif st' < cw + size).
Proof.
  intros Hi st Hm.
  destruct (run_X false ops (init client validated ipn period maxPeriod rnd0) (Inv_init false _ _ _ _ _ _ Hi)) as [Hx I].
  { rewrite Forall_forall. intros oo _ Hf. discriminate. }
  { apply X_init. }
  fold st in Hx, I. destruct (sendMode_gate st cw hb (proj1 Hx) Hm) as [G1 [G2 [G3 [G4 [G5 G6]]]]].
  pose proof (Inv_balanced _ _ I) as [_ [Hb _]].
  split; [exact G1|split; [exact G2|split; [exact G3|split; [exact G4|split; [exact G5|split; [exact G6|split; [exact Hb|]]]]]]].
  intros l t la sfs fs size mtu probe rnd orc Hv. cbn zeta. unfold step. rewrite (b_panic _ _ (proj1 I)), Hv. cbn [Z.eqb negb orb].
  pose proof Hv as Hv'. cbn [op_valid] in Hv'. apply andb_prop in Hv' as [Hv' _]. apply andb_prop in Hv' as [Hv' _]. apply andb_prop in Hv' as [Hv' Hsz]. apply andb_prop in Hv' as [Hlive Hl].
  destruct (space_live_sget st l Hl Hlive) as [s Hs].
  destruct (popPN_eq false st l rnd s (proj1 I) Hl Hs) as [s1 [pn [Eq _]]].
  pose proof (popPN_bif st l rnd) as Pb. rewrite Eq in *. cbn [fst snd] in *.
  assert (Hg : get_space (sset st (slot_of l) s1) l = Some s1) by (rewrite (get_space_slot _ l Hl); apply sget_sset_same).
  rewrite (sentPacket_bif _ orc t pn la sfs fs l size mtu probe s1 Hg), Pb. apply Z.leb_le in Hsz.
  split; [reflexivity|]. unfold ackEliciting. cbn [pSFrames pFrames]. destruct (negb probe && _); lia.
Qed.

(** ** (2) anti-amplification at full-handler level *)
Fixpoint gated (st : state) (ops : list (op * oracle)) : Prop :=
  match ops with
  | [] => True
  | oo :: r =>
    (match fst oo with
     | OSend _ _ _ _ _ _ _ _ _ => executed st (fst oo) = true -> exists cs hb, sendMode st cs hb <> sph_SendNone
     | _ => True
     end) /\ gated (fst (step st oo)) r
  end.

Fixpoint last_size (st : state) (ops : list (op * oracle)) (acc : Z) : Z :=
  match ops with
  | [] => acc
  | oo :: r =>
    last_size (fst (step st oo)) r
      (match fst oo with OSend _ _ _ _ _ size _ _ _ => if executed st (fst oo) then size else acc | _ => acc end)
  end.

Definition amp_ok (st : state) (last : Z) : Prop :=
  sPAV st = false -> sSent st <= sph_amplificationFactor * sRecv st + last.

Lemma sendMode_not_none st cs hb : sendMode st cs hb <> sph_SendNone -> isAmplificationLimited st = false.
Proof. unfold sendMode. destruct (isAmplificationLimited st); [intros H; exfalso; apply H; reflexivity|reflexivity]. Qed.

Lemma amp_history ops : forall st acc,
  Inv false st -> amp_ok st acc -> gated st ops -> amp_ok (run st ops) (last_size st ops acc).
Proof.
  induction ops as [|oo r IH]; intros st acc I A G; cbn [run fold_left last_size]; [exact A|].
  destruct G as [G1 G2].
  assert (Ht : op_timed false oo) by (intros Hf; discriminate).
  apply IH; [apply step_inv; auto| |exact G2].
  destruct (step_sc false st oo I Ht) as [_ [Ss [Sr [Sp _]]]].
  unfold amp_ok in *. intros Hp'. assert (Hp : sPAV st = false) by (destruct (sPAV st); [specialize (Sp eq_refl); congruence|reflexivity]).
  specialize (A Hp). unfold sent_size, recv_size in *. change sph_amplificationFactor with 3 in *.
  destruct oo as [o orc]. cbn [fst] in *.
  destruct o as [l t la sfs fs size mtu probe rnd|l now delay rs|now rnd|l now|now rnd|now|n now|l now|l|now cs hb]; try lia.
  - destruct (executed st (OSend l t la sfs fs size mtu probe rnd)) eqn:Ee; [|lia].
    destruct (G1 eq_refl) as [cs [hb Hm]]. apply sendMode_not_none in Hm. unfold isAmplificationLimited in Hm. rewrite Hp in Hm.
    change sph_amplificationFactor with 3 in Hm. destruct (Z.geb_spec (sSent st) (3 * sRecv st)); [discriminate|]. lia.
  - destruct (executed st (ORecvBytes n now)) eqn:Ee; [|lia].
    unfold executed in Ee. apply andb_prop in Ee as [_ Ev]. cbn [op_valid] in Ev. apply Z.leb_le in Ev. lia.
Qed.

Theorem amplification_history validated ipn period maxPeriod rnd0 ops :
  0 <= ipn ->
  let i := init false validated ipn period maxPeriod rnd0 in
  gated i ops ->
  sPAV (run i ops) = false ->
  sSent (run i ops) <= sph_amplificationFactor * sRecv (run i ops) + last_size i ops 0.
Proof.
  intros Hi i G. apply (amp_history ops i 0 (Inv_init false _ _ _ _ _ _ Hi)); [|exact G].
  intros _. cbn. lia.
Qed.

(** ** (3) the client's anti-deadlock timer: while the client has not seen the server complete address
    validation and has sent something (since the start or the last Retry), a deadline is armed *)
Definition client_waiting (st : state) : bool := sClient st && negb (sPCAV st).

Lemma carm_set st o now : Base true st -> X st -> client_waiting st = true -> 0 < now ->
  aTime (lossDetectionTime st o now) <> 0.
Proof.
  intros B [_ [Xc Xf]] Hw Hnow. unfold client_waiting in Hw. apply andb_prop in Hw as [Hc Hp]. apply negb_true_iff in Hp.
  assert (Hconf : sConf st = false) by (destruct (sConf st); [specialize (Xf eq_refl); congruence|reflexivity]).
  assert (Hamp : isAmplificationLimited st = false) by (unfold isAmplificationLimited; rewrite (Xc Hc); reflexivity).
  assert (Hpt : 0 < fst (getPTOTimeAndSpace st o now)).
  { destruct (hasOutstandingCrypto st) eqn:Ecr.
    - apply pto_pos; [exact B|]. unfold data_outstanding. rewrite Ecr. reflexivity.
    - unfold getPTOTimeAndSpace. rewrite Hconf, Ecr, Hp. cbn [negb andb].
      pose proof (scaled_pos st o false). destruct (sInit st); cbn [fst]; lia. }
  unfold lossDetectionTime. rewrite Hp, Hamp. cbn [andb].
  set (probeT := match hProbes (spH (sApp st)) with (_, p) :: _ => pTime p + sph_pathProbeLossTimeout | [] => 0 end).
  destruct (getLossTimeAndSpace st) as [lt lv].
  destruct (getPTOTimeAndSpace st o now) as [pt lv']. cbn [fst] in Hpt.
  destruct (Z.eqb_spec lt 0) as [E0|E0]; cbn [negb andb].
  - destruct (Z.eqb_spec pt 0); [lia|]. cbn [negb andb].
    destruct ((probeT =? 0) || (pt <? probeT)) eqn:Eq; [cbn; lia|].
    apply orb_false_iff in Eq as [Eq _]. rewrite Eq. cbn. apply Z.eqb_neq. exact Eq.
  - destruct ((probeT =? 0) || (lt <? probeT)); [cbn; exact E0|].
    destruct (Z.eqb_spec pt 0); [lia|]. cbn [negb andb].
    destruct ((probeT =? 0) || (pt <? probeT)) eqn:Eq; [cbn; lia|].
    apply orb_false_iff in Eq as [Eq _]. rewrite Eq. cbn. apply Z.eqb_neq. exact Eq.
Qed.

Definition CArmed (st : state) : Prop := client_waiting st = true -> aTime (sAlarm st) <> 0.

Lemma CArmed_setTimer st o now : Base true st -> X st -> 0 < now -> CArmed (setTimer st o now).
Proof. intros B Hx Hn Hw. unfold setTimer in *. cbn [sAlarm st_alarm]. apply carm_set; auto. Qed.

Lemma CArmed_same st st' : sAlarm st' = sAlarm st -> (client_waiting st' = true -> client_waiting st = true) -> CArmed st -> CArmed st'.
Proof. intros Ha Hw A H. rewrite Ha. apply A. apply Hw. exact H. Qed.

Lemma cw_SF st st' : SF st st' -> client_waiting st' = client_waiting st.
Proof. intros [_ [_ [_ [_ [C [_ [P _]]]]]]]. unfold client_waiting. rewrite C, P. reflexivity. Qed.

(* every event carries a positive time *)
Definition op_pos (oo : op * oracle) : Prop :=
  match fst oo with
  | OSend _ t _ _ _ _ _ _ _ => 0 < t
  | OAck _ now _ _ | OTimeout now _ | ODrop _ now | ORetry now _ | OMigrate now | ORecvBytes _ now | ORecvPacket _ now => 0 < now
  | OQueueProbe _ | OSendMode _ _ _ => True
  end.

Definition sent_flag (st : state) (oo : op * oracle) (flag : bool) : bool :=
  match fst oo with
  | OSend _ _ _ _ _ _ _ _ _ => if executed st (fst oo) then true else flag
  | ORetry _ _ => if executed st (fst oo) then false else flag
  | _ => flag
  end.

Lemma X_unalarm st a : X (st_alarm st a) -> X st. Proof. apply X_alarm. Qed.

Lemma send_carmed st o l t la sfs fs size mtu probe rnd s :
  Base true st -> lvl_ok l = true -> sget st (slot_of l) = Some s -> 0 < t ->
  let R := sentPacket (fst (popPN st l rnd)) o t (snd (popPN st l rnd)) la sfs fs l size mtu probe in
  Base true R -> X R -> CArmed R.
Proof.
  intros B Hl Hs Ht.
  destruct (popPN_eq true st l rnd s B Hl Hs) as [s1 [pn [Eq [[P1 P2 P3 P4 P5 P6 P7 P8 P9] _]]]].
  rewrite Eq. cbn [fst snd]. unfold sentPacket.
  rewrite (get_space_slot _ l Hl), sget_bytes, sget_sset_same.
  destruct probe.
  - intros BR XR. apply CArmed_setTimer; [apply Base_unalarm in BR; exact BR|apply X_unalarm in XR; exact XR|exact Ht].
  - destruct (ackEliciting _); cbn [negb].
    + intros BR XR. apply CArmed_setTimer; [apply Base_unalarm in BR; exact BR|apply X_unalarm in XR; exact XR|exact Ht].
    + cbn zeta. match goal with |- Base true (if negb (sPCAV ?Y) then _ else _) -> _ => set (st2 := Y) end.
      destruct (sPCAV st2) eqn:Ep; cbn [negb].
      * intros _ _ Hw. unfold client_waiting in Hw. rewrite Ep in Hw. rewrite andb_false_r in Hw. discriminate.
      * intros BR XR. apply CArmed_setTimer; [apply Base_unalarm in BR; exact BR|apply X_unalarm in XR; exact XR|exact Ht].
Qed.

Lemma receivedAck_carmed st o rs l now :
  Good true st -> X st -> lvl_ok l = true -> sget st (slot_of l) <> None -> rs <> [] -> 0 < now ->
  let R := fst (fst (receivedAck st o rs l now)) in
  Base true R -> X R -> CArmed st -> CArmed R.
Proof.
  intros [B G] Hx Hl Hlive Hne Hnow. unfold receivedAck. rewrite (get_space_slot st l Hl).
  destruct (sget st (slot_of l)) as [s0|] eqn:Hs0; [|congruence].
  destruct (_ || _); [cbn; auto|].
  match goal with |- context [detectAndRemoveAcked ?Y rs l] => set (st_a := Y) end.
  cbn zeta. intros BR XR A.
  assert (Aa : CArmed st_a).
  { unfold st_a. match goal with |- CArmed (if ?c then _ else _) => destruct c end; [|exact A].
    intros Hw. unfold client_waiting in Hw. cbn in Hw. rewrite andb_false_r in Hw. discriminate. }
  assert (Ba : Base true st_a).
  { unfold st_a. match goal with |- Base _ (if ?c then _ else _) => destruct c end; [|exact B].
    apply (p_base _ _ _ _ (setTimer_pres true _ o now (Base_pcav _ _ B))). }
  assert (Hsa : exists sa, sget st_a (slot_of l) = Some sa).
  { unfold st_a. match goal with |- context [if ?c then _ else _] => destruct c end; [|eauto]. exists s0. destruct (slot_of l); exact Hs0. }
  destruct Hsa as [sa Hsa].
  revert BR XR. unfold detectAndRemoveAcked. rewrite (get_space_slot st_a l Hl), Hsa.
  destruct ((l =? sph_Enc1RTT) && existsb (acks_pn rs) (hSkipped (spH sa))); [cbn; auto|].
  pose proof (Base_sget _ _ _ _ Ba Hsa) as W.
  assert (Hpp : forall x, In x (hProbes (spH sa)) -> pProbe (snd x) = true).
  { intros x Hxx. pose proof (sw_pr _ _ _ W) as F. rewrite Forall_forall in F. destruct (F x Hxx) as [_ [_ H]]. exact H. }
  destruct (collect_spec (1 <? zlen rs) (ack_lowest rs) (ack_largest rs) (h_list (spH sa)) (rev rs) (hProbes (spH sa)) [] false)
    as [probes' [new [hasAE' [Eq _]]]]; auto.
  { intros _. split.
    - destruct rs; [congruence|]. cbn [rev]. intros E'. apply app_eq_nil in E' as [_ E']. discriminate.
    - rewrite last_rev_hd. reflexivity. }
  { apply (sw_prnd _ _ _ W). }
  rewrite Eq. cbn [app]. rewrite (set_space_slot _ l _ Hl).
  destruct new as [|y0 new0].
  - cbn [fold_left Z.eqb negb orb isnil fst]. intros _ _.
    apply (CArmed_same st_a); [destruct (slot_of l); reflexivity| |exact Aa].
    unfold client_waiting. destruct (slot_of l); cbn; auto.
  - cbn [Z.eqb negb orb isnil].
    destruct (last (y0 :: new0) (0, placeholder)) as [lpn lp].
    match goal with |- Base true (fst (fst (match get_space ?Y l with _ => _ end))) -> _ => set (st_c := Y) end.
    destruct (get_space st_c l) as [sc|]; [|cbn; intros BP; exfalso; destruct BP as [BP _]; cbn in BP;
       destruct (sPanic st_c =? 0) eqn:Ez in BP; [discriminate|]; apply Z.eqb_neq in Ez; revert Ez BP; clear; intros; congruence].
    match goal with |- Base true (fst (fst (let '(st, a1) := ?F in _))) -> _ => destruct F as [st_g a1] end.
    cbn [fst]. intros BR XR. apply CArmed_setTimer; [apply Base_unalarm in BR; exact BR|apply X_unalarm in XR; exact XR|exact Hnow].
Qed.

Lemma step_carmed st oo flag :
  Inv true st -> X st -> op_pos oo -> (flag = true -> CArmed st) ->
  sent_flag st oo flag = true -> CArmed (fst (step st oo)).
Proof.
  intros I Hx Hpos A.
  assert (Ht : op_timed true oo) by (intros _; destruct oo as [[] ?]; cbn in *; auto).
  pose proof (step_inv true st oo I Ht) as [BR _]. destruct (step_sc true st oo I Ht) as [XR' _]. specialize (XR' Hx).
  pose proof (Inv_Good _ _ I) as G. destruct I as [B S]. destruct oo as [o orc].
  revert BR XR'. unfold step, sent_flag, executed. cbn [fst]. rewrite (b_panic _ _ B). cbn [Z.eqb negb orb andb].
  destruct (op_valid st o) eqn:Ev; cbn [negb].
  2:{ intros _ _ Hf. cbn [fst]. apply A. destruct o; exact Hf. }
  destruct o as [l t la sfs fs size mtu probe rnd|l now delay rs|now rnd|l now|now rnd|now|n now|l now|l|now cs hb]; cbn [op_valid] in Ev; cbn in Hpos.
  - apply andb_prop in Ev as [Ev Hnil]. apply andb_prop in Ev as [Ev Hpr]. apply andb_prop in Ev as [Ev Hsz]. apply andb_prop in Ev as [Hlive Hl].
    destruct (space_live_sget st l Hl Hlive) as [s Hs].
    pose proof (send_carmed st orc l t la sfs fs size mtu probe rnd s B Hl Hs Hpos) as Z.
    destruct (popPN st l rnd) as [st1 pn]. cbn [fst snd] in *. intros BR XR _. apply Z; auto.
  - apply andb_prop in Ev as [Ev Hav]. apply andb_prop in Ev as [Ev _]. apply andb_prop in Ev as [Hlive Hl].
    destruct (space_live_sget st l Hl Hlive) as [s Hs].
    pose proof (receivedAck_carmed st orc rs l now G Hx Hl ltac:(congruence) (ack_valid_ne _ Hav) Hpos) as Z.
    destruct (receivedAck st orc rs l now) as [[st' a1] err]. cbn [fst] in *. intros BR XR Hf. apply Z; auto.
  - unfold onTimeout.
    match goal with |- Base true (fst (let '(lt, lv) := ?F in _)) -> _ => destruct F as [lt lv] end.
    match goal with |- Base true (fst (let '(st, err) := ?F in _)) -> _ => destruct F as [stx err] end.
    cbn [fst]. intros BR XR _. apply CArmed_setTimer; [apply Base_unalarm in BR; exact BR|apply X_unalarm in XR; exact XR|exact Hpos].
  - cbn [fst]. intros BR XR Hf. specialize (A Hf). revert BR XR. unfold dropPackets.
    set (st0 := if sClient st && (l =? sph_EncHandshake) then st_flags st true (sPAV st) (sConf st) else st).
    assert (A0 : CArmed st0).
    { unfold st0. destruct (sClient st && (l =? sph_EncHandshake)); [|exact A].
      intros Hw. unfold client_waiting in Hw. cbn in Hw. rewrite andb_false_r in Hw. discriminate. }
    assert (Fin : forall Y, Base true (setTimer (st_pto Y 0 sph_SendNone 0) orc now) -> X (setTimer (st_pto Y 0 sph_SendNone 0) orc now) ->
                            CArmed (setTimer (st_pto Y 0 sph_SendNone 0) orc now)).
    { intros Y BY XY. apply CArmed_setTimer; [apply Base_unalarm in BY; exact BY|apply X_unalarm in XY; exact XY|exact Hpos]. }
    destruct ((l =? sph_EncInitial) || (l =? sph_EncHandshake)) eqn:E1.
    + destruct (get_space st0 l) as [s|]; [|intros _ _; exact A0].
      destruct (l =? sph_EncInitial); apply Fin.
    + destruct (Z.eqb_spec l sph_Enc0RTT) as [E2|E2]; [apply Fin|].
      exfalso. destruct (Z.eqb_spec l sph_EncInitial); [discriminate|]. destruct (Z.eqb_spec l sph_EncHandshake); discriminate.
  - cbn [fst]. intros _ _ Hf. discriminate.
  - cbn [fst]. unfold migratedPath. intros BR XR _. apply CArmed_setTimer; [apply Base_unalarm in BR; exact BR|apply X_unalarm in XR; exact XR|exact Hpos].
  - cbn [fst]. unfold receivedBytes.
    match goal with |- Base _ (if ?c then _ else _) -> _ => destruct c end.
    + intros BR XR _. apply CArmed_setTimer; [apply Base_unalarm in BR; exact BR|apply X_unalarm in XR; exact XR|exact Hpos].
    + intros _ _ Hf. apply (CArmed_same st); auto.
  - cbn [fst]. unfold receivedPacket.
    match goal with |- Base _ (if ?c then _ else _) -> _ => destruct c end.
    + intros BR XR _. apply CArmed_setTimer; [apply Base_unalarm in BR; exact BR|apply X_unalarm in XR; exact XR|exact Hpos].
    + intros _ _ Hf. apply A. exact Hf.
  - apply andb_prop in Ev as [Hlive Hl]. destruct (space_live_sget st l Hl Hlive) as [s Hs].
    destruct (queueProbePacket_spec true st l G Hl ltac:(congruence)) as [_ Ha]. pose proof (SF_queueProbe st l) as F.
    destruct (queueProbePacket st l) as [st' b]. cbn [fst] in *. intros _ _ Hf.
    apply (CArmed_same st); [exact Ha|rewrite (cw_SF _ _ F); auto|apply A; exact Hf].
  - cbn [fst]. intros _ _ Hf. apply A. exact Hf.
Qed.

Fixpoint flag_run (st : state) (ops : list (op * oracle)) (flag : bool) : bool :=
  match ops with [] => flag | oo :: r => flag_run (fst (step st oo)) r (sent_flag st oo flag) end.

Lemma run_carmed ops : forall st flag,
  Inv true st -> X st -> Forall op_pos ops -> (flag = true -> CArmed st) ->
  flag_run st ops flag = true -> CArmed (run st ops).
Proof.
  induction ops as [|oo r IH]; intros st flag I Hx Hp A Hf; cbn [run fold_left flag_run] in *; [auto|].
  inversion Hp as [|? ? Hp1 Hp2]; subst.
  assert (Ht : op_timed true oo) by (intros _; destruct oo as [[] ?]; cbn in *; auto).
  apply (IH (fst (step st oo)) (sent_flag st oo flag)); auto.
  - apply step_inv; auto.
  - destruct (step_sc true st oo I Ht) as [Z _]. auto.
  - intros Hf'. apply (step_carmed st oo flag); auto.
Qed.

(** The client anti-deadlock arm. [flag_run] is true iff a packet was accepted by SentPacket since the start
    of the history or since the last ResetForRetry (which clears the alarm until the next send). *)
Theorem client_timer_armed validated ipn period maxPeriod rnd0 ops :
  0 <= ipn -> Forall op_pos ops ->
  let i := init true validated ipn period maxPeriod rnd0 in
  flag_run i ops false = true ->
  sPCAV (run i ops) = false ->
  aTime (sAlarm (run i ops)) <> 0.
Proof.
  intros Hi Hp i Hf Hpc.
  assert (Hcl : sClient (run i ops) = true).
  { assert (Gen : forall ops st, Inv true st -> Forall op_pos ops -> sClient (run st ops) = sClient st).
    { induction ops0 as [|oo r IH]; intros st I Hp0; [reflexivity|]. change (run st (oo :: r)) with (run (fst (step st oo)) r).
      inversion Hp0 as [|? ? Hp1 Hp2]; subst.
      assert (Ht : op_timed true oo) by (intros _; destruct oo as [[] ?]; cbn in *; auto).
      rewrite IH; [|apply step_inv; auto|exact Hp2]. destruct (step_sc true st oo I Ht) as [_ [_ [_ [_ [Z _]]]]]. exact Z. }
    rewrite (Gen ops i (Inv_init true _ _ _ _ _ _ Hi) Hp). reflexivity. }
  apply (run_carmed ops i false (Inv_init true _ _ _ _ _ _ Hi) (X_init _ _ _ _ _ _) Hp); [discriminate|exact Hf|].
  unfold client_waiting. rewrite Hcl, Hpc. reflexivity.
Qed.

(** non-vacuity *)
Example send_gate_nonvacuous :
  let st := run (init false true 0 256 131072 100)
                [ (ODrop 1 1000000000, w_orc); (ODrop 2 1000000000, w_orc); (OSend 4 1000000000 (-1) [] [1] 1200 false false 0, w_orc) ] in
  sendMode st (sBif st <? 40960) true = sph_SendAny /\ sBif st = 1200 /\
  sBif (fst (step st (OSend 4 1000000001 (-1) [] [2] 1452 false false 0, w_orc))) = 2652.
Proof. vm_compute. auto. Qed.

Definition amp_ops : list (op * oracle) :=
  [ (ORecvBytes 1200 1000000000, w_orc);
    (OSend 1 1000000001 (-1) [] [1] 1200 false false 0, w_orc);
    (OSend 1 1000000002 (-1) [] [2] 1200 false false 0, w_orc);
    (OSend 2 1000000003 (-1) [] [3] 1252 false false 0, w_orc) ].

Example amplification_nonvacuous :
  let i := init false false 0 256 131072 100 in
  gated i amp_ops /\ sPAV (run i amp_ops) = false /\
  sSent (run i amp_ops) = 3652 /\ sRecv (run i amp_ops) = 1200 /\ last_size i amp_ops 0 = 1252 /\
  isAmplificationLimited (run i amp_ops) = true.
Proof.
  cbn zeta. split; [|vm_compute; auto 6].
  cbn [gated amp_ops fst]. repeat split; intros _; exists true, true; vm_compute; discriminate.
Qed.

Example client_timer_nonvacuous :
  let i := init true false 0 256 131072 100 in
  let ops := [ (OSend 1 1000000000 (-1) [] [] 1200 false false 0, w_orc) ] in
  Forall op_pos ops /\ flag_run i ops false = true /\ sPCAV (run i ops) = false /\
  hasOutstandingCrypto (run i ops) = false /\ aTime (sAlarm (run i ops)) = 1200000000.
Proof. cbn zeta. split; [repeat constructor|vm_compute; auto]. Qed.
