(** ReceivedAck: collecting newly acknowledged packets, firing OnAcked, removing them. *)
From Coq Require Import List ZArith Bool Lia.
From V Require Import Gen.Params SentPH.Model SentPH.ProofsHist SentPH.ProofsBase SentPH.ProofsOps SentPH.ProofsOps2 SentPH.ProofsOps3.
Import ListNotations.
Open Scope Z_scope.

(** the range walk never reaches the "would have acked wrong packet" BUG branch *)
Lemma advance_spec rs pn : rs <> [] ->
  advance rs pn <> [] /\ last (advance rs pn) (0, 0) = last rs (0, 0) /\
  (pn <= snd (hd (0, 0) (advance rs pn)) \/ advance rs pn = [last rs (0, 0)]).
Proof.
  induction rs as [|r rs IH]; intros Hne; [congruence|].
  destruct rs as [|r2 rs'].
  - cbn. split; [discriminate|split; [reflexivity|right; reflexivity]].
  - cbn [advance]. destruct (Z.gtb_spec pn (snd r)).
    + destruct (IH ltac:(discriminate)) as [I1 [I2 I3]]. split; [exact I1|split].
      * transitivity (last (r2 :: rs') (0, 0)); [exact I2|reflexivity].
      * destruct I3 as [I3|I3]; [left; exact I3|right; transitivity [last (r2 :: rs') (0, 0)]; [exact I3|reflexivity]].
    + split; [discriminate|split; [reflexivity|left; cbn; lia]].
Qed.

Definition accP (f : packet -> Z) (acc : list (Z * packet)) : Z := msum (fun q => if pProbe q then f q else 0) acc.
Lemma accP_app f a b : accP f (a ++ b) = accP f a + accP f b. Proof. apply msum_app. Qed.

Definition entry (items probes : list (Z * packet)) (y : Z * packet) : Prop :=
  exists p', In (fst y, p') items /\ ((pProbe p' = false /\ snd y = p') \/ (pProbe p' = true /\ In y probes)).

Lemma entry_mono items items' probes y : (forall x, In x items -> In x items') -> entry items probes y -> entry items' probes y.
Proof. intros H [p' [H1 H2]]. exists p'. split; auto. Qed.

Definition CR (items probes acc : list (Z * packet)) (res : list (Z * packet) * list (Z * packet) * bool * bool) : Prop :=
  exists probes' new hasAE',
    res = (probes', acc ++ new, hasAE', false) /\
    (forall f, msum f probes = msum f probes' + accP f new) /\
    (forall x, In x probes' -> In x probes) /\ NoDup (map fst probes') /\
    (forall y, In y new -> entry items probes y) /\
    (forall y, In y new -> In (fst y) (map fst items)) /\
    (NoDup (map fst items) -> NoDup (map fst new)).

Lemma CR_skip x items probes acc res : CR items probes acc res -> CR (x :: items) probes acc res.
Proof.
  intros [probes' [new [hasAE' [Eq [I1 [I2 [I3 [I4 [I5 I6]]]]]]]]].
  exists probes', new, hasAE'. split; [exact Eq|split; [exact I1|split; [exact I2|split; [exact I3|split; [|split]]]]].
  - intros y Hy. eapply entry_mono; [|apply I4; exact Hy]. intros z Hz. right. exact Hz.
  - intros y Hy. right. apply I5. exact Hy.
  - intros HN. cbn [map] in HN. inversion HN; subst. auto.
Qed.

Lemma CR_add pn p items probes probes1 acc y0 res :
  fst y0 = pn -> entry ((pn, p) :: items) probes y0 ->
  (forall f, msum f probes = msum f probes1 + accP f [y0]) -> (forall x, In x probes1 -> In x probes) ->
  CR items probes1 (acc ++ [y0]) res -> CR ((pn, p) :: items) probes acc res.
Proof.
  intros Hk He Hm Hsub [probes' [new [hasAE' [Eq [I1 [I2 [I3 [I4 [I5 I6]]]]]]]]].
  exists probes', (y0 :: new), hasAE'.
  split; [rewrite Eq, <- app_assoc; reflexivity|split; [|split; [|split; [exact I3|split; [|split]]]]].
  - intros f. change (y0 :: new) with ([y0] ++ new). rewrite accP_app, (Hm f), (I1 f). lia.
  - intros x Hx. apply Hsub. apply I2. exact Hx.
  - intros y [<-|Hy]; [exact He|].
    destruct (I4 y Hy) as [p' [H1 H2]]. exists p'. split; [right; exact H1|].
    destruct H2 as [H2|[H2 H3]]; [left; exact H2|right; split; [exact H2|apply Hsub; exact H3]].
  - intros y [<-|Hy]; [left; symmetry; exact Hk|right; apply I5; exact Hy].
  - intros HN. cbn [map fst] in HN. inversion HN as [|? ? Hni HN']; subst. cbn [map]. constructor; [|apply I6; exact HN'].
    intros Hin. apply Hni. apply in_map_iff in Hin as [z [Hz1 Hz2]]. rewrite <- Hz1. apply I5. exact Hz2.
Qed.

Lemma collect_spec multi lowest largest : forall items rs probes acc hasAE,
  (multi = true -> rs <> [] /\ snd (last rs (0, 0)) = largest) ->
  NoDup (map fst probes) -> (forall x, In x probes -> pProbe (snd x) = true) ->
  CR items probes acc (collect multi lowest largest items rs probes acc hasAE).
Proof.
  induction items as [|[pn p] items IH]; intros rs probes acc hasAE Hrs Hnd Hpp; cbn [collect].
  - exists probes, [], hasAE. rewrite app_nil_r. repeat split; auto; try (intros f; unfold accP; rewrite msum_nil; lia); try (intros y []); constructor.
  - destruct (pn <? lowest); [apply CR_skip; apply IH; auto|].
    destruct (Z.gtb_spec pn largest) as [Hgt|Hle].
    { exists probes, [], hasAE. rewrite app_nil_r. repeat split; auto; try (intros f; unfold accP; rewrite msum_nil; lia); try (intros y []); constructor. }
    set (rs' := if multi then advance rs pn else rs).
    assert (Hrs' : multi = true -> rs' <> [] /\ snd (last rs' (0, 0)) = largest).
    { intros Hm. unfold rs'. rewrite Hm. destruct (Hrs Hm) as [H1 H2]. destruct (advance_spec rs pn H1) as [A1 [A2 _]].
      split; [exact A1|rewrite A2; exact H2]. }
    destruct (multi && (pn <? fst (hd (0, 0) rs'))); [apply CR_skip; apply IH; auto|].
    assert (Hnb : multi && (pn >? snd (hd (0, 0) rs')) = false).
    { destruct multi eqn:Hm; [|reflexivity]. cbn [andb]. destruct (Hrs eq_refl) as [H1 H2].
      destruct (advance_spec rs pn H1) as [A1 [A2 A3]]. unfold rs'.
      destruct (Z.gtb_spec pn (snd (hd (0, 0) (advance rs pn)))) as [Hg|]; [|reflexivity].
      destruct A3 as [A3|A3]; [lia|]. rewrite A3 in Hg. cbn [hd] in Hg. unfold range in *. lia. }
    rewrite Hnb.
    destruct (pProbe p) eqn:Ep.
    + pose proof (remove_probe_spec) as RS. pose proof (remove_probe_In probes pn) as RI.
      pose proof (remove_probe_nodup_keys probes pn Hnd) as RN. pose proof (remove_probe_found probes pn) as RF.
      pose proof (remove_probe_none probes pn) as RNone.
      destruct (remove_probe probes pn) as [probes1 found] eqn:Er. cbn [fst snd] in *.
      destruct found as [q|].
      * eapply (CR_add pn p items probes probes1 acc (pn, q)); [reflexivity| | |exact RI|].
        -- exists p. split; [left; reflexivity|right; split; [exact Ep|apply RF; reflexivity]].
        -- intros f. specialize (RS f probes pn). rewrite Er in RS. cbn [fst snd] in RS. rewrite RS. unfold accP. rewrite msum_cons, msum_nil. cbn [snd].
           pose proof (Hpp (pn, q) (RF q eq_refl)) as Hq. cbn [snd] in Hq. rewrite Hq. lia.
        -- apply IH; auto.
      * rewrite (RNone eq_refl). apply CR_skip. apply IH; auto.
    + eapply (CR_add pn p items probes probes acc (pn, p)); [reflexivity| | |auto|].
      * exists p. split; [left; reflexivity|left; split; [exact Ep|reflexivity]].
      * intros f. unfold accP. rewrite msum_cons, msum_nil. cbn [snd]. rewrite Ep. lia.
      * apply IH; auto.
Qed.

(** replacing the probe list of one space by a sub-list *)
Lemma swf_set_probes_any T app s pr : swf T app s -> (forall x, In x pr -> In x (hProbes (spH s))) -> NoDup (map fst pr) ->
  swf T app (sp_setH s (h_set_probes (spH s) pr)).
Proof.
  intros [W1 W2 W3 W4 W4a W4b W5 W6 W7] Hsub Hnd. constructor; cbn; auto.
  - apply h_set_probes_wf; auto.
  - rewrite Forall_forall in *. auto.
  - intros Ha. specialize (W4 Ha). destruct pr as [|x pr]; [reflexivity|]. specialize (Hsub x (or_introl eq_refl)). rewrite W4 in Hsub. destruct Hsub.
  - rewrite Forall_forall in *. auto.
Qed.

Record AckR (T : bool) (st st' : state) (dS : Z) (dE : Z -> Z) : Prop := {
  ar_base : Base T st';
  ar_slack : slack st' = slack st + dS;
  ar_E : forall id, E id st' = E id st + dE id;
  ar_live : forall k, sget st' k = None <-> sget st k = None }.

Lemma set_probes_slot T st k s pr :
  Base T st -> sget st k = Some s -> (forall x, In x pr -> In x (hProbes (spH s))) -> NoDup (map fst pr) ->
  let st' := sset st k (sp_setH s (h_set_probes (spH s) pr)) in
  AckR T st st' 0 (fun id => msum (f_id id) pr - msum (f_id id) (hProbes (spH s))) /\ (forall k', pk st' k' = pk st k').
Proof.
  intros B Hs Hsub Hnd st'.
  pose proof (swf_set_probes_any _ _ _ _ (Base_sget _ _ _ _ B Hs) Hsub Hnd) as W.
  assert (PK : forall k', pk st' k' = pk st k').
  { intros k'. unfold pk, st'. destruct (slot_eq_dec k k') as [<-|Hne].
    - rewrite sget_sset_same, Hs. reflexivity.
    - rewrite sget_sset_other by exact Hne. reflexivity. }
  destruct (sset_fields st k (sp_setH s (h_set_probes (spH s) pr))) as [F1 [F2 [F3 [F4 [F5 [F6 [F7 [F8 [F9 [F10 [F11 [F12 [F13 [F14 [F15 F16]]]]]]]]]]]]]]].
  fold st' in F1, F2, F3, F4, F5, F6, F7, F8, F9, F10, F11, F12, F13, F14, F15, F16.
  split; [|exact PK]. constructor.
  - eapply Base_sset; eauto.
  - unfold slack, M. rewrite !PK, F2. lia.
  - intros id. unfold E, M. rewrite !PK, F3.
    assert (MP (f_id id) st' = MP (f_id id) st + (msum (f_id id) pr - msum (f_id id) (hProbes (spH s)))).
    { unfold st'. destruct k.
      - rewrite MP_sset_nonapp by discriminate. pose proof (sw_noprobe _ _ _ (Base_sget _ _ _ _ B Hs) eq_refl) as E0.
        rewrite E0 in *. destruct pr as [|x pr]; [rewrite !msum_nil; lia|destruct (Hsub x (or_introl eq_refl))].
      - rewrite MP_sset_nonapp by discriminate. pose proof (sw_noprobe _ _ _ (Base_sget _ _ _ _ B Hs) eq_refl) as E0.
        rewrite E0 in *. destruct pr as [|x pr]; [rewrite !msum_nil; lia|destruct (Hsub x (or_introl eq_refl))].
      - rewrite MP_sset_app. cbn [sget] in Hs. inversion Hs; subst. unfold MP. cbn [spH sp_setH hProbes h_set_probes]. lia. }
    lia.
  - intros k'. unfold st'. destruct (slot_eq_dec k k') as [<-|Hne].
    + rewrite sget_sset_same, Hs. split; discriminate.
    + rewrite sget_sset_other by exact Hne. tauto.
Qed.

Definition entry_ok (st : state) (k : slot) (y : Z * packet) : Prop :=
  exists p', In (fst y, p') (pk st k) /\ pProbe p' = pProbe (snd y) /\
             (pProbe (snd y) = false -> snd y = p') /\ (pProbe (snd y) = true -> pIncl (snd y) = false) /\
             0 <= f_incl (snd y).

Lemma ack_one_spec T st l y :
  Base T st -> lvl_ok l = true -> entry_ok st (slot_of l) y ->
  AckR T st (ack_one l st y) (f_incl (snd y)) (fun id => if pProbe (snd y) then f_id id (snd y) else 0) /\
  (forall x, In x (pk st (slot_of l)) -> fst x <> fst y -> In x (pk (ack_one l st y) (slot_of l))).
Proof.
  intros B Hl [p' [Hin [Hpp [Hq [Hqi Hn]]]]]. destruct y as [pn q]. cbn [fst snd] in *.
  unfold ack_one.
  set (st_a := if negb (pLA q =? -1) && (l =? sph_Enc1RTT) then emit (EIgnoreBelow (pLA q + 1)) st else st).
  set (st_b := callbacks true (frames_of q) st_a).
  assert (S : same_sp st st_b /\ sBif st_b = sBif st /\ (forall id, cntcb id (sCbs st_b) = cnt id (frames_of q) + cntcb id (sCbs st))).
  { unfold st_b, st_a. destruct (negb (pLA q =? -1) && (l =? sph_Enc1RTT)); (split; [unfold same_sp; cbn; repeat split|split; [reflexivity|intros id; rewrite cntcb_callbacks; reflexivity]]). }
  destruct S as [S [Hb Hc]].
  assert (Bb : Base T st_b).
  { pose proof S as [S1 [S2 [S3 [S4 [S5 [S6 [S7 [S8 [S9 S10]]]]]]]]]. eapply Base_same; [exact B|..]; auto. }
  assert (Hin_b : In (pn, p') (pk st_b (slot_of l))) by (rewrite (same_sp_pk _ _ _ S); exact Hin).
  destruct (pk_sget _ _ _ Hin_b) as [s [Hs Hin']].
  pose proof (st_remove_spec T st_b l s pn p' Bb Hl Hs Hin') as R.
  destruct R as [R1 [R2 [R3 [R4 [R5 [R6 [R7 [R8 [R9 [R10 [R11 [R12 _]]]]]]]]]]]].
  destruct (pk_ok_of _ _ _ _ B Hin) as [Hlen [Hincl Hpf]]. cbn [snd] in Hlen, Hincl, Hpf.
  split; [constructor|].
  - exact R1.
  - unfold slack. rewrite (R2 f_incl), R4, Hb, (same_sp_M _ _ _ S).
    assert (f_incl p' = f_incl q).
    { destruct (pProbe q) eqn:Eq.
      - unfold f_incl. rewrite (Hqi eq_refl), Hincl, Hpp. rewrite andb_false_r. reflexivity.
      - rewrite (Hq eq_refl). reflexivity. }
    lia.
  - intros id. unfold E. rewrite (R2 (f_id id)), (R3 (f_id id)), R5, Hc, (same_sp_M _ _ _ S), (same_sp_MP _ _ _ S).
    destruct (pProbe q) eqn:Eq.
    + unfold f_id at 2. rewrite (Hpf Hpp). cbn [cnt fold_right]. unfold f_id. lia.
    + rewrite (Hq eq_refl). unfold f_id. lia.
  - intros k'. rewrite R11. rewrite (same_sp_sget _ _ _ S). tauto.
  - intros x Hx Hne. apply R10; [rewrite (same_sp_pk _ _ _ S); exact Hx|right; exact Hne].
Qed.

Lemma entry_ok_persist st st' k (y : Z * packet) :
  (forall x, In x (pk st k) -> fst x <> fst y -> In x (pk st' k)) -> forall z, fst z <> fst y -> entry_ok st k z -> entry_ok st' k z.
Proof.
  intros H z Hne [p' [H1 H2]]. exists p'. split; [|exact H2]. apply H; [exact H1|exact Hne].
Qed.

Lemma fold_ack_one T l : forall acc st,
  Base T st -> lvl_ok l = true -> NoDup (map fst acc) -> (forall y, In y acc -> entry_ok st (slot_of l) y) ->
  AckR T st (fold_left (ack_one l) acc st) (msum f_incl acc) (fun id => accP (f_id id) acc).
Proof.
  induction acc as [|y acc IH]; intros st B Hl Hnd He; cbn [fold_left].
  - constructor; auto; try tauto; intros; unfold accP; rewrite ?msum_nil; lia.
  - destruct (ack_one_spec T st l y B Hl (He y (or_introl eq_refl))) as [[A1 A2 A3 A4] Hp].
    inversion Hnd as [|? ? Hni Hnd']; subst.
    assert (He' : forall z, In z acc -> entry_ok (ack_one l st y) (slot_of l) z).
    { intros z Hz. eapply entry_ok_persist; [exact Hp| |apply He; right; exact Hz].
      intros Eq. apply Hni. rewrite <- Eq. apply in_map. exact Hz. }
    destruct (IH (ack_one l st y) A1 Hl Hnd' He') as [C1 C2 C3 C4].
    constructor; auto.
    + rewrite C2, A2, msum_cons. lia.
    + intros id. rewrite C3, A3. unfold accP. rewrite msum_cons. lia.
    + intros k. rewrite C4. apply A4.
Qed.

Lemma AckR_of_Pres T st st' : Pres T 0 st st' -> AckR T st st' 0 (fun _ => 0).
Proof.
  intros [P1 P2 P3 P4 P5 P6 P7]. constructor; auto.
  intros id. rewrite P3. lia.
Qed.

Lemma AckR_trans T st1 st2 st3 d1 e1 d2 e2 :
  AckR T st1 st2 d1 e1 -> AckR T st2 st3 d2 e2 -> AckR T st1 st3 (d1 + d2) (fun id => e1 id + e2 id).
Proof.
  intros [A1 A2 A3 A4] [B1 B2 B3 B4]. constructor; auto.
  - lia.
  - intros id. rewrite B3, A3. lia.
  - intros k. rewrite B4. apply A4.
Qed.

Lemma AckR_ext T st st' d e d' e' : AckR T st st' d e -> d = d' -> (forall id, e id = e' id) -> AckR T st st' d' e'.
Proof. intros [A1 A2 A3 A4] -> He. constructor; auto. intros id. rewrite A3, He. reflexivity. Qed.

Lemma AckR_bookkeeping T st st' d :
  Base T st -> same_sp st st' -> sCbs st' = sCbs st -> sBif st' = sBif st + d -> AckR T st st' d (fun _ => 0).
Proof.
  intros B S C Hb. pose proof S as [S1 [S2 [S3 [S4 [S5 [S6 [S7 [S8 [S9 S10]]]]]]]]].
  constructor.
  - eapply Base_same; eauto.
  - unfold slack. rewrite (same_sp_M _ _ _ S), Hb. lia.
  - intros id. unfold E. rewrite (same_sp_M _ _ _ S), (same_sp_MP _ _ _ S), C. lia.
  - intros k. rewrite (same_sp_sget _ _ _ S). tauto.
Qed.

Lemma Acct_of_AckR T st st' : AckR T st st' 0 (fun _ => 0) -> Acct T [] [] st st'.
Proof. intros [A1 A2 A3 A4]. constructor; [exact A1|lia|intros id; rewrite A3; lia]. Qed.

Lemma last_rev_hd {A} (l : list A) d : last (rev l) d = hd d l.
Proof. destruct l as [|x l]; [reflexivity|]. cbn [rev hd]. apply last_last. Qed.

Lemma detectAndRemoveAcked_spec T st rs l s :
  Base T st -> lvl_ok l = true -> sget st (slot_of l) = Some s -> rs <> [] ->
  let '(st', acked, hasAE, err) := detectAndRemoveAcked st rs l in
  (err = 2 /\ st' = st /\ acked = []) \/
  (err = 0 /\ AckR T st st' (msum f_incl acked) (fun _ => 0) /\ (forall y, In y acked -> 0 <= f_incl (snd y))).
Proof.
  intros B Hl Hs Hne. unfold detectAndRemoveAcked. rewrite (get_space_slot st l Hl), Hs.
  destruct ((l =? sph_Enc1RTT) && existsb (acks_pn rs) (hSkipped (spH s))); [left; auto|].
  pose proof (Base_sget _ _ _ _ B Hs) as W.
  assert (Hpp : forall x, In x (hProbes (spH s)) -> pProbe (snd x) = true).
  { intros x Hx. pose proof (sw_pr _ _ _ W) as F. rewrite Forall_forall in F. destruct (F x Hx) as [_ [_ H]]. exact H. }
  destruct (collect_spec (1 <? zlen rs) (ack_lowest rs) (ack_largest rs) (h_list (spH s)) (rev rs) (hProbes (spH s)) [] false)
    as [probes' [new [hasAE' [Eq [I1 [I2 [I3 [I4 [I5 I6]]]]]]]]]; auto.
  { intros _. split.
    - destruct rs; [congruence|]. cbn [rev]. intros E'. apply app_eq_nil in E' as [_ E']. discriminate.
    - rewrite last_rev_hd. reflexivity. }
  { apply (sw_prnd _ _ _ W). }
  rewrite Eq. cbn [app]. rewrite (set_space_slot _ l _ Hl).
  destruct (set_probes_slot T st (slot_of l) s probes' B Hs I2 I3) as [A1 PK1].
  set (st1 := sset st (slot_of l) (sp_setH s (h_set_probes (spH s) probes'))) in *.
  right. split; [reflexivity|].
  assert (He : forall y, In y new -> entry_ok st1 (slot_of l) y).
  { intros y Hy. destruct (I4 y Hy) as [p' [H1 H2]]. exists p'. rewrite PK1. unfold pk. rewrite Hs. cbn [osp_list].
    split; [exact H1|].
    pose proof (sw_pk _ _ _ W) as F. rewrite Forall_forall in F. destruct (F _ H1) as [Hlen [Hincl Hpf]]. cbn [snd] in *.
    destruct H2 as [[H2 H3]|[H2 H3]].
    - rewrite H3. repeat split; auto; try congruence. unfold f_incl. destruct (pIncl p'); lia.
    - pose proof (sw_pr _ _ _ W) as F'. rewrite Forall_forall in F'. destruct (F' y H3) as [P1 [P2 P3]].
      repeat split; auto; try congruence. unfold f_incl. rewrite P1. lia. }
  assert (Hn0 : forall y, In y new -> 0 <= f_incl (snd y)).
  { intros y Hy. destruct (He y Hy) as [p' [_ [_ [_ [_ H]]]]]. exact H. }
  split; [|exact Hn0].
  pose proof (fold_ack_one T l new st1 (ar_base _ _ _ _ _ A1) Hl (I6 (plist_nodup _ _)) He) as A2.
  eapply AckR_ext; [eapply AckR_trans; [exact A1|exact A2]|lia|].
  intros id. cbn beta. rewrite (I1 (f_id id)). lia.
Qed.

Lemma fold_acked_one prior acked : forall st a1,
  (forall x, In x acked -> 0 <= f_incl (snd x)) -> msum f_incl acked <= sBif st ->
  let r := fold_left (acked_one prior) acked (st, a1) in
  same_sp st (fst r) /\ sCbs (fst r) = sCbs st /\ sBif (fst r) = sBif st - msum f_incl acked.
Proof.
  induction acked as [|[pn q] acked IH]; intros st a1 Hn Hle; cbn [fold_left].
  - split; [apply same_sp_refl|split; [reflexivity|rewrite msum_nil; cbn; lia]].
  - rewrite msum_cons in Hle. cbn [snd] in Hle.
    assert (H0 : 0 <= f_incl q) by (apply (Hn (pn, q)); left; reflexivity).
    assert (Hr : 0 <= msum f_incl acked) by (apply msum_nonneg; intros y Hy; apply Hn; right; exact Hy).
    cbn [acked_one]. set (st_e := if pIncl q then emit (EAcked pn (pLen q) prior) st else st).
    assert (Se : same_sp st st_e /\ sCbs st_e = sCbs st /\ sBif st_e = sBif st).
    { unfold st_e. destruct (pIncl q); [unfold same_sp; cbn; repeat split|split; [apply same_sp_refl|auto]]. }
    destruct Se as [Se [Ce Be]].
    assert (S1 : same_sp st_e (rm_bif st_e q) /\ sCbs (rm_bif st_e q) = sCbs st_e /\ sBif (rm_bif st_e q) = sBif st_e - f_incl q).
    { unfold f_incl in *. destruct (pIncl q) eqn:Ei.
      - rewrite rm_bif_true by (auto; lia). cbn. unfold same_sp. cbn. repeat split.
      - rewrite rm_bif_false by auto. split; [apply same_sp_refl|split; [reflexivity|lia]]. }
    destruct S1 as [S1 [C1 B1]].
    destruct (IH (rm_bif st_e q) (a1 || (pLvl q =? sph_Enc1RTT))) as [S2 [C2 B2]].
    + intros y Hy. apply Hn. right. exact Hy.
    + lia.
    + split; [eapply same_sp_trans; [exact Se|eapply same_sp_trans; eauto]|split; [congruence|rewrite msum_cons; cbn [snd]; lia]].
Qed.

Lemma AckR_refl T st : Base T st -> AckR T st st 0 (fun _ => 0).
Proof. intros B. constructor; auto; try tauto; intros; lia. Qed.

Lemma M_f_incl_nonneg T st : Base T st -> 0 <= M f_incl st.
Proof. intros B. unfold M. pose proof (msum_pk_nonneg T st SI B). pose proof (msum_pk_nonneg T st SH B). pose proof (msum_pk_nonneg T st SA B). lia. Qed.

Lemma receivedAck_spec T st o rs l now :
  Good T st -> lvl_ok l = true -> sget st (slot_of l) <> None -> rs <> [] ->
  Acct T [] [] st (fst (fst (receivedAck st o rs l now))).
Proof.
  intros [B G] Hl Hlive Hne. unfold receivedAck. rewrite (get_space_slot st l Hl).
  destruct (sget st (slot_of l)) as [s0|] eqn:Hs0; [|congruence].
  destruct ((ack_largest rs >? spLargestSent s0) || ((l =? sph_EncInitial) && (ack_lowest rs <? sIPN st)));
    [cbn; apply Acct_of_Pres; apply Pres_refl; exact B|].
  set (st_a := if sClient st && negb (sPCAV st) && ((l =? sph_EncHandshake) || (l =? sph_Enc1RTT))
               then setTimer (st_flags st true (sPAV st) (sConf st)) o now else st).
  assert (Aa : AckR T st st_a 0 (fun _ => 0)).
  { unfold st_a. destruct (sClient st && negb (sPCAV st) && ((l =? sph_EncHandshake) || (l =? sph_Enc1RTT))); [|apply AckR_refl; exact B].
    assert (X1 : AckR T st (st_flags st true (sPAV st) (sConf st)) 0 (fun _ => 0)).
    { constructor; [apply Base_pcav; exact B|unfold slack, M, pk; cbn [sget sInit sHs sApp st_flags sBif]; lia|
                    intros id; unfold E, M, MP, pk; cbn [sget sInit sHs sApp st_flags sCbs]; lia|intros [| |]; cbn; tauto]. }
    pose proof (AckR_of_Pres _ _ _ (setTimer_pres T _ o now (Base_pcav _ _ B))) as X2.
    eapply AckR_ext; [eapply AckR_trans; [exact X1|exact X2]|lia|intros; cbn; lia]. }
  assert (Hsa : exists sa, sget st_a (slot_of l) = Some sa).
  { destruct (sget st_a (slot_of l)) eqn:Ex; [eauto|]. apply (ar_live _ _ _ _ _ Aa) in Ex. congruence. }
  destruct Hsa as [sa Hsa].
  pose proof (detectAndRemoveAcked_spec T st_a rs l sa (ar_base _ _ _ _ _ Aa) Hl Hsa Hne) as D.
  destruct (detectAndRemoveAcked st_a rs l) as [[[st_b acked] hasAE] err].
  destruct D as [[-> [-> ->]]|[-> [Ab Hn0]]].
  { cbn. apply Acct_of_AckR. exact Aa. }
  cbn [Z.eqb negb orb].
  destruct acked as [|y0 acked0] eqn:Eacked.
  { cbn. apply Acct_of_AckR. eapply AckR_ext; [eapply AckR_trans; [exact Aa|exact Ab]|rewrite msum_nil; lia|intros; cbn; lia]. }
  rewrite <- Eacked in *. cbn [isnil]. replace (isnil acked) with false by (rewrite Eacked; reflexivity).
  destruct (last acked (0, placeholder)) as [lpn lp].
  set (st_c := if (lpn =? ack_largest rs) && negb (pProbe lp) && hasAE
               then emit EExitSS (if (sLAT st_b =? 0) || negb (pTime lp <? sLAT st_b) then st_lat st_b (pTime lp) else st_b)
               else st_b).
  assert (Ac : AckR T st_b st_c 0 (fun _ => 0)).
  { apply AckR_bookkeeping; [apply (ar_base _ _ _ _ _ Ab)| | |].
    - unfold st_c. destruct ((lpn =? ack_largest rs) && negb (pProbe lp) && hasAE); [|apply same_sp_refl].
      destruct ((sLAT st_b =? 0) || negb (pTime lp <? sLAT st_b)); unfold same_sp; cbn; repeat split.
    - unfold st_c. destruct ((lpn =? ack_largest rs) && negb (pProbe lp) && hasAE); [|reflexivity].
      destruct ((sLAT st_b =? 0) || negb (pTime lp <? sLAT st_b)); reflexivity.
    - unfold st_c. destruct ((lpn =? ack_largest rs) && negb (pProbe lp) && hasAE); [|lia].
      destruct ((sLAT st_b =? 0) || negb (pTime lp <? sLAT st_b)); cbn; lia. }
  pose proof (AckR_trans _ _ _ _ _ _ _ _ (AckR_trans _ _ _ _ _ _ _ _ Aa Ab) Ac) as Aabc.
  rewrite (get_space_slot st_c l Hl).
  destruct (sget st_c (slot_of l)) as [sc|] eqn:Hsc.
  2:{ apply (ar_live _ _ _ _ _ Aabc) in Hsc. congruence. }
  rewrite (set_space_slot _ l _ Hl).
  destruct (Pres_sset_meta T st_c (slot_of l) sc (spLossTime sc) (Z.max (spLargestAcked sc) (ack_largest rs)) (spLargestSent sc)
              (ar_base _ _ _ _ _ Aabc) Hsc) as [Pd _].
  set (st_d := sset st_c (slot_of l) (mkS (spH sc) (spG sc) (spLossTime sc) (spLastAE sc) (Z.max (spLargestAcked sc) (ack_largest rs)) (spLargestSent sc))) in *.
  pose proof (AckR_trans _ _ _ _ _ _ _ _ Aabc (AckR_of_Pres _ _ _ Pd)) as Ad.
  assert (Hsum0 : 0 <= msum f_incl acked) by (apply msum_nonneg; intros y Hy; apply Hn0; exact Hy).
  assert (Gd : Good T st_d) by (split; [apply (ar_base _ _ _ _ _ Ad)|rewrite (ar_slack _ _ _ _ _ Ad); lia]).
  assert (Hlive_d : sget st_d (slot_of l) <> None).
  { intros Ex. apply (ar_live _ _ _ _ _ Ad) in Ex. congruence. }
  pose proof (detectLost_spec T st_d o now l Gd Hl Hlive_d) as Pe.
  set (st_e := detectLost st_d o now l) in *.
  assert (Ge : Good T st_e) by (eapply Good_Pres; eauto).
  set (st_f := if l =? sph_Enc1RTT then detectLostPathProbes st_e now else st_e).
  assert (Pf : Pres T 0 st_e st_f).
  { unfold st_f. destruct (l =? sph_Enc1RTT); [apply detectLostPathProbes_spec; exact Ge|apply Pres_refl; apply Ge]. }
  pose proof (AckR_trans _ _ _ _ _ _ _ _ (AckR_trans _ _ _ _ _ _ _ _ Ad (AckR_of_Pres _ _ _ Pe)) (AckR_of_Pres _ _ _ Pf)) as Af.
  assert (Hbif : msum f_incl acked <= sBif st_f).
  { pose proof (ar_slack _ _ _ _ _ Af) as Hs. pose proof (M_f_incl_nonneg T st_f (ar_base _ _ _ _ _ Af)).
    assert (slack st_f = sBif st_f - M f_incl st_f) by reflexivity. lia. }
  pose proof (fold_acked_one (sBif st_a) acked st_f false Hn0 Hbif) as Fg.
  destruct (fold_left (acked_one (sBif st_a)) acked (st_f, false)) as [st_g a1]. cbn [fst] in Fg. destruct Fg as [Sg [Cg Bg]].
  assert (Ag : AckR T st_f st_g (- msum f_incl acked) (fun _ => 0)).
  { apply AckR_bookkeeping; [apply (ar_base _ _ _ _ _ Af)|exact Sg|exact Cg|lia]. }
  pose proof (AckR_trans _ _ _ _ _ _ _ _ Af Ag) as Afg.
  set (st_h := if (l =? sph_Enc1RTT) && (ack_largest rs =? Z.max (spLargestAcked sc) (ack_largest rs))
               then st_lost st_g (lt_deleteBefore (fold_left lt_delete (spurious (sLost st_g) (rev rs)) (sLost st_g)) (now - 3 * o_pto o false))
               else st_g).
  set (st_i := if sPCAV st_h then st_pto st_h 0 (sPtoM st_h) (sProbes st_h) else st_h).
  set (st_j := st_pto st_i (sPtoC st_i) (sPtoM st_i) 0).
  assert (Aj : AckR T st_g (setTimer st_j o now) 0 (fun _ => 0)).
  { apply AckR_bookkeeping; [apply (ar_base _ _ _ _ _ Afg)| | |].
    - unfold st_j, st_i, st_h.
      destruct ((l =? sph_Enc1RTT) && (ack_largest rs =? Z.max (spLargestAcked sc) (ack_largest rs)));
        cbn [sPCAV st_lost]; destruct (sPCAV st_g); unfold same_sp; cbn; repeat split.
    - unfold st_j, st_i, st_h.
      destruct ((l =? sph_Enc1RTT) && (ack_largest rs =? Z.max (spLargestAcked sc) (ack_largest rs)));
        cbn [sPCAV st_lost]; destruct (sPCAV st_g); reflexivity.
    - unfold st_j, st_i, st_h.
      destruct ((l =? sph_Enc1RTT) && (ack_largest rs =? Z.max (spLargestAcked sc) (ack_largest rs)));
        cbn [sPCAV st_lost]; destruct (sPCAV st_g); cbn; lia. }
  cbn [fst]. apply Acct_of_AckR.
  eapply AckR_ext; [eapply AckR_trans; [exact Afg|exact Aj]|lia|intros; cbn; lia].
Qed.
