(** State-level invariants of the sentPacketHandler model and the effect of the primitive
    mutations (removeFromBytesInFlight, queueFramesForRetransmission, DeclareLost, Remove) on
    the conserved quantities:
      slack st = bytesInFlight - (sum of lengths of tracked packets flagged in-flight)
      E id st  = (#occurrences of frame id in tracked packets) + (#callbacks for id)          *)
From Coq Require Import List ZArith Bool Lia.
From V Require Import Gen.Params SentPH.Model SentPH.ProofsHist.
Import ListNotations.
Open Scope Z_scope.

(** ** measures *)
Definition cnt (id : Z) (l : list Z) : Z := fold_right (fun x a => (if x =? id then 1 else 0) + a) 0 l.
Lemma cnt_app id l1 l2 : cnt id (l1 ++ l2) = cnt id l1 + cnt id l2.
Proof. induction l1 as [|x l1 IH]; [reflexivity|]. cbn [app cnt fold_right] in *. fold (cnt id (l1 ++ l2)). fold (cnt id l1). rewrite IH. lia. Qed.
Lemma cnt_nonneg id l : 0 <= cnt id l.
Proof. induction l as [|x l IH]; cbn [cnt fold_right]; [lia|]. fold (cnt id l). destruct (x =? id); lia. Qed.
Lemma cnt_rev id l : cnt id (rev l) = cnt id l.
Proof. induction l as [|x l IH]; [reflexivity|]. cbn [rev]. rewrite cnt_app, IH. cbn [cnt fold_right]. fold (cnt id l). lia. Qed.
Lemma cnt_nil id : cnt id [] = 0. Proof. reflexivity. Qed.
Lemma cnt_In_pos id l : In id l -> 0 < cnt id l.
Proof.
  induction l as [|x l IH]; intros H; [destruct H|]. cbn [cnt fold_right]. fold (cnt id l). pose proof (cnt_nonneg id l).
  destruct H as [->|H]; [rewrite Z.eqb_refl; lia|]. apply IH in H. destruct (x =? id); lia.
Qed.
Lemma cnt_notIn id l : ~ In id l -> cnt id l = 0.
Proof.
  induction l as [|x l IH]; intros H; [reflexivity|]. cbn [cnt fold_right]. fold (cnt id l).
  destruct (Z.eqb_spec x id); [exfalso; apply H; left; auto|]. rewrite IH; [lia|]. intros Hin; apply H; right; auto.
Qed.

Definition f_incl (p : packet) : Z := if pIncl p then pLen p else 0.
Definition f_id (id : Z) (p : packet) : Z := cnt id (frames_of p).
Definition cntcb (id : Z) (l : list (Z * bool)) : Z := cnt id (map fst l).

(** ** slots: the three packet number spaces *)
Inductive slot := SI | SH | SA.
Lemma slot_eq_dec (a b : slot) : {a = b} + {a <> b}.
Proof. decide equality. Defined.
Definition sget (st : state) (k : slot) : option space :=
  match k with SI => sInit st | SH => sHs st | SA => Some (sApp st) end.
Definition sset (st : state) (k : slot) (s : space) : state :=
  match k with
  | SI => st_spaces st (Some s) (sHs st) (sApp st)
  | SH => st_spaces st (sInit st) (Some s) (sApp st)
  | SA => st_spaces st (sInit st) (sHs st) s
  end.
Definition slot_of (l : Z) : slot := if l =? sph_EncInitial then SI else if l =? sph_EncHandshake then SH else SA.

Lemma lvl_cases l : lvl_ok l = true -> l = 1 \/ l = 2 \/ l = 3 \/ l = 4.
Proof.
  unfold lvl_ok. change sph_EncInitial with 1. change sph_EncHandshake with 2. change sph_Enc0RTT with 3. change sph_Enc1RTT with 4.
  destruct (Z.eqb_spec l 1); auto. destruct (Z.eqb_spec l 2); auto. destruct (Z.eqb_spec l 3); auto. destruct (Z.eqb_spec l 4); auto.
  discriminate.
Qed.

Lemma get_space_slot st l : lvl_ok l = true -> get_space st l = sget st (slot_of l).
Proof. intros H. destruct (lvl_cases l H) as [-> | [-> | [-> | ->]]]; reflexivity. Qed.
Lemma set_space_slot st l s : lvl_ok l = true -> set_space st l s = sset st (slot_of l) s.
Proof. intros H. destruct (lvl_cases l H) as [-> | [-> | [-> | ->]]]; reflexivity. Qed.
Lemma slot_of_app l : lvl_ok l = true -> (slot_of l = SA <-> is_app l = true).
Proof. intros H. destruct (lvl_cases l H) as [-> | [-> | [-> | ->]]]; cbn; split; congruence. Qed.

Definition osp_list (o : option space) : list (Z * packet) := match o with Some s => h_list (spH s) | None => [] end.
Definition pk (st : state) (k : slot) : list (Z * packet) := osp_list (sget st k).
Definition M (f : packet -> Z) (st : state) : Z := msum f (pk st SI) + msum f (pk st SH) + msum f (pk st SA).
Definition MP (f : packet -> Z) (st : state) : Z := msum f (hProbes (spH (sApp st))).

Definition slack (st : state) : Z := sBif st - M f_incl st.
Definition E (id : Z) (st : state) : Z := M (f_id id) st + MP (f_id id) st + cntcb id (sCbs st).

(** ** invariants *)
Definition pk_ok (x : Z * packet) : Prop :=
  0 <= pLen (snd x) /\ pIncl (snd x) = ackEliciting (snd x) && negb (pProbe (snd x)) /\
  (pProbe (snd x) = true -> frames_of (snd x) = []).
Definition probe_ok (x : Z * packet) : Prop :=
  pIncl (snd x) = false /\ pSFrames (snd x) = [] /\ pProbe (snd x) = true.

Record swf (T : bool) (app : bool) (s : space) : Prop := {
  sw_h : hwf (spH s);
  sw_pk : Forall pk_ok (h_list (spH s));
  sw_pr : Forall probe_ok (hProbes (spH s));
  sw_noprobe : app = false -> hProbes (spH s) = [];
  sw_prnd : NoDup (map fst (hProbes (spH s)));
  sw_prle : Forall (fun x => fst x <= hHighest (spH s)) (hProbes (spH s));
  sw_gnext : 0 <= gNext (spG s);
  sw_link : hHighest (spH s) <> -1 -> gNext (spG s) = hHighest (spH s) + 1;
  sw_time : T = true -> 0 < hNumOut (spH s) -> 0 < spLastAE s }.

Definition oswf (T app : bool) (o : option space) : Prop := match o with Some s => swf T app s | None => True end.
Definition is_app_slot (k : slot) : bool := match k with SA => true | _ => false end.

Record Base (T : bool) (st : state) : Prop := {
  b_panic : sPanic st = 0;
  b_init : oswf T false (sInit st);
  b_hs : oswf T false (sHs st);
  b_app : swf T true (sApp st);
  b_hsdrop : sHs st = None -> sConf st = true /\ sPCAV st = true;
  b_server : sClient st = false -> sPCAV st = true }.

Definition Good (T : bool) (st : state) : Prop := Base T st /\ 0 <= slack st.

Lemma Base_sget T st k s : Base T st -> sget st k = Some s -> swf T (is_app_slot k) s.
Proof.
  intros B H. destruct k; cbn in *.
  - pose proof (b_init _ _ B) as X. rewrite H in X. exact X.
  - pose proof (b_hs _ _ B) as X. rewrite H in X. exact X.
  - inversion H; subst. apply (b_app _ _ B).
Qed.

Lemma f_incl_nonneg_pk st T k x : Base T st -> In x (pk st k) -> 0 <= f_incl (snd x).
Proof.
  intros B Hin. unfold pk in Hin. destruct (sget st k) as [s|] eqn:Es; [|destruct Hin].
  pose proof (sw_pk _ _ _ (Base_sget _ _ _ _ B Es)) as F. rewrite Forall_forall in F.
  destruct (F x Hin) as [Hl _]. unfold f_incl. destruct (pIncl (snd x)); lia.
Qed.

Lemma M_f_incl_ge st T k x : Base T st -> In x (pk st k) -> f_incl (snd x) <= M f_incl st.
Proof.
  intros B Hin. unfold M.
  assert (N : forall k', 0 <= msum f_incl (pk st k')).
  { intros k'. apply msum_nonneg. intros y Hy. eapply f_incl_nonneg_pk; eauto. }
  assert (L : f_incl (snd x) <= msum f_incl (pk st k)).
  { apply msum_In_le; [|exact Hin]. intros y Hy. eapply f_incl_nonneg_pk; eauto. }
  pose proof (N SI). pose proof (N SH). pose proof (N SA). destruct k; lia.
Qed.

(** ** sset / sget algebra *)
Lemma sget_sset_same st k s : sget (sset st k s) k = Some s.
Proof. destruct k; reflexivity. Qed.
Lemma sget_sset_other st k k' s : k <> k' -> sget (sset st k s) k' = sget st k'.
Proof. destruct k, k'; try congruence; reflexivity. Qed.

Lemma M_sset f st k s s' : sget st k = Some s ->
  M f (sset st k s') = M f st - msum f (h_list (spH s)) + msum f (h_list (spH s')).
Proof.
  intros H. unfold M, pk.
  destruct k; rewrite sget_sset_same, !sget_sset_other by discriminate; rewrite ?H; cbn [osp_list];
    try (cbn [sget] in H; inversion H; subst); lia.
Qed.

Lemma sset_fields st k s :
  sPanic (sset st k s) = sPanic st /\ sBif (sset st k s) = sBif st /\ sCbs (sset st k s) = sCbs st /\
  sEvs (sset st k s) = sEvs st /\ sLost (sset st k s) = sLost st /\ sPCAV (sset st k s) = sPCAV st /\
  sPAV (sset st k s) = sPAV st /\ sConf (sset st k s) = sConf st /\ sClient (sset st k s) = sClient st /\
  sRecv (sset st k s) = sRecv st /\ sSent (sset st k s) = sSent st /\ sPtoC (sset st k s) = sPtoC st /\
  sAlarm (sset st k s) = sAlarm st /\ sLAT (sset st k s) = sLAT st /\ sProbes (sset st k s) = sProbes st /\ sPtoM (sset st k s) = sPtoM st.
Proof. destruct k; cbn; repeat split. Qed.

Lemma MP_sset_nonapp f st k s : k <> SA -> MP f (sset st k s) = MP f st.
Proof. destruct k; try congruence; reflexivity. Qed.
Lemma MP_sset_app f st s : MP f (sset st SA s) = msum f (hProbes (spH s)).
Proof. reflexivity. Qed.

Lemma Base_sset T st k s s' :
  Base T st -> sget st k = Some s -> swf T (is_app_slot k) s' -> Base T (sset st k s').
Proof.
  intros [B1 B2 B3 B4 B5 B6] H W. destruct k; cbn in *; constructor; cbn; auto; try (intros E'; discriminate).
Qed.

(** ** primitive mutations *)
Lemma rm_bif_true st p : pIncl p = true -> pLen p <= sBif st -> rm_bif st p = st_bif st (sBif st - pLen p).
Proof. intros H1 H2. unfold rm_bif. rewrite H1. destruct (Z.gtb_spec (pLen p) (sBif st)); [lia|reflexivity]. Qed.
Lemma rm_bif_false st p : pIncl p = false -> rm_bif st p = st.
Proof. intros H. unfold rm_bif. rewrite H. reflexivity. Qed.

Lemma frames_nonempty p : ackEliciting p = true -> isnil (pFrames p) && isnil (pSFrames p) = false.
Proof. unfold ackEliciting. destruct (pFrames p), (pSFrames p); cbn; congruence. Qed.
Lemma frames_empty p : ackEliciting p = false -> frames_of p = [].
Proof. unfold ackEliciting, frames_of. destruct (pFrames p), (pSFrames p); cbn; congruence. Qed.

Lemma queue_frames_ae st p : ackEliciting p = true -> queue_frames st p = callbacks false (frames_of p) st.
Proof. intros H. unfold queue_frames. rewrite (frames_nonempty _ H). reflexivity. Qed.

Lemma cntcb_callbacks id b ids st : cntcb id (sCbs (callbacks b ids st)) = cnt id ids + cntcb id (sCbs st).
Proof.
  unfold callbacks, cntcb. cbn [sCbs st_cbs]. rewrite map_app, cnt_app, map_rev, cnt_rev, map_map. cbn [fst].
  rewrite map_id. reflexivity.
Qed.

(* a state-transforming step that touches neither spaces nor panic *)
Lemma E_same_spaces id st st' :
  sInit st' = sInit st -> sHs st' = sHs st -> sApp st' = sApp st -> E id st' = E id st - cntcb id (sCbs st) + cntcb id (sCbs st').
Proof. intros A B C. unfold E, M, MP, pk, sget. rewrite A, B, C. lia. Qed.
Lemma slack_same_spaces st st' :
  sInit st' = sInit st -> sHs st' = sHs st -> sApp st' = sApp st -> slack st' = slack st - sBif st + sBif st'.
Proof. intros A B C. unfold slack, M, pk, sget. rewrite A, B, C. lia. Qed.
Lemma Base_same T st st' :
  Base T st -> sPanic st' = sPanic st -> sInit st' = sInit st -> sHs st' = sHs st -> sApp st' = sApp st ->
  sConf st' = sConf st -> sPCAV st' = sPCAV st -> sClient st' = sClient st -> Base T st'.
Proof. intros [B1 B2 B3 B4 B5 B6] P A B C D F G. constructor; rewrite ?P, ?A, ?B, ?C, ?D, ?F, ?G; auto. Qed.
