(** The PROTOCOL_VIOLATION rules of ReceivedAck, the refutation of "every skipped number is
    remembered", and the unreachability of the PTO "no progress" BUG error. *)
From Coq Require Import List ZArith Bool Lia.
From V Require Import Gen.Params SentPH.Model SentPH.ProofsHist SentPH.ProofsBase SentPH.ProofsOps SentPH.ProofsOps2
  SentPH.ProofsOps3 SentPH.ProofsAck SentPH.ProofsSend SentPH.ProofsTimeout SentPH.ProofsMain.
Import ListNotations.
Open Scope Z_scope.

(** error class 1 = TransportError{PROTOCOL_VIOLATION, "received ACK for an unsent packet"} *)
Theorem ack_unsent st orc l now delay rs s :
  sPanic st = 0 -> op_valid st (OAck l now delay rs) = true -> get_space st l = Some s ->
  ack_largest rs > spLargestSent s \/ (l = sph_EncInitial /\ ack_lowest rs < sIPN st) ->
  step st (OAck l now delay rs, orc) = (st, 1).
Proof.
  intros Hp Hv Hs Hgt. unfold step. rewrite Hp, Hv. cbn [Z.eqb negb orb]. unfold receivedAck. rewrite Hs.
  destruct Hgt as [Hgt|[-> Hlt]].
  - destruct (Z.gtb_spec (ack_largest rs) (spLargestSent s)); [reflexivity|lia].
  - rewrite Z.eqb_refl. destruct (Z.ltb_spec (ack_lowest rs) (sIPN st)); [|lia]. rewrite orb_true_r. reflexivity.
Qed.

(** error class 2 = TransportError{PROTOCOL_VIOLATION, "received an ACK for skipped packet number"}:
    an ACK (1-RTT) that covers a number still in skippedPackets is rejected, nothing is acknowledged *)
Theorem ack_skipped st orc now delay rs pn :
  sPanic st = 0 -> op_valid st (OAck sph_Enc1RTT now delay rs) = true ->
  In pn (hSkipped (spH (sApp st))) -> acks_pn rs pn = true ->
  exists st' c, step st (OAck sph_Enc1RTT now delay rs, orc) = (st', c) /\
  (c = 1 \/ c = 2) /\ sCbs st' = sCbs st /\ sBif st' = sBif st /\
  sInit st' = sInit st /\ sHs st' = sHs st /\ sApp st' = sApp st.
Proof.
  intros Hp Hv Hin Hack. unfold step. rewrite Hp, Hv. cbn [Z.eqb negb orb]. unfold receivedAck.
  change (get_space st sph_Enc1RTT) with (Some (sApp st)). cbv beta iota.
  match goal with |- context [if ?c then (st, false, 1) else _] => destruct c end.
  { exists st, 1. cbn. auto 10. }
  match goal with |- context [if ?c then setTimer ?x orc now else st] => set (st_a := if c then setTimer x orc now else st) end.
  assert (Ha : sCbs st_a = sCbs st /\ sBif st_a = sBif st /\ sInit st_a = sInit st /\ sHs st_a = sHs st /\ sApp st_a = sApp st).
  { unfold st_a. match goal with |- context [if ?c then _ else _] => destruct c end; cbn; auto. }
  destruct Ha as [A1 [A2 [A3 [A4 A5]]]].
  assert (Hex : existsb (acks_pn rs) (hSkipped (spH (sApp st_a))) = true).
  { rewrite A5. apply existsb_exists. exists pn. auto. }
  unfold detectAndRemoveAcked. change (get_space st_a sph_Enc1RTT) with (Some (sApp st_a)). cbv beta iota.
  change (sph_Enc1RTT =? sph_Enc1RTT) with true. cbn [andb]. rewrite Hex. cbn.
  exists st_a, 2. auto 10.
Qed.

(** ** which skipped numbers are remembered (repaired sentPacketHistory.SkippedPacket) *)
Lemma gc_skipped_keeps sk empty first p :
  In p sk -> In p (gc_skipped sk empty first) \/ empty = true \/ p < first.
Proof.
  induction sk as [|q r IH]; intros Hin; [destruct Hin|]. cbn [gc_skipped].
  destruct ((zlen (q :: r) >=? sph_maxSkippedPackets) && (empty || (q <? first))) eqn:Ec; [|left; exact Hin].
  apply andb_prop in Ec as [_ Ec]. destruct Hin as [->|Hin]; [|apply IH; exact Hin].
  right. apply orb_prop in Ec as [Ec|Ec]; [left; exact Ec|right; apply Z.ltb_lt; exact Ec].
Qed.

Lemma gc_skipped_sub sk empty first p : In p (gc_skipped sk empty first) -> In p sk.
Proof.
  induction sk as [|q r IH]; cbn [gc_skipped]; [auto|].
  destruct ((zlen (q :: r) >=? sph_maxSkippedPackets) && (empty || (q <? first))); [intros H; right; apply IH; exact H|auto].
Qed.

(* at least the last maxSkippedPackets-1 older numbers (plus the new one) survive a collection *)
Lemma gc_skipped_len sk empty first :
  zlen (gc_skipped sk empty first) >= Z.min (zlen sk) (sph_maxSkippedPackets - 1).
Proof.
  induction sk as [|q r IH]; cbn [gc_skipped]; [rewrite zlen_nil; change sph_maxSkippedPackets with 4; lia|].
  destruct (Z.geb_spec (zlen (q :: r)) sph_maxSkippedPackets); cbn [andb].
  - destruct (empty || (q <? first)); [|lia]. rewrite zlen_cons in *. lia.
  - lia.
Qed.

(** SkippedPacket forgets a number only if it lies below the lowest packet number still tracked
    (or nothing at all is tracked); every other operation of the history leaves the list alone. *)
Theorem skipped_retained h pn p :
  In p (hSkipped h) ->
  In p (hSkipped (h_skipped h pn)) \/ hPackets h = [] \/ p < hFirst h.
Proof.
  intros Hin. unfold h_skipped, h_seq. cbn [hSkipped hPackets hFirst].
  destruct (gc_skipped_keeps (hSkipped h) (isnil (hPackets h)) (if isnil (hPackets h) then pn else hFirst h) p Hin) as [H|[H|H]].
  - left. apply in_or_app. left. exact H.
  - right. left. destruct (hPackets h); [reflexivity|discriminate].
  - destruct (hPackets h); [right; left; reflexivity|right; right; exact H].
Qed.

Theorem skipped_recorded h pn : In pn (hSkipped (h_skipped h pn)).
Proof. unfold h_skipped. cbn [hSkipped]. apply in_or_app. right. left. reflexivity. Qed.

Theorem skipped_untouched h pn p pr :
  hSkipped (h_sent h pn p) = hSkipped h /\ hSkipped (h_sent_probe h pn p) = hSkipped h /\
  hSkipped (h_set_probes h pr) = hSkipped h /\
  (forall h', fst (h_remove h pn) = h' -> hSkipped h' = hSkipped h) /\
  (forall h', fst (h_declareLost h pn) = h' -> hSkipped h' = hSkipped h).
Proof.
  repeat split.
  - intros h' <-. unfold h_remove. destruct (getIndex h pn); [|reflexivity]. destruct (nth n (hPackets h) None); [|reflexivity].
    destruct (_ <? 0); [reflexivity|].
    match goal with |- context [if ?c then ?a else cleanup_start ?b] => destruct c; [|destruct (cleanup_start_fields b) as [_ [E _]]] end.
    + match goal with |- hSkipped (fst (match ?x with _ => _ end)) = _ => destruct x as [|[?|] ?] end; reflexivity.
    + match goal with |- hSkipped (fst (match ?x with _ => _ end)) = _ => destruct x as [|[?|] ?] end; cbn [fst]; rewrite E; reflexivity.
  - intros h' <-. unfold h_declareLost. destruct (getIndex h pn); [|reflexivity]. destruct (nth n (hPackets h) None); [|reflexivity].
    destruct (_ <? 0); [reflexivity|]. cbn [fst]. destruct n; [|reflexivity].
    match goal with |- hSkipped (cleanup_start ?b) = _ => destruct (cleanup_start_fields b) as [_ [E _]]; rewrite E end. reflexivity.
Qed.

(** Regression: the history that used to refute "every skipped number is rejected" (five PTO expiries skip
    1..5 while packet 0 is still tracked, then ACK {6,1}) is now a PROTOCOL_VIOLATION and changes nothing. *)
Definition w_orc : oracle := (112500000, 200000000, 200000000).
Definition w_ops : list (op * oracle) :=
  [ (ODrop 1 1000000000, w_orc); (ODrop 2 1000000000, w_orc);
    (OSend 4 1000000000 (-1) [] [1] 1200 false false 0, w_orc);
    (OTimeout 101000000000 0, w_orc); (OTimeout 201000000000 0, w_orc); (OTimeout 301000000000 0, w_orc);
    (OTimeout 401000000000 0, w_orc); (OTimeout 501000000000 0, w_orc);
    (OSend 4 501000000000 (-1) [] [2] 1200 false false 0, w_orc) ].
Definition w_ack : op := OAck 4 501001000000 0 [(6, 6); (1, 1)].
Definition w_init : state := init false true 0 256 131072 100.

Example ack_old_skipped_rejected :
  let st := run w_init w_ops in
  hSkipped (spH (sApp st)) = [1; 2; 3; 4; 5] /\
  op_valid st w_ack = true /\
  snd (step st (w_ack, w_orc)) = 2 /\
  sCbs (fst (step st (w_ack, w_orc))) = sCbs st /\ sBif (fst (step st (w_ack, w_orc))) = sBif st.
Proof. vm_compute. auto. Qed.

(** What remains true of the old refutation: a skipped number BELOW every packet still tracked can be
    forgotten (bounded memory), and an ACK that mentions it is then not detected; such an ACK cannot
    acknowledge anything at or below that number.  Witness: skip 1..5 as above, packets 0 and 6 acknowledged
    (nothing tracked below 7), one more PTO skip, then ACK {8, 1}. *)
Definition w2_ops : list (op * oracle) :=
  w_ops ++
  [ (OAck 4 501001000000 0 [(6, 6); (0, 0)], (1125000, 3000000, 28000000));
    (OSend 4 501002000000 (-1) [] [3] 1200 false false 0, (1125000, 3000000, 28000000));
    (OTimeout 502000000000 0, (1125000, 3000000, 28000000));
    (OSend 4 502000000001 (-1) [] [4] 1200 false false 0, (1125000, 3000000, 28000000)) ].

Example ack_skipped_below_window_accepted :
  let st := run w_init w2_ops in
  (exists n, In 1 (hSkipped (spH (sApp (run w_init (firstn n w2_ops)))))) /\
  ~ In 1 (hSkipped (spH (sApp st))) /\
  (forall x, In x (h_list (spH (sApp st))) -> 1 < fst x) /\
  snd (step st (OAck 4 502001000000 0 [(9, 9); (1, 1)], (1125000, 3000000, 28000000))) = 10.
Proof.
  split; [exists 4%nat; vm_compute; auto|].
  split; [vm_compute; intuition discriminate|].
  split; [vm_compute; intros x [<-|[<-|[]]]; cbn; reflexivity|].
  vm_compute. reflexivity.
Qed.

(** OnLossDetectionTimeout never returns its BUG errors ("PTO fired, but bytes_in_flight is 0 and Initial and
    Handshake already dropped", "PTO timer in unexpected encryption level") *)
Lemma onTimeout_noerr T st o now rnd : Good T st -> snd (onTimeout st o now rnd) = 0.
Proof.
  intros G. unfold onTimeout.
  set (st1 := if sConf st then detectLostPathProbes st now else st).
  assert (P1 : Pres T 0 st st1).
  { unfold st1. destruct (sConf st); [apply detectLostPathProbes_spec; exact G|apply Pres_refl; apply G]. }
  assert (B1 : Base T st1) by apply (p_base _ _ _ _ P1).
  clearbody st1.
  destruct (getLossTimeAndSpace st1) as [lt lv].
  destruct (negb (lt =? 0)); [reflexivity|].
  destruct ((sBif st1 =? 0) && negb (sPCAV st1)) eqn:Ec.
  { destruct (sInit st1); [reflexivity|]. destruct (sHs st1) eqn:Eh; [reflexivity|].
    destruct (b_hsdrop _ _ B1 Eh) as [_ Hp]. rewrite Hp in Ec. rewrite andb_false_r in Ec. discriminate. }
  destruct (getPTOTimeAndSpace st1 o now) as [pt lv'] eqn:Ep.
  destruct (Z.eqb_spec pt 0); [reflexivity|].
  destruct (pto_space T st1 o now pt lv' B1 Ep n) as [Hl Hlive].
  rewrite (get_space_slot st1 lv' Hl). destruct (sget st1 (slot_of lv')); [|reflexivity].
  destruct (negb (h_hasOut (spH s)) && negb (h_hasProbes (spH s)) && negb (sPCAV st1)); [reflexivity|].
  destruct (lvl_cases lv' Hl) as [-> | [-> | [-> | ->]]]; cbn [Z.eqb]; try reflexivity.
  - (* 0-RTT is never the PTO space *)
    exfalso. clear Hlive. unfold getPTOTimeAndSpace in Ep.
    repeat match type of Ep with
           | context [if ?c then _ else _] => destruct c
           | context [match ?c with Some _ => _ | None => _ end] => destruct c
           end; inversion Ep.
  - change (sph_Enc1RTT =? sph_EncInitial) with false. change (sph_Enc1RTT =? sph_EncHandshake) with false.
    change (sph_Enc1RTT =? sph_Enc1RTT) with true. cbn iota.
    destruct (popPN _ _ _). reflexivity.
Qed.

Theorem no_progress_bug client validated ipn period maxPeriod rnd0 ops now rnd orc :
  0 <= ipn ->
  snd (step (run (init client validated ipn period maxPeriod rnd0) ops) (OTimeout now rnd, orc)) = 0.
Proof.
  intros Hi. rewrite <- (grun_run _ [] [] ops).
  pose proof (grun_acct false ops (init client validated ipn period maxPeriod rnd0) [] []
                (Inv_init false _ _ _ _ _ _ Hi)) as X.
  destruct (grun _ [] [] ops) as [[st D] H]. cbn [fst].
  destruct X as [I _].
  - rewrite Forall_forall. intros oo _ Hf. discriminate.
  - intros id. rewrite E_init. reflexivity.
  - unfold step. rewrite (b_panic _ _ (proj1 I)). cbn [Z.eqb negb orb op_valid].
    pose proof (onTimeout_noerr false st orc now rnd (Inv_Good _ _ I)) as Hn.
    destruct (onTimeout st orc now rnd). exact Hn.
Qed.
