(** The PROTOCOL_VIOLATION rules of ReceivedAck, the refutation of "every skipped number is
    remembered", and the unreachability of the PTO "no progress" BUG error. *)
From Coq Require Import List ZArith Bool Lia.
From V Require Import Gen.Params SentPH.Model SentPH.ProofsHist SentPH.ProofsBase SentPH.ProofsOps SentPH.ProofsOps2
  SentPH.ProofsOps3 SentPH.ProofsAck SentPH.ProofsSend SentPH.ProofsTimeout SentPH.ProofsMain.
Import ListNotations.
Open Scope Z_scope.

(** error class 1 = TransportError{PROTOCOL_VIOLATION, "received ACK for an unsent packet"} *)
Theorem ack_unsent st orc l now delay rs s :
  sPanic st = 0 -> op_valid st (OAck l now delay rs) = true -> get_space st l = Some s ->
  ack_largest rs > spLargestSent s ->
  step st (OAck l now delay rs, orc) = (st, 1).
Proof.
  intros Hp Hv Hs Hgt. unfold step. rewrite Hp, Hv. cbn [Z.eqb negb orb]. unfold receivedAck. rewrite Hs.
  destruct (Z.gtb_spec (ack_largest rs) (spLargestSent s)); [reflexivity|lia].
Qed.

(** error class 2 = TransportError{PROTOCOL_VIOLATION, "received an ACK for skipped packet number"}:
    an ACK (1-RTT) that covers a number still in skippedPackets is rejected, nothing is acknowledged *)
Theorem ack_skipped st orc now delay rs pn :
  sPanic st = 0 -> op_valid st (OAck sph_Enc1RTT now delay rs) = true ->
  In pn (hSkipped (spH (sApp st))) -> acks_pn rs pn = true ->
  exists st' c, step st (OAck sph_Enc1RTT now delay rs, orc) = (st', c) /\
  (c = 1 \/ c = 2) /\ sCbs st' = sCbs st /\ sBif st' = sBif st /\
  sInit st' = sInit st /\ sHs st' = sHs st /\ sApp st' = sApp st.
Proof.
  intros Hp Hv Hin Hack. unfold step. rewrite Hp, Hv. cbn [Z.eqb negb orb]. unfold receivedAck.
  change (get_space st sph_Enc1RTT) with (Some (sApp st)). cbv beta iota.
  match goal with |- context [if ?c then (st, false, 1) else _] => destruct c end.
  { exists st, 1. cbn. auto 10. }
  match goal with |- context [if ?c then setTimer ?x orc now else st] => set (st_a := if c then setTimer x orc now else st) end.
  assert (Ha : sCbs st_a = sCbs st /\ sBif st_a = sBif st /\ sInit st_a = sInit st /\ sHs st_a = sHs st /\ sApp st_a = sApp st).
  { unfold st_a. match goal with |- context [if ?c then _ else _] => destruct c end; cbn; auto. }
  destruct Ha as [A1 [A2 [A3 [A4 A5]]]].
  assert (Hex : existsb (acks_pn rs) (hSkipped (spH (sApp st_a))) = true).
  { rewrite A5. apply existsb_exists. exists pn. auto. }
  unfold detectAndRemoveAcked. change (get_space st_a sph_Enc1RTT) with (Some (sApp st_a)). cbv beta iota.
  change (sph_Enc1RTT =? sph_Enc1RTT) with true. cbn [andb]. rewrite Hex. cbn.
  exists st_a, 2. auto 10.
Qed.

(** ... but only the last [maxSkippedPackets] skipped numbers are remembered: an older skipped number
    can be acknowledged without error.  Witness: handshake confirmed, one 1-RTT packet, five PTO
    expiries (each skips a number: 1..5), one more packet (6), ACK {6, 1}. *)
Definition w_orc : oracle := (112500000, 200000000, 200000000).
Definition w_ops : list (op * oracle) :=
  [ (ODrop 1 1000000000, w_orc); (ODrop 2 1000000000, w_orc);
    (OSend 4 1000000000 (-1) [] [1] 1200 false false 0, w_orc);
    (OTimeout 101000000000 0, w_orc); (OTimeout 201000000000 0, w_orc); (OTimeout 301000000000 0, w_orc);
    (OTimeout 401000000000 0, w_orc); (OTimeout 501000000000 0, w_orc);
    (OSend 4 501000000000 (-1) [] [2] 1200 false false 0, w_orc) ].
Definition w_ack : op := OAck 4 501001000000 0 [(6, 6); (1, 1)].
Definition w_init : state := init false true 0 256 131072 100.

Theorem ack_any_skipped_refuted :
  exists ops pn now delay rs orc,
    let st := run w_init ops in
    (* pn was skipped (recorded by SkippedPacket) at some point of the history *)
    (exists n, In pn (hSkipped (spH (sApp (run w_init (firstn n ops)))))) /\
    (* it was never sent and is not above the largest sent number *)
    ~ In pn (map fst (h_list (spH (sApp st)))) /\ pn <= spLargestSent (sApp st) /\
    op_valid st (OAck sph_Enc1RTT now delay rs) = true /\ acks_pn rs pn = true /\
    (* the ACK is accepted: no error, a 1-RTT packet was acknowledged *)
    snd (step st (OAck sph_Enc1RTT now delay rs, orc)) = 10.
Proof.
  exists w_ops, 1, 501001000000, 0, [(6, 6); (1, 1)], (1125000, 3000000, 28000000).
  split; [exists 4%nat; vm_compute; auto|].
  split; [vm_compute; intros [H|[H|H]]; try discriminate; auto|].
  split; [vm_compute; discriminate|]. split; [vm_compute; reflexivity|]. split; [vm_compute; reflexivity|].
  vm_compute. reflexivity.
Qed.

(** OnLossDetectionTimeout never returns its BUG errors ("PTO fired, but bytes_in_flight is 0 and Initial and
    Handshake already dropped", "PTO timer in unexpected encryption level") *)
Lemma onTimeout_noerr T st o now rnd : Good T st -> snd (onTimeout st o now rnd) = 0.
Proof.
  intros G. unfold onTimeout.
  set (st1 := if sConf st then detectLostPathProbes st now else st).
  assert (P1 : Pres T 0 st st1).
  { unfold st1. destruct (sConf st); [apply detectLostPathProbes_spec; exact G|apply Pres_refl; apply G]. }
  assert (B1 : Base T st1) by apply (p_base _ _ _ _ P1).
  clearbody st1.
  destruct (getLossTimeAndSpace st1) as [lt lv].
  destruct (negb (lt =? 0)); [reflexivity|].
  destruct ((sBif st1 =? 0) && negb (sPCAV st1)) eqn:Ec.
  { destruct (sInit st1); [reflexivity|]. destruct (sHs st1) eqn:Eh; [reflexivity|].
    destruct (b_hsdrop _ _ B1 Eh) as [_ Hp]. rewrite Hp in Ec. rewrite andb_false_r in Ec. discriminate. }
  destruct (getPTOTimeAndSpace st1 o now) as [pt lv'] eqn:Ep.
  destruct (Z.eqb_spec pt 0); [reflexivity|].
  destruct (pto_space T st1 o now pt lv' B1 Ep n) as [Hl Hlive].
  rewrite (get_space_slot st1 lv' Hl). destruct (sget st1 (slot_of lv')); [|reflexivity].
  destruct (negb (h_hasOut (spH s)) && negb (h_hasProbes (spH s)) && negb (sPCAV st1)); [reflexivity|].
  destruct (lvl_cases lv' Hl) as [-> | [-> | [-> | ->]]]; cbn [Z.eqb]; try reflexivity.
  - (* 0-RTT is never the PTO space *)
    exfalso. clear Hlive. unfold getPTOTimeAndSpace in Ep.
    repeat match type of Ep with
           | context [if ?c then _ else _] => destruct c
           | context [match ?c with Some _ => _ | None => _ end] => destruct c
           end; inversion Ep.
  - change (sph_Enc1RTT =? sph_EncInitial) with false. change (sph_Enc1RTT =? sph_EncHandshake) with false.
    change (sph_Enc1RTT =? sph_Enc1RTT) with true. cbn iota.
    destruct (popPN _ _ _). reflexivity.
Qed.

Theorem no_progress_bug client validated ipn period maxPeriod rnd0 ops now rnd orc :
  0 <= ipn ->
  snd (step (run (init client validated ipn period maxPeriod rnd0) ops) (OTimeout now rnd, orc)) = 0.
Proof.
  intros Hi. rewrite <- (grun_run _ [] [] ops).
  pose proof (grun_acct false ops (init client validated ipn period maxPeriod rnd0) [] []
                (Inv_init false _ _ _ _ _ _ Hi)) as X.
  destruct (grun _ [] [] ops) as [[st D] H]. cbn [fst].
  destruct X as [I _].
  - rewrite Forall_forall. intros oo _ Hf. discriminate.
  - intros id. rewrite E_init. reflexivity.
  - unfold step. rewrite (b_panic _ _ (proj1 I)). cbn [Z.eqb negb orb op_valid].
    pose proof (onTimeout_noerr false st orc now rnd (Inv_Good _ _ I)) as Hn.
    destruct (onTimeout st orc now rnd). exact Hn.
Qed.
