(** Correspondence glue for the sentph unit: a case is one history the Go harness ran on the
    real sentPacketHandler, with the oracle values and the observables after every op. *)
From Coq Require Import List ZArith Bool String.
From V Require Import Gen.Params.
From V Require Export SentPH.Model.
Import ListNotations.
Open Scope Z_scope.

Record obs := mkO {
  oRet : Z;                         (* return value / error class / popped packet number *)
  oCbs : list (Z * bool);           (* frame callbacks of this op, in call order *)
  oEvs : list event;                (* congestion-controller calls and ignorePacketsBelow, in call order *)
  oBif : Z;
  oOut : list Z;                    (* numOutstanding Initial, Handshake, AppData; -1 = dropped *)
  oAlarm : list Z;                  (* time, type, level *)
  oPto : list Z;                    (* ptoCount, numProbesToSend, ptoMode *)
  oPCAV : bool }.

Definition sdump := (list Z * list Z * list Z * Z * list Z)%type.
Definition dump := (option sdump * option sdump * option sdump * list (Z * Z) * list Z * list bool)%type.

Inductive case :=
| Case (client validated : bool) (initialPN period maxPeriod rnd0 : Z)
       (ops : list (op * oracle * obs)) (final : dump).

Definition out_of (o : option space) : Z := match o with Some s => hNumOut (spH s) | None => -1 end.

Definition obs_of (before after : state) (ret : Z) : obs :=
  let ncb := (List.length (sCbs after) - List.length (sCbs before))%nat in
  let nev := (List.length (sEvs after) - List.length (sEvs before))%nat in
  mkO ret
      (filter (fun x => 0 <=? fst x) (rev (firstn ncb (sCbs after))))
      (rev (firstn nev (sEvs after)))
      (sBif after)
      [out_of (sInit after); out_of (sHs after); hNumOut (spH (sApp after))]
      [aTime (sAlarm after); aType (sAlarm after); aLvl (sAlarm after)]
      [sPtoC after; sProbes after; sPtoM after]
      (sPCAV after).

Definition sdump_of (s : space) : sdump :=
  (map fst (h_list (spH s)), map fst (hProbes (spH s)), hSkipped (spH s), zlen (hPackets (spH s)),
   [hFirst (spH s); hHighest (spH s); spLossTime s; spLastAE s; spLargestAcked s; spLargestSent s; g_peek (spG s); hNumOut (spH s)]).

Definition dump_of (st : state) : dump :=
  (option_map sdump_of (sInit st), option_map sdump_of (sHs st), Some (sdump_of (sApp st)), sLost st,
   [sLAT st; sRecv st; sSent st], [sPAV st; sConf st; sPCAV st]).

Definition zl_eqb (a b : list Z) : bool := if list_eq_dec Z.eq_dec a b then true else false.
Definition event_eqb (a b : event) : bool :=
  match a, b with
  | ESent a1 a2 a3 a4, ESent b1 b2 b3 b4 => (a1 =? b1) && (a2 =? b2) && (a3 =? b3) && Bool.eqb a4 b4
  | EAcked a1 a2 a3, EAcked b1 b2 b3 => (a1 =? b1) && (a2 =? b2) && (a3 =? b3)
  | ECong a1 a2 a3, ECong b1 b2 b3 => (a1 =? b1) && (a2 =? b2) && (a3 =? b3)
  | EExitSS, EExitSS => true
  | EIgnoreBelow a1, EIgnoreBelow b1 => a1 =? b1
  | _, _ => false
  end.
Fixpoint list_eqb {A} (f : A -> A -> bool) (a b : list A) : bool :=
  match a, b with
  | [], [] => true
  | x :: a', y :: b' => f x y && list_eqb f a' b'
  | _, _ => false
  end.
Definition cb_eqb (a b : Z * bool) : bool := (fst a =? fst b) && Bool.eqb (snd a) (snd b).
Definition zz_eqb (a b : Z * Z) : bool := (fst a =? fst b) && (snd a =? snd b).

Definition obs_eqb (a b : obs) : bool :=
  (oRet a =? oRet b) && list_eqb cb_eqb (oCbs a) (oCbs b) && list_eqb event_eqb (oEvs a) (oEvs b) &&
  (oBif a =? oBif b) && zl_eqb (oOut a) (oOut b) && zl_eqb (oAlarm a) (oAlarm b) && zl_eqb (oPto a) (oPto b) &&
  Bool.eqb (oPCAV a) (oPCAV b).

Definition sdump_eqb (a b : sdump) : bool :=
  let '(a1, a2, a3, a4, a5) := a in let '(b1, b2, b3, b4, b5) := b in
  zl_eqb a1 b1 && zl_eqb a2 b2 && zl_eqb a3 b3 && (a4 =? b4) && zl_eqb a5 b5.
Definition osdump_eqb (a b : option sdump) : bool :=
  match a, b with Some x, Some y => sdump_eqb x y | None, None => true | _, _ => false end.
Definition dump_eqb (a b : dump) : bool :=
  let '(a1, a2, a3, a4, a5, a6) := a in let '(b1, b2, b3, b4, b5, b6) := b in
  osdump_eqb a1 b1 && osdump_eqb a2 b2 && osdump_eqb a3 b3 && list_eqb zz_eqb a4 b4 && zl_eqb a5 b5 && list_eqb Bool.eqb a6 b6.

Definition init_of (c : case) : state :=
  match c with Case cl v ipn per mper r0 _ _ => init cl v ipn per mper r0 end.

Fixpoint replay (st : state) (ops : list (op * oracle * obs)) : list obs * state :=
  match ops with
  | [] => ([], st)
  | (o, orc, _) :: rest =>
    let '(st', ret) := step st (o, orc) in
    let '(l, fin) := replay st' rest in
    (obs_of st st' ret :: l, fin)
  end.

Definition model_obs (c : case) : list obs * dump :=
  match c with Case _ _ _ _ _ _ ops _ => let '(l, fin) := replay (init_of c) ops in (l, dump_of fin) end.

Definition check_case (c : case) : bool :=
  match c with
  | Case _ _ _ _ _ _ ops final =>
    let '(l, d) := model_obs c in
    list_eqb obs_eqb l (map snd ops) && dump_eqb d final
  end.
