(** SentPH — Gallina mirror of internal/ackhandler/sent_packet_handler.go,
    sent_packet_history.go, lost_packet_tracker.go, packet_number_generator.go, packet.go.

    Executable definitions only.  Conventions:
    - PacketNumber / ByteCount / monotime.Time / time.Duration are [Z] (0 = unset time,
      -1 = InvalidPacketNumber exactly as in the code);
    - a Go panic (or an "ackhandler BUG" error) is a sticky code in [panicked]
      (theorems prove it stays 0 on every API-conforming history);
    - RTT-derived values are per-op oracle inputs [orc] = (lossDelay, PTO(false), PTO(true))
      read from the implementation's RTTStats after the op; the congestion controller is a
      recording fake: its calls are events, its two answers are inputs of [OSendMode];
    - frames are opaque ids; the callback log [cbs] records (id, true)=OnAcked /
      (id,false)=OnLost, newest first.  Ids < 0 stand for frames whose Handler is nil:
      the model logs them too, the correspondence check drops them before comparing. *)
From Coq Require Import List ZArith Bool.
From V Require Import Gen.Params.
Import ListNotations.
Open Scope Z_scope.

Definition zlen {A} (l : list A) : Z := Z.of_nat (length l).
Definition isnil {A} (l : list A) : bool := match l with [] => true | _ => false end.

(* ------------------------------------------------------------------ packet.go *)
Record packet := mkP {
  pTime : Z; pFrames : list Z; pSFrames : list Z; pLA : Z; pLen : Z; pLvl : Z;
  pMTU : bool; pIncl : bool; pProbe : bool }.

Definition ackEliciting (p : packet) : bool := negb (isnil (pSFrames p)) || negb (isnil (pFrames p)).
Definition outstanding (p : packet) : bool := negb (pMTU p) && negb (pProbe p) && ackEliciting p.
Definition frames_of (p : packet) : list Z := pFrames p ++ pSFrames p.
(* &packet{isPathProbePacket: true} *)
Definition placeholder : packet := mkP 0 [] [] 0 0 0 false false true.
Definition set_incl (p : packet) : packet :=
  mkP (pTime p) (pFrames p) (pSFrames p) (pLA p) (pLen p) (pLvl p) (pMTU p) true (pProbe p).

(* ------------------------------------------------------------------ sent_packet_history.go *)
Record hist := mkH {
  hPackets : list (option packet); hProbes : list (Z * packet); hSkipped : list Z;
  hNumOut : Z; hFirst : Z; hHighest : Z }.

Definition newHist : hist := mkH [] [] [] 0 (-1) (-1).

(* checkSequentialPacketNumberUse *)
Definition seq_bad (h : hist) (pn : Z) : bool := negb (hHighest h =? -1) && negb (pn =? hHighest h + 1).
Definition h_seq (h : hist) (pn : Z) : hist :=
  mkH (hPackets h) (hProbes h) (hSkipped h) (hNumOut h) (if isnil (hPackets h) then pn else hFirst h) pn.

(* garbage collection of old skipped numbers: drop from the front while at least maxSkippedPackets are
   remembered and the oldest one is below the lowest tracked packet number (or nothing is tracked) *)
Fixpoint gc_skipped (sk : list Z) (empty : bool) (first : Z) : list Z :=
  match sk with
  | [] => []
  | p :: r => if (zlen (p :: r) >=? sph_maxSkippedPackets) && (empty || (p <? first))
              then gc_skipped r empty first else p :: r
  end.

Definition h_skipped (h0 : hist) (pn : Z) : hist :=
  let h := h_seq h0 pn in
  let pk := if isnil (hPackets h) then [] else hPackets h ++ [None] in
  let sk := gc_skipped (hSkipped h) (isnil (hPackets h)) (hFirst h) in
  mkH pk (hProbes h) (sk ++ [pn]) (hNumOut h) (hFirst h) (hHighest h).

Definition h_sent (h0 : hist) (pn : Z) (p : packet) : hist :=
  let h := h_seq h0 pn in
  mkH (hPackets h ++ [Some p]) (hProbes h) (hSkipped h)
      (if outstanding p then hNumOut h + 1 else hNumOut h) (hFirst h) (hHighest h).

Definition h_sent_probe (h0 : hist) (pn : Z) (p : packet) : hist :=
  let h := h_seq h0 pn in
  mkH (hPackets h ++ [Some placeholder]) (hProbes h ++ [(pn, p)]) (hSkipped h) (hNumOut h) (hFirst h) (hHighest h).

(* Packets(): the (pn, packet) pairs of the non-nil entries *)
Fixpoint plist (first : Z) (l : list (option packet)) : list (Z * packet) :=
  match l with
  | [] => []
  | None :: r => plist (first + 1) r
  | Some p :: r => (first, p) :: plist (first + 1) r
  end.
Definition h_list (h : hist) : list (Z * packet) := plist (hFirst h) (hPackets h).

Definition h_hasOut (h : hist) : bool := hNumOut h >? 0.
Definition h_hasProbes (h : hist) : bool := negb (isnil (hProbes h)).

Definition h_firstOutstanding (h : hist) : option (Z * packet) :=
  if h_hasOut h then find (fun x => outstanding (snd x)) (h_list h) else None.

Definition getIndex (h : hist) (pn : Z) : option nat :=
  if isnil (hPackets h) then None
  else if pn <? hFirst h then None
  else if pn - hFirst h >? zlen (hPackets h) - 1 then None
  else Some (Z.to_nat (pn - hFirst h)).

Fixpoint clear_at (idx : nat) (l : list (option packet)) : list (option packet) :=
  match l, idx with
  | [], _ => []
  | _ :: r, O => None :: r
  | x :: r, S i => x :: clear_at i r
  end.

Fixpoint drop_none (first : Z) (l : list (option packet)) : Z * list (option packet) :=
  match l with
  | None :: r => drop_none (first + 1) r
  | _ => (first, l)
  end.

Definition cleanup_start (h : hist) : hist :=
  let '(f, l) := drop_none (hFirst h) (hPackets h) in
  match l with
  | [] => mkH [] (hProbes h) (hSkipped h) (hNumOut h) (-1) (hHighest h)
  | _ => mkH l (hProbes h) (hSkipped h) (hNumOut h) f (hHighest h)
  end.

Definition is_some {A} (o : option A) : bool := match o with Some _ => true | None => false end.

(* Remove: returns the new history and a panic/bug code (0 = fine) *)
Definition h_remove (h : hist) (pn : Z) : hist * Z :=
  match getIndex h pn with
  | None => (h, 7)
  | Some idx =>
    match nth idx (hPackets h) None with
    | None => (h, 6)
    | Some p =>
      let no := if outstanding p then hNumOut h - 1 else hNumOut h in
      if no <? 0 then (h, 2) else
      let pk := clear_at idx (hPackets h) in
      let h1 := mkH pk (hProbes h) (hSkipped h) no (hFirst h) (hHighest h) in
      let h2 := if existsb is_some (firstn idx pk) then h1 else cleanup_start h1 in
      match hPackets h2 with
      | None :: _ => (h2, 5)
      | _ => (h2, 0)
      end
    end
  end.

Definition h_declareLost (h : hist) (pn : Z) : hist * Z :=
  match getIndex h pn with
  | None => (h, 0)
  | Some idx =>
    match nth idx (hPackets h) None with
    | None => (h, 6)
    | Some p =>
      let no := if outstanding p then hNumOut h - 1 else hNumOut h in
      if no <? 0 then (h, 2) else
      let h1 := mkH (clear_at idx (hPackets h)) (hProbes h) (hSkipped h) no (hFirst h) (hHighest h) in
      ((match idx with O => cleanup_start h1 | _ => h1 end), 0)
    end
  end.

(* RemovePathProbe: first entry with that number *)
Fixpoint remove_probe (l : list (Z * packet)) (pn : Z) : list (Z * packet) * option packet :=
  match l with
  | [] => ([], None)
  | (q, p) :: r => if q =? pn then (r, Some p)
                   else let '(r', f) := remove_probe r pn in ((q, p) :: r', f)
  end.
Definition h_set_probes (h : hist) (pr : list (Z * packet)) : hist :=
  mkH (hPackets h) pr (hSkipped h) (hNumOut h) (hFirst h) (hHighest h).

Definition h_difference (h : hist) (a b : Z) : Z :=
  let diff := a - b in
  match hSkipped h with
  | [] => diff
  | s0 :: _ =>
    if (a <? s0) || (b >? last (hSkipped h) 0) then diff
    else diff - zlen (filter (fun p => (p >? b) && (p <? a)) (hSkipped h))
  end.

(* ------------------------------------------------------------------ packet_number_generator.go *)
Record pngen := mkG { gSkipping : bool; gPeriod : Z; gMaxPeriod : Z; gNext : Z; gNextToSkip : Z }.

Definition g_sequential (initial : Z) : pngen := mkG false 0 0 initial (-1).
(* generateNewSkip, [rnd] = the value Int31n(2*period) returned *)
Definition g_newSkip (g : pngen) (rnd : Z) : pngen :=
  mkG (gSkipping g) (Z.min (2 * gPeriod g) (gMaxPeriod g)) (gMaxPeriod g) (gNext g) (gNext g + 3 + rnd).
Definition g_skipping (initial period maxPeriod rnd : Z) : pngen :=
  g_newSkip (mkG true period maxPeriod initial 0) rnd.
Definition g_peek (g : pngen) : Z :=
  if gSkipping g && (gNext g =? gNextToSkip g) then gNext g + 1 else gNext g.
Definition g_pop (g : pngen) (rnd : Z) : bool * Z * pngen :=
  if gSkipping g && (gNext g =? gNextToSkip g)
  then (true, gNext g + 1, g_newSkip (mkG true (gPeriod g) (gMaxPeriod g) (gNext g + 2) (gNextToSkip g)) rnd)
  else (false, gNext g, mkG (gSkipping g) (gPeriod g) (gMaxPeriod g) (gNext g + 1) (gNextToSkip g)).

(* ------------------------------------------------------------------ lost_packet_tracker.go *)
Definition lt_add (l : list (Z * Z)) (pn t : Z) : list (Z * Z) :=
  (if zlen l =? sph_lostTrackerMax then tl l else l) ++ [(pn, t)].
Definition lt_delete (l : list (Z * Z)) (pn : Z) : list (Z * Z) := filter (fun x => negb (fst x =? pn)) l.
Fixpoint lt_deleteBefore (l : list (Z * Z)) (ti : Z) : list (Z * Z) :=
  match l with
  | [] => []
  | x :: r => if snd x <? ti then lt_deleteBefore r ti else l
  end.

(* ------------------------------------------------------------------ sent_packet_handler.go *)
Record space := mkS {
  spH : hist; spG : pngen; spLossTime : Z; spLastAE : Z; spLargestAcked : Z; spLargestSent : Z }.

Definition newSpace (g : pngen) : space := mkS newHist g 0 0 (-1) (-1).
Definition sp_setH (s : space) (h : hist) : space :=
  mkS h (spG s) (spLossTime s) (spLastAE s) (spLargestAcked s) (spLargestSent s).

Inductive event :=
| ESent (bif pn size : Z) (ackEl : bool)       (* congestion.OnPacketSent *)
| EAcked (pn len prior : Z)                   (* congestion.OnPacketAcked *)
| ECong (pn len prior : Z)                    (* congestion.OnCongestionEvent *)
| EExitSS                                     (* congestion.MaybeExitSlowStart *)
| EIgnoreBelow (pn : Z).                      (* ignorePacketsBelow callback *)

Record alarmT := mkA { aTime : Z; aType : Z; aLvl : Z }.
Definition noAlarm : alarmT := mkA 0 0 0.

Record state := mkSt {
  sInit : option space; sHs : option space; sApp : space;
  sLost : list (Z * Z);           (* lostPackets *)
  sLAT : Z;                       (* largestAckedTime *)
  sPCAV : bool;                   (* peerCompletedAddressValidation *)
  sRecv : Z; sSent : Z;           (* bytesReceived, bytesSent *)
  sPAV : bool;                    (* peerAddressValidated *)
  sConf : bool;                   (* handshakeConfirmed *)
  sBif : Z;
  sPtoC : Z; sPtoM : Z; sProbes : Z;
  sAlarm : alarmT;
  sClient : bool;
  sIPN : Z;                       (* initialPN: first packet number of the Initial space *)
  sPanic : Z;
  sCbs : list (Z * bool);         (* newest first *)
  sEvs : list event }.            (* newest first *)

(* setters *)
Definition st_spaces (st : state) (i h : option space) (a : space) : state :=
  mkSt i h a (sLost st) (sLAT st) (sPCAV st) (sRecv st) (sSent st) (sPAV st) (sConf st) (sBif st)
       (sPtoC st) (sPtoM st) (sProbes st) (sAlarm st) (sClient st) (sIPN st) (sPanic st) (sCbs st) (sEvs st).
Definition st_lost (st : state) (l : list (Z * Z)) : state :=
  mkSt (sInit st) (sHs st) (sApp st) l (sLAT st) (sPCAV st) (sRecv st) (sSent st) (sPAV st) (sConf st) (sBif st)
       (sPtoC st) (sPtoM st) (sProbes st) (sAlarm st) (sClient st) (sIPN st) (sPanic st) (sCbs st) (sEvs st).
Definition st_lat (st : state) (v : Z) : state :=
  mkSt (sInit st) (sHs st) (sApp st) (sLost st) v (sPCAV st) (sRecv st) (sSent st) (sPAV st) (sConf st) (sBif st)
       (sPtoC st) (sPtoM st) (sProbes st) (sAlarm st) (sClient st) (sIPN st) (sPanic st) (sCbs st) (sEvs st).
Definition st_flags (st : state) (pcav pav conf : bool) : state :=
  mkSt (sInit st) (sHs st) (sApp st) (sLost st) (sLAT st) pcav (sRecv st) (sSent st) pav conf (sBif st)
       (sPtoC st) (sPtoM st) (sProbes st) (sAlarm st) (sClient st) (sIPN st) (sPanic st) (sCbs st) (sEvs st).
Definition st_bytes (st : state) (r s : Z) : state :=
  mkSt (sInit st) (sHs st) (sApp st) (sLost st) (sLAT st) (sPCAV st) r s (sPAV st) (sConf st) (sBif st)
       (sPtoC st) (sPtoM st) (sProbes st) (sAlarm st) (sClient st) (sIPN st) (sPanic st) (sCbs st) (sEvs st).
Definition st_bif (st : state) (v : Z) : state :=
  mkSt (sInit st) (sHs st) (sApp st) (sLost st) (sLAT st) (sPCAV st) (sRecv st) (sSent st) (sPAV st) (sConf st) v
       (sPtoC st) (sPtoM st) (sProbes st) (sAlarm st) (sClient st) (sIPN st) (sPanic st) (sCbs st) (sEvs st).
Definition st_pto (st : state) (c m n : Z) : state :=
  mkSt (sInit st) (sHs st) (sApp st) (sLost st) (sLAT st) (sPCAV st) (sRecv st) (sSent st) (sPAV st) (sConf st) (sBif st)
       c m n (sAlarm st) (sClient st) (sIPN st) (sPanic st) (sCbs st) (sEvs st).
Definition st_alarm (st : state) (a : alarmT) : state :=
  mkSt (sInit st) (sHs st) (sApp st) (sLost st) (sLAT st) (sPCAV st) (sRecv st) (sSent st) (sPAV st) (sConf st) (sBif st)
       (sPtoC st) (sPtoM st) (sProbes st) a (sClient st) (sIPN st) (sPanic st) (sCbs st) (sEvs st).
Definition panic (code : Z) (st : state) : state :=
  mkSt (sInit st) (sHs st) (sApp st) (sLost st) (sLAT st) (sPCAV st) (sRecv st) (sSent st) (sPAV st) (sConf st) (sBif st)
       (sPtoC st) (sPtoM st) (sProbes st) (sAlarm st) (sClient st) (sIPN st) (if sPanic st =? 0 then code else sPanic st) (sCbs st) (sEvs st).
Definition st_cbs (st : state) (c : list (Z * bool)) : state :=
  mkSt (sInit st) (sHs st) (sApp st) (sLost st) (sLAT st) (sPCAV st) (sRecv st) (sSent st) (sPAV st) (sConf st) (sBif st)
       (sPtoC st) (sPtoM st) (sProbes st) (sAlarm st) (sClient st) (sIPN st) (sPanic st) c (sEvs st).
Definition emit (e : event) (st : state) : state :=
  mkSt (sInit st) (sHs st) (sApp st) (sLost st) (sLAT st) (sPCAV st) (sRecv st) (sSent st) (sPAV st) (sConf st) (sBif st)
       (sPtoC st) (sPtoM st) (sProbes st) (sAlarm st) (sClient st) (sIPN st) (sPanic st) (sCbs st) (e :: sEvs st).

(* callbacks: one log entry per frame, in call order (newest first in the log) *)
Definition callbacks (acked : bool) (ids : list Z) (st : state) : state :=
  st_cbs st (rev (map (fun i => (i, acked)) ids) ++ sCbs st).

Definition lvl_ok (l : Z) : bool := (l =? sph_EncInitial) || (l =? sph_EncHandshake) || (l =? sph_Enc0RTT) || (l =? sph_Enc1RTT).
Definition is_app (l : Z) : bool := (l =? sph_Enc0RTT) || (l =? sph_Enc1RTT).

(* getPacketNumberSpace; None = nil pointer (dropped) or invalid level *)
Definition get_space (st : state) (l : Z) : option space :=
  if l =? sph_EncInitial then sInit st
  else if l =? sph_EncHandshake then sHs st
  else if is_app l then Some (sApp st)
  else None.
Definition set_space (st : state) (l : Z) (s : space) : state :=
  if l =? sph_EncInitial then st_spaces st (Some s) (sHs st) (sApp st)
  else if l =? sph_EncHandshake then st_spaces st (sInit st) (Some s) (sApp st)
  else if is_app l then st_spaces st (sInit st) (sHs st) s
  else st.

Definition osp_hasOut (o : option space) : bool := match o with Some s => h_hasOut (spH s) | None => false end.

(* removeFromBytesInFlight (the packet is dropped from every list by the callers) *)
Definition rm_bif (st : state) (p : packet) : state :=
  if pIncl p then (if pLen p >? sBif st then panic 1 st else st_bif st (sBif st - pLen p)) else st.

(* queueFramesForRetransmission *)
Definition queue_frames (st : state) (p : packet) : state :=
  if isnil (pFrames p) && isnil (pSFrames p) then panic 4 st
  else callbacks false (frames_of p) st.

Definition isAmplificationLimited (st : state) : bool :=
  if sPAV st then false else sSent st >=? sph_amplificationFactor * sRecv st.

Definition hasOutstandingCrypto (st : state) : bool := osp_hasOut (sInit st) || osp_hasOut (sHs st).

Definition oracle := (Z * Z * Z)%type.   (* lossDelay, PTO(false), PTO(true) *)
Definition o_lossDelay (o : oracle) : Z := fst (fst o).
Definition o_pto (o : oracle) (withAckDelay : bool) : Z := if withAckDelay then snd o else snd (fst o).

Definition wrap64 (z : Z) : Z := let m := z mod 2 ^ 64 in if m >=? 2 ^ 63 then m - 2 ^ 64 else m.
Definition getScaledPTO (st : state) (o : oracle) (b : bool) : Z :=
  let s := if sPtoC st >=? 64 then 0 else wrap64 (o_pto o b * 2 ^ sPtoC st) in
  if (s >? sph_maxPTODuration) || (s <=? 0) then sph_maxPTODuration else s.

Definition getLossTimeAndSpace (st : state) : Z * Z :=
  let '(lt, lv) := match sInit st with Some s => (spLossTime s, sph_EncInitial) | None => (0, 0) end in
  let '(lt, lv) := match sHs st with
                   | Some s => if (lt =? 0) || (negb (spLossTime s =? 0) && (spLossTime s <? lt))
                               then (spLossTime s, sph_EncHandshake) else (lt, lv)
                   | None => (lt, lv) end in
  if (lt =? 0) || (negb (spLossTime (sApp st) =? 0) && (spLossTime (sApp st) <? lt))
  then (spLossTime (sApp st), sph_Enc1RTT) else (lt, lv).

Definition getPTOTimeAndSpace (st : state) (o : oracle) (now : Z) : Z * Z :=
  if negb (sConf st) && negb (hasOutstandingCrypto st) then
    if sPCAV st then (0, 0)
    else let t := now + getScaledPTO st o false in
         match sInit st with Some _ => (t, sph_EncInitial) | None => (t, sph_EncHandshake) end
  else
    let '(pto, lv) :=
      match sInit st with
      | Some s => if h_hasOut (spH s) && negb (spLastAE s =? 0)
                  then (spLastAE s + getScaledPTO st o false, sph_EncInitial) else (0, 0)
      | None => (0, 0) end in
    let '(pto, lv) :=
      match sHs st with
      | Some s => if h_hasOut (spH s) && negb (spLastAE s =? 0)
                  then let t := spLastAE s + getScaledPTO st o false in
                       if (pto =? 0) || (negb (t =? 0) && (t <? pto)) then (t, sph_EncHandshake) else (pto, lv)
                  else (pto, lv)
      | None => (pto, lv) end in
    if sConf st && h_hasOut (spH (sApp st)) && negb (spLastAE (sApp st) =? 0)
    then let t := spLastAE (sApp st) + getScaledPTO st o true in
         if (pto =? 0) || (negb (t =? 0) && (t <? pto)) then (t, sph_Enc1RTT) else (pto, lv)
    else (pto, lv).

Definition lossDetectionTime (st : state) (o : oracle) (now : Z) : alarmT :=
  let ah := spH (sApp st) in
  if sPCAV st && negb (hasOutstandingCrypto st) && negb (h_hasOut ah) && negb (h_hasProbes ah) then noAlarm
  else if isAmplificationLimited st then noAlarm
  else
    let probeT := match hProbes ah with (_, p) :: _ => pTime p + sph_pathProbeLossTimeout | [] => 0 end in
    let '(lt, lv) := getLossTimeAndSpace st in
    if negb (lt =? 0) && ((probeT =? 0) || (lt <? probeT)) then mkA lt sph_TimerACK lv
    else
      let '(pt, lv) := getPTOTimeAndSpace st o now in
      if negb (pt =? 0) && ((probeT =? 0) || (pt <? probeT)) then mkA pt sph_TimerPTO lv
      else if negb (probeT =? 0) then mkA probeT sph_TimerPathProbe sph_Enc1RTT
      else noAlarm.

Definition setTimer (st : state) (o : oracle) (now : Z) : state := st_alarm st (lossDetectionTime st o now).

(* history ops lifted to the state: apply to the space of level l, record panics *)
Definition st_declareLost (st : state) (l pn : Z) : state :=
  match get_space st l with
  | None => panic 6 st
  | Some s => let '(h, c) := h_declareLost (spH s) pn in
              let st := set_space st l (sp_setH s h) in
              if c =? 0 then st else panic c st
  end.

Definition st_remove (st : state) (l pn : Z) : state :=
  match get_space st l with
  | None => panic 6 st
  | Some s => let '(h, c) := h_remove (spH s) pn in
              let st := set_space st l (sp_setH s h) in
              if c =? 0 then st else panic c st
  end.

(* PopPacketNumber *)
Definition popPN (st : state) (l rnd : Z) : state * Z :=
  match get_space st l with
  | None => (panic 6 st, -1)
  | Some s =>
    let '(skipped, pn, g) := g_pop (spG s) rnd in
    let s := mkS (spH s) g (spLossTime s) (spLastAE s) (spLargestAcked s) (spLargestSent s) in
    if skipped then
      let bad := seq_bad (spH s) (pn - 1) in
      let st := set_space st l (sp_setH s (h_skipped (spH s) (pn - 1))) in
      ((if bad then panic 3 st else st), pn)
    else (set_space st l s, pn)
  end.

(* SentPacket *)
Definition sentPacket (st : state) (o : oracle) (t pn la : Z) (sfs fs : list Z) (l size : Z) (mtu probe : bool) : state :=
  let st := st_bytes st (sRecv st) (sSent st + size) in
  match get_space st l with
  | None => panic 6 st
  | Some s =>
    let s := mkS (spH s) (spG s) (spLossTime s) (spLastAE s) (spLargestAcked s) pn in
    let p := mkP t fs sfs la size l mtu false probe in
    let ae := ackEliciting p in
    if probe then
      let bad := seq_bad (spH s) pn in
      let st := set_space st l (sp_setH s (h_sent_probe (spH s) pn p)) in
      let st := if bad then panic 3 st else st in
      setTimer st o t
    else
      let s := if ae then mkS (spH s) (spG s) (spLossTime s) t (spLargestAcked s) (spLargestSent s) else s in
      let st := if ae then st_pto (st_bif st (sBif st + size)) (sPtoC st) (sPtoM st)
                                  (if sProbes st >? 0 then sProbes st - 1 else sProbes st) else st in
      let p := if ae then set_incl p else p in
      let st := emit (ESent (sBif st) pn size ae) st in
      let bad := seq_bad (spH s) pn in
      let st := set_space st l (sp_setH s (h_sent (spH s) pn p)) in
      let st := if bad then panic 3 st else st in
      if negb ae then (if negb (sPCAV st) then setTimer st o t else st)
      else setTimer st o t
  end.

(* ---- ReceivedAck ---- *)
Definition range := (Z * Z)%type.     (* (Smallest, Largest); AckRanges are in descending order *)
Definition acks_pn (rs : list range) (p : Z) : bool := existsb (fun r => (fst r <=? p) && (p <=? snd r)) rs.
Definition ack_largest (rs : list range) : Z := snd (hd (0, 0) rs).
Definition ack_lowest (rs : list range) : Z := fst (last rs (0, 0)).

(* wire: validateAckRanges (guaranteed by the frame parser) *)
Fixpoint ranges_desc (rs : list range) : bool :=
  match rs with
  | [] => true
  | r :: rest => (fst r <=? snd r) && (0 <=? fst r) &&
                 match rest with [] => true | r2 :: _ => (snd r2 + 1 <? fst r) end && ranges_desc rest
  end.
Definition ack_valid (rs : list range) : bool := negb (isnil rs) && ranges_desc rs.

(* the inner for loop that moves to the next (higher) range; [rs] = remaining ranges, ascending *)
Fixpoint advance (rs : list range) (pn : Z) : list range :=
  match rs with
  | r :: ((_ :: _) as rest) => if pn >? snd r then advance rest pn else rs
  | _ => rs
  end.

Fixpoint collect (multi : bool) (lowest largest : Z) (items : list (Z * packet)) (rs : list range)
         (probes acc : list (Z * packet)) (hasAE : bool) : list (Z * packet) * list (Z * packet) * bool * bool :=
  match items with
  | [] => (probes, acc, hasAE, false)
  | (pn, p) :: rest =>
    if pn <? lowest then collect multi lowest largest rest rs probes acc hasAE
    else if pn >? largest then (probes, acc, hasAE, false)
    else
      let rs' := if multi then advance rs pn else rs in
      let r := hd (0, 0) rs' in
      if multi && (pn <? fst r) then collect multi lowest largest rest rs' probes acc hasAE
      else if multi && (pn >? snd r) then (probes, acc, hasAE, true)
      else if pProbe p then
        let '(probes', found) := remove_probe probes pn in
        collect multi lowest largest rest rs' probes'
                (match found with Some q => acc ++ [(pn, q)] | None => acc end) hasAE
      else collect multi lowest largest rest rs' probes (acc ++ [(pn, p)]) (hasAE || ackEliciting p)
  end.

Definition ack_one (l : Z) (st : state) (x : Z * packet) : state :=
  let '(pn, p) := x in
  let st := if negb (pLA p =? -1) && (l =? sph_Enc1RTT) then emit (EIgnoreBelow (pLA p + 1)) st else st in
  let st := callbacks true (frames_of p) st in
  st_remove st l pn.

(* detectAndRemoveAckedPackets: state, acked packets, hasAckEliciting, error (0 none, 2 skipped-PN violation) *)
Definition detectAndRemoveAcked (st : state) (rs : list range) (l : Z) : state * list (Z * packet) * bool * Z :=
  match get_space st l with
  | None => (panic 6 st, [], false, 0)
  | Some s =>
    if (l =? sph_Enc1RTT) && existsb (acks_pn rs) (hSkipped (spH s)) then (st, [], false, 2)
    else
      let multi := 1 <? zlen rs in
      let '(probes, acc, hasAE, bug) :=
          collect multi (ack_lowest rs) (ack_largest rs) (h_list (spH s)) (rev rs) (hProbes (spH s)) [] false in
      let st := set_space st l (sp_setH s (h_set_probes (spH s) probes)) in
      if bug then (panic 7 st, [], false, 0)
      else (fold_left (ack_one l) acc st, acc, hasAE, 0)
  end.

(* detectLostPackets *)
Definition lost_one (now lossDelay l largestAcked prior : Z) (sk : hist) (st : state) (x : Z * packet) : state :=
  let '(pn, p) := x in
  if pn >? largestAcked then st        (* break: the list is ascending *)
  else
    let lostSendTime := now - lossDelay in
    let lostT := negb (pTime p >? lostSendTime) in
    let lostP := negb lostT && (h_difference sk largestAcked pn >=? sph_packetThreshold) in
    if lostT || lostP then
      let st := if is_app l then st_lost st (lt_add (sLost st) pn (pTime p)) else st in
      let st := st_declareLost st l pn in
      if negb (pProbe p) && ackEliciting p then
        let st := rm_bif st p in
        let st := queue_frames st p in
        if negb (pMTU p) then emit (ECong pn (pLen p) prior) st else st
      else st
    else
      match get_space st l with
      | Some s => if spLossTime s =? 0
                  then set_space st l (mkS (spH s) (spG s) (pTime p + lossDelay) (spLastAE s) (spLargestAcked s) (spLargestSent s))
                  else st
      | None => st
      end.

Definition detectLost (st : state) (o : oracle) (now l : Z) : state :=
  match get_space st l with
  | None => panic 6 st
  | Some s =>
    let st := set_space st l (mkS (spH s) (spG s) 0 (spLastAE s) (spLargestAcked s) (spLargestSent s)) in
    fold_left (lost_one now (o_lossDelay o) l (spLargestAcked s) (sBif st) (spH s)) (h_list (spH s)) st
  end.

(* detectLostPathProbes *)
Definition probe_lost_one (st : state) (x : Z * packet) : state :=
  let '(pn, p) := x in
  let st := callbacks false (pFrames p) st in
  let a := sApp st in
  st_spaces st (sInit st) (sHs st) (sp_setH a (h_set_probes (spH a) (fst (remove_probe (hProbes (spH a)) pn)))).

Definition detectLostPathProbes (st : state) (now : Z) : state :=
  let pr := hProbes (spH (sApp st)) in
  if isnil pr then st
  else
    let lossTime := now - sph_pathProbeLossTimeout in
    fold_left probe_lost_one (filter (fun x => negb (pTime (snd x) >? lossTime)) pr) st.

(* detectSpuriousLosses: only removes entries from the lost-packet tracker *)
Fixpoint spurious (lost : list (Z * Z)) (rs : list range) : list Z :=
  match lost with
  | [] => []
  | (pn, _) :: rest =>
    let rs' := advance rs pn in
    let r := hd (0, 0) rs' in
    if pn <? fst r then spurious rest rs'
    else if pn <=? snd r then pn :: spurious rest rs'
    else spurious rest rs'
  end.

Definition acked_one (prior : Z) (acc : state * bool) (x : Z * packet) : state * bool :=
  let '(st, a1) := acc in
  let '(pn, p) := x in
  let st := if pIncl p then emit (EAcked pn (pLen p) prior) st else st in
  (rm_bif st p, a1 || (pLvl p =? sph_Enc1RTT)).

(* error classes: 0 nil, 1 "ACK for an unsent packet" (PROTOCOL_VIOLATION; above the largest sent or below the first Initial number), 2 "ACK for skipped packet number" (PROTOCOL_VIOLATION) *)
Definition receivedAck (st : state) (o : oracle) (rs : list range) (l now : Z) : state * bool * Z :=
  match get_space st l with
  | None => (panic 6 st, false, 0)
  | Some s0 =>
    let largest := ack_largest rs in
    if (largest >? spLargestSent s0) || ((l =? sph_EncInitial) && (ack_lowest rs <? sIPN st)) then (st, false, 1)
    else
      let st := if sClient st && negb (sPCAV st) && ((l =? sph_EncHandshake) || (l =? sph_Enc1RTT))
                then setTimer (st_flags st true (sPAV st) (sConf st)) o now else st in
      let prior := sBif st in
      let '(st, acked, hasAE, err) := detectAndRemoveAcked st rs l in
      if negb (err =? 0) || isnil acked then (st, false, err)
      else
        let '(lpn, lp) := last acked (0, placeholder) in
        let st := if (lpn =? largest) && negb (pProbe lp) && hasAE
                  then emit EExitSS (if (sLAT st =? 0) || negb (pTime lp <? sLAT st) then st_lat st (pTime lp) else st)
                  else st in
        match get_space st l with
        | None => (panic 6 st, false, 0)
        | Some s =>
          let la := Z.max (spLargestAcked s) largest in
          let st := set_space st l (mkS (spH s) (spG s) (spLossTime s) (spLastAE s) la (spLargestSent s)) in
          let st := detectLost st o now l in
          let st := if l =? sph_Enc1RTT then detectLostPathProbes st now else st in
          let '(st, a1) := fold_left (acked_one prior) acked (st, false) in
          let st := if (l =? sph_Enc1RTT) && (largest =? la)
                    then let sp := spurious (sLost st) (rev rs) in
                         let lst := fold_left lt_delete sp (sLost st) in
                         st_lost st (lt_deleteBefore lst (now - 3 * o_pto o false))
                    else st in
          let st := if sPCAV st then st_pto st 0 (sPtoM st) (sProbes st) else st in
          let st := st_pto st (sPtoC st) (sPtoM st) 0 in
          (setTimer st o now, a1, 0)
        end
  end.

(* OnLossDetectionTimeout; error classes: 0 nil, 3 "PTO fired, but bytes_in_flight is 0 and Initial and Handshake
   already dropped", 4 "PTO timer in unexpected encryption level" *)
Definition onTimeout (st : state) (o : oracle) (now rnd : Z) : state * Z :=
  let st := if sConf st then detectLostPathProbes st now else st in
  let '(lt, lv) := getLossTimeAndSpace st in
  let '(st, err) :=
    if negb (lt =? 0) then (detectLost st o now lv, 0)
    else if (sBif st =? 0) && negb (sPCAV st) then
      let st' := st_pto st (sPtoC st + 1) (sPtoM st) (sProbes st + 1) in
      match sInit st, sHs st with
      | Some _, _ => (st_pto st' (sPtoC st') sph_SendPTOInitial (sProbes st'), 0)
      | None, Some _ => (st_pto st' (sPtoC st') sph_SendPTOHandshake (sProbes st'), 0)
      | None, None => (st', 3)
      end
    else
      let '(pt, lv) := getPTOTimeAndSpace st o now in
      if pt =? 0 then (st, 0)
      else match get_space st lv with
      | None => (panic 6 st, 0)
      | Some ps =>
        if negb (h_hasOut (spH ps)) && negb (h_hasProbes (spH ps)) && negb (sPCAV st) then (st, 0)
        else
          let st := st_pto st (sPtoC st + 1) (sPtoM st) (sProbes st + 2) in
          if lv =? sph_EncInitial then (st_pto st (sPtoC st) sph_SendPTOInitial (sProbes st), 0)
          else if lv =? sph_EncHandshake then (st_pto st (sPtoC st) sph_SendPTOHandshake (sProbes st), 0)
          else if lv =? sph_Enc1RTT then
            let '(st, pn) := popPN st sph_Enc1RTT rnd in
            let a := sApp st in
            let bad := seq_bad (spH a) pn in
            let st := st_spaces st (sInit st) (sHs st) (sp_setH a (h_skipped (spH a) pn)) in
            let st := if bad then panic 3 st else st in
            (st_pto st (sPtoC st) sph_SendPTOAppData (sProbes st), 0)
          else (st, 4)
      end
  in (setTimer st o now, err).

(* DropPackets *)
Fixpoint drop0rtt (items : list (Z * packet)) (st : state) : state :=
  match items with
  | [] => st
  | (pn, p) :: rest =>
    if negb (pLvl p =? sph_Enc0RTT) then st
    else
      let st := rm_bif st p in
      (* the error of Remove is ignored by the caller; panics are not *)
      let a := sApp st in
      let '(h, c) := h_remove (spH a) pn in
      let st := st_spaces st (sInit st) (sHs st) (sp_setH a h) in
      let st := if (c =? 0) || (c =? 7) then st else panic c st in
      drop0rtt rest st
  end.

Definition dropPackets (st : state) (o : oracle) (l now : Z) : state :=
  let st := if sClient st && (l =? sph_EncHandshake) then st_flags st true (sPAV st) (sConf st) else st in
  let finish (st : state) := setTimer (st_pto st 0 sph_SendNone 0) o now in
  if (l =? sph_EncInitial) || (l =? sph_EncHandshake) then
    match get_space st l with
    | None => st
    | Some s =>
      let st := fold_left (fun st x => rm_bif st (snd x)) (h_list (spH s)) st in
      if l =? sph_EncInitial then finish (st_spaces st None (sHs st) (sApp st))
      else finish (st_spaces (st_flags st (sPCAV st) (sPAV st) true) (sInit st) None (sApp st))
    end
  else if l =? sph_Enc0RTT then finish (drop0rtt (h_list (spH (sApp st))) st)
  else panic 8 st.

Definition receivedBytes (st : state) (o : oracle) (n t : Z) : state :=
  let was := isAmplificationLimited st in
  let st := st_bytes st (sRecv st + n) (sSent st) in
  if was && negb (isAmplificationLimited st) then setTimer st o t else st.

Definition receivedPacket (st : state) (o : oracle) (l t : Z) : state :=
  if negb (sClient st) && (l =? sph_EncHandshake) && negb (sPAV st)
  then setTimer (st_flags st (sPCAV st) true (sConf st)) o t else st.

Definition tracked_len (o : option space) : Z := match o with Some s => zlen (hPackets (spH s)) | None => 0 end.

Definition sendMode (st : state) (canSend hasBudget : bool) : Z :=
  let n := zlen (hPackets (spH (sApp st))) + tracked_len (sInit st) + tracked_len (sHs st) in
  if isAmplificationLimited st then sph_SendNone
  else if n >=? sph_MaxTrackedSentPackets then sph_SendNone
  else if sProbes st >? 0 then sPtoM st
  else if negb canSend then sph_SendAck
  else if n >=? sph_MaxOutstandingSentPackets then sph_SendAck
  else if negb hasBudget then sph_SendPacingLimited
  else sph_SendAny.

(* QueueProbePacket *)
Definition queueProbePacket (st : state) (l : Z) : state * bool :=
  match get_space st l with
  | None => (panic 6 st, false)
  | Some s =>
    match h_firstOutstanding (spH s) with
    | None => (st, false)
    | Some (pn, p) =>
      let st := st_declareLost st l pn in
      let st := rm_bif st p in
      (queue_frames st p, true)
    end
  end.

(* ResetForRetry *)
Definition resetForRetry (st : state) (rnd : Z) : state :=
  match sInit st with
  | None => panic 6 st
  | Some si =>
    let st := st_bif st 0 in
    let q := fun st (x : Z * packet) => if ackEliciting (snd x) then queue_frames st (snd x) else st in
    let st := fold_left q (h_list (spH si)) st in
    let st := fold_left q (h_list (spH (sApp st))) st in
    let ni := newSpace (g_sequential (g_peek (spG si))) in
    (* repaired: the old generator is popped, so a packet number it was about to skip is recorded in the new history *)
    let '(skipped, pn, _) := g_pop (spG (sApp st)) 0 in
    let na0 := newSpace (g_skipping pn sph_SkipPacketInitialPeriod sph_SkipPacketMaxPeriod rnd) in
    let na := if skipped then sp_setH na0 (h_skipped newHist (pn - 1)) else na0 in
    let st := st_spaces st (Some ni) (sHs st) na in
    st_pto (st_alarm st noAlarm) 0 (sPtoM st) (sProbes st)
  end.

(* MigratedPath *)
Definition migrate_one (st : state) (x : Z * packet) : state :=
  let '(pn, p) := x in
  let st := st_declareLost st sph_Enc1RTT pn in
  if negb (pProbe p) then
    let st := rm_bif st p in
    if ackEliciting p then queue_frames st p else st
  else st.

(* `for pn := range PathProbes() { RemovePathProbe(pn) }`: the range expression was evaluated once
   (array [arr], original length), RemovePathProbe shifts the live prefix of length [m] left *)
Fixpoint migrate_probes (fuel : nat) (i : nat) (arr : list (Z * packet)) (m : nat) : list (Z * packet) :=
  match fuel with
  | O => firstn m arr
  | S fuel' =>
    match nth_error arr i with
    | None => firstn m arr
    | Some (pn, _) =>
      let cur := firstn m arr in
      let '(cur', found) := remove_probe cur pn in
      match found with
      | None => migrate_probes fuel' (S i) arr m
      | Some _ => migrate_probes fuel' (S i) (cur' ++ skipn (m - 1) arr) (m - 1)
      end
    end
  end.

Definition migratedPath (st : state) (o : oracle) (now : Z) : state :=
  let st := fold_left migrate_one (h_list (spH (sApp st))) st in
  let a := sApp st in
  let pr := hProbes (spH a) in
  let st := st_spaces st (sInit st) (sHs st)
                      (sp_setH a (h_set_probes (spH a) (migrate_probes (length pr) 0 pr (length pr)))) in
  setTimer st o now.

(* ------------------------------------------------------------------ ops *)
Inductive op :=
| OSend (l t la : Z) (sfs fs : list Z) (size : Z) (mtu probe : bool) (rnd : Z)   (* PopPacketNumber + SentPacket *)
| OAck (l now delay : Z) (rs : list range)
| OTimeout (now rnd : Z)
| ODrop (l now : Z)
| ORetry (now rnd : Z)
| OMigrate (now : Z)
| ORecvBytes (n now : Z)
| ORecvPacket (l now : Z)
| OQueueProbe (l : Z)
| OSendMode (now : Z) (canSend hasBudget : bool).

Definition space_live (st : state) (l : Z) : bool := is_some (get_space st l).

(** API contract (what the connection guarantees, checked by the harness before the call; a violating
    op is not executed): the addressed space exists; ACK frames passed validateAckRanges and do not
    arrive at the 0-RTT level; DropPackets is only called for Initial/Handshake/0-RTT; a Retry is only
    processed by a client that still has its Initial space, has sent no Handshake packet and has no
    path probe outstanding; path
    probes are 1-RTT packets carrying only non-stream frames, every one with a handler (detectLostPathProbes calls
    f.Handler.OnLost without a nil check; the packer only puts PATH_CHALLENGE / PATH_RESPONSE frames with the path
    manager's handler into probe packets); sizes are non-negative. *)
Definition op_valid (st : state) (o : op) : bool :=
  match o with
  | OSend l _ _ sfs fs size mtu probe _ =>
    space_live st l && lvl_ok l && (0 <=? size) &&
    (if probe then (l =? sph_Enc1RTT) && isnil sfs && negb (isnil fs) && negb mtu else true) &&
    (if probe then forallb (fun id => 0 <=? id) fs else true)
  | OAck l _ _ rs => space_live st l && lvl_ok l && negb (l =? sph_Enc0RTT) && ack_valid rs
  | OTimeout _ _ => true
  | ODrop l _ => (l =? sph_EncInitial) || (l =? sph_EncHandshake) || (l =? sph_Enc0RTT)
  | ORetry _ _ => sClient st && is_some (sInit st) && isnil (hProbes (spH (sApp st))) &&
                  match sHs st with Some s => (spLargestSent s =? -1) && isnil (hPackets (spH s)) | None => false end
  | OMigrate _ => true
  | ORecvBytes n _ => 0 <=? n
  | ORecvPacket l _ => lvl_ok l
  | OQueueProbe l => space_live st l && lvl_ok l
  | OSendMode _ _ _ => true
  end.

(* return value of an op: -1 = op rejected by the API contract / handler already panicked *)
Definition step (st : state) (oo : op * oracle) : state * Z :=
  let '(o, orc) := oo in
  if negb (sPanic st =? 0) || negb (op_valid st o) then (st, -1)
  else match o with
  | OSend l t la sfs fs size mtu probe rnd =>
    let '(st, pn) := popPN st l rnd in (sentPacket st orc t pn la sfs fs l size mtu probe, pn)
  | OAck l now _ rs => let '(st, a1, err) := receivedAck st orc rs l now in (st, if a1 then 10 else err)
  | OTimeout now rnd => onTimeout st orc now rnd
  | ODrop l now => (dropPackets st orc l now, 0)
  | ORetry _ rnd => (resetForRetry st rnd, 0)
  | OMigrate now => (migratedPath st orc now, 0)
  | ORecvBytes n now => (receivedBytes st orc n now, 0)
  | ORecvPacket l now => (receivedPacket st orc l now, 0)
  | OQueueProbe l => let '(st, b) := queueProbePacket st l in (st, if b then 1 else 0)
  | OSendMode _ cs hb => (st, sendMode st cs hb)
  end.

(* NewSentPacketHandler (the harness installs a skipping generator with a short period so that
   generator skips occur within short histories; the constructor is the real one) *)
Definition init (client addrValidated : bool) (initialPN period maxPeriod rnd0 : Z) : state :=
  mkSt (Some (newSpace (g_sequential initialPN))) (Some (newSpace (g_sequential 0)))
       (newSpace (g_skipping 0 period maxPeriod rnd0))
       [] 0 (negb client) 0 0 (client || addrValidated) false 0 0 sph_SendNone 0 noAlarm client initialPN 0 [] [].

Definition run (st : state) (ops : list (op * oracle)) : state := fold_left (fun s o => fst (step s o)) ops st.
