(** PopPacketNumber + SentPacket, and the PTO branch of OnLossDetectionTimeout that pops and skips a number. *)
From Coq Require Import List ZArith Bool Lia.
From V Require Import Gen.Params SentPH.Model SentPH.ProofsHist SentPH.ProofsBase SentPH.ProofsOps SentPH.ProofsOps2 SentPH.ProofsOps3.
Import ListNotations.
Open Scope Z_scope.

Lemma Acct_replace T st st' k s s2 H :
  Base T st -> sget st k = Some s -> sget st' k = Some s2 -> (forall k', k' <> k -> sget st' k' = sget st k') ->
  swf T (is_app_slot k) s2 ->
  sPanic st' = 0 -> sConf st' = sConf st -> sPCAV st' = sPCAV st -> sClient st' = sClient st -> sCbs st' = sCbs st ->
  sBif st' - msum f_incl (h_list (spH s2)) = sBif st - msum f_incl (h_list (spH s)) ->
  (forall id, msum (f_id id) (h_list (spH s2)) + msum (f_id id) (hProbes (spH s2)) =
              msum (f_id id) (h_list (spH s)) + msum (f_id id) (hProbes (spH s)) + cnt id H) ->
  Acct T [] H st st'.
Proof.
  intros B Hs Hs2 Hoth W HP HC HV HK HCb Hb He.
  pose proof (Base_sget _ _ _ _ B Hs) as W0.
  assert (HM : forall f, M f st' = M f st - msum f (h_list (spH s)) + msum f (h_list (spH s2))).
  { intros f. unfold M, pk. destruct k.
    - rewrite Hs2, (Hoth SH), (Hoth SA), Hs by discriminate. cbn [osp_list]. lia.
    - rewrite Hs2, (Hoth SI), (Hoth SA), Hs by discriminate. cbn [osp_list]. lia.
    - rewrite Hs2, (Hoth SI), (Hoth SH), Hs by discriminate. cbn [osp_list]. lia. }
  assert (HMP : forall f, MP f st' = MP f st - msum f (hProbes (spH s)) + msum f (hProbes (spH s2))).
  { intros f. unfold MP. destruct k.
    - pose proof (Hoth SA ltac:(discriminate)) as X. cbn in X. inversion X as [X']. rewrite X'.
      rewrite (sw_noprobe _ _ _ W0 eq_refl), (sw_noprobe _ _ _ W eq_refl). cbn. lia.
    - pose proof (Hoth SA ltac:(discriminate)) as X. cbn in X. inversion X as [X']. rewrite X'.
      rewrite (sw_noprobe _ _ _ W0 eq_refl), (sw_noprobe _ _ _ W eq_refl). cbn. lia.
    - cbn in Hs, Hs2. inversion Hs; inversion Hs2; subst. lia. }
  destruct B as [B1 B2 B3 B4 B5 B6]. constructor.
  - destruct k; cbn in Hs, Hs2.
    + pose proof (Hoth SH ltac:(discriminate)) as X1. pose proof (Hoth SA ltac:(discriminate)) as X2. cbn in X1, X2. inversion X2 as [X2'].
      constructor; rewrite ?Hs2, ?X1, ?X2', ?HC, ?HV, ?HK; auto.
    + pose proof (Hoth SI ltac:(discriminate)) as X1. pose proof (Hoth SA ltac:(discriminate)) as X2. cbn in X1, X2. inversion X2 as [X2'].
      constructor; rewrite ?Hs2, ?X1, ?X2', ?HC, ?HV, ?HK; auto. discriminate.
    + pose proof (Hoth SI ltac:(discriminate)) as X1. pose proof (Hoth SH ltac:(discriminate)) as X2. cbn in X1, X2. inversion Hs2 as [X3].
      constructor; rewrite ?X1, ?X2, ?X3, ?HC, ?HV, ?HK; auto.
  - unfold slack. rewrite (HM f_incl). lia.
  - intros id. unfold E. rewrite (HM (f_id id)), (HMP (f_id id)), HCb, cnt_nil. specialize (He id). lia.
Qed.

(** what PopPacketNumber leaves behind: the generator is one ahead, the number is the next sequential one *)
Record popped (s s1 : space) (pn : Z) : Prop := {
  pp_wf : hwf (spH s1);
  pp_list : h_list (spH s1) = h_list (spH s);
  pp_probes : hProbes (spH s1) = hProbes (spH s);
  pp_out : hNumOut (spH s1) = hNumOut (spH s);
  pp_ae : spLastAE s1 = spLastAE s;
  pp_seq : seq_bad (spH s1) pn = false;
  pp_pn : 0 <= pn;
  pp_next : gNext (spG s1) = pn + 1;
  pp_lt : forall x, In x (hProbes (spH s)) -> fst x < pn }.

Lemma popPN_spec T app s rnd :
  swf T app s ->
  let '(skipped, pn, g) := g_pop (spG s) rnd in
  let s_g := mkS (spH s) g (spLossTime s) (spLastAE s) (spLargestAcked s) (spLargestSent s) in
  let s1 := if skipped then sp_setH s_g (h_skipped (spH s_g) (pn - 1)) else s_g in
  popped s s1 pn /\ (skipped = true -> seq_bad (spH s) (pn - 1) = false).
Proof.
  intros [W1 W2 W3 W4 W4a W4b W5 W6 W7]. unfold g_pop.
  assert (Hlt : forall d, 0 <= d -> forall x, In x (hProbes (spH s)) -> fst x < gNext (spG s) + d).
  { intros d Hd x Hx. rewrite Forall_forall in W4b. specialize (W4b x Hx).
    destruct (Z.eq_dec (hHighest (spH s)) (-1)) as [E|E]; [lia|]. rewrite (W6 E). lia. }
  assert (Hseq : seq_bad (spH s) (gNext (spG s)) = false).
  { unfold seq_bad. destruct (Z.eqb_spec (hHighest (spH s)) (-1)) as [E|E]; [reflexivity|]. rewrite (W6 E), Z.eqb_refl. reflexivity. }
  destruct (gSkipping (spG s) && (gNext (spG s) =? gNextToSkip (spG s))).
  - cbn [fst snd]. replace (gNext (spG s) + 1 - 1) with (gNext (spG s)) by lia.
    destruct (h_skipped_spec (spH s) (gNext (spG s)) W1 Hseq ltac:(lia)) as [K1 [K2 [K3 [K4 K5]]]].
    split; [|intros _; exact Hseq]. constructor; cbn [spH sp_setH spG spLastAE g_newSkip gNext]; auto; try lia.
    + unfold seq_bad. rewrite K4. destruct (Z.eqb_spec (gNext (spG s)) (-1)); [lia|]. rewrite Z.eqb_refl. reflexivity.
    + apply (Hlt 1). lia.
  - split; [|discriminate]. constructor; cbn [spH spG spLastAE gNext]; auto; try lia.
    intros x Hx. pose proof (Hlt 0 ltac:(lia) x Hx). lia.
Qed.

Lemma popPN_eq T st l rnd s :
  Base T st -> lvl_ok l = true -> sget st (slot_of l) = Some s ->
  exists s1 pn, popPN st l rnd = (sset st (slot_of l) s1, pn) /\ popped s s1 pn /\
                spLossTime s1 = spLossTime s /\ spLargestAcked s1 = spLargestAcked s /\ spLargestSent s1 = spLargestSent s.
Proof.
  intros B Hl Hs. pose proof (popPN_spec T _ s rnd (Base_sget _ _ _ _ B Hs)) as P.
  unfold popPN. rewrite (get_space_slot st l Hl), Hs.
  destruct (g_pop (spG s) rnd) as [[skipped pn] g]. cbn zeta in P. destruct P as [P Hsk].
  destruct skipped.
  - cbn [spH]. rewrite (Hsk eq_refl). rewrite (set_space_slot _ l _ Hl). eexists _, pn. split; [reflexivity|split; [exact P|auto]].
  - rewrite (set_space_slot _ l _ Hl). eexists _, pn. split; [reflexivity|split; [exact P|auto]].
Qed.

Lemma sget_bytes st a b k : sget (st_bytes st a b) k = sget st k.
Proof. destruct k; reflexivity. Qed.

Lemma frames_of_set_incl p : frames_of (set_incl p) = frames_of p. Proof. reflexivity. Qed.

Lemma f_id_placeholder id : f_id id placeholder = 0. Proof. reflexivity. Qed.
Lemma f_incl_placeholder : f_incl placeholder = 0. Proof. reflexivity. Qed.
Lemma pk_ok_placeholder pn : pk_ok (pn, placeholder). Proof. unfold pk_ok. cbn. repeat split; auto; lia. Qed.

Lemma NoDup_snoc {A} (l : list A) x : NoDup l -> ~ In x l -> NoDup (l ++ [x]).
Proof.
  induction l as [|y l IH]; intros Hnd Hni; cbn [app]; [constructor; [intros []|constructor]|].
  inversion Hnd; subst. constructor.
  - intros Hin. apply in_app_or in Hin as [Hin|[<-|[]]]; [contradiction|]. apply Hni. left. reflexivity.
  - apply IH; auto. intros Hin. apply Hni. right. exact Hin.
Qed.

Lemma NoDup_keys_snoc (l : list (Z * packet)) pn p : NoDup (map fst l) -> (forall x, In x l -> fst x < pn) -> NoDup (map fst (l ++ [(pn, p)])).
Proof.
  intros Hnd Hlt. rewrite map_app. cbn [map fst]. apply NoDup_snoc; auto.
  intros Hin. apply in_map_iff in Hin as [x [Hx1 Hx2]]. specialize (Hlt x Hx2). lia.
Qed.

Lemma send_spec T st o l t la sfs fs size mtu probe rnd s :
  Base T st -> lvl_ok l = true -> sget st (slot_of l) = Some s -> 0 <= size ->
  (probe = true -> l = sph_Enc1RTT /\ sfs = [] /\ mtu = false) -> (T = true -> 0 < t) ->
  Acct T [] (fs ++ sfs) st (sentPacket (fst (popPN st l rnd)) o t (snd (popPN st l rnd)) la sfs fs l size mtu probe).
Proof.
  intros B Hl Hs Hsz Hprobe Ht.
  destruct (popPN_eq T st l rnd s B Hl Hs) as [s1 [pn [Eq [[P1 P2 P3 P4 P5 P6 P7 P8 P9] [L1 [L2 L3]]]]]].
  rewrite Eq. cbn [fst snd]. pose proof (Base_sget _ _ _ _ B Hs) as W.
  destruct W as [W1 W2 W3 W4 W4a W4b W5 W6 W7].
  unfold sentPacket. rewrite (get_space_slot _ l Hl), sget_bytes, sget_sset_same.
  set (p := mkP t fs sfs la size l mtu false probe).
  assert (Hfr : frames_of p = fs ++ sfs) by reflexivity.
  assert (Hpn : pn <> -1) by lia.
  destruct probe.
  - destruct (Hprobe eq_refl) as [-> [-> ->]].
    cbn [spH]. rewrite P6.
    destruct (h_sent_probe_spec (spH s1) pn p P1 P6 Hpn) as [K1 [K2 [K3 [K4 [K5 K6]]]]].
    rewrite (set_space_slot _ _ _ lvl_ok_1rtt). rewrite slot_1rtt in *.
    set (s2 := sp_setH (mkS (spH s1) (spG s1) (spLossTime s1) (spLastAE s1) (spLargestAcked s1) pn) (h_sent_probe (spH s1) pn p)).
    apply Acct_replace with (k := SA) (s := s) (s2 := s2);
      [exact B|exact Hs|reflexivity|intros [| |] Hne; try congruence; reflexivity| |
       apply (b_panic _ _ B)|reflexivity|reflexivity|reflexivity|reflexivity| | ].
    + constructor; cbn [s2 spH sp_setH spG spLastAE].
      * exact K1.
      * rewrite K2, P2. apply Forall_app. split; [exact W2|constructor; [apply pk_ok_placeholder|constructor]].
      * rewrite K3, P3. apply Forall_app. split; [exact W3|constructor; [|constructor]]. unfold probe_ok, p. cbn. auto.
      * discriminate.
      * rewrite K3, P3. apply NoDup_keys_snoc; auto.
      * rewrite K3, P3, K5. apply Forall_app. split.
        -- rewrite Forall_forall. intros x Hx. specialize (P9 x Hx). lia.
        -- constructor; [cbn; lia|constructor].
      * lia.
      * rewrite K5. intros _. exact P8.
      * rewrite K6, P4, P5. exact W7.
    + cbn [s2 spH sp_setH]. rewrite K2, P2, msum_app, msum_cons, msum_nil. cbn [snd]. rewrite f_incl_placeholder. cbn [sBif setTimer st_alarm sset st_spaces st_bytes]. lia.
    + intros id. cbn [s2 spH sp_setH]. rewrite K2, K3, P2, P3, !msum_app, !msum_cons, !msum_nil. cbn [snd].
      rewrite f_id_placeholder. unfold f_id at 3. rewrite Hfr. lia.
  - destruct (ackEliciting p) eqn:Ea.
    + cbn [spH spG spLossTime spLastAE spLargestAcked spLargestSent]. rewrite P6. cbn [negb].
      destruct (h_sent_spec (spH s1) pn (set_incl p) P1 P6 Hpn) as [K1 [K2 [K3 [K4 [K5 K6]]]]].
      rewrite (set_space_slot _ _ _ Hl).
      set (s2 := sp_setH (mkS (spH s1) (spG s1) (spLossTime s1) t (spLargestAcked s1) pn) (h_sent (spH s1) pn (set_incl p))).
      apply Acct_replace with (k := slot_of l) (s := s) (s2 := s2);
        [exact B|exact Hs|destruct (slot_of l); reflexivity|intros k' Hne; destruct (slot_of l), k'; try congruence; reflexivity| |
         destruct (slot_of l); apply (b_panic _ _ B)|destruct (slot_of l); reflexivity|destruct (slot_of l); reflexivity|
         destruct (slot_of l); reflexivity|destruct (slot_of l); reflexivity| | ].
      * constructor; cbn [s2 spH sp_setH spG spLastAE].
        -- exact K1.
        -- rewrite K2, P2. apply Forall_app. split; [exact W2|constructor; [|constructor]].
           unfold pk_ok. cbn [snd set_incl pLen pIncl pProbe p]. change (ackEliciting (set_incl p)) with (ackEliciting p). rewrite Ea.
           repeat split; auto. discriminate.
        -- rewrite K3, P3. exact W3.
        -- intros Ha. rewrite K3, P3. auto.
        -- rewrite K3, P3. exact W4a.
        -- rewrite K3, P3, K5. rewrite Forall_forall. intros x Hx. specialize (P9 x Hx). lia.
        -- lia.
        -- rewrite K5. intros _. exact P8.
        -- intros HT _. apply Ht. exact HT.
      * cbn [s2 spH sp_setH]. rewrite K2, P2, msum_app, msum_cons, msum_nil. cbn [snd]. unfold f_incl at 2. cbn [set_incl pIncl pLen p].
        assert (Hb : forall X, sBif (setTimer X o t) = sBif X) by reflexivity. rewrite Hb.
        destruct (slot_of l); cbn [sBif sset st_spaces emit st_pto st_bif st_bytes]; lia.
      * intros id. cbn [s2 spH sp_setH]. rewrite K2, K3, P2, P3, !msum_app, !msum_cons, !msum_nil. cbn [snd].
        unfold f_id at 2. rewrite frames_of_set_incl, Hfr. lia.
    + cbn [spH spG spLossTime spLastAE spLargestAcked spLargestSent]. rewrite P6. cbn [negb].
      destruct (h_sent_spec (spH s1) pn p P1 P6 Hpn) as [K1 [K2 [K3 [K4 [K5 K6]]]]].
      rewrite (set_space_slot _ _ _ Hl).
      assert (Hout : cnt_out_f p = 0).
      { unfold cnt_out_f, outstanding. rewrite Ea. rewrite andb_false_r. reflexivity. }
      set (s2 := sp_setH (mkS (spH s1) (spG s1) (spLossTime s1) (spLastAE s1) (spLargestAcked s1) pn) (h_sent (spH s1) pn p)).
      set (st2 := sset (emit (ESent (sBif (st_bytes (sset st (slot_of l) s1) (sRecv (sset st (slot_of l) s1)) (sSent (sset st (slot_of l) s1) + size))) pn size false)
                         (st_bytes (sset st (slot_of l) s1) (sRecv (sset st (slot_of l) s1)) (sSent (sset st (slot_of l) s1) + size)))
                   (slot_of l) s2).
      assert (A2 : Acct T [] (fs ++ sfs) st st2).
      { apply Acct_replace with (k := slot_of l) (s := s) (s2 := s2);
          [exact B|exact Hs|unfold st2; destruct (slot_of l); reflexivity|intros k' Hne; unfold st2; destruct (slot_of l), k'; try congruence; reflexivity| |
           unfold st2; destruct (slot_of l); apply (b_panic _ _ B)|unfold st2; destruct (slot_of l); reflexivity|unfold st2; destruct (slot_of l); reflexivity|
           unfold st2; destruct (slot_of l); reflexivity|unfold st2; destruct (slot_of l); reflexivity| | ].
        * constructor; cbn [s2 spH sp_setH spG spLastAE].
          -- exact K1.
          -- rewrite K2, P2. apply Forall_app. split; [exact W2|constructor; [|constructor]].
             unfold pk_ok. cbn [snd pLen pIncl pProbe p]. rewrite Ea. repeat split; auto. discriminate.
          -- rewrite K3, P3. exact W3.
          -- intros Ha. rewrite K3, P3. auto.
          -- rewrite K3, P3. exact W4a.
          -- rewrite K3, P3, K5. rewrite Forall_forall. intros x Hx. specialize (P9 x Hx). lia.
          -- lia.
          -- rewrite K5. intros _. exact P8.
          -- rewrite K6, Hout, P4, P5, Z.add_0_r. exact W7.
        * cbn [s2 spH sp_setH]. rewrite K2, P2, msum_app, msum_cons, msum_nil. cbn [snd]. unfold f_incl at 2. cbn [pIncl p].
          unfold st2. destruct (slot_of l); cbn [sBif sset st_spaces emit st_bytes]; lia.
        * intros id. cbn [s2 spH sp_setH]. rewrite K2, K3, P2, P3, !msum_app, !msum_cons, !msum_nil. cbn [snd].
          unfold f_id at 2. rewrite Hfr. lia. }
      fold s2. fold st2. cbn [negb].
      destruct (negb (sPCAV st2)); [|exact A2].
      eapply Acct_Pres_r; [exact A2|]. apply setTimer_pres. apply (a_base _ _ _ _ _ A2).
Qed.
