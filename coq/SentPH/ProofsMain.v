(** Every API-conforming history keeps the invariants: op-level accounting and the main theorems. *)
From Coq Require Import List ZArith Bool Lia.
From V Require Import Gen.Params SentPH.Model SentPH.ProofsHist SentPH.ProofsBase SentPH.ProofsOps SentPH.ProofsOps2
  SentPH.ProofsOps3 SentPH.ProofsAck SentPH.ProofsSend SentPH.ProofsTimeout.
Import ListNotations.
Open Scope Z_scope.

Definition Inv (T : bool) (st : state) : Prop := Base T st /\ slack st = 0.

Definition executed (st : state) (o : op) : bool := (sPanic st =? 0) && op_valid st o.

(** ghost bookkeeping of a history: frame ids handed to SentPacket, and frame ids whose packet was
    discarded without a callback (space dropped, 0-RTT rejected, path probes at a migration) *)
Definition handed (st : state) (oo : op * oracle) : list Z :=
  match fst oo with
  | OSend _ _ _ sfs fs _ _ _ _ => if executed st (fst oo) then fs ++ sfs else []
  | _ => []
  end.
Definition discarded (st : state) (oo : op * oracle) : list Z :=
  match fst oo with
  | ODrop l _ => if executed st (fst oo) then drop_discarded st l else []
  | OMigrate _ => if executed st (fst oo) then migrate_discarded st else []
  | _ => []
  end.

(* T = true additionally assumes that packets are sent at positive times (0 is "unset" in the code) *)
Definition op_timed (T : bool) (oo : op * oracle) : Prop :=
  T = true -> match fst oo with OSend _ t _ _ _ _ _ _ _ => 0 < t | _ => True end.

Lemma Inv_Good T st : Inv T st -> Good T st.
Proof. intros [B S]. split; [exact B|lia]. Qed.

Lemma space_live_sget st l : lvl_ok l = true -> space_live st l = true -> exists s, sget st (slot_of l) = Some s.
Proof. intros Hl H. unfold space_live in H. rewrite (get_space_slot st l Hl) in H. destruct (sget st (slot_of l)); [eauto|discriminate]. Qed.

Lemma ack_valid_ne rs : ack_valid rs = true -> rs <> [].
Proof. destruct rs; [discriminate|discriminate]. Qed.

Lemma step_acct T st oo :
  Inv T st -> op_timed T oo -> Acct T (discarded st oo) (handed st oo) st (fst (step st oo)).
Proof.
  intros I Ht. pose proof (Inv_Good _ _ I) as G. destruct I as [B S]. destruct oo as [o orc].
  unfold step, discarded, handed, executed. cbn [fst].
  rewrite (b_panic _ _ B). cbn [Z.eqb negb orb andb].
  destruct (op_valid st o) eqn:Ev; cbn [negb].
  2:{ cbn [fst]. destruct o; apply Acct_of_Pres; apply Pres_refl; exact B. }
  destruct o as [l t la sfs fs size mtu probe rnd|l now delay rs|now rnd|l now|now rnd|now|n now|l now|l|now cs hb]; cbn [op_valid] in Ev.
  - (* OSend *)
    apply andb_prop in Ev as [Ev Hnil]. apply andb_prop in Ev as [Ev Hpr]. apply andb_prop in Ev as [Ev Hsz]. apply andb_prop in Ev as [Hlive Hl].
    destruct (space_live_sget st l Hl Hlive) as [s Hs].
    pose proof (send_spec T st orc l t la sfs fs size mtu probe rnd s B Hl Hs ltac:(lia)) as A.
    destruct (popPN st l rnd) as [st1 pn]. cbn [fst snd] in *. apply A.
    + intros ->. apply andb_prop in Hpr as [Hpr Hm]. apply andb_prop in Hpr as [Hpr _]. apply andb_prop in Hpr as [Hpl Hsf].
      apply Z.eqb_eq in Hpl. destruct sfs; [|discriminate]. destruct mtu; [discriminate|]. auto.
    + intros HT. apply (Ht HT).
  - (* OAck *)
    apply andb_prop in Ev as [Ev Hav]. apply andb_prop in Ev as [Ev _]. apply andb_prop in Ev as [Hlive Hl].
    destruct (space_live_sget st l Hl Hlive) as [s Hs].
    pose proof (receivedAck_spec T st orc rs l now G Hl ltac:(congruence) (ack_valid_ne _ Hav)) as A.
    destruct (receivedAck st orc rs l now) as [[st' a1] err]. exact A.
  - (* OTimeout *)
    apply onTimeout_spec. exact G.
  - (* ODrop *)
    cbn [fst]. apply dropPackets_spec; [exact G|].
    destruct (Z.eqb_spec l sph_EncInitial); [auto|]. destruct (Z.eqb_spec l sph_EncHandshake); [auto|].
    destruct (Z.eqb_spec l sph_Enc0RTT); [auto|discriminate].
  - (* ORetry *)
    cbn [fst]. apply andb_prop in Ev as [Ev Hh]. apply andb_prop in Ev as [Ev Hp]. apply andb_prop in Ev as [_ Hi].
    apply resetForRetry_spec; auto.
    + destruct (sInit st); [discriminate|discriminate].
    + unfold prb. destruct (hProbes (spH (sApp st))); [reflexivity|discriminate].
    + destruct (sHs st) as [sh|]; [|reflexivity]. apply andb_prop in Hh as [_ Hh]. cbn [osp_list]. unfold h_list.
      destruct (hPackets (spH sh)); [reflexivity|discriminate].
  - (* OMigrate *)
    cbn [fst]. apply migratedPath_spec. exact G.
  - cbn [fst]. apply receivedBytes_spec. exact B.
  - cbn [fst]. apply receivedPacket_spec. exact B.
  - (* OQueueProbe *)
    apply andb_prop in Ev as [Hlive Hl]. destruct (space_live_sget st l Hl Hlive) as [s Hs].
    destruct (queueProbePacket_spec T st l G Hl ltac:(congruence)) as [P _].
    destruct (queueProbePacket st l) as [st' b]. cbn [fst] in *. apply Acct_of_Pres. exact P.
  - cbn [fst]. apply Acct_of_Pres. apply Pres_refl. exact B.
Qed.

Lemma step_inv T st oo : Inv T st -> op_timed T oo -> Inv T (fst (step st oo)).
Proof. intros I Ht. destruct (step_acct T st oo I Ht) as [A1 A2 A3]. destruct I as [B S]. split; [exact A1|lia]. Qed.

(** the ghost-instrumented run *)
Fixpoint grun (st : state) (D H : list Z) (ops : list (op * oracle)) : state * list Z * list Z :=
  match ops with
  | [] => (st, D, H)
  | oo :: r => grun (fst (step st oo)) (D ++ discarded st oo) (H ++ handed st oo) r
  end.

Lemma grun_run st D H ops : fst (fst (grun st D H ops)) = run st ops.
Proof. revert st D H; induction ops as [|oo r IH]; intros st D H; cbn [grun run fold_left]; [reflexivity|apply IH]. Qed.

Lemma grun_acct T ops : forall st D H,
  Inv T st -> Forall (op_timed T) ops -> (forall id, E id st + cnt id D = cnt id H) ->
  let '(st', D', H') := grun st D H ops in
  Inv T st' /\ (forall id, E id st' + cnt id D' = cnt id H').
Proof.
  induction ops as [|oo r IH]; intros st D H I Ht He; cbn [grun]; [split; assumption|].
  inversion Ht as [|? ? Ht1 Ht2]; subst.
  apply IH; auto.
  - apply step_inv; auto.
  - intros id. destruct (step_acct T st oo I Ht1) as [A1 A2 A3]. rewrite !cnt_app. specialize (A3 id). specialize (He id). lia.
Qed.

Lemma Inv_init T client validated ipn period maxPeriod rnd0 :
  0 <= ipn -> Inv T (init client validated ipn period maxPeriod rnd0).
Proof.
  intros Hi. split.
  - constructor; cbn; try (apply swf_newSpace; cbn; lia); try congruence.
    intros ->. reflexivity.
  - reflexivity.
Qed.

Lemma E_init id client validated ipn period maxPeriod rnd0 : E id (init client validated ipn period maxPeriod rnd0) = 0.
Proof. reflexivity. Qed.

(** tracked frame ids of a state *)
Definition tracked_ids (st : state) : list Z :=
  ids_of (pk st SI) ++ ids_of (pk st SH) ++ ids_of (pk st SA) ++ ids_of (hProbes (spH (sApp st))).

Lemma E_tracked id st : E id st = cnt id (tracked_ids st) + cntcb id (sCbs st).
Proof. unfold E, M, MP, tracked_ids. rewrite !cnt_app, !msum_f_id. lia. Qed.

Lemma cnt_NoDup id l : NoDup l -> cnt id l <= 1.
Proof.
  induction 1 as [|x l Hni Hnd IH]; cbn [cnt fold_right]; [lia|]. fold (cnt id l).
  destruct (Z.eqb_spec x id) as [->|]; [rewrite (cnt_notIn id l Hni); lia|lia].
Qed.

Lemma cnt_NoDup_In id l : NoDup l -> In id l -> cnt id l = 1.
Proof. intros Hnd Hin. pose proof (cnt_NoDup id l Hnd). pose proof (cnt_In_pos id l Hin). lia. Qed.

Definition history_from (client validated : bool) (ipn period maxPeriod rnd0 : Z) (ops : list (op * oracle)) :=
  grun (init client validated ipn period maxPeriod rnd0) [] [] ops.

(** C06 (a): the account of every frame id *)
Theorem exactly_once client validated ipn period maxPeriod rnd0 ops :
  0 <= ipn ->
  let '(st, D, H) := history_from client validated ipn period maxPeriod rnd0 ops in
  forall id, cntcb id (sCbs st) + cnt id (tracked_ids st) + cnt id D = cnt id H.
Proof.
  intros Hi. unfold history_from.
  pose proof (grun_acct false ops (init client validated ipn period maxPeriod rnd0) [] []
                (Inv_init false _ _ _ _ _ _ Hi)) as X.
  destruct (grun _ [] [] ops) as [[st D] H].
  destruct X as [_ X].
  - rewrite Forall_forall. intros oo _ Hf. discriminate.
  - intros id. rewrite E_init. reflexivity.
  - intros id. specialize (X id). rewrite E_tracked in X. lia.
Qed.

Corollary exactly_once_fresh client validated ipn period maxPeriod rnd0 ops :
  0 <= ipn ->
  let '(st, D, H) := history_from client validated ipn period maxPeriod rnd0 ops in
  NoDup H ->
  forall id,
    cntcb id (sCbs st) <= 1 /\
    (In id H -> ~ In id (tracked_ids st) -> ~ In id D -> cntcb id (sCbs st) = 1) /\
    (~ In id H -> cntcb id (sCbs st) = 0) /\
    (In id (tracked_ids st) -> cntcb id (sCbs st) = 0).
Proof.
  intros Hi. pose proof (exactly_once client validated ipn period maxPeriod rnd0 ops Hi) as X.
  destruct (history_from client validated ipn period maxPeriod rnd0 ops) as [[st D] H].
  intros Hnd id. specialize (X id). pose proof (cnt_NoDup id H Hnd).
  pose proof (cnt_nonneg id (tracked_ids st)). pose proof (cnt_nonneg id D). pose proof (cnt_nonneg id (map fst (sCbs st))).
  unfold cntcb in *. repeat split.
  - lia.
  - intros Ka Kb Kc. rewrite (cnt_notIn _ _ Kb), (cnt_notIn _ _ Kc), (cnt_NoDup_In _ _ Hnd Ka) in X. lia.
  - intros Ka. rewrite (cnt_notIn _ _ Ka) in X. lia.
  - intros Ka. pose proof (cnt_In_pos _ _ Ka). lia.
Qed.

(** C06 (b): the in-flight account *)
Definition balanced (st : state) : Prop :=
  sPanic st = 0 /\
  sBif st = msum f_incl (pk st SI) + msum f_incl (pk st SH) + msum f_incl (pk st SA) /\
  (forall k s, sget st k = Some s -> hNumOut (spH s) = msum cnt_out_f (h_list (spH s))) /\
  (forall k x, In x (pk st k) -> 0 <= pLen (snd x) /\ pIncl (snd x) = ackEliciting (snd x) && negb (pProbe (snd x))) /\
  (forall x, In x (hProbes (spH (sApp st))) -> pIncl (snd x) = false).

Lemma Inv_balanced T st : Inv T st -> balanced st.
Proof.
  intros [B S]. split; [apply (b_panic _ _ B)|split; [unfold slack, M in S; lia|split; [|split]]].
  - intros k s Hs. apply (wf_out _ (sw_h _ _ _ (Base_sget _ _ _ _ B Hs))).
  - intros k x Hx. destruct (pk_ok_of _ _ _ _ B Hx) as [H1 [H2 _]]. auto.
  - intros x Hx. destruct (probe_ok_of _ _ _ B Hx) as [H1 _]. exact H1.
Qed.

Theorem in_flight_balance client validated ipn period maxPeriod rnd0 ops :
  0 <= ipn -> balanced (run (init client validated ipn period maxPeriod rnd0) ops).
Proof.
  intros Hi. rewrite <- (grun_run _ [] [] ops).
  pose proof (grun_acct false ops (init client validated ipn period maxPeriod rnd0) [] []
                (Inv_init false _ _ _ _ _ _ Hi)) as X.
  destruct (grun _ [] [] ops) as [[st D] H]. cbn [fst].
  destruct X as [I _].
  - rewrite Forall_forall. intros oo _ Hf. discriminate.
  - intros id. rewrite E_init. reflexivity.
  - eapply Inv_balanced; eauto.
Qed.
