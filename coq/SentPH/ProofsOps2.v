(** QueueProbePacket, MigratedPath, DropPackets, ResetForRetry and the accounting relation used at op level. *)
From Coq Require Import List ZArith Bool Lia.
From V Require Import Gen.Params SentPH.Model SentPH.ProofsHist SentPH.ProofsBase SentPH.ProofsOps.
Import ListNotations.
Open Scope Z_scope.

Ltac bk := apply Pres_bookkeeping; [assumption | unfold same_sp; cbn; repeat split | reflexivity | reflexivity].

Lemma setTimer_pres T st o now : Base T st -> Pres T 0 st (setTimer st o now).
Proof. intros B. unfold setTimer. apply Pres_bookkeeping; [assumption | unfold same_sp; cbn; repeat split | reflexivity | reflexivity]. Qed.

Lemma st_pto_pres T st c m n : Base T st -> Pres T 0 st (st_pto st c m n).
Proof. intros B. apply Pres_bookkeeping; [assumption | unfold same_sp; cbn; repeat split | reflexivity | reflexivity]. Qed.

Lemma Pres_Good T st st' : Good T st -> Pres T 0 st st' -> Good T st'.
Proof. apply Good_Pres. Qed.

(** ids of a packet list *)
Definition ids_of (l : list (Z * packet)) : list Z := flat_map (fun x => frames_of (snd x)) l.
Lemma msum_f_id id l : msum (f_id id) l = cnt id (ids_of l).
Proof. induction l as [|x l IH]; [reflexivity|]. cbn [ids_of flat_map]. rewrite msum_cons, cnt_app. fold (ids_of l). rewrite <- IH. reflexivity. Qed.

(** ** QueueProbePacket *)
Lemma find_In {A} (f : A -> bool) l x : find f l = Some x -> In x l /\ f x = true.
Proof. apply find_some. Qed.

Lemma queueProbePacket_spec T st l :
  Good T st -> lvl_ok l = true -> sget st (slot_of l) <> None ->
  Pres T 0 st (fst (queueProbePacket st l)) /\ sAlarm (fst (queueProbePacket st l)) = sAlarm st.
Proof.
  intros G Hl Hlive. unfold queueProbePacket. rewrite (get_space_slot st l Hl).
  destruct (sget st (slot_of l)) as [s|] eqn:Hs; [|congruence].
  unfold h_firstOutstanding. destruct (h_hasOut (spH s)); [|cbn; split; [apply Pres_refl; apply G|reflexivity]].
  destruct (find _ (h_list (spH s))) as [[pn p]|] eqn:Ef; [|cbn; split; [apply Pres_refl; apply G|reflexivity]].
  apply find_In in Ef as [Hin Ho]. cbn [snd fst] in *.
  assert (Hin' : In (pn, p) (pk st (slot_of l))) by (unfold pk; rewrite Hs; exact Hin).
  unfold outstanding in Ho. apply andb_prop in Ho as [Ho Ha]. apply andb_prop in Ho as [_ Hp].
  destruct (lose_spec T st l (pn, p) G Hl Hin') as [[P _] [_ [_ [_ [Ha' _]]]]].
  unfold lose in P, Ha'. cbn [fst snd] in P, Ha'. rewrite Hp, Ha in P, Ha'. cbn [andb] in P, Ha'. split; [exact P|exact Ha'].
Qed.

(** ** MigratedPath *)
Lemma migrate_one_lose st x : pk_ok x -> migrate_one st x = lose sph_Enc1RTT st x.
Proof.
  destruct x as [pn p]. intros [_ [Hi _]]. cbn [snd] in Hi. unfold migrate_one, lose. cbn [fst snd].
  destruct (pProbe p); cbn [negb andb]; [reflexivity|].
  destruct (ackEliciting p) eqn:Ea; [reflexivity|].
  rewrite rm_bif_false; [reflexivity|]. rewrite Hi. reflexivity.
Qed.

Lemma lvl_ok_1rtt : lvl_ok sph_Enc1RTT = true. Proof. reflexivity. Qed.
Lemma lvl_ok_0rtt : lvl_ok sph_Enc0RTT = true. Proof. reflexivity. Qed.
Lemma lvl_ok_init : lvl_ok sph_EncInitial = true. Proof. reflexivity. Qed.
Lemma lvl_ok_hs : lvl_ok sph_EncHandshake = true. Proof. reflexivity. Qed.
Lemma slot_1rtt : slot_of sph_Enc1RTT = SA. Proof. reflexivity. Qed.
Lemma slot_0rtt : slot_of sph_Enc0RTT = SA. Proof. reflexivity. Qed.
Lemma slot_init : slot_of sph_EncInitial = SI. Proof. reflexivity. Qed.
Lemma slot_hs : slot_of sph_EncHandshake = SH. Proof. reflexivity. Qed.

Lemma migrate_fold_spec T st :
  Good T st ->
  let st' := fold_left migrate_one (h_list (spH (sApp st))) st in
  Pres T 0 st st' /\ prb st' = prb st.
Proof.
  intros G st'.
  destruct (fold_items T SA migrate_one (fun s => prb s = prb st)) with (items := h_list (spH (sApp st))) (st := st) as [P HP]; auto.
  - intros st1 x G1 HP1 Hin. rewrite (migrate_one_lose st1 x (pk_ok_of _ _ _ _ (proj1 G1) Hin)).
    destruct (lose_spec T st1 sph_Enc1RTT x G1 lvl_ok_1rtt Hin) as [PK [S _]].
    split; [exact PK|]. rewrite <- HP1.
    destruct (pk_sget _ _ _ Hin) as [s [Hs Hin']]. destruct x as [pn p].
    pose proof (st_declareLost_spec T st1 sph_Enc1RTT s pn p (proj1 G1) lvl_ok_1rtt Hs Hin') as R.
    destruct R as [_ [_ [_ [_ [_ [_ [_ [_ [_ [_ [_ [_ [R13 _]]]]]]]]]]]]]. destruct S as [_ [_ [S3 _]]]. unfold prb. rewrite S3.
    cbn [fst].
    destruct (R13 SA (sApp st1) (sApp (st_declareLost st1 sph_Enc1RTT pn)) eq_refl eq_refl) as [_ [_ [_ [_ [_ [_ [_ [_ R]]]]]]]].
    exact R.
  - apply plist_nodup.
Qed.

(* ghost: the probe packets MigratedPath discards without a callback *)
Fixpoint migrate_removed (fuel : nat) (i : nat) (arr : list (Z * packet)) (m : nat) : list (Z * packet) :=
  match fuel with
  | O => []
  | S fuel' =>
    match nth_error arr i with
    | None => []
    | Some (pn, _) =>
      let cur := firstn m arr in
      let '(cur', found) := remove_probe cur pn in
      match found with
      | None => migrate_removed fuel' (S i) arr m
      | Some q => (pn, q) :: migrate_removed fuel' (S i) (cur' ++ skipn (m - 1) arr) (m - 1)
      end
    end
  end.

Lemma remove_probe_length l pn q : snd (remove_probe l pn) = Some q -> S (length (fst (remove_probe l pn))) = length l.
Proof.
  induction l as [|[a r] l IH]; cbn [remove_probe]; [discriminate|].
  destruct (Z.eqb_spec a pn); cbn [fst snd]; [reflexivity|].
  destruct (remove_probe l pn) as [r' fo]. cbn [fst snd length] in *. intros H. rewrite (IH H). reflexivity.
Qed.

Lemma remove_probe_nodup_keys l pn : NoDup (map fst l) -> NoDup (map fst (fst (remove_probe l pn))).
Proof.
  induction l as [|[a r] l IH]; intros H; cbn [remove_probe]; [constructor|].
  cbn [map fst] in H. inversion H as [|? ? Hni Hnd]; subst.
  destruct (Z.eqb_spec a pn); cbn [fst]; [exact Hnd|].
  specialize (IH Hnd). pose proof (remove_probe_In l pn) as HI.
  destruct (remove_probe l pn) as [r' fo]. cbn [fst map] in *. constructor; [|exact IH].
  intros Hin. apply Hni. apply in_map_iff in Hin as [x [Hx1 Hx2]]. apply in_map_iff. exists x. split; [exact Hx1|apply HI; exact Hx2].
Qed.

Lemma migrate_probes_spec fuel : forall i arr m, (m <= length arr)%nat ->
  (forall f, msum f (firstn m arr) = msum f (migrate_probes fuel i arr m) + msum f (migrate_removed fuel i arr m)) /\
  (forall x, In x (migrate_probes fuel i arr m) -> In x (firstn m arr)) /\
  (NoDup (map fst (firstn m arr)) -> NoDup (map fst (migrate_probes fuel i arr m))).
Proof.
  induction fuel as [|fuel IH]; intros i arr m Hm; cbn [migrate_probes migrate_removed].
  - split; [intros f; cbn; lia|split; auto].
  - destruct (nth_error arr i) as [[pn pp]|]; [|split; [intros f; cbn; lia|split; auto]].
    pose proof (remove_probe_spec) as RS. pose proof (remove_probe_length (firstn m arr) pn) as RL.
    pose proof (remove_probe_In (firstn m arr) pn) as RI. pose proof (remove_probe_nodup_keys (firstn m arr) pn) as RN.
    destruct (remove_probe (firstn m arr) pn) as [cur' found] eqn:Er. cbn [fst snd] in *.
    destruct found as [q|]; [|apply IH; exact Hm].
    specialize (RL q eq_refl). rewrite firstn_length_le in RL by exact Hm.
    assert (Hm1 : (m - 1 <= length (cur' ++ skipn (m - 1) arr))%nat).
    { rewrite app_length. lia. }
    assert (Hf : firstn (m - 1) (cur' ++ skipn (m - 1) arr) = cur').
    { rewrite firstn_app. replace (m - 1 - length cur')%nat with O by lia. cbn [firstn]. rewrite app_nil_r.
      apply firstn_all2. lia. }
    destruct (IH (S i) (cur' ++ skipn (m - 1) arr) (m - 1)%nat Hm1) as [I1 [I2 I3]]. rewrite Hf in I1, I2, I3.
    split; [|split].
    + intros f. specialize (RS f (firstn m arr) pn). rewrite Er in RS. cbn [fst snd] in RS. rewrite RS, (I1 f), msum_cons. cbn [snd]. lia.
    + intros x Hx. apply RI. apply I2. exact Hx.
    + intros Hnd. apply I3. apply RN. exact Hnd.
Qed.

(** accounting relation at op level: [D] = frame ids discarded without callback, [H] = ids handed over *)
Record Acct (T : bool) (D H : list Z) (st st' : state) : Prop := {
  a_base : Base T st';
  a_slack : slack st' = slack st;
  a_E : forall id, E id st' + cnt id D = E id st + cnt id H }.

Lemma Acct_of_Pres T st st' : Pres T 0 st st' -> Acct T [] [] st st'.
Proof. intros [P1 P2 P3 _ _ _ _]. constructor; [exact P1|lia|intros id; rewrite P3; reflexivity]. Qed.

Lemma Acct_trans T D1 H1 D2 H2 st1 st2 st3 : Acct T D1 H1 st1 st2 -> Acct T D2 H2 st2 st3 -> Acct T (D1 ++ D2) (H1 ++ H2) st1 st3.
Proof.
  intros [A1 A2 A3] [B1 B2 B3]. constructor; [exact B1|lia|]. intros id. rewrite !cnt_app. specialize (A3 id). specialize (B3 id). lia.
Qed.

Lemma Acct_Pres_r T D H st1 st2 st3 : Acct T D H st1 st2 -> Pres T 0 st2 st3 -> Acct T D H st1 st3.
Proof.
  intros A P. pose proof (Acct_trans _ _ _ _ _ _ _ _ A (Acct_of_Pres _ _ _ P)) as X. rewrite !app_nil_r in X. exact X.
Qed.
Lemma Acct_Pres_l T D H st1 st2 st3 : Pres T 0 st1 st2 -> Acct T D H st2 st3 -> Acct T D H st1 st3.
Proof. intros P A. exact (Acct_trans _ _ _ _ _ _ _ _ (Acct_of_Pres _ _ _ P) A). Qed.

Definition migrate_discarded (st : state) : list Z :=
  let pr := prb st in ids_of (migrate_removed (length pr) 0 pr (length pr)).

Lemma migratedPath_spec T st o now : Good T st -> Acct T (migrate_discarded st) [] st (migratedPath st o now).
Proof.
  intros G. unfold migratedPath. destruct (migrate_fold_spec T st G) as [P HP].
  set (st1 := fold_left migrate_one (h_list (spH (sApp st))) st) in *.
  assert (B1 : Base T st1) by apply (p_base _ _ _ _ P).
  fold (prb st1). fold (set_prb st1 (migrate_probes (length (prb st1)) 0 (prb st1) (length (prb st1)))).
  destruct (migrate_probes_spec (length (prb st1)) 0 (prb st1) (length (prb st1)) (le_n _)) as [M1 [M2 M3]].
  rewrite firstn_all in M1, M2, M3.
  set (pr' := migrate_probes (length (prb st1)) 0 (prb st1) (length (prb st1))) in *.
  assert (A : Acct T (migrate_discarded st) [] st1 (set_prb st1 pr')).
  { assert (W : swf T true (sApp (set_prb st1 pr'))).
    { cbn. apply swf_set_probes; [apply (b_app _ _ B1)|exact M2|apply M3; apply (sw_prnd _ _ _ (b_app _ _ B1))]. }
    assert (PK : forall k, pk (set_prb st1 pr') k = pk st1 k) by (intros [| |]; reflexivity).
    constructor.
    + destruct B1 as [B1 B2 B3 B4 B5 B6]. constructor; auto.
    + unfold slack, M. rewrite !PK. reflexivity.
    + intros id. unfold E, M. rewrite !PK. unfold MP. change (hProbes (spH (sApp (set_prb st1 pr')))) with pr'.
      fold (prb st1). rewrite (M1 (f_id id)). unfold migrate_discarded. rewrite <- HP. rewrite <- msum_f_id, cnt_nil.
      change (sCbs (set_prb st1 pr')) with (sCbs st1). lia. }
  eapply Acct_Pres_l; [exact P|]. eapply Acct_Pres_r; [exact A|]. apply setTimer_pres. apply (a_base _ _ _ _ _ A).
Qed.
