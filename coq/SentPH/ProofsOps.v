(** Effect of the handler's internal procedures on the invariants. [Pres T d st st'] : the step
    from [st] to [st'] keeps the structural invariant, changes the slack by [d], keeps the
    per-frame account [E] and only removes tracked packets. *)
From Coq Require Import List ZArith Bool Lia.
From V Require Import Gen.Params SentPH.Model SentPH.ProofsHist SentPH.ProofsBase.
Import ListNotations.
Open Scope Z_scope.

Record Pres (T : bool) (d : Z) (st st' : state) : Prop := {
  p_base : Base T st';
  p_slack : slack st' = slack st + d;
  p_E : forall id, E id st' = E id st;
  p_sub : forall k x, In x (pk st' k) -> In x (pk st k);
  p_live : forall k, sget st' k = None <-> sget st k = None;
  p_flags : sClient st' = sClient st /\ sPCAV st' = sPCAV st /\ sPAV st' = sPAV st /\ sConf st' = sConf st /\
            sRecv st' = sRecv st /\ sSent st' = sSent st;
  p_out : forall k s s', sget st k = Some s -> sget st' k = Some s' ->
          hNumOut (spH s') <= hNumOut (spH s) /\ spLastAE s' = spLastAE s /\ spG s' = spG s /\
          hHighest (spH s') = hHighest (spH s) }.

Lemma Pres_refl T st : Base T st -> Pres T 0 st st.
Proof.
  intros B. constructor.
  - exact B.
  - lia.
  - reflexivity.
  - auto.
  - tauto.
  - repeat split; reflexivity.
  - intros k s s' H1 H2. rewrite H1 in H2. inversion H2; subst. repeat split; lia.
Qed.

Lemma Pres_trans T d1 d2 st1 st2 st3 : Pres T d1 st1 st2 -> Pres T d2 st2 st3 -> Pres T (d1 + d2) st1 st3.
Proof.
  intros [A1 A2 A3 A4 A5 A6 A7] [B1 B2 B3 B4 B5 B6 B7]. constructor; auto.
  - lia.
  - intros id. rewrite B3. apply A3.
  - intros k. rewrite B5. apply A5.
  - destruct A6 as [? [? [? [? [? ?]]]]], B6 as [? [? [? [? [? ?]]]]]. repeat split; congruence.
  - intros k s s'' H1 H3. destruct (sget st2 k) as [s'|] eqn:E2.
    + destruct (A7 k s s' H1 E2) as [? [? [? ?]]], (B7 k s' s'' E2 H3) as [? [? [? ?]]].
      repeat split; try congruence; lia.
    + apply A5 in E2. congruence.
Qed.

(* same spaces, only bookkeeping fields change *)
Lemma Pres_same T st st' :
  Base T st -> sPanic st' = sPanic st -> sInit st' = sInit st -> sHs st' = sHs st -> sApp st' = sApp st ->
  sBif st' = sBif st -> sCbs st' = sCbs st ->
  sClient st' = sClient st -> sPCAV st' = sPCAV st -> sPAV st' = sPAV st -> sConf st' = sConf st ->
  sRecv st' = sRecv st -> sSent st' = sSent st ->
  Pres T 0 st st'.
Proof.
  intros B P A H C F G I J K L N O.
  assert (SG : forall k, sget st' k = sget st k) by (intros [| |]; cbn; congruence).
  constructor.
  - eapply Base_same; eauto.
  - rewrite (slack_same_spaces st st') by auto. lia.
  - intros id. rewrite (E_same_spaces id st st') by auto. rewrite G. lia.
  - intros k x. unfold pk. rewrite SG. auto.
  - intros k. rewrite SG. tauto.
  - repeat split; auto.
  - intros k s s' H1 H2. rewrite SG, H1 in H2. inversion H2; subst. repeat split; lia.
Qed.

(** ** DeclareLost / Remove lifted to the state *)
Lemma swf_removed T app s h' pn p : swf T app s -> removed_from (spH s) h' pn p -> swf T app (sp_setH s h').
Proof.
  intros [W1 W2 W3 W4 W4a W4b W5 W6 W7] [R1 [R2 [R3 [R4 [R5 [R6 R7]]]]]].
  constructor; cbn [spH sp_setH spG spLastAE]; auto.
  - rewrite Forall_forall in *. intros x Hx. apply W2. apply R3 in Hx. tauto.
  - rewrite R4. exact W3.
  - intros E'. rewrite R4. auto.
  - rewrite R4. exact W4a.
  - rewrite R4, R6. exact W4b.
  - rewrite R6. exact W6.
  - intros HT Hn. apply W7; auto. rewrite R7 in Hn. unfold cnt_out_f in Hn. destruct (outstanding p); lia.
Qed.

Definition removal (T : bool) (st st' : state) (k : slot) (pn : Z) (p : packet) : Prop :=
  Base T st' /\
  (forall f, M f st' = M f st - f p) /\ (forall f, MP f st' = MP f st) /\
  sBif st' = sBif st /\ sCbs st' = sCbs st /\ sEvs st' = sEvs st /\ sLost st' = sLost st /\ sPanic st' = sPanic st /\
  (forall k' x, In x (pk st' k') -> In x (pk st k')) /\
  (forall k' x, In x (pk st k') -> (k' <> k \/ fst x <> pn) -> In x (pk st' k')) /\
  (forall k', sget st' k' = None <-> sget st k' = None) /\
  (sClient st' = sClient st /\ sPCAV st' = sPCAV st /\ sPAV st' = sPAV st /\ sConf st' = sConf st /\
   sRecv st' = sRecv st /\ sSent st' = sSent st) /\
  (forall k' s s', sget st k' = Some s -> sget st' k' = Some s' ->
          hNumOut (spH s') <= hNumOut (spH s) /\ spLastAE s' = spLastAE s /\ spG s' = spG s /\
          hHighest (spH s') = hHighest (spH s) /\ hSkipped (spH s') = hSkipped (spH s) /\
          spLargestAcked s' = spLargestAcked s /\ spLargestSent s' = spLargestSent s /\
          spLossTime s' = spLossTime s /\ hProbes (spH s') = hProbes (spH s)) /\
  sAlarm st' = sAlarm st /\ sLAT st' = sLAT st.

Lemma sset_removed T st k s h' pn p :
  Base T st -> sget st k = Some s -> removed_from (spH s) h' pn p ->
  removal T st (sset st k (sp_setH s h')) k pn p.
Proof.
  intros B Hs R. pose proof (swf_removed _ _ _ _ _ _ (Base_sget _ _ _ _ B Hs) R) as W.
  destruct R as [R1 [R2 [R3 [R4 [R5 [R6 R7]]]]]].
  destruct (sset_fields st k (sp_setH s h')) as [F1 [F2 [F3 [F4 [F5 [F6 [F7 [F8 [F9 [F10 [F11 [F12 [F13 [F14 [F15 F16]]]]]]]]]]]]]]].
  unfold removal. repeat match goal with |- _ /\ _ => split end; auto.
  - eapply Base_sset; eauto.
  - intros f. rewrite (M_sset f st k s _ Hs). cbn [spH sp_setH]. rewrite (R2 f). lia.
  - intros f. destruct k; try reflexivity. cbn in Hs. inversion Hs; subst. unfold MP. cbn. rewrite R4. reflexivity.
  - intros k' x. unfold pk. destruct (slot_eq_dec k k') as [<-|Hne].
    + rewrite sget_sset_same, Hs. cbn [osp_list spH sp_setH]. intros H. apply R3 in H. tauto.
    + rewrite sget_sset_other by exact Hne. auto.
  - intros k' x Hin Hc. unfold pk in *. destruct (slot_eq_dec k k') as [<-|Hne].
    + rewrite sget_sset_same. rewrite Hs in Hin. cbn [osp_list spH sp_setH] in *. apply R3. split; [exact Hin|]. destruct Hc; congruence.
    + rewrite sget_sset_other by exact Hne. exact Hin.
  - intros k'. destruct (slot_eq_dec k k') as [<-|Hne].
    + rewrite sget_sset_same, Hs. split; discriminate.
    + rewrite sget_sset_other by exact Hne. tauto.
  - intros k' s0 s0' H1 H2. destruct (slot_eq_dec k k') as [<-|Hne].
    + rewrite sget_sset_same in H2. rewrite Hs in H1. inversion H1; inversion H2; subst. cbn [spH sp_setH spLastAE spG spLargestAcked spLargestSent spLossTime].
      repeat split; auto. rewrite R7. unfold cnt_out_f. destruct (outstanding p); lia.
    + rewrite sget_sset_other in H2 by exact Hne. rewrite H1 in H2. inversion H2; subst. repeat split; lia.
Qed.

Lemma st_declareLost_spec T st l s pn p :
  Base T st -> lvl_ok l = true -> sget st (slot_of l) = Some s -> In (pn, p) (h_list (spH s)) ->
  removal T st (st_declareLost st l pn) (slot_of l) pn p.
Proof.
  intros B Hl Hs Hin. unfold st_declareLost. rewrite (get_space_slot st l Hl), Hs.
  destruct (h_declareLost_spec (spH s) pn p (sw_h _ _ _ (Base_sget _ _ _ _ B Hs)) Hin) as [h' [Eq R]].
  rewrite Eq. cbn [Z.eqb]. rewrite (set_space_slot _ l _ Hl). apply sset_removed; auto.
Qed.

Lemma st_remove_spec T st l s pn p :
  Base T st -> lvl_ok l = true -> sget st (slot_of l) = Some s -> In (pn, p) (h_list (spH s)) ->
  removal T st (st_remove st l pn) (slot_of l) pn p.
Proof.
  intros B Hl Hs Hin. unfold st_remove. rewrite (get_space_slot st l Hl), Hs.
  destruct (h_remove_spec (spH s) pn p (sw_h _ _ _ (Base_sget _ _ _ _ B Hs)) Hin) as [h' [Eq R]].
  rewrite Eq. cbn [Z.eqb]. rewrite (set_space_slot _ l _ Hl). apply sset_removed; auto.
Qed.

(* bookkeeping-only difference between two states *)
Definition same_sp (st1 st2 : state) : Prop :=
  sInit st2 = sInit st1 /\ sHs st2 = sHs st1 /\ sApp st2 = sApp st1 /\ sPanic st2 = sPanic st1 /\
  sClient st2 = sClient st1 /\ sPCAV st2 = sPCAV st1 /\ sPAV st2 = sPAV st1 /\ sConf st2 = sConf st1 /\
  sRecv st2 = sRecv st1 /\ sSent st2 = sSent st1.

Lemma same_sp_sget st1 st2 k : same_sp st1 st2 -> sget st2 k = sget st1 k.
Proof. intros [A [B [C _]]]. destruct k; cbn; congruence. Qed.
Lemma same_sp_pk st1 st2 k : same_sp st1 st2 -> pk st2 k = pk st1 k.
Proof. intros H. unfold pk. rewrite (same_sp_sget _ _ _ H). reflexivity. Qed.
Lemma same_sp_M f st1 st2 : same_sp st1 st2 -> M f st2 = M f st1.
Proof. intros H. unfold M. rewrite !(same_sp_pk _ _ _ H). reflexivity. Qed.
Lemma same_sp_MP f st1 st2 : same_sp st1 st2 -> MP f st2 = MP f st1.
Proof. intros [A [B [C _]]]. unfold MP. rewrite C. reflexivity. Qed.
Lemma same_sp_refl st : same_sp st st.
Proof. unfold same_sp. repeat split. Qed.
Lemma same_sp_trans a b c : same_sp a b -> same_sp b c -> same_sp a c.
Proof. unfold same_sp. intuition congruence. Qed.

(* [Pres] plus: every tracked packet other than (k, pn) stays tracked *)
Definition PresK (T : bool) (d : Z) (st st' : state) (k : slot) (pn : Z) : Prop :=
  Pres T d st st' /\ (forall k' x, In x (pk st k') -> (k' <> k \/ fst x <> pn) -> In x (pk st' k')).

Lemma removal_finish T st st1 st2 k pn p d :
  Base T st -> removal T st st1 k pn p -> same_sp st1 st2 ->
  sBif st2 = sBif st1 - f_incl p + d ->
  (forall id, cntcb id (sCbs st2) = f_id id p + cntcb id (sCbs st1)) ->
  PresK T d st st2 k pn.
Proof.
  intros B [R1 [R2 [R3 [R4 [R5 [R6 [R7 [R8 [R9 [R10 [R11 [R12 [R13 [R14 R15]]]]]]]]]]]]]] S Hb Hc.
  pose proof S as [S1 [S2 [S3 [S4 [S5 [S6 [S7 [S8 [S9 S10]]]]]]]]].
  destruct R12 as [Q1 [Q2 [Q3 [Q4 [Q5 Q6]]]]].
  split; [constructor|].
  - eapply Base_same; eauto.
  - unfold slack. rewrite (same_sp_M _ _ _ S), (R2 f_incl), Hb, R4. lia.
  - intros id. unfold E. rewrite (same_sp_M _ _ _ S), (same_sp_MP _ _ _ S), (R2 (f_id id)), (R3 (f_id id)), Hc, R5. lia.
  - intros k' x. rewrite (same_sp_pk _ _ _ S). apply R9.
  - intros k'. rewrite (same_sp_sget _ _ _ S). apply R11.
  - repeat split; congruence.
  - intros k' s s' H1 H2. rewrite (same_sp_sget _ _ _ S) in H2. destruct (R13 k' s s' H1 H2) as [? [? [? [? [? [? [? ?]]]]]]]. repeat split; auto.
  - intros k' x Hin Hc'. rewrite (same_sp_pk _ _ _ S). apply R10; auto.
Qed.

(* generic fold over a snapshot of one space's packet list *)
Lemma fold_items T (k : slot) (step : state -> Z * packet -> state) (P : state -> Prop) :
  (forall st x, Good T st -> P st -> In x (pk st k) ->
     PresK T 0 st (step st x) k (fst x) /\ P (step st x)) ->
  forall items st, NoDup (map fst items) -> Good T st -> P st -> (forall x, In x items -> In x (pk st k)) ->
  Pres T 0 st (fold_left step items st) /\ P (fold_left step items st).
Proof.
  intros Hstep items. induction items as [|x items IH]; intros st Hnd [B G] HP Hin; cbn [fold_left].
  - split; [apply Pres_refl; exact B|exact HP].
  - destruct (Hstep st x (conj B G) HP (Hin x (or_introl eq_refl))) as [[Pr Pk] HP'].
    inversion Hnd as [|? ? Hni Hnd']; subst.
    assert (G' : Good T (step st x)) by (split; [apply (p_base _ _ _ _ Pr)|rewrite (p_slack _ _ _ _ Pr); lia]).
    destruct (IH (step st x) Hnd' G' HP') as [Pr' HP''].
    + intros y Hy. apply Pk; [apply Hin; right; exact Hy|]. right. intros Eq. apply Hni. rewrite <- Eq. apply in_map. exact Hy.
    + split; [|exact HP'']. replace 0 with (0 + 0) by lia. eapply Pres_trans; eauto.
Qed.

Lemma Good_Pres T st st' : Good T st -> Pres T 0 st st' -> Good T st'.
Proof. intros [B G] Pr. split; [apply (p_base _ _ _ _ Pr)|rewrite (p_slack _ _ _ _ Pr); lia]. Qed.

Lemma pk_ok_of T st k x : Base T st -> In x (pk st k) -> pk_ok x.
Proof.
  intros B Hin. unfold pk in Hin. destruct (sget st k) as [s|] eqn:Es; [|destruct Hin].
  pose proof (sw_pk _ _ _ (Base_sget _ _ _ _ B Es)) as F. rewrite Forall_forall in F. auto.
Qed.

Lemma pk_sget st k x : In x (pk st k) -> exists s, sget st k = Some s /\ In x (h_list (spH s)).
Proof. unfold pk. destruct (sget st k) as [s|]; [eauto|intros []]. Qed.

(* a tracked in-flight packet never exceeds bytesInFlight when the slack is non-negative *)
Lemma incl_le_bif T st k x : Good T st -> In x (pk st k) -> f_incl (snd x) <= sBif st.
Proof. intros [B G] Hin. pose proof (M_f_incl_ge _ _ _ _ B Hin). unfold slack in G. lia. Qed.

(** ** the "declare lost" step shared by detectLostPackets, QueueProbePacket, MigratedPath *)
Definition lose (l : Z) (st : state) (x : Z * packet) : state :=
  let st := st_declareLost st l (fst x) in
  if negb (pProbe (snd x)) && ackEliciting (snd x) then queue_frames (rm_bif st (snd x)) (snd x) else st.

Lemma lose_spec T st l x :
  Good T st -> lvl_ok l = true -> In x (pk st (slot_of l)) ->
  PresK T 0 st (lose l st x) (slot_of l) (fst x) /\ same_sp (st_declareLost st l (fst x)) (lose l st x) /\
  sLost (lose l st x) = sLost st /\ sEvs (lose l st x) = sEvs st /\ sAlarm (lose l st x) = sAlarm st /\ sLAT (lose l st x) = sLAT st.
Proof.
  intros [B G] Hl Hin. destruct x as [pn p]. destruct (pk_sget _ _ _ Hin) as [s [Hs Hin']].
  pose proof (st_declareLost_spec T st l s pn p B Hl Hs Hin') as R.
  destruct (pk_ok_of _ _ _ _ B Hin) as [Hlen [Hincl Hpf]]. cbn [fst snd] in *.
  pose proof R as [R1 [R2 [R3 [R4 [R5 [R6 [R7 [R8 [R9 [R10 [R11 [R12 [R13 [R14 R15]]]]]]]]]]]]]].
  unfold lose. cbn [fst snd].
  destruct (negb (pProbe p) && ackEliciting p) eqn:Ec.
  - apply andb_prop in Ec as [Ep Ea]. apply negb_true_iff in Ep.
    assert (Hi : pIncl p = true) by (rewrite Hincl, Ea, Ep; reflexivity).
    pose proof (incl_le_bif T st _ _ (conj B G) Hin) as Hle. unfold f_incl in Hle. cbn [snd] in Hle. rewrite Hi in Hle.
    rewrite (rm_bif_true _ p Hi) by (rewrite R4; exact Hle). rewrite (queue_frames_ae _ p Ea).
    assert (S : same_sp (st_declareLost st l pn) (callbacks false (frames_of p) (st_bif (st_declareLost st l pn) (sBif (st_declareLost st l pn) - pLen p)))).
    { unfold same_sp. cbn. repeat split. }
    split; [|split; [exact S|cbn; auto]].
    eapply removal_finish; eauto.
    + cbn. unfold f_incl. rewrite Hi. lia.
    + intros id. rewrite cntcb_callbacks. cbn. reflexivity.
  - split; [|split; [apply same_sp_refl|auto]].
    eapply removal_finish; eauto using same_sp_refl.
    + unfold f_incl. rewrite Hincl. destruct (pProbe p), (ackEliciting p); cbn in *; try discriminate; lia.
    + intros id. unfold f_id. destruct (pProbe p) eqn:Ep.
      * rewrite (Hpf eq_refl). cbn. lia.
      * cbn in Ec. rewrite (frames_empty p Ec). cbn. lia.
Qed.

(* replacing only loss-time / largest-acked / largest-sent of a space *)
Lemma Pres_sset_meta T st k s lt la ls :
  Base T st -> sget st k = Some s ->
  let st' := sset st k (mkS (spH s) (spG s) lt (spLastAE s) la ls) in
  Pres T 0 st st' /\ (forall k', pk st' k' = pk st k').
Proof.
  intros B Hs st'.
  assert (W : swf T (is_app_slot k) (mkS (spH s) (spG s) lt (spLastAE s) la ls)).
  { destruct (Base_sget _ _ _ _ B Hs) as [W1 W2 W3 W4 W4a W4b W5 W6 W7]. constructor; auto. }
  assert (PK : forall k', pk st' k' = pk st k').
  { intros k'. unfold pk, st'. destruct (slot_eq_dec k k') as [<-|Hne].
    - rewrite sget_sset_same, Hs. reflexivity.
    - rewrite sget_sset_other by exact Hne. reflexivity. }
  destruct (sset_fields st k (mkS (spH s) (spG s) lt (spLastAE s) la ls)) as [F1 [F2 [F3 [F4 [F5 [F6 [F7 [F8 [F9 [F10 [F11 [F12 [F13 [F14 [F15 F16]]]]]]]]]]]]]]].
  fold st' in F1, F2, F3, F4, F5, F6, F7, F8, F9, F10, F11, F12, F13, F14, F15, F16.
  split; [|exact PK]. constructor.
  - eapply Base_sset; eauto.
  - unfold slack, M. rewrite !PK, F2. lia.
  - intros id. unfold E, M. rewrite !PK, F3. f_equal. f_equal. unfold st'. destruct k; try reflexivity. cbn in Hs. inversion Hs; subst. reflexivity.
  - intros k' x. rewrite PK. auto.
  - intros k'. unfold st'. destruct (slot_eq_dec k k') as [<-|Hne].
    + rewrite sget_sset_same, Hs. split; discriminate.
    + rewrite sget_sset_other by exact Hne. tauto.
  - repeat split; congruence.
  - intros k' s0 s0' H1 H2. unfold st' in H2. destruct (slot_eq_dec k k') as [<-|Hne].
    + rewrite sget_sset_same in H2. rewrite Hs in H1. inversion H1; inversion H2; subst. cbn. repeat split; lia.
    + rewrite sget_sset_other in H2 by exact Hne. rewrite H1 in H2. inversion H2; subst. repeat split; lia.
Qed.

Lemma PresK_of_pk T st st' k pn : Pres T 0 st st' -> (forall k', pk st' k' = pk st k') -> PresK T 0 st st' k pn.
Proof. intros P H. split; [exact P|]. intros k' x Hin _. rewrite H. exact Hin. Qed.

(* bookkeeping-only steps *)
Lemma Pres_bookkeeping T st st' :
  Base T st -> same_sp st st' -> sBif st' = sBif st -> sCbs st' = sCbs st -> Pres T 0 st st' /\ (forall k', pk st' k' = pk st k').
Proof.
  intros B S Hb Hc. pose proof S as [S1 [S2 [S3 [S4 [S5 [S6 [S7 [S8 [S9 S10]]]]]]]]].
  split; [apply Pres_same; auto|]. intros k'. apply same_sp_pk. exact S.
Qed.

Lemma PresK_trans T st1 st2 st3 k pn : PresK T 0 st1 st2 k pn -> PresK T 0 st2 st3 k pn -> PresK T 0 st1 st3 k pn.
Proof.
  intros [P1 K1] [P2 K2]. split; [replace 0 with (0 + 0) by lia; eapply Pres_trans; eauto|].
  intros k' x Hin Hc. apply K2; auto.
Qed.

(** ** detectLostPackets *)
Lemma lost_one_lose now ld l la prior sk st x :
  lost_one now ld l la prior sk st x =
  let '(pn, p) := x in
  if pn >? la then st
  else if negb (pTime p >? now - ld) || (negb (negb (pTime p >? now - ld)) && (h_difference sk la pn >=? sph_packetThreshold)) then
    let st1 := if is_app l then st_lost st (lt_add (sLost st) pn (pTime p)) else st in
    let st2 := lose l st1 x in
    if negb (pProbe p) && ackEliciting p && negb (pMTU p) then emit (ECong pn (pLen p) prior) st2 else st2
  else match get_space st l with
       | Some s => if spLossTime s =? 0
                   then set_space st l (mkS (spH s) (spG s) (pTime p + ld) (spLastAE s) (spLargestAcked s) (spLargestSent s))
                   else st
       | None => st
       end.
Proof.
  destruct x as [pn p]. unfold lost_one, lose. cbn [fst snd].
  destruct (pn >? la); [reflexivity|].
  destruct (negb (pTime p >? now - ld) || _); [|reflexivity].
  destruct (negb (pProbe p) && ackEliciting p); cbn [andb]; [|reflexivity].
  reflexivity.
Qed.

Lemma lost_one_spec T now ld l la prior sk st x :
  Good T st -> lvl_ok l = true -> In x (pk st (slot_of l)) ->
  PresK T 0 st (lost_one now ld l la prior sk st x) (slot_of l) (fst x).
Proof.
  intros G Hl Hin. rewrite lost_one_lose. destruct x as [pn p]. cbn [fst].
  destruct (pn >? la); [apply PresK_of_pk; [apply Pres_refl; apply G|auto]|].
  destruct (negb (pTime p >? now - ld) || _).
  - set (st1 := if is_app l then st_lost st (lt_add (sLost st) pn (pTime p)) else st).
    assert (S1 : same_sp st st1 /\ sBif st1 = sBif st /\ sCbs st1 = sCbs st).
    { unfold st1. destruct (is_app l); [cbn; unfold same_sp; repeat split|split; [apply same_sp_refl|auto]]. }
    destruct S1 as [S1 [Sb Sc]]. destruct (Pres_bookkeeping T st st1 (proj1 G) S1 Sb Sc) as [P1 K1].
    assert (G1 : Good T st1) by (eapply Good_Pres; eauto).
    assert (Hin1 : In (pn, p) (pk st1 (slot_of l))) by (rewrite K1; exact Hin).
    destruct (lose_spec T st1 l (pn, p) G1 Hl Hin1) as [PK2 [S2 _]].
    eapply PresK_trans; [apply PresK_of_pk; eauto|].
    destruct (negb (pProbe p) && ackEliciting p && negb (pMTU p)); [|exact PK2].
    eapply PresK_trans; [exact PK2|]. cbn [fst].
    assert (B2 : Base T (lose l st1 (pn, p))) by (apply (p_base _ _ _ _ (proj1 PK2))).
    destruct (Pres_bookkeeping T (lose l st1 (pn, p)) (emit (ECong pn (pLen p) prior) (lose l st1 (pn, p))) B2) as [P3 K3];
      [unfold same_sp; cbn; repeat split|reflexivity|reflexivity|].
    apply PresK_of_pk; auto.
  - rewrite (get_space_slot st l Hl). destruct (pk_sget _ _ _ Hin) as [s [Hs _]]. rewrite Hs.
    destruct (spLossTime s =? 0); [|apply PresK_of_pk; [apply Pres_refl; apply G|auto]].
    rewrite (set_space_slot _ l _ Hl).
    destruct (Pres_sset_meta T st (slot_of l) s (pTime p + ld) (spLargestAcked s) (spLargestSent s) (proj1 G) Hs) as [P K].
    apply PresK_of_pk; auto.
Qed.

Lemma detectLost_spec T st o now l :
  Good T st -> lvl_ok l = true -> sget st (slot_of l) <> None -> Pres T 0 st (detectLost st o now l).
Proof.
  intros G Hl Hlive. unfold detectLost. rewrite (get_space_slot st l Hl).
  destruct (sget st (slot_of l)) as [s|] eqn:Hs; [|congruence].
  rewrite (set_space_slot _ l _ Hl).
  destruct (Pres_sset_meta T st (slot_of l) s 0 (spLargestAcked s) (spLargestSent s) (proj1 G) Hs) as [P0 K0].
  set (st0 := sset st (slot_of l) (mkS (spH s) (spG s) 0 (spLastAE s) (spLargestAcked s) (spLargestSent s))) in *.
  assert (G0 : Good T st0) by (eapply Good_Pres; eauto).
  replace 0 with (0 + 0) by lia. eapply Pres_trans; [exact P0|].
  destruct (fold_items T (slot_of l)
              (lost_one now (o_lossDelay o) l (spLargestAcked s) (sBif st0) (spH s)) (fun _ => True)) with (items := h_list (spH s)) (st := st0) as [P1 _]; auto.
  - intros st1 x G1 _ Hin. split; [|exact I]. apply lost_one_spec; auto.
  - apply plist_nodup.
  - intros x Hx. rewrite K0. unfold pk. rewrite Hs. exact Hx.
Qed.

(** ** path probes *)
Definition prb (st : state) : list (Z * packet) := hProbes (spH (sApp st)).
Definition set_prb (st : state) (pr : list (Z * packet)) : state :=
  st_spaces st (sInit st) (sHs st) (sp_setH (sApp st) (h_set_probes (spH (sApp st)) pr)).

Lemma swf_set_probes T s pr : swf T true s -> (forall x, In x pr -> In x (hProbes (spH s))) -> NoDup (map fst pr) ->
  swf T true (sp_setH s (h_set_probes (spH s) pr)).
Proof.
  intros [W1 W2 W3 W4 W4a W4b W5 W6 W7] Hsub Hnd. constructor; cbn; auto.
  - apply h_set_probes_wf; auto.
  - rewrite Forall_forall in *. auto.
  - discriminate.
  - rewrite Forall_forall in *. auto.
Qed.

Lemma set_prb_pres T st st' pr :
  Base T st -> (forall x, In x pr -> In x (prb st)) -> NoDup (map fst pr) ->
  same_sp (set_prb st pr) st' -> sBif st' = sBif st ->
  (forall id, msum (f_id id) pr + cntcb id (sCbs st') = MP (f_id id) st + cntcb id (sCbs st)) ->
  Pres T 0 st st' /\ (forall k, pk st' k = pk st k) /\ prb st' = pr.
Proof.
  intros B Hsub Hnd S Hb He.
  pose proof S as [S1 [S2 [S3 [S4 [S5 [S6 [S7 [S8 [S9 S10]]]]]]]]].
  cbn in S1, S2, S3, S4, S5, S6, S7, S8, S9, S10.
  assert (PK : forall k, pk st' k = pk st k).
  { intros k. rewrite (same_sp_pk _ _ _ S). destruct k; reflexivity. }
  assert (PR : prb st' = pr) by (unfold prb; rewrite S3; reflexivity).
  assert (W : swf T true (sApp st')) by (rewrite S3; apply swf_set_probes; auto; apply (b_app _ _ B)).
  destruct B as [B1 B2 B3 B4 B5 B6].
  split; [|split; [exact PK|exact PR]]. constructor.
  - constructor; rewrite ?S1, ?S2, ?S4, ?S5, ?S6, ?S8; auto.
  - unfold slack, M. rewrite !PK, Hb. lia.
  - intros id. unfold E, M, MP. rewrite !PK. fold (prb st') (prb st). rewrite PR. specialize (He id). unfold MP in He. fold (prb st) in He. lia.
  - intros k x. rewrite PK. auto.
  - intros k. rewrite (same_sp_sget _ _ _ S). destruct k; cbn; try tauto. split; discriminate.
  - repeat split; congruence.
  - intros k s s' H1 H2. rewrite (same_sp_sget _ _ _ S) in H2. destruct k; cbn in H1, H2.
    + rewrite H1 in H2. inversion H2; subst. repeat split; lia.
    + rewrite H1 in H2. inversion H2; subst. repeat split; lia.
    + inversion H1; inversion H2; subst. cbn. repeat split; lia.
Qed.

Lemma probe_ok_of T st x : Base T st -> In x (prb st) -> probe_ok x.
Proof. intros B Hin. pose proof (sw_pr _ _ _ (b_app _ _ B)) as F. rewrite Forall_forall in F. auto. Qed.

Lemma probe_lost_one_spec T st x :
  Base T st -> In x (prb st) ->
  Pres T 0 st (probe_lost_one st x) /\ (forall k, pk (probe_lost_one st x) k = pk st k) /\
  (forall y, In y (prb (probe_lost_one st x)) <-> In y (prb st) /\ fst y <> fst x) /\
  same_sp (set_prb st (prb (probe_lost_one st x))) (probe_lost_one st x) /\ sBif (probe_lost_one st x) = sBif st /\
  sLost (probe_lost_one st x) = sLost st.
Proof.
  intros B Hin. destruct x as [pn p]. destruct (probe_ok_of _ _ _ B Hin) as [Hi [Hsf Hp]]. cbn [snd fst] in *.
  pose proof (sw_prnd _ _ _ (b_app _ _ B)) as Hnd.
  destruct (remove_probe_nodup _ pn p Hnd Hin) as [R1 [R2 [R3 R4]]].
  set (pr := fst (remove_probe (prb st) pn)).
  assert (Eq : probe_lost_one st (pn, p) = set_prb (callbacks false (pFrames p) st) pr) by reflexivity.
  assert (S : same_sp (set_prb st pr) (probe_lost_one st (pn, p))).
  { rewrite Eq. unfold same_sp. cbn. repeat split. }
  destruct (set_prb_pres T st (probe_lost_one st (pn, p)) pr B) as [P [PK PR]]; auto.
  - intros y Hy. apply R3 in Hy. tauto.
  - intros id. rewrite Eq. change (sCbs (set_prb (callbacks false (pFrames p) st) pr)) with (sCbs (callbacks false (pFrames p) st)).
    rewrite cntcb_callbacks. unfold MP. pose proof (R2 (f_id id)) as R2'. unfold prb in R2', pr. unfold prb. rewrite R2'.
    unfold f_id at 2, frames_of. rewrite Hsf, app_nil_r. subst pr. unfold prb. lia.
  - split; [exact P|split; [exact PK|split; [|split; [rewrite PR; exact S|split; reflexivity]]]].
    intros y. rewrite PR. apply R3.
Qed.

Lemma fold_probes T (step : state -> Z * packet -> state) :
  (forall st x, Good T st -> In x (prb st) ->
     Pres T 0 st (step st x) /\ (forall y, In y (prb st) -> fst y <> fst x -> In y (prb (step st x)))) ->
  forall items st, NoDup (map fst items) -> Good T st -> (forall x, In x items -> In x (prb st)) ->
  Pres T 0 st (fold_left step items st).
Proof.
  intros Hstep items. induction items as [|x items IH]; intros st Hnd G Hin; cbn [fold_left].
  - apply Pres_refl. apply G.
  - destruct (Hstep st x G (Hin x (or_introl eq_refl))) as [Pr Pk].
    inversion Hnd as [|? ? Hni Hnd']; subst.
    replace 0 with (0 + 0) by lia. eapply Pres_trans; [exact Pr|].
    apply IH; auto.
    + eapply Good_Pres; eauto.
    + intros y Hy. apply Pk; [apply Hin; right; exact Hy|]. intros Eq. apply Hni. rewrite <- Eq. apply in_map. exact Hy.
Qed.

Lemma detectLostPathProbes_spec T st now : Good T st -> Pres T 0 st (detectLostPathProbes st now).
Proof.
  intros G. unfold detectLostPathProbes. fold (prb st). destruct (isnil (prb st)); [apply Pres_refl; apply G|].
  apply fold_probes; auto.
  - intros st1 x G1 Hin. destruct (probe_lost_one_spec T st1 x (proj1 G1) Hin) as [P [_ [K _]]].
    split; [exact P|]. intros y Hy Hne. apply K. tauto.
  - apply NoDup_map_filter. apply (sw_prnd _ _ _ (b_app _ _ (proj1 G))).
  - intros x Hx. apply filter_In in Hx. tauto.
Qed.
