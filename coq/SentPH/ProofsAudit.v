(** Audit round: the exemption term of the exactly-once theorem split into "space discarded" and "path probes dropped by
    MigratedPath" (the latter is an OPEN finding: the strict clause is refuted), and Examples that delimit the
    timer theorem and exercise the Retry repair. *)
From Coq Require Import List ZArith Bool Lia.
From V Require Import Gen.Params SentPH.Model SentPH.ProofsHist SentPH.ProofsBase SentPH.ProofsOps SentPH.ProofsOps2
  SentPH.ProofsOps3 SentPH.ProofsMain SentPH.ProofsAckRules SentPH.ProofsTimer.
Import ListNotations.
Open Scope Z_scope.

Definition discarded_space (st : state) (oo : op * oracle) : list Z :=
  match fst oo with ODrop l _ => if executed st (fst oo) then drop_discarded st l else [] | _ => [] end.
Definition discarded_migrate (st : state) (oo : op * oracle) : list Z :=
  match fst oo with OMigrate _ => if executed st (fst oo) then migrate_discarded st else [] | _ => [] end.

(* the instrumented run with the two exemption classes kept apart *)
Fixpoint grun2 (st : state) (Ds Dm H : list Z) (ops : list (op * oracle)) : state * list Z * list Z * list Z :=
  match ops with
  | [] => (st, Ds, Dm, H)
  | oo :: r => grun2 (fst (step st oo)) (Ds ++ discarded_space st oo) (Dm ++ discarded_migrate st oo) (H ++ handed st oo) r
  end.

Lemma discarded_split id st oo : cnt id (discarded st oo) = cnt id (discarded_space st oo) + cnt id (discarded_migrate st oo).
Proof. unfold discarded, discarded_space, discarded_migrate. destruct oo as [[] ?]; cbn [fst]; rewrite ?cnt_nil; lia. Qed.

Lemma grun2_grun ops : forall st D Ds Dm H,
  (forall id, cnt id D = cnt id Ds + cnt id Dm) ->
  let '(st1, D1, H1) := grun st D H ops in
  let '(st2, Ds2, Dm2, H2) := grun2 st Ds Dm H ops in
  st1 = st2 /\ H1 = H2 /\ (forall id, cnt id D1 = cnt id Ds2 + cnt id Dm2).
Proof.
  induction ops as [|oo r IH]; intros st D Ds Dm H Hc; cbn [grun grun2]; [auto|].
  apply IH. intros id. rewrite !cnt_app, discarded_split, Hc. lia.
Qed.

Definition history2 (client validated : bool) (ipn period maxPeriod rnd0 : Z) (ops : list (op * oracle)) :=
  grun2 (init client validated ipn period maxPeriod rnd0) [] [] [] ops.

Theorem exactly_once_split client validated ipn period maxPeriod rnd0 ops :
  0 <= ipn ->
  let '(st, Ds, Dm, H) := history2 client validated ipn period maxPeriod rnd0 ops in
  forall id, cntcb id (sCbs st) + cnt id (tracked_ids st) + cnt id Ds + cnt id Dm = cnt id H.
Proof.
  intros Hi. unfold history2.
  pose proof (exactly_once client validated ipn period maxPeriod rnd0 ops Hi) as X. unfold history_from in X.
  pose proof (grun2_grun ops (init client validated ipn period maxPeriod rnd0) [] [] [] [] ltac:(intros; cbn; lia)) as Y.
  destruct (grun _ [] [] ops) as [[st1 D1] H1]. destruct (grun2 _ [] [] [] ops) as [[[st2 Ds] Dm] H2].
  destruct Y as [-> [-> Yc]]. intros id. specialize (X id). rewrite Yc in X. lia.
Qed.

(* no migration with path probes outstanding => the migrate class is empty *)
Lemma grun2_no_migrate ops : forall st Ds Dm H,
  Forall (fun oo => match fst oo with OMigrate _ => False | _ => True end) ops ->
  snd (fst (grun2 st Ds Dm H ops)) = Dm.
Proof.
  induction ops as [|oo r IH]; intros st Ds Dm H Hf; cbn [grun2]; [reflexivity|].
  inversion Hf as [|? ? H1 H2]; subst. rewrite IH by exact H2.
  unfold discarded_migrate. destruct oo as [[] ?]; cbn [fst] in *; try apply app_nil_r. destruct H1.
Qed.

(** The strict reading of clause (a) — "unless its packet number SPACE is discarded" — is false of the handler:
    a path probe outstanding at MigratedPath is removed without any callback. No key discard, no Retry in the history. *)
Definition mig_ops : list (op * oracle) :=
  [ (OSend 4 1000000000 (-1) [] [9] 1200 false true 0, w_orc); (OMigrate 1010000000, w_orc);
    (OTimeout 3000000000 0, w_orc) ].

Theorem exactly_once_space_only_refuted :
  let '(st, Ds, Dm, H) := history2 false true 0 256 131072 100 mig_ops in
  H = [9] /\ Ds = [] /\ Dm = [9] /\ sCbs st = [] /\ tracked_ids st = [] /\ sPanic st = 0.
Proof. vm_compute. repeat split; reflexivity. Qed.

(** Retry: the generator was about to skip packet number 3 when ResetForRetry re-created the application-data space;
    the repaired code records it, and an ACK covering it is rejected. *)
Definition retry_ops : list (op * oracle) :=
  [ (OSend 1 1000000000 (-1) [] [1] 1200 false false 0, w_orc);
    (OSend 3 1001000000 (-1) [10] [] 600 false false 0, w_orc);
    (OSend 3 1002000000 (-1) [11] [] 600 false false 0, w_orc);
    (OSend 3 1003000000 (-1) [12] [] 600 false false 0, w_orc);
    (ORetry 1008000000 7, w_orc);
    (OSend 1 1009000000 (-1) [] [2] 1200 false false 0, w_orc);
    (OSend 3 1010000000 (-1) [13] [] 600 false false 0, w_orc) ].

Example retry_gap_rejected :
  let st := run (init true false 0 1 1 0) retry_ops in
  hSkipped (spH (sApp st)) = [3] /\ map fst (h_list (spH (sApp st))) = [4] /\
  snd (step st (OAck 4 1033000000 0 [(3, 4)], w_orc)) = 2 /\ snd (step st (OAck 4 1033000000 0 [(4, 4)], w_orc)) = 0.
Proof. vm_compute. repeat split; reflexivity. Qed.

(** Delimiting the timer theorem. "Outstanding" is the handler's numOutstanding: path MTU probe packets do not count
    (as in the code): with only an MTU probe in flight after the handshake, no deadline is set. *)
Example timer_mtu_probe_only_unarmed :
  let st := run (init false true 0 256 131072 100)
                [ (ODrop 1 1000000000, w_orc); (ODrop 2 1000000000, w_orc); (OSend 4 1000000001 (-1) [] [1] 1400 true false 0, w_orc) ] in
  sBif st = 1400 /\ hNumOut (spH (sApp st)) = 0 /\ sConf st = true /\ aTime (sAlarm st) = 0.
Proof. vm_compute. repeat split; reflexivity. Qed.

(** The hypothesis "packets are sent at times > 0" of the timer theorems is necessary: 0 means "unset" in the code. *)
Example timer_needs_positive_send_times :
  let st := run (init true false 0 256 131072 100) [ (OSend 1 0 (-1) [] [1] 1200 false false 0, w_orc) ] in
  hasOutstandingCrypto st = true /\ isAmplificationLimited st = false /\ aTime (sAlarm st) = 0.
Proof. vm_compute. repeat split; reflexivity. Qed.

(** Non-vacuity of the crypto disjunct of the timer theorem. *)
Example timer_armed_crypto_nonvacuous :
  let ops := [ (OSend 1 1000000000 (-1) [] [1] 1200 false false 0, w_orc); (OSend 2 1001000000 (-1) [] [2] 800 false false 0, w_orc) ] in
  let st := run (init false true 0 256 131072 100) ops in
  send_times_positive ops /\ hasOutstandingCrypto st = true /\ sConf st = false /\ isAmplificationLimited st = false /\
  aTime (sAlarm st) = 1200000000.
Proof. cbn zeta. split; [repeat constructor|vm_compute; repeat split; reflexivity]. Qed.
