(** DropPackets and ResetForRetry. *)
From Coq Require Import List ZArith Bool Lia.
From V Require Import Gen.Params SentPH.Model SentPH.ProofsHist SentPH.ProofsBase SentPH.ProofsOps SentPH.ProofsOps2.
Import ListNotations.
Open Scope Z_scope.

Lemma fold_rm_bif items : forall st,
  (forall x, In x items -> 0 <= f_incl (snd x)) -> msum f_incl items <= sBif st ->
  let st' := fold_left (fun st x => rm_bif st (snd x)) items st in
  same_sp st st' /\ sCbs st' = sCbs st /\ sBif st' = sBif st - msum f_incl items.
Proof.
  induction items as [|x items IH]; intros st Hn Hle; cbn [fold_left].
  - split; [apply same_sp_refl|split; [reflexivity|rewrite msum_nil; lia]].
  - rewrite msum_cons in Hle.
    assert (H0 : 0 <= f_incl (snd x)) by (apply Hn; left; reflexivity).
    assert (Hr : 0 <= msum f_incl items) by (apply msum_nonneg; intros y Hy; apply Hn; right; exact Hy).
    assert (S1 : same_sp st (rm_bif st (snd x)) /\ sCbs (rm_bif st (snd x)) = sCbs st /\ sBif (rm_bif st (snd x)) = sBif st - f_incl (snd x)).
    { unfold f_incl in *. destruct (pIncl (snd x)) eqn:Ei.
      - rewrite rm_bif_true by (auto; lia). cbn. unfold same_sp. cbn. repeat split.
      - rewrite rm_bif_false by auto. split; [apply same_sp_refl|split; [reflexivity|lia]]. }
    destruct S1 as [S1 [C1 B1]].
    destruct (IH (rm_bif st (snd x))) as [S2 [C2 B2]].
    + intros y Hy. apply Hn. right. exact Hy.
    + lia.
    + split; [eapply same_sp_trans; eauto|split; [congruence|rewrite msum_cons; lia]].
Qed.

Lemma msum_pk_nonneg T st k : Base T st -> 0 <= msum f_incl (pk st k).
Proof. intros B. apply msum_nonneg. intros y Hy. eapply f_incl_nonneg_pk; eauto. Qed.

Lemma msum_pk_le_bif T st k : Good T st -> msum f_incl (pk st k) <= sBif st.
Proof.
  intros [B G]. unfold slack, M in G. pose proof (msum_pk_nonneg T st SI B). pose proof (msum_pk_nonneg T st SH B). pose proof (msum_pk_nonneg T st SA B).
  destruct k; lia.
Qed.

(* the client learns that the server validated its address (only ever set to true) *)
Lemma pcav_true_acct T st : Base T st -> Pres T 0 st (st_flags st true (sPAV st) (sConf st)) -> True.
Proof. auto. Qed.

Lemma Base_pcav T st : Base T st -> Base T (st_flags st true (sPAV st) (sConf st)).
Proof. intros [B1 B2 B3 B4 B5 B6]. constructor; cbn; auto. intros H. split; [apply B5; exact H|reflexivity]. Qed.

Lemma Acct_pcav T st : Base T st -> Acct T [] [] st (st_flags st true (sPAV st) (sConf st)).
Proof. intros B. constructor; [apply Base_pcav; exact B|reflexivity|reflexivity]. Qed.

Lemma Good_Acct T D H st st' : Good T st -> Acct T D H st st' -> Good T st'.
Proof. intros [B G] [A1 A2 A3]. split; [exact A1|lia]. Qed.

Definition is0rtt (x : Z * packet) : bool := pLvl (snd x) =? sph_Enc0RTT.
Fixpoint take0rtt (items : list (Z * packet)) : list (Z * packet) :=
  match items with [] => [] | x :: r => if is0rtt x then x :: take0rtt r else [] end.

Definition drop_discarded (st : state) (l : Z) : list Z :=
  if l =? sph_EncInitial then ids_of (pk st SI)
  else if l =? sph_EncHandshake then ids_of (pk st SH)
  else if l =? sph_Enc0RTT then ids_of (take0rtt (pk st SA)) else [].

Lemma drop0rtt_spec T items : forall st,
  Good T st -> NoDup (map fst items) -> (forall x, In x items -> In x (pk st SA)) ->
  Acct T (ids_of (take0rtt items)) [] st (drop0rtt items st).
Proof.
  induction items as [|[pn p] items IH]; intros st G Hnd Hin; cbn [drop0rtt take0rtt].
  - apply Acct_of_Pres. apply Pres_refl. apply G.
  - unfold is0rtt. cbn [snd]. destruct (pLvl p =? sph_Enc0RTT); cbn [negb]; [|apply Acct_of_Pres; apply Pres_refl; apply G].
    assert (Hx : In (pn, p) (pk st SA)) by (apply Hin; left; reflexivity).
    pose proof (incl_le_bif T st SA _ G Hx) as Hle. cbn [snd] in Hle.
    set (st1 := rm_bif st p).
    assert (S1 : same_sp st st1 /\ sCbs st1 = sCbs st /\ sBif st1 = sBif st - f_incl p).
    { unfold st1, f_incl in *. destruct (pIncl p) eqn:Ei.
      - rewrite rm_bif_true by auto. cbn. unfold same_sp. cbn. repeat split.
      - rewrite rm_bif_false by auto. split; [apply same_sp_refl|split; [reflexivity|lia]]. }
    destruct S1 as [S1 [C1 Bf1]].
    assert (B1 : Base T st1).
    { destruct S1 as [S1 [S2 [S3 [S4 [S5 [S6 [S7 [S8 [S9 S10]]]]]]]]]. eapply Base_same; [apply G|..]; auto. }
    assert (Hx1 : In (pn, p) (h_list (spH (sApp st1)))).
    { destruct S1 as [_ [_ [S3 _]]]. rewrite S3. exact Hx. }
    destruct (h_remove_spec (spH (sApp st1)) pn p (sw_h _ _ _ (b_app _ _ B1)) Hx1) as [h' [Eq R]].
    rewrite Eq. cbn [Z.eqb orb].
    pose proof (sset_removed T st1 SA (sApp st1) h' pn p B1 eq_refl R) as Rm.
    change (st_spaces st1 (sInit st1) (sHs st1) (sp_setH (sApp st1) h')) with (sset st1 SA (sp_setH (sApp st1) h')).
    set (st2 := sset st1 SA (sp_setH (sApp st1) h')) in *.
    destruct Rm as [R1 [R2 [R3 [R4 [R5 [R6 [R7 [R8 [R9 [R10 _]]]]]]]]]].
    assert (A1 : Acct T (frames_of p) [] st st2).
    { constructor; [exact R1| |].
      - unfold slack. rewrite (R2 f_incl), R4, (same_sp_M _ _ _ S1), Bf1. lia.
      - intros id. unfold E. rewrite (R2 (f_id id)), (R3 (f_id id)), R5, (same_sp_M _ _ _ S1), (same_sp_MP _ _ _ S1), C1.
        unfold f_id. rewrite cnt_nil. lia. }
    inversion Hnd as [|? ? Hni Hnd']; subst.
    cbn [ids_of flat_map snd]. fold (ids_of (take0rtt items)).
    replace (@nil Z) with (@nil Z ++ @nil Z) by reflexivity.
    eapply Acct_trans; [exact A1|]. apply IH; auto.
    + eapply Good_Acct; eauto.
    + intros y Hy. apply R10.
      * rewrite (same_sp_pk _ _ _ S1). apply Hin. right. exact Hy.
      * right. intros Eq'. apply Hni. cbn [fst] in Eq'. rewrite <- Eq'. apply in_map. exact Hy.
Qed.

(* dropping the Initial or the Handshake space once its packets left bytes_in_flight *)
Lemma drop_slot_acct T st st1 k s :
  Good T st -> k <> SA -> sget st k = Some s -> same_sp st st1 -> sCbs st1 = sCbs st ->
  sBif st1 = sBif st - msum f_incl (h_list (spH s)) -> (k = SH -> sPCAV st1 = true) ->
  let st2 := match k with
             | SI => st_spaces st1 None (sHs st1) (sApp st1)
             | _ => st_spaces (st_flags st1 (sPCAV st1) (sPAV st1) true) (sInit st1) None (sApp st1)
             end in
  Acct T (ids_of (h_list (spH s))) [] st st2.
Proof.
  intros [B G] Hk Hs S C Hb Hp st2.
  pose proof S as [S1 [S2 [S3 [S4 [S5 [S6 [S7 [S8 [S9 S10]]]]]]]]].
  pose proof (sw_noprobe _ _ _ (Base_sget _ _ _ _ B Hs)) as Hnp.
  destruct B as [B1 B2 B3 B4 B5 B6].
  destruct k; [| |congruence]; cbn in Hs.
  - constructor.
    + constructor; cbn; rewrite ?S1, ?S2, ?S3, ?S4, ?S5, ?S6, ?S8; auto.
    + unfold slack, M, pk, st2. cbn [sget sInit sHs sApp st_spaces st_flags sBif]. rewrite S2, S3, Hb, Hs. cbn [osp_list]. rewrite msum_nil. lia.
    + intros id. unfold E, M, MP, pk, st2. cbn [sget sInit sHs sApp st_spaces st_flags sCbs]. rewrite S2, S3, C, Hs. cbn [osp_list].
      rewrite (msum_f_id id (h_list (spH s))), cnt_nil, msum_nil. lia.
  - constructor.
    + constructor; cbn; rewrite ?S1, ?S2, ?S3, ?S4, ?S5, ?S6, ?S8; auto. intros _. split; [reflexivity|]. rewrite <- S6. apply Hp. reflexivity.
    + unfold slack, M, pk, st2. cbn [sget sInit sHs sApp st_spaces st_flags sBif]. rewrite S1, S3, Hb, Hs. cbn [osp_list]. rewrite msum_nil. lia.
    + intros id. unfold E, M, MP, pk, st2. cbn [sget sInit sHs sApp st_spaces st_flags sCbs]. rewrite S1, S3, C, Hs. cbn [osp_list].
      rewrite (msum_f_id id (h_list (spH s))), cnt_nil, msum_nil. lia.
Qed.

Lemma finish_pres T st o now : Base T st -> Pres T 0 st (setTimer (st_pto st 0 sph_SendNone 0) o now).
Proof.
  intros B. replace 0 with (0 + 0) at 1 by lia. eapply Pres_trans; [apply st_pto_pres; exact B|].
  apply setTimer_pres. apply (p_base _ _ _ _ (st_pto_pres T st 0 sph_SendNone 0 B)).
Qed.

Lemma dropPackets_spec T st o l now :
  Good T st -> (l = sph_EncInitial \/ l = sph_EncHandshake \/ l = sph_Enc0RTT) ->
  Acct T (drop_discarded st l) [] st (dropPackets st o l now).
Proof.
  intros G [-> | [-> | ->]]; unfold dropPackets, drop_discarded.
  - change (sph_EncInitial =? sph_EncHandshake) with false. rewrite andb_false_r.
    change (sph_EncInitial =? sph_EncInitial) with true. cbn [orb].
    change (get_space st sph_EncInitial) with (sInit st). unfold pk. cbn [sget].
    destruct (sInit st) as [s|] eqn:Hs; cbn [osp_list].
    + assert (Hs' : sget st SI = Some s) by exact Hs.
      destruct (fold_rm_bif (h_list (spH s)) st) as [S [C Hb]].
      { intros x Hx. eapply (f_incl_nonneg_pk st T SI); [apply G|]. unfold pk. rewrite Hs'. exact Hx. }
      { pose proof (msum_pk_le_bif T st SI G) as X. unfold pk in X. rewrite Hs' in X. exact X. }
      pose proof (drop_slot_acct T st _ SI s G ltac:(discriminate) Hs' S C Hb ltac:(discriminate)) as A. cbn zeta in A.
      eapply Acct_Pres_r; [exact A|]. apply finish_pres. apply (a_base _ _ _ _ _ A).
    + apply Acct_of_Pres. apply Pres_refl. apply G.
  - change (sph_EncHandshake =? sph_EncHandshake) with true. rewrite andb_true_r.
    change (sph_EncHandshake =? sph_EncInitial) with false. cbn [orb].
    set (st0 := if sClient st then st_flags st true (sPAV st) (sConf st) else st).
    assert (A0 : Acct T [] [] st st0).
    { unfold st0. destruct (sClient st); [apply Acct_pcav; apply G|apply Acct_of_Pres; apply Pres_refl; apply G]. }
    assert (G0 : Good T st0) by (eapply Good_Acct; eauto).
    assert (Hp0 : sPCAV st0 = true).
    { unfold st0. destruct (sClient st) eqn:Ec; [reflexivity|]. apply (b_server _ _ (proj1 G) Ec). }
    assert (Hh : sHs st0 = sHs st) by (unfold st0; destruct (sClient st); reflexivity).
    change (get_space st0 sph_EncHandshake) with (sHs st0). unfold pk. cbn [sget]. rewrite <- Hh.
    destruct (sHs st0) as [s|] eqn:Hs; cbn [osp_list].
    + assert (Hs' : sget st0 SH = Some s) by exact Hs.
      destruct (fold_rm_bif (h_list (spH s)) st0) as [S [C Hb]].
      { intros x Hx. eapply (f_incl_nonneg_pk st0 T SH); [apply G0|]. unfold pk. rewrite Hs'. exact Hx. }
      { pose proof (msum_pk_le_bif T st0 SH G0) as X. unfold pk in X. rewrite Hs' in X. exact X. }
      assert (Hp1 : SH = SH -> sPCAV (fold_left (fun st x => rm_bif st (snd x)) (h_list (spH s)) st0) = true).
      { intros _. destruct S as [_ [_ [_ [_ [_ [S6 _]]]]]]. rewrite S6. exact Hp0. }
      pose proof (drop_slot_acct T st0 _ SH s G0 ltac:(discriminate) Hs' S C Hb Hp1) as A. cbn zeta in A.
      replace (@nil Z) with (@nil Z ++ @nil Z) by reflexivity.
      replace (ids_of (h_list (spH s))) with ([] ++ ids_of (h_list (spH s))) by reflexivity.
      eapply Acct_trans; [exact A0|].
      eapply Acct_Pres_r; [exact A|]. apply finish_pres. apply (a_base _ _ _ _ _ A).
    + exact A0.
  - change (sph_Enc0RTT =? sph_EncHandshake) with false. rewrite andb_false_r.
    change (sph_Enc0RTT =? sph_EncInitial) with false. cbn [orb].
    change (sph_Enc0RTT =? sph_Enc0RTT) with true.
    pose proof (drop0rtt_spec T (h_list (spH (sApp st))) st G (plist_nodup _ _) (fun x H => H)) as A.
    eapply Acct_Pres_r; [exact A|]. apply finish_pres. apply (a_base _ _ _ _ _ A).
Qed.

(** ** ResetForRetry *)
Definition retry_q (st : state) (x : Z * packet) : state := if ackEliciting (snd x) then queue_frames st (snd x) else st.

Lemma fold_retry_q items : forall st,
  let st' := fold_left retry_q items st in
  same_sp st st' /\ sBif st' = sBif st /\ (forall id, cntcb id (sCbs st') = cnt id (ids_of items) + cntcb id (sCbs st)).
Proof.
  induction items as [|x items IH]; intros st; cbn [fold_left].
  - split; [apply same_sp_refl|split; [reflexivity|intros id; cbn; lia]].
  - destruct (IH (retry_q st x)) as [S [Hb Hc]].
    assert (S1 : same_sp st (retry_q st x) /\ sBif (retry_q st x) = sBif st /\
                 (forall id, cntcb id (sCbs (retry_q st x)) = cnt id (frames_of (snd x)) + cntcb id (sCbs st))).
    { unfold retry_q. destruct (ackEliciting (snd x)) eqn:Ea.
      - rewrite queue_frames_ae by exact Ea. split; [unfold same_sp; cbn; repeat split|split; [reflexivity|]].
        intros id. apply cntcb_callbacks.
      - split; [apply same_sp_refl|split; [reflexivity|]]. intros id. rewrite (frames_empty _ Ea). cbn. lia. }
    destruct S1 as [S1 [Hb1 Hc1]].
    split; [eapply same_sp_trans; eauto|split; [congruence|]].
    intros id. rewrite Hc, Hc1. cbn [ids_of flat_map]. rewrite cnt_app. fold (ids_of items). lia.
Qed.

Lemma swf_newSpace T app g : 0 <= gNext g -> swf T app (newSpace g).
Proof.
  intros Hg. constructor; cbn; auto; try (constructor; fail); try congruence; try lia.
  apply hwf_new.
Qed.

(* the application-data space ResetForRetry creates (repaired: a pending generator skip is recorded) *)
Definition retry_app_space (g : pngen) (rnd : Z) : space :=
  let '(skipped, pn, _) := g_pop g 0 in
  let na0 := newSpace (g_skipping pn sph_SkipPacketInitialPeriod sph_SkipPacketMaxPeriod rnd) in
  if skipped then sp_setH na0 (h_skipped newHist (pn - 1)) else na0.

Lemma retry_app_space_spec T g rnd : 0 <= gNext g ->
  let na := retry_app_space g rnd in
  swf T true na /\ h_list (spH na) = [] /\ hProbes (spH na) = [] /\ gNext g <= gNext (spG na) /\
  (forall p, In p (hSkipped (spH na)) -> gNext g <= p < gNext (spG na)) /\ hNumOut (spH na) = 0.
Proof.
  intros Hg. unfold retry_app_space, g_pop.
  destruct (gSkipping g && (gNext g =? gNextToSkip g)).
  - replace (gNext g + 1 - 1) with (gNext g) by lia.
    assert (Hs : seq_bad newHist (gNext g) = false) by reflexivity.
    destruct (h_skipped_spec newHist (gNext g) hwf_new Hs ltac:(lia)) as [K1 [K2 [K3 [K4 K5]]]].
    assert (W : swf T true (sp_setH (newSpace (g_skipping (gNext g + 1) sph_SkipPacketInitialPeriod sph_SkipPacketMaxPeriod rnd)) (h_skipped newHist (gNext g)))).
    { constructor; cbn [spH sp_setH spG newSpace spLastAE g_skipping g_newSkip gNext].
      - exact K1.
      - rewrite K2. constructor.
      - rewrite K3. constructor.
      - discriminate.
      - rewrite K3. constructor.
      - rewrite K3. constructor.
      - lia.
      - rewrite K4. intros _. lia.
      - rewrite K5. cbn. lia. }
    split; [exact W|]. cbn [spH sp_setH spG newSpace g_skipping g_newSkip gNext].
    split; [rewrite K2; reflexivity|split; [rewrite K3; reflexivity|split; [lia|split; [|rewrite K5; reflexivity]]]].
    intros p Hp. cbn in Hp. destruct Hp as [<-|[]]. lia.
  - cbn [spH sp_setH spG newSpace g_skipping g_newSkip gNext hSkipped newHist].
    split; [apply swf_newSpace; cbn; lia|]. repeat split; auto; try lia; cbn in *; try contradiction.
Qed.

Definition retry_folds (st : state) (si : space) : state :=
  let st2 := fold_left retry_q (h_list (spH si)) (st_bif st 0) in
  fold_left retry_q (h_list (spH (sApp st2))) st2.

Definition retry_result (st : state) (si : space) (rnd : Z) : state :=
  let st3 := retry_folds st si in
  let st4 := st_spaces st3 (Some (newSpace (g_sequential (g_peek (spG si))))) (sHs st3) (retry_app_space (spG (sApp st3)) rnd) in
  st_pto (st_alarm st4 noAlarm) 0 (sPtoM st4) (sProbes st4).

Lemma resetForRetry_eq st rnd si : sInit st = Some si -> resetForRetry st rnd = retry_result st si rnd.
Proof.
  intros H. unfold resetForRetry, retry_result, retry_folds, retry_app_space. rewrite H. fold retry_q.
  destruct (g_pop _ 0) as [[sk pn] g']. reflexivity.
Qed.

Lemma resetForRetry_spec T st rnd :
  Base T st -> slack st = 0 -> sInit st <> None -> prb st = [] -> osp_list (sHs st) = [] ->
  Acct T [] [] st (resetForRetry st rnd).
Proof.
  intros B Hsl Hi Hpr Hhs. destruct (sInit st) as [si|] eqn:Esi; [|congruence].
  rewrite (resetForRetry_eq st rnd si Esi). unfold retry_result, retry_folds.
  set (st1 := st_bif st 0).
  destruct (fold_retry_q (h_list (spH si)) st1) as [S2 [Hb2 Hc2]].
  set (st2 := fold_left retry_q (h_list (spH si)) st1) in *.
  destruct (fold_retry_q (h_list (spH (sApp st2))) st2) as [S3 [Hb3 Hc3]].
  set (st3 := fold_left retry_q (h_list (spH (sApp st2))) st2) in *.
  assert (S13 : same_sp st st3).
  { eapply same_sp_trans; [|exact S3]. eapply same_sp_trans; [|exact S2]. unfold same_sp, st1. cbn. repeat split. }
  pose proof S13 as [S1' [S2' [S3' [S4' [S5' [S6' [S7' [S8' [S9' S10']]]]]]]]].
  assert (Happ2 : sApp st2 = sApp st) by (destruct S2 as [_ [_ [X _]]]; rewrite X; reflexivity).
  pose proof (b_init _ _ B) as Wi. rewrite Esi in Wi. cbn in Wi.
  pose proof (b_app _ _ B) as Wa.
  assert (Gi : 0 <= g_peek (spG si)).
  { pose proof (sw_gnext _ _ _ Wi). unfold g_peek. destruct (gSkipping (spG si) && (gNext (spG si) =? gNextToSkip (spG si))); lia. }
  destruct (retry_app_space_spec T (spG (sApp st3)) rnd) as [Wn [Ln [Pn _]]].
  { rewrite S3'. apply (sw_gnext _ _ _ Wa). }
  set (na := retry_app_space (spG (sApp st3)) rnd) in *. cbn zeta.
  destruct B as [B1 B2 B3 B4 B5 B6].
  constructor.
  - constructor; cbn [sPanic sInit sHs sApp sConf sPCAV sClient st_pto st_alarm st_spaces oswf]; rewrite ?S2', ?S4', ?S5', ?S6', ?S8'; auto.
    apply swf_newSpace. exact Gi.
  - rewrite Hsl. unfold slack, M, pk. cbn [sget sInit sHs sApp st_pto st_alarm st_spaces sBif osp_list newSpace spH newHist h_list hPackets hFirst plist].
    rewrite Ln. rewrite S2', Hhs, !msum_nil. rewrite Hb3, Hb2. unfold st1. cbn [sBif st_bif]. lia.
  - intros id. rewrite !cnt_nil. unfold E, M, MP, pk. cbn [sget sInit sHs sApp st_pto st_alarm st_spaces sCbs osp_list newSpace spH newHist h_list hPackets hFirst plist hProbes].
    rewrite Ln, Pn. rewrite S2', Hhs, !msum_nil. rewrite Hc3, Hc2, Happ2. unfold st1. cbn [sCbs st_bif]. rewrite Esi. cbn [osp_list].
    fold (prb st). rewrite Hpr, msum_nil, !msum_f_id. lia.
Qed.
