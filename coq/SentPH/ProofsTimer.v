(** C06 (d): the loss-detection deadline is set whenever crypto data, or (after handshake confirmation)
    application data, is outstanding and sending is not amplification-limited. *)
From Coq Require Import List ZArith Bool Lia.
From V Require Import Gen.Params SentPH.Model SentPH.ProofsHist SentPH.ProofsBase SentPH.ProofsOps SentPH.ProofsOps2
  SentPH.ProofsOps3 SentPH.ProofsAck SentPH.ProofsSend SentPH.ProofsTimeout SentPH.ProofsMain.
Import ListNotations.
Open Scope Z_scope.

Definition data_outstanding (st : state) : bool :=
  hasOutstandingCrypto st || (sConf st && h_hasOut (spH (sApp st))).
Definition must_arm (st : state) : bool := data_outstanding st && negb (isAmplificationLimited st).
Definition Armed (st : state) : Prop := must_arm st = true -> aTime (sAlarm st) <> 0.

Lemma scaled_pos st o b : 0 < getScaledPTO st o b.
Proof.
  unfold getScaledPTO. set (s := if sPtoC st >=? 64 then 0 else wrap64 (o_pto o b * 2 ^ sPtoC st)).
  change sph_maxPTODuration with 60000000000.
  destruct (Z.gtb_spec s 60000000000); cbn [orb]; [lia|]. destruct (Z.leb_spec s 0); lia.
Qed.

Lemma pick_pos (acc : Z * Z) t lv : 0 <= fst acc -> 0 < t ->
  0 < fst (let '(pto, lv0) := acc in if (pto =? 0) || (negb (t =? 0) && (t <? pto)) then (t, lv) else (pto, lv0)).
Proof.
  destruct acc as [pto lv0]. cbn [fst]. intros H0 Ht.
  destruct (Z.eqb_spec pto 0); cbn [orb]; [cbn; lia|]. destruct (negb (t =? 0) && (t <? pto)); cbn; lia.
Qed.

Lemma out_time s app : swf true app s -> h_hasOut (spH s) = true -> 0 < spLastAE s /\ negb (spLastAE s =? 0) = true.
Proof.
  intros W H. unfold h_hasOut in H. apply Z.gtb_lt in H. pose proof (sw_time _ _ _ W eq_refl H) as X.
  split; [exact X|]. destruct (Z.eqb_spec (spLastAE s) 0); [lia|reflexivity].
Qed.

Lemma pto_pos st o now : Base true st -> data_outstanding st = true -> 0 < fst (getPTOTimeAndSpace st o now).
Proof.
  intros B Hd. unfold getPTOTimeAndSpace.
  assert (Hc : negb (sConf st) && negb (hasOutstandingCrypto st) = false).
  { unfold data_outstanding in Hd. destruct (hasOutstandingCrypto st); [apply andb_false_r|]. cbn in Hd.
    apply andb_prop in Hd as [Hd _]. rewrite Hd. reflexivity. }
  rewrite Hc.
  pose proof (scaled_pos st o false) as Sf. pose proof (scaled_pos st o true) as St.
  set (r1 := match sInit st with
             | Some s => if h_hasOut (spH s) && negb (spLastAE s =? 0) then (spLastAE s + getScaledPTO st o false, sph_EncInitial) else (0, 0)
             | None => (0, 0) end).
  assert (C1 : 0 <= fst r1 /\ (osp_hasOut (sInit st) = true -> 0 < fst r1)).
  { unfold r1. pose proof (b_init _ _ B) as W. destruct (sInit st) as [s|]; cbn [osp_hasOut oswf] in *; [|cbn; split; [lia|discriminate]].
    destruct (h_hasOut (spH s)) eqn:Eo.
    - destruct (out_time s _ W Eo) as [X1 X2]. rewrite X2. cbn. lia.
    - cbn. split; [lia|discriminate]. }
  destruct r1 as [pto1 lv1]. cbn [fst] in C1.
  set (r2 := match sHs st with
             | Some s => if h_hasOut (spH s) && negb (spLastAE s =? 0)
                         then let t := spLastAE s + getScaledPTO st o false in
                              if (pto1 =? 0) || (negb (t =? 0) && (t <? pto1)) then (t, sph_EncHandshake) else (pto1, lv1)
                         else (pto1, lv1)
             | None => (pto1, lv1) end).
  assert (C2 : 0 <= fst r2 /\ (hasOutstandingCrypto st = true -> 0 < fst r2)).
  { unfold r2, hasOutstandingCrypto. pose proof (b_hs _ _ B) as W. destruct (sHs st) as [s|]; cbn [osp_hasOut oswf] in *.
    - destruct (h_hasOut (spH s)) eqn:Eo.
      + destruct (out_time s _ W Eo) as [X1 X2]. rewrite X2. cbn [andb].
        pose proof (pick_pos (pto1, lv1) (spLastAE s + getScaledPTO st o false) sph_EncHandshake ltac:(cbn; lia) ltac:(lia)) as X. cbn zeta in X.
        split; [lia|intros _; exact X].
      + cbn [andb fst]. rewrite orb_false_r. exact C1.
    - cbn [fst]. rewrite orb_false_r. exact C1. }
  destruct r2 as [pto2 lv2]. cbn [fst] in C2.
  destruct (sConf st && h_hasOut (spH (sApp st))) eqn:Ea.
  - apply andb_prop in Ea as [_ Eo]. destruct (out_time (sApp st) _ (b_app _ _ B) Eo) as [X1 X2]. rewrite X2. cbn [andb].
    apply (pick_pos (pto2, lv2) (spLastAE (sApp st) + getScaledPTO st o true) sph_Enc1RTT); cbn; lia.
  - cbn [andb fst]. apply C2. unfold data_outstanding in Hd. rewrite Ea, orb_false_r in Hd. exact Hd.
Qed.

(* recomputing the timer on a state where data is outstanding arms it *)
Lemma armed_set st o now : Base true st -> must_arm st = true -> aTime (lossDetectionTime st o now) <> 0.
Proof.
  intros B Hm. unfold must_arm in Hm. apply andb_prop in Hm as [Hd Ha]. apply negb_true_iff in Ha.
  unfold lossDetectionTime.
  assert (H1 : sPCAV st && negb (hasOutstandingCrypto st) && negb (h_hasOut (spH (sApp st))) && negb (h_hasProbes (spH (sApp st))) = false).
  { unfold data_outstanding in Hd. destruct (hasOutstandingCrypto st); [rewrite andb_false_r; reflexivity|]. cbn in Hd.
    apply andb_prop in Hd as [_ Hd]. rewrite Hd. cbn. rewrite andb_false_r. reflexivity. }
  rewrite H1, Ha.
  set (probeT := match hProbes (spH (sApp st)) with (_, p) :: _ => pTime p + sph_pathProbeLossTimeout | [] => 0 end).
  destruct (getLossTimeAndSpace st) as [lt lv].
  destruct (Z.eqb_spec lt 0) as [E0|E0]; cbn [negb andb].
  2:{ destruct ((probeT =? 0) || (lt <? probeT)); [cbn; exact E0|]. pose proof (pto_pos st o now B Hd) as Pp.
      destruct (getPTOTimeAndSpace st o now) as [pt lv']. cbn [fst] in Pp.
      destruct (Z.eqb_spec pt 0); [lia|]. cbn [negb andb].
      destruct ((probeT =? 0) || (pt <? probeT)) eqn:Eq; [cbn; lia|].
      apply orb_false_iff in Eq as [Eq _]. rewrite Eq. cbn. apply Z.eqb_neq. exact Eq. }
  pose proof (pto_pos st o now B Hd) as Pp.
  destruct (getPTOTimeAndSpace st o now) as [pt lv']. cbn [fst] in Pp.
  destruct (Z.eqb_spec pt 0); [lia|]. cbn [negb andb].
  destruct ((probeT =? 0) || (pt <? probeT)) eqn:Eq; [cbn; lia|].
  apply orb_false_iff in Eq as [Eq _]. rewrite Eq. cbn. apply Z.eqb_neq. exact Eq.
Qed.

Lemma must_arm_alarm st a : must_arm (st_alarm st a) = must_arm st. Proof. reflexivity. Qed.

Lemma Armed_setTimer st o now : Base true st -> Armed (setTimer st o now).
Proof. intros B Hm. unfold setTimer in *. rewrite must_arm_alarm in Hm. cbn [sAlarm st_alarm]. apply armed_set; auto. Qed.
