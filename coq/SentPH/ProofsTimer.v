(** C06 (d): the loss-detection deadline is set whenever crypto data, or (after handshake confirmation)
    application data, is outstanding and sending is not amplification-limited. *)
From Coq Require Import List ZArith Bool Lia.
From V Require Import Gen.Params SentPH.Model SentPH.ProofsHist SentPH.ProofsBase SentPH.ProofsOps SentPH.ProofsOps2
  SentPH.ProofsOps3 SentPH.ProofsAck SentPH.ProofsSend SentPH.ProofsTimeout SentPH.ProofsMain SentPH.ProofsAckRules.
Import ListNotations.
Open Scope Z_scope.

Definition data_outstanding (st : state) : bool :=
  hasOutstandingCrypto st || (sConf st && h_hasOut (spH (sApp st))).
Definition must_arm (st : state) : bool := data_outstanding st && negb (isAmplificationLimited st).
Definition Armed (st : state) : Prop := must_arm st = true -> aTime (sAlarm st) <> 0.

Lemma scaled_pos st o b : 0 < getScaledPTO st o b.
Proof.
  unfold getScaledPTO. set (s := if sPtoC st >=? 64 then 0 else wrap64 (o_pto o b * 2 ^ sPtoC st)).
  change sph_maxPTODuration with 60000000000.
  destruct (Z.gtb_spec s 60000000000); cbn [orb]; [lia|]. destruct (Z.leb_spec s 0); lia.
Qed.

Lemma pick_pos (acc : Z * Z) t lv : 0 <= fst acc -> 0 < t ->
  0 < fst (let '(pto, lv0) := acc in if (pto =? 0) || (negb (t =? 0) && (t <? pto)) then (t, lv) else (pto, lv0)).
Proof.
  destruct acc as [pto lv0]. cbn [fst]. intros H0 Ht.
  destruct (Z.eqb_spec pto 0); cbn [orb]; [cbn; lia|]. destruct (negb (t =? 0) && (t <? pto)); cbn; lia.
Qed.

Lemma out_time s app : swf true app s -> h_hasOut (spH s) = true -> 0 < spLastAE s /\ negb (spLastAE s =? 0) = true.
Proof.
  intros W H. unfold h_hasOut in H. apply Z.gtb_lt in H. pose proof (sw_time _ _ _ W eq_refl H) as X.
  split; [exact X|]. destruct (Z.eqb_spec (spLastAE s) 0); [lia|reflexivity].
Qed.

Lemma pto_pos st o now : Base true st -> data_outstanding st = true -> 0 < fst (getPTOTimeAndSpace st o now).
Proof.
  intros B Hd. unfold getPTOTimeAndSpace.
  assert (Hc : negb (sConf st) && negb (hasOutstandingCrypto st) = false).
  { unfold data_outstanding in Hd. destruct (hasOutstandingCrypto st); [apply andb_false_r|]. cbn in Hd.
    apply andb_prop in Hd as [Hd _]. rewrite Hd. reflexivity. }
  rewrite Hc.
  pose proof (scaled_pos st o false) as Sf. pose proof (scaled_pos st o true) as St.
  set (r1 := match sInit st with
             | Some s => if h_hasOut (spH s) && negb (spLastAE s =? 0) then (spLastAE s + getScaledPTO st o false, sph_EncInitial) else (0, 0)
             | None => (0, 0) end).
  assert (C1 : 0 <= fst r1 /\ (osp_hasOut (sInit st) = true -> 0 < fst r1)).
  { unfold r1. pose proof (b_init _ _ B) as W. destruct (sInit st) as [s|]; cbn [osp_hasOut oswf] in *; [|cbn; split; [lia|discriminate]].
    destruct (h_hasOut (spH s)) eqn:Eo.
    - destruct (out_time s _ W Eo) as [X1 X2]. rewrite X2. cbn. lia.
    - cbn. split; [lia|discriminate]. }
  destruct r1 as [pto1 lv1]. cbn [fst] in C1.
  set (r2 := match sHs st with
             | Some s => if h_hasOut (spH s) && negb (spLastAE s =? 0)
                         then let t := spLastAE s + getScaledPTO st o false in
                              if (pto1 =? 0) || (negb (t =? 0) && (t <? pto1)) then (t, sph_EncHandshake) else (pto1, lv1)
                         else (pto1, lv1)
             | None => (pto1, lv1) end).
  assert (C2 : 0 <= fst r2 /\ (hasOutstandingCrypto st = true -> 0 < fst r2)).
  { unfold r2, hasOutstandingCrypto. pose proof (b_hs _ _ B) as W. destruct (sHs st) as [s|]; cbn [osp_hasOut oswf] in *.
    - destruct (h_hasOut (spH s)) eqn:Eo.
      + destruct (out_time s _ W Eo) as [X1 X2]. rewrite X2. cbn [andb].
        pose proof (pick_pos (pto1, lv1) (spLastAE s + getScaledPTO st o false) sph_EncHandshake ltac:(cbn; lia) ltac:(lia)) as X. cbn zeta in X.
        split; [lia|intros _; exact X].
      + cbn [andb fst]. rewrite orb_false_r. exact C1.
    - cbn [fst]. rewrite orb_false_r. exact C1. }
  destruct r2 as [pto2 lv2]. cbn [fst] in C2.
  destruct (sConf st && h_hasOut (spH (sApp st))) eqn:Ea.
  - apply andb_prop in Ea as [_ Eo]. destruct (out_time (sApp st) _ (b_app _ _ B) Eo) as [X1 X2]. rewrite X2. cbn [andb].
    apply (pick_pos (pto2, lv2) (spLastAE (sApp st) + getScaledPTO st o true) sph_Enc1RTT); cbn; lia.
  - cbn [andb fst]. apply C2. unfold data_outstanding in Hd. rewrite Ea, orb_false_r in Hd. exact Hd.
Qed.

(* recomputing the timer on a state where data is outstanding arms it *)
Lemma armed_set st o now : Base true st -> must_arm st = true -> aTime (lossDetectionTime st o now) <> 0.
Proof.
  intros B Hm. unfold must_arm in Hm. apply andb_prop in Hm as [Hd Ha]. apply negb_true_iff in Ha.
  unfold lossDetectionTime.
  assert (H1 : sPCAV st && negb (hasOutstandingCrypto st) && negb (h_hasOut (spH (sApp st))) && negb (h_hasProbes (spH (sApp st))) = false).
  { unfold data_outstanding in Hd. destruct (hasOutstandingCrypto st); [rewrite andb_false_r; reflexivity|]. cbn in Hd.
    apply andb_prop in Hd as [_ Hd]. rewrite Hd. cbn. rewrite andb_false_r. reflexivity. }
  rewrite H1, Ha.
  set (probeT := match hProbes (spH (sApp st)) with (_, p) :: _ => pTime p + sph_pathProbeLossTimeout | [] => 0 end).
  destruct (getLossTimeAndSpace st) as [lt lv].
  destruct (Z.eqb_spec lt 0) as [E0|E0]; cbn [negb andb].
  2:{ destruct ((probeT =? 0) || (lt <? probeT)); [cbn; exact E0|]. pose proof (pto_pos st o now B Hd) as Pp.
      destruct (getPTOTimeAndSpace st o now) as [pt lv']. cbn [fst] in Pp.
      destruct (Z.eqb_spec pt 0); [lia|]. cbn [negb andb].
      destruct ((probeT =? 0) || (pt <? probeT)) eqn:Eq; [cbn; lia|].
      apply orb_false_iff in Eq as [Eq _]. rewrite Eq. cbn. apply Z.eqb_neq. exact Eq. }
  pose proof (pto_pos st o now B Hd) as Pp.
  destruct (getPTOTimeAndSpace st o now) as [pt lv']. cbn [fst] in Pp.
  destruct (Z.eqb_spec pt 0); [lia|]. cbn [negb andb].
  destruct ((probeT =? 0) || (pt <? probeT)) eqn:Eq; [cbn; lia|].
  apply orb_false_iff in Eq as [Eq _]. rewrite Eq. cbn. apply Z.eqb_neq. exact Eq.
Qed.

Lemma must_arm_alarm st a : must_arm (st_alarm st a) = must_arm st. Proof. reflexivity. Qed.

Lemma Armed_setTimer st o now : Base true st -> Armed (setTimer st o now).
Proof. intros B Hm. unfold setTimer in *. rewrite must_arm_alarm in Hm. cbn [sAlarm st_alarm]. apply armed_set; auto. Qed.

(** ** the deadline stays armed along every history *)
Lemma Base_unalarm T st a : Base T (st_alarm st a) -> Base T st.
Proof. intros [B1 B2 B3 B4 B5 B6]. constructor; auto. Qed.

Definition outk (st : state) (k : slot) : Z := match sget st k with Some s => hNumOut (spH s) | None => 0 end.

Lemma hasOut_outk st :
  hasOutstandingCrypto st = (outk st SI >? 0) || (outk st SH >? 0) /\ h_hasOut (spH (sApp st)) = (outk st SA >? 0).
Proof. unfold hasOutstandingCrypto, outk, osp_hasOut, h_hasOut. cbn [sget]. destruct (sInit st), (sHs st); auto. Qed.

Lemma must_arm_mono st st' :
  (forall k, outk st' k <= outk st k) -> sConf st' = sConf st -> sPAV st' = sPAV st -> sRecv st' = sRecv st ->
  sSent st <= sSent st' -> must_arm st' = true -> must_arm st = true.
Proof.
  intros Ho Hc Hp Hr Hs Hm. unfold must_arm, data_outstanding in *.
  destruct (hasOut_outk st) as [C1 A1], (hasOut_outk st') as [C2 A2]. rewrite C1, A1. rewrite C2, A2, Hc in Hm.
  apply andb_prop in Hm as [Hd Ha]. apply andb_true_intro. split.
  - pose proof (Ho SI). pose proof (Ho SH). pose proof (Ho SA).
    apply orb_prop in Hd as [Hd|Hd].
    + apply orb_prop in Hd as [Hd|Hd]; apply Z.gtb_lt in Hd.
      * replace (outk st SI >? 0) with true by (symmetry; apply Z.gtb_lt; lia). reflexivity.
      * replace (outk st SH >? 0) with true by (symmetry; apply Z.gtb_lt; lia). rewrite orb_true_r. reflexivity.
    + apply andb_prop in Hd as [Hd1 Hd2]. apply Z.gtb_lt in Hd2. rewrite Hd1.
      replace (outk st SA >? 0) with true by (symmetry; apply Z.gtb_lt; lia). apply orb_true_r.
  - unfold isAmplificationLimited in *. rewrite Hp, Hr in Ha. destruct (sPAV st); [reflexivity|].
    apply negb_true_iff in Ha. apply negb_true_iff. destruct (Z.geb_spec (sSent st') (sph_amplificationFactor * sRecv st)); [discriminate|].
    destruct (Z.geb_spec (sSent st) (sph_amplificationFactor * sRecv st)); [lia|reflexivity].
Qed.

Lemma Armed_mono st st' :
  sAlarm st' = sAlarm st -> (must_arm st' = true -> must_arm st = true) -> Armed st -> Armed st'.
Proof. intros Ha Hm A H. rewrite Ha. apply A. apply Hm. exact H. Qed.

Lemma Armed_pto st c m n : Armed st -> Armed (st_pto st c m n).
Proof. intros A. apply (Armed_mono st); auto. Qed.

(* the result of SentPacket is either a freshly computed timer or (non-ack-eliciting packet, peer address
   validation complete) a state in which nothing more became outstanding *)
Lemma send_armed st o l t la sfs fs size mtu probe rnd s :
  Base true st -> lvl_ok l = true -> sget st (slot_of l) = Some s -> 0 <= size ->
  Base true (sentPacket (fst (popPN st l rnd)) o t (snd (popPN st l rnd)) la sfs fs l size mtu probe) ->
  Armed st ->
  Armed (sentPacket (fst (popPN st l rnd)) o t (snd (popPN st l rnd)) la sfs fs l size mtu probe).
Proof.
  intros B Hl Hs Hsz BR A.
  destruct (popPN_eq true st l rnd s B Hl Hs) as [s1 [pn [Eq [[P1 P2 P3 P4 P5 P6 P7 P8 P9] _]]]].
  rewrite Eq in *. cbn [fst snd] in *. revert BR. unfold sentPacket.
  rewrite (get_space_slot _ l Hl), sget_bytes, sget_sset_same.
  set (p := mkP t fs sfs la size l mtu false probe).
  destruct probe.
  - intros BR. apply Armed_setTimer. apply Base_unalarm in BR. exact BR.
  - destruct (ackEliciting p) eqn:Ea; cbn [negb].
    + intros BR. apply Armed_setTimer. apply Base_unalarm in BR. exact BR.
    + cbn [spH]. rewrite P6. rewrite (set_space_slot _ _ _ Hl).
      match goal with |- Base true (if negb (sPCAV ?X) then _ else _) -> _ => set (st2 := X) end.
      destruct (negb (sPCAV st2)).
      * intros BR. apply Armed_setTimer. apply Base_unalarm in BR. exact BR.
      * intros _. apply (Armed_mono st); [unfold st2; destruct (slot_of l); reflexivity| |exact A].
        apply must_arm_mono.
        -- intros k. unfold outk, st2.
           assert (Hn : hNumOut (h_sent (spH s1) pn p) = hNumOut (spH s)).
           { unfold h_sent, h_seq. cbn [hNumOut]. unfold outstanding. rewrite Ea, andb_false_r. exact P4. }
           destruct (slot_of l) eqn:Ek, k; cbn [sget sset st_spaces emit st_bytes sInit sHs sApp spH sp_setH] in *;
             rewrite ?Hs, ?Hn; try lia; try (destruct (sInit st); lia); try (destruct (sHs st); lia).
           all: inversion Hs; subst; lia.
        -- unfold st2. destruct (slot_of l); reflexivity.
        -- unfold st2. destruct (slot_of l); reflexivity.
        -- unfold st2. destruct (slot_of l); reflexivity.
        -- unfold st2. destruct (slot_of l); cbn; lia.
Qed.

Lemma outk_same_sp st st' : same_sp st st' -> forall k, outk st' k = outk st k.
Proof. intros S k. unfold outk. rewrite (same_sp_sget _ _ _ S). reflexivity. Qed.

Lemma receivedAck_armed st o rs l now :
  Good true st -> lvl_ok l = true -> sget st (slot_of l) <> None -> rs <> [] ->
  Base true (fst (fst (receivedAck st o rs l now))) ->
  Armed st -> Armed (fst (fst (receivedAck st o rs l now))).
Proof.
  intros [B G] Hl Hlive Hne. unfold receivedAck. rewrite (get_space_slot st l Hl).
  destruct (sget st (slot_of l)) as [s0|] eqn:Hs0; [|congruence].
  destruct ((ack_largest rs >? spLargestSent s0) || ((l =? sph_EncInitial) && (ack_lowest rs <? sIPN st))); [cbn; auto|].
  set (st_a := if sClient st && negb (sPCAV st) && ((l =? sph_EncHandshake) || (l =? sph_Enc1RTT))
               then setTimer (st_flags st true (sPAV st) (sConf st)) o now else st).
  intros BR A.
  assert (Aa : Armed st_a).
  { unfold st_a. destruct (sClient st && negb (sPCAV st) && _); [|exact A]. apply Armed_setTimer. apply Base_pcav. exact B. }
  assert (Ba : Base true st_a).
  { unfold st_a. destruct (sClient st && negb (sPCAV st) && _); [|exact B].
    apply (p_base _ _ _ _ (setTimer_pres true _ o now (Base_pcav _ _ B))). }
  assert (Hsa : exists sa, sget st_a (slot_of l) = Some sa).
  { unfold st_a. destruct (sClient st && negb (sPCAV st) && _); [|eauto]. exists s0. destruct (slot_of l); exact Hs0. }
  destruct Hsa as [sa Hsa].
  revert BR. unfold detectAndRemoveAcked. rewrite (get_space_slot st_a l Hl), Hsa.
  destruct ((l =? sph_Enc1RTT) && existsb (acks_pn rs) (hSkipped (spH sa))); [cbn; auto|].
  pose proof (Base_sget _ _ _ _ Ba Hsa) as W.
  assert (Hpp : forall x, In x (hProbes (spH sa)) -> pProbe (snd x) = true).
  { intros x Hx. pose proof (sw_pr _ _ _ W) as F. rewrite Forall_forall in F. destruct (F x Hx) as [_ [_ H]]. exact H. }
  destruct (collect_spec (1 <? zlen rs) (ack_lowest rs) (ack_largest rs) (h_list (spH sa)) (rev rs) (hProbes (spH sa)) [] false)
    as [probes' [new [hasAE' [Eq _]]]]; auto.
  { intros _. split.
    - destruct rs; [congruence|]. cbn [rev]. intros E'. apply app_eq_nil in E' as [_ E']. discriminate.
    - rewrite last_rev_hd. reflexivity. }
  { apply (sw_prnd _ _ _ W). }
  rewrite Eq. cbn [app]. rewrite (set_space_slot _ l _ Hl).
  destruct new as [|y0 new0].
  - cbn [fold_left Z.eqb negb orb isnil fst]. intros _.
    apply (Armed_mono st_a); [destruct (slot_of l); reflexivity| |exact Aa].
    apply must_arm_mono; try (destruct (slot_of l); reflexivity); try (destruct (slot_of l); cbn; lia).
    intros k. unfold outk. destruct (slot_of l) eqn:Ek, k; cbn [sget sset st_spaces sInit sHs sApp] in *; rewrite ?Hsa; cbn; try lia;
      try (destruct (sInit st_a); lia); try (destruct (sHs st_a); lia).
    inversion Hsa; subst; lia.
  - cbn [Z.eqb negb orb isnil].
    destruct (last (y0 :: new0) (0, placeholder)) as [lpn lp].
    match goal with |- Base true (fst (fst (match get_space ?X l with _ => _ end))) -> _ => set (st_c := X) end.
    destruct (get_space st_c l) as [sc|]; [|cbn; intros BP; exfalso; destruct BP as [BP _]; cbn in BP;
       destruct (sPanic st_c =? 0) eqn:Ez in BP; [discriminate|]; apply Z.eqb_neq in Ez; revert Ez BP; clear; intros; congruence].
    match goal with |- Base true (fst (fst (let '(st, a1) := ?F in _))) -> _ => destruct F as [st_g a1] end.
    cbn [fst]. intros BR. apply Armed_setTimer. apply Base_unalarm in BR. exact BR.
Qed.

Lemma dropPackets_armed st o l now :
  Base true (dropPackets st o l now) -> (l = sph_EncInitial \/ l = sph_EncHandshake \/ l = sph_Enc0RTT) ->
  Armed st -> Armed (dropPackets st o l now).
Proof.
  intros BR Hl A. revert BR. unfold dropPackets.
  set (st0 := if sClient st && (l =? sph_EncHandshake) then st_flags st true (sPAV st) (sConf st) else st).
  assert (A0 : Armed st0).
  { unfold st0. destruct (sClient st && (l =? sph_EncHandshake)); [|exact A]. apply (Armed_mono st); auto. }
  assert (Fin : forall X, Base true (setTimer (st_pto X 0 sph_SendNone 0) o now) -> Armed (setTimer (st_pto X 0 sph_SendNone 0) o now)).
  { intros X BX. apply Armed_setTimer. apply Base_unalarm in BX. exact BX. }
  destruct ((l =? sph_EncInitial) || (l =? sph_EncHandshake)) eqn:E1.
  - destruct (get_space st0 l) as [s|]; [|intros _; exact A0].
    destruct (l =? sph_EncInitial); apply Fin.
  - destruct (Z.eqb_spec l sph_Enc0RTT) as [E2|E2]; [apply Fin|].
    exfalso. destruct Hl as [-> | [-> | ->]]; try discriminate. congruence.
Qed.

Lemma resetForRetry_armed st rnd :
  Base true st -> sInit st <> None -> (exists sh, sHs st = Some sh /\ hPackets (spH sh) = []) -> Armed (resetForRetry st rnd).
Proof.
  intros B Hi [sh [Eh Ep]] Hm. exfalso. revert Hm. destruct (sInit st) as [si|] eqn:Ei; [|congruence].
  rewrite (resetForRetry_eq st rnd si Ei). unfold retry_result, retry_folds.
  destruct (fold_retry_q (h_list (spH si)) (st_bif st 0)) as [S2 _].
  set (st2 := fold_left retry_q (h_list (spH si)) (st_bif st 0)) in *.
  destruct (fold_retry_q (h_list (spH (sApp st2))) st2) as [S3 _].
  set (st3 := fold_left retry_q (h_list (spH (sApp st2))) st2) in *.
  assert (Hh3 : sHs st3 = Some sh).
  { destruct S3 as [_ [X3 _]]. destruct S2 as [_ [X2 _]]. rewrite X3, X2. exact Eh. }
  assert (Ha3 : sApp st3 = sApp st).
  { destruct S3 as [_ [_ [X3 _]]]. destruct S2 as [_ [_ [X2 _]]]. rewrite X3, X2. reflexivity. }
  destruct (retry_app_space_spec true (spG (sApp st3)) rnd) as [_ [_ [_ [_ [_ Hn]]]]].
  { rewrite Ha3. apply (sw_gnext _ _ _ (b_app _ _ B)). }
  unfold must_arm, data_outstanding, hasOutstandingCrypto.
  cbn [sInit sHs sApp sConf st_pto st_alarm st_spaces osp_hasOut newSpace spH newHist h_hasOut hNumOut].
  rewrite Hh3. cbn [osp_hasOut]. unfold h_hasOut. rewrite Hn.
  pose proof (b_hs _ _ B) as W. rewrite Eh in W. cbn in W. pose proof (wf_out _ (sw_h _ _ _ W)) as Ho.
  unfold h_list in Ho. rewrite Ep in Ho. cbn in Ho. rewrite Ho. cbn. rewrite andb_false_r. discriminate.
Qed.

Lemma receivedBytes_armed st o n t : Base true st -> 0 <= n -> Armed st -> Armed (receivedBytes st o n t).
Proof.
  intros B Hn A. unfold receivedBytes.
  destruct (isAmplificationLimited st) eqn:Ew; cbn [andb].
  - destruct (negb (isAmplificationLimited (st_bytes st (sRecv st + n) (sSent st)))) eqn:En.
    + apply Armed_setTimer. destruct B as [B1 B2 B3 B4 B5 B6]. constructor; auto.
    + intros Hm. unfold must_arm in Hm. rewrite En, andb_false_r in Hm. discriminate.
  - apply (Armed_mono st); [reflexivity| |exact A]. intros Hm. unfold must_arm in *. rewrite Ew. cbn [negb]. rewrite andb_true_r.
    apply andb_prop in Hm as [Hm _]. exact Hm.
Qed.

Lemma receivedPacket_armed st o l t : Base true st -> Armed st -> Armed (receivedPacket st o l t).
Proof.
  intros B A. unfold receivedPacket. destruct (negb (sClient st) && (l =? sph_EncHandshake) && negb (sPAV st)); [|exact A].
  apply Armed_setTimer. destruct B as [B1 B2 B3 B4 B5 B6]. constructor; auto.
Qed.

Lemma queueProbe_armed st l :
  Good true st -> lvl_ok l = true -> sget st (slot_of l) <> None -> Armed st -> Armed (fst (queueProbePacket st l)).
Proof.
  intros G Hl Hlive A. destruct (queueProbePacket_spec true st l G Hl Hlive) as [P Ha].
  apply (Armed_mono st); [exact Ha| |exact A].
  destruct P as [P1 P2 P3 P4 P5 P6 P7]. destruct P6 as [Q1 [Q2 [Q3 [Q4 [Q5 Q6]]]]].
  apply must_arm_mono; auto; try lia.
  intros k. unfold outk. destruct (sget (fst (queueProbePacket st l)) k) as [s'|] eqn:E1; destruct (sget st k) as [s|] eqn:E2.
  - destruct (P7 k s s' E2 E1) as [X _]. exact X.
  - apply P5 in E2. congruence.
  - pose proof (wf_out _ (sw_h _ _ _ (Base_sget _ _ _ _ (proj1 G) E2))) as Ho. rewrite Ho. apply msum_nonneg.
    intros x _. unfold cnt_out_f. destruct (outstanding (snd x)); lia.
  - lia.
Qed.

(* every op keeps the deadline armed *)
Lemma step_armed st oo : Inv true st -> op_timed true oo -> Armed st -> Armed (fst (step st oo)).
Proof.
  intros I Ht A. pose proof (step_inv true st oo I Ht) as [BR _]. pose proof (Inv_Good _ _ I) as G. destruct I as [B S].
  destruct oo as [o orc]. revert BR. unfold step.
  rewrite (b_panic _ _ B). cbn [Z.eqb negb orb].
  destruct (op_valid st o) eqn:Ev; cbn [negb]; [|intros _; exact A].
  destruct o as [l t la sfs fs size mtu probe rnd|l now delay rs|now rnd|l now|now rnd|now|n now|l now|l|now cs hb]; cbn [op_valid] in Ev.
  - apply andb_prop in Ev as [Ev Hnil]. apply andb_prop in Ev as [Ev Hpr]. apply andb_prop in Ev as [Ev Hsz]. apply andb_prop in Ev as [Hlive Hl].
    destruct (space_live_sget st l Hl Hlive) as [s Hs].
    pose proof (send_armed st orc l t la sfs fs size mtu probe rnd s B Hl Hs ltac:(lia)) as X.
    destruct (popPN st l rnd) as [st1 pn]. cbn [fst snd] in *. intros BR. apply X; auto.
  - apply andb_prop in Ev as [Ev Hav]. apply andb_prop in Ev as [Ev _]. apply andb_prop in Ev as [Hlive Hl].
    destruct (space_live_sget st l Hl Hlive) as [s Hs].
    pose proof (receivedAck_armed st orc rs l now G Hl ltac:(congruence) (ack_valid_ne _ Hav)) as X.
    destruct (receivedAck st orc rs l now) as [[st' a1] err]. cbn [fst] in *. intros BR. apply X; auto.
  - unfold onTimeout.
    match goal with |- Base true (fst (let '(lt, lv) := ?F in _)) -> _ => destruct F as [lt lv] end.
    match goal with |- Base true (fst (let '(st, err) := ?F in _)) -> _ => destruct F as [stx err] end.
    cbn [fst]. intros BR. apply Armed_setTimer. apply Base_unalarm in BR. exact BR.
  - cbn [fst]. intros BR. apply dropPackets_armed; auto.
    destruct (Z.eqb_spec l sph_EncInitial); [auto|]. destruct (Z.eqb_spec l sph_EncHandshake); [auto|].
    destruct (Z.eqb_spec l sph_Enc0RTT); [auto|discriminate].
  - cbn [fst]. intros _. apply andb_prop in Ev as [Ev Hh]. apply andb_prop in Ev as [Ev Hp]. apply andb_prop in Ev as [_ Hi].
    apply resetForRetry_armed; auto.
    + destruct (sInit st); [discriminate|discriminate].
    + destruct (sHs st) as [sh|]; [|discriminate]. exists sh. split; [reflexivity|]. apply andb_prop in Hh as [_ Hh].
      destruct (hPackets (spH sh)); [reflexivity|discriminate].
  - cbn [fst]. unfold migratedPath. intros BR. apply Armed_setTimer. apply Base_unalarm in BR. exact BR.
  - cbn [fst]. intros _. apply receivedBytes_armed; auto. apply Z.leb_le. exact Ev.
  - cbn [fst]. intros _. apply receivedPacket_armed; auto.
  - apply andb_prop in Ev as [Hlive Hl]. destruct (space_live_sget st l Hl Hlive) as [s Hs].
    pose proof (queueProbe_armed st l G Hl ltac:(congruence) A) as X.
    destruct (queueProbePacket st l) as [st' b]. cbn [fst] in *. intros _. exact X.
  - cbn [fst]. intros _. exact A.
Qed.

Lemma run_armed ops : forall st, Inv true st -> Armed st -> Forall (op_timed true) ops -> Armed (run st ops) /\ Inv true (run st ops).
Proof.
  induction ops as [|oo r IH]; intros st I A Ht; cbn [run fold_left]; [auto|].
  inversion Ht as [|? ? Ht1 Ht2]; subst. apply IH; auto.
  - apply step_inv; auto.
  - apply step_armed; auto.
Qed.

Definition send_times_positive (ops : list (op * oracle)) : Prop :=
  Forall (fun oo => match fst oo with OSend _ t _ _ _ _ _ _ _ => 0 < t | _ => True end) ops.

Theorem timer_armed client validated ipn period maxPeriod rnd0 ops :
  0 <= ipn -> send_times_positive ops ->
  let st := run (init client validated ipn period maxPeriod rnd0) ops in
  (hasOutstandingCrypto st || (sConf st && h_hasOut (spH (sApp st)))) = true ->
  isAmplificationLimited st = false ->
  aTime (sAlarm st) <> 0.
Proof.
  intros Hi Ht st Hd Ha.
  destruct (run_armed ops (init client validated ipn period maxPeriod rnd0) (Inv_init true _ _ _ _ _ _ Hi)) as [A _].
  - intros Hm. exfalso. revert Hm. unfold must_arm, data_outstanding, hasOutstandingCrypto. cbn. discriminate.
  - unfold send_times_positive in Ht. rewrite Forall_forall in *. intros oo Hin _. apply (Ht oo Hin).
  - apply A. unfold must_arm, data_outstanding. fold st. rewrite Hd, Ha. reflexivity.
Qed.

(** non-vacuity: in the witness history the hypotheses of [timer_armed] hold, and frames 1 and 2 end up
    resolved exactly once (1 lost, 2 acknowledged) *)
Example timer_armed_nonvacuous :
  send_times_positive w_ops /\
  (let st := run w_init w_ops in
   (hasOutstandingCrypto st || (sConf st && h_hasOut (spH (sApp st)))) = true /\ isAmplificationLimited st = false /\
   aTime (sAlarm st) = 507400000000).
Proof. split; [repeat constructor|vm_compute; auto]. Qed.

Example exactly_once_nonvacuous :
  let '(st, D, H) := grun w_init [] [] (w_ops ++ [(OAck 4 501001000000 0 [(6, 6)], (1125000, 3000000, 28000000))]) in
  H = [1; 2] /\ D = [] /\ tracked_ids st = [] /\ sCbs st = [(1, false); (2, true)] /\ sBif st = 0.
Proof. vm_compute. repeat split; reflexivity. Qed.
