(** USpec proofs, round 3: clause (b) end to end over any number of successive dials of one
    QUICSpec value.  The dial itself (newUClientConnection after the repair 7326e31: per-dial
    copy by dialClientHelloSpec, then suppress, optional shuffle, PopulateFromUQUIC, uTLS
    marshals the connection's own list) is C02's model [UDial.Model.dial] / [run]; nothing is
    duplicated here.  This file is a proof-level composition of pieces that are tied to the
    code elsewhere (USpec.Model by unit uspec, UDial.Model by unit udial) plus the unit
    uspecdial, which reads the wire of successive real dials together with the recorded draws. *)
From Coq Require Import List ZArith Bool Lia Permutation.
From V Require Import Gen.Params Lib.Hex Wire.Varint Wire.VarintProofs
  USpec.Model USpec.Proofs USpec.ProofsShuffle USpec.ProofsWire UDial.Model UDial.Proofs.
Import ListNotations.
Open Scope Z_scope.

(** what a dial writes into the one parameter it may change *)
Definition fill (scid : list Z) (p : param) : param :=
  if pid p =? tpid_initialSourceConnectionID then P (pid p) scid true else p.

(** the list a reader of extension 57 finds: a function of the spec's list, the caller's
    current suppression list and randomize flag, THIS dial's draws and THIS dial's source
    connection ID -- of nothing else *)
Definition wire_list (sup : list Z) (rnd : bool) (js : list nat) (scid : list Z) (ps : list param)
  : list (Z * list Z) :=
  map idval (map (fill scid) (dial_list sup rnd js ps)).

(** dial_wire : spec -> draws -> scid -> bytes (the body of extension 57 of one dial) *)
Definition dial_wire_bytes (st : spec_state) (js : list nat) (scid : list Z) : option (list Z) :=
  match USpec.Model.dial (sSup st) (sRnd st) js scid (sParams st) with
  | Some (_, own, _) => Some (marshal own)
  | None => None
  end.

Lemma dial_wire_bytes_dial st scid o st' w :
  UDial.Model.dial st scid o = Some (st', w) -> dial_wire_bytes st (oJs o) scid = Some (wExt w).
Proof.
  unfold UDial.Model.dial, dial_wire_bytes.
  destruct (USpec.Model.dial _ _ _ _ _) as [[[v own] ov]|]; [|discriminate].
  destruct (gen_keys _ _). intros H. inversion H. reflexivity.
Qed.

Lemma Forall2_fills_map scid l own : Forall2 (fills scid) l own -> own = map (fill scid) l.
Proof.
  induction 1 as [|p p' l own Hf _ IH]; [reflexivity|]. cbn. rewrite <- IH. f_equal.
  unfold fills in Hf. unfold fill. destruct (pid p =? tpid_initialSourceConnectionID); exact Hf.
Qed.

(** one dial *)
Theorem dial_wire_list st scid o st' w :
  wf_spec st -> zlen scid <= maxVarInt8 -> UDial.Model.dial st scid o = Some (st', w) ->
  st' = st /\
  parse (wExt w) = Some (wire_list (sSup st) (sRnd st) (oJs o) scid (sParams st)) /\
  (if sRnd st
   then Permutation (suppress (sSup st) (sParams st)) (dial_list (sSup st) (sRnd st) (oJs o) (sParams st))
   else dial_list (sSup st) (sRnd st) (oJs o) (sParams st) = suppress (sSup st) (sParams st)).
Proof.
  intros [Hw Hl] Hs H. split; [eapply dial_unchanged; exact H|].
  unfold UDial.Model.dial in H.
  destruct (USpec.Model.dial (sSup st) (sRnd st) (oJs o) scid (sParams st)) as [[[v own] ov]|] eqn:E; [|discriminate].
  destruct (gen_keys (sKeys st) (oFresh o)) as [keys held]. injection H as _ Hwv. subst w. cbn [wExt].
  unfold USpec.Model.dial, populate in E.
  destruct (populate_loop (init_view scid) (dial_list (sSup st) (sRnd st) (oJs o) (sParams st))) as [[v1 l1]|] eqn:E1; [|discriminate].
  inversion E; subst; clear E.
  destruct (populate_loop_scid _ _ _ _ E1 (leaves_dial_list _ _ _ _ Hl)) as [_ Hf]. cbn in Hf.
  destruct (populate_loop_inv _ _ _ _ E1 (dial_list_wf _ _ _ _ Hw) Hs) as [_ [Hwo _]].
  split.
  - rewrite (parse_marshal _ Hwo). unfold wire_list. rewrite (Forall2_fills_map _ _ _ Hf). reflexivity.
  - unfold dial_list. destruct (sRnd st); [apply shuffle_perm | reflexivity].
Qed.

(** C11_dial_k_wire: any history of dials and edits of one spec value; the k-th dial *)
Theorem dial_k_wire st ops1 scid o ops2 st' views :
  wf_spec st -> zlen scid <= maxVarInt8 ->
  run st (ops1 ++ ODial scid o :: ops2) = Some (st', views) ->
  let cur := edits st ops1 in
  exists w,
    nth_error views (count_dials ops1) = Some (scid, w) /\
    parse (wExt w) = Some (wire_list (sSup cur) (sRnd cur) (oJs o) scid (sParams st)) /\
    dial_wire_bytes cur (oJs o) scid = Some (wExt w) /\
    (if sRnd cur
     then Permutation (suppress (sSup cur) (sParams st)) (dial_list (sSup cur) (sRnd cur) (oJs o) (sParams st))
     else dial_list (sSup cur) (sRnd cur) (oJs o) (sParams st) = suppress (sSup cur) (sParams st)).
Proof.
  intros Hw Hs H cur. destruct (run_split _ _ _ _ _ _ _ H) as [w [Hd [Hn _]]].
  destruct (dial_wire_list _ _ _ _ _ (edits_wf _ ops1 Hw) Hs Hd) as [_ [Hp Hperm]].
  rewrite (edits_params st ops1) in Hp, Hperm.
  exists w. split; [exact Hn|]. split; [exact Hp|]. split; [|exact Hperm].
  eapply dial_wire_bytes_dial. exact Hd.
Qed.

(** same ids, same values (the source connection ID aside), whatever the order *)
Lemma fill_pid scid p : pid (fill scid p) = pid p.
Proof. unfold fill. destruct (pid p =? tpid_initialSourceConnectionID); reflexivity. Qed.

Lemma fill_other scid p : pid p <> tpid_initialSourceConnectionID -> fill scid p = p.
Proof. intros H. unfold fill. apply Z.eqb_neq in H. rewrite H. reflexivity. Qed.

Theorem wire_list_content sup rnd js scid ps :
  Permutation (wire_list sup rnd js scid ps) (map idval (map (fill scid) (suppress sup ps))) /\
  (rnd = false -> wire_list sup rnd js scid ps = map idval (map (fill scid) (suppress sup ps))) /\
  map fst (wire_list sup rnd js scid ps) = map pid (dial_list sup rnd js ps).
Proof.
  unfold wire_list. split; [|split].
  - apply Permutation_map, Permutation_map. unfold dial_list. destruct rnd; [|apply Permutation_refl].
    apply Permutation_sym, shuffle_perm.
  - intros ->. reflexivity.
  - rewrite !map_map. apply map_ext. intros p. cbn. apply fill_pid.
Qed.

(** freshness: the order of dial k is a function of its own draw vector only.  Two histories
    over the same spec list -- different earlier dials, different draws and connection IDs in
    them, different later operations -- agree on the wire of a dial as soon as the caller's
    settings at that point, that dial's draws and its source connection ID agree. *)
Theorem dial_k_independent st opsA scid oA opsA' stA viewsA opsB oB opsB' stB viewsB :
  wf_spec st -> zlen scid <= maxVarInt8 ->
  run st (opsA ++ ODial scid oA :: opsA') = Some (stA, viewsA) ->
  run st (opsB ++ ODial scid oB :: opsB') = Some (stB, viewsB) ->
  sSup (edits st opsA) = sSup (edits st opsB) -> sRnd (edits st opsA) = sRnd (edits st opsB) ->
  oJs oA = oJs oB ->
  exists wA wB,
    nth_error viewsA (count_dials opsA) = Some (scid, wA) /\
    nth_error viewsB (count_dials opsB) = Some (scid, wB) /\
    wExt wA = wExt wB.
Proof.
  intros Hw Hs HA HB Hsup Hrnd Hjs.
  destruct (dial_k_wire _ _ _ _ _ _ _ Hw Hs HA) as [wA [HnA [_ [HbA _]]]].
  destruct (dial_k_wire _ _ _ _ _ _ _ Hw Hs HB) as [wB [HnB [_ [HbB _]]]].
  exists wA, wB. split; [exact HnA|]. split; [exact HnB|].
  unfold dial_wire_bytes in HbA, HbB. rewrite !edits_params in *.
  rewrite Hsup, Hrnd, Hjs in HbA. rewrite HbA in HbB. congruence.
Qed.

(** and every order of the kept list is available to a randomised dial: for any target
    permutation there are admissible draws that produce it (a statement about [wire_list], which
    C11_dial_k_wire / C11_hdial_k_wire identify with the wire of the k-th dial of any history) *)
Theorem wire_list_any_order sup scid ps target :
  Permutation (suppress sup ps) target ->
  exists js, admissible (length target - 1) js /\
             wire_list sup true js scid ps = map idval (map (fill scid) target).
Proof.
  intros Hp.
  destruct (shuffle_surjective _ _ Hp) as [js [Ha Hs]].
  exists js. split.
  - rewrite <- (Permutation_length Hp). exact Ha.
  - unfold wire_list, dial_list. rewrite Hs. reflexivity.
Qed.
